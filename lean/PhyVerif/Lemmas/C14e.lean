import PhyVerif.Model.C14
import PhyVerif.Lemmas.C09b
import PhyVerif.Lemmas.C14b
/-! Entry-level content of the three amplitude files (spikes.amps, templates.amps, clusters.amps) in terms of the
STORED arrays and the unit factor; composition of C09 `spikeAmpUnit_eq` / `ampsVUnit_eq_mean`.
Statements: `Props/C14.lean`. -/
namespace PhyVerif.C14.Lemmas
open PhyVerif PhyVerif.C09 PhyVerif.C14

/-- a mean over the member spikes of `t` of values that are, ON THE MEMBERS, the stored values times one constant -/
theorem meanOver_members_const (s : List Nat) (w a : List Rat) (K : Rat) (t : Nat)
    (h : ∀ i, i < s.length → s.getD i 0 = t → w.getD i 0 = a.getD i 0 * K) :
    meanOver s w t = (meanOver s a t).map (· * K) := by
  unfold meanOver
  have hm : ((membersOf s t).map fun i => w.getD i 0) = (membersOf s t).map fun i => a.getD i 0 * K := by
    apply List.map_congr_left
    intro i hi
    unfold membersOf at hi
    obtain ⟨h1, h2⟩ := List.mem_filter.1 hi
    exact h i (List.mem_range.1 h1) (beq_iff_eq.1 h2)
  simp only [hm, C09.Lemmas.sum_map_mul_right]
  split
  · rfl
  · simp only [Option.map_some]
    congr 1
    ring

theorem meanOver_none_iff (s : List Nat) (a : List Rat) (t : Nat) : meanOver s a t = none ↔ t ∉ s := by
  unfold meanOver
  simp only
  rw [← C09.Lemmas.count_eq_members]
  by_cases h : s.count t = 0
  · simp [h, List.count_eq_zero.1 h]
  · have : t ∈ s := by
      by_contra hn
      exact h (List.count_eq_zero.2 hn)
    simp [h, this]

/-- third return value of `get_amplitudes_true`, entry by entry, on the stored arrays -/
theorem ampsVUnit_entry (d : Data) (f : Rat) (ha : d.amplitudes.length = d.spikes.length) (t : Nat)
    (ht : t < d.wfsW.length) :
    (ampsVUnit d f).getD t none =
      (meanOver d.spikes d.amplitudes t).map
        (· * (listMax (chAmps (matMul (d.wfsW.getD t []) d.wmi)) * f)) := by
  rw [(C09.Lemmas.ampsVUnit_eq_mean d f ha t ht).1]
  apply meanOver_members_const
  intro i hi hit
  rw [(C09.Lemmas.spikeAmpUnit_eq d f i hi ha (by rw [hit]; exact ht)).1, hit]
  ring

theorem getD_mem_self' (sc : List Nat) (i : Nat) (hi : i < sc.length) : sc.getD i 0 ∈ sc := by
  rw [List.getD_eq_getElem?_getD, List.getElem?_eq_getElem hi]
  exact List.getElem_mem hi

/-- `hsT`, `hsC` (EVERY spike id is below the number of waveforms) stand in front of the whole conjunction: the real
`get_amplitudes_true` indexes `templates_amps_au[spikes]` as one batch (model.py:1146) and raises `IndexError` as soon as
ONE id is out of range — no file is written then, so no conjunct may be asserted there. -/
theorem amp_files_entries (dT dC : Data) (f : Rat) (indsT indsC : List (List Nat))
    (haT : dT.amplitudes.length = dT.spikes.length) (haC : dC.amplitudes.length = dC.spikes.length)
    (hsT : ∀ s ∈ dT.spikes, s < dT.wfsW.length) (_hsC : ∀ s ∈ dC.spikes, s < dC.wfsW.length) :
    (∀ i, i < dT.spikes.length →
      (exportAmpFiles dT dC f indsT indsC).spikesAmps.getD i 0 =
        dT.amplitudes.getD i 0 * listMax (chAmps (matMul (dT.wfsW.getD (dT.spikes.getD i 0) []) dT.wmi)) * f) ∧
    (∀ t, t < dT.wfsW.length →
      (exportAmpFiles dT dC f indsT indsC).templatesAmps.getD t none =
        (meanOver dT.spikes dT.amplitudes t).map
          (· * (listMax (chAmps (matMul (dT.wfsW.getD t []) dT.wmi)) * f)) ∧
      ((exportAmpFiles dT dC f indsT indsC).templatesAmps.getD t none = none ↔ t ∉ dT.spikes)) ∧
    (∀ c, c < dC.wfsW.length →
      (exportAmpFiles dT dC f indsT indsC).clustersAmps.getD c none =
        (meanOver dC.spikes dC.amplitudes c).map
          (· * (listMax (chAmps (matMul (dC.wfsW.getD c []) dC.wmi)) * f)) ∧
      ((exportAmpFiles dT dC f indsT indsC).clustersAmps.getD c none = none ↔ c ∉ dC.spikes)) ∧
    (exportAmpFiles dT dC f indsT indsC).spikesAmps.length = dT.spikes.length ∧
    (exportAmpFiles dT dC f indsT indsC).templatesAmps.length = dT.wfsW.length ∧
    (exportAmpFiles dT dC f indsT indsC).clustersAmps.length = dC.wfsW.length := by
  have hT : ∀ t, t < dT.wfsW.length → (exportAmpFiles dT dC f indsT indsC).templatesAmps.getD t none =
      (meanOver dT.spikes dT.amplitudes t).map
        (· * (listMax (chAmps (matMul (dT.wfsW.getD t []) dT.wmi)) * f)) :=
    fun t ht => ampsVUnit_entry dT f haT t ht
  have hC : ∀ c, c < dC.wfsW.length → (exportAmpFiles dT dC f indsT indsC).clustersAmps.getD c none =
      (meanOver dC.spikes dC.amplitudes c).map
        (· * (listMax (chAmps (matMul (dC.wfsW.getD c []) dC.wmi)) * f)) :=
    fun c hc => ampsVUnit_entry dC f haC c hc
  have hnone : ∀ (o : Option Rat) (K : Rat), o.map (· * K) = none ↔ o = none := by
    intro o K; cases o <;> simp
  refine ⟨fun i hi => (C09.Lemmas.spikeAmpUnit_eq dT f i hi haT (hsT _ (getD_mem_self' dT.spikes i hi))).1,
    fun t ht => ⟨hT t ht, by rw [hT t ht, hnone, meanOver_none_iff]⟩,
    fun c hc => ⟨hC c hc, by rw [hC c hc, hnone, meanOver_none_iff]⟩,
    (by simp [exportAmpFiles, amplitudesTrue, spikeAmpsUnit, C09.Lemmas.spikeAmps_length dT haT]), ?_, ?_⟩ <;>
  simp [exportAmpFiles, amplitudesTrue, ampsVUnit, ampsV, bincountW, bincountN]

end PhyVerif.C14.Lemmas
