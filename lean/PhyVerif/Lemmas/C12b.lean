import PhyVerif.Model.C12b
import PhyVerif.Spec.C12
import PhyVerif.Lemmas.C11
import PhyVerif.Lemmas.C12
/-! Template-index tables land in the merged template numbering. -/
namespace PhyVerif.C12.Lemmas
open PhyVerif PhyVerif.C12

theorem sizeOffsetsFrom_length_b (sizes : List Nat) :
    ∀ off, (C11.sizeOffsetsFrom off sizes).length = sizes.length := by
  induction sizes with
  | nil => intro off; rfl
  | cons s rest ih => intro off; simp [C11.sizeOffsetsFrom, ih]

theorem sizeOffsetsFrom_getD_b (sizes : List Nat) :
    ∀ off k, k < sizes.length → (C11.sizeOffsetsFrom off sizes).getD k 0 = off + prefixSum sizes k := by
  induction sizes with
  | nil => intro off k hk; simp at hk
  | cons s rest ih =>
    intro off k hk
    cases k with
    | zero => simp [C11.sizeOffsetsFrom, prefixSum]
    | succ k =>
      have hk' : k < rest.length := by simpa using hk
      rw [C11.sizeOffsetsFrom, List.getD_cons_succ, ih _ k hk', prefixSum_cons_succ]
      omega

theorem prefixSum_succ_b (sizes : List Nat) :
    ∀ k, k < sizes.length → prefixSum sizes (k + 1) = prefixSum sizes k + sizes.getD k 0 := by
  induction sizes with
  | nil => intro k hk; simp at hk
  | cons s rest ih =>
    intro k hk
    cases k with
    | zero => simp [prefixSum]
    | succ k =>
      have hk' : k < rest.length := by simpa using hk
      rw [prefixSum_cons_succ, prefixSum_cons_succ, ih k hk', List.getD_cons_succ]
      omega

theorem prefixSum_mono_b (sizes : List Nat) (a : Nat) :
    ∀ b, a ≤ b → b ≤ sizes.length → prefixSum sizes a ≤ prefixSum sizes b := by
  intro b hab
  induction hab with
  | refl => intro _; exact Nat.le_refl _
  | @step m _ ih =>
    intro hm
    have := prefixSum_succ_b sizes m (by omega)
    have := ih (by omega)
    show prefixSum sizes a ≤ prefixSum sizes (m + 1)
    omega

theorem tf_ind_in_block (ids : List (List Nat)) (counts : List Nat) (tables : List (List (List Nat)))
    (k r j : Nat) (hk : k < ids.length) (hlenc : counts.length = ids.length) (hlent : tables.length = ids.length)
    (hr : r < (tables.getD k []).length) (hj : j < ((tables.getD k []).getD r []).length)
    (hc : ((tables.getD k []).getD r []).getD j 0 < (C11.templateSizes ids counts).getD k 0) :
    let c := ((tables.getD k []).getD r []).getD j 0
    let c' := ((mergeTfInd ids counts tables).getD (prefixSum (tables.map List.length) k + r) []).getD j 0
    let off := fun i => (C11.templateOffsets ids counts).getD i 0
    let size := fun i => (C11.templateSizes ids counts).getD i 0
    c' = c + off k ∧ off k ≤ c' ∧ c' < off k + size k ∧
    ∀ l, l < ids.length → l ≠ k → ¬ (off l ≤ c' ∧ c' < off l + size l) := by
  intro c c' off size
  have hsl : (C11.templateSizes ids counts).length = ids.length := by
    simp [C11.templateSizes, hlenc]
  have hol : (C11.templateOffsets ids counts).length = tables.length := by
    rw [C11.templateOffsets, sizeOffsetsFrom_length_b, hsl, hlent]
  have hoff : ∀ i, i < ids.length → off i = prefixSum (C11.templateSizes ids counts) i := by
    intro i hi
    show (C11.templateOffsets ids counts).getD i 0 = _
    rw [C11.templateOffsets, sizeOffsetsFrom_getD_b _ 0 i (by omega)]
    omega
  have hc' : c' = c + off k := by
    show ((mergeTfInd ids counts tables).getD (prefixSum (tables.map List.length) k + r) []).getD j 0 = _
    rw [mergeTfInd, tables_shifted tables _ hol k r j hr, if_pos hj]
  have hc2 : c < size k := hc
  refine ⟨hc', by omega, by omega, ?_⟩
  intro l hl hne ⟨h1, h2⟩
  have hsucc : ∀ i, i < ids.length →
      prefixSum (C11.templateSizes ids counts) (i + 1) = off i + size i := by
    intro i hi
    rw [prefixSum_succ_b _ i (by omega), hoff i hi]
  rcases Nat.lt_or_gt_of_ne hne with hlk | hkl
  · have := prefixSum_mono_b (C11.templateSizes ids counts) (l + 1) k hlk (by omega)
    rw [hsucc l hl, ← hoff k hk] at this
    omega
  · have := prefixSum_mono_b (C11.templateSizes ids counts) (k + 1) l hkl (by omega)
    rw [hsucc k hk, ← hoff l hl] at this
    omega

end PhyVerif.C12.Lemmas
