import PhyVerif.Model.C18p
import PhyVerif.Spec.C18p
import PhyVerif.Lemmas.C18t
/-! `write_python` then `read_python` (C18). Statement: `Props/C18.lean`. -/
namespace PhyVerif.C18.Lemmas
open PhyVerif PhyVerif.C18

/-! ### tokens of what was written -/

/-- the end of a name / number token: end of line, a blank, or a punctuation character -/
def Term (tail : Str) : Prop := tail = [] ∨ ∃ c cs, tail = c :: cs ∧ (isSpace c = true ∨ isPunct c = true)

theorem consAtom_atom (c : Char) (s : Str) (ts : List Tok) : consAtom c (.atom s :: ts) = .atom (c :: s) :: ts := rfl
theorem consStr_str (c : Char) (s : Str) (ts : List Tok) : consStr c (.str s :: ts) = .str (c :: s) :: ts := rfl

theorem tAtom_atomChars (tail : Str) (ht : Term tail) : ∀ (a : Str), AtomChars a →
    tAtom (a ++ tail) = .atom a :: tDefault tail
  | [], _ => by
    rcases ht with rfl | ⟨c, cs, rfl, hc | hc⟩
    · simp [tAtom, tDefault]
    · simp [tAtom, tDefault, hc]
    · cases hs : isSpace c
      · simp [tAtom, tDefault, hc, hs]
      · simp [tAtom, tDefault, hs]
  | c :: a, h => by
    have hc := h c List.mem_cons_self
    have ih := tAtom_atomChars tail ht a (fun x hx => h x (List.mem_cons_of_mem _ hx))
    simp [tAtom, hc.1, hc.2.1, hc.2.2, ih, consAtom_atom]

theorem tDefault_atom (tail : Str) (ht : Term tail) (c : Char) (a : Str) (h : AtomChars (c :: a)) :
    tDefault (c :: a ++ tail) = .atom (c :: a) :: tDefault tail := by
  have hc := h c List.mem_cons_self
  have := tAtom_atomChars tail ht a (fun x hx => h x (List.mem_cons_of_mem _ hx))
  simp [tDefault, hc.1, hc.2.1, hc.2.2, this, consAtom_atom]

theorem tStr_close (q : Char) (rest : Str) : tStr q (q :: rest) = .str [] :: tDefault rest := by
  cases rest <;> simp [tStr]

theorem tStr_ordinary (q c : Char) (rest : Str) (h1 : c ≠ q) (h2 : c ≠ '\\') :
    tStr q (c :: rest) = consStr c (tStr q rest) := by
  cases rest <;> simp [tStr, h1, h2]

theorem tStr_escape (q e ch : Char) (rest : Str) (hq : q ≠ '\\') (h : unescape e = some ch) :
    tStr q ('\\' :: e :: rest) = consStr ch (tStr q rest) := by
  have : ('\\' == q) = false := beq_eq_false_iff_ne.mpr (Ne.symm hq)
  simp [tStr, this, h]

theorem unescape_self (q : Char) (hq : q = '\'' ∨ q = '"') : unescape q = some q := by
  rcases hq with rfl | rfl <;> decide

/-- a string literal written by `repr` is read back as the string, whatever follows -/
theorem tStr_escapeBody (q : Char) (hq : q = '\'' ∨ q = '"') (tail : Str) : ∀ (s : Str),
    tStr q (escapeBody q s ++ q :: tail) = .str s :: tDefault tail
  | [] => by simp [escapeBody, tStr_close]
  | c :: s => by
    have ih := tStr_escapeBody q hq tail s
    have hqb : q ≠ '\\' := by rcases hq with rfl | rfl <;> decide
    unfold escapeBody
    by_cases h1 : c = '\\'
    · subst h1
      simp only [beq_self_eq_true, if_true, List.cons_append, List.nil_append]
      rw [tStr_escape q '\\' '\\' _ hqb (by decide), ih, consStr_str]
    · by_cases h2 : c = q
      · subst h2
        simp only [beq_iff_eq, h1, if_false, if_true, List.cons_append, List.nil_append]
        rw [tStr_escape c c c _ hqb (unescape_self c hq), ih, consStr_str]
      · by_cases h3 : c = '\n'
        · subst h3
          simp only [beq_iff_eq, h1, h2, if_false, if_true, List.cons_append, List.nil_append]
          rw [tStr_escape q 'n' '\n' _ hqb (by decide), ih, consStr_str]
        · by_cases h4 : c = '\r'
          · subst h4
            simp only [beq_iff_eq, h1, h2, h3, if_false, if_true, List.cons_append, List.nil_append]
            rw [tStr_escape q 'r' '\r' _ hqb (by decide), ih, consStr_str]
          · by_cases h5 : c = '\t'
            · subst h5
              simp only [beq_iff_eq, h1, h2, h3, h4, if_false, if_true, List.cons_append, List.nil_append]
              rw [tStr_escape q 't' '\t' _ hqb (by decide), ih, consStr_str]
            · simp only [beq_iff_eq, h1, h2, h3, h4, h5, if_false, List.cons_append, List.nil_append]
              rw [tStr_ordinary q c _ h2 h1, ih, consStr_str]

/-- a string written between double quotes as it is (no double quote, no backslash inside) -/
theorem tStr_plain (tail : Str) : ∀ (s : Str), (∀ c ∈ s, c ≠ '"' ∧ c ≠ '\\') →
    tStr '"' (s ++ '"' :: tail) = .str s :: tDefault tail
  | [], _ => by simp [tStr_close]
  | c :: s, h => by
    have hc := h c List.mem_cons_self
    have ih := tStr_plain tail s (fun x hx => h x (List.mem_cons_of_mem _ hx))
    rw [List.cons_append, tStr_ordinary '"' c _ hc.1 hc.2, ih, consStr_str]

/-- the token a written scalar is read as -/
def tokOf : PScalar → Tok
  | .str s => .str s.toList
  | a => .atom (reprScalar a)

theorem atomChars_digits_sign (neg : Bool) (ds : Str) (h : ∀ x ∈ ds, x.isDigit = true) :
    AtomChars ((if neg then ['-'] else []) ++ ds) := by
  intro c hc
  have : c = '-' ∨ c ∈ ds := by
    cases neg
    · exact Or.inr (by simpa using hc)
    · simp only [if_true, List.cons_append, List.nil_append] at hc
      rcases List.mem_cons.mp hc with hc | hc
      · exact Or.inl hc
      · exact Or.inr hc
  rcases this with rfl | hc
  · exact ⟨by decide, by decide, by decide⟩
  · have hd := h c hc
    refine ⟨?_, ?_, ?_⟩
    · unfold isSpace
      simp only [Bool.or_eq_false_iff, beq_eq_false_iff_ne]
      exact ⟨ne_of_isDigit hd (by decide), ne_of_isDigit hd (by decide)⟩
    · unfold isPunct
      simp only [Bool.or_eq_false_iff, beq_eq_false_iff_ne]
      exact ⟨⟨⟨⟨⟨ne_of_isDigit hd (by decide), ne_of_isDigit hd (by decide)⟩, ne_of_isDigit hd (by decide)⟩,
        ne_of_isDigit hd (by decide)⟩, ne_of_isDigit hd (by decide)⟩, ne_of_isDigit hd (by decide)⟩
    · unfold isQuote
      simp only [Bool.or_eq_false_iff, beq_eq_false_iff_ne]
      exact ⟨ne_of_isDigit hd (by decide), ne_of_isDigit hd (by decide)⟩

/-- the text of a non-string scalar: non-empty, token characters only, no line break -/
theorem reprScalar_atom (a : PScalar) (ha : PScalarOK a) (hs : ∀ s, a ≠ .str s) :
    ∃ c cs, reprScalar a = c :: cs ∧ AtomChars (c :: cs) ∧ NoBreak (c :: cs) := by
  cases a with
  | none => exact ⟨'N', "one".toList, rfl, by decide, by decide⟩
  | bool b => cases b
              · exact ⟨'F', "alse".toList, rfl, by decide, by decide⟩
              · exact ⟨'T', "rue".toList, rfl, by decide, by decide⟩
  | int i =>
    obtain ⟨neg, c, cs, hl, hall⟩ := intToStr_toList i
    have hd : ∀ x ∈ c :: cs, x.isDigit = true := by rw [List.all_eq_true] at hall; exact hall
    have h1 := atomChars_digits_sign neg (c :: cs) hd
    have h2 := noBreak_intToStr i
    simp only [reprScalar]
    rw [hl] at h2 ⊢
    cases neg
    · exact ⟨c, cs, rfl, h1, h2⟩
    · exact ⟨'-', c :: cs, rfl, h1, h2⟩
  | float lit =>
    obtain ⟨hne, hac, hnb, _⟩ := ha
    simp only [reprScalar]
    cases hl : lit.toList with
    | nil => exact absurd hl hne
    | cons c cs => rw [hl] at hac hnb; exact ⟨c, cs, rfl, hac, hnb⟩
  | str s => exact absurd rfl (hs s)

theorem contains_quote_cases (s : Str) :
    (if s.contains '\'' && !s.contains '"' then '"' else '\'') = '\'' ∨
    (if s.contains '\'' && !s.contains '"' then '"' else '\'') = '"' := by
  split
  · exact Or.inr rfl
  · exact Or.inl rfl

/-- one written scalar followed by something that ends a token -/
theorem tDefault_reprScalar (a : PScalar) (ha : PScalarOK a) (tail : Str) (ht : Term tail) :
    tDefault (reprScalar a ++ tail) = tokOf a :: tDefault tail := by
  by_cases hs : ∃ s, a = .str s
  · obtain ⟨s, rfl⟩ := hs
    simp only [reprScalar, reprStr, tokOf]
    have hq := contains_quote_cases s.toList
    generalize (if s.toList.contains '\'' && !s.toList.contains '"' then '"' else '\'') = q at hq
    have hqq : isQuote q = true := by rcases hq with rfl | rfl <;> decide
    have hsp : isSpace q = false := by rcases hq with rfl | rfl <;> decide
    have hpu : isPunct q = false := by rcases hq with rfl | rfl <;> decide
    simp only [List.cons_append, List.append_assoc, List.singleton_append]
    simp [tDefault, hqq, hsp, hpu, tStr_escapeBody q hq tail s.toList]
  · have hs' : ∀ s, a ≠ .str s := fun s h => hs ⟨s, h⟩
    obtain ⟨c, cs, hr, hac, _⟩ := reprScalar_atom a ha hs'
    have ht' : tokOf a = .atom (reprScalar a) := by
      cases a <;> first | rfl | exact absurd rfl (hs' _)
    rw [ht', hr]
    exact tDefault_atom tail ht c cs hac

/-- the tokens of the elements of a list / tuple -/
def seqToks : List PScalar → List Tok
  | [] => []
  | [a] => [tokOf a]
  | a :: b :: r => tokOf a :: .punct ',' :: seqToks (b :: r)

theorem term_punct (c : Char) (cs : Str) (h : isPunct c = true) : Term (c :: cs) :=
  Or.inr ⟨c, cs, rfl, Or.inr h⟩

theorem tDefault_joinComma (c : Char) (hc : isPunct c = true) (tail : Str) : ∀ (l : List PScalar),
    (∀ a ∈ l, PScalarOK a) →
    tDefault (joinComma (l.map reprScalar) ++ c :: tail) = seqToks l ++ tDefault (c :: tail)
  | [], _ => by simp [joinComma, seqToks]
  | [a], h => by
    simp only [List.map_cons, List.map_nil, joinComma, seqToks, List.singleton_append]
    exact tDefault_reprScalar a (h a List.mem_cons_self) _ (term_punct c tail hc)
  | a :: b :: r, h => by
    have ih := tDefault_joinComma c hc tail (b :: r) (fun x hx => h x (List.mem_cons_of_mem _ hx))
    simp only [List.map_cons, joinComma, seqToks, List.append_assoc, List.cons_append] at ih ⊢
    rw [tDefault_reprScalar a (h a List.mem_cons_self) _ (term_punct ',' _ (by decide))]
    have h1 : tDefault (',' :: ' ' :: (joinComma (reprScalar b :: List.map reprScalar r) ++ c :: tail)) =
        .punct ',' :: tDefault (joinComma (reprScalar b :: List.map reprScalar r) ++ c :: tail) := by
      simp [tDefault, isSpace, isPunct]
    rw [h1, ih]

/-! ### the tokens read back as values -/

theorem parseAtom_int (i : Int) : parseAtom (intToStr i).toList = some (.int i) := by
  obtain ⟨neg, c, cs, hl, hall⟩ := intToStr_toList i
  have hc : c.isDigit = true := by simp at hall; exact hall.1
  have hne : ∀ (x : Char) (rest : Str), x.isDigit = false → x ≠ '-' →
      ((intToStr i).toList == x :: rest) = false := by
    intro x rest hx hm
    rw [hl]
    cases neg
    · simp only [Bool.false_eq_true, if_false, List.nil_append, List.cons_beq_cons]
      rw [beq_eq_false_iff_ne.mpr (ne_of_isDigit hc hx)]; rfl
    · simp only [if_true, List.cons_append, List.nil_append, List.cons_beq_cons]
      rw [beq_eq_false_iff_ne.mpr (Ne.symm hm)]; rfl
  unfold parseAtom
  rw [show "None".toList = 'N' :: "one".toList from rfl, show "True".toList = 'T' :: "rue".toList from rfl,
    show "False".toList = 'F' :: "alse".toList from rfl,
    hne 'N' _ (by decide) (by decide), hne 'T' _ (by decide) (by decide), hne 'F' _ (by decide) (by decide)]
  simp [parseIntLit_intToStr]

theorem parseScalarTok_tokOf (a : PScalar) (ha : PScalarOK a) : parseScalarTok (tokOf a) = some a := by
  cases a with
  | none => decide
  | bool b => cases b <;> decide
  | int i => exact parseAtom_int i
  | float lit => exact ha.2.2.2
  | str s => simp [tokOf, parseScalarTok, String.ofList_toList]

theorem parseSeq_seqToks : ∀ (l : List PScalar), (∀ a ∈ l, PScalarOK a) → parseSeq (seqToks l) = some (l, false)
  | [], _ => rfl
  | [a], h => by simp [seqToks, parseSeq, parseScalarTok_tokOf a (h a List.mem_cons_self)]
  | a :: b :: r, h => by
    have ih := parseSeq_seqToks (b :: r) (fun x hx => h x (List.mem_cons_of_mem _ hx))
    have ha := parseScalarTok_tokOf a (h a List.mem_cons_self)
    cases hs : seqToks (b :: r) with
    | nil => cases r <;> simp [seqToks] at hs
    | cons t ts =>
      rw [hs] at ih
      simp only [seqToks, hs, parseSeq, beq_self_eq_true, if_true, ha, ih, Option.map_some]

theorem seqToks_ne_punct : ∀ (l : List PScalar), ∀ t ∈ seqToks l, t ≠ .punct ']' ∧ t ≠ .punct ')'
  | [], t, h => by simp [seqToks] at h
  | [a], t, h => by
    simp only [seqToks, List.mem_singleton] at h
    subst h
    cases a <;> simp [tokOf]
  | a :: b :: r, t, h => by
    simp only [seqToks, List.mem_cons] at h
    rcases h with rfl | rfl | h
    · cases a <;> simp [tokOf]
    · exact ⟨by decide, by decide⟩
    · exact seqToks_ne_punct (b :: r) t h

/-- the value tokens of what `write_python` wrote for `v`, read back -/
theorem parseValue_strTop (v : PVal) (hv : PValOK v) :
    parseValueToks (tDefault (strTop v)) = some v := by
  cases v with
  | scalar a =>
    by_cases hs : ∃ s, a = .str s
    · obtain ⟨s, rfl⟩ := hs
      have h := tStr_plain [] s.toList hv.1
      simp only [strTop]
      have : tDefault ('"' :: (s.toList ++ ['"'])) = [.str s.toList] := by
        simp [tDefault, isSpace, isPunct, isQuote, h]
      rw [this]
      simp [parseValueToks, parseScalarTok, String.ofList_toList]
    · have hs' : ∀ s, a ≠ .str s := fun s h => hs ⟨s, h⟩
      have ha : PScalarOK a := by cases a <;> first | exact hv | exact absurd rfl (hs' _)
      have hst : strTop (.scalar a) = reprScalar a := by
        cases a <;> first | rfl | exact absurd rfl (hs' _)
      have := tDefault_reprScalar a ha [] (Or.inl rfl)
      rw [hst]
      simp only [List.append_nil] at this
      rw [this]
      simp [tDefault, parseValueToks, parseScalarTok_tokOf a ha]
  | list l =>
    have h := tDefault_joinComma ']' (by decide) [] l hv
    have hcl : tDefault [']'] = [.punct ']'] := by simp [tDefault, isSpace, isPunct]
    simp only [strTop]
    have : tDefault ('[' :: (joinComma (l.map reprScalar) ++ [']'])) = .punct '[' :: (seqToks l ++ [.punct ']']) := by
      rw [show tDefault ('[' :: (joinComma (l.map reprScalar) ++ [']'])) =
        .punct '[' :: tDefault (joinComma (l.map reprScalar) ++ [']']) by simp [tDefault, isSpace, isPunct]]
      rw [h, hcl]
    rw [this]
    simp [parseValueToks, List.getLast?_append, List.dropLast_concat, parseSeq_seqToks l hv]
  | tuple l =>
    have hcl : tDefault [')'] = [.punct ')'] := by simp [tDefault, isSpace, isPunct]
    have hopen : ∀ rest, tDefault ('(' :: rest) = .punct '(' :: tDefault rest := by
      intro rest; simp [tDefault, isSpace, isPunct]
    match l, hv with
    | [a], hv =>
      have ha := hv a List.mem_cons_self
      simp only [strTop]
      rw [hopen, tDefault_reprScalar a ha _ (term_punct ',' _ (by decide))]
      have : tDefault [',', ')'] = [.punct ',', .punct ')'] := by simp [tDefault, isSpace, isPunct]
      rw [this]
      simp [parseValueToks, parseSeq, parseScalarTok_tokOf a ha]
    | [], _ =>
      simp only [strTop, joinComma, List.map_nil, List.nil_append]
      rw [hopen, hcl]
      simp [parseValueToks, parseSeq]
    | a :: b :: r, hv =>
      have h := tDefault_joinComma ')' (by decide) [] (a :: b :: r) hv
      simp only [strTop]
      rw [hopen, h, hcl]
      have hp := parseSeq_seqToks (a :: b :: r) hv
      simp [parseValueToks, List.getLast?_append, List.dropLast_concat, hp]

/-! ### lines -/

theorem atomChars_ident (k : Str) (hk : isIdent k = true) : ∃ c cs, k = c :: cs ∧ AtomChars (c :: cs) := by
  cases k with
  | nil => simp [isIdent] at hk
  | cons c cs =>
    refine ⟨c, cs, rfl, ?_⟩
    simp only [isIdent, Bool.and_eq_true, Bool.or_eq_true, beq_iff_eq, List.all_eq_true] at hk
    have key : ∀ x : Char, (x.isAlphanum = true ∨ x = '_') →
        isSpace x = false ∧ isPunct x = false ∧ isQuote x = false := by
      intro x hx
      have hne : ∀ y : Char, y.isAlphanum = false → y ≠ '_' → x ≠ y := by
        intro y hy hy' hxy
        subst hxy
        rcases hx with hx | hx
        · rw [hx] at hy; exact absurd hy (by decide)
        · exact hy' hx
      refine ⟨?_, ?_, ?_⟩
      · unfold isSpace
        simp only [Bool.or_eq_false_iff, beq_eq_false_iff_ne]
        exact ⟨hne _ (by decide) (by decide), hne _ (by decide) (by decide)⟩
      · unfold isPunct
        simp only [Bool.or_eq_false_iff, beq_eq_false_iff_ne]
        exact ⟨⟨⟨⟨⟨hne _ (by decide) (by decide), hne _ (by decide) (by decide)⟩, hne _ (by decide) (by decide)⟩,
          hne _ (by decide) (by decide)⟩, hne _ (by decide) (by decide)⟩, hne _ (by decide) (by decide)⟩
      · unfold isQuote
        simp only [Bool.or_eq_false_iff, beq_eq_false_iff_ne]
        exact ⟨hne _ (by decide) (by decide), hne _ (by decide) (by decide)⟩
    intro x hx
    rcases List.mem_cons.mp hx with rfl | hx
    · rcases hk.1.1 with h | h
      · exact key x (Or.inl (by simp [Char.isAlphanum, h]))
      · exact key x (Or.inr h)
    · have := hk.1.2 x hx
      exact key x (by simpa using this)

/-- one written line is read back as its assignment -/
theorem parseLine_written (k : String) (v : PVal) (hk : ParamKeyOK k) (hv : PValOK v) :
    parseLine (k.toList ++ (' ' :: '=' :: ' ' :: strTop v)) = some (some (k, v)) := by
  obtain ⟨c, cs, hkl, hac⟩ := atomChars_ident k.toList hk
  unfold parseLine
  rw [hkl, tDefault_atom _ (Or.inr ⟨' ', _, rfl, Or.inl (by decide)⟩) c cs hac]
  have : tDefault (' ' :: '=' :: ' ' :: strTop v) = .punct '=' :: tDefault (strTop v) := by
    simp [tDefault, isSpace, isPunct]
  rw [this]
  simp only
  rw [← hkl, hk, parseValue_strTop v hv]
  simp [String.ofList_toList]

/-! ### the file -/

theorem universalNewlines_nl_line (rest : Str) : ∀ (l : Str), NoBreak l →
    universalNewlines false (l ++ '\n' :: rest) = l ++ '\n' :: universalNewlines false rest
  | [], _ => by simp [universalNewlines]
  | c :: l, h => by
    have hc := h c List.mem_cons_self
    have ih := universalNewlines_nl_line rest l (fun x hx => h x (List.mem_cons_of_mem _ hx))
    simp [universalNewlines, hc.1, hc.2, ih]

theorem universalNewlines_nl_lines : ∀ (ls : List Str), (∀ l ∈ ls, NoBreak l) →
    universalNewlines false (ls.flatMap fun l => l ++ ['\n']) = ls.flatMap fun l => l ++ ['\n']
  | [], _ => by simp [universalNewlines]
  | l :: ls, h => by
    have ih := universalNewlines_nl_lines ls (fun x hx => h x (List.mem_cons_of_mem _ hx))
    simp only [List.flatMap_cons, List.append_assoc, List.cons_append, List.nil_append]
    rw [universalNewlines_nl_line _ l (h l List.mem_cons_self), ih]

/-- lines without line break, each followed by `\n`, read back through `read_text` -/
theorem fileLines_nl (ls : List Str) (h : ∀ l ∈ ls, NoBreak l) :
    fileLines (ls.flatMap fun l => l ++ ['\n']) = ls := by
  unfold fileLines
  rw [universalNewlines_nl_lines ls h, splitLines_lines ls h]

theorem noBreak_escapeBody (q : Char) (hq : q = '\'' ∨ q = '"') : ∀ (s : Str), NoBreak (escapeBody q s)
  | [] => by intro c hc; simp [escapeBody] at hc
  | x :: s => by
    have ih := noBreak_escapeBody q hq s
    have hqn : q ≠ '\r' ∧ q ≠ '\n' := by rcases hq with rfl | rfl <;> exact ⟨by decide, by decide⟩
    intro c hc
    unfold escapeBody at hc
    rcases List.mem_append.mp hc with hc | hc
    · split at hc
      · simp only [List.mem_cons, List.not_mem_nil, or_false] at hc
        rcases hc with rfl | rfl <;> exact ⟨by decide, by decide⟩
      · split at hc
        · simp only [List.mem_cons, List.not_mem_nil, or_false] at hc
          rcases hc with rfl | rfl
          · exact ⟨by decide, by decide⟩
          · exact hqn
        · split at hc
          · simp only [List.mem_cons, List.not_mem_nil, or_false] at hc
            rcases hc with rfl | rfl <;> exact ⟨by decide, by decide⟩
          · split at hc
            · simp only [List.mem_cons, List.not_mem_nil, or_false] at hc
              rcases hc with rfl | rfl <;> exact ⟨by decide, by decide⟩
            · split at hc
              · simp only [List.mem_cons, List.not_mem_nil, or_false] at hc
                rcases hc with rfl | rfl <;> exact ⟨by decide, by decide⟩
              · rename_i h1 h2 h3 h4 h5
                simp only [List.mem_singleton] at hc
                subst hc
                exact ⟨by simpa using h4, by simpa using h3⟩
    · exact ih c hc

theorem noBreak_append {a b : Str} (ha : NoBreak a) (hb : NoBreak b) : NoBreak (a ++ b) := by
  intro c hc
  rcases List.mem_append.mp hc with h | h
  · exact ha c h
  · exact hb c h

theorem noBreak_cons {c : Char} {a : Str} (hc : c ≠ '\r' ∧ c ≠ '\n') (ha : NoBreak a) : NoBreak (c :: a) := by
  intro x hx
  rcases List.mem_cons.mp hx with rfl | h
  · exact hc
  · exact ha x h

theorem noBreak_reprScalar (a : PScalar) (ha : PScalarOK a) : NoBreak (reprScalar a) := by
  by_cases hs : ∃ s, a = .str s
  · obtain ⟨s, rfl⟩ := hs
    simp only [reprScalar, reprStr]
    have hq := contains_quote_cases s.toList
    generalize (if s.toList.contains '\'' && !s.toList.contains '"' then '"' else '\'') = q at hq
    have hqn : q ≠ '\r' ∧ q ≠ '\n' := by rcases hq with rfl | rfl <;> exact ⟨by decide, by decide⟩
    exact noBreak_cons hqn (noBreak_append (noBreak_escapeBody q hq _) (noBreak_cons hqn noBreak_nil))
  · obtain ⟨c, cs, hr, _, hnb⟩ := reprScalar_atom a ha (fun s h => hs ⟨s, h⟩)
    rw [hr]; exact hnb

theorem noBreak_joinComma : ∀ (l : List Str), (∀ x ∈ l, NoBreak x) → NoBreak (joinComma l)
  | [], _ => noBreak_nil
  | [x], h => h x List.mem_cons_self
  | x :: y :: r, h => by
    have ih := noBreak_joinComma (y :: r) (fun z hz => h z (List.mem_cons_of_mem _ hz))
    simp only [joinComma]
    exact noBreak_append (h x List.mem_cons_self)
      (noBreak_cons ⟨by decide, by decide⟩ (noBreak_cons ⟨by decide, by decide⟩ ih))

theorem noBreak_strTop (v : PVal) (hv : PValOK v) : NoBreak (strTop v) := by
  have hseq : ∀ l : List PScalar, (∀ a ∈ l, PScalarOK a) → NoBreak (joinComma (l.map reprScalar)) := by
    intro l hl
    apply noBreak_joinComma
    intro x hx
    obtain ⟨a, ha, rfl⟩ := List.mem_map.mp hx
    exact noBreak_reprScalar a (hl a ha)
  cases v with
  | scalar a =>
    by_cases hs : ∃ s, a = .str s
    · obtain ⟨s, rfl⟩ := hs
      simp only [strTop]
      exact noBreak_cons ⟨by decide, by decide⟩ (noBreak_append hv.2.1 (noBreak_cons ⟨by decide, by decide⟩ noBreak_nil))
    · have hs' : ∀ s, a ≠ .str s := fun s h => hs ⟨s, h⟩
      have ha : PScalarOK a := by cases a <;> first | exact hv | exact absurd rfl (hs' _)
      have hst : strTop (.scalar a) = reprScalar a := by
        cases a <;> first | rfl | exact absurd rfl (hs' _)
      rw [hst]; exact noBreak_reprScalar a ha
  | list l =>
    simp only [strTop]
    exact noBreak_cons ⟨by decide, by decide⟩ (noBreak_append (hseq l hv) (noBreak_cons ⟨by decide, by decide⟩ noBreak_nil))
  | tuple l =>
    match l, hv with
    | [a], hv =>
      simp only [strTop]
      exact noBreak_cons ⟨by decide, by decide⟩ (noBreak_append (noBreak_reprScalar a (hv a List.mem_cons_self))
        (noBreak_cons ⟨by decide, by decide⟩ (noBreak_cons ⟨by decide, by decide⟩ noBreak_nil)))
    | [], _ => simp only [strTop]; decide
    | a :: b :: r, hv =>
      simp only [strTop]
      exact noBreak_cons ⟨by decide, by decide⟩ (noBreak_append (hseq _ hv) (noBreak_cons ⟨by decide, by decide⟩ noBreak_nil))

theorem noBreak_ident (k : Str) (hk : isIdent k = true) : NoBreak k := by
  obtain ⟨c, cs, rfl, _⟩ := atomChars_ident k hk
  simp only [isIdent, Bool.and_eq_true, Bool.or_eq_true, beq_iff_eq, List.all_eq_true] at hk
  have key : ∀ x : Char, (x.isAlphanum = true ∨ x = '_') → x ≠ '\r' ∧ x ≠ '\n' := by
    intro x hx
    constructor <;> (intro h; subst h; rcases hx with hx | hx <;> exact absurd hx (by decide))
  intro x hx
  rcases List.mem_cons.mp hx with rfl | hx
  · rcases hk.1.1 with h | h
    · exact key x (Or.inl (by simp [Char.isAlphanum, h]))
    · exact key x (Or.inr h)
  · exact key x (by simpa using hk.1.2 x hx)

/-! ### the dictionary -/

theorem dictSet_new {β : Type} (k : String) (v : β) : ∀ (d : List (String × β)), k ∉ d.map (·.1) →
    dictSet d k v = d ++ [(k, v)]
  | [], _ => rfl
  | (k', v') :: t, h => by
    have h1 : k' ≠ k := fun e => h (by simp [e])
    have h2 : k ∉ t.map (·.1) := fun e => h (by simp [e])
    simp [dictSet, h1, dictSet_new k v t h2]

theorem foldl_dictSet {β : Type} (f : String → String) : ∀ (l acc : List (String × β)),
    ((acc.map (·.1)) ++ l.map (fun kv => f kv.1)).Nodup →
    l.foldl (fun d kv => dictSet d (f kv.1) kv.2) acc = acc ++ l.map fun kv => (f kv.1, kv.2)
  | [], acc, _ => by simp
  | kv :: l, acc, h => by
    have hk : f kv.1 ∉ acc.map (·.1) := by
      intro hm
      rw [List.nodup_append] at h
      exact h.2.2 _ hm _ (by simp) rfl
    have h' : (((acc ++ [(f kv.1, kv.2)]).map (·.1)) ++ l.map (fun kv => f kv.1)).Nodup := by
      simpa [List.map_append, List.append_assoc] using h
    rw [List.foldl_cons, dictSet_new _ _ acc hk, foldl_dictSet f l _ h']
    simp

theorem nodup_of_map {α β : Type} (f : α → β) : ∀ (l : List α), (l.map f).Nodup → l.Nodup
  | [], _ => List.nodup_nil
  | a :: t, h => by
    rw [List.map_cons, List.nodup_cons] at h
    rw [List.nodup_cons]
    exact ⟨fun hm => h.1 (List.mem_map.mpr ⟨a, hm, rfl⟩), nodup_of_map f t h.2⟩

theorem params_roundtrip (d : List (String × PVal)) (hk : ∀ kv ∈ d, ParamKeyOK kv.1)
    (hnd : (d.map fun kv => kv.1.toLower).Nodup) (hv : ∀ kv ∈ d, PValOK kv.2) :
    readPython (writePython d) = some (d.map fun kv => (kv.1.toLower, kv.2)) := by
  have hlines : writePython d =
      (d.map fun kv => kv.1.toList ++ (' ' :: '=' :: ' ' :: strTop kv.2)).flatMap fun l => l ++ ['\n'] := by
    unfold writePython
    simp [List.flatMap_map]
  have hnb : ∀ l ∈ d.map (fun kv => kv.1.toList ++ (' ' :: '=' :: ' ' :: strTop kv.2)), NoBreak l := by
    intro l hl
    obtain ⟨kv, hkv, rfl⟩ := List.mem_map.mp hl
    exact noBreak_append (noBreak_ident _ (hk kv hkv))
      (noBreak_cons ⟨by decide, by decide⟩ (noBreak_cons ⟨by decide, by decide⟩
        (noBreak_cons ⟨by decide, by decide⟩ (noBreak_strTop kv.2 (hv kv hkv)))))
  have hkeys : (d.map (·.1)).Nodup := by
    have := hnd
    rw [show (d.map fun kv => kv.1.toLower) = (d.map (·.1)).map String.toLower by simp [List.map_map]] at this
    exact nodup_of_map _ _ this
  unfold readPython
  rw [hlines, fileLines_nl _ hnb, List.mapM_map]
  rw [mapM_all_some _ (fun kv => some (kv.1, kv.2))]
  · simp only [Option.map_some]
    rw [List.foldl_map]
    have h1 := foldl_dictSet (β := PVal) id d [] (by simpa using hkeys)
    simp only [id, List.nil_append] at h1
    have h1' : List.foldl (fun d s => match (some (s.1, s.2) : Option (String × PVal)) with
        | some kv => dictSet d kv.1 kv.2 | none => d) [] d = d := by
      have : (fun (d : List (String × PVal)) (s : String × PVal) =>
          match (some (s.1, s.2) : Option (String × PVal)) with
          | some kv => dictSet d kv.1 kv.2 | none => d) = fun d kv => dictSet d kv.1 kv.2 := rfl
      rw [this, h1]; simp
    rw [h1']
    have h2 := foldl_dictSet (β := PVal) String.toLower d [] (by simpa using hnd)
    simpa using h2
  · intro kv hkv
    exact parseLine_written kv.1 kv.2 (hk kv hkv) (hv kv hkv)

end PhyVerif.C18.Lemmas
