import PhyVerif.Model.Np
/-! General lemmas about the list versions of the NumPy primitives (`Np.indexTable`, `Np.indexOf`). -/
namespace PhyVerif.Np.Lemmas
open PhyVerif PhyVerif.Np

/-- the fancy assignment `tmp[keys] = vals` as a fold -/
def writeAll (l : List (Nat × Nat)) (t : List Int) : List Int :=
  l.foldl (fun t (p : Nat × Nat) => t.set p.1 (p.2 : Int)) t

theorem writeAll_nil (t : List Int) : writeAll [] t = t := rfl

theorem writeAll_cons (p : Nat × Nat) (l : List (Nat × Nat)) (t : List Int) :
    writeAll (p :: l) t = writeAll l (t.set p.1 (p.2 : Int)) := rfl

theorem writeAll_length (l : List (Nat × Nat)) : ∀ t : List Int, (writeAll l t).length = t.length := by
  induction l with
  | nil => intro t; rfl
  | cons p l ih => intro t; rw [writeAll_cons, ih, List.length_set]

/-- a position that is not written keeps its value -/
theorem writeAll_get_of_not_mem (l : List (Nat × Nat)) (v : Nat) (hv : v ∉ l.map Prod.fst) :
    ∀ t : List Int, (writeAll l t)[v]? = t[v]? := by
  induction l with
  | nil => intro t; rfl
  | cons p l ih =>
    intro t
    rw [List.map_cons, List.mem_cons, not_or] at hv
    rw [writeAll_cons, ih hv.2, List.getElem?_set]
    have : ¬ p.1 = v := fun h => hv.1 h.symm
    simp [this]

/-- with distinct keys, a written position holds the value written to it -/
theorem writeAll_get_of_mem (l : List (Nat × Nat)) (hnd : (l.map Prod.fst).Nodup)
    (p : Nat × Nat) (hp : p ∈ l) :
    ∀ t : List Int, p.1 < t.length → (writeAll l t)[p.1]? = some (p.2 : Int) := by
  induction l with
  | nil => cases hp
  | cons q l ih =>
    intro t hlt
    rw [List.map_cons, List.nodup_cons] at hnd
    rw [writeAll_cons]
    rcases List.mem_cons.mp hp with h | h
    · subst h
      rw [writeAll_get_of_not_mem l p.1 hnd.1, List.getElem?_set]
      simp [hlt]
    · exact ih hnd.2 h _ (by rw [List.length_set]; exact hlt)

theorem le_foldl_max (l : List Nat) : ∀ a : Nat, a ≤ l.foldl max a ∧ ∀ v ∈ l, v ≤ l.foldl max a := by
  induction l with
  | nil => intro a; simp
  | cons b l ih =>
    intro a
    rw [List.foldl_cons]
    have h := ih (max a b)
    refine ⟨by omega, ?_⟩
    intro v hv
    rcases List.mem_cons.mp hv with h1 | h1
    · subst h1; omega
    · exact h.2 v h1

theorem indexTable_eq (lookup : List Nat) :
    indexTable lookup =
      writeAll lookup.zipIdx
        ((List.replicate (lookup.foldl max 0 + 1 + 1) (0 : Int)).set (lookup.foldl max 0 + 1) (-1)) := rfl

theorem indexTable_length (lookup : List Nat) :
    (indexTable lookup).length = lookup.foldl max 0 + 2 := by
  rw [indexTable_eq, writeAll_length, List.length_set, List.length_replicate]

/-- the `_index_of` table maps every member of a duplicate-free lookup to its position -/
theorem indexTable_get (lookup : List Nat) (hnd : lookup.Nodup) (v : Nat) (hv : v ∈ lookup) :
    (indexTable lookup)[v]? = some ((lookup.idxOf v : Nat) : Int) := by
  rw [indexTable_eq]
  have hmem : (v, lookup.idxOf v) ∈ lookup.zipIdx := by
    rw [List.mem_zipIdx_iff_getElem?]
    have hlt : lookup.idxOf v < lookup.length := List.idxOf_lt_length_iff.mpr hv
    simp [List.getElem?_eq_getElem hlt, List.getElem_idxOf hlt]
  have hle : v ≤ lookup.foldl max 0 := (le_foldl_max lookup 0).2 v hv
  exact writeAll_get_of_mem lookup.zipIdx (by rw [List.zipIdx_map_fst]; exact hnd)
    (v, lookup.idxOf v) hmem _ (by rw [List.length_set, List.length_replicate]; omega)

theorem pyGet?_indexTable (lookup : List Nat) (hnd : lookup.Nodup) (c : Int) (h0 : 0 ≤ c)
    (hc : c.toNat ∈ lookup) :
    pyGet? (indexTable lookup) c = some ((lookup.idxOf c.toNat : Nat) : Int) := by
  unfold pyGet?
  rw [if_pos h0]
  exact indexTable_get lookup hnd c.toNat hc

theorem pyGet?_indexTable_nat (lookup : List Nat) (hnd : lookup.Nodup) (v : Nat) (hv : v ∈ lookup) :
    pyGet? (indexTable lookup) (v : Int) = some ((lookup.idxOf v : Nat) : Int) := by
  have := pyGet?_indexTable lookup hnd (v : Int) (by omega) (by simpa using hv)
  simpa using this

theorem mapM_option_eq_some {α β : Type} (f : α → Option β) (g : α → β) :
    ∀ l : List α, (∀ a ∈ l, f a = some (g a)) → l.mapM f = some (l.map g) := by
  intro l
  induction l with
  | nil => intro _; rfl
  | cons a l ih =>
    intro h
    rw [List.mapM_cons, h a (by simp), ih (fun b hb => h b (by simp [hb]))]
    rfl

/-- `_index_of(arr, lookup)` for a duplicate-free lookup containing every (non-negative) value of
`arr`: position of each value in `lookup`. -/
theorem indexOf_eq (arr : List Int) (lookup : List Nat) (hnd : lookup.Nodup)
    (h : ∀ c ∈ arr, 0 ≤ c ∧ c.toNat ∈ lookup) :
    indexOf arr lookup = some (arr.map fun c => ((lookup.idxOf c.toNat : Nat) : Int)) := by
  unfold indexOf
  apply mapM_option_eq_some
  intro c hc
  exact pyGet?_indexTable lookup hnd c (h c hc).1 (h c hc).2

end PhyVerif.Np.Lemmas
