import PhyVerif.Lemmas.C17
/-! Lemmas for the stride-independent reading of C17 (`keptOKAny`, `SpecOKIn`). Core Lean only. -/
namespace PhyVerif.C17.Lemmas
open PhyVerif PhyVerif.C17

theorem keptIntervals_eq_at (bounds : List Int) (nKept : Nat) :
    keptIntervals bounds nKept = keptIntervalsAt bounds (stride (bounds.length - 1) nKept) := rfl

theorem inKept_eq_inIvs (bounds : List Int) (nKept : Nat) (t : Int) :
    inKept bounds nKept t = inIvs (keptIntervals bounds nKept) t := rfl

theorem eligibleSpec_eq_in (x : Inp) (c : Nat) :
    eligibleSpec x c = eligibleSpecIn (keptIntervals x.bounds x.nKept) x c := rfl

theorem specOK_eq_in (x : Inp) (out : List Nat) :
    SpecOK x out = SpecOKIn (keptIntervals x.bounds x.nKept) x out := rfl

theorem pairsOf_flatOf : ∀ (ivs : List (Int × Int)), pairsOf (flatOf ivs) = ivs
  | [] => rfl
  | (a, b) :: t => by
    have ih := pairsOf_flatOf t
    unfold flatOf at ih ⊢
    simp only [List.flatMap_cons, List.cons_append, List.nil_append, pairsOf, ih]

/-- the stride of the code never exceeds the number of chunks (when there is at least one chunk) -/
theorem stride_le (n k : Nat) (hn : 1 ≤ n) (hk : 1 ≤ k) : stride n k ≤ n := by
  unfold stride
  have : (n + k - 1) / k ≤ n := by
    rw [Nat.div_le_iff_le_mul_add_pred (by omega)]
    have : n ≤ n * k := Nat.le_mul_of_pos_right n (by omega)
    have : n * k = k * n := Nat.mul_comm _ _
    omega
  omega

theorem chunksKept_any_stride (bounds : List Int) (nKept : Nat) (hg : GridOK bounds) (hk : 1 ≤ nKept) :
    keptOKAny bounds nKept (chunksKept bounds nKept) = true := by
  unfold keptOKAny
  rw [List.any_eq_true]
  have hs := stride_pos (bounds.length - 1) nKept
  have hle := stride_le (bounds.length - 1) nKept (by have := hg.1; omega) hk
  refine ⟨stride (bounds.length - 1) nKept - 1, List.mem_range.mpr (by have := hg.1; omega), ?_⟩
  have h1 : stride (bounds.length - 1) nKept - 1 + 1 = stride (bounds.length - 1) nKept := by omega
  rw [h1, ← keptIntervals_eq_at]
  have := chunksKept_ok bounds nKept hk
  unfold keptOK at this
  exact this

/-- the code's stride keeps at most `k` chunks, and no smaller regular stride does: as many chunks as the
requested number allows are kept -/
theorem stride_minimal (n k : Nat) (hk : 1 ≤ k) :
    (n + stride n k - 1) / stride n k ≤ k ∧
    ∀ s, 1 ≤ s → (n + s - 1) / s ≤ k → stride n k ≤ s := by
  constructor
  · have := keptStarts_length_le n k hk
    unfold keptStarts at this
    simpa using this
  · intro s hs h
    unfold stride
    -- ceil(n/s) ≤ k  →  n ≤ k*s  →  ceil(n/k) ≤ s
    have h1 : n ≤ k * s := by
      have h2 := Nat.div_add_mod (n + s - 1) s
      have h3 := Nat.mod_lt (n + s - 1) (by omega : s > 0)
      have h4 : s * ((n + s - 1) / s) ≤ s * k := Nat.mul_le_mul_left s h
      have : s * k = k * s := Nat.mul_comm _ _
      omega
    have : (n + k - 1) / k ≤ s := by
      have : (n + k - 1) / k < s + 1 := by
        rw [Nat.div_lt_iff_lt_mul (by omega), Nat.succ_mul]
        have : s * k = k * s := Nat.mul_comm _ _
        omega
      omega
    omega

end PhyVerif.C17.Lemmas
