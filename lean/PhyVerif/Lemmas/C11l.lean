import PhyVerif.Model.C11l
/-! The registers a `Merger` holds when `merge()` starts have no influence on the files it writes nor on the
exception it raises: every register is re-computed from the probe directories before it is read. -/
namespace PhyVerif.C11.Lemmas
open PhyVerif PhyVerif.C11

/-- on registers related by `R` the step raises the same exception, or saves the same files and leaves registers
related by `R'` -/
def CSim (R : Reg → Reg → Prop) (c : Compute) (R' : Reg → Reg → Prop) : Prop :=
  ∀ fs r r', R r r' →
    (∃ e, c fs r = .error e ∧ c fs r' = .error e) ∨
    (∃ ws r1 r1', c fs r = .ok (ws, r1) ∧ c fs r' = .ok (ws, r1') ∧ R' r1 r1')

/-- running the steps from registers related by `R` gives the same file system and the same exception -/
def RSim (out : String) (R : Reg → Reg → Prop) (cs : List Compute) : Prop :=
  ∀ fs r r', R r r' →
    (runSteps (cs.map (saveStep out)) (fs, r)).1.1 = (runSteps (cs.map (saveStep out)) (fs, r')).1.1 ∧
    (runSteps (cs.map (saveStep out)) (fs, r)).2 = (runSteps (cs.map (saveStep out)) (fs, r')).2

theorem RSim_nil (out : String) (R : Reg → Reg → Prop) : RSim out R [] := by
  intro fs r r' _
  exact ⟨rfl, rfl⟩

theorem RSim_cons (out : String) (R R' : Reg → Reg → Prop) (c : Compute) (cs : List Compute)
    (hc : CSim R c R') (hcs : RSim out R' cs) : RSim out R (c :: cs) := by
  intro fs r r' h
  rcases hc fs r r' h with ⟨e, h1, h2⟩ | ⟨ws, r1, r1', h1, h2, hR⟩
  · simp only [List.map_cons, runSteps, saveStep, h1, h2, and_self]
  · simp only [List.map_cons, runSteps, saveStep, h1, h2]
    exact hcs _ r1 r1' hR

/-- equal registers: nothing to show -/
theorem RSim_eq (out : String) (cs : List Compute) : RSim out Eq cs := by
  intro fs r r' h
  subst h
  exact ⟨rfl, rfl⟩

/-! ### the relations between the registers of two runs, stage by stage -/

def L0 : Reg → Reg → Prop := fun _ _ => True
/-- after `write_spike_times` -/
def L1 : Reg → Reg → Prop := fun r r' => r.order = r'.order
/-- after `write_spike_clusters` -/
def L2 : Reg → Reg → Prop := fun r r' =>
  r.order = r'.order ∧ r.clusters = r'.clusters ∧ r.templateOffsets = r'.templateOffsets

macro "csim_close" : tactic =>
  `(tactic| all_goals (first
      | exact Or.inl ⟨_, rfl, rfl⟩
      | exact Or.inr ⟨_, _, _, rfl, rfl, trivial⟩
      | exact Or.inr ⟨_, _, _, rfl, rfl, rfl⟩
      | exact Or.inr ⟨_, _, _, rfl, rfl, ⟨rfl, rfl, rfl⟩⟩))

theorem cParams_sim (subdirs : List String) : CSim L0 (cParams subdirs) L0 := by
  intro fs r r' _
  unfold cParams
  try dsimp only
  repeat' split
  csim_close

theorem cProbeDesc_sim (subdirs : List String) : CSim L0 (cProbeDesc subdirs) L0 := by
  intro fs r r' _
  exact Or.inr ⟨_, _, _, rfl, rfl, trivial⟩

theorem cSpikeTimes_sim (subdirs : List String) : CSim L0 (cSpikeTimes subdirs) L1 := by
  intro fs r r' _
  unfold cSpikeTimes
  try dsimp only
  repeat' split
  csim_close

theorem cAmplitudes_sim (subdirs : List String) : CSim L1 (cAmplitudes subdirs) L1 := by
  intro fs r r' h
  obtain ⟨o, c, t, ch⟩ := r
  obtain ⟨o', c', t', ch'⟩ := r'
  simp only [L1] at h
  subst h
  unfold cAmplitudes
  try dsimp only
  repeat' split
  csim_close

theorem cSpikeTemplatesRaw_sim (subdirs : List String) : CSim L1 (cSpikeTemplatesRaw subdirs) L1 := by
  intro fs r r' h
  obtain ⟨o, c, t, ch⟩ := r
  obtain ⟨o', c', t', ch'⟩ := r'
  simp only [L1] at h
  subst h
  unfold cSpikeTemplatesRaw
  try dsimp only
  repeat' split
  csim_close

/-- `write_spike_clusters` re-creates `cluster_offsets`, `cluster_counts`, `template_offsets` from the probe
directories (merge.py:140-142): whatever the lists held before is dropped -/
theorem cSpikeClusters_sim (subdirs : List String) : CSim L1 (cSpikeClusters subdirs) L2 := by
  intro fs r r' h
  obtain ⟨o, c, t, ch⟩ := r
  obtain ⟨o', c', t', ch'⟩ := r'
  simp only [L1] at h
  subst h
  unfold cSpikeClusters
  try dsimp only
  repeat' split
  csim_close

theorem cClusterData_sim (subdirs : List String) (fn : String) : CSim L2 (cClusterData subdirs fn) L2 := by
  intro fs r r' h
  obtain ⟨o, c, t, ch⟩ := r
  obtain ⟨o', c', t', ch'⟩ := r'
  simp only [L2] at h
  obtain ⟨h1, h2, h3⟩ := h
  subst h1 h2 h3
  unfold cClusterData
  try dsimp only
  repeat' split
  csim_close

/-- `write_channel_data` re-creates `channel_offsets`, `channel_index_offsets` (merge.py:199-203): from here on the
registers of the two runs are equal -/
theorem cChannelData_sim (subdirs : List String) : CSim L2 (cChannelData subdirs) Eq := by
  intro fs r r' h
  obtain ⟨o, c, t, ch⟩ := r
  obtain ⟨o', c', t', ch'⟩ := r'
  simp only [L2] at h
  obtain ⟨h1, h2, h3⟩ := h
  subst h1 h2 h3
  unfold cChannelData
  try dsimp only
  repeat' split
  csim_close

theorem computes_split (subdirs : List String) (out : String) :
    computes subdirs out =
      cParams subdirs :: cProbeDesc subdirs :: cSpikeTimes subdirs :: cAmplitudes subdirs ::
      cSpikeTemplatesRaw subdirs :: cSpikeClusters subdirs :: cClusterData subdirs "cluster_Amplitude.tsv" ::
      cClusterData subdirs "cluster_ContamPct.tsv" :: cClusterData subdirs "cluster_KSLabel.tsv" ::
      cChannelData subdirs ::
      ([cChannelPositions subdirs, cTemplates subdirs, cPcInd subdirs, cTfInd subdirs] ++
        miscNames.map (cMisc subdirs) ++ [cLoadModel out]) := rfl

theorem computes_sim (subdirs : List String) (out : String) : RSim out L0 (computes subdirs out) := by
  rw [computes_split]
  refine RSim_cons out L0 L0 _ _ (cParams_sim subdirs) ?_
  refine RSim_cons out L0 L0 _ _ (cProbeDesc_sim subdirs) ?_
  refine RSim_cons out L0 L1 _ _ (cSpikeTimes_sim subdirs) ?_
  refine RSim_cons out L1 L1 _ _ (cAmplitudes_sim subdirs) ?_
  refine RSim_cons out L1 L1 _ _ (cSpikeTemplatesRaw_sim subdirs) ?_
  refine RSim_cons out L1 L2 _ _ (cSpikeClusters_sim subdirs) ?_
  refine RSim_cons out L2 L2 _ _ (cClusterData_sim subdirs _) ?_
  refine RSim_cons out L2 L2 _ _ (cClusterData_sim subdirs _) ?_
  refine RSim_cons out L2 L2 _ _ (cClusterData_sim subdirs _) ?_
  refine RSim_cons out L2 Eq _ _ (cChannelData_sim subdirs) ?_
  exact RSim_eq out _

theorem mergeFrom_as_fresh (reg0 : Reg) (fs : FS) (subdirs : List String) (out : String) :
    (mergeFrom reg0 fs subdirs out).1.1 = (merge fs subdirs out).1.1 ∧
    (mergeFrom reg0 fs subdirs out).2 = (merge fs subdirs out).2 := by
  unfold mergeFrom merge
  split
  · exact ⟨rfl, rfl⟩
  · exact computes_sim subdirs out fs reg0 {} trivial

end PhyVerif.C11.Lemmas
