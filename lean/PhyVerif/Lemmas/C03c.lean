import PhyVerif.Lemmas.C03
import PhyVerif.Props.C01
/-! C03 through a READER: the one read `_extract_waveform` issues, `traces[max(0, t0):t1]` (traces.py:605), on the
reader objects of C01 — any backend, any number of files, also a derived reader `reader[:, cols]…` — is the
`rowsSlice` of the concatenated recording that the C03 model reads, INCLUDING `t1` beyond the end of the recording
(a window that crosses the last sample), which is outside `C01.InDom` (slice bounds in `[-n, n]`).
Only the property theorems of C01 are used (`reader_attrs_eq_concat`, `reader_getitem_ops_eq_concat`,
`nSamples_eq`), and the definition of the reader's slice normalisation (`getRowsW`, `normBound`, `pyOr`). -/
namespace PhyVerif.C03.Lemmas
open PhyVerif PhyVerif.C01

/-- the stop bound of a slice is clamped to the number of samples (`min(v, n)`, traces.py:69) -/
theorem getRowsW_clamp {α : Type} (b : List Nat) (parts : List (List α)) (lo hi : Int)
    (hhi : 0 < hi) (hN : 0 < b.getLast?.getD 0) :
    getRowsW b parts (.slice (some lo) (some hi)) =
      getRowsW b parts (.slice (some lo) (some (min hi ((b.getLast?.getD 0 : Nat) : Int)))) := by
  have he : normBound (pyOr (some hi) ((b.getLast?.getD 0 : Nat) : Int)) ((b.getLast?.getD 0 : Nat) : Int) =
      normBound (pyOr (some (min hi ((b.getLast?.getD 0 : Nat) : Int))) ((b.getLast?.getD 0 : Nat) : Int))
        ((b.getLast?.getD 0 : Nat) : Int) := by
    unfold normBound pyOr
    simp only []
    rw [if_neg (by omega), if_neg (by omega), if_neg (by omega), if_neg (by omega)]
    omega
  unfold getRowsW
  simp only [he]

theorem getItemOps_clamp {β : Type} (r : Reader (List β)) (lo hi : Int) (hhi : 0 < hi)
    (hN : 0 < r.partBounds.getLast?.getD 0) (ops : List ColSel) :
    getItemOps r (.slice (some lo) (some hi)) ops =
      getItemOps r (.slice (some lo) (some (min hi ((r.partBounds.getLast?.getD 0 : Nat) : Int)))) ops := by
  unfold getItemOps getRowsB
  cases r.backend <;> simp only [getRowsW_clamp r.partBounds r.store lo hi hhi hN]

/-- NumPy's `A[lo:hi']` for `0 ≤ lo < hi' ≤ len A` in `drop`/`take` form -/
theorem npRows_slice {α : Type} (A : List α) (lo hi : Int) (h0 : 0 ≤ lo) (h1 : lo < hi) (h2 : hi ≤ A.length) :
    npRows A (.slice (some lo) (some hi)) = some ((A.drop lo.toNat).take (hi.toNat - lo.toNat)) := by
  unfold npRows
  simp only [C01.Lemmas.sliceIdx_one, C01.Lemmas.npStart, C01.Lemmas.npStop]
  rw [if_neg (by omega), if_neg (by omega), C01.Lemmas.take_range']
  have e1 : (min lo (A.length : Int)).toNat = lo.toNat := by congr 1; omega
  have e2 : (min hi (A.length : Int) - min lo (A.length : Int)).toNat = hi.toNat - lo.toNat := by omega
  rw [e1, e2]

variable {β : Type}

/-- the rows a reader returns for `traces[lo:hi]`, `0 ≤ lo < n_samples`, `lo < hi` (`hi` may exceed `n_samples`) -/
theorem reader_rows_slice (src : Source (List β)) (h : SrcOK src) (r : Reader (List β))
    (hr : build src = some r) (lo hi : Int) (hlo0 : 0 ≤ lo) (hlo : lo < src.concat.length) (hhi : lo < hi)
    (ops : List ColSel) :
    getItemOps r (.slice (some lo) (some hi)) ops =
      .ok ((rowsSlice src.concat lo hi).map (applyCols ops)) := by
  obtain ⟨r', hr', _, _, _, _, _, _, hpb, hstore⟩ := reader_attrs_eq_concat src h
  rw [hr] at hr'; cases hr'
  have hlast : r.partBounds.getLast?.getD 0 = src.concat.length := by
    rw [hpb, nSamples_eq, hstore]; rfl
  rw [getItemOps_clamp r lo hi (by omega) (by rw [hlast]; omega) ops, hlast]
  have hd : InDom src.concat.length (.slice (some lo) (some (min hi (src.concat.length : Int)))) := by
    refine ⟨?_, ?_, ?_⟩
    · intro s hs; cases hs; omega
    · intro e he; cases he; omega
    · rw [C01.Lemmas.sliceIdx_one]
      simp only [C01.Lemmas.npStart, C01.Lemmas.npStop]
      rw [if_neg (by omega), if_neg (by omega)]
      intro hnil
      have := congrArg List.length hnil
      simp only [List.length_range', List.length_nil] at this
      omega
  obtain ⟨rows, hrows, _, hget⟩ := reader_getitem_ops_eq_concat src h r hr _ hd ops (by intro _; rfl)
  rw [hget]
  rw [npRows_slice src.concat lo _ hlo0 (by omega) (by omega)] at hrows
  cases hrows
  congr 2
  unfold rowsSlice
  by_cases hle : hi ≤ src.concat.length
  · rw [show min hi (src.concat.length : Int) = hi by omega]
  · rw [show min hi (src.concat.length : Int) = (src.concat.length : Int) by omega]
    rw [List.take_of_length_le (by simp only [List.length_drop]; omega),
      List.take_of_length_le (by simp only [List.length_drop]; omega)]

end PhyVerif.C03.Lemmas
