import PhyVerif.Model.C20
/-! Helper lemmas and full proofs for C20. Statements: `Props/C20.lean`.

`download` is a finite case tree: it looks at no more than two heads of the data script and three
heads of the checksum script.  The general theorems are proved by destructuring the prior file
state and those heads, letting `simp` evaluate the model on each shape, splitting the remaining
`if hash b = h` tests and closing every leaf with `simp`. -/
namespace PhyVerif.C20.Lemmas
open PhyVerif PhyVerif.C20

theorem ok_implies_checksum_matches (hash : Nat → Nat) (prior : Option Nat)
    (ds : List DataResp) (ss : List SumResp) (h : Nat)
    (hret : (download hash (start prior ds ss)).2 = .skipped ∨ (download hash (start prior ds ss)).2 = .done)
    (hlast : lastSum (download hash (start prior ds ss)).1.log = some (.avail h)) :
    ∃ b, (download hash (start prior ds ss)).1.file = some b ∧ hash b = h := by
  revert hret hlast
  rcases prior with _ | p <;>
  rcases ds with _ | ⟨_ | _, _ | ⟨_ | _, ds⟩⟩ <;>
  rcases ss with _ | ⟨_ | _, _ | ⟨_ | _, _ | ⟨_ | _, ss⟩⟩⟩ <;>
  simp [download, start, checkSum, fetch, logData] <;>
  (repeat' split) <;> simp_all [lastSum]

theorem valid_existing_not_refetched (hash : Nat → Nat) (b : Nat) (ds : List DataResp)
    (ss : List SumResp) :
    let r := download hash (start (some b) ds (.avail (hash b) :: ss))
    r.2 = .skipped ∧ nData r.1.log = 0 ∧ r.1.file = some b := by
  simp [download, start, checkSum, nData]

theorem at_most_one_retry (hash : Nat → Nat) (prior : Option Nat) (ds : List DataResp)
    (ss : List SumResp) : nData (download hash (start prior ds ss)).1.log ≤ 2 := by
  rcases prior with _ | p <;>
  rcases ds with _ | ⟨_ | _, _ | ⟨_ | _, ds⟩⟩ <;>
  rcases ss with _ | ⟨_ | _, _ | ⟨_ | _, _ | ⟨_ | _, ss⟩⟩⟩ <;>
  simp [download, start, checkSum, nData, fetch, logData] <;>
  (repeat' split) <;> simp

theorem mismatch_triggers_retry (hash : Nat → Nat) (b : Nat) (ds : List DataResp) (h : Nat)
    (ss : List SumResp) (hm : hash b ≠ h) :
    nData (download hash (start none (.body b :: ds) (.avail h :: ss))).1.log = 2 := by
  rcases ds with _ | ⟨_ | _, ds⟩ <;>
  rcases ss with _ | ⟨_ | _, ss⟩ <;>
  simp [download, start, checkSum, nData, fetch, logData, hm] <;>
  (repeat' split) <;> simp

theorem persistent_mismatch_raises (hash : Nat → Nat) (b1 b2 h1 h2 : Nat) (ds : List DataResp)
    (ss : List SumResp) (hm1 : hash b1 ≠ h1) (hm2 : hash b2 ≠ h2) :
    (download hash (start none (.body b1 :: .body b2 :: ds) (.avail h1 :: .avail h2 :: ss))).2 = .mismatch := by
  simp [download, start, checkSum, fetch, hm1, hm2]

theorem http_error_raises (hash : Nat → Nat) (prior : Option Nat) (ds : List DataResp)
    (ss : List SumResp)
    (hret : (download hash (start prior ds ss)).2 = .skipped ∨ (download hash (start prior ds ss)).2 = .done) :
    ∀ r ∈ ds.take (nData (download hash (start prior ds ss)).1.log), r ≠ .httpError := by
  revert hret
  rcases prior with _ | p <;>
  rcases ds with _ | ⟨_ | _, _ | ⟨_ | _, ds⟩⟩ <;>
  rcases ss with _ | ⟨_ | _, _ | ⟨_ | _, _ | ⟨_ | _, ss⟩⟩⟩ <;>
  simp [download, start, checkSum, fetch, logData] <;>
  (repeat' split) <;> simp_all [nData]

theorem ok_with_fixed_checksum (hash : Nat → Nat) (prior : Option Nat) (ds : List DataResp) (h n : Nat)
    (hn : 3 ≤ n)
    (hret : (download hash (start prior ds (List.replicate n (.avail h)))).2 = .skipped ∨
            (download hash (start prior ds (List.replicate n (.avail h)))).2 = .done) :
    ∃ b, (download hash (start prior ds (List.replicate n (.avail h)))).1.file = some b ∧ hash b = h := by
  obtain ⟨m, rfl⟩ : ∃ m, n = m + 3 := ⟨n - 3, by omega⟩
  revert hret
  rcases prior with _ | p <;>
  rcases ds with _ | ⟨_ | _, _ | ⟨_ | _, ds⟩⟩ <;>
  simp [List.replicate_succ, download, start, checkSum, fetch, logData] <;>
  (repeat' split) <;> simp_all

theorem retry_iff (hash : Nat → Nat) (b : Nat) (ds : List DataResp) (a : SumResp) (ss : List SumResp) :
    nData (download hash (start none (.body b :: ds) (a :: ss))).1.log = 2 ↔ ∃ h, a = .avail h ∧ hash b ≠ h := by
  rcases a with h | _ <;>
  rcases ds with _ | ⟨_ | _, ds⟩ <;>
  rcases ss with _ | ⟨_ | _, ss⟩ <;>
  simp [download, start, checkSum, nData, fetch, logData] <;>
  (repeat' split) <;> simp_all

theorem raises_iff (hash : Nat → Nat) (prior : Option Nat) (ds : List DataResp) (h n : Nat) (hn : 3 ≤ n) :
    (download hash (start prior ds (List.replicate n (.avail h)))).2 = .mismatch ↔
      (∀ b, prior = some b → hash b ≠ h) ∧
      ∃ b1 b2 rest, ds = .body b1 :: .body b2 :: rest ∧ hash b1 ≠ h ∧ hash b2 ≠ h := by
  obtain ⟨m, rfl⟩ : ∃ m, n = m + 3 := ⟨n - 3, by omega⟩
  rcases prior with _ | p <;>
  rcases ds with _ | ⟨_ | _, _ | ⟨_ | _, ds⟩⟩ <;>
  simp [List.replicate_succ, download, start, checkSum, fetch, logData] <;>
  (repeat' split) <;> simp_all <;> exact ⟨_, _, ⟨rfl, rfl⟩, ‹_›, ‹_›⟩

/-! ### the text of the checksum file -/

theorem dropWhile_white_append (lead rest : List Nat) (h : ∀ c ∈ lead, isWhite c = true) :
    (lead ++ rest).dropWhile isWhite = rest.dropWhile isWhite := by
  induction lead with
  | nil => rfl
  | cons a l ih =>
    have ha : isWhite a = true := h a (by simp)
    simp only [List.cons_append, List.dropWhile_cons, ha, if_true]
    exact ih (fun c hc => h c (by simp [hc]))

theorem takeWhile_field (tok rest : List Nat) (ht : ∀ c ∈ tok, isWhite c = false)
    (hr : rest = [] ∨ ∃ w r, rest = w :: r ∧ isWhite w = true) :
    (tok ++ rest).takeWhile (fun c => !isWhite c) = tok := by
  induction tok with
  | nil =>
    rcases hr with rfl | ⟨w, r, rfl, hw⟩
    · rfl
    · simp [hw]
  | cons a l ih =>
    have ha : isWhite a = false := ht a (by simp)
    simp only [List.cons_append, List.takeWhile_cons, ha, Bool.not_false, if_true]
    rw [ih (fun c hc => ht c (by simp [hc]))]

theorem first_field_of_layout (lead tok rest : List Nat) (hl : ∀ c ∈ lead, isWhite c = true)
    (hne : tok ≠ []) (ht : ∀ c ∈ tok, isWhite c = false)
    (hr : rest = [] ∨ ∃ w r, rest = w :: r ∧ isWhite w = true) :
    firstField (lead ++ (tok ++ rest)) = some tok := by
  unfold firstField
  rw [dropWhile_white_append lead _ hl]
  obtain ⟨a, l, rfl⟩ := List.exists_cons_of_ne_nil hne
  have ha : isWhite a = false := ht a (by simp)
  have hd : ((a :: l) ++ rest).dropWhile isWhite = (a :: l) ++ rest := by
    simp [ha]
  rw [hd, takeWhile_field (a :: l) rest ht hr]

theorem first_field_blank (ws : List Nat) (h : ∀ c ∈ ws, isWhite c = true) : firstField ws = none := by
  unfold firstField
  have := dropWhile_white_append ws [] h
  simp only [List.append_nil, List.dropWhile_nil] at this
  rw [this]; rfl

theorem parse_layout_irrelevant (render : List (Nat × List Nat)) (other : Nat) (lead tok rest : List Nat)
    (hl : ∀ c ∈ lead, isWhite c = true) (hne : tok ≠ []) (ht : ∀ c ∈ tok, isWhite c = false)
    (hr : rest = [] ∨ ∃ w r, rest = w :: r ∧ isWhite w = true) :
    parseSum render other (.text (lead ++ (tok ++ rest))) = parseSum render other (.text tok) := by
  have h1 := first_field_of_layout lead tok rest hl hne ht hr
  have h2 := first_field_of_layout [] tok [] (by simp) hne ht (Or.inl rfl)
  simp only [List.nil_append, List.append_nil] at h2
  simp only [parseSum, h1, h2]

theorem parse_blank_missing (render : List (Nat × List Nat)) (other : Nat) (ws : List Nat)
    (h : ∀ c ∈ ws, isWhite c = true) : parseSum render other (.text ws) = .missing := by
  simp only [parseSum, first_field_blank ws h]

theorem parse_publishes (render : List (Nat × List Nat)) (other h : Nat) (lead tok rest : List Nat)
    (hl : ∀ c ∈ lead, isWhite c = true) (hne : tok ≠ []) (ht : ∀ c ∈ tok, isWhite c = false)
    (hr : rest = [] ∨ ∃ w r, rest = w :: r ∧ isWhite w = true)
    (hd : render.find? (fun r => r.2 == tok.map lowerAscii) = some (h, tok.map lowerAscii)) :
    parseSum render other (.text (lead ++ (tok ++ rest))) = .avail h := by
  have h1 := first_field_of_layout lead tok rest hl hne ht hr
  simp only [parseSum, h1, hd]

theorem valid_existing_not_refetched_text (hash : Nat → Nat) (b : Nat) (ds : List DataResp) (ss : List SumResp)
    (render : List (Nat × List Nat)) (other : Nat) (lead tok rest : List Nat)
    (hl : ∀ c ∈ lead, isWhite c = true) (hne : tok ≠ []) (ht : ∀ c ∈ tok, isWhite c = false)
    (hr : rest = [] ∨ ∃ w r, rest = w :: r ∧ isWhite w = true)
    (hd : render.find? (fun r => r.2 == tok.map lowerAscii) = some (hash b, tok.map lowerAscii)) :
    let r := download hash (start (some b) ds (parseSum render other (.text (lead ++ (tok ++ rest))) :: ss))
    r.2 = .skipped ∧ nData r.1.log = 0 ∧ r.1.file = some b := by
  rw [parse_publishes render other (hash b) lead tok rest hl hne ht hr hd]
  exact valid_existing_not_refetched hash b ds ss

theorem retry_iff_existing (hash : Nat → Nat) (p b : Nat) (ds : List DataResp) (a0 : SumResp) (ss : List SumResp)
    (hinv : a0 ≠ .avail (hash p)) :
    nData (download hash (start (some p) (.body b :: ds) (a0 :: ss))).1.log = 2 ↔
      ∃ h, ss.head? = some (.avail h) ∧ hash b ≠ h := by
  rcases a0 with h0 | _ <;>
  rcases ds with _ | ⟨_ | _, ds⟩ <;>
  rcases ss with _ | ⟨_ | _, _ | ⟨_ | _, ss⟩⟩ <;>
  simp [download, start, checkSum, nData, fetch, logData] at hinv ⊢ <;>
  (repeat' split) <;> simp_all

theorem no_retry_one_request (hash : Nat → Nat) (prior : Option Nat) (b : Nat) (ds : List DataResp) (ss : List SumResp)
    (hskip : (download hash (start prior (.body b :: ds) ss)).2 ≠ .skipped) :
    nData (download hash (start prior (.body b :: ds) ss)).1.log = 1 ∨
    nData (download hash (start prior (.body b :: ds) ss)).1.log = 2 := by
  revert hskip
  rcases prior with _ | p <;>
  rcases ds with _ | ⟨_ | _, ds⟩ <;>
  rcases ss with _ | ⟨_ | _, _ | ⟨_ | _, _ | ⟨_ | _, ss⟩⟩⟩ <;>
  simp [download, start, checkSum, nData, fetch, logData] <;>
  (repeat' split) <;> simp_all

/-! ### HTTP statuses -/

theorem data_of_error_status (status b : Nat) (h : isHttpError status = true) :
    dataOfStatus status b = .httpError := by
  have h2 : status ≠ 200 := by
    intro e; subst e; simp [isHttpError] at h
  simp [dataOfStatus, getRaises, h, h2]

theorem data_of_200 (b : Nat) : dataOfStatus 200 b = .body b := by
  simp [dataOfStatus, getRaises]

theorem sum_of_error_status (render : List (Nat × List Nat)) (other status : Nat) (t : List Nat)
    (h : isHttpError status = true) : parseSum render other (sumOfStatus status t) = .missing := by
  have h2 : status ≠ 200 := by
    intro e; subst e; simp [isHttpError] at h
  simp [sumOfStatus, getRaises, h, h2, parseSum]

theorem http_error_status_raises (hash : Nat → Nat) (prior : Option Nat) (ds : List (Nat × Nat))
    (ss : List SumResp)
    (hret : (download hash (start prior (ds.map fun a => dataOfStatus a.1 a.2) ss)).2 = .skipped ∨
            (download hash (start prior (ds.map fun a => dataOfStatus a.1 a.2) ss)).2 = .done) :
    ∀ a ∈ ds.take (nData (download hash (start prior (ds.map fun a => dataOfStatus a.1 a.2) ss)).1.log),
      isHttpError a.1 = false := by
  intro a ha
  cases he : isHttpError a.1 with
  | false => rfl
  | true =>
    exfalso
    have hmem : dataOfStatus a.1 a.2 ∈ (ds.map fun a => dataOfStatus a.1 a.2).take
        (nData (download hash (start prior (ds.map fun a => dataOfStatus a.1 a.2) ss)).1.log) := by
      rw [← List.map_take]
      exact List.mem_map_of_mem (f := fun a : Nat × Nat => dataOfStatus a.1 a.2) ha
    exact http_error_raises hash prior _ ss hret _ hmem (data_of_error_status a.1 a.2 he)

end PhyVerif.C20.Lemmas
