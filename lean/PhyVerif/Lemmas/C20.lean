import PhyVerif.Model.C20
/-! Helper lemmas and full proofs for C20. Statements: `Props/C20.lean`.

`download` is a finite case tree: it looks at no more than two heads of the data script and three
heads of the checksum script.  The general theorems are proved by destructuring the prior file
state and those heads, letting `simp` evaluate the model on each shape, splitting the remaining
`if hash b = h` tests and closing every leaf with `simp`. -/
namespace PhyVerif.C20.Lemmas
open PhyVerif PhyVerif.C20

theorem ok_implies_checksum_matches (hash : Nat → Nat) (prior : Option Nat)
    (ds : List DataResp) (ss : List SumResp) (h : Nat)
    (hret : (download hash (start prior ds ss)).2 = .skipped ∨ (download hash (start prior ds ss)).2 = .done)
    (hlast : lastSum (download hash (start prior ds ss)).1.log = some (.avail h)) :
    ∃ b, (download hash (start prior ds ss)).1.file = some b ∧ hash b = h := by
  revert hret hlast
  rcases prior with _ | p <;>
  rcases ds with _ | ⟨_ | _, _ | ⟨_ | _, ds⟩⟩ <;>
  rcases ss with _ | ⟨_ | _, _ | ⟨_ | _, _ | ⟨_ | _, ss⟩⟩⟩ <;>
  simp [download, start, checkSum, fetch, logData] <;>
  (repeat' split) <;> simp_all [lastSum]

theorem valid_existing_not_refetched (hash : Nat → Nat) (b : Nat) (ds : List DataResp)
    (ss : List SumResp) :
    let r := download hash (start (some b) ds (.avail (hash b) :: ss))
    r.2 = .skipped ∧ nData r.1.log = 0 ∧ r.1.file = some b := by
  simp [download, start, checkSum, nData]

theorem at_most_one_retry (hash : Nat → Nat) (prior : Option Nat) (ds : List DataResp)
    (ss : List SumResp) : nData (download hash (start prior ds ss)).1.log ≤ 2 := by
  rcases prior with _ | p <;>
  rcases ds with _ | ⟨_ | _, _ | ⟨_ | _, ds⟩⟩ <;>
  rcases ss with _ | ⟨_ | _, _ | ⟨_ | _, _ | ⟨_ | _, ss⟩⟩⟩ <;>
  simp [download, start, checkSum, nData, fetch, logData] <;>
  (repeat' split) <;> simp

theorem mismatch_triggers_retry (hash : Nat → Nat) (b : Nat) (ds : List DataResp) (h : Nat)
    (ss : List SumResp) (hm : hash b ≠ h) :
    nData (download hash (start none (.body b :: ds) (.avail h :: ss))).1.log = 2 := by
  rcases ds with _ | ⟨_ | _, ds⟩ <;>
  rcases ss with _ | ⟨_ | _, ss⟩ <;>
  simp [download, start, checkSum, nData, fetch, logData, hm] <;>
  (repeat' split) <;> simp

theorem persistent_mismatch_raises (hash : Nat → Nat) (b1 b2 h1 h2 : Nat) (ds : List DataResp)
    (ss : List SumResp) (hm1 : hash b1 ≠ h1) (hm2 : hash b2 ≠ h2) :
    (download hash (start none (.body b1 :: .body b2 :: ds) (.avail h1 :: .avail h2 :: ss))).2 = .mismatch := by
  simp [download, start, checkSum, fetch, hm1, hm2]

theorem http_error_raises (hash : Nat → Nat) (prior : Option Nat) (ds : List DataResp)
    (ss : List SumResp)
    (hret : (download hash (start prior ds ss)).2 = .skipped ∨ (download hash (start prior ds ss)).2 = .done) :
    ∀ r ∈ ds.take (nData (download hash (start prior ds ss)).1.log), r ≠ .httpError := by
  revert hret
  rcases prior with _ | p <;>
  rcases ds with _ | ⟨_ | _, _ | ⟨_ | _, ds⟩⟩ <;>
  rcases ss with _ | ⟨_ | _, _ | ⟨_ | _, _ | ⟨_ | _, ss⟩⟩⟩ <;>
  simp [download, start, checkSum, fetch, logData] <;>
  (repeat' split) <;> simp_all [nData]

theorem ok_with_fixed_checksum (hash : Nat → Nat) (prior : Option Nat) (ds : List DataResp) (h n : Nat)
    (hn : 3 ≤ n)
    (hret : (download hash (start prior ds (List.replicate n (.avail h)))).2 = .skipped ∨
            (download hash (start prior ds (List.replicate n (.avail h)))).2 = .done) :
    ∃ b, (download hash (start prior ds (List.replicate n (.avail h)))).1.file = some b ∧ hash b = h := by
  obtain ⟨m, rfl⟩ : ∃ m, n = m + 3 := ⟨n - 3, by omega⟩
  revert hret
  rcases prior with _ | p <;>
  rcases ds with _ | ⟨_ | _, _ | ⟨_ | _, ds⟩⟩ <;>
  simp [List.replicate_succ, download, start, checkSum, fetch, logData] <;>
  (repeat' split) <;> simp_all

theorem retry_iff (hash : Nat → Nat) (b : Nat) (ds : List DataResp) (a : SumResp) (ss : List SumResp) :
    nData (download hash (start none (.body b :: ds) (a :: ss))).1.log = 2 ↔ ∃ h, a = .avail h ∧ hash b ≠ h := by
  rcases a with h | _ <;>
  rcases ds with _ | ⟨_ | _, ds⟩ <;>
  rcases ss with _ | ⟨_ | _, ss⟩ <;>
  simp [download, start, checkSum, nData, fetch, logData] <;>
  (repeat' split) <;> simp_all

theorem raises_iff (hash : Nat → Nat) (prior : Option Nat) (ds : List DataResp) (h n : Nat) (hn : 3 ≤ n) :
    (download hash (start prior ds (List.replicate n (.avail h)))).2 = .mismatch ↔
      (∀ b, prior = some b → hash b ≠ h) ∧
      ∃ b1 b2 rest, ds = .body b1 :: .body b2 :: rest ∧ hash b1 ≠ h ∧ hash b2 ≠ h := by
  obtain ⟨m, rfl⟩ : ∃ m, n = m + 3 := ⟨n - 3, by omega⟩
  rcases prior with _ | p <;>
  rcases ds with _ | ⟨_ | _, _ | ⟨_ | _, ds⟩⟩ <;>
  simp [List.replicate_succ, download, start, checkSum, fetch, logData] <;>
  (repeat' split) <;> simp_all <;> exact ⟨_, _, ⟨rfl, rfl⟩, ‹_›, ‹_›⟩

end PhyVerif.C20.Lemmas
