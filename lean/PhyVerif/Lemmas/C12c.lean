import PhyVerif.Model.C12c
import PhyVerif.Spec.C12
import PhyVerif.Lemmas.C12
/-! Proofs for the later C12 theorems: optional matrices (`write_misc`), arbitrary (gapped) channel maps. -/
namespace PhyVerif.C12.Lemmas
open PhyVerif PhyVerif.C12

variable {α : Type} [Zero α]

/-! optional files -/

theorem map_some_inj {β : Type} {l l' : List β} (h : l.map some = l'.map some) : l = l' := by
  induction l generalizing l' with
  | nil => cases l' <;> simp_all
  | cons a t ih =>
    cases l' with
    | nil => simp at h
    | cons b t' =>
      simp only [List.map_cons, List.cons.injEq, Option.some.injEq] at h
      rw [h.1, ih h.2]

theorem loadAll_none {β : Type} (ms : List (Option β)) : loadAll ms = none ↔ none ∈ ms := by
  induction ms with
  | nil => simp [loadAll]
  | cons m rest ih =>
    cases m with
    | none => simp [loadAll]
    | some v =>
      cases h : loadAll rest with
      | none => simp [loadAll, h, ih.mp h]
      | some l =>
        have : ¬ none ∈ rest := fun hc => by rw [ih.mpr hc] at h; cases h
        simp [loadAll, h, this]

theorem loadAll_some {β : Type} (ms : List (Option β)) (l : List β) :
    loadAll ms = some l ↔ ms = l.map some := by
  induction ms generalizing l with
  | nil => cases l <;> simp [loadAll]
  | cons m rest ih =>
    cases m with
    | none => cases l <;> simp [loadAll]
    | some v =>
      cases h : loadAll rest with
      | none =>
        have hn := (loadAll_none rest).mp h
        constructor
        · intro hc; simp [loadAll, h] at hc
        · intro hc
          cases l with
          | nil => simp at hc
          | cons a t =>
            simp only [List.map_cons, List.cons.injEq] at hc
            rw [hc.2] at hn; simp at hn
      | some l' =>
        have hr := (ih l').mp h
        cases l with
        | nil => simp [loadAll, h]
        | cons a t =>
          simp only [loadAll, h, Option.some.injEq, List.cons.injEq, List.map_cons]
          constructor
          · rintro ⟨rfl, rfl⟩; exact ⟨rfl, hr⟩
          · rintro ⟨rfl, ht⟩
            refine ⟨rfl, ?_⟩
            rw [hr] at ht
            exact map_some_inj ht

theorem optional_skipped_iff (ms : List (Option (List (List α)))) :
    mergeOptional ms = none ↔ none ∈ ms := by
  rw [← loadAll_none]
  unfold mergeOptional
  cases loadAll ms <;> simp

theorem optional_written (ms : List (Option (List (List α)))) (M : List (List α)) :
    mergeOptional ms = some M ↔ ∃ l, ms = l.map some ∧ M = blockDiag l := by
  unfold mergeOptional
  cases h : loadAll ms with
  | none =>
    simp only [reduceCtorEq, false_iff, not_exists, not_and]
    intro l hl
    rw [(loadAll_some ms l).mpr hl] at h; cases h
  | some l =>
    have hl := (loadAll_some ms l).mp h
    simp only [Option.some.injEq]
    constructor
    · intro hM; exact ⟨l, hl, hM.symm⟩
    · rintro ⟨l', hl', rfl⟩
      rw [hl] at hl'
      rw [map_some_inj hl']

/-! arbitrary channel maps (gaps, dead channels): raw indices of different probes stay apart -/

/-- merged channel map with a starting raw offset -/
def mcmFrom (off : Nat) (maps : List (List Nat)) : List Nat :=
  ((maps.zip (chanOffsetsFrom off maps)).map fun p => p.1.map (· + p.2)).flatten

theorem mcmFrom_cons (off : Nat) (m : List Nat) (rest : List (List Nat)) :
    mcmFrom off (m :: rest) = m.map (· + off) ++ mcmFrom ((m.map (· + off)).foldl max 0 + 1) rest := by
  simp [mcmFrom, chanOffsetsFrom]

theorem mergeChannelMaps_eq (maps : List (List Nat)) : mergeChannelMaps maps = mcmFrom 0 maps := rfl

/-- the next raw offset is above every shifted entry, and (non-empty map) above the current offset -/
theorem next_off_gt (off : Nat) (m : List Nat) :
    (∀ a ∈ m.map (· + off), a < (m.map (· + off)).foldl max 0 + 1) ∧
    (m ≠ [] → off < (m.map (· + off)).foldl max 0 + 1) := by
  have h := (nat_foldl_max (m.map (· + off)) 0).2
  refine ⟨fun a ha => Nat.lt_succ_of_le (h a ha), ?_⟩
  intro hne
  cases m with
  | nil => exact absurd rfl hne
  | cons x t =>
    have := h (x + off) (by simp)
    omega

theorem chanOffsetsFrom_ge (maps : List (List Nat)) (hne : ∀ m ∈ maps, m ≠ []) :
    ∀ (off l : Nat), l < maps.length → off ≤ (chanOffsetsFrom off maps).getD l 0 := by
  induction maps with
  | nil => intro off l hl; simp at hl
  | cons m rest ih =>
    intro off l hl
    cases l with
    | zero => simp [chanOffsetsFrom]
    | succ l =>
      have hl' : l < rest.length := by simpa using hl
      have h1 := ih (fun x hx => hne x (by simp [hx])) ((m.map (· + off)).foldl max 0 + 1) l hl'
      have h2 := (next_off_gt off m).2 (hne m (by simp))
      rw [chanOffsetsFrom, List.getD_cons_succ]
      omega

/-- every shifted raw index of probe `k` is below the raw offset of every later probe -/
theorem chanOffsetsFrom_apart (maps : List (List Nat)) (hne : ∀ m ∈ maps, m ≠ []) :
    ∀ (off k l : Nat), k < l → l < maps.length →
      ∀ a ∈ (maps.getD k []).map (· + (chanOffsetsFrom off maps).getD k 0),
        a < (chanOffsetsFrom off maps).getD l 0 := by
  induction maps with
  | nil => intro off k l _ hl; simp at hl
  | cons m rest ih =>
    intro off k l hkl hl a ha
    have hne' : ∀ x ∈ rest, x ≠ [] := fun x hx => hne x (by simp [hx])
    cases l with
    | zero => omega
    | succ l =>
      have hl' : l < rest.length := by simpa using hl
      rw [chanOffsetsFrom, List.getD_cons_succ]
      cases k with
      | zero =>
        simp only [chanOffsetsFrom, List.getD_cons_zero] at ha
        have h1 := (next_off_gt off m).1 a ha
        have h2 := chanOffsetsFrom_ge rest hne' ((m.map (· + off)).foldl max 0 + 1) l hl'
        omega
      | succ k =>
        simp only [chanOffsetsFrom, List.getD_cons_succ] at ha
        exact ih hne' _ k l (by omega) hl' a ha

theorem mcmFrom_ge (maps : List (List Nat)) (hne : ∀ m ∈ maps, m ≠ []) :
    ∀ (off : Nat), ∀ x ∈ mcmFrom off maps, off ≤ x := by
  induction maps with
  | nil => intro off x hx; simp [mcmFrom] at hx
  | cons m rest ih =>
    intro off x hx
    rw [mcmFrom_cons, List.mem_append] at hx
    rcases hx with hx | hx
    · rcases List.mem_map.mp hx with ⟨y, _, rfl⟩; omega
    · have h1 := ih (fun x hx => hne x (by simp [hx])) _ x hx
      have h2 := (next_off_gt off m).2 (hne m (by simp))
      omega

theorem mcmFrom_nodup (maps : List (List Nat)) (hne : ∀ m ∈ maps, m ≠ []) (hnd : ∀ m ∈ maps, m.Nodup) :
    ∀ (off : Nat), (mcmFrom off maps).Nodup := by
  induction maps with
  | nil => intro off; simp [mcmFrom]
  | cons m rest ih =>
    intro off
    have hne' : ∀ x ∈ rest, x ≠ [] := fun x hx => hne x (by simp [hx])
    rw [mcmFrom_cons, List.nodup_append]
    refine ⟨?_, ih hne' (fun x hx => hnd x (by simp [hx])) _, ?_⟩
    · have hm : m.Pairwise (· ≠ ·) := hnd m (by simp)
      show ((m.map (· + off))).Pairwise (· ≠ ·)
      rw [List.pairwise_map]
      exact hm.imp (fun h => by omega)
    · intro a ha b hb hab
      have h1 := (next_off_gt off m).1 a ha
      have h2 := mcmFrom_ge rest hne' _ b hb
      omega

theorem raw_indices_apart (maps : List (List Nat)) (hne : ∀ m ∈ maps, m ≠ []) (k l i j : Nat) (hkl : k < l)
    (hi : i < (maps.getD k []).length) (hj : j < (maps.getD l []).length) :
    (mergeChannelMaps maps).getD (prefixSum (maps.map List.length) k + i) 0 <
      (mergeChannelMaps maps).getD (prefixSum (maps.map List.length) l + j) 0 := by
  have hl : l < maps.length := lt_length_of_lt_getD_length maps l j hj
  rw [(channels_block_any maps k i hi).1, (channels_block_any maps l j hj).1]
  have h := chanOffsetsFrom_apart maps hne 0 k l hkl hl
    ((maps.getD k []).getD i 0 + (chanOffsets maps).getD k 0) (by
      apply List.mem_map.mpr
      refine ⟨(maps.getD k []).getD i 0, ?_, rfl⟩
      rw [List.getD_eq_getElem?_getD (l := maps.getD k []), List.getElem?_eq_getElem hi]
      exact List.getElem_mem hi)
  show _ < _ + (chanOffsetsFrom 0 maps).getD l 0
  omega

theorem merged_channel_map_nodup (maps : List (List Nat)) (hne : ∀ m ∈ maps, m ≠ [])
    (hnd : ∀ m ∈ maps, m.Nodup) : (mergeChannelMaps maps).Nodup :=
  mcmFrom_nodup maps hne hnd 0

theorem channels_block_gapped (maps : List (List Nat)) (k i : Nat)
    (hi : i < (maps.getD k []).length) :
    (mergeChannelMaps maps).getD (prefixSum (maps.map List.length) k + i) 0 =
        (maps.getD k []).getD i 0 + (chanOffsets maps).getD k 0 ∧
    (channelProbes maps).getD (prefixSum (maps.map List.length) k + i) maps.length = k ∧
    (mergeChannelMaps maps).length = (maps.map List.length).sum ∧
    (channelProbes maps).length = (maps.map List.length).sum := by
  have hlen : (chanOffsets maps).length = maps.length := chanOffsetsFrom_length maps 0
  have hlenr : (List.range' 0 maps.length).length = maps.length := by simp
  refine ⟨(channels_block_any maps k i hi).1, (channels_block_any maps k i hi).2,
    zipFlat_length (fun x o => x + o) maps (chanOffsets maps) hlen, ?_⟩
  rw [channelProbes_eq]
  exact zipFlat_length (fun (_ : Nat) o => o) maps (List.range' 0 maps.length) hlenr

end PhyVerif.C12.Lemmas
