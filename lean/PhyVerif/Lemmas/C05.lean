import PhyVerif.Model.C05
import PhyVerif.Spec.C05
/-! Helper lemmas and full proofs for C05. Statements: `Props/C05.lean`. -/
namespace PhyVerif.C05.Lemmas
open PhyVerif PhyVerif.C09 PhyVerif.C05

theorem dense_record_ok (g : Geometry) (T : Mat) (thr : Rat) (hwf : DenseWF g T)
    (h0 : 0 ≤ thr) (h1 : thr ≤ 1) :
    let (ids, amp, best) := findBestChannels g T thr
    denseOK g T thr ⟨T.map fun row => ids.map fun c => row.getD c 0, ids, amp, best⟩ = true := by
  sorry

theorem getTemplateDense_auto (g : Geometry) (wmi Tw : Mat) (thr : Rat) (unwh : Bool) :
    getTemplateDense g wmi Tw none thr unwh =
      (let T := if unwh then unwhiten wmi Tw none else Tw
       let r := findBestChannels g T thr
       ⟨T.map fun row => r.1.map fun c => row.getD c 0, r.1, r.2.1, r.2.2⟩) := by
  sorry

theorem dense_explicit_ok (g : Geometry) (wmi Tw : Mat) (l : List Nat) (thr : Rat) (unwh : Bool)
    (hwf : DenseWF g (if unwh then unwhiten wmi Tw none else Tw))
    (hl : ∀ c ∈ l, c < ncols (if unwh then unwhiten wmi Tw none else Tw)) :
    denseExplicitOK (if unwh then unwhiten wmi Tw none else Tw) l
      (getTemplateDense g wmi Tw (some l) thr unwh) = true := by
  sorry

theorem sparse_record_ok (wmi Tw : Mat) (cols : List Int) (unwh : Bool)
    (hrect : ∀ row ∈ Tw, row.length = cols.length) (hT : Tw ≠ [])
    (hcols : ∀ c ∈ cols, c = -1 ∨ 0 ≤ c) (hdist : (cols.filter (· ≠ -1)).Nodup) :
    let k := cols.length
    let tmax := (List.range k).map fun j => listMax ((col Tw j).map fun x => if x < 0 then -x else x)
    let keep := (List.range k).filter fun j =>
      decide (tmax.getD j 0 > listMax tmax * (1 / 1000000)) && cols.getD j 0 != -1
    let ch := keep.map fun j => (cols.getD j 0).toNat
    let sub : Mat := Tw.map fun row => keep.map fun j => row.getD j 0
    sparseOK ch (if unwh then unwhiten wmi sub (some ch) else sub)
      (getTemplateSparse wmi Tw cols unwh) = true := by
  sorry

end PhyVerif.C05.Lemmas
