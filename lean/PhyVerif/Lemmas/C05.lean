import PhyVerif.Model.C05
import PhyVerif.Spec.C05
import PhyVerif.Lemmas.C09
import PhyVerif.Lemmas.C11
import Mathlib.Tactic.Linarith
import Mathlib.Algebra.Order.Field.Rat
/-! Helper lemmas and full proofs for C05. Statements: `Props/C05.lean`. -/
namespace PhyVerif.C05.Lemmas
open PhyVerif PhyVerif.C09 PhyVerif.C05

/-! ### stable insertion sort on (rational key, index) pairs -/

/-- the comparison used by `argsortRat` -/
abbrev leK : Rat × Nat → Rat × Nat → Bool := fun a b => decide (a.1 ≤ b.1)

/-- lexicographic (key, index) order -/
def KLt (a b : Rat × Nat) : Prop := a.1 < b.1 ∨ (a.1 = b.1 ∧ a.2 < b.2)

theorem KLt.le {a b : Rat × Nat} (h : KLt a b) : a.1 ≤ b.1 := by
  rcases h with h | h
  · exact le_of_lt h
  · exact le_of_eq h.1

theorem insertBy_stable (x : Rat × Nat) (L : List (Rat × Nat)) (hL : L.Pairwise KLt)
    (hx : ∀ y ∈ L, x.2 < y.2) : (Np.insertBy leK x L).Pairwise KLt := by
  induction L with
  | nil => simp [Np.insertBy]
  | cons y ys ih =>
    rw [List.pairwise_cons] at hL
    unfold Np.insertBy
    split
    · rename_i hxy
      have hxy' : x.1 ≤ y.1 := by simpa using hxy
      refine List.pairwise_cons.2 ⟨?_, List.pairwise_cons.2 hL⟩
      intro z hz
      have hz2 : x.2 < z.2 := hx z hz
      have hz1 : x.1 ≤ z.1 := by
        rcases List.mem_cons.1 hz with rfl | hz'
        · exact hxy'
        · exact le_trans hxy' (hL.1 z hz').le
      rcases lt_or_eq_of_le hz1 with h | h
      · exact Or.inl h
      · exact Or.inr ⟨h, hz2⟩
    · rename_i hxy
      have hxy' : ¬ x.1 ≤ y.1 := by simpa using hxy
      refine List.pairwise_cons.2 ⟨?_, ih hL.2 (fun z hz => hx z (List.mem_cons_of_mem _ hz))⟩
      intro z hz
      rcases List.mem_cons.1 ((C11.Lemmas.insertBy_perm leK x ys).mem_iff.1 hz) with rfl | hz'
      · exact Or.inl (lt_of_not_ge hxy')
      · exact hL.1 z hz'

theorem isort_stable (l : List (Rat × Nat)) (hl : l.Pairwise (fun a b => a.2 < b.2)) :
    (Np.isort leK l).Pairwise KLt := by
  induction l with
  | nil => simp [Np.isort]
  | cons x xs ih =>
    rw [List.pairwise_cons] at hl
    unfold Np.isort
    apply insertBy_stable x _ (ih hl.2)
    intro y hy
    exact hl.1 y ((C11.Lemmas.isort_perm leK xs).mem_iff.1 hy)

/-- plain insertion sort of rationals is sorted -/
abbrev leR : Rat → Rat → Bool := fun a b => decide (a ≤ b)

theorem insertBy_sorted (x : Rat) (L : List Rat) (hL : L.Pairwise (· ≤ ·)) :
    (Np.insertBy leR x L).Pairwise (· ≤ ·) := by
  induction L with
  | nil => simp [Np.insertBy]
  | cons y ys ih =>
    rw [List.pairwise_cons] at hL
    unfold Np.insertBy
    split
    · rename_i hxy
      have hxy' : x ≤ y := by simpa using hxy
      refine List.pairwise_cons.2 ⟨?_, List.pairwise_cons.2 hL⟩
      intro z hz
      rcases List.mem_cons.1 hz with rfl | hz'
      · exact hxy'
      · exact le_trans hxy' (hL.1 z hz')
    · rename_i hxy
      have hxy' : ¬ x ≤ y := by simpa using hxy
      refine List.pairwise_cons.2 ⟨?_, ih hL.2⟩
      intro z hz
      rcases List.mem_cons.1 ((C11.Lemmas.insertBy_perm leR x ys).mem_iff.1 hz) with rfl | hz'
      · exact le_of_lt (lt_of_not_ge hxy')
      · exact hL.1 z hz'

theorem isort_sorted (l : List Rat) : (Np.isort leR l).Pairwise (· ≤ ·) := by
  induction l with
  | nil => simp [Np.isort]
  | cons x xs ih =>
    unfold Np.isort
    exact insertBy_sorted x _ ih

/-- the sorted (key, index) pairs behind `argsortRat` -/
def sp (keys : List Rat) : List (Rat × Nat) := Np.isort leK keys.zipIdx

theorem argsortRat_eq (keys : List Rat) : argsortRat keys = (sp keys).map (·.2) := rfl

theorem sp_perm (keys : List Rat) : (sp keys).Perm keys.zipIdx := C11.Lemmas.isort_perm _ _

theorem sp_pairwise (keys : List Rat) : (sp keys).Pairwise KLt :=
  isort_stable _ (C11.Lemmas.zipIdx_pairwise_snd keys 0)

theorem sp_mem (keys : List Rat) (p : Rat × Nat) (hp : p ∈ sp keys) : keys[p.2]? = some p.1 :=
  List.mem_zipIdx_iff_getElem?.1 ((sp_perm keys).mem_iff.1 hp)

theorem sp_length (keys : List Rat) : (sp keys).length = keys.length := by
  rw [(sp_perm keys).length_eq, List.length_zipIdx]

theorem argsortRat_perm (keys : List Rat) : (argsortRat keys).Perm (List.range keys.length) := by
  rw [argsortRat_eq]
  have h := (sp_perm keys).map (·.2)
  rw [show (keys.zipIdx.map (·.2)) = List.range keys.length by
    rw [List.range_eq_range']; exact List.zipIdx_map_snd 0 keys] at h
  exact h

theorem argsortRat_length (keys : List Rat) : (argsortRat keys).length = keys.length := by
  rw [(argsortRat_perm keys).length_eq, List.length_range]

theorem argsortRat_keys (keys : List Rat) :
    (argsortRat keys).map (fun i => keys.getD i 0) = (sp keys).map (·.1) := by
  rw [argsortRat_eq, List.map_map]
  apply List.map_congr_left
  intro p hp
  simp [List.getD_eq_getElem?_getD, sp_mem keys p hp]

theorem sp_keys_sorted (keys : List Rat) : ((sp keys).map (·.1)).Pairwise (· ≤ ·) :=
  List.Pairwise.map _ (fun _ _ h => KLt.le h) (sp_pairwise keys)

theorem isort_eq_sp_keys (keys : List Rat) : Np.isort leR keys = (sp keys).map (·.1) := by
  apply List.Perm.eq_of_pairwise (le := (· ≤ ·)) (fun a b _ _ h1 h2 => le_antisymm h1 h2)
    (isort_sorted keys) (sp_keys_sorted keys)
  have h := (sp_perm keys).map (·.1)
  rw [show keys.zipIdx.map (·.1) = keys from List.zipIdx_map_fst 0 keys] at h
  exact (C11.Lemmas.isort_perm leR keys).trans h.symm

theorem argsortDesc_perm (v : List Rat) : (argsortDesc v).Perm (List.range v.length) :=
  (List.reverse_perm _).trans (argsortRat_perm v)

theorem argsortDesc_length (v : List Rat) : (argsortDesc v).length = v.length := by
  rw [(argsortDesc_perm v).length_eq, List.length_range]

theorem argsortDesc_keys (v : List Rat) :
    ((argsortDesc v).map (fun i => v.getD i 0)).Pairwise (· ≥ ·) := by
  unfold argsortDesc
  rw [List.map_reverse, List.pairwise_reverse, argsortRat_keys]
  exact sp_keys_sorted v

theorem nonIncreasing_of_pairwise : ∀ (l : List Rat), l.Pairwise (· ≥ ·) → nonIncreasing l = true
  | [], _ => rfl
  | [_], _ => rfl
  | a :: b :: t, h => by
    rw [List.pairwise_cons] at h
    unfold nonIncreasing
    rw [Bool.and_eq_true]
    exact ⟨by simpa using h.1 b (List.mem_cons_self), nonIncreasing_of_pairwise (b :: t) h.2⟩

/-! ### nearest channels -/

theorem sorted_getD (l : List Rat) (h : l.Pairwise (· ≤ ·)) (i j : Nat) (hij : i ≤ j)
    (hj : j < l.length) : l.getD i 0 ≤ l.getD j 0 := by
  have hi : i < l.length := lt_of_le_of_lt hij hj
  rw [C09.Lemmas.getD_eq_getElem' l i hi, C09.Lemmas.getD_eq_getElem' l j hj]
  rcases Nat.lt_or_eq_of_le hij with h' | h'
  · exact List.pairwise_iff_getElem.1 h i j hi hj h'
  · subst h'; exact le_refl _

theorem isort_getD (ds : List Rat) (j : Nat) (hj : j < ds.length) :
    (Np.isort leR ds).getD j 0 = ds.getD ((argsortRat ds).getD j 0) 0 := by
  rw [isort_eq_sp_keys, ← argsortRat_keys]
  have hj' : j < (argsortRat ds).length := by rw [argsortRat_length]; exact hj
  simp [List.getD_eq_getElem?_getD, hj']

theorem near_lemma (ds : List Rat) (n c : Nat) (hn : 0 < n) (hnl : n < ds.length)
    (hc : c < ds.length) :
    (ds.getD c 0 < (Np.isort leR ds).getD (n - 1) 0 → c ∈ (argsortRat ds).take n) ∧
    (ds.getD c 0 > (Np.isort leR ds).getD (n - 1) 0 → c ∉ (argsortRat ds).take n) ∧
    ((Np.isort leR ds).getD (n - 1) 0 < (Np.isort leR ds).getD n 0 →
      ds.getD c 0 ≤ (Np.isort leR ds).getD (n - 1) 0 → c ∈ (argsortRat ds).take n) := by
  have hlen : (argsortRat ds).length = ds.length := argsortRat_length ds
  have hsorted : (Np.isort leR ds).Pairwise (· ≤ ·) := isort_sorted ds
  have hklen : (Np.isort leR ds).length = ds.length := (C11.Lemmas.isort_perm leR ds).length_eq
  have hmem : c ∈ argsortRat ds := (argsortRat_perm ds).mem_iff.2 (List.mem_range.2 hc)
  obtain ⟨j, hj, hjc⟩ := List.mem_iff_getElem.1 hmem
  have hjd : (Np.isort leR ds).getD j 0 = ds.getD c 0 := by
    rw [isort_getD ds j (hlen ▸ hj)]
    simp [List.getD_eq_getElem?_getD, hj, hjc]
  have hin : j < n → c ∈ (argsortRat ds).take n := by
    intro hjn
    exact List.mem_take_iff_getElem.2 ⟨j, by omega, hjc⟩
  refine ⟨?_, ?_, ?_⟩
  · intro hd
    apply hin
    by_contra hjn
    have := sorted_getD _ hsorted (n - 1) j (by omega) (by omega)
    rw [hjd] at this
    linarith
  · intro hd hmem'
    obtain ⟨i, hi, hic⟩ := List.mem_take_iff_getElem.1 hmem'
    have hid : (Np.isort leR ds).getD i 0 = ds.getD c 0 := by
      rw [isort_getD ds i (by omega)]
      have hi' : i < (argsortRat ds).length := by omega
      simp [List.getD_eq_getElem?_getD, hi', hic]
    have := sorted_getD _ hsorted i (n - 1) (by omega) (by omega)
    rw [hid] at this
    linarith
  · intro hcut hd
    apply hin
    by_contra hjn
    have := sorted_getD _ hsorted n j (by omega) (by omega)
    rw [hjd] at this
    linarith

theorem nearInfo_spec (g : Geometry) (b c : Nat) (hc : c < g.positions.length) :
    ((nearInfo g b c).1 = true → c ∈ closestChannels g b) ∧
    ((nearInfo g b c).2 = true → c ∉ closestChannels g b) := by
  have hdl : ((List.range g.positions.length).map (dist2 g.positions b)).length
      = g.positions.length := by simp
  have hmem : c ∈ argsortRat ((List.range g.positions.length).map (dist2 g.positions b)) :=
    (argsortRat_perm _).mem_iff.2 (List.mem_range.2 (by rw [hdl]; exact hc))
  unfold nearInfo closestChannels
  by_cases h0 : g.nClosest = 0
  · simp [h0, hmem]
  by_cases hge : g.nClosest ≥ g.positions.length
  · have htake : (argsortRat ((List.range g.positions.length).map (dist2 g.positions b))).take
        g.nClosest = argsortRat ((List.range g.positions.length).map (dist2 g.positions b)) :=
      List.take_of_length_le (by rw [argsortRat_length, hdl]; exact hge)
    simp [h0, hge, htake, hmem]
  · obtain ⟨h1, h2, h3⟩ := near_lemma ((List.range g.positions.length).map (dist2 g.positions b))
      g.nClosest c (Nat.pos_of_ne_zero h0) (by rw [hdl]; omega) (by rw [hdl]; exact hc)
    simp only [h0, hge, Bool.or_self, Bool.false_eq_true, if_false, decide_false]
    split
    · rename_i hcut
      refine ⟨fun h => h3 hcut (by simpa using h), fun h => h2 (by simpa using h)⟩
    · refine ⟨fun h => h1 (by simpa using h), fun h => h2 (by simpa using h)⟩

theorem argsort_head_of_min (ds : List Rat) (b : Nat) (hb : b < ds.length)
    (hb0 : ds.getD b 0 = 0) (hnn : ∀ i, i < ds.length → 0 ≤ ds.getD i 0)
    (huniq : ∀ i, i < ds.length → ds.getD i 0 = 0 → i = b) :
    (argsortRat ds)[0]? = some b := by
  have hmem : b ∈ argsortRat ds := (argsortRat_perm ds).mem_iff.2 (List.mem_range.2 hb)
  rw [argsortRat_eq] at hmem ⊢
  obtain ⟨p, hp, hpb⟩ := List.mem_map.1 hmem
  have hpw := sp_pairwise ds
  have hspm := sp_mem ds
  cases hS : sp ds with
  | nil => rw [hS] at hp; exact absurd hp (List.not_mem_nil)
  | cons p0 tl =>
    rw [hS] at hp hpw hspm
    rw [List.map_cons, List.getElem?_cons_zero]
    rcases List.mem_cons.1 hp with rfl | hp'
    · rw [hpb]
    · exfalso
      have hk : KLt p0 p := (List.pairwise_cons.1 hpw).1 p hp'
      have e0 := hspm p0 (List.mem_cons_self)
      have e1 := hspm p (List.mem_cons_of_mem _ hp')
      have hl0 : p0.2 < ds.length := by
        rcases Nat.lt_or_ge p0.2 ds.length with h | h
        · exact h
        · rw [List.getElem?_eq_none h] at e0; exact absurd e0 (by simp)
      have d0 : ds.getD p0.2 0 = p0.1 := by simp [List.getD_eq_getElem?_getD, e0]
      have d1 : ds.getD b 0 = p.1 := by rw [← hpb]; simp [List.getD_eq_getElem?_getD, e1]
      have hp1 : p.1 = 0 := by rw [← d1]; exact hb0
      have hp0 : 0 ≤ p0.1 := by rw [← d0]; exact hnn _ hl0
      rcases hk with hk | ⟨hk1, hk2⟩
      · linarith
      · have := huniq p0.2 hl0 (by rw [d0, hk1, hp1])
        omega

theorem dist2_self (pos : List (Rat × Rat)) (b : Nat) : dist2 pos b b = 0 := by
  simp [dist2]

theorem dist2_nonneg (pos : List (Rat × Rat)) (b c : Nat) : 0 ≤ dist2 pos b c := by
  unfold dist2
  exact add_nonneg (mul_self_nonneg _) (mul_self_nonneg _)

theorem dist2_eq_zero (pos : List (Rat × Rat)) (b c : Nat) (h : dist2 pos b c = 0) :
    pos.getD c (0, 0) = pos.getD b (0, 0) := by
  unfold dist2 at h
  simp only at h
  have h1 := mul_self_nonneg ((pos.getD c (0, 0)).1 - (pos.getD b (0, 0)).1)
  have h2 := mul_self_nonneg ((pos.getD c (0, 0)).2 - (pos.getD b (0, 0)).2)
  have e1 := mul_self_eq_zero.1 (le_antisymm (by linarith) h1)
  have e2 := mul_self_eq_zero.1 (le_antisymm (by linarith) h2)
  exact Prod.ext (sub_eq_zero.1 e1) (sub_eq_zero.1 e2)

theorem best_mem_closest (g : Geometry) (b : Nat) (hb : b < g.positions.length)
    (hnd : g.positions.Nodup) : b ∈ closestChannels g b := by
  have hdl : ((List.range g.positions.length).map (dist2 g.positions b)).length
      = g.positions.length := by simp
  have hget : ∀ i, i < g.positions.length →
      ((List.range g.positions.length).map (dist2 g.positions b)).getD i 0
        = dist2 g.positions b i := by
    intro i hi
    simp [List.getD_eq_getElem?_getD, hi]
  have hmem : b ∈ argsortRat ((List.range g.positions.length).map (dist2 g.positions b)) :=
    (argsortRat_perm _).mem_iff.2 (List.mem_range.2 (by rw [hdl]; exact hb))
  unfold closestChannels
  by_cases h0 : g.nClosest = 0
  · simp [h0, hmem]
  · simp only [h0, if_false]
    have hhead := argsort_head_of_min ((List.range g.positions.length).map (dist2 g.positions b)) b
      (by rw [hdl]; exact hb) (by rw [hget b hb]; exact dist2_self _ _)
      (by intro i hi; rw [hdl] at hi; rw [hget i hi]; exact dist2_nonneg _ _ _)
      (by
        intro i hi hz
        rw [hdl] at hi
        rw [hget i hi] at hz
        exact (List.getD_inj hi hb hnd).1 (dist2_eq_zero _ _ _ hz))
    obtain ⟨h, he⟩ := List.getElem?_eq_some_iff.1 hhead
    exact List.mem_take_iff_getElem.2 ⟨0, by omega, he⟩

/-! ### small list facts -/

theorem range_map_getD {α : Type} (l : List α) (d : α) :
    (List.range l.length).map (fun k => l.getD k d) = l := by
  apply List.ext_getElem
  · simp
  · intro i h1 h2
    simp [List.getD_eq_getElem?_getD, h2]

theorem reorder_perm {α : Type} (l : List α) (d : α) (order : List Nat)
    (h : order.Perm (List.range l.length)) : (order.map fun k => l.getD k d).Perm l := by
  have := h.map (fun k => l.getD k d)
  rwa [range_map_getD] at this

theorem eraseDups_of_nodup : ∀ (l : List Nat), l.Nodup → l.eraseDups = l
  | [], _ => rfl
  | a :: as, h => by
    rw [List.nodup_cons] at h
    rw [List.eraseDups_cons]
    have hf : as.filter (fun b => !b == a) = as := by
      apply List.filter_eq_self.2
      intro b hb
      have : b ≠ a := fun e => h.1 (e ▸ hb)
      simpa using this
    rw [hf, eraseDups_of_nodup as h.2]

theorem mem_inter (n : Nat) (a b : List Nat) (c : Nat) :
    c ∈ inter n a b ↔ c < n ∧ c ∈ a ∧ c ∈ b := by
  simp [inter, List.mem_filter]

theorem inter_nodup (n : Nat) (a b : List Nat) : (inter n a b).Nodup :=
  List.Nodup.sublist List.filter_sublist List.nodup_range

theorem argmax_getD (l : List Rat) (h : l ≠ []) :
    argmaxFirst l < l.length ∧ l.getD (argmaxFirst l) 0 = listMax l := by
  have hm := (C09.Lemmas.listMax_spec l h).1
  have hlt : argmaxFirst l < l.length := List.idxOf_lt_length_iff.mpr hm
  refine ⟨hlt, ?_⟩
  rw [C09.Lemmas.getD_eq_getElem' l _ hlt]; exact List.getElem_idxOf hlt

theorem getD_le_listMax (l : List Rat) (i : Nat) (hi : i < l.length) : l.getD i 0 ≤ listMax l := by
  rw [C09.Lemmas.getD_eq_getElem' l i hi]
  exact (C09.Lemmas.listMax_spec l (by intro e; rw [e] at hi; exact absurd hi (by simp))).2 _
    (List.getElem_mem hi)

/-- the head of a non-increasing reordering attains the maximum -/
theorem head_attains (f : Nat → Rat) (c0 : Nat) (tl : List Nat) (m : Rat) (b : Nat)
    (hpw : ((c0 :: tl).map f).Pairwise (· ≥ ·)) (hb : b ∈ c0 :: tl) (hfb : f b = m)
    (hle : f c0 ≤ m) : f c0 = m := by
  apply le_antisymm hle
  rw [List.map_cons, List.pairwise_cons] at hpw
  rcases List.mem_cons.1 hb with rfl | hb'
  · exact le_of_eq hfb.symm
  · rw [← hfb]; exact hpw.1 _ (List.mem_map_of_mem hb')

/-! ### dense records -/

theorem chAmps_length (T : Mat) : (chAmps T).length = ncols T := by simp [chAmps]

theorem chAmps_getD (T : Mat) (c : Nat) (hc : c < ncols T) :
    (chAmps T).getD c 0 = ptp (col T c) := by
  simp [chAmps, List.getD_eq_getElem?_getD, hc]

/-- the channel list before reordering -/
def ids0 (g : Geometry) (T : Mat) (thr : Rat) : List Nat :=
  let nc := ncols T
  let amp := chAmps T
  let best := argmaxFirst amp
  let mx := amp.getD best 0
  let peak := (List.range nc).filter fun c => decide (amp.getD c 0 ≥ thr * mx)
  let close := closestChannels g best
  let close := match g.shanks with
    | some sh => inter nc close ((List.range nc).filter fun c => sh.getD c 0 == sh.getD best 0)
    | none => close
  inter nc peak close

theorem findBest_eq (g : Geometry) (T : Mat) (thr : Rat) :
    findBestChannels g T thr =
      (let amp := chAmps T
       let order := argsortDesc ((ids0 g T thr).map fun c => amp.getD c 0)
       let ids := order.map fun k => (ids0 g T thr).getD k 0
       (ids, ids.map fun c => amp.getD c 0, argmaxFirst amp)) := rfl

theorem findBest_perm (g : Geometry) (T : Mat) (thr : Rat) :
    (findBestChannels g T thr).1.Perm (ids0 g T thr) := by
  rw [findBest_eq]
  apply reorder_perm
  have := argsortDesc_perm ((ids0 g T thr).map fun c => (chAmps T).getD c 0)
  rwa [List.length_map] at this

theorem findBest_amp (g : Geometry) (T : Mat) (thr : Rat) :
    (findBestChannels g T thr).2.1
      = (findBestChannels g T thr).1.map fun c => (chAmps T).getD c 0 := rfl

theorem findBest_best (g : Geometry) (T : Mat) (thr : Rat) :
    (findBestChannels g T thr).2.2 = argmaxFirst (chAmps T) := rfl

theorem findBest_sorted (g : Geometry) (T : Mat) (thr : Rat) :
    (findBestChannels g T thr).2.1.Pairwise (· ≥ ·) := by
  have h := argsortDesc_keys ((ids0 g T thr).map fun c => (chAmps T).getD c 0)
  have hp := argsortDesc_perm ((ids0 g T thr).map fun c => (chAmps T).getD c 0)
  rw [findBest_eq]
  simp only [List.map_map]
  rw [List.map_congr_left (g := (fun i => ((ids0 g T thr).map fun c => (chAmps T).getD c 0).getD i 0))]
  · exact h
  · intro k hk
    have hk' : k < (ids0 g T thr).length := by
      have := List.mem_range.1 (hp.mem_iff.1 hk)
      rwa [List.length_map] at this
    simp [List.getD_eq_getElem?_getD, hk']

theorem mem_ids0 (g : Geometry) (T : Mat) (thr : Rat) (c : Nat) :
    c ∈ ids0 g T thr ↔ c < ncols T ∧
      (chAmps T).getD c 0 ≥ thr * (chAmps T).getD (argmaxFirst (chAmps T)) 0 ∧
      (match g.shanks with
        | some sh => sh.getD c 0 == sh.getD (argmaxFirst (chAmps T)) 0
        | none => true) = true ∧
      c ∈ closestChannels g (argmaxFirst (chAmps T)) := by
  unfold ids0
  cases g.shanks with
  | none => simp only [mem_inter, List.mem_filter, List.mem_range, decide_eq_true_eq]; tauto
  | some sh => simp only [mem_inter, List.mem_filter, List.mem_range, decide_eq_true_eq]; tauto

theorem denseOK_of_facts (g : Geometry) (T : Mat) (thr : Rat) (hwf : DenseWF g T)
    (_h0 : 0 ≤ thr) (h1 : thr ≤ 1) (ids : List Nat) (amp' : List Rat) (best : Nat)
    (hbest : best = argmaxFirst (chAmps T))
    (hamp : amp' = ids.map fun c => (chAmps T).getD c 0)
    (hnd : ids.Nodup) (hpw : amp'.Pairwise (· ≥ ·))
    (hmem : ∀ c, c ∈ ids ↔ c < ncols T ∧
      (chAmps T).getD c 0 ≥ thr * (chAmps T).getD best 0 ∧
      (match g.shanks with
        | some sh => sh.getD c 0 == sh.getD best 0
        | none => true) = true ∧
      c ∈ closestChannels g best) :
    denseBaseOK g T thr ⟨T.map fun row => ids.map fun c => row.getD c 0, ids, amp', best⟩ = true := by
  obtain ⟨_, hnc, _, hpos, _, hposnd⟩ := hwf
  have hlen := chAmps_length T
  have hne : chAmps T ≠ [] := by
    intro e; rw [e] at hlen; simp at hlen; omega
  obtain ⟨hblt, hbmx⟩ := argmax_getD (chAmps T) hne
  rw [← hbest] at hblt hbmx
  rw [hlen] at hblt
  have hmx0 : 0 ≤ listMax (chAmps T) := C09.Lemmas.listMax_chAmps_nonneg T
  have hle : ∀ c, c < ncols T → (chAmps T).getD c 0 ≤ listMax (chAmps T) :=
    fun c hc => getD_le_listMax _ c (by rw [hlen]; exact hc)
  have hbmem : best ∈ ids := by
    rw [hmem]
    refine ⟨hblt, ?_, ?_, best_mem_closest g best (by rw [hpos]; exact hblt) hposnd⟩
    · rw [hbmx]
      have := mul_le_mul_of_nonneg_right h1 hmx0
      linarith
    · cases g.shanks <;> simp
  unfold denseBaseOK
  simp only [Bool.and_eq_true]
  refine ⟨⟨⟨⟨⟨⟨⟨?_, ?_⟩, ?_⟩, ?_⟩, ?_⟩, ?_⟩, ?_⟩, ?_⟩
  · -- alignment
    unfold alignedOK
    simp only [Bool.and_eq_true, beq_iff_eq]
    refine ⟨⟨trivial, ?_⟩, ?_⟩
    · show amp' = _
      rw [hamp]
      apply List.map_congr_left
      intro c hc
      exact chAmps_getD T c ((hmem c).1 hc).1
    · show amp'.length = ids.length
      rw [hamp, List.length_map]
  · show (ids.eraseDups == ids) = true
    rw [eraseDups_of_nodup _ hnd]; exact beq_self_eq_true _
  · show ids.all (· < ncols T) = true
    rw [List.all_eq_true]
    intro c hc
    simpa using ((hmem c).1 hc).1
  · exact nonIncreasing_of_pairwise _ hpw
  · simpa using hblt
  · show ((chAmps T).getD best 0 == listMax (chAmps T)) = true
    rw [hbmx]; exact beq_self_eq_true _
  · cases ids with
    | nil => exact absurd hbmem (List.not_mem_nil)
    | cons c0 tl =>
      simp only [beq_iff_eq]
      apply head_attains (fun c => (chAmps T).getD c 0) c0 tl _ best (hamp ▸ hpw) hbmem hbmx
      exact hle c0 ((hmem c0).1 (List.mem_cons_self)).1
  · rw [List.all_eq_true]
    intro c hc
    have hc' : c < ncols T := List.mem_range.1 hc
    obtain ⟨hN1, hN2⟩ := nearInfo_spec g best c (by rw [hpos]; exact hc')
    have hin : (ids.contains c = true) ↔
        ((decide ((chAmps T).getD c 0 ≥ thr * listMax (chAmps T)) &&
          (match g.shanks with
            | some sh => sh.getD c 0 == sh.getD best 0
            | none => true)) = true ∧ c ∈ closestChannels g best) := by
      rw [List.contains_iff_mem, hmem c, hbmx, Bool.and_eq_true, decide_eq_true_eq]
      constructor
      · rintro ⟨_, a, b, d⟩; exact ⟨⟨a, b⟩, d⟩
      · rintro ⟨⟨a, b⟩, d⟩; exact ⟨hc', a, b, d⟩
    show (match nearInfo g best c with
      | (must, mustNot) =>
        (!(must && (decide ((chAmps T).getD c 0 ≥ thr * listMax (chAmps T)) &&
          (match g.shanks with
            | some sh => sh.getD c 0 == sh.getD best 0
            | none => true))) || ids.contains c) &&
        (!(mustNot || !(decide ((chAmps T).getD c 0 ≥ thr * listMax (chAmps T)) &&
          (match g.shanks with
            | some sh => sh.getD c 0 == sh.getD best 0
            | none => true))) || !ids.contains c)) = true
    generalize (decide ((chAmps T).getD c 0 ≥ thr * listMax (chAmps T)) &&
          (match g.shanks with
            | some sh => sh.getD c 0 == sh.getD best 0
            | none => true)) = cond at hin ⊢
    generalize nearInfo g best c = ni at hN1 hN2 ⊢
    obtain ⟨must, mustNot⟩ := ni
    simp only at hN1 hN2 ⊢
    by_cases hcl : c ∈ closestChannels g best
    · have hmn : mustNot = false := by
        cases mustNot
        · rfl
        · exact absurd hcl (hN2 rfl)
      subst hmn
      cases hcc : cond <;> cases hi : ids.contains c <;> cases must <;> simp_all
    · have hm : must = false := by
        cases must
        · rfl
        · exact absurd (hN1 rfl) hcl
      subst hm
      cases hcc : cond <;> cases hi : ids.contains c <;> cases mustNot <;> simp_all

theorem dense_base_ok (g : Geometry) (T : Mat) (thr : Rat) (hwf : DenseWF g T)
    (h0 : 0 ≤ thr) (h1 : thr ≤ 1) :
    let (ids, amp, best) := findBestChannels g T thr
    denseBaseOK g T thr ⟨T.map fun row => ids.map fun c => row.getD c 0, ids, amp, best⟩ = true := by
  show denseBaseOK g T thr ⟨T.map fun row => (findBestChannels g T thr).1.map fun c => row.getD c 0,
    (findBestChannels g T thr).1, (findBestChannels g T thr).2.1,
    (findBestChannels g T thr).2.2⟩ = true
  apply denseOK_of_facts g T thr hwf h0 h1 _ _ _ (findBest_best g T thr) (findBest_amp g T thr)
    ((findBest_perm g T thr).nodup_iff.2 (inter_nodup _ _ _)) (findBest_sorted g T thr)
  intro c
  rw [(findBest_perm g T thr).mem_iff, findBest_best]
  exact mem_ids0 g T thr c

theorem getTemplateDense_auto (g : Geometry) (wmi : Mat) (sc : Rat) (Tw : Mat) (thr : Rat) (unwh : Bool) :
    getTemplateDense g wmi sc Tw none thr unwh =
      (let T := if unwh then unwhiten wmi sc Tw none else Tw
       let r := findBestChannels g T thr
       ⟨T.map fun row => r.1.map fun c => row.getD c 0, r.1, r.2.1, r.2.2⟩) := by
  rfl

theorem col_sub (T : Mat) (l : List Nat) (j : Nat) (hj : j < l.length) :
    col (T.map fun row => l.map fun c => row.getD c 0) j = col T (l.getD j 0) := by
  unfold col
  rw [List.map_map]
  apply List.map_congr_left
  intro row _
  simp [List.getD_eq_getElem?_getD, hj]

set_option linter.unusedVariables false in -- unused hypotheses kept: public statement
theorem dense_explicit_ok (g : Geometry) (wmi : Mat) (sc : Rat) (Tw : Mat) (l : List Nat) (thr : Rat) (unwh : Bool)
    (hwf : DenseWF g (if unwh then unwhiten wmi sc Tw none else Tw))
    (hl : ∀ c ∈ l, c < ncols (if unwh then unwhiten wmi sc Tw none else Tw)) :
    denseExplicitOK (if unwh then unwhiten wmi sc Tw none else Tw) l
      (getTemplateDense g wmi sc Tw (some l) thr unwh) = true := by
  have hrec : getTemplateDense g wmi sc Tw (some l) thr unwh =
      (let T := if unwh then unwhiten wmi sc Tw none else Tw
       ⟨T.map fun row => l.map fun c => row.getD c 0, l,
        getTemplateDense.chAmps' (T.map fun row => l.map fun c => row.getD c 0) l.length,
        argmaxFirst (chAmps T)⟩) := rfl
  rw [hrec]
  generalize (if unwh then unwhiten wmi sc Tw none else Tw) = T at hwf hl
  show denseExplicitOK T l ⟨T.map fun row => l.map fun c => row.getD c 0, l,
    getTemplateDense.chAmps' (T.map fun row => l.map fun c => row.getD c 0) l.length,
    argmaxFirst (chAmps T)⟩ = true
  obtain ⟨_, hnc, _⟩ := hwf
  have hlen := chAmps_length T
  have hne : chAmps T ≠ [] := by
    intro e; rw [e] at hlen; simp at hlen; omega
  unfold denseExplicitOK alignedOK
  simp only [Bool.and_eq_true, beq_iff_eq]
  refine ⟨⟨⟨⟨trivial, ?_⟩, ?_⟩, trivial⟩, (argmax_getD _ hne).2⟩
  · show getTemplateDense.chAmps' _ l.length = l.map fun c => ptp (col T c)
    unfold getTemplateDense.chAmps'
    conv => rhs; rw [← range_map_getD l 0, List.map_map]
    apply List.map_congr_left
    intro j hj
    have hj' := List.mem_range.1 hj
    simp only [Function.comp]
    rw [col_sub T l j hj']
  · show (getTemplateDense.chAmps' _ l.length).length = l.length
    simp [getTemplateDense.chAmps']

/-! ### sparse records -/

theorem idxOf_getD (ch : List Nat) (hnd : ch.Nodup) (i : Nat) (hi : i < ch.length) :
    ch.idxOf (ch.getD i 0) = i := by
  have : ch.getD i 0 = ch[i] := by simp [List.getD_eq_getElem?_getD, hi]
  rw [this]
  exact hnd.idxOf_getElem i hi

theorem sparseOK_generic (ch : List Nat) (Tk : Mat) (hnd : ch.Nodup) :
    let amp := (List.range ch.length).map fun j => ptp (col Tk j)
    let order := argsortDesc amp
    sparseOK ch Tk ⟨Tk.map fun row => order.map fun j => row.getD j 0,
      order.map fun j => ch.getD j 0, order.map fun j => amp.getD j 0,
      ch.getD (argmaxFirst amp) 0⟩ = true := by
  intro amp order
  have hal : amp.length = ch.length := by simp [amp]
  have hperm : order.Perm (List.range ch.length) := hal ▸ argsortDesc_perm amp
  have holen : order.length = ch.length := by rw [hperm.length_eq, List.length_range]
  have hlt : ∀ j ∈ order, j < ch.length := fun j hj => List.mem_range.1 (hperm.mem_iff.1 hj)
  have hchan : (order.map fun j => ch.getD j 0).Perm ch := reorder_perm ch 0 order hperm
  have hsorted : (order.map fun j => amp.getD j 0).Pairwise (· ≥ ·) := argsortDesc_keys amp
  unfold sparseOK
  simp only [Bool.and_eq_true]
  refine ⟨⟨⟨⟨⟨⟨⟨⟨?_, ?_⟩, ?_⟩, ?_⟩, ?_⟩, ?_⟩, ?_⟩, ?_⟩, ?_⟩
  · rw [Bool.or_eq_true]; left
    show ((order.map fun j => ch.getD j 0).eraseDups == (order.map fun j => ch.getD j 0)) = true
    rw [eraseDups_of_nodup _ (hchan.nodup_iff.2 hnd)]; exact beq_self_eq_true _
  · exact nonIncreasing_of_pairwise _ hsorted
  · show ((order.map fun j => amp.getD j 0).length == (order.map fun j => ch.getD j 0).length) = true
    simp
  · show ((order.map fun j => ch.getD j 0).length == ch.length) = true
    simp [holen]
  · show (order.map fun j => ch.getD j 0).all (ch.contains ·) = true
    rw [List.all_eq_true]
    intro c hc
    simpa using hchan.mem_iff.1 hc
  · show ch.all ((order.map fun j => ch.getD j 0).contains ·) = true
    rw [List.all_eq_true]
    intro c hc
    rw [List.contains_iff_mem]
    exact hchan.mem_iff.2 hc
  · show (List.range (order.map fun j => ch.getD j 0).length).all _ = true
    rw [List.all_eq_true]
    intro j hj
    have hj' : j < order.length := by simpa using hj
    have hoj : order[j] < ch.length := hlt _ (List.getElem_mem hj')
    have e1 : (order.map fun j => ch.getD j 0).getD j 0 = ch.getD order[j] 0 := by
      simp [List.getD_eq_getElem?_getD, hj']
    have e2 : (order.map fun j => amp.getD j 0).getD j 0 = amp.getD order[j] 0 := by
      simp [List.getD_eq_getElem?_getD, hj']
    simp only [Bool.and_eq_true, beq_iff_eq]
    rw [e1, e2, idxOf_getD ch hnd _ hoj]
    refine ⟨?_, rfl⟩
    unfold col
    rw [List.map_map]
    apply List.map_congr_left
    intro row _
    simp [List.getD_eq_getElem?_getD, hj']
  · show (match (order.map fun j => ch.getD j 0) with
      | [] => true
      | c0 :: _ => amp.getD (ch.idxOf c0) 0 == listMax amp) = true
    cases ho : order with
    | nil => rfl
    | cons o0 tl =>
      rw [ho] at hsorted hlt hperm
      simp only [List.map_cons, beq_iff_eq]
      have ho0 : o0 < ch.length := hlt o0 (List.mem_cons_self)
      rw [idxOf_getD ch hnd _ ho0]
      have hne : amp ≠ [] := by
        intro e; rw [e] at hal; simp at hal; omega
      obtain ⟨hblt, hbmx⟩ := argmax_getD amp hne
      apply head_attains (fun j => amp.getD j 0) o0 tl _ (argmaxFirst amp) hsorted
        (hperm.mem_iff.2 (List.mem_range.2 (hal ▸ hblt))) hbmx
      exact getD_le_listMax amp o0 (by rw [hal]; exact ho0)
  · rw [Bool.or_eq_true]
    by_cases hch : ch = []
    · left; rw [hch]; rfl
    · right
      have hne : amp ≠ [] := by
        intro e; rw [e] at hal
        exact hch (List.length_eq_zero_iff.1 hal.symm)
      obtain ⟨hblt, hbmx⟩ := argmax_getD amp hne
      show (amp.getD (ch.idxOf (ch.getD (argmaxFirst amp) 0)) 0 == listMax amp) = true
      rw [idxOf_getD ch hnd _ (hal ▸ hblt), hbmx]; exact beq_self_eq_true _

set_option linter.unusedVariables false in -- unused hypotheses kept: public statement
theorem sparse_record_ok (wmi : Mat) (sc : Rat) (Tw : Mat) (cols : List Int) (m : Int) (unwh : Bool)
    (hrect : ∀ row ∈ Tw, row.length = cols.length) (hT : Tw ≠ [])
    (hcols : ∀ c ∈ cols, c = m ∨ 0 ≤ c) (hdist : (cols.filter (· ≠ m)).Nodup) :
    let keep := keptCols Tw cols m
    let ch := keep.map fun j => (cols.getD j 0).toNat
    let sub : Mat := Tw.map fun row => keep.map fun j => row.getD j 0
    sparseOK ch (if unwh then unwhiten wmi sc sub (some ch) else sub)
      (getTemplateSparse wmi sc Tw cols m unwh) = true := by
  intro keep ch sub
  have hrec : getTemplateSparse wmi sc Tw cols m unwh =
      (let Tk := if unwh then unwhiten wmi sc sub (some ch) else sub
       let amp := (List.range keep.length).map fun j => ptp (col Tk j)
       let order := argsortDesc amp
       ⟨Tk.map fun row => order.map fun j => row.getD j 0, order.map fun j => ch.getD j 0,
        order.map fun j => amp.getD j 0, ch.getD (argmaxFirst amp) 0⟩) := rfl
  rw [hrec]
  have hchlen : keep.length = ch.length := by simp [ch]
  rw [hchlen]
  have hnd : ch.Nodup := by
    have hsub : (keep.map fun j => cols.getD j 0).Sublist (cols.filter (· ≠ m)) := by
      have hc : cols.filter (· ≠ m) = (usedCols cols m).map fun j => cols.getD j 0 := by
        unfold usedCols
        conv => lhs; rw [← range_map_getD cols 0, List.filter_map]
        congr 1
        apply List.filter_congr
        intro j _
        show decide (cols.getD j 0 ≠ m) = (cols.getD j 0 != m)
        generalize cols.getD j 0 = x
        by_cases h : x = m <;> simp [h]
      rw [hc]
      apply List.Sublist.map
      exact List.filter_sublist
    have hnd1 : (keep.map fun j => cols.getD j 0).Nodup := List.Nodup.sublist hsub hdist
    have hch : ch = (keep.map fun j => cols.getD j 0).map Int.toNat := by
      simp [ch, List.map_map]
    rw [hch]
    have hnn : ∀ x ∈ keep.map fun j => cols.getD j 0, 0 ≤ x := by
      intro x hx
      have hx' := hsub.subset hx
      rw [List.mem_filter] at hx'
      rcases hcols x hx'.1 with h | h
      · exact absurd h (by simpa using hx'.2)
      · exact h
    refine List.pairwise_map.2 (List.Pairwise.imp_of_mem ?_ hnd1)
    intro x y hx hy hxy
    have := hnn x hx
    have := hnn y hy
    omega
  exact sparseOK_generic ch _ hnd

end PhyVerif.C05.Lemmas
