import PhyVerif.Model.C11e
import PhyVerif.Spec.C11
/-! Proofs about the merge as a function on a file system (`Model/C11e.lean`): frame. -/
namespace PhyVerif.C11.Lemmas
open PhyVerif PhyVerif.C11

/-! ### the finite map -/

theorem lookup_filter_ne (fs : FS) (p q : Path) (h : q ≠ p) :
    (fs.filter fun e => !(e.1 == p)).lookup q = fs.lookup q := by
  induction fs with
  | nil => rfl
  | cons e rest ih =>
    obtain ⟨k, v⟩ := e
    by_cases hk : k = p
    · subst hk
      have : (q == k) = false := by simpa using h
      simp [List.lookup_cons, this, ih]
    · have hk' : (k == p) = false := by simpa using hk
      simp only [List.filter_cons, hk', Bool.not_false, if_true, List.lookup_cons]
      rw [ih]

theorem read_write (fs : FS) (p q : Path) (f : File) :
    (fs.write p f).read q = if q = p then some f else fs.read q := by
  unfold FS.write FS.read
  by_cases h : q = p
  · subst h; simp
  · have : (q == p) = false := by simpa using h
    rw [List.lookup_cons, this, if_neg h]
    exact lookup_filter_ne fs p q h

theorem read_write_ne (fs : FS) (p q : Path) (f : File) (h : q ≠ p) :
    (fs.write p f).read q = fs.read q := by rw [read_write, if_neg h]

theorem saveAll_nil (out : String) (fs : FS) : saveAll out fs [] = fs := rfl

theorem saveAll_cons (out : String) (fs : FS) (w : String × File) (ws : List (String × File)) :
    saveAll out fs (w :: ws) = saveAll out (fs.write (out, w.1) w.2) ws := rfl

theorem saveAll_append (out : String) (fs : FS) (ws ws' : List (String × File)) :
    saveAll out fs (ws ++ ws') = saveAll out (saveAll out fs ws) ws' := by
  unfold saveAll; rw [List.foldl_append]

/-- saving touches only the listed names of the output directory -/
theorem saveAll_read_other (out : String) (ws : List (String × File)) :
    ∀ (fs : FS) (d n : String), (d ≠ out ∨ n ∉ ws.map (·.1)) → (saveAll out fs ws).read (d, n) = fs.read (d, n) := by
  induction ws with
  | nil => intro fs d n _; rfl
  | cons w ws ih =>
    intro fs d n h
    rw [saveAll_cons, ih _ d n (by
      rcases h with h | h
      · exact Or.inl h
      · exact Or.inr (fun hc => h (by simp [hc])))]
    apply read_write_ne
    rcases h with h | h
    · intro hc; exact h (by simpa using (Prod.mk.inj hc).1)
    · intro hc; exact h (by simp [(Prod.mk.inj hc).2])

/-! ### frame of the steps -/

/-- `s'` differs from `s` at most on the files `names` of directory `out` -/
def FrameRel (out : String) (names : List String) (s s' : FS × Reg) : Prop :=
  ∀ d n, (d ≠ out ∨ n ∉ names) → s'.1.read (d, n) = s.1.read (d, n)

/-- a compute step saves only files named in `names` -/
def SavesOnly (c : Compute) (names : List String) : Prop :=
  ∀ fs reg ws reg', c fs reg = .ok (ws, reg') → ∀ w ∈ ws, w.1 ∈ names

theorem saveStep_frame (out : String) (c : Compute) (names : List String) (hc : SavesOnly c names)
    (s s' : FS × Reg) (h : saveStep out c s = .ok s') : FrameRel out names s s' := by
  unfold saveStep at h
  split at h
  · cases h
  · rename_i ws reg heq
    cases h
    intro d n hdn
    apply saveAll_read_other
    rcases hdn with hd | hn
    · exact Or.inl hd
    · refine Or.inr (fun hmem => hn ?_)
      rcases List.mem_map.mp hmem with ⟨w, hw, rfl⟩
      exact hc _ _ _ _ heq w hw

theorem runSteps_frame (out : String) (names : List String) (steps : List (FS × Reg → M (FS × Reg)))
    (hsteps : ∀ st ∈ steps, ∀ s s', st s = .ok s' → FrameRel out names s s') :
    ∀ s, FrameRel out names s (runSteps steps s).1 := by
  induction steps with
  | nil => intro s d n _; rfl
  | cons st rest ih =>
    intro s
    unfold runSteps
    split
    · intro d n _; rfl
    · rename_i s' heq
      intro d n hdn
      rw [ih (fun st' h' => hsteps st' (by simp [h'])) s' d n hdn]
      exact hsteps st (by simp) s s' heq d n hdn

/-! ### every `write_*` method saves only its own file names -/

macro "saves_only" d:ident : tactic =>
  `(tactic| (intro fs reg ws reg' h
             unfold $d at h
             try dsimp only at h
             repeat' (split at h)
             all_goals (first | (cases h; done) | (cases h; simp [outputNames, tsvNames, miscNames]))))

theorem cParams_saves (subdirs : List String) : SavesOnly (cParams subdirs) outputNames := by
  saves_only cParams
theorem cProbeDesc_saves (subdirs : List String) : SavesOnly (cProbeDesc subdirs) outputNames := by
  saves_only cProbeDesc
theorem cSpikeTimes_saves (subdirs : List String) : SavesOnly (cSpikeTimes subdirs) outputNames := by
  saves_only cSpikeTimes
theorem cAmplitudes_saves (subdirs : List String) : SavesOnly (cAmplitudes subdirs) outputNames := by
  saves_only cAmplitudes
theorem cSpikeTemplatesRaw_saves (subdirs : List String) : SavesOnly (cSpikeTemplatesRaw subdirs) outputNames := by
  saves_only cSpikeTemplatesRaw
theorem cSpikeClusters_saves (subdirs : List String) : SavesOnly (cSpikeClusters subdirs) outputNames := by
  saves_only cSpikeClusters
theorem cChannelData_saves (subdirs : List String) : SavesOnly (cChannelData subdirs) outputNames := by
  saves_only cChannelData
theorem cChannelPositions_saves (subdirs : List String) : SavesOnly (cChannelPositions subdirs) outputNames := by
  saves_only cChannelPositions
theorem cTemplates_saves (subdirs : List String) : SavesOnly (cTemplates subdirs) outputNames := by
  saves_only cTemplates
theorem cPcInd_saves (subdirs : List String) : SavesOnly (cPcInd subdirs) outputNames := by
  saves_only cPcInd
theorem cTfInd_saves (subdirs : List String) : SavesOnly (cTfInd subdirs) outputNames := by
  saves_only cTfInd
theorem cLoadModel_saves (out : String) : SavesOnly (cLoadModel out) outputNames := by
  saves_only cLoadModel

theorem cClusterData_saves (subdirs : List String) (fn : String) (hfn : fn ∈ tsvNames) :
    SavesOnly (cClusterData subdirs fn) outputNames := by
  intro fs reg ws reg' h w hw
  unfold cClusterData at h
  split at h
  · cases h
  · cases h
    split at hw
    · simp at hw
    · simp only [List.mem_singleton] at hw
      subst hw
      simp only [outputNames, List.mem_append]
      exact Or.inl (Or.inl (Or.inr hfn))

theorem cMisc_saves (subdirs : List String) (fn : String) (hfn : fn ∈ miscNames) :
    SavesOnly (cMisc subdirs fn) outputNames := by
  intro fs reg ws reg' h w hw
  unfold cMisc at h
  split at h
  · cases h
  · split at h
    · cases h; simp at hw
    · cases h
      simp only [List.mem_singleton] at hw
      subst hw
      simp only [outputNames, List.mem_append]
      exact Or.inr hfn

theorem computes_save (subdirs : List String) (out : String) :
    ∀ c ∈ computes subdirs out, SavesOnly c outputNames := by
  intro c hc
  simp only [computes, List.mem_append, List.mem_cons, List.mem_map, List.not_mem_nil, or_false] at hc
  rcases hc with ((((h | h | h | h | h | h) | ⟨fn, hfn, rfl⟩) | (h | h | h | h | h)) | ⟨fn, hfn, rfl⟩) | h
  all_goals (try subst h)
  · exact cParams_saves _
  · exact cProbeDesc_saves _
  · exact cSpikeTimes_saves _
  · exact cAmplitudes_saves _
  · exact cSpikeTemplatesRaw_saves _
  · exact cSpikeClusters_saves _
  · exact cClusterData_saves _ fn hfn
  · exact cChannelData_saves _
  · exact cChannelPositions_saves _
  · exact cTemplates_saves _
  · exact cPcInd_saves _
  · exact cTfInd_saves _
  · exact cMisc_saves _ fn hfn
  · exact cLoadModel_saves _

/-- Frame of the whole merge, whatever its outcome: nothing outside the output directory changes, and in the
output directory only files named in `outputNames`. -/
theorem merge_frame (fs : FS) (subdirs : List String) (out : String) :
    FrameRel out outputNames (fs, {}) (merge fs subdirs out).1 := by
  unfold merge
  split
  · intro d n _; rfl
  · apply runSteps_frame
    intro st hst s s' h
    rcases List.mem_map.mp hst with ⟨c, hc, rfl⟩
    exact saveStep_frame out c outputNames (computes_save subdirs out c hc) s s' h

theorem inputs_untouched (fs : FS) (subdirs : List String) (out : String) (hout : out ∉ subdirs) :
    (∀ d ∈ subdirs, ∀ name, (merge fs subdirs out).1.1.read (d, name) = fs.read (d, name)) ∧
    (∀ d name, d ≠ out → (merge fs subdirs out).1.1.read (d, name) = fs.read (d, name)) ∧
    (∀ name, name ∉ outputNames → (merge fs subdirs out).1.1.read (out, name) = fs.read (out, name)) := by
  have h := merge_frame fs subdirs out
  refine ⟨fun d hd name => h d name (Or.inl (fun hc => hout (hc ▸ hd))), fun d name hd => h d name (Or.inl hd),
    fun name hn => h out name (Or.inr hn)⟩

end PhyVerif.C11.Lemmas
