import PhyVerif.Model.C09
import PhyVerif.Spec.C09
/-! Helper lemmas and full proofs for C09. Statements: `Props/C09.lean`. -/
namespace PhyVerif.C09.Lemmas
open PhyVerif PhyVerif.C09

theorem spikeAmp_eq (d : Data) (i : Nat) (hi : i < d.spikes.length) (ha : d.amplitudes.length = d.spikes.length) :
    (spikeAmps d).getD i 0 =
      listMax (chAmps (matMul (d.wfsW.getD (d.spikes.getD i 0) []) d.wmi)) * d.amplitudes.getD i 0 ∨
    d.wfsW.length ≤ d.spikes.getD i 0 := by
  sorry

theorem ampsV_eq_mean (d : Data) (ha : d.amplitudes.length = d.spikes.length) (t : Nat)
    (ht : t < d.wfsW.length) :
    (ampsV d).getD t none = meanOver d.spikes (spikeAmps d) t ∧ (ampsV d).length = d.wfsW.length := by
  sorry

theorem listMax_spec (l : List Rat) (h : l ≠ []) : listMax l ∈ l ∧ ∀ x ∈ l, x ≤ listMax l := by
  sorry

theorem listMin_spec (l : List Rat) (h : l ≠ []) : listMin l ∈ l ∧ ∀ x ∈ l, listMin l ≤ x := by
  sorry

theorem ptp_scale (v : List Rat) (c : Rat) (hc : 0 ≤ c) : ptp (v.map (· * c)) = ptp v * c := by
  sorry

theorem rescaled_peak (d : Data) (ha : d.amplitudes.length = d.spikes.length)
    (hnn : ∀ a ∈ d.amplitudes, 0 ≤ a) (t : Nat) (ht : t < d.wfsW.length) (v : Rat)
    (hv : (ampsV d).getD t none = some v) (hau : 0 < (ampsAu d).getD t 0)
    (hrect : ∀ row ∈ (unwhitened d).getD t [], row.length = ncols ((unwhitened d).getD t []))
    (hcols : 0 < ncols ((unwhitened d).getD t [])) :
    ∃ W, (rescaled d).getD t none = some W ∧ listMax (chAmps W) = v := by
  sorry

theorem meanAmps_eq (ids : List Nat) (amps : List Rat) (h : amps.length = ids.length) :
    meanAmps ids amps = (Np.unique (ids.map Int.ofNat)).map fun t =>
      (t, ((membersOf ids t).map fun i => amps.getD i 0).sum / ((membersOf ids t).length : Nat)) := by
  sorry

theorem argmaxFirst_spec (l : List Rat) (h : l ≠ []) : IsFirstMax l (argmaxFirst l) := by
  sorry

theorem argminFirst_spec (l : List Rat) (h : l ≠ []) : IsFirstMin l (argminFirst l) := by
  sorry

theorem depths_eq (feat0 : List (List Rat)) (cols : List (List Nat)) (ys : List Rat)
    (st : List Nat) (i : Nat) (hi : i < feat0.length) (hl : st.length = feat0.length) :
    (depths feat0 cols ys st).getD i none =
      (let f := (feat0.getD i []).map fun x => (max x 0) * (max x 0)
       let y := (cols.getD (st.getD i 0) []).map fun c => ys.getD c 0
       if f.sum = 0 then none else some (dot y f / f.sum)) := by
  sorry

end PhyVerif.C09.Lemmas
