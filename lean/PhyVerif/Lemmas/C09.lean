import PhyVerif.Model.C09
import PhyVerif.Spec.C09
import PhyVerif.Lemmas.C07
import Mathlib.Tactic.Ring
import Mathlib.Tactic.Linarith
import Mathlib.Tactic.FieldSimp
import Mathlib.Algebra.Order.Field.Rat
/-! Helper lemmas and full proofs for C09. Statements: `Props/C09.lean`. -/
namespace PhyVerif.C09.Lemmas
open PhyVerif PhyVerif.C09

theorem foldl_max_spec (l : List Rat) : ∀ a : Rat,
    (l.foldl max a = a ∨ l.foldl max a ∈ l) ∧ a ≤ l.foldl max a ∧ ∀ x ∈ l, x ≤ l.foldl max a := by
  induction l with
  | nil => intro a; simp
  | cons b l ih =>
    intro a
    rw [List.foldl_cons]
    obtain ⟨h1, h2, h3⟩ := ih (max a b)
    refine ⟨?_, le_trans (le_max_left a b) h2, ?_⟩
    · rcases h1 with h1 | h1
      · rw [h1]
        rcases max_choice a b with h | h <;> simp [h]
      · exact Or.inr (List.mem_cons_of_mem _ h1)
    · intro x hx
      rcases List.mem_cons.mp hx with h | h
      · subst h; exact le_trans (le_max_right a x) h2
      · exact h3 x h

theorem foldl_min_spec (l : List Rat) : ∀ a : Rat,
    (l.foldl min a = a ∨ l.foldl min a ∈ l) ∧ l.foldl min a ≤ a ∧ ∀ x ∈ l, l.foldl min a ≤ x := by
  induction l with
  | nil => intro a; simp
  | cons b l ih =>
    intro a
    rw [List.foldl_cons]
    obtain ⟨h1, h2, h3⟩ := ih (min a b)
    refine ⟨?_, le_trans h2 (min_le_left a b), ?_⟩
    · rcases h1 with h1 | h1
      · rw [h1]
        rcases min_choice a b with h | h <;> simp [h]
      · exact Or.inr (List.mem_cons_of_mem _ h1)
    · intro x hx
      rcases List.mem_cons.mp hx with h | h
      · subst h; exact le_trans h2 (min_le_right a x)
      · exact h3 x h

theorem listMax_spec (l : List Rat) (h : l ≠ []) : listMax l ∈ l ∧ ∀ x ∈ l, x ≤ listMax l := by
  cases l with
  | nil => exact absurd rfl h
  | cons a t =>
    unfold listMax
    obtain ⟨h1, _, h3⟩ := foldl_max_spec (a :: t) ((a :: t).headD 0)
    refine ⟨?_, h3⟩
    rcases h1 with h1 | h1
    · rw [h1]; simp
    · exact h1

theorem listMin_spec (l : List Rat) (h : l ≠ []) : listMin l ∈ l ∧ ∀ x ∈ l, listMin l ≤ x := by
  cases l with
  | nil => exact absurd rfl h
  | cons a t =>
    unfold listMin
    obtain ⟨h1, _, h3⟩ := foldl_min_spec (a :: t) ((a :: t).headD 0)
    refine ⟨?_, h3⟩
    rcases h1 with h1 | h1
    · rw [h1]; simp
    · exact h1

theorem getD_eq_getElem' (l : List Rat) (i : Nat) (h : i < l.length) : l.getD i 0 = l[i] := by
  simp [List.getD_eq_getElem?_getD, h]

theorem argmaxFirst_spec (l : List Rat) (h : l ≠ []) : IsFirstMax l (argmaxFirst l) := by
  obtain ⟨hm, hb⟩ := listMax_spec l h
  have hlt : argmaxFirst l < l.length := List.idxOf_lt_length_iff.mpr hm
  have hget : l.getD (argmaxFirst l) 0 = listMax l := by
    rw [getD_eq_getElem' l _ hlt]; exact List.getElem_idxOf hlt
  refine ⟨hlt, ?_, ?_⟩
  · intro j hj
    rw [hget, getD_eq_getElem' l j hj]
    exact hb _ (List.getElem_mem hj)
  · intro j hj
    have hjl : j < l.length := lt_trans hj hlt
    rw [hget, getD_eq_getElem' l j hjl]
    refine lt_of_le_of_ne (hb _ (List.getElem_mem hjl)) ?_
    intro he
    have hj' : j < l.findIdx (· == listMax l) := hj
    have := List.not_of_lt_findIdx hj'
    simp [he] at this

theorem argminFirst_spec (l : List Rat) (h : l ≠ []) : IsFirstMin l (argminFirst l) := by
  obtain ⟨hm, hb⟩ := listMin_spec l h
  have hlt : argminFirst l < l.length := List.idxOf_lt_length_iff.mpr hm
  have hget : l.getD (argminFirst l) 0 = listMin l := by
    rw [getD_eq_getElem' l _ hlt]; exact List.getElem_idxOf hlt
  refine ⟨hlt, ?_, ?_⟩
  · intro j hj
    rw [hget, getD_eq_getElem' l j hj]
    exact hb _ (List.getElem_mem hj)
  · intro j hj
    have hjl : j < l.length := lt_trans hj hlt
    rw [hget, getD_eq_getElem' l j hjl]
    refine lt_of_le_of_ne (hb _ (List.getElem_mem hjl)) ?_
    intro he
    have hj' : j < l.findIdx (· == listMin l) := hj
    have := List.not_of_lt_findIdx hj'
    simp [← he] at this


theorem foldl_max_map_mul (v : List Rat) (c : Rat) (hc : 0 ≤ c) : ∀ a : Rat,
    (v.map (· * c)).foldl max (a * c) = v.foldl max a * c := by
  induction v with
  | nil => intro a; rfl
  | cons b v ih =>
    intro a
    rw [List.map_cons, List.foldl_cons, List.foldl_cons, ← max_mul_of_nonneg a b hc, ih]

theorem foldl_min_map_mul (v : List Rat) (c : Rat) (hc : 0 ≤ c) : ∀ a : Rat,
    (v.map (· * c)).foldl min (a * c) = v.foldl min a * c := by
  induction v with
  | nil => intro a; rfl
  | cons b v ih =>
    intro a
    rw [List.map_cons, List.foldl_cons, List.foldl_cons, ← min_mul_of_nonneg a b hc, ih]

theorem listMax_map_mul (v : List Rat) (c : Rat) (hc : 0 ≤ c) :
    listMax (v.map (· * c)) = listMax v * c := by
  cases v with
  | nil => simp [listMax]
  | cons a t =>
    unfold listMax
    rw [List.map_cons, List.headD_cons, List.headD_cons, ← List.map_cons (f := (· * c)),
      foldl_max_map_mul _ c hc]

theorem listMin_map_mul (v : List Rat) (c : Rat) (hc : 0 ≤ c) :
    listMin (v.map (· * c)) = listMin v * c := by
  cases v with
  | nil => simp [listMin]
  | cons a t =>
    unfold listMin
    rw [List.map_cons, List.headD_cons, List.headD_cons, ← List.map_cons (f := (· * c)),
      foldl_min_map_mul _ c hc]

theorem ptp_scale (v : List Rat) (c : Rat) (hc : 0 ≤ c) : ptp (v.map (· * c)) = ptp v * c := by
  unfold ptp
  rw [listMax_map_mul v c hc, listMin_map_mul v c hc]
  ring

theorem spikeAmp_eq (d : Data) (i : Nat) (hi : i < d.spikes.length) (ha : d.amplitudes.length = d.spikes.length) :
    (spikeAmps d).getD i 0 =
      listMax (chAmps (matMul (d.wfsW.getD (d.spikes.getD i 0) []) d.wmi)) * d.amplitudes.getD i 0 ∨
    d.wfsW.length ≤ d.spikes.getD i 0 := by
  by_cases hs : d.wfsW.length ≤ d.spikes.getD i 0
  · exact Or.inr hs
  · left
    have hs' : d.spikes.getD i 0 < d.wfsW.length := by omega
    have hi' : i < d.amplitudes.length := by omega
    unfold spikeAmps ampsAu unwhitened
    simp only [List.getD_eq_getElem?_getD] at hs' ⊢
    simp [List.getElem?_map, hi, hi'] at hs' ⊢
    simp [hs']

theorem depths_eq (feat0 : List (List Rat)) (cols : List (List Nat)) (ys : List Rat)
    (st : List Nat) (i : Nat) (hi : i < feat0.length) (hl : st.length = feat0.length) :
    (depths feat0 cols ys st).getD i none =
      (let f := (feat0.getD i []).map fun x => (max x 0) * (max x 0)
       let y := (cols.getD (st.getD i 0) []).map fun c => ys.getD c 0
       if f.sum = 0 then none else some (dot y f / f.sum)) := by
  have hi' : i < st.length := by omega
  unfold depths
  simp only [List.getD_eq_getElem?_getD]
  simp [hi, hi']


theorem membersOf_cons (x : Nat) (s : List Nat) (t : Nat) :
    membersOf (x :: s) t = (if x == t then [0] else []) ++ (membersOf s t).map (· + 1) := by
  unfold membersOf
  rw [List.length_cons, List.range_succ_eq_map, List.filter_cons, List.filter_map]
  simp only [List.getD_cons_zero]
  split
  · simp [Function.comp_def]
  · simp [Function.comp_def]

theorem count_eq_members (s : List Nat) (t : Nat) : s.count t = (membersOf s t).length := by
  induction s with
  | nil => rfl
  | cons x s ih =>
    rw [membersOf_cons, List.count_cons, ih]
    split <;> simp

theorem wsum_eq_members (s : List Nat) (t : Nat) : ∀ w : List Rat, w.length = s.length →
    (((s.zip w).filter fun p => p.1 == t).map (·.2)).sum =
      ((membersOf s t).map fun i => w.getD i 0).sum := by
  induction s with
  | nil => intro w _; rfl
  | cons x s ih =>
    intro w hw
    cases w with
    | nil => simp at hw
    | cons y w =>
      rw [membersOf_cons, List.zip_cons_cons, List.filter_cons]
      have hw' : w.length = s.length := by simpa using hw
      have := ih w hw'
      split
      · simp [this, Function.comp_def]
      · simp [this, Function.comp_def]


theorem bincountW_getD (s : List Nat) (w : List Rat) (n t : Nat) (ht : t < n) :
    (bincountW s w n).getD t 0 = (((s.zip w).filter fun p => p.1 == t).map (·.2)).sum := by
  unfold bincountW
  simp [List.getD_eq_getElem?_getD, ht]

theorem bincountN_getD (s : List Nat) (n t : Nat) (ht : t < n) :
    (bincountN s n).getD t 0 = s.count t := by
  unfold bincountN
  simp [List.getD_eq_getElem?_getD, ht]

theorem spikeAmps_length (d : Data) (ha : d.amplitudes.length = d.spikes.length) :
    (spikeAmps d).length = d.spikes.length := by
  unfold spikeAmps; simp [ha]

theorem ampsV_getD (d : Data) (t : Nat) (ht : t < d.wfsW.length) :
    (ampsV d).getD t none =
      if d.spikes.count t = 0 then none
      else some ((bincountW d.spikes (spikeAmps d) d.wfsW.length).getD t 0 / (d.spikes.count t : Nat)) := by
  unfold ampsV
  simp only [List.getD_eq_getElem?_getD]
  simp [bincountW, bincountN, ht]

theorem ampsV_eq_mean (d : Data) (ha : d.amplitudes.length = d.spikes.length) (t : Nat)
    (ht : t < d.wfsW.length) :
    (ampsV d).getD t none = meanOver d.spikes (spikeAmps d) t ∧ (ampsV d).length = d.wfsW.length := by
  refine ⟨?_, by simp [ampsV, bincountW, bincountN]⟩
  rw [ampsV_getD d t ht, bincountW_getD _ _ _ _ ht,
    wsum_eq_members _ _ _ (spikeAmps_length d ha), count_eq_members]
  rfl

theorem meanAmps_eq (ids : List Nat) (amps : List Rat) (h : amps.length = ids.length) :
    meanAmps ids amps = (Np.unique (ids.map Int.ofNat)).map fun t =>
      (t, ((membersOf ids t).map fun i => amps.getD i 0).sum / ((membersOf ids t).length : Nat)) := by
  unfold meanAmps
  apply List.map_congr_left
  intro t ht
  have hmem : t ∈ ids := by
    have := ((PhyVerif.C07.Lemmas.unique_spec (ids.map Int.ofNat)).2 t).mp ht
    simpa using this
  have hle : t < ids.foldl max 0 + 1 :=
    Nat.lt_succ_of_le ((PhyVerif.C07.Lemmas.le_foldl_max ids 0).2 t hmem)
  show (t, _) = (t, _)
  congr 1
  rw [bincountW_getD _ _ _ _ hle, bincountN_getD _ _ _ hle, wsum_eq_members _ _ _ h, count_eq_members]


theorem ptp_nonneg (v : List Rat) : 0 ≤ ptp v := by
  unfold ptp listMax listMin
  have h1 := (foldl_max_spec v (v.headD 0)).2.1
  have h2 := (foldl_min_spec v (v.headD 0)).2.1
  linarith

theorem listMax_nonneg (l : List Rat) (h : ∀ x ∈ l, 0 ≤ x) : 0 ≤ listMax l := by
  cases l with
  | nil => simp [listMax]
  | cons a t =>
    have h1 := (foldl_max_spec (a :: t) ((a :: t).headD 0)).2.1
    have h2 : 0 ≤ a := h a (by simp)
    unfold listMax
    rw [List.headD_cons] at h1 ⊢
    linarith

theorem listMax_chAmps_nonneg (W : Mat) : 0 ≤ listMax (chAmps W) := by
  apply listMax_nonneg
  intro x hx
  unfold chAmps at hx
  obtain ⟨j, _, rfl⟩ := List.mem_map.mp hx
  exact ptp_nonneg _

theorem ampsAu_getD_nonneg (d : Data) (k : Nat) : 0 ≤ (ampsAu d).getD k 0 := by
  unfold ampsAu
  rw [List.getD_eq_getElem?_getD, List.getElem?_map]
  cases (unwhitened d)[k]? with
  | none => simp
  | some W => simpa using listMax_chAmps_nonneg W

theorem spikeAmps_nonneg (d : Data) (hnn : ∀ a ∈ d.amplitudes, 0 ≤ a) :
    ∀ x ∈ spikeAmps d, 0 ≤ x := by
  intro x hx
  unfold spikeAmps at hx
  obtain ⟨p, hp, rfl⟩ := List.mem_map.mp hx
  exact mul_nonneg (ampsAu_getD_nonneg d p.1) (hnn _ (List.of_mem_zip hp).2)

theorem list_sum_nonneg (l : List Rat) (h : ∀ x ∈ l, 0 ≤ x) : 0 ≤ l.sum := by
  induction l with
  | nil => simp
  | cons a l ih =>
    rw [List.sum_cons]
    exact add_nonneg (h a (by simp)) (ih fun x hx => h x (by simp [hx]))

theorem wsum_nonneg (s : List Nat) (w : List Rat) (t : Nat) (h : ∀ x ∈ w, 0 ≤ x) :
    0 ≤ (((s.zip w).filter fun p => p.1 == t).map (·.2)).sum := by
  apply list_sum_nonneg
  intro x hx
  obtain ⟨p, hp, rfl⟩ := List.mem_map.mp hx
  exact h _ (List.of_mem_zip (List.mem_filter.mp hp).1).2

theorem ampsV_nonneg (d : Data) (hnn : ∀ a ∈ d.amplitudes, 0 ≤ a) (t : Nat)
    (ht : t < d.wfsW.length) (v : Rat) (hv : (ampsV d).getD t none = some v) : 0 ≤ v := by
  rw [ampsV_getD d t ht, bincountW_getD _ _ _ _ ht] at hv
  split at hv
  · cases hv
  · injection hv with hv
    rw [← hv]
    exact div_nonneg (wsum_nonneg _ _ _ (spikeAmps_nonneg d hnn)) (Nat.cast_nonneg _)

theorem rescaled_getD (d : Data) (t : Nat) (ht : t < d.wfsW.length) :
    (rescaled d).getD t none =
      match (ampsV d).getD t none with
      | none => none
      | some v =>
        if (ampsAu d).getD t 0 = 0 then none
        else some (((unwhitened d).getD t []).map fun row =>
          row.map (· * (v / (ampsAu d).getD t 0))) := by
  have hU : t < (unwhitened d).length := by simp [unwhitened, ht]
  have hA : t < (ampsAu d).length := by simp [ampsAu, unwhitened, ht]
  have hV : t < (ampsV d).length := by simp [ampsV, bincountW, bincountN, ht]
  unfold rescaled
  simp only [List.getD_eq_getElem?_getD]
  simp [hU, hA, hV]
  rfl

theorem ncols_scale (U : Mat) (c : Rat) : ncols (U.map fun row => row.map (· * c)) = ncols U := by
  cases U <;> simp [ncols]

theorem col_scale (U : Mat) (c : Rat) (j : Nat) :
    col (U.map fun row => row.map (· * c)) j = (col U j).map (· * c) := by
  unfold col
  rw [List.map_map, List.map_map]
  apply List.map_congr_left
  intro row _
  simp only [Function.comp_def, List.getD_eq_getElem?_getD, List.getElem?_map]
  cases row[j]? <;> simp

theorem chAmps_scale (U : Mat) (c : Rat) (hc : 0 ≤ c) :
    chAmps (U.map fun row => row.map (· * c)) = (chAmps U).map (· * c) := by
  unfold chAmps
  rw [ncols_scale, List.map_map]
  apply List.map_congr_left
  intro j _
  simp only [Function.comp_def]
  rw [col_scale, ptp_scale _ _ hc]

-- `hrect`/`hcols`/`ha` are not needed by the proof (kept: part of the public statement).
set_option linter.unusedVariables false in
theorem rescaled_peak (d : Data) (ha : d.amplitudes.length = d.spikes.length)
    (hnn : ∀ a ∈ d.amplitudes, 0 ≤ a) (t : Nat) (ht : t < d.wfsW.length) (v : Rat)
    (hv : (ampsV d).getD t none = some v) (hau : 0 < (ampsAu d).getD t 0)
    (hrect : ∀ row ∈ (unwhitened d).getD t [], row.length = ncols ((unwhitened d).getD t []))
    (hcols : 0 < ncols ((unwhitened d).getD t [])) :
    ∃ W, (rescaled d).getD t none = some W ∧ listMax (chAmps W) = v := by
  have hv0 : 0 ≤ v := ampsV_nonneg d hnn t ht v hv
  have hne : (ampsAu d).getD t 0 ≠ 0 := ne_of_gt hau
  have hc : 0 ≤ v / (ampsAu d).getD t 0 := div_nonneg hv0 (le_of_lt hau)
  refine ⟨((unwhitened d).getD t []).map fun row =>
          row.map (· * (v / (ampsAu d).getD t 0)), ?_, ?_⟩
  · rw [rescaled_getD d t ht, hv]
    simp only [if_neg hne]
  · rw [chAmps_scale _ _ hc, listMax_map_mul _ _ hc]
    have hA : (ampsAu d).getD t 0 = listMax (chAmps ((unwhitened d).getD t [])) := by
      have hU : t < (unwhitened d).length := by simp [unwhitened, ht]
      unfold ampsAu
      simp only [List.getD_eq_getElem?_getD]
      simp [hU]
    rw [← hA]
    field_simp

end PhyVerif.C09.Lemmas
