import PhyVerif.Lemmas.C05
import PhyVerif.Model.C05b
import PhyVerif.Spec.C09b
import PhyVerif.Lemmas.C09b
/-! Second part of the C05 proofs: cardinality of the neighbourhood at a distance tie (`nearCountOK`), what
"unwhitened" means entry by entry (`unwhiten_entry`), which stored channels a sparse record lists. -/
namespace PhyVerif.C05.Lemmas
open PhyVerif PhyVerif.C09 PhyVerif.C05

/-! ### the `n` first of the argsort -/

theorem take_facts (ds : List Rat) (n : Nat) (hn : 0 < n) (hnl : n < ds.length) :
    ((argsortRat ds).take n).Nodup ∧ ((argsortRat ds).take n).length = n ∧
    (∀ c ∈ (argsortRat ds).take n, c < ds.length ∧ ds.getD c 0 ≤ (Np.isort leR ds).getD (n - 1) 0) ∧
    (∀ c, c < ds.length → ds.getD c 0 < (Np.isort leR ds).getD (n - 1) 0 → c ∈ (argsortRat ds).take n) := by
  refine ⟨?_, ?_, ?_, ?_⟩
  · exact List.Nodup.sublist (List.take_sublist _ _) ((argsortRat_perm ds).nodup_iff.2 List.nodup_range)
  · rw [List.length_take, argsortRat_length]; omega
  · intro c hc
    have hlt : c < ds.length :=
      List.mem_range.1 ((argsortRat_perm ds).mem_iff.1 (List.mem_of_mem_take hc))
    refine ⟨hlt, ?_⟩
    by_contra hgt
    exact (near_lemma ds n c hn hnl hlt).2.1 (not_le.1 hgt) hc
  · intro c hc hd
    exact (near_lemma ds n c hn hnl hc).1 hd

theorem nodup_filter_range (k : Nat) (p : Nat → Bool) : ((List.range k).filter p).Nodup :=
  List.Nodup.sublist List.filter_sublist List.nodup_range

/-- counting form of "the listed channels are the eligible ones of a set of `n` nearest channels" -/
theorem near_count (ds : List Rat) (n : Nat) (hn : 0 < n) (hnl : n < ds.length)
    (elig : Nat → Bool) (listed : List Nat)
    (hl : ∀ c, c < ds.length → (c ∈ listed ↔ elig c = true ∧ c ∈ (argsortRat ds).take n)) :
    let cut := (Np.isort leR ds).getD (n - 1) 0
    let s := ((List.range ds.length).filter fun c => decide (ds.getD c 0 < cut)).length
    let tie := (List.range ds.length).filter fun c => decide (ds.getD c 0 = cut)
    s + (tie.filter fun c => listed.contains c).length ≤ n ∧
    n + (tie.filter fun c => elig c && !listed.contains c).length ≤ s + tie.length := by
  intro cut s tie
  obtain ⟨hNnd, hNlen, hNmem, hNlt⟩ := take_facts ds n hn hnl
  generalize hN : (argsortRat ds).take n = N at hNnd hNlen hNmem hNlt hl
  -- N = (strictly closer) ++ (at the cut)
  have hsplit := List.length_eq_length_filter_add (l := N) (fun c => decide (ds.getD c 0 < cut))
  have hrest : (N.filter fun c => !decide (ds.getD c 0 < cut))
      = N.filter fun c => decide (ds.getD c 0 = cut) := by
    apply List.filter_congr
    intro c hc
    have hle : ds.getD c 0 ≤ cut := (hNmem c hc).2
    by_cases hlt : ds.getD c 0 < cut
    · have hne : ds.getD c 0 ≠ cut := ne_of_lt hlt
      show (!decide (ds.getD c 0 < cut)) = decide (ds.getD c 0 = cut)
      rw [decide_eq_true hlt, decide_eq_false hne]; rfl
    · have heq : ds.getD c 0 = cut := le_antisymm hle (not_lt.1 hlt)
      show (!decide (ds.getD c 0 < cut)) = decide (ds.getD c 0 = cut)
      rw [decide_eq_false hlt, decide_eq_true heq]; rfl
  rw [hrest] at hsplit
  have hS : (N.filter fun c => decide (ds.getD c 0 < cut)).length = s := by
    apply List.Perm.length_eq
    rw [List.perm_ext_iff_of_nodup (List.Nodup.sublist List.filter_sublist hNnd) (nodup_filter_range _ _)]
    intro c
    simp only [List.mem_filter, List.mem_range, decide_eq_true_eq]
    constructor
    · rintro ⟨hc, hd⟩; exact ⟨(hNmem c hc).1, hd⟩
    · rintro ⟨hc, hd⟩; exact ⟨hNlt c hc hd, hd⟩
  have htnd : tie.Nodup := nodup_filter_range _ _
  -- listed channels at the cut are among the chosen ones at the cut
  have hA : (tie.filter fun c => listed.contains c).length
      ≤ (N.filter fun c => decide (ds.getD c 0 = cut)).length := by
    apply List.Subperm.length_le
    apply List.subperm_of_subset (List.Nodup.sublist List.filter_sublist htnd)
    intro c hc
    simp only [tie, List.mem_filter, List.mem_range, decide_eq_true_eq, List.contains_iff_mem] at hc
    obtain ⟨⟨hlt, hd⟩, hli⟩ := hc
    simp only [List.mem_filter, decide_eq_true_eq]
    exact ⟨((hl c hlt).1 hli).2, hd⟩
  -- eligible unlisted channels at the cut are not chosen: together with the chosen ones they fit into the tie
  have hB : (tie.filter fun c => elig c && !listed.contains c).length
      + (N.filter fun c => decide (ds.getD c 0 = cut)).length ≤ tie.length := by
    rw [← List.length_append]
    apply List.Subperm.length_le
    apply List.subperm_of_subset
    · rw [List.nodup_append]
      refine ⟨List.Nodup.sublist List.filter_sublist htnd, List.Nodup.sublist List.filter_sublist hNnd, ?_⟩
      intro a ha b hb hab
      subst hab
      simp only [tie, List.mem_filter, List.mem_range, decide_eq_true_eq, Bool.and_eq_true,
        Bool.not_eq_true', List.contains_eq_mem, decide_eq_false_iff_not] at ha
      obtain ⟨⟨hlt, _⟩, hel, hnl'⟩ := ha
      simp only [List.mem_filter] at hb
      exact hnl' ((hl a hlt).2 ⟨hel, hb.1⟩)
    · intro c hc
      rcases List.mem_append.1 hc with h | h
      · exact (List.mem_filter.1 h).1
      · simp only [List.mem_filter, decide_eq_true_eq] at h
        simp only [tie, List.mem_filter, List.mem_range, decide_eq_true_eq]
        exact ⟨(hNmem c h.1).1, h.2⟩
  omega

/-- the model's channel list passes the cardinality condition -/
theorem nearCount_model (g : Geometry) (b : Nat) (elig : Nat → Bool) (listed : List Nat)
    (hl : ∀ c, c < g.positions.length → (c ∈ listed ↔ elig c = true ∧ c ∈ closestChannels g b)) :
    nearCountOK g b elig listed = true := by
  have hdl : ((List.range g.positions.length).map (dist2 g.positions b)).length
      = g.positions.length := by simp
  unfold nearCountOK
  by_cases h0 : g.nClosest = 0
  · simp [h0]
  by_cases hge : g.nClosest ≥ g.positions.length
  · simp [hge]
  · have hcl : closestChannels g b
        = (argsortRat ((List.range g.positions.length).map (dist2 g.positions b))).take g.nClosest := by
      unfold closestChannels; simp [h0]
    rw [hcl] at hl
    have h := near_count ((List.range g.positions.length).map (dist2 g.positions b)) g.nClosest
      (Nat.pos_of_ne_zero h0) (by rw [hdl]; omega) elig listed (by rw [hdl]; exact hl)
    rw [hdl] at h
    simp only [h0, hge, Bool.or_self, if_false, Bool.and_eq_true, decide_eq_true_eq]
    exact h

theorem dense_record_ok (g : Geometry) (T : Mat) (thr : Rat) (hwf : DenseWF g T)
    (h0 : 0 ≤ thr) (h1 : thr ≤ 1) :
    let (ids, amp, best) := findBestChannels g T thr
    denseOK g T thr ⟨T.map fun row => ids.map fun c => row.getD c 0, ids, amp, best⟩ = true := by
  show denseOK g T thr ⟨T.map fun row => (findBestChannels g T thr).1.map fun c => row.getD c 0,
    (findBestChannels g T thr).1, (findBestChannels g T thr).2.1,
    (findBestChannels g T thr).2.2⟩ = true
  unfold denseOK
  rw [Bool.and_eq_true]
  refine ⟨dense_base_ok g T thr hwf h0 h1, ?_⟩
  show nearCountOK g (findBestChannels g T thr).2.2 (eligible g T thr (findBestChannels g T thr).2.2)
    (findBestChannels g T thr).1 = true
  apply nearCount_model
  intro c hc
  obtain ⟨_, hnc, _, hpos, _, _⟩ := hwf
  have hlen := chAmps_length T
  have hne : chAmps T ≠ [] := by
    intro e; rw [e] at hlen; simp at hlen; omega
  have hbmx := (argmax_getD (chAmps T) hne).2
  rw [(findBest_perm g T thr).mem_iff, findBest_best, mem_ids0 g T thr c, hbmx]
  unfold eligible
  rw [Bool.and_eq_true, decide_eq_true_eq]
  constructor
  · rintro ⟨_, a, b, d⟩; exact ⟨⟨a, b⟩, d⟩
  · rintro ⟨⟨a, b⟩, d⟩; exact ⟨hpos ▸ hc, a, b, d⟩

/-! ### what "unwhitened" means -/

theorem entry_scale (M : Mat) (c : Rat) (s j : Nat) (hs : s < M.length) (hj : j < (M.getD s []).length) :
    entry (M.map fun row => row.map (· * c)) s j = entry M s j * c := by
  unfold entry
  have e1 : (M.map fun row => row.map (· * c)).getD s [] = (M.getD s []).map (· * c) := by
    simp [List.getD_eq_getElem?_getD, hs]
  rw [e1]
  generalize M.getD s [] = row at hj
  simp [List.getD_eq_getElem?_getD, List.getElem?_eq_getElem hj]

theorem ncols_subMat (wmi : Mat) (l : List Nat) (hl : l ≠ []) : ncols (subMat wmi l) = l.length := by
  cases l with
  | nil => exact absurd rfl hl
  | cons a t => simp [ncols, subMat]

theorem entry_subMat (wmi : Mat) (l : List Nat) (k j : Nat) (hk : k < l.length) (hj : j < l.length) :
    entry (subMat wmi l) k j = entry wmi (l.getD k 0) (l.getD j 0) := by
  unfold entry subMat
  simp [List.getD_eq_getElem?_getD, hk, hj]

theorem matMul_row_length (W M : Mat) (s : Nat) (hs : s < W.length) :
    ((matMul W M).getD s []).length = ncols M := by
  unfold matMul
  simp [List.getD_eq_getElem?_getD, hs]

/-- whole matrix: `unwhiten(x)[s, j] = (Σ_k x[s, k] · wmi[k, j]) · template_scaling` -/
theorem unwhiten_entry (wmi : Mat) (sc : Rat) (x : Mat) (s j : Nat) (hs : s < x.length)
    (hj : j < ncols wmi) (hrow : (x.getD s []).length = wmi.length) :
    entry (unwhiten wmi sc x none) s j = (sumTo wmi.length fun k => entry x s k * entry wmi k j) * sc := by
  show entry ((matMul x wmi).map fun row => row.map (· * sc)) s j = _
  rw [entry_scale _ _ _ _ (by simp [matMul]; exact hs) (by rw [matMul_row_length x wmi s hs]; exact hj),
    C09.Lemmas.matMul_entry x wmi s j hs hj hrow]

/-- on the kept channels `ch` of a sparse template: column `j` of the result is channel `ch[j]`,
`unwhiten(x, ch)[s, j] = (Σ_k x[s, k] · wmi[ch[k], ch[j]]) · template_scaling` -/
theorem unwhiten_entry_sub (wmi : Mat) (sc : Rat) (x : Mat) (ch : List Nat) (s j : Nat) (hs : s < x.length)
    (hj : j < ch.length) (hrow : (x.getD s []).length = ch.length) :
    entry (unwhiten wmi sc x (some ch)) s j =
      (sumTo ch.length fun k => entry x s k * entry wmi (ch.getD k 0) (ch.getD j 0)) * sc := by
  have hne : ch ≠ [] := by intro e; rw [e] at hj; exact absurd hj (Nat.not_lt_zero _)
  have hnc : ncols (subMat wmi ch) = ch.length := ncols_subMat wmi ch hne
  have hlen : (subMat wmi ch).length = ch.length := by simp [subMat]
  show entry ((matMul x (subMat wmi ch)).map fun row => row.map (· * sc)) s j = _
  rw [entry_scale _ _ _ _ (by simp [matMul]; exact hs)
      (by rw [matMul_row_length x _ s hs, hnc]; exact hj),
    C09.Lemmas.matMul_entry x (subMat wmi ch) s j hs (by rw [hnc]; exact hj) (by rw [hlen]; exact hrow), hlen]
  congr 1
  unfold sumTo
  congr 1
  apply List.map_congr_left
  intro k hk
  rw [entry_subMat wmi ch k j (List.mem_range.1 hk) hj]

/-! ### which stored channels a sparse record lists -/

/-- a stored column is kept iff it is in use and its largest absolute value exceeds `1e-6` of the largest over
the columns in use -/
theorem mem_keptCols (Tw : Mat) (cols : List Int) (m : Int) (j : Nat) :
    j ∈ keptCols Tw cols m ↔ j < cols.length ∧ cols.getD j 0 ≠ m ∧
      colAbsMax Tw j > listMax ((usedCols cols m).map (colAbsMax Tw)) * (1 / 1000000) := by
  unfold keptCols usedCols
  simp only [List.mem_filter, List.mem_range, decide_eq_true_eq, bne_iff_ne, ne_eq]
  tauto

/-- the threshold is taken relative to the largest stored value on the columns IN USE (an unused column's content
does not enter): it is attained on a used column and bounds all of them -/
theorem usedMax_spec (Tw : Mat) (cols : List Int) (m : Int) (h : usedCols cols m ≠ []) :
    (∃ j ∈ usedCols cols m, colAbsMax Tw j = listMax ((usedCols cols m).map (colAbsMax Tw))) ∧
    ∀ j ∈ usedCols cols m, colAbsMax Tw j ≤ listMax ((usedCols cols m).map (colAbsMax Tw)) := by
  have hne : (usedCols cols m).map (colAbsMax Tw) ≠ [] := by simpa using h
  obtain ⟨hmem, hle⟩ := C09.Lemmas.listMax_spec _ hne
  refine ⟨?_, fun j hj => hle _ (List.mem_map_of_mem hj)⟩
  obtain ⟨j, hj, e⟩ := List.mem_map.1 hmem
  exact ⟨j, hj, e⟩

theorem sparse_listed_iff (wmi : Mat) (sc : Rat) (Tw : Mat) (cols : List Int) (m : Int) (unwh : Bool) (c : Nat) :
    c ∈ (getTemplateSparse wmi sc Tw cols m unwh).channels ↔
      ∃ j, j < cols.length ∧ (cols.getD j 0).toNat = c ∧ cols.getD j 0 ≠ m ∧
        colAbsMax Tw j > listMax ((usedCols cols m).map (colAbsMax Tw)) * (1 / 1000000) := by
  have hperm : (getTemplateSparse wmi sc Tw cols m unwh).channels.Perm
      ((keptCols Tw cols m).map fun j => (cols.getD j 0).toNat) := by
    show ((argsortDesc _).map fun j => ((keptCols Tw cols m).map fun j => (cols.getD j 0).toNat).getD j 0).Perm _
    apply reorder_perm
    have h := argsortDesc_perm ((List.range (keptCols Tw cols m).length).map fun j =>
      ptp (col (if unwh then unwhiten wmi sc
        (Tw.map fun row => (keptCols Tw cols m).map fun j => row.getD j 0)
        (some ((keptCols Tw cols m).map fun j => (cols.getD j 0).toNat))
        else Tw.map fun row => (keptCols Tw cols m).map fun j => row.getD j 0) j))
    simpa using h
  rw [hperm.mem_iff, List.mem_map]
  constructor
  · rintro ⟨j, hj, e⟩
    obtain ⟨a, b, d⟩ := (mem_keptCols Tw cols m j).1 hj
    exact ⟨j, a, e, b, d⟩
  · rintro ⟨j, a, e, b, d⟩
    exact ⟨j, (mem_keptCols Tw cols m j).2 ⟨a, b, d⟩, e⟩

/-! ### float32 amplitudes: the exact peak-to-peak IS the single precision subtraction under `ptpExactF` -/

theorem roundNE_zero (p : Nat) : roundNE p 0 = 0 := by simp [roundNE]

theorem getD_chAmps_exact (p : Nat) (T : Mat) (hp : ptpExactF p T = true) (c : Nat) :
    roundNE p ((chAmps T).getD c 0) = (chAmps T).getD c 0 := by
  unfold ptpExactF at hp
  rw [List.all_eq_true] at hp
  by_cases hc : c < (chAmps T).length
  · have e : (chAmps T).getD c 0 = (chAmps T)[c] := by simp [List.getD_eq_getElem?_getD, hc]
    rw [e]
    exact beq_iff_eq.1 (hp _ (List.getElem_mem hc))
  · have e : (chAmps T).getD c 0 = 0 := by
      simp [List.getD_eq_getElem?_getD, List.getElem?_eq_none (Nat.le_of_not_lt hc)]
    rw [e, roundNE_zero]

/-- automatic selection: every reported amplitude is a `p`-bit value, i.e. the rounded subtraction
`max − min` of the real code returns exactly it -/
theorem findBest_amp_exact (g : Geometry) (T : Mat) (thr : Rat) (p : Nat) (hp : ptpExactF p T = true) :
    ∀ a ∈ (findBestChannels g T thr).2.1, roundNE p a = a := by
  intro a ha
  rw [findBest_amp] at ha
  obtain ⟨c, _, rfl⟩ := List.mem_map.1 ha
  exact getD_chAmps_exact p T hp c

/-- explicit list: the same -/
theorem explicit_amp_exact (g : Geometry) (wmi : Mat) (sc : Rat) (T : Mat) (l : List Nat) (thr : Rat) (p : Nat)
    (hwf : DenseWF g T) (hl : ∀ c ∈ l, c < ncols T) (hp : ptpExactF p T = true) :
    ∀ a ∈ (getTemplateDense g wmi sc T (some l) thr false).amplitude, roundNE p a = a := by
  have h := dense_explicit_ok g wmi sc T l thr false hwf hl
  simp only [Bool.false_eq_true, if_false] at h
  unfold denseExplicitOK alignedOK at h
  simp only [Bool.and_eq_true, beq_iff_eq] at h
  obtain ⟨⟨⟨⟨_, hamp⟩, _⟩, hch⟩, _⟩ := h
  intro a ha
  rw [hamp, hch] at ha
  obtain ⟨c, hc, rfl⟩ := List.mem_map.1 ha
  rw [← chAmps_getD T c (hl c hc)]
  exact getD_chAmps_exact p T hp c

/-- sparse storage: when every kept column's exact peak-to-peak is a `p`-bit value, so is every reported amplitude
(the rounded subtraction of the real code returns exactly it) -/
theorem sparse_amp_exact (wmi : Mat) (sc : Rat) (Tw : Mat) (cols : List Int) (m : Int) (unwh : Bool) (p : Nat)
    (hp : ∀ j, j < (keptCols Tw cols m).length →
      roundNE p (ptp (col (if unwh then unwhiten wmi sc
          (Tw.map fun row => (keptCols Tw cols m).map fun j => row.getD j 0)
          (some ((keptCols Tw cols m).map fun j => (cols.getD j 0).toNat))
        else Tw.map fun row => (keptCols Tw cols m).map fun j => row.getD j 0) j))
      = ptp (col (if unwh then unwhiten wmi sc
          (Tw.map fun row => (keptCols Tw cols m).map fun j => row.getD j 0)
          (some ((keptCols Tw cols m).map fun j => (cols.getD j 0).toNat))
        else Tw.map fun row => (keptCols Tw cols m).map fun j => row.getD j 0) j)) :
    ∀ a ∈ (getTemplateSparse wmi sc Tw cols m unwh).amplitude, roundNE p a = a := by
  intro a ha
  generalize hT : (if unwh then unwhiten wmi sc
          (Tw.map fun row => (keptCols Tw cols m).map fun j => row.getD j 0)
          (some ((keptCols Tw cols m).map fun j => (cols.getD j 0).toNat))
        else Tw.map fun row => (keptCols Tw cols m).map fun j => row.getD j 0) = T at hp
  have hamp : (getTemplateSparse wmi sc Tw cols m unwh).amplitude =
      (argsortDesc ((List.range (keptCols Tw cols m).length).map fun j => ptp (col T j))).map fun j =>
        ((List.range (keptCols Tw cols m).length).map fun j => ptp (col T j)).getD j 0 := by
    rw [← hT]; rfl
  rw [hamp] at ha
  obtain ⟨j, _, rfl⟩ := List.mem_map.1 ha
  by_cases hj : j < (keptCols Tw cols m).length
  · have e : ((List.range (keptCols Tw cols m).length).map fun j => ptp (col T j)).getD j 0 = ptp (col T j) := by
      simp [List.getD_eq_getElem?_getD, hj]
    rw [e]; exact hp j hj
  · have e : ((List.range (keptCols Tw cols m).length).map fun j => ptp (col T j)).getD j 0 = 0 := by
      simp [List.getD_eq_getElem?_getD, Nat.le_of_not_lt hj]
    rw [e, roundNE_zero]

/-! ### no kept column -/

theorem colAbsMax_nonneg (Tw : Mat) (j : Nat) : 0 ≤ colAbsMax Tw j := by
  unfold colAbsMax
  by_cases hne : ((col Tw j).map fun x => if x < 0 then -x else x) = []
  · rw [hne]; decide
  · obtain ⟨hmem, _⟩ := C09.Lemmas.listMax_spec _ hne
    obtain ⟨x, _, e⟩ := List.mem_map.1 hmem
    rw [← e]
    split
    · linarith
    · linarith

theorem sparse_raises_of_no_signal (Tw : Mat) (cols : List Int) (m : Int) :
    sparseRaises Tw cols m = true ↔ ∀ j ∈ usedCols cols m, colAbsMax Tw j = 0 := by
  unfold sparseRaises keptCols
  rw [List.isEmpty_iff, List.filter_eq_nil_iff]
  simp only [decide_eq_true_eq, not_lt]
  constructor
  · intro h j hj
    have hne : usedCols cols m ≠ [] := List.ne_nil_of_mem hj
    obtain ⟨⟨j0, hj0, e0⟩, hle⟩ := usedMax_spec Tw cols m hne
    have h0 := h j0 hj0
    rw [e0] at h0
    have hmx : listMax ((usedCols cols m).map (colAbsMax Tw)) ≤ 0 := by
      by_contra hc
      have : 0 < listMax ((usedCols cols m).map (colAbsMax Tw)) := not_le.1 hc
      nlinarith
    exact le_antisymm (le_trans (hle j hj) hmx) (colAbsMax_nonneg Tw j)
  · intro h j hj
    have hne : usedCols cols m ≠ [] := List.ne_nil_of_mem hj
    obtain ⟨⟨j0, hj0, e0⟩, _⟩ := usedMax_spec Tw cols m hne
    rw [h j hj, ← e0, h j0 hj0]
    norm_num

end PhyVerif.C05.Lemmas
