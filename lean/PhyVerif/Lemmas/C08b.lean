import PhyVerif.Model.C08b
import PhyVerif.Lemmas.C08
import PhyVerif.Lemmas.C07b
/-! Further proofs for C08: the public `get_cluster_mean_waveforms`, "first maximal" dominant
template, `_get_template_from_spikes`.  Statements: `Props/C08.lean`. -/
namespace PhyVerif.C08.Lemmas
open PhyVerif PhyVerif.C09 PhyVerif.C08

/-! ### first maximum -/

theorem getD_ne_of_lt_idxOf (m : Nat) : ∀ (l : List Nat) (t : Nat), t < l.idxOf m → l.getD t 0 ≠ m
  | [], t, h => by simp at h
  | x :: xs, t, h => by
    rw [List.idxOf_cons] at h
    by_cases hx : x = m
    · simp [hx] at h
    · have hb : (x == m) = false := by simpa using hx
      rw [hb] at h
      cases t with
      | zero => simpa using hx
      | succ t =>
        simp only [List.getD_cons_succ]
        exact getD_ne_of_lt_idxOf m xs t (by simpa using h)

theorem argmaxNat_first (l : List Nat) (hne : l ≠ []) :
    ∀ t, t < argmaxNat l → l.getD t 0 < l.getD (argmaxNat l) 0 := by
  intro t ht
  have hle := (argmaxNat_spec l hne).2 t
  have hm := foldl_max0_mem l hne
  have hlt := List.idxOf_lt_length_iff.2 hm
  have hval : l.getD (argmaxNat l) 0 = l.foldl max 0 := by
    unfold argmaxNat
    rw [List.getD_eq_getElem?_getD, List.getElem?_eq_getElem hlt, List.getElem_idxOf hlt]
    rfl
  have hneq := getD_ne_of_lt_idxOf (l.foldl max 0) l t ht
  rw [hval] at hle ⊢
  omega

theorem dominant_is_first_max (st sc : List Nat) (nt c : Nat) (hnt : 0 < nt) :
    let cnt := templateCounts st sc nt c
    argmaxNat cnt < nt ∧ (∀ t, t < nt → cnt.getD t 0 ≤ cnt.getD (argmaxNat cnt) 0) ∧
      ∀ t, t < argmaxNat cnt → cnt.getD t 0 < cnt.getD (argmaxNat cnt) 0 := by
  intro cnt
  obtain ⟨h1, h2⟩ := dominant_has_max_count st sc nt c hnt
  have hl : cnt.length = nt := templateCounts_length st sc nt c
  have hne : cnt ≠ [] := by
    intro h; rw [h] at hl; simp at hl; omega
  exact ⟨h1, h2, argmaxNat_first cnt hne⟩

/-! ### the public accessor `get_cluster_mean_waveforms` -/

theorem sum_pos_of_mem (l : List Nat) (hne : l ≠ []) (h : ∀ v ∈ l, 0 < v) : 0 < l.sum := by
  cases l with
  | nil => exact absurd rfl hne
  | cons a t =>
    rw [List.sum_cons]
    have := h a (by simp)
    omega

theorem getD_map_lt {α β : Type} (f : α → β) (l : List α) (k : Nat) (d : β) (hk : k < l.length) :
    (l.map f).getD k d = f (l[k]'hk) := by
  rw [List.getD_eq_getElem?_getD, List.getElem?_map, List.getElem?_eq_getElem hk]
  rfl

theorem clusterMean_spec (W : List Mat) (chans : List (List Nat)) (st sc : List Nat)
    (hst : ∀ t ∈ st, t < W.length) (ns nc c : Nat)
    (hc : templatesOf st sc c ≠ [])
    (hW : ∀ M ∈ W, M.length = ns ∧ ∀ row ∈ M, row.length = nc) :
    (clusterMean W chans st sc c).1 = chans.getD (argmaxNat (templateCounts st sc W.length c)) [] ∧
    (clusterMean W chans st sc c).2.length = ns ∧
    (∀ row ∈ (clusterMean W chans st sc c).2,
      row.length = (chans.getD (argmaxNat (templateCounts st sc W.length c)) []).length) ∧
    0 < ((templatesOf st sc c).map fun t => countOf st sc t c).sum ∧
    ∀ s k, s < ns → (hk : k < (chans.getD (argmaxNat (templateCounts st sc W.length c)) []).length) →
      (((clusterMean W chans st sc c).2).getD s []).getD k 0 =
        weightedMean W chans st sc c s
          ((chans.getD (argmaxNat (templateCounts st sc W.length c)) [])[k]) := by
  obtain ⟨a, ha⟩ := List.exists_mem_of_ne_nil _ hc
  have haW : a < W.length := by
    rw [mem_templatesOf] at ha
    exact hst a (List.of_mem_zip ha).1
  have hbest : argmaxNat (templateCounts st sc W.length c) < W.length :=
    (dominant_has_max_count st sc W.length c (by omega)).1
  have hns : (W.getD (argmaxNat (templateCounts st sc W.length c)) []).length = ns := by
    rw [List.getD_eq_getElem?_getD, List.getElem?_eq_getElem hbest]
    exact (hW _ (List.getElem_mem hbest)).1
  refine ⟨rfl, ?_, ?_, ?_, ?_⟩
  · unfold clusterMean
    simp only []
    rw [hns, List.length_map, List.length_range]
  · intro row hrow
    unfold clusterMean at hrow
    simp only [] at hrow
    obtain ⟨s, _, rfl⟩ := List.mem_map.1 hrow
    rw [List.length_map]
  · apply sum_pos_of_mem
    · simpa using hc
    · intro v hv
      obtain ⟨t, ht, rfl⟩ := List.mem_map.1 hv
      have := (countOf_ne_zero_iff st sc t c).2 ((mem_templatesOf st sc c t).1 ht)
      omega
  · intro s k hs hk
    unfold clusterMean
    simp only []
    rw [hns, getD_map_range _ _ _ _ hs, getD_map_lt _ _ _ _ hk, ids_eq st sc W.length c hst]
    unfold weightedMean
    simp only []
    have hcnt : ∀ t ∈ templatesOf st sc c,
        (templateCounts st sc W.length c).getD t 0 = countOf st sc t c := by
      intro t ht
      rw [mem_templatesOf] at ht
      exact templateCounts_getD _ _ _ _ _ (hst t (List.of_mem_zip ht).1)
    have e1 : (templatesOf st sc c).map (fun t => (templateCounts st sc W.length c).getD t 0) =
        (templatesOf st sc c).map (fun t => countOf st sc t c) :=
      List.map_congr_left hcnt
    have e2 : ∀ ch, (templatesOf st sc c).map (fun t =>
          ((templateCounts st sc W.length c).getD t 0 : Rat) *
            (List.getD (onChannels (W.getD t []) (chans.getD t [])) s []).getD ch 0) =
        (templatesOf st sc c).map (fun t => (countOf st sc t c : Rat) *
          (if (chans.getD t []).contains ch then ((W.getD t []).getD s []).getD ch 0 else 0)) := by
      intro ch
      apply List.map_congr_left
      intro t ht
      rw [hcnt t ht, onChannels_getD]
    rw [e1, e2]

/-! ### `_get_template_from_spikes` picks the same template -/

theorem zip_eq_map_range (st sc : List Nat) (hlen : st.length = sc.length) :
    st.zip sc = (List.range sc.length).map fun i => (st.getD i 0, sc.getD i 0) := by
  apply List.ext_getElem
  · simp [hlen]
  · intro i h1 h2
    have hi : i < sc.length := by simpa using h2
    have hi' : i < st.length := by omega
    simp [List.getD_eq_getElem?_getD, List.getElem?_eq_getElem hi, List.getElem?_eq_getElem hi']

/-- the C08 histogram entry counts the positions of the cluster that carry the template -/
theorem countOf_eq_count (st sc : List Nat) (hlen : st.length = sc.length) (t c : Nat) :
    countOf st sc t c =
      ((PhyVerif.C07.Lemmas.positions sc c).map fun i => st.getD i 0).count t := by
  unfold countOf PhyVerif.C07.Lemmas.positions
  rw [zip_eq_map_range st sc hlen, List.filter_map, List.length_map, List.count_eq_countP,
    List.countP_map, List.countP_eq_length_filter, List.filter_filter]
  congr 1

theorem clusterTemplate_eq_dominant (st sc : List Nat) (hlen : st.length = sc.length) (nt : Nat)
    (hst : ∀ t ∈ st, t < nt) (c : Nat) (hc : c ∈ sc) :
    clusterTemplate st sc c = argmaxNat (templateCounts st sc nt c) := by
  -- the template ids of the cluster's spikes, in spike order
  let x := (PhyVerif.C07.Lemmas.positions sc c).map fun i => st.getD i 0
  have hx : (C07.spikesInClusters sc [c]).map (fun i => st.getD i 0) = x := by
    rw [PhyVerif.C07.Lemmas.clusterSpikes_eq_members, PhyVerif.C07.Lemmas.members_none]; rfl
  obtain ⟨hpw, hmem⟩ := PhyVerif.C07.Lemmas.distinctSorted_spec x
  -- members of x are template ids of spikes
  have hx_lt : ∀ v ∈ x, v < nt := by
    intro v hv
    obtain ⟨i, hi, rfl⟩ := List.mem_map.1 hv
    obtain ⟨hil, _⟩ := (PhyVerif.C07.Lemmas.mem_positions sc c i).1 hi
    have hi' : i < st.length := by omega
    apply hst
    rw [List.getD_eq_getElem?_getD, List.getElem?_eq_getElem hi']
    exact List.getElem_mem hi'
  have hx_ne : x ≠ [] := by
    obtain ⟨i, hi, hic⟩ := List.mem_iff_getElem.1 hc
    have : i ∈ PhyVerif.C07.Lemmas.positions sc c :=
      (PhyVerif.C07.Lemmas.mem_positions sc c i).2
        ⟨hi, by rw [List.getD_eq_getElem?_getD, List.getElem?_eq_getElem hi]; exact hic⟩
    intro h
    have h2 : (PhyVerif.C07.Lemmas.positions sc c) = [] := by simpa [x] using h
    rw [h2] at this; cases this
  let u := C07.distinctSorted x
  let counts := u.map fun v => x.count v
  have hu_ne : u ≠ [] := by
    obtain ⟨v, hv⟩ := List.exists_mem_of_ne_nil _ hx_ne
    exact List.ne_nil_of_mem ((hmem v).2 hv)
  have hcounts_ne : counts ≠ [] := by simpa [counts] using hu_ne
  have hcl : counts.length = u.length := by simp [counts]
  obtain ⟨hk, hmax⟩ := argmaxNat_spec counts hcounts_ne
  have hfirst := argmaxNat_first counts hcounts_ne
  have hk' : argmaxNat counts < u.length := hcl ▸ hk
  have hcget : ∀ j (hj : j < u.length), counts.getD j 0 = x.count (u[j]'hj) :=
    fun j hj => getD_map_lt _ _ _ _ hj
  -- the model's choice
  have hL : clusterTemplate st sc c = u[argmaxNat counts]'hk' := by
    unfold clusterTemplate templateFromSpikes uniqueCounts
    simp only []
    rw [hx]
    show u.getD (argmaxNat counts) 0 = _
    rw [List.getD_eq_getElem?_getD, List.getElem?_eq_getElem hk']
    rfl
  rw [hL]
  -- the dense histogram's choice
  have hnt : 0 < nt := by
    obtain ⟨v, hv⟩ := List.exists_mem_of_ne_nil _ hx_ne
    have := hx_lt v hv; omega
  obtain ⟨hb, hbmax, hbfirst⟩ := dominant_is_first_max st sc nt c hnt
  have hcnt : ∀ t, t < nt → (templateCounts st sc nt c).getD t 0 = x.count t := by
    intro t ht
    rw [templateCounts_getD _ _ _ _ _ ht, countOf_eq_count st sc hlen]
  generalize hbdef : argmaxNat (templateCounts st sc nt c) = b at hb hbmax hbfirst
  have hb'x : u[argmaxNat counts]'hk' ∈ x := (hmem _).1 (List.getElem_mem hk')
  have hb'nt : u[argmaxNat counts]'hk' < nt := hx_lt _ hb'x
  have hb'pos : 0 < x.count (u[argmaxNat counts]'hk') := List.count_pos_iff.2 hb'x
  have hbpos : 0 < x.count b := by
    have := hbmax _ hb'nt
    rw [hcnt _ hb'nt, hcnt _ hb] at this
    omega
  have hbu : b ∈ u := (hmem b).2 (List.count_pos_iff.1 hbpos)
  obtain ⟨j, hj, hjb⟩ := List.mem_iff_getElem.1 hbu
  rcases Nat.lt_trichotomy j (argmaxNat counts) with hlt | heq | hgt
  · exfalso
    have h1 := hfirst j hlt
    rw [hcget j hj, hcget _ hk', hjb] at h1
    have h2 := hbmax _ hb'nt
    rw [hcnt _ hb'nt, hcnt _ hb] at h2
    omega
  · subst heq; exact hjb
  · exfalso
    have hlt' : u[argmaxNat counts]'hk' < u[j]'hj := (List.pairwise_iff_getElem.1 hpw) _ _ hk' hj hgt
    rw [hjb] at hlt'
    have h1 := hbfirst _ hlt'
    rw [hcnt _ hb'nt, hcnt _ hb] at h1
    have h2 := hmax j
    rw [hcget j hj, hcget _ hk', hjb] at h2
    omega

end PhyVerif.C08.Lemmas
