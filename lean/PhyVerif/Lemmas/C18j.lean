import PhyVerif.Model.C18j
import PhyVerif.Spec.C18j
/-! Proofs for the text layer of JSON strings (C18): the escaped text is printable ASCII; scanning the
literal gives the string back. -/
namespace PhyVerif.C18.Lemmas
open PhyVerif.C18

theorem hexDigit_range : ∀ k, k < 16 → 32 ≤ hexDigit k ∧ hexDigit k ≤ 126 := by decide

theorem hexVal_hexDigit : ∀ k, k < 16 → hexVal (hexDigit k) = some k := by decide

theorem hex4Val_hex4 (n : Nat) (h : n < 65536) :
    hex4Val (hexDigit (n / 4096 % 16)) (hexDigit (n / 256 % 16)) (hexDigit (n / 16 % 16)) (hexDigit (n % 16)) = some n := by
  unfold hex4Val
  rw [hexVal_hexDigit _ (Nat.mod_lt _ (by decide)), hexVal_hexDigit _ (Nat.mod_lt _ (by decide)),
    hexVal_hexDigit _ (Nat.mod_lt _ (by decide)), hexVal_hexDigit _ (Nat.mod_lt _ (by decide))]
  simp only [Option.some.injEq]
  omega

theorem escU_ascii (n b : Nat) (hb : b ∈ escU n) : 32 ≤ b ∧ b ≤ 126 := by
  simp only [escU, hex4, List.mem_cons, List.not_mem_nil, or_false] at hb
  rcases hb with h | h | h | h | h | h
  · omega
  · omega
  all_goals (subst h; exact hexDigit_range _ (Nat.mod_lt _ (by decide)))

theorem escChar_ascii (c b : Nat) (hb : b ∈ escChar c) : 32 ≤ b ∧ b ≤ 126 := by
  unfold escChar at hb
  repeat' split at hb
  all_goals first
    | (simp only [List.mem_cons, List.not_mem_nil, or_false] at hb; omega)
    | (rcases List.mem_append.mp hb with h | h <;> exact escU_ascii _ _ h)
    | exact escU_ascii _ _ hb

theorem escapeStr_ascii (s : PyStr) (b : Nat) (hb : b ∈ escapeStr s) : 32 ≤ b ∧ b ≤ 126 := by
  unfold escapeStr at hb
  obtain ⟨c, _, hc⟩ := List.mem_flatMap.mp hb
  exact escChar_ascii c b hc

theorem strLiteral_ascii (s : PyStr) (b : Nat) (hb : b ∈ strLiteral s) : 32 ≤ b ∧ b ≤ 126 := by
  unfold strLiteral at hb
  simp only [List.mem_cons, List.mem_append, List.not_mem_nil, or_false] at hb
  rcases hb with h | h | h
  · omega
  · exact escapeStr_ascii s b h
  · omega

theorem strictAscii_literal (s : PyStr) : strictAscii (strLiteral s) = some (strLiteral s) := by
  unfold strictAscii
  rw [if_pos]
  simp only [List.all_eq_true, decide_eq_true_eq]
  intro b hb
  have := strLiteral_ascii s b hb
  omega

theorem strictUtf8_literal (s : PyStr) : strictUtf8Ok (strLiteral s) = true := by
  unfold strictUtf8Ok
  simp only [List.all_eq_true, Bool.not_eq_true', Bool.and_eq_false_imp, decide_eq_true_eq, decide_eq_false_iff_not]
  intro b hb
  have := strLiteral_ascii s b hb
  omega

/-! ### scanning the literal gives the string back -/

theorem scan_quote (rest : List Nat) : scan (34 :: rest) = some ([], rest) := by
  rw [scan]

theorem scan_u_plain (a b c d u : Nat) (rest : List Nat) (hu : hex4Val a b c d = some u) (hh : isHigh u = false) :
    scan (92 :: 117 :: a :: b :: c :: d :: rest) = consRes u (scan rest) := by
  rw [scan]; simp [hu, hh]

theorem scan_u_high_none (a b c d u : Nat) (rest : List Nat) (hu : hex4Val a b c d = some u)
    (hl : lookU rest = none) :
    scan (92 :: 117 :: a :: b :: c :: d :: rest) = consRes u (scan rest) := by
  rw [scan]; simp [hu, hl]

theorem scan_u_high_notlow (a b c d u u2 : Nat) (rest : List Nat) (hu : hex4Val a b c d = some u)
    (hl : lookU rest = some (some u2)) (h2 : isLow u2 = false) :
    scan (92 :: 117 :: a :: b :: c :: d :: rest) = consRes u (scan rest) := by
  rw [scan]; simp [hu, hl, h2]

theorem scan_u_high_low (a b c d u u2 : Nat) (rest : List Nat) (hu : hex4Val a b c d = some u) (hh : isHigh u = true)
    (hl : lookU rest = some (some u2)) (h2 : isLow u2 = true) :
    scan (92 :: 117 :: a :: b :: c :: d :: rest) = consRes (joinPair u u2) (scan (rest.drop 6)) := by
  rw [scan]; simp [hu, hh, hl, h2]

theorem scan_simple (e c : Nat) (rest : List Nat) (he : e ≠ 117) (hs : simpleEsc e = some c) :
    scan (92 :: e :: rest) = consRes c (scan rest) := by
  rw [scan]
  · simp [hs]
  · intro a b c d r h
    exact absurd h he

theorem scan_plain (c : Nat) (rest : List Nat) (h1 : c ≠ 34) (h2 : c ≠ 92) (h3 : 32 ≤ c) :
    scan (c :: rest) = consRes c (scan rest) := by
  rw [scan]
  · simp; omega
  all_goals (intros; simp_all)


/-- the look-ahead on a text that begins with the escape of the code point `c2` -/
theorem lookU_escChar (c2 : Nat) (t : List Nat) (hc : c2 < 1114112) :
    lookU (escChar c2 ++ t) = none ∨ ∃ u2, lookU (escChar c2 ++ t) = some (some u2) ∧ isLow u2 = isLow c2 := by
  unfold escChar
  repeat' split
  all_goals first
    | (left; rfl)
    | skip
  · -- printable
    rename_i h34 h92 _ _ _ _ _ hp
    left
    simp only [List.cons_append, List.nil_append]
    unfold lookU
    split
    · rename_i heq; simp only [List.cons.injEq] at heq; omega
    · rename_i heq; simp only [List.cons.injEq] at heq; omega
    · rfl
  · -- BMP
    rename_i hlt
    right
    refine ⟨c2, ?_, rfl⟩
    simp only [escU, hex4, List.cons_append, lookU, hex4Val_hex4 c2 hlt]
  · -- astral: the first escape is the high half
    rename_i hge
    right
    refine ⟨55296 + (c2 - 65536) / 1024 % 1024, ?_, ?_⟩
    · simp only [escU, hex4, List.cons_append, lookU]
      rw [hex4Val_hex4 _ (by omega)]
    · simp only [isLow]
      have : ¬ (56320 ≤ 55296 + (c2 - 65536) / 1024 % 1024) := by omega
      have h2 : ¬ (c2 ≤ 57343) := by omega
      simp [this, h2]

theorem scan_escChar (c : Nat) (t : List Nat) (hc : c < 1114112)
    (h : isHigh c = true → lookU t = none ∨ ∃ u2, lookU t = some (some u2) ∧ isLow u2 = false) :
    scan (escChar c ++ t) = consRes c (scan t) := by
  unfold escChar
  repeat' split
  all_goals first
    | (rename_i hc'; subst hc'; exact scan_simple _ _ _ (by decide) (by decide))
    | skip
  · rename_i h34 h92 _ _ _ _ _ hp
    exact scan_plain c t h34 h92 hp.1
  · rename_i hlt
    simp only [escU, hex4, List.cons_append]
    cases hh : isHigh c with
    | false => exact scan_u_plain _ _ _ _ c t (hex4Val_hex4 c hlt) hh
    | true =>
      rcases h hh with hl | ⟨u2, hl, h2⟩
      · exact scan_u_high_none _ _ _ _ c t (hex4Val_hex4 c hlt) hl
      · exact scan_u_high_notlow _ _ _ _ c u2 t (hex4Val_hex4 c hlt) hl h2
  · rename_i hge
    simp only [escU, hex4, List.cons_append, List.nil_append]
    have hhi : 55296 + (c - 65536) / 1024 % 1024 < 65536 := by omega
    have hlo : 56320 + (c - 65536) % 1024 < 65536 := by omega
    rw [scan_u_high_low _ _ _ _ _ (56320 + (c - 65536) % 1024) _ (hex4Val_hex4 _ hhi)
      (by simp only [isHigh, Bool.and_eq_true, decide_eq_true_eq]; omega)
      (by simp only [lookU, hex4Val_hex4 _ hlo])
      (by simp only [isLow, Bool.and_eq_true, decide_eq_true_eq]; omega)]
    have : joinPair (55296 + (c - 65536) / 1024 % 1024) (56320 + (c - 65536) % 1024) = c := by
      unfold joinPair; omega
    rw [this]
    rfl

/-- the look-ahead on the text written for `s` followed by the closing quote -/
theorem lookU_escapeStr (s : PyStr) (rest : List Nat) (hv : ValidStr s) :
    lookU (escapeStr s ++ 34 :: rest) = none ∨
      ∃ u2, lookU (escapeStr s ++ 34 :: rest) = some (some u2) ∧ isLow u2 = headLow s := by
  cases s with
  | nil => left; rfl
  | cons c2 s' =>
    have hc : c2 < 1114112 := hv c2 (List.mem_cons_self)
    simp only [escapeStr, List.flatMap_cons, List.append_assoc]
    exact lookU_escChar c2 _ hc

theorem scan_escapeStr (s : PyStr) (rest : List Nat) (hv : ValidStr s) (hj : NoJoin s) :
    scan (escapeStr s ++ 34 :: rest) = some (s, rest) := by
  induction s with
  | nil => exact scan_quote rest
  | cons c s ih =>
    have hc : c < 1114112 := hv c (List.mem_cons_self)
    have hv' : ValidStr s := fun x hx => hv x (List.mem_cons_of_mem _ hx)
    have ih := ih hv' hj.2
    have : escapeStr (c :: s) ++ 34 :: rest = escChar c ++ (escapeStr s ++ 34 :: rest) := by
      simp only [escapeStr, List.flatMap_cons, List.append_assoc]
    rw [this, scan_escChar c _ hc, ih]
    · rfl
    · intro hh
      have hl := hj.1 hh
      rcases lookU_escapeStr s rest hv' with h | ⟨u2, h, h2⟩
      · exact Or.inl h
      · exact Or.inr ⟨u2, h, by rw [h2, hl]⟩

theorem strViaAsciiFile_eq (s : PyStr) (hv : ValidStr s) (hj : NoJoin s) : strViaAsciiFile s = some (s, []) := by
  unfold strViaAsciiFile
  rw [strictAscii_literal]
  simp only [strLiteral]
  exact scan_escapeStr s [] hv hj

end PhyVerif.C18.Lemmas
