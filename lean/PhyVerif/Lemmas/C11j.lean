import PhyVerif.Lemmas.C11i
import PhyVerif.Lemmas.C11d
/-! In-domain probe directories are merged without exception (converse of `merge_ok`). -/
namespace PhyVerif.C11.Lemmas
open PhyVerif PhyVerif.C11

theorem runSteps_cons_ok (st : FS × Reg → M (FS × Reg)) (rest : List (FS × Reg → M (FS × Reg)))
    (s s1 : FS × Reg) (h : st s = .ok s1) : runSteps (st :: rest) s = runSteps rest s1 := by
  rw [runSteps, h]

theorem saveStep_run (out : String) (c : Compute) (fs : FS) (reg reg' : Reg) (ws : List (String × File))
    (h : c fs reg = .ok (ws, reg')) : saveStep out c (fs, reg) = .ok (saveAll out fs ws, reg') := by
  unfold saveStep; simp only [h]

/-- `fs'` agrees with `fs` outside the directory `out` -/
def Agree (out : String) (fs fs' : FS) : Prop := ∀ d n, d ≠ out → fs'.read (d, n) = fs.read (d, n)

theorem agree_refl (out : String) (fs : FS) : Agree out fs fs := fun _ _ _ => rfl

theorem agree_save (out : String) (fs fs' : FS) (ws : List (String × File)) (h : Agree out fs fs') :
    Agree out fs (saveAll out fs' ws) :=
  fun d n hd => (saveAll_read_other out ws fs' d n (Or.inl hd)).trans (h d n hd)

theorem concatOK_run {α : Type} (name : String) (arrays : List (List α)) (h : ∀ a ∈ arrays, a.length ≠ 1) :
    concatOK name arrays = .ok () := by
  unfold concatOK
  rw [if_neg]
  intro hc
  obtain ⟨a, ha, h1⟩ := List.any_eq_true.mp hc
  exact h a ha (by simpa using h1)

theorem maxOK_run {α : Type} (name : String) (arrays : List (List α)) (h : NonEmpty arrays) :
    maxOK name arrays = .ok () := by
  unfold maxOK
  rw [if_neg]
  intro hc
  obtain ⟨a, ha, h1⟩ := List.any_eq_true.mp hc
  exact h a ha (by simpa using h1)

theorem counts_run (fs : FS) : ∀ (subdirs : List String) (sc st : List (List Nat)) (tmpl : List (List (List (List Int)))),
    sc.length = subdirs.length → st.length = subdirs.length →
    loadEach (readTmpl fs "templates.npy") subdirs = .ok tmpl → NonEmpty sc → NonEmpty st →
    loadEach (readTemplateCount fs) (subdirs.zip (sc.zip st)) = .ok (tmpl.map List.length) := by
  intro subdirs
  induction subdirs with
  | nil => intro sc st tmpl _ _ h _ _; unfold loadEach at h; cases h; rfl
  | cons d rest ih =>
    intro sc st tmpl hsc hst h hne1 hne2
    cases sc with
    | nil => simp at hsc
    | cons a sc =>
      cases st with
      | nil => simp at hst
      | cons b st =>
        unfold loadEach at h
        split at h
        · cases h
        · rename_i t ht
          split at h
          · cases h
          · rename_i ts hts
            cases h
            have ha : a ≠ [] := hne1 a (by simp)
            have hb : b ≠ [] := hne2 b (by simp)
            have := ih sc st ts (by simpa using hsc) (by simpa using hst) hts
              (fun x hx => hne1 x (by simp [hx])) (fun x hx => hne2 x (by simp [hx]))
            simp only [List.zip_cons_cons, List.map_cons]
            unfold loadEach
            have h1 : readTemplateCount fs (d, a, b) = .ok t.length := by
              unfold readTemplateCount
              simp [ha, hb, ht]
            rw [h1, this]

section run
variable (subdirs : List String) (fs : FS) (reg : Reg)

theorem cParams_run (ps : List (Nat × Nat)) (p : Nat × Nat)
    (h : loadEach (readParams fs "params.py") subdirs = .ok ps) (hp : C12.mergeParams ps = some p) :
    cParams subdirs fs reg = .ok ([("params.py", .params p.1 p.2)], reg) := by
  unfold cParams; simp only [h, hp]

theorem cSpikeTimes_run (times : List (List Int))
    (h : loadEach (readInts fs "spike_times.npy") subdirs = .ok times) (hk : ∀ a ∈ times, a.length ≠ 1) :
    cSpikeTimes subdirs fs reg = .ok ([("spike_times.npy", .ints (gather times (spikeOrder times)))],
      { reg with order := spikeOrder times }) := by
  unfold cSpikeTimes; simp only [h, concatOK_run _ _ hk]

theorem cAmplitudes_run (arrays : List (List Int))
    (h : loadEach (readInts fs "amplitudes.npy") subdirs = .ok arrays) (hk : ∀ a ∈ arrays, a.length ≠ 1)
    (hl : arrays.flatten.length = reg.order.length) :
    cAmplitudes subdirs fs reg = .ok ([("amplitudes.npy", .ints (gather arrays reg.order))], reg) := by
  unfold cAmplitudes; simp [h, concatOK_run _ _ hk, hl]

theorem cSpikeTemplatesRaw_run (arrays : List (List Nat))
    (h : loadEach (readNats fs "spike_templates.npy") subdirs = .ok arrays) (hk : ∀ a ∈ arrays, a.length ≠ 1)
    (hl : arrays.flatten.length = reg.order.length) :
    cSpikeTemplatesRaw subdirs fs reg = .ok ([("spike_templates.npy", .nats (gather arrays reg.order))], reg) := by
  unfold cSpikeTemplatesRaw; simp [h, concatOK_run _ _ hk, hl]

theorem cSpikeClusters_run (sc st : List (List Nat)) (counts : List Nat)
    (h1 : loadEach (readNats fs "spike_clusters.npy") subdirs = .ok sc)
    (h2 : loadEach (readNats fs "spike_templates.npy") subdirs = .ok st)
    (h3 : loadEach (readTemplateCount fs) (subdirs.zip (sc.zip st)) = .ok counts)
    (hk1 : ∀ a ∈ sc, a.length ≠ 1) (hk2 : ∀ a ∈ st, a.length ≠ 1)
    (hl1 : (shiftIds sc).flatten.length = reg.order.length)
    (hl2 : (shiftBy st (templateOffsets st counts)).flatten.length = reg.order.length)
    (ha : (gather (shiftIds sc) reg.order).foldl max 0 + 1 = (clusterProbes sc).length) :
    cSpikeClusters subdirs fs reg = .ok
      ([("spike_clusters.npy", .nats (gather (shiftIds sc) reg.order)),
        ("spike_templates.npy", .nats (gather (shiftBy st (templateOffsets st counts)) reg.order)),
        ("cluster_probes.npy", .nats (clusterProbes sc))],
       { reg with clusters := sc, templateOffsets := templateOffsets st counts }) := by
  unfold cSpikeClusters; simp [h1, h2, h3, concatOK_run _ _ hk1, concatOK_run _ _ hk2, hl1, hl2, ha]

theorem cClusterData_run (fn : String) (md : List (Option (List (Nat × Nat))))
    (h : loadEach (readTsvOpt fs fn) subdirs = .ok md) :
    cClusterData subdirs fn fs reg = .ok
      (if (mergeClusterData md reg.clusters).isEmpty then [] else [(fn, .tsv (mergeClusterData md reg.clusters))], reg) := by
  unfold cClusterData; simp only [h]

theorem cChannelData_run (maps : List (List Nat))
    (h : loadEach (readNats fs "channel_map.npy") subdirs = .ok maps) (hne : NonEmpty maps) :
    cChannelData subdirs fs reg = .ok
      ([("channel_map.npy", .nats (C12.mergeChannelMaps maps)), ("channel_probe.npy", .nats (C12.channelProbes maps))],
       { reg with chanIndexOffsets := C12.chanIndexOffsets maps }) := by
  unfold cChannelData; simp only [h, maxOK_run _ _ hne]

theorem cChannelPositions_run (pos : List (List (Int × Int)))
    (h : loadEach (readPos fs "channel_positions.npy") subdirs = .ok pos) (hne : NonEmpty pos) :
    cChannelPositions subdirs fs reg = .ok ([("channel_positions.npy", .pos (C12.mergePositions pos))], reg) := by
  unfold cChannelPositions; simp only [h, maxOK_run _ _ hne]

theorem cTemplates_run (ts : List (List (List (List Int))))
    (h : loadEach (readTmpl fs "templates.npy") subdirs = .ok ts)
    (hk : (ts.all fun t => t.all fun tm => tm.length == ((ts.headD []).headD []).length) = true) :
    cTemplates subdirs fs reg = .ok ([("templates.npy", .tmpl (C12.mergeTemplates ts))], reg) := by
  unfold cTemplates; simp only [h]; rw [if_pos hk]

theorem cPcInd_run (tables : List (List (List Nat)))
    (h : loadEach (readTable fs "pc_feature_ind.npy") subdirs = .ok tables) (hk : sameWidth tables = true) :
    cPcInd subdirs fs reg = .ok ([("pc_feature_ind.npy", .table (C12.shiftTables tables reg.chanIndexOffsets))], reg) := by
  unfold cPcInd; simp only [h]; rw [if_pos hk]

theorem cTfInd_run (tables : List (List (List Nat)))
    (h : loadEach (readTable fs "template_feature_ind.npy") subdirs = .ok tables) (hk : sameWidth tables = true) :
    cTfInd subdirs fs reg = .ok ([("template_feature_ind.npy", .table (C12.shiftTables tables reg.templateOffsets))], reg) := by
  unfold cTfInd; simp only [h]; rw [if_pos hk]

theorem cMisc_run (fn : String) (ms : List (Option (List (List Int))))
    (h : loadEach (readMatOpt fs fn) subdirs = .ok ms) :
    cMisc subdirs fn fs reg = .ok (optWrite fn (C12.mergeOptional ms), reg) := by
  unfold cMisc; simp only [h]
  cases C12.mergeOptional ms <;> rfl

theorem cLoadModel_run (out : String) : ∃ ws, cLoadModel out fs reg = .ok (ws, reg) := by
  unfold cLoadModel
  split
  · exact ⟨_, rfl⟩
  · exact ⟨_, rfl⟩

end run

end PhyVerif.C11.Lemmas
