import PhyVerif.Model.C14
import PhyVerif.Spec.C14
import PhyVerif.Lemmas.C07
import PhyVerif.Lemmas.C11
import PhyVerif.Lemmas.C12
import Mathlib.Tactic.Linarith
import Mathlib.Algebra.Order.Field.Rat
/-! Helper lemmas and full proofs for C14. Statements: `Props/C14.lean`. -/
namespace PhyVerif.C14.Lemmas
open PhyVerif PhyVerif.C09 PhyVerif.C12 PhyVerif.C14

/-! ### generic list facts -/

theorem sorted_ext : ∀ (a b : List Nat), a.Pairwise (· < ·) → b.Pairwise (· < ·) →
    (∀ v, v ∈ a ↔ v ∈ b) → a = b
  | [], [], _, _, _ => rfl
  | [], y :: ys, _, _, h => by have := (h y).2 (by simp); simp at this
  | x :: xs, [], _, _, h => by have := (h x).1 (by simp); simp at this
  | x :: xs, y :: ys, ha, hb, h => by
    rw [List.pairwise_cons] at ha hb
    have hxy : x = y := by
      rcases List.mem_cons.1 ((h x).1 (by simp)) with e | hx
      · exact e
      · rcases List.mem_cons.1 ((h y).2 (by simp)) with e | hy
        · exact e.symm
        · have := ha.1 y hy; have := hb.1 x hx; omega
    subst hxy
    congr 1
    apply sorted_ext xs ys ha.2 hb.2
    intro v
    constructor
    · intro hv
      rcases List.mem_cons.1 ((h v).1 (List.mem_cons_of_mem _ hv)) with e | hv'
      · have := ha.1 v hv; omega
      · exact hv'
    · intro hv
      rcases List.mem_cons.1 ((h v).2 (List.mem_cons_of_mem _ hv)) with e | hv'
      · have := hb.1 v hv; omega
      · exact hv'

theorem getD_eq_getElem (l : List Nat) (i : Nat) (hi : i < l.length) : l.getD i 0 = l[i] := by
  simp [List.getD_eq_getElem?_getD, hi]

theorem getD_mem (l : List Nat) (i : Nat) (hi : i < l.length) : l.getD i 0 ∈ l := by
  rw [getD_eq_getElem l i hi]; simp

theorem prefixSum_succ (l : List Nat) (k : Nat) :
    prefixSum l (k + 1) = prefixSum l k + l.getD k 0 := by
  unfold prefixSum
  rw [List.take_add_one, List.sum_append, List.getD_eq_getElem?_getD]
  cases l[k]? <;> simp

theorem prefixSum_le_sum (l : List Nat) (k : Nat) : prefixSum l k ≤ l.sum := by
  unfold prefixSum
  conv => rhs; rw [← List.take_append_drop k l, List.sum_append]
  omega

theorem prefixSum_length (l : List Nat) : prefixSum l l.length = l.sum := by
  simp [prefixSum]

theorem block_decomp : ∀ (l : List Nat) (p : Nat), p < l.sum →
    ∃ j, j < l.length ∧ prefixSum l j ≤ p ∧ p < prefixSum l (j + 1)
  | [], p, hp => by simp at hp
  | a :: l, p, hp => by
    by_cases h : p < a
    · exact ⟨0, by simp, by simp [prefixSum], by simpa [prefixSum] using h⟩
    · have hp' : p - a < l.sum := by simp at hp; omega
      obtain ⟨j, hj, h1, h2⟩ := block_decomp l (p - a) hp'
      refine ⟨j + 1, by simpa using hj, ?_, ?_⟩
      · rw [C12.Lemmas.prefixSum_cons_succ]; omega
      · rw [C12.Lemmas.prefixSum_cons_succ]; omega

theorem flatten_get {β : Type} (L : List (List β)) :
    ∀ (k i : Nat), k < L.length → i < (L.getD k []).length →
      L.flatten[prefixSum (L.map List.length) k + i]? = (L.getD k [])[i]? := by
  induction L with
  | nil => intro k i hk; simp at hk
  | cons a L ih =>
    intro k i hk hi
    cases k with
    | zero =>
      have hi' : i < a.length := by simpa using hi
      simp [C12.Lemmas.prefixSum_zero, List.getElem?_append_left, hi']
    | succ k =>
      have hk' : k < L.length := by simpa using hk
      have hi' : i < (L.getD k []).length := by simpa using hi
      have := ih k i hk' hi'
      simp only [List.map_cons, List.flatten_cons, C12.Lemmas.prefixSum_cons_succ, List.getD_cons_succ]
      rw [List.getElem?_append_right (by omega)]
      rw [show a.length + prefixSum (L.map List.length) k + i - a.length =
        prefixSum (L.map List.length) k + i by omega]
      exact this

theorem setFold_length (f : Nat → Int) (idx : List Nat) :
    ∀ o : List Int, (idx.foldl (fun o i => o.set i (f i)) o).length = o.length := by
  induction idx with
  | nil => intro o; rfl
  | cons i idx ih => intro o; rw [List.foldl_cons, ih]; simp

theorem setFold_get (f : Nat → Int) (idx : List Nat) :
    ∀ (o : List Int) (p : Nat), p < o.length →
      (idx.foldl (fun o i => o.set i (f i)) o).getD p 0 = if p ∈ idx then f p else o.getD p 0 := by
  induction idx with
  | nil => intro o p _; simp
  | cons i idx ih =>
    intro o p hp
    rw [List.foldl_cons, ih _ p (by simpa using hp)]
    by_cases h1 : p ∈ idx
    · simp [h1]
    · by_cases h2 : p = i
      · subst h2; simp [h1, List.getD_eq_getElem?_getD, hp]
      · have h3 : ¬ i = p := fun e => h2 e.symm
        simp [h1, h2, h3, List.getD_eq_getElem?_getD]


/-! ### `exportRawInd` inverts `mergeChannelMaps` -/

/-- one iteration of the per-probe loop of `make_channel_objects` -/
def stepFn (cm probes : List Nat) (st : List Int × Nat) (p : Nat) : List Int × Nat :=
  let idx := (List.range cm.length).filter fun i => probes.getD i 0 == p
  let vals := idx.map fun i => cm.getD i 0
  let out := idx.foldl (fun o i => o.set i ((cm.getD i 0 : Int) - (st.2 : Int))) st.1
  (out, vals.foldl max 0 + 1)

theorem exportRawInd_eq (cm probes : List Nat) :
    exportRawInd cm probes =
      ((uniqueNat probes).foldl (stepFn cm probes) (List.replicate cm.length 0, 0)).1 := rfl

theorem merge_length (maps : List (List Nat)) :
    (mergeChannelMaps maps).length = (maps.map List.length).sum :=
  C12.Lemmas.zipFlat_length (fun x o => x + o) maps (chanOffsets maps)
    (C12.Lemmas.chanOffsetsFrom_length maps 0)

theorem probes_length (maps : List (List Nat)) :
    (channelProbes maps).length = (maps.map List.length).sum := by
  rw [C12.Lemmas.channelProbes_eq]
  exact C12.Lemmas.zipFlat_length (fun (_ : Nat) o => o) maps (List.range' 0 maps.length) (by simp)

/-! The running offsets of `write_channel_data` for ARBITRARY non-empty channel maps (any naturals,
duplicates allowed): `offset_{k+1} = max(map_k + offset_k) + 1`. -/

theorem chanOffsets_getD_zero (maps : List (List Nat)) : (chanOffsets maps).getD 0 0 = 0 := by
  cases maps <;> simp [chanOffsets, chanOffsetsFrom]

theorem chanOffsetsFrom_succ (maps : List (List Nat)) :
    ∀ (off k : Nat), k + 1 < maps.length →
      (chanOffsetsFrom off maps).getD (k + 1) 0 =
        ((maps.getD k []).map (· + (chanOffsetsFrom off maps).getD k 0)).foldl max 0 + 1 := by
  induction maps with
  | nil => intro off k hk; simp at hk
  | cons m rest ih =>
    intro off k hk
    cases k with
    | zero =>
      cases rest with
      | nil => simp at hk
      | cons r rest => simp [chanOffsetsFrom]
    | succ k =>
      have hk' : k + 1 < rest.length := by simpa using hk
      have := ih ((m.map (· + off)).foldl max 0 + 1) k hk'
      simpa [chanOffsetsFrom] using this

theorem chanOffsets_succ (maps : List (List Nat)) (k : Nat) (hk : k + 1 < maps.length) :
    (chanOffsets maps).getD (k + 1) 0 =
      ((maps.getD k []).map (· + (chanOffsets maps).getD k 0)).foldl max 0 + 1 :=
  chanOffsetsFrom_succ maps 0 k hk

/-- block structure of the merged arrays, for arbitrary maps -/
theorem merged_block (maps : List (List Nat)) (k i : Nat) (hk : k < maps.length)
    (hi : i < (maps.getD k []).length) :
    (mergeChannelMaps maps).getD (prefixSum (maps.map List.length) k + i) 0 =
        (maps.getD k []).getD i 0 + (chanOffsets maps).getD k 0 ∧
    (channelProbes maps).getD (prefixSum (maps.map List.length) k + i) maps.length = k := by
  have hlen : (chanOffsets maps).length = maps.length := C12.Lemmas.chanOffsetsFrom_length maps 0
  have hlenr : (List.range' 0 maps.length).length = maps.length := by simp
  refine ⟨?_, ?_⟩
  · have := C12.Lemmas.zipFlat_get (fun x o => x + o) maps (chanOffsets maps) k i hlen hk hi
    rw [mergeChannelMaps, List.getD_eq_getElem?_getD, this]
    generalize maps.getD k [] = row at hi ⊢
    simp [List.getD_eq_getElem?_getD, List.getElem?_eq_getElem hi]
  · have := C12.Lemmas.zipFlat_get (fun (_ : Nat) o => o) maps (List.range' 0 maps.length) k i hlenr hk hi
    rw [C12.Lemmas.channelProbes_eq, List.getD_eq_getElem?_getD, this, List.getElem?_eq_getElem hi]
    simp [List.getD_eq_getElem?_getD, hk]

/-- everything known about position `p` of the merged arrays -/
theorem block_facts (maps : List (List Nat)) (p : Nat)
    (hp : p < (maps.map List.length).sum) :
    ∃ k i, k < maps.length ∧ i < (maps.getD k []).length ∧
      p = prefixSum (maps.map List.length) k + i ∧
      (mergeChannelMaps maps).getD p 0 =
        (maps.getD k []).getD i 0 + (chanOffsets maps).getD k 0 ∧
      (channelProbes maps).getD p 0 = k ∧
      ((maps.flatten).map Int.ofNat).getD p 0 = Int.ofNat ((maps.getD k []).getD i 0) := by
  obtain ⟨k, hk, h1, h2⟩ := block_decomp _ p hp
  have hk' : k < maps.length := by simpa using hk
  have hsz : (maps.map List.length).getD k 0 = (maps.getD k []).length := by
    simp [List.getD_eq_getElem?_getD, hk']
  rw [prefixSum_succ, hsz] at h2
  have hi : p - prefixSum (maps.map List.length) k < (maps.getD k []).length := by omega
  have hpe : p = prefixSum (maps.map List.length) k + (p - prefixSum (maps.map List.length) k) := by
    omega
  obtain ⟨c1, c2⟩ := merged_block maps k _ hk' hi
  rw [← hpe] at c1 c2
  refine ⟨k, _, hk', hi, hpe, c1, ?_, ?_⟩
  · have hlt : p < (channelProbes maps).length := by rw [probes_length]; exact hp
    rw [List.getD_eq_getElem?_getD, List.getElem?_eq_getElem hlt] at c2 ⊢
    simpa using c2
  · have := flatten_get maps k _ hk' hi
    rw [← hpe] at this
    generalize maps.getD k [] = row at hi this ⊢
    rw [List.getD_eq_getElem?_getD, List.getElem?_map, this, List.getElem?_eq_getElem hi]
    simp [List.getD_eq_getElem?_getD, hi]

theorem block_facts' (maps : List (List Nat)) (k i : Nat) (hk : k < maps.length)
    (hi : i < (maps.getD k []).length) :
    prefixSum (maps.map List.length) k + i < (maps.map List.length).sum ∧
    (mergeChannelMaps maps).getD (prefixSum (maps.map List.length) k + i) 0 =
        (maps.getD k []).getD i 0 + (chanOffsets maps).getD k 0 ∧
    (channelProbes maps).getD (prefixSum (maps.map List.length) k + i) 0 = k := by
  have hsz : (maps.map List.length).getD k 0 = (maps.getD k []).length := by
    simp [List.getD_eq_getElem?_getD, hk]
  have hlt : prefixSum (maps.map List.length) k + i < (maps.map List.length).sum := by
    have h1 := prefixSum_succ (maps.map List.length) k
    have h2 := prefixSum_le_sum (maps.map List.length) (k + 1)
    omega
  obtain ⟨c1, c2⟩ := merged_block maps k i hk hi
  refine ⟨hlt, c1, ?_⟩
  have hlt' : prefixSum (maps.map List.length) k + i < (channelProbes maps).length := by
    rw [probes_length]; exact hlt
  rw [List.getD_eq_getElem?_getD, List.getElem?_eq_getElem hlt'] at c2 ⊢
  simpa using c2

/-- every probe has a channel, so the probe labels met by the export loop are `0 .. n-1` -/
theorem uniqueNat_channelProbes (maps : List (List Nat)) (h : ∀ m ∈ maps, m ≠ []) :
    uniqueNat (channelProbes maps) = List.range maps.length := by
  obtain ⟨h1, h2⟩ := C07.Lemmas.unique_spec ((channelProbes maps).map Int.ofNat)
  apply sorted_ext _ _ h1 List.pairwise_lt_range
  intro v
  show v ∈ Np.unique _ ↔ _
  rw [h2, List.mem_range]
  have hmem : Int.ofNat v ∈ (channelProbes maps).map Int.ofNat ↔ v ∈ channelProbes maps := by
    rw [List.mem_map]
    constructor
    · rintro ⟨a, ha, hav⟩
      rw [← Int.ofNat.inj hav]; exact ha
    · intro hv; exact ⟨v, hv, rfl⟩
  show Int.ofNat v ∈ (channelProbes maps).map Int.ofNat ↔ _
  rw [hmem]
  constructor
  · intro hv
    obtain ⟨p, hp, rfl⟩ := List.getElem_of_mem hv
    obtain ⟨k, i, hk, _, _, _, hpk, _⟩ := block_facts maps p (by rw [← probes_length]; exact hp)
    rw [List.getD_eq_getElem?_getD, List.getElem?_eq_getElem hp] at hpk
    simp only [Option.getD_some] at hpk
    omega
  · intro hv
    have hne : maps.getD v [] ≠ [] := by
      have : maps.getD v [] ∈ maps := by
        rw [List.getD_eq_getElem?_getD, List.getElem?_eq_getElem hv]; simp
      exact h _ this
    have hi : 0 < (maps.getD v []).length := List.length_pos_iff.mpr hne
    obtain ⟨b1, _, b3⟩ := block_facts' maps v 0 hv hi
    have hlt : prefixSum (maps.map List.length) v + 0 < (channelProbes maps).length := by
      rw [probes_length]; exact b1
    rw [List.getD_eq_getElem?_getD, List.getElem?_eq_getElem hlt] at b3
    simp only [Option.getD_some] at b3
    rw [← b3]
    exact List.getElem_mem hlt

theorem step_inv (maps : List (List Nat)) (k : Nat) (hk : k < maps.length)
    (st : List Int × Nat) (hlen : st.1.length = (maps.map List.length).sum)
    (hoff : st.2 = (chanOffsets maps).getD k 0)
    (hval : ∀ p, p < (maps.map List.length).sum → st.1.getD p 0 =
      if (channelProbes maps).getD p 0 < k then ((maps.flatten).map Int.ofNat).getD p 0 else 0) :
    (stepFn (mergeChannelMaps maps) (channelProbes maps) st k).1.length = (maps.map List.length).sum ∧
    (k + 1 < maps.length → (stepFn (mergeChannelMaps maps) (channelProbes maps) st k).2 =
      (chanOffsets maps).getD (k + 1) 0) ∧
    ∀ p, p < (maps.map List.length).sum →
      (stepFn (mergeChannelMaps maps) (channelProbes maps) st k).1.getD p 0 =
        if (channelProbes maps).getD p 0 < k + 1 then ((maps.flatten).map Int.ofNat).getD p 0 else 0 := by
  have hidx : ∀ p, p ∈ ((List.range (mergeChannelMaps maps).length).filter fun i =>
      (channelProbes maps).getD i 0 == k) ↔
      p < (maps.map List.length).sum ∧ (channelProbes maps).getD p 0 = k := by
    intro p
    simp [List.mem_filter, merge_length]
  unfold stepFn
  refine ⟨?_, ?_, ?_⟩
  · simp only [setFold_length]; exact hlen
  · intro hk1
    simp only
    rw [chanOffsets_succ maps k hk1]
    congr 1
    apply Nat.le_antisymm
    · apply C12.Lemmas.nat_foldl_max_le _ _ 0 (by omega)
      intro v hv
      obtain ⟨p, hp, rfl⟩ := List.mem_map.mp hv
      obtain ⟨hpN, hpk⟩ := (hidx p).1 hp
      obtain ⟨k', i, _, hi, _, hc, hpr, _⟩ := block_facts maps p hpN
      rw [hpk] at hpr
      subst hpr
      rw [hc]
      apply (C12.Lemmas.nat_foldl_max _ 0).2
      exact List.mem_map.mpr ⟨_, getD_mem _ i hi, rfl⟩
    · apply C12.Lemmas.nat_foldl_max_le _ _ 0 (by omega)
      intro v hv
      obtain ⟨x, hx, rfl⟩ := List.mem_map.mp hv
      obtain ⟨i, hi, rfl⟩ := List.getElem_of_mem hx
      obtain ⟨b1, b2, b3⟩ := block_facts' maps k i hk hi
      apply (C12.Lemmas.nat_foldl_max _ 0).2
      apply List.mem_map.mpr
      refine ⟨prefixSum (maps.map List.length) k + i, (hidx _).2 ⟨b1, b3⟩, ?_⟩
      rw [b2, getD_eq_getElem _ i hi]
  · intro p hp
    simp only
    rw [setFold_get _ _ _ p (by omega)]
    obtain ⟨k', i, _, hi, _, hc, hpr, hT⟩ := block_facts maps p hp
    by_cases hpk : (channelProbes maps).getD p 0 = k
    · rw [hpk] at hpr
      subst hpr
      rw [if_pos ((hidx p).2 ⟨hp, hpk⟩), if_pos (by omega), hc, hT, hoff]
      simp
    · rw [if_neg (fun hh => hpk ((hidx p).1 hh).2), hval p hp]
      by_cases hlt : (channelProbes maps).getD p 0 < k
      · rw [if_pos hlt, if_pos (by omega)]
      · rw [if_neg hlt, if_neg (by omega)]

theorem fold_inv (maps : List (List Nat)) :
    ∀ k, k ≤ maps.length →
      ((List.range k).foldl (stepFn (mergeChannelMaps maps) (channelProbes maps))
        (List.replicate (mergeChannelMaps maps).length 0, 0)).1.length = (maps.map List.length).sum ∧
      (k < maps.length → ((List.range k).foldl (stepFn (mergeChannelMaps maps) (channelProbes maps))
        (List.replicate (mergeChannelMaps maps).length 0, 0)).2 = (chanOffsets maps).getD k 0) ∧
      ∀ p, p < (maps.map List.length).sum →
        ((List.range k).foldl (stepFn (mergeChannelMaps maps) (channelProbes maps))
          (List.replicate (mergeChannelMaps maps).length 0, 0)).1.getD p 0 =
          if (channelProbes maps).getD p 0 < k then ((maps.flatten).map Int.ofNat).getD p 0 else 0 := by
  intro k
  induction k with
  | zero =>
    intro _
    refine ⟨by simp [merge_length], fun _ => by rw [chanOffsets_getD_zero]; rfl, ?_⟩
    intro p hp
    simp [List.getD_eq_getElem?_getD, merge_length, hp]
  | succ k ih =>
    intro hk
    obtain ⟨i1, i2, i3⟩ := ih (by omega)
    rw [List.range_succ, List.foldl_append]
    exact step_inv maps k (by omega) _ i1 (i2 (by omega)) i3

/-- holds for ANY non-empty channel maps (arbitrary naturals, duplicates allowed); an empty map
followed by a non-empty one breaks it (`[[], [0]]` exports `[1]`) -/
theorem rawInd_inverts_merge (maps : List (List Nat)) (h : ∀ m ∈ maps, m ≠ []) :
    exportRawInd (mergeChannelMaps maps) (channelProbes maps) = (maps.flatten).map Int.ofNat := by
  rw [exportRawInd_eq, uniqueNat_channelProbes maps h]
  obtain ⟨i1, _, i3⟩ := fold_inv maps maps.length (Nat.le_refl _)
  have hTlen : ((maps.flatten).map Int.ofNat).length = (maps.map List.length).sum := by
    rw [List.length_map, List.length_flatten]
  apply List.ext_getElem (by rw [i1, hTlen])
  intro p hp1 hp2
  have hp : p < (maps.map List.length).sum := by rw [← i1]; exact hp1
  have := i3 p hp
  obtain ⟨k', i, hk', _, _, _, hpr, _⟩ := block_facts maps p hp
  rw [if_pos (by omega), List.getD_eq_getElem?_getD, List.getD_eq_getElem?_getD,
    List.getElem?_eq_getElem hp1, List.getElem?_eq_getElem hp2] at this
  simpa using this


/-! ### nearest same-probe channels -/

theorem insertBy_sorted_gen {α : Type} (le : α → α → Bool)
    (htot : ∀ a b, le a b = false → le b a = true)
    (htr : ∀ a b c, le a b = true → le b c = true → le a c = true) (x : α) (L : List α)
    (hL : L.Pairwise (fun a b => le a b = true)) :
    (Np.insertBy le x L).Pairwise (fun a b => le a b = true) := by
  induction L with
  | nil => simp [Np.insertBy]
  | cons y ys ih =>
    rw [List.pairwise_cons] at hL
    unfold Np.insertBy
    split
    · rename_i hxy
      refine List.pairwise_cons.2 ⟨?_, List.pairwise_cons.2 hL⟩
      intro z hz
      rcases List.mem_cons.1 hz with rfl | hz'
      · exact hxy
      · exact htr _ _ _ hxy (hL.1 z hz')
    · rename_i hxy
      refine List.pairwise_cons.2 ⟨?_, ih hL.2⟩
      intro z hz
      rcases List.mem_cons.1 ((C11.Lemmas.insertBy_perm le x ys).mem_iff.1 hz) with rfl | hz'
      · exact htot _ _ (by simpa using hxy)
      · exact hL.1 z hz'

theorem isort_sorted_gen {α : Type} (le : α → α → Bool)
    (htot : ∀ a b, le a b = false → le b a = true)
    (htr : ∀ a b c, le a b = true → le b c = true → le a c = true) (l : List α) :
    (Np.isort le l).Pairwise (fun a b => le a b = true) := by
  induction l with
  | nil => simp [Np.isort]
  | cons x xs ih =>
    unfold Np.isort
    exact insertBy_sorted_gen le htot htr x _ ih

theorem leInf_total (a b : Option Rat) (h : leInf a b = false) : leInf b a = true := by
  cases a <;> cases b <;> simp [leInf] at h ⊢
  exact le_of_lt h

theorem leInf_trans (a b c : Option Rat) (h1 : leInf a b = true) (h2 : leInf b c = true) :
    leInf a c = true := by
  cases a <;> cases b <;> cases c <;> simp [leInf] at h1 h2 ⊢
  exact le_trans h1 h2

theorem zipIdx_map_range {α : Type} (f : Nat → α) (n : Nat) :
    ((List.range n).map f).zipIdx = (List.range n).map (fun i => (f i, i)) := by
  apply List.ext_getElem?
  intro i
  by_cases h : i < n <;> simp [h]

theorem sorted_split {α : Type} (R : α → α → Prop) (P : α → Bool)
    (hRP : ∀ a b, R a b → P b = true → P a = true) :
    ∀ L : List α, L.Pairwise R → L = L.filter P ++ L.filter (fun a => !P a)
  | [], _ => rfl
  | a :: L, hL => by
    rw [List.pairwise_cons] at hL
    have ih := sorted_split R P hRP L hL.2
    by_cases hPa : P a = true
    · rw [List.filter_cons_of_pos hPa, List.filter_cons_of_neg (by simp [hPa]), List.cons_append, ← ih]
    · have hall : ∀ b ∈ L, ¬ P b = true := fun b hb hPb => hPa (hRP a b (hL.1 b hb) hPb)
      have h1 : L.filter P = [] := List.filter_eq_nil_iff.2 hall
      have h2 : L.filter (fun a => !P a) = L :=
        List.filter_eq_self.2 (fun b hb => by simpa using hall b hb)
      rw [List.filter_cons_of_neg hPa, List.filter_cons_of_pos (by simpa using hPa), h1, h2]
      rfl

theorem pairwise_zip_tail {α : Type} (R : α → α → Prop) :
    ∀ L : List α, L.Pairwise R → ∀ p ∈ L.zip L.tail, R p.1 p.2
  | [], _, p, hp => by simp at hp
  | [a], _, p, hp => by simp at hp
  | a :: b :: L, hL, p, hp => by
    rw [List.pairwise_cons] at hL
    simp only [List.tail_cons, List.zip_cons_cons, List.mem_cons] at hp
    rcases hp with rfl | hp
    · exact hL.1 b (by simp)
    · exact pairwise_zip_tail R (b :: L) hL.2 p (by simpa using hp)

theorem l1_self (pos : List (Rat × Rat)) (a : Nat) : l1 pos a a = 0 := by
  simp [l1]

theorem l1_nonneg (pos : List (Rat × Rat)) (a b : Nat) : 0 ≤ l1 pos a b := by
  unfold l1
  simp only
  split <;> split <;> linarith

theorem eraseDups_of_nodup : ∀ (l : List Nat), l.Nodup → l.eraseDups = l
  | [], _ => rfl
  | a :: as, h => by
    rw [List.nodup_cons] at h
    rw [List.eraseDups_cons]
    have hf : as.filter (fun b => !b == a) = as := by
      apply List.filter_eq_self.2
      intro b hb
      have : b ≠ a := fun e => h.1 (e ▸ hb)
      simpa using this
    rw [hf, eraseDups_of_nodup as h.2]

theorem nearestOK_core (pos : List (Rat × Rat)) (probes : List Nat) (peak ncw : Nat)
    (row F : List Nat) (hrowlen : row.length = min ncw pos.length)
    (hhead : row.take (min ncw ((List.range pos.length).filter fun c =>
        probes.getD c 0 == probes.getD peak 0).length) =
      F.take (min ncw ((List.range pos.length).filter fun c =>
        probes.getD c 0 == probes.getD peak 0).length))
    (hFperm : F.Perm ((List.range pos.length).filter fun c =>
        probes.getD c 0 == probes.getD peak 0))
    (hFsorted : F.Pairwise fun a b => l1 pos peak a ≤ l1 pos peak b)
    (hpeak : peak ∈ (List.range pos.length).filter fun c =>
        probes.getD c 0 == probes.getD peak 0) :
    nearestOK pos probes peak ncw row = true := by
  simp only [nearestOK, Bool.and_eq_true]
  rw [hhead]
  have hsnd : ((List.range pos.length).filter fun c =>
      probes.getD c 0 == probes.getD peak 0).Nodup := List.nodup_range.filter _
  generalize ((List.range pos.length).filter fun c =>
      probes.getD c 0 == probes.getD peak 0) = same at hFperm hpeak hsnd ⊢
  have hFlen : F.length = same.length := hFperm.length_eq
  have hFnd : F.Nodup := hFperm.nodup_iff.2 hsnd
  have hFsplit : F.take (min ncw same.length) ++ F.drop (min ncw same.length) = F :=
    List.take_append_drop _ _
  have hHlen : (F.take (min ncw same.length)).length = min ncw same.length := by
    rw [List.length_take]; omega
  have hHnd : (F.take (min ncw same.length)).Nodup := hFnd.sublist (List.take_sublist _ _)
  have hHsorted : (F.take (min ncw same.length)).Pairwise fun a b => l1 pos peak a ≤ l1 pos peak b :=
    hFsorted.sublist (List.take_sublist _ _)
  have hHmem : ∀ c ∈ F.take (min ncw same.length), c ∈ same :=
    fun c hc => hFperm.mem_iff.1 (List.mem_of_mem_take hc)
  rw [← hFsplit] at hFsorted
  have hpeakF : peak ∈ F.take (min ncw same.length) ++ F.drop (min ncw same.length) := by
    rw [hFsplit]; exact hFperm.mem_iff.2 hpeak
  have hsameF : ∀ c ∈ same, c ∈ F.take (min ncw same.length) ++ F.drop (min ncw same.length) := by
    intro c hc; rw [hFsplit]; exact hFperm.mem_iff.2 hc
  generalize F.take (min ncw same.length) = H at *
  generalize F.drop (min ncw same.length) = T at *
  refine ⟨⟨⟨⟨⟨?_, ?_⟩, ?_⟩, ?_⟩, ?_⟩, ?_⟩
  · simp [hrowlen]
  · rw [eraseDups_of_nodup H hHnd]; simp
  · rw [List.all_eq_true]
    intro c hc
    simpa using hHmem c hc
  · cases H with
    | nil =>
      simp only [List.length_nil] at hHlen
      simp only [beq_iff_eq]
      omega
    | cons c0 tl =>
      simp only
      rw [List.cons_append, List.pairwise_cons] at hFsorted
      have hle : l1 pos peak c0 ≤ 0 := by
        rcases List.mem_cons.1 hpeakF with e | hmem
        · rw [← e, l1_self]
        · have := hFsorted.1 peak hmem
          rwa [l1_self] at this
      have : l1 pos peak c0 = 0 := le_antisymm hle (l1_nonneg _ _ _)
      simp [this]
  · rw [List.all_eq_true]
    intro p hp
    exact decide_eq_true (pairwise_zip_tail _ H hHsorted p hp)
  · rw [List.all_eq_true]
    intro c hc
    rcases List.mem_append.1 (hsameF c hc) with hm | hm
    · simp [hm]
    · rw [Bool.or_eq_true]
      right
      rw [List.all_eq_true]
      intro h hh
      exact decide_eq_true ((List.pairwise_append.1 hFsorted).2.2 h hh c hm)

theorem nearestOK_of (pos : List (Rat × Rat)) (probes : List Nat) (peak ncw : Nat)
    (hp : peak < pos.length) (R : List Nat) (hperm : R.Perm (List.range pos.length))
    (hsorted : R.Pairwise fun a b =>
      leInf (distKey pos probes peak a) (distKey pos probes peak b) = true) :
    nearestOK pos probes peak ncw (R.take ncw) = true := by
  have hRP : ∀ a b : Nat,
      leInf (distKey pos probes peak a) (distKey pos probes peak b) = true →
      (probes.getD b 0 == probes.getD peak 0) = true →
      (probes.getD a 0 == probes.getD peak 0) = true := by
    intro a b hab hb
    unfold distKey at hab
    rw [if_pos hb] at hab
    by_cases ha : (probes.getD a 0 == probes.getD peak 0) = true
    · exact ha
    · rw [if_neg ha] at hab
      simp [leInf] at hab
  have hsplit := sorted_split _ (fun c => probes.getD c 0 == probes.getD peak 0) hRP R hsorted
  have hFperm := hperm.filter (fun c => probes.getD c 0 == probes.getD peak 0)
  have hFlen := hFperm.length_eq
  apply nearestOK_core pos probes peak ncw (R.take ncw)
    (R.filter fun c => probes.getD c 0 == probes.getD peak 0)
  · rw [List.length_take, hperm.length_eq, List.length_range]
  · rw [List.take_take, ← hFlen]
    have hm : min (min ncw (R.filter fun c => probes.getD c 0 == probes.getD peak 0).length) ncw =
        min ncw (R.filter fun c => probes.getD c 0 == probes.getD peak 0).length := by omega
    rw [hm]
    refine (congrArg (List.take _) hsplit).trans ?_
    exact List.take_append_of_le_length (by omega)
  · exact hFperm
  · refine List.Pairwise.imp_of_mem ?_ (hsorted.sublist List.filter_sublist)
    intro a b ha hb hab
    have ha' := (List.mem_filter.1 ha).2
    have hb' := (List.mem_filter.1 hb).2
    unfold distKey at hab
    rw [if_pos ha', if_pos hb'] at hab
    simpa [leInf] using hab
  · exact List.mem_filter.2 ⟨List.mem_range.2 hp, by simp⟩

theorem nearest_ok (pos : List (Rat × Rat)) (probes : List Nat) (peak ncw : Nat)
    (hp : peak < pos.length) :
    nearestOK pos probes peak ncw (nearestSameProbe pos probes peak ncw) = true := by
  unfold nearestSameProbe
  simp only
  rw [zipIdx_map_range]
  have hperm := C11.Lemmas.isort_perm (fun (a b : Option Rat × Nat) => leInf a.1 b.1)
    ((List.range pos.length).map fun i => (distKey pos probes peak i, i))
  have hsorted := isort_sorted_gen (fun (a b : Option Rat × Nat) => leInf a.1 b.1)
    (fun a b => leInf_total a.1 b.1) (fun a b c => leInf_trans a.1 b.1 c.1)
    ((List.range pos.length).map fun i => (distKey pos probes peak i, i))
  generalize Np.isort (fun (a b : Option Rat × Nat) => leInf a.1 b.1)
    ((List.range pos.length).map fun i => (distKey pos probes peak i, i)) = S at hperm hsorted ⊢
  apply nearestOK_of pos probes peak ncw hp
  · have := hperm.map (·.2)
    simpa [List.map_map, Function.comp_def] using this
  · rw [List.pairwise_map]
    refine List.Pairwise.imp_of_mem ?_ hsorted
    intro a b ha hb hab
    obtain ⟨i, _, rfl⟩ := List.mem_map.1 (hperm.mem_iff.1 ha)
    obtain ⟨j, _, rfl⟩ := List.mem_map.1 (hperm.mem_iff.1 hb)
    exact hab


/-! ### waveform columns, cluster depths -/

theorem waveforms_eq (wfs : List Mat) (inds : List (List Nat))
    (t s j : Nat)
    (hj : j < (inds.getD t []).length) :
    (((exportWaveforms wfs inds).getD t []).getD s []).getD j 0 =
      ((wfs.getD t []).getD s []).getD ((inds.getD t []).getD j 0) 0 := by
  have ht' : t < inds.length := C12.Lemmas.lt_length_of_lt_getD_length inds t j hj
  by_cases ht : t < wfs.length
  · simp only [List.getD_eq_getElem?_getD, List.getElem?_eq_getElem ht, List.getElem?_eq_getElem ht',
      Option.getD_some] at hj ⊢
    by_cases hs : s < wfs[t].length
    · simp [exportWaveforms, ht, ht', hs, hj]
    · simp [exportWaveforms, ht, ht', hs]
  · simp [exportWaveforms, List.getD_eq_getElem?_getD, ht]

theorem cluster_depth_eq (ys : List Rat) (peaks nanIdx : List Nat) (c : Nat) (hc : c < peaks.length) :
    (clusterDepths ys peaks nanIdx).getD c none =
      if nanIdx.contains c then none else some (ys.getD (peaks.getD c 0) 0) := by
  simp [clusterDepths, List.getD_eq_getElem?_getD, hc]

end PhyVerif.C14.Lemmas
