import PhyVerif.Model.C14
import PhyVerif.Spec.C14
/-! Helper lemmas and full proofs for C14. Statements: `Props/C14.lean`. -/
namespace PhyVerif.C14.Lemmas
open PhyVerif PhyVerif.C09 PhyVerif.C12 PhyVerif.C14

theorem rawInd_inverts_merge (maps : List (List Nat)) (h : MapsOK maps) :
    exportRawInd (mergeChannelMaps maps) (channelProbes maps) = (maps.flatten).map Int.ofNat := by
  sorry

theorem nearest_ok (pos : List (Rat × Rat)) (probes : List Nat) (peak ncw : Nat)
    (hp : peak < pos.length) (hl : probes.length = pos.length) (hd : pos.Nodup) :
    nearestOK pos probes peak ncw (nearestSameProbe pos probes peak ncw) = true := by
  sorry

theorem waveforms_eq (wfs : List Mat) (inds : List (List Nat)) (hlen : inds.length = wfs.length)
    (t s j : Nat) (ht : t < wfs.length) (hs : s < (wfs.getD t []).length)
    (hj : j < (inds.getD t []).length) :
    (((exportWaveforms wfs inds).getD t []).getD s []).getD j 0 =
      ((wfs.getD t []).getD s []).getD ((inds.getD t []).getD j 0) 0 := by
  sorry

theorem cluster_depth_eq (ys : List Rat) (peaks nanIdx : List Nat) (c : Nat) (hc : c < peaks.length) :
    (clusterDepths ys peaks nanIdx).getD c none =
      if nanIdx.contains c then none else some (ys.getD (peaks.getD c 0) 0) := by
  sorry

end PhyVerif.C14.Lemmas
