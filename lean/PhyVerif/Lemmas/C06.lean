import PhyVerif.Model.C06
import PhyVerif.Spec.C06
/-! Helper lemmas and full proofs for C06. Statements: `Props/C06.lean`. -/
namespace PhyVerif.C06.Lemmas
open PhyVerif PhyVerif.C06

variable {β : Type}

theorem fromSparse_spec (zero : β) (data : List (List β)) (cols : List (List Int)) (chans : List Nat)
    (hc : chans.Nodup) (hlen : data.length = cols.length)
    (hrow : ∀ p ∈ data.zip cols, p.1.length = p.2.length) (hcols : ColsOK cols) :
    fromSparse zero data cols chans =
      some ((data.zip cols).map fun p => chans.map fun c => denseEntry zero p.1 p.2 c) := by
  sorry

theorem fromSparse_order_independent (zero : β) (data : List (List β)) (cols : List (List Int))
    (chans chans' : List Nat) (hc : chans.Nodup) (hc' : chans'.Nodup) (hlen : data.length = cols.length)
    (hrow : ∀ p ∈ data.zip cols, p.1.length = p.2.length) (hcols : ColsOK cols)
    (out out' : List (List β)) (ho : fromSparse zero data cols chans = some out)
    (ho' : fromSparse zero data cols chans' = some out') (i j j' : Nat) (hj : j < chans.length)
    (hj' : j' < chans'.length) (heq : chans[j]'hj = chans'[j']'hj') (hi : i < data.length) :
    (out.getD i []).getD j zero = (out'.getD i []).getD j' zero := by
  sorry

theorem getFeatures_spec (zero nan : β) (sf : Sparse β) (nloc nSpikes nTemplates : Nat)
    (spikeTemplates : List Nat) (hst : StoreOK sf nloc nSpikes nTemplates spikeTemplates)
    (spikeIds chans : List Nat) (hs : spikeIds.Nodup) (hsr : ∀ q ∈ spikeIds, q < nSpikes)
    (hc : chans.Nodup) :
    ∃ out, getFeatures zero nan sf nloc spikeTemplates spikeIds chans = some out ∧
      out.length = spikeIds.length ∧
      ∀ i (hi : i < spikeIds.length) row, storedRow sf (spikeIds[i]'hi) = some row →
        out.getD i [] = chans.map fun c =>
          denseEntry zero row (colsRow sf nloc spikeTemplates (spikeIds[i]'hi)) c := by
  sorry

theorem getTemplateFeatures_spec (zero nan : β) (tf : Sparse β) (nloc nSpikes nTemplates : Nat)
    (spikeTemplates : List Nat) (hst : StoreOK tf nloc nSpikes nTemplates spikeTemplates)
    (spikeIds : List Nat) (hs : spikeIds.Nodup) (hsr : ∀ q ∈ spikeIds, q < nSpikes) :
    ∃ out, getTemplateFeatures zero nan tf nloc spikeTemplates nTemplates spikeIds = some out ∧
      out.length = spikeIds.length ∧
      ∀ i (hi : i < spikeIds.length) row, storedRow tf (spikeIds[i]'hi) = some row →
        out.getD i [] = (List.range nTemplates).map fun c =>
          denseEntry zero row (colsRow tf nloc spikeTemplates (spikeIds[i]'hi)) c := by
  sorry

end PhyVerif.C06.Lemmas
