import PhyVerif.Model.C06
import PhyVerif.Spec.C06
import PhyVerif.Lemmas.Np
import PhyVerif.Lemmas.C07
namespace PhyVerif.C06.Lemmas
open PhyVerif PhyVerif.C06

variable {β : Type}

/-! Helper lemmas and full proofs for C06. Statements: `Props/C06.lean`. -/

/-! generic "scatter" fold: `acc[pos a] = val a` for `a` in order -/
section scatter
variable {α γ : Type}

def scatter (pos : α → Nat) (val : α → γ) (s : List α) (acc : List γ) : List γ :=
  s.foldl (fun acc a => acc.set (pos a) (val a)) acc

theorem scatter_cons (pos : α → Nat) (val : α → γ) (a : α) (s : List α) (acc : List γ) :
    scatter pos val (a :: s) acc = scatter pos val s (acc.set (pos a) (val a)) := rfl

theorem scatter_length (pos : α → Nat) (val : α → γ) (s : List α) :
    ∀ acc : List γ, (scatter pos val s acc).length = acc.length := by
  induction s with
  | nil => intro acc; rfl
  | cons a s ih => intro acc; rw [scatter_cons, ih, List.length_set]

theorem scatter_get_of_not_written (pos : α → Nat) (val : α → γ) (i : Nat) (s : List α)
    (h : ∀ a ∈ s, pos a ≠ i) : ∀ acc : List γ, (scatter pos val s acc)[i]? = acc[i]? := by
  induction s with
  | nil => intro acc; rfl
  | cons a s ih =>
    intro acc
    rw [scatter_cons, ih (fun b hb => h b (List.mem_cons_of_mem _ hb)), List.getElem?_set,
      if_neg (h a List.mem_cons_self)]

theorem scatter_get_of_written (pos : α → Nat) (val : α → γ) (i : Nat) (y : γ) (s : List α)
    (hex : ∃ a ∈ s, pos a = i) (hval : ∀ a ∈ s, pos a = i → val a = y) :
    ∀ acc : List γ, i < acc.length → (scatter pos val s acc)[i]? = some y := by
  induction s with
  | nil => obtain ⟨a, ha, _⟩ := hex; cases ha
  | cons a s ih =>
    intro acc hlt
    rw [scatter_cons]
    by_cases h : ∃ b ∈ s, pos b = i
    · exact ih h (fun b hb => hval b (List.mem_cons_of_mem _ hb)) _ (by rw [List.length_set]; exact hlt)
    · have hn : ∀ b ∈ s, pos b ≠ i := fun b hb hp => h ⟨b, hb, hp⟩
      rw [scatter_get_of_not_written pos val i s hn, List.getElem?_set]
      obtain ⟨b, hb, hp⟩ := hex
      rcases List.mem_cons.mp hb with hba | hbs
      · subst hba
        rw [if_pos hp, if_pos (hp ▸ hlt), hval b List.mem_cons_self hp]
      · exact absurd hp (hn b hbs)

/-- the value at a position depends only on WHICH writes hit it: two scatters of the same values
whose position maps hit `i` resp. `i'` for the same items agree there -/
theorem scatter_get_congr (pos pos' : α → Nat) (val : α → γ) (i i' : Nat) (s : List α)
    (h : ∀ a ∈ s, pos a = i ↔ pos' a = i') :
    ∀ (acc acc' : List γ), i < acc.length → i' < acc'.length → acc[i]? = acc'[i']? →
      (scatter pos val s acc)[i]? = (scatter pos' val s acc')[i']? := by
  induction s with
  | nil => intro acc acc' _ _ he; exact he
  | cons a s ih =>
    intro acc acc' hl hl' he
    rw [scatter_cons, scatter_cons]
    apply ih (fun b hb => h b (List.mem_cons_of_mem _ hb)) _ _
      (by rw [List.length_set]; exact hl) (by rw [List.length_set]; exact hl')
    rw [List.getElem?_set, List.getElem?_set]
    by_cases hp : pos a = i
    · have hp' := (h a List.mem_cons_self).1 hp
      rw [if_pos hp, if_pos hp', if_pos (by omega), if_pos (by omega)]
    · have hp' : ¬ pos' a = i' := fun e => hp ((h a List.mem_cons_self).2 e)
      rw [if_neg hp, if_neg hp', he]

end scatter

/-! ## `from_sparse` -/

theorem locOf_eq_iff (chans : List Nat) (hc : chans.Nodup) (c : Int) (j : Nat) (hj : j < chans.length) :
    locOf chans c = j ↔ c = Int.ofNat (chans[j]'hj) := by
  unfold locOf
  constructor
  · intro h
    split at h
    · rename_i hh
      have hmem : c.toNat ∈ chans := by simpa using hh.2
      have hlt : chans.idxOf c.toNat < chans.length := List.idxOf_lt_length_iff.mpr hmem
      have := List.getElem_idxOf hlt
      subst h
      rw [this]
      have := hh.1
      simp only [Int.ofNat_eq_natCast]
      omega
    · omega
  · intro h
    subst h
    have hmem : chans[j] ∈ chans := List.getElem_mem hj
    simp only [Int.ofNat_eq_natCast, Int.toNat_natCast, List.contains_eq_mem, hmem, decide_true, and_true]
    rw [if_pos (by omega)]
    exact hc.idxOf_getElem j hj

theorem scatterRow_fold_get (zero : β) (chans : List Nat) (hc : chans.Nodup) (j : Nat) (hj : j < chans.length) :
    ∀ (cols : List Int) (data acc : List β), data.length = cols.length →
      (cols.filter (0 ≤ ·)).Nodup → j < acc.length →
      (scatter (fun p : Int × β => locOf chans p.1) (fun p => p.2) (cols.zip data) acc)[j]? =
        match cols.idxOf? (Int.ofNat (chans[j]'hj)) with
        | some k => some (data.getD k zero)
        | none => acc[j]? := by
  intro cols
  induction cols with
  | nil => intro data acc _ _ _; rfl
  | cons x cs ih =>
    intro data acc hlen hnd hlt
    cases data with
    | nil => simp at hlen
    | cons d ds =>
      rw [List.zip_cons_cons, scatter_cons, List.idxOf?_cons]
      by_cases hx : x = Int.ofNat (chans[j]'hj)
      · -- written here, never again
        have hx0 : 0 ≤ x := by subst hx; simp
        rw [List.filter_cons_of_pos (by simpa using hx0), List.nodup_cons] at hnd
        have hnot : x ∉ cs := fun hm => hnd.1 (List.mem_filter.mpr ⟨hm, by simpa using hx0⟩)
        rw [if_pos (by simpa using hx)]
        rw [scatter_get_of_not_written]
        · simp only
          rw [(locOf_eq_iff chans hc x j hj).mpr hx, List.getElem?_set, if_pos rfl, if_pos hlt]
          rfl
        · intro p hp hloc
          have := (locOf_eq_iff chans hc p.1 j hj).mp hloc
          have hm := (List.of_mem_zip (a := p.1) (b := p.2) hp).1
          rw [this, ← hx] at hm
          exact hnot hm
      · have hnd' : (cs.filter (0 ≤ ·)).Nodup := by
          by_cases hx0 : 0 ≤ x
          · rw [List.filter_cons_of_pos (by simpa using hx0), List.nodup_cons] at hnd
            exact hnd.2
          · rw [List.filter_cons_of_neg (by simpa using hx0)] at hnd
            exact hnd
        have hne : locOf chans x ≠ j := fun h => hx ((locOf_eq_iff chans hc x j hj).mp h)
        rw [if_neg (by simpa using hx)]
        rw [ih ds _ (by simpa using hlen) hnd' (by rw [List.length_set]; exact hlt)]
        cases cs.idxOf? (Int.ofNat chans[j]) with
        | none => simp only [Option.map_none]; rw [List.getElem?_set, if_neg hne]
        | some k => simp only [Option.map_some]; rfl

theorem scatterRow_eq (zero : β) (chans : List Nat) (hc : chans.Nodup) (data : List β) (cols : List Int)
    (hlen : data.length = cols.length) (hnd : (cols.filter (0 ≤ ·)).Nodup) :
    scatterRow zero chans data cols = chans.map fun c => denseEntry zero data cols c := by
  apply List.ext_getElem?
  intro j
  show (List.take chans.length (scatter (fun p : Int × β => locOf chans p.1) (fun p => p.2) (cols.zip data)
    (List.replicate (chans.length + 1) zero)))[j]? = _
  rw [List.getElem?_take, List.getElem?_map]
  by_cases hj : j < chans.length
  · rw [if_pos hj, scatterRow_fold_get zero chans hc j hj cols data _ hlen hnd (by simp; omega)]
    rw [List.getElem?_eq_getElem hj, Option.map_some]
    unfold denseEntry
    cases cols.idxOf? (Int.ofNat chans[j]) with
    | none => simp only; rw [List.getElem?_replicate, if_pos (by omega)]
    | some k => rfl
  · rw [if_neg hj, List.getElem?_eq_none (by omega)]; rfl

theorem fromSparse_spec (zero : β) (data : List (List β)) (cols : List (List Int)) (chans : List Nat)
    (hc : chans.Nodup) (hlen : data.length = cols.length)
    (hrow : ∀ p ∈ data.zip cols, p.1.length = p.2.length) (hcols : ColsOK cols) :
    fromSparse zero data cols chans =
      some ((data.zip cols).map fun p => chans.map fun c => denseEntry zero p.1 p.2 c) := by
  unfold fromSparse
  have h1 : (!decide chans.Nodup) = false := by simp [hc]
  have h2 : (data.length != cols.length) = false := by simp [hlen]
  have h3 : ((data.zip cols).any fun p => p.1.length != p.2.length) = false := by
    rw [List.any_eq_false]
    intro p hp
    simp [hrow p hp]
  rw [h1, h2, h3]
  simp only [Bool.false_eq_true, if_false]
  congr 1
  apply List.map_congr_left
  intro p hp
  exact scatterRow_eq zero chans hc p.1 p.2 (hrow p hp) (hcols p.2 (List.of_mem_zip (a := p.1) (b := p.2) hp).2)

/-- a successful `from_sparse` had distinct requested channels and scattered every row -/
theorem fromSparse_eq_some (zero : β) (data : List (List β)) (cols : List (List Int)) (chans : List Nat)
    (out : List (List β)) (ho : fromSparse zero data cols chans = some out) :
    chans.Nodup ∧ out = (data.zip cols).map fun p => scatterRow zero chans p.1 p.2 := by
  unfold fromSparse at ho
  by_cases hc : chans.Nodup
  · refine ⟨hc, ?_⟩
    have h1 : (!decide chans.Nodup) = false := by simp [hc]
    rw [h1] at ho
    simp only [Bool.false_eq_true, if_false] at ho
    split at ho
    · cases ho
    · split at ho
      · cases ho
      · injection ho with ho; exact ho.symm
  · have h1 : (!decide chans.Nodup) = true := by simp [hc]
    rw [h1] at ho
    simp at ho

/-- the scattered value found for a channel does not depend on where it is requested -/
theorem scatterRow_get_congr (zero : β) (chans chans' : List Nat) (hc : chans.Nodup) (hc' : chans'.Nodup)
    (d : List β) (c : List Int) (j j' : Nat) (hj : j < chans.length) (hj' : j' < chans'.length)
    (heq : chans[j]'hj = chans'[j']'hj') :
    (scatterRow zero chans d c)[j]? = (scatterRow zero chans' d c)[j']? := by
  show (List.take chans.length (scatter (fun p : Int × β => locOf chans p.1) (fun p => p.2) (c.zip d)
      (List.replicate (chans.length + 1) zero)))[j]? =
    (List.take chans'.length (scatter (fun p : Int × β => locOf chans' p.1) (fun p => p.2) (c.zip d)
      (List.replicate (chans'.length + 1) zero)))[j']?
  rw [List.getElem?_take, List.getElem?_take, if_pos hj, if_pos hj']
  apply scatter_get_congr
  · intro a _
    rw [locOf_eq_iff chans hc a.1 j hj, locOf_eq_iff chans' hc' a.1 j' hj', heq]
  · simp; omega
  · simp; omega
  · rw [List.getElem?_replicate, List.getElem?_replicate, if_pos (by omega), if_pos (by omega)]

theorem fromSparse_order_independent (zero : β) (data : List (List β)) (cols : List (List Int))
    (chans chans' : List Nat)
    (out out' : List (List β)) (ho : fromSparse zero data cols chans = some out)
    (ho' : fromSparse zero data cols chans' = some out') (i j j' : Nat) (hj : j < chans.length)
    (hj' : j' < chans'.length) (heq : chans[j]'hj = chans'[j']'hj') :
    (out.getD i []).getD j zero = (out'.getD i []).getD j' zero := by
  obtain ⟨hc, rfl⟩ := fromSparse_eq_some zero data cols chans out ho
  obtain ⟨hc', rfl⟩ := fromSparse_eq_some zero data cols chans' out' ho'
  simp only [List.getD_eq_getElem?_getD, List.getElem?_map]
  cases (data.zip cols)[i]? with
  | none => rfl
  | some p =>
    simp only [Option.map_some, Option.getD_some]
    rw [scatterRow_get_congr zero chans chans' hc hc' p.1 p.2 j j' hj hj' heq]


/-! ## `get_features` -/

theorem mem_intersect1d (a b : List Nat) (v : Nat) : v ∈ intersect1d a b ↔ v ∈ a ∧ v ∈ b := by
  unfold intersect1d
  rw [(PhyVerif.C07.Lemmas.unique_spec _).2 v]
  simp only [List.mem_map, List.mem_filter, List.contains_eq_mem, decide_eq_true_eq]
  constructor
  · rintro ⟨w, h, e⟩
    have : w = v := Int.ofNat.inj e
    exact this ▸ h
  · intro h
    exact ⟨v, h, rfl⟩

theorem gatherRows_spec (nan : β) (sf : Sparse β) (nloc : Nat) (spikeIds : List Nat)
    (hdata : ∀ r ∈ sf.data, r.length = nloc)
    (hrows : ∀ rows, sf.rows = some rows → rows.Nodup ∧ rows.length = sf.data.length)
    (hnone : sf.rows = none → ∀ q ∈ spikeIds, q < sf.data.length)
    (hs : sf.rows ≠ none → spikeIds.Nodup) :
    ∃ feats, gatherRows nan sf nloc spikeIds = some feats ∧ feats.length = spikeIds.length ∧
      (∀ r ∈ feats, r.length = nloc) ∧
      ∀ i (hi : i < spikeIds.length) row, storedRow sf (spikeIds[i]'hi) = some row →
        feats[i]? = some row := by
  obtain ⟨data, cols, rows⟩ := sf
  cases rows with
  | none =>
    simp only at hdata
    have hq := hnone rfl
    refine ⟨spikeIds.map fun q => data.getD q [], ?_, by simp, ?_, ?_⟩
    · show spikeIds.mapM (fun q => data[q]?) = _
      apply PhyVerif.Np.Lemmas.mapM_option_eq_some
      intro q hqm
      simp [List.getD_eq_getElem?_getD, List.getElem?_eq_getElem (hq q hqm)]
    · intro r hr
      obtain ⟨q, hqm, rfl⟩ := List.mem_map.mp hr
      apply hdata
      simp [List.getD_eq_getElem?_getD, List.getElem?_eq_getElem (hq q hqm)]
    · intro i hi row hrow
      have hrow' : data[spikeIds[i]]? = some row := hrow
      simp [List.getD_eq_getElem?_getD, hrow', hi]
  | some rows =>
    simp only at hdata
    have hs : spikeIds.Nodup := hs (by simp)
    obtain ⟨hrnd, hrlen⟩ := hrows rows rfl
    have hmem := mem_intersect1d spikeIds rows
    have hrel := PhyVerif.Np.Lemmas.indexOf_eq ((intersect1d spikeIds rows).map Int.ofNat) rows hrnd
      (by
        intro c hc
        obtain ⟨v, hv, rfl⟩ := List.mem_map.mp hc
        exact ⟨by simp, by simpa using ((hmem v).mp hv).2⟩)
    have hout := PhyVerif.Np.Lemmas.indexOf_eq ((intersect1d spikeIds rows).map Int.ofNat) spikeIds hs
      (by
        intro c hc
        obtain ⟨v, hv, rfl⟩ := List.mem_map.mp hc
        exact ⟨by simp, by simpa using ((hmem v).mp hv).1⟩)
    let feats := scatter (fun v => spikeIds.idxOf v) (fun v => data.getD (rows.idxOf v) [])
      (intersect1d spikeIds rows) (List.replicate spikeIds.length (List.replicate nloc nan))
    have hg : gatherRows nan ⟨data, cols, some rows⟩ nloc spikeIds = some feats := by
      simp only [gatherRows, hrel, hout, Option.bind_eq_bind, Option.bind_some, Option.pure_def]
      simp only [List.map_map, List.zip_map', List.foldl_map]
      rfl
    have hlen : feats.length = spikeIds.length := by
      simp only [feats, scatter_length, List.length_replicate]
    have hget : ∀ i (hi : i < spikeIds.length), feats[i]? = some
        (if spikeIds[i] ∈ rows then data.getD (rows.idxOf spikeIds[i]) [] else List.replicate nloc nan) := by
      intro i hi
      by_cases hq : spikeIds[i] ∈ rows
      · rw [if_pos hq]
        apply scatter_get_of_written
        · exact ⟨spikeIds[i], (hmem _).mpr ⟨List.getElem_mem hi, hq⟩, hs.idxOf_getElem i hi⟩
        · intro v hv hp
          have hvm := ((hmem v).mp hv).1
          have := List.getElem_idxOf (List.idxOf_lt_length_iff.mpr hvm)
          simp only [hp] at this
          rw [this]
        · simpa using hi
      · rw [if_neg hq]
        simp only [feats]
        rw [scatter_get_of_not_written]
        · simp [hi]
        · intro v hv hp
          have hvm := (hmem v).mp hv
          have := List.getElem_idxOf (List.idxOf_lt_length_iff.mpr hvm.1)
          simp only [hp] at this
          exact hq (this ▸ hvm.2)
    refine ⟨feats, hg, hlen, ?_, ?_⟩
    · intro r hr
      obtain ⟨i, hi, rfl⟩ := List.mem_iff_getElem.mp hr
      have hi' : i < spikeIds.length := hlen ▸ hi
      have h := hget i hi'
      rw [List.getElem?_eq_getElem hi] at h
      injection h with h
      rw [h]
      split
      · rename_i hq
        apply hdata
        have : rows.idxOf spikeIds[i] < data.length := hrlen ▸ List.idxOf_lt_length_iff.mpr hq
        simp [List.getD_eq_getElem?_getD, List.getElem?_eq_getElem this]
      · simp
    · intro i hi row hrow
      rw [hget i hi]
      have hrow' : (if rows.contains spikeIds[i] then data[rows.idxOf spikeIds[i]]? else none) = some row := hrow
      by_cases hq : spikeIds[i] ∈ rows
      · rw [if_pos (by simpa using hq)] at hrow'
        rw [if_pos hq, List.getD_eq_getElem?_getD, hrow']
        rfl
      · rw [if_neg (by simpa using hq)] at hrow'
        cases hrow'

theorem colsFor_eq (sf : Sparse β) (nloc nSpikes nTemplates : Nat) (spikeTemplates : List Nat)
    (hst : StoreOK sf nloc nSpikes nTemplates spikeTemplates) (spikeIds : List Nat)
    (hsr : ∀ q ∈ spikeIds, q < nSpikes) :
    colsFor sf nloc spikeTemplates spikeIds = some (spikeIds.map (colsRow sf nloc spikeTemplates)) := by
  obtain ⟨data, cols, rows⟩ := sf
  obtain ⟨_, hcols, _, _, hstl, hstt⟩ := hst
  cases cols with
  | none => simp [colsFor, colsRow]
  | some cols =>
    obtain ⟨hcl, _, _⟩ := hcols cols rfl
    show spikeIds.mapM (fun q => do let t ← spikeTemplates[q]?; cols[t]?) =
      some (spikeIds.map fun q => cols.getD (spikeTemplates.getD q 0) [])
    apply PhyVerif.Np.Lemmas.mapM_option_eq_some
    intro q hq
    have hq' : q < spikeTemplates.length := hstl ▸ hsr q hq
    have ht : spikeTemplates[q] < cols.length := hcl ▸ hstt _ (List.getElem_mem hq')
    simp [List.getD_eq_getElem?_getD, List.getElem?_eq_getElem hq', List.getElem?_eq_getElem ht]

theorem colsRow_ok (sf : Sparse β) (nloc nSpikes nTemplates : Nat) (spikeTemplates : List Nat)
    (hst : StoreOK sf nloc nSpikes nTemplates spikeTemplates) (q : Nat) (hq : q < nSpikes) :
    (colsRow sf nloc spikeTemplates q).length = nloc ∧
      ((colsRow sf nloc spikeTemplates q).filter (0 ≤ ·)).Nodup := by
  obtain ⟨data, cols, rows⟩ := sf
  obtain ⟨_, hcols, _, _, hstl, hstt⟩ := hst
  cases cols with
  | none =>
    refine ⟨by simp [colsRow], ?_⟩
    show (((List.range nloc).map Int.ofNat).filter (0 ≤ ·)).Nodup
    apply List.Pairwise.filter
    rw [List.pairwise_map]
    exact List.nodup_range.imp (fun h h' => h (Int.ofNat.inj h'))
  | some cols =>
    obtain ⟨hcl, hcw, hok⟩ := hcols cols rfl
    have hq' : q < spikeTemplates.length := hstl ▸ hq
    have ht : spikeTemplates[q] < cols.length := hcl ▸ hstt _ (List.getElem_mem hq')
    have hmem : colsRow ⟨data, some cols, rows⟩ nloc spikeTemplates q ∈ cols := by
      show cols.getD (spikeTemplates.getD q 0) [] ∈ cols
      simp [List.getD_eq_getElem?_getD, List.getElem?_eq_getElem hq', List.getElem?_eq_getElem ht]
    exact ⟨hcw _ hmem, hok _ hmem⟩

theorem getFeatures_spec (zero nan : β) (sf : Sparse β) (nloc nSpikes nTemplates : Nat)
    (spikeTemplates : List Nat) (hst : StoreOK sf nloc nSpikes nTemplates spikeTemplates)
    (spikeIds chans : List Nat) (hs : sf.rows ≠ none → spikeIds.Nodup) (hsr : ∀ q ∈ spikeIds, q < nSpikes)
    (hc : chans.Nodup) :
    ∃ out, getFeatures zero nan sf nloc spikeTemplates spikeIds chans = some out ∧
      out.length = spikeIds.length ∧
      ∀ i (hi : i < spikeIds.length) row, storedRow sf (spikeIds[i]'hi) = some row →
        out.getD i [] = chans.map fun c =>
          denseEntry zero row (colsRow sf nloc spikeTemplates (spikeIds[i]'hi)) c := by
  obtain ⟨feats, hg, hflen, hfw, hfget⟩ := gatherRows_spec nan sf nloc spikeIds hst.1 hst.2.2.1
    (fun h q hq => hst.2.2.2.1 h ▸ hsr q hq) hs
  have hcf := colsFor_eq sf nloc nSpikes nTemplates spikeTemplates hst spikeIds hsr
  have hlen : feats.length = (spikeIds.map (colsRow sf nloc spikeTemplates)).length := by
    rw [List.length_map, hflen]
  have hrow : ∀ p ∈ feats.zip (spikeIds.map (colsRow sf nloc spikeTemplates)), p.1.length = p.2.length := by
    intro p hp
    obtain ⟨h1, h2⟩ := List.of_mem_zip (a := p.1) (b := p.2) hp
    obtain ⟨q, hq, hq2⟩ := List.mem_map.mp h2
    rw [hfw _ h1, ← hq2, (colsRow_ok sf nloc nSpikes nTemplates spikeTemplates hst q (hsr q hq)).1]
  have hok : ColsOK (spikeIds.map (colsRow sf nloc spikeTemplates)) := by
    intro r hr
    obtain ⟨q, hq, rfl⟩ := List.mem_map.mp hr
    exact (colsRow_ok sf nloc nSpikes nTemplates spikeTemplates hst q (hsr q hq)).2
  have hfs := fromSparse_spec zero feats _ chans hc hlen hrow hok
  refine ⟨(feats.zip (spikeIds.map (colsRow sf nloc spikeTemplates))).map
    (fun p => chans.map fun c => denseEntry zero p.1 p.2 c), ?_, ?_, ?_⟩
  · simp only [getFeatures, hg, hcf, Option.bind_eq_bind, Option.bind_some]
    exact hfs
  · simp [hflen]
  · intro i hi row hrow
    have h1 := hfget i hi row hrow
    have h2 : (spikeIds.map (colsRow sf nloc spikeTemplates))[i]? =
        some (colsRow sf nloc spikeTemplates spikeIds[i]) := by
      rw [List.getElem?_map, List.getElem?_eq_getElem hi]; rfl
    have h3 : (feats.zip (spikeIds.map (colsRow sf nloc spikeTemplates)))[i]? =
        some (row, colsRow sf nloc spikeTemplates spikeIds[i]) :=
      List.getElem?_zip_eq_some.mpr ⟨h1, h2⟩
    rw [List.getD_eq_getElem?_getD, List.getElem?_map, h3]
    rfl

theorem getTemplateFeatures_spec (zero nan : β) (tf : Sparse β) (nloc nSpikes nTemplates : Nat)
    (spikeTemplates : List Nat) (hst : StoreOK tf nloc nSpikes nTemplates spikeTemplates)
    (spikeIds : List Nat) (hs : tf.rows ≠ none → spikeIds.Nodup) (hsr : ∀ q ∈ spikeIds, q < nSpikes) :
    ∃ out, getTemplateFeatures zero nan tf nloc spikeTemplates nTemplates spikeIds = some out ∧
      out.length = spikeIds.length ∧
      ∀ i (hi : i < spikeIds.length) row, storedRow tf (spikeIds[i]'hi) = some row →
        out.getD i [] = (List.range nTemplates).map fun c =>
          denseEntry zero row (colsRow tf nloc spikeTemplates (spikeIds[i]'hi)) c :=
  getFeatures_spec zero nan tf nloc nSpikes nTemplates spikeTemplates hst spikeIds (List.range nTemplates)
    hs hsr List.nodup_range

end PhyVerif.C06.Lemmas
