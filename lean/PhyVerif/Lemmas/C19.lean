import PhyVerif.Model.C19
import PhyVerif.Spec.C19
/-! Helper lemmas and full proofs for C19. Statements: `Props/C19.lean`. -/
namespace PhyVerif.C19.Lemmas
open PhyVerif PhyVerif.C19

/-! ### the event name of a `connect` -/

theorem takeWhile_all {p : Char → Bool} : ∀ {l : List Char}, l.all p = true → l.takeWhile p = l
  | [], _ => rfl
  | c :: cs, h => by
    simp only [List.all_cons, Bool.and_eq_true] at h
    simp [List.takeWhile_cons, h.1, takeWhile_all h.2]

theorem dropWhile_all {p : Char → Bool} : ∀ {l : List Char}, l.all p = true → l.dropWhile p = []
  | [], _ => rfl
  | c :: cs, h => by
    simp only [List.all_cons, Bool.and_eq_true] at h
    simp [List.dropWhile_cons, h.1, dropWhile_all h.2]

/-- a function called `on_<e>` (non-empty `e` without newline) is connected to the event `e` -/
theorem getOnName_on (e : String) (hne : e ≠ "") (hnl : e.toList.all (· != '\n') = true) :
    getOnName ("on_" ++ e) = some e := by
  unfold getOnName
  have h : ("on_" ++ e).toList = 'o' :: 'n' :: '_' :: e.toList := by
    rw [String.toList_append]; rfl
  rw [h]
  have hx : e.toList ≠ [] := fun h0 => hne (String.toList_eq_nil_iff.mp h0)
  simp only [takeWhile_all hnl, dropWhile_all hnl]
  cases he : e.toList with
  | nil => exact absurd he hx
  | cons c cs => simp [← he, String.ofList_toList, hne]

/-- every name accepted by `_get_on_name` starts with `on_` followed by the (non-empty) event name -/
theorem getOnName_some (f e : String) (h : getOnName f = some e) :
    e ≠ "" ∧ ∃ rest, f.toList = 'o' :: 'n' :: '_' :: (e.toList ++ rest) ∧ (rest = [] ∨ rest = ['\n']) := by
  unfold getOnName at h
  split at h
  · rename_i body hb
    simp only at h
    split at h
    · exact absurd h (by simp)
    · rename_i hx
      split at h
      · rename_i hr
        have he : e = String.ofList (body.takeWhile (· != '\n')) := (Option.some.inj h).symm
        subst he
        refine ⟨?_, body.dropWhile (· != '\n'), ?_, ?_⟩
        · intro h0
          have := congrArg String.toList h0
          simp only [String.toList_ofList] at this
          rw [this] at hx; exact hx rfl
        · rw [hb, String.toList_ofList, List.takeWhile_append_dropWhile]
        · simpa using hr
      · exact absurd h (by simp)
  · exact absurd h (by simp)

theorem connectCb_explicit (r : ConnReq) (e : String) (h : r.event = some e) :
    connectCb r = some ⟨e, r.sender, r.id, r.owner, r.last⟩ := by
  simp [connectCb, h]

theorem connectCb_byname (r : ConnReq) (e : String) (h : r.event = none) (hf : r.fname = "on_" ++ e)
    (hne : e ≠ "") (hnl : e.toList.all (· != '\n') = true) :
    connectCb r = some ⟨e, r.sender, r.id, r.owner, r.last⟩ := by
  simp [connectCb, h, hf, getOnName_on e hne hnl]

theorem connectCb_raises (r : ConnReq) (h : r.event = none) (hf : getOnName r.fname = none) :
    connectCb r = none := by
  simp [connectCb, h, hf]

/-! ### a single emit -/

theorem silenced_emit_none (result : Call → Nat) (st : EState) (e : String) (s : Nat) (a : List Nat)
    (kw : Kwargs) (h : st.silent = true) :
    emit result st e s a kw = ⟨[], .none⟩ := by
  simp [emit, h]

/-- the sender/event filter used by both the loop and the specification -/
def matchesEv (e : String) (s : Nat) (c : Cb) : Bool :=
  c.event == e && (match c.sender with | none => true | some x => x == s)

theorem emitLoop_cons (result : Call → Nat) (e : String) (s : Nat) (a : List Nat) (kw : Kwargs)
    (single : Bool) (c : Cb) (cs : List Cb) (calls : List Call) (res : List Nat) :
    emitLoop result e s a kw single (c :: cs) calls res =
      (if matchesEv e s c then
        (if single then ⟨calls ++ [⟨c.id, s, a, kw⟩], .one (result ⟨c.id, s, a, kw⟩)⟩
         else emitLoop result e s a kw single cs (calls ++ [⟨c.id, s, a, kw⟩]) (res ++ [result ⟨c.id, s, a, kw⟩]))
      else emitLoop result e s a kw single cs calls res) := by
  obtain ⟨ev, sd, i, ow, la⟩ := c
  cases sd <;> simp [emitLoop, matchesEv]

/-- the invocations of the matching callbacks of `l`, in order -/
def callsOf (e : String) (s : Nat) (a : List Nat) (kw : Kwargs) (l : List Cb) : List Call :=
  ((l.filter (matchesEv e s)).map (·.id)).map fun i => (⟨i, s, a, kw⟩ : Call)

theorem callsOf_cons (e : String) (s : Nat) (a : List Nat) (kw : Kwargs) (c : Cb) (l : List Cb) :
    callsOf e s a kw (c :: l) =
      if matchesEv e s c then ⟨c.id, s, a, kw⟩ :: callsOf e s a kw l else callsOf e s a kw l := by
  unfold callsOf
  by_cases h : matchesEv e s c = true <;> simp [List.filter_cons, h]

theorem emitLoop_eq (result : Call → Nat) (e : String) (s : Nat) (a : List Nat) (kw : Kwargs)
    (single : Bool) (l : List Cb) (calls : List Call) (res : List Nat) :
    emitLoop result e s a kw single l calls res =
      (if single then
        match callsOf e s a kw l with
        | [] => ⟨calls, .list res⟩
        | c :: _ => ⟨calls ++ [c], .one (result c)⟩
      else ⟨calls ++ callsOf e s a kw l, .list (res ++ (callsOf e s a kw l).map result)⟩) := by
  induction l generalizing calls res with
  | nil => cases single <;> simp [emitLoop, callsOf]
  | cons c cs ih =>
    rw [emitLoop_cons, callsOf_cons]
    by_cases hm : matchesEv e s c = true
    · rw [if_pos hm, if_pos hm]
      cases single
      · simp [ih]
      · simp
    · rw [if_neg hm, if_neg hm, ih]

theorem filter_reorder (p : Cb → Bool) (l : List Cb) :
    (l.filter (fun c => !c.last) ++ l.filter (fun c => c.last)).filter p =
      (l.filter p).filter (fun c => !c.last) ++ (l.filter p).filter (fun c => c.last) := by
  simp only [List.filter_append, List.filter_filter]
  congr 1
  · apply List.filter_congr; intro x _; exact Bool.and_comm _ _
  · apply List.filter_congr; intro x _; exact Bool.and_comm _ _

theorem emit_eq_spec (result : Call → Nat) (st : EState) (e : String) (s : Nat) (a : List Nat)
    (kw : Kwargs) (h : st.silent = false) :
    emit result st e s a kw = emitSpec result st.cbs e s a kw := by
  have hs : (shouldCall st.cbs e s).map (fun i => (⟨i, s, a, forwarded kw⟩ : Call)) =
      callsOf e s a (forwarded kw)
        (st.cbs.filter (fun c => !c.last) ++ st.cbs.filter (fun c => c.last)) := by
    unfold callsOf
    rw [filter_reorder]; rfl
  unfold emit emitSpec
  simp only [h, Bool.false_eq_true, if_false]
  rw [emitLoop_eq, hs]
  have h1 : (popSingle kw).1 = wantsSingle kw := rfl
  have h2 : (popSingle kw).2 = forwarded kw := rfl
  rw [h1, h2]
  generalize callsOf e s a (forwarded kw)
    (List.filter (fun c => !c.last) st.cbs ++ List.filter (fun c => c.last) st.cbs) = cl
  cases wantsSingle kw
  · simp
  · cases cl <;> simp

/-- "passes the sender and arguments through unchanged": whatever the state, every invocation made by
an emit carries the emit's sender, its positional arguments and its keyword arguments minus `single` -/
theorem emit_args_through (result : Call → Nat) (st : EState) (e : String) (s : Nat) (a : List Nat)
    (kw : Kwargs) :
    ∀ c ∈ (emit result st e s a kw).calls, c.sender = s ∧ c.args = a ∧ c.kwargs = forwarded kw := by
  by_cases hs : st.silent = true
  · rw [silenced_emit_none _ _ _ _ _ _ hs]; intro c hc; simp at hc
  · have hs' : st.silent = false := by simpa using hs
    rw [emit_eq_spec _ _ _ _ _ _ hs']
    unfold emitSpec
    intro c hc
    have key : ∀ c ∈ (shouldCall st.cbs e s).map (fun i => (⟨i, s, a, forwarded kw⟩ : Call)),
        c.sender = s ∧ c.args = a ∧ c.kwargs = forwarded kw := by
      intro c hc
      obtain ⟨i, _, rfl⟩ := List.mem_map.mp hc
      exact ⟨rfl, rfl, rfl⟩
    generalize (shouldCall st.cbs e s).map (fun i => (⟨i, s, a, forwarded kw⟩ : Call)) = cl at hc key
    cases hw : wantsSingle kw <;> rw [hw] at hc
    · exact key c (by simpa using hc)
    · cases cl with
      | nil => simp at hc
      | cons c0 _ =>
        have hc' : c = c0 := by simpa using hc
        subst hc'
        exact key _ List.mem_cons_self

/-- "returns the callbacks' results in call order (only the first result, after a single call, when a
single result is requested)": the returned value is computed from the result list the loop appends to,
the call log from what the callbacks received; they agree position by position -/
theorem emit_results_in_call_order (result : Call → Nat) (st : EState) (e : String) (s : Nat)
    (a : List Nat) (kw : Kwargs) (h : st.silent = false) :
    (wantsSingle kw = false → (emit result st e s a kw).ret = .list ((emit result st e s a kw).calls.map result)) ∧
    (wantsSingle kw = true →
      ((emit result st e s a kw).calls = [] ∧ (emit result st e s a kw).ret = .list []) ∨
      (∃ c, (emit result st e s a kw).calls = [c] ∧ (emit result st e s a kw).ret = .one (result c))) := by
  rw [emit_eq_spec _ _ _ _ _ _ h]
  unfold emitSpec
  generalize (shouldCall st.cbs e s).map (fun i => (⟨i, s, a, forwarded kw⟩ : Call)) = cl
  constructor
  · intro hw; simp [hw]
  · intro hw
    simp only [hw, if_true]
    cases cl with
    | nil => exact Or.inl ⟨rfl, rfl⟩
    | cons c _ => exact Or.inr ⟨c, rfl, rfl⟩

/-! ### histories -/

theorem registered_eq (ops : List EOp) :
    registered ops = ops.foldl (fun acc op =>
      match op with
      | .connect r => (match connectCb r with | some c => acc ++ [c] | none => acc)
      | .unconnect items => acc.filter (keeps items)
      | .reset => []
      | _ => acc) [] := by
  cases ops <;> rfl

theorem registered_snoc (pre : List EOp) (op : EOp) :
    registered (pre ++ [op]) =
      (match op with
      | .connect r => (match connectCb r with | some c => registered pre ++ [c] | none => registered pre)
      | .unconnect items => (registered pre).filter (keeps items)
      | .reset => []
      | _ => registered pre) := by
  rw [registered_eq, registered_eq, List.foldl_append]
  cases op <;> rfl

theorem depthFlag_snoc (pre : List EOp) (op : EOp) :
    depthFlag (pre ++ [op]) =
      (match op with
      | .enterSilent => ((depthFlag pre).1 + 1, (depthFlag pre).2)
      | .exitSilent => ((depthFlag pre).1 - 1, (depthFlag pre).2)
      | .setSilent b => ((depthFlag pre).1, b)
      | _ => depthFlag pre) := by
  unfold depthFlag
  rw [List.foldl_append]
  cases op <;> rfl

/-- the values saved by `d` nested `silent()` frames over a base flag `f` (innermost first) -/
def savedOf : Nat → Bool → List Bool
  | 0, _ => []
  | n + 1, f => (decide (n > 0) || f) :: savedOf n f

structure Inv (pre : List EOp) (st : EState) : Prop where
  cbs : st.cbs = registered pre
  saved : st.saved = savedOf (depthFlag pre).1 (depthFlag pre).2
  silent : st.silent = (decide ((depthFlag pre).1 > 0) || (depthFlag pre).2)

theorem inv_init : Inv [] EState.init := ⟨rfl, rfl, rfl⟩

theorem estep_connect_cbs (result : Call → Nat) (st : EState) (r : ConnReq) :
    (estep result st (.connect r)).1 =
      { st with cbs := (match connectCb r with | some c => st.cbs ++ [c] | none => st.cbs) } ∧
    (estep result st (.connect r)).2 = none := by
  unfold estep
  cases st
  cases h : connectCb r <;> simp [h]

theorem inv_step (result : Call → Nat) (pre : List EOp) (st : EState) (op : EOp) (ops : List EOp)
    (hi : Inv pre st) (hw : WellNested (op :: ops) (depthFlag pre).1) :
    Inv (pre ++ [op]) (estep result st op).1 ∧ WellNested ops (depthFlag (pre ++ [op])).1 := by
  obtain ⟨hc, hsv, hsl⟩ := hi
  cases op with
  | connect r =>
    rw [(estep_connect_cbs result st r).1]
    refine ⟨⟨?_, ?_, ?_⟩, ?_⟩
    · simp only [registered_snoc, hc]
    · simpa [depthFlag_snoc] using hsv
    · simpa [depthFlag_snoc] using hsl
    · simpa [depthFlag_snoc, WellNested] using hw
  | unconnect items =>
    refine ⟨⟨?_, ?_, ?_⟩, ?_⟩ <;>
      simp_all [estep, registered_snoc, depthFlag_snoc, WellNested]
  | reset =>
    refine ⟨⟨?_, ?_, ?_⟩, ?_⟩ <;>
      simp_all [estep, registered_snoc, depthFlag_snoc, WellNested]
  | emit e s a kw =>
    refine ⟨⟨?_, ?_, ?_⟩, ?_⟩ <;>
      simp_all [estep, registered_snoc, depthFlag_snoc, WellNested]
  | setSilent b =>
    simp only [WellNested] at hw
    obtain ⟨h0, hw⟩ := hw
    refine ⟨⟨?_, ?_, ?_⟩, ?_⟩
    · simpa [estep, registered_snoc] using hc
    · simp only [estep, depthFlag_snoc, hsv, h0, savedOf]
    · simp [estep, depthFlag_snoc, h0]
    · simpa [depthFlag_snoc] using hw
  | enterSilent =>
    simp only [WellNested] at hw
    refine ⟨⟨?_, ?_, ?_⟩, ?_⟩
    · simpa [estep, registered_snoc] using hc
    · simp only [estep, depthFlag_snoc, savedOf, hsv, hsl]
    · simp [estep, depthFlag_snoc]
    · simpa [depthFlag_snoc] using hw
  | exitSilent =>
    simp only [WellNested] at hw
    obtain ⟨hpos, hw⟩ := hw
    obtain ⟨n, hn⟩ : ∃ n, (depthFlag pre).1 = n + 1 := ⟨(depthFlag pre).1 - 1, by omega⟩
    have hsv' : st.saved = (decide (n > 0) || (depthFlag pre).2) :: savedOf n (depthFlag pre).2 := by
      rw [hsv, hn]; rfl
    refine ⟨⟨?_, ?_, ?_⟩, ?_⟩
    · simp only [estep, hsv', registered_snoc]; exact hc
    · simp only [estep, hsv', depthFlag_snoc, hn, Nat.add_sub_cancel]
    · simp only [estep, hsv', depthFlag_snoc, hn, Nat.add_sub_cancel]
    · simpa [depthFlag_snoc] using hw

theorem estep_out_none (result : Call → Nat) (st : EState) (op : EOp)
    (h : ∀ e s a kw, op ≠ .emit e s a kw) : (estep result st op).2 = none := by
  cases op with
  | connect r => exact (estep_connect_cbs result st r).2
  | exitSilent => cases hsv : st.saved <;> simp [estep, hsv]
  | emit e s a kw => exact absurd rfl (h e s a kw)
  | _ => rfl

theorem erun_cons_emit (result : Call → Nat) (st : EState) (e : String) (s : Nat) (a : List Nat)
    (kw : Kwargs) (ops : List EOp) :
    erun result st (.emit e s a kw :: ops) = emit result st e s a kw :: erun result st ops := by
  simp [erun, estep]

theorem erun_cons_other (result : Call → Nat) (st : EState) (op : EOp) (ops : List EOp)
    (h : ∀ e s a kw, op ≠ .emit e s a kw) :
    erun result st (op :: ops) = erun result (estep result st op).1 ops := by
  have hn := estep_out_none result st op h
  rw [erun]
  generalize estep result st op = p at hn
  obtain ⟨st', o⟩ := p
  simp only at hn
  subst hn
  rfl

theorem erun_eq (result : Call → Nat) (ops : List EOp) : ∀ (pre : List EOp) (st : EState),
    Inv pre st → WellNested ops (depthFlag pre).1 → erun result st ops = emitsSpec result pre ops := by
  induction ops with
  | nil => intros; rfl
  | cons op ops ih =>
    intro pre st hi hw
    obtain ⟨hi', hw'⟩ := inv_step result pre st op ops hi hw
    have := ih _ _ hi' hw'
    by_cases hop : ∃ e s a kw, op = .emit e s a kw
    · obtain ⟨e, s, a, kw, rfl⟩ := hop
      rw [erun_cons_emit]
      simp only [emitsSpec]
      simp only [estep] at this
      rw [this]
      congr 1
      by_cases hs : st.silent = true
      · rw [silenced_emit_none _ _ _ _ _ _ hs, if_pos]
        rw [← hi.silent]; exact hs
      · have hs' : st.silent = false := by simpa using hs
        rw [emit_eq_spec _ _ _ _ _ _ hs', if_neg, hi.cbs]
        rw [← hi.silent]; exact hs
    · have hne : ∀ e s a kw, op ≠ .emit e s a kw := fun e s a kw h => hop ⟨e, s, a, kw, h⟩
      rw [erun_cons_other _ _ _ _ hne, this]
      cases op with
      | emit e s a kw => exact absurd rfl (hne e s a kw)
      | _ => rfl

theorem erunState_inv (result : Call → Nat) (ops : List EOp) : ∀ (pre : List EOp) (st : EState),
    Inv pre st → WellNested ops (depthFlag pre).1 → Inv (pre ++ ops) (erunState result st ops) := by
  induction ops with
  | nil => intro pre st hi _; simpa [erunState] using hi
  | cons op ops ih =>
    intro pre st hi hw
    obtain ⟨hi', hw'⟩ := inv_step result pre st op ops hi hw
    have := ih _ _ hi' hw'
    simpa [erunState] using this

theorem emit_outcomes (result : Call → Nat) (ops : List EOp) (h : WellNested ops 0) :
    erun result EState.init ops = emitsSpec result [] ops :=
  erun_eq result ops [] EState.init inv_init h

theorem silent_restores (result : Call → Nat) (ops : List EOp) (h : WellNested ops 0) :
    (erunState result EState.init ops).silent = (decide ((depthFlag ops).1 > 0) || (depthFlag ops).2) := by
  have := (erunState_inv result ops [] EState.init inv_init h).silent
  simpa using this

/-! ### histories with `set_silent` anywhere -/

/-- the values held by the open `silent()` frames (innermost first), read off the history backwards
in the same way as `silentBack` -/
def savedBack : List EOp → Nat → List Bool
  | [], _ => []
  | op :: r, 0 =>
    match op with
    | .enterSilent => silentBack r 0 :: savedBack r 0
    | .exitSilent => savedBack r 1
    | _ => savedBack r 0
  | op :: r, k + 1 =>
    match op with
    | .enterSilent => savedBack r k
    | .exitSilent => savedBack r (k + 2)
    | _ => savedBack r (k + 1)

/-- leaving the innermost open context: the flag becomes the value that frame saved -/
theorem savedBack_pop : ∀ (r : List EOp) (k : Nat) (b : Bool) (rest : List Bool),
    savedBack r k = b :: rest → silentBack r (k + 1) = b ∧ savedBack r (k + 1) = rest := by
  intro r
  induction r with
  | nil => intro k b rest h; cases k <;> simp [savedBack] at h
  | cons op r ih =>
    intro k b rest h
    cases k with
    | zero =>
      cases op with
      | enterSilent =>
        simp only [savedBack, List.cons.injEq] at h
        simp only [silentBack, savedBack]
        exact ⟨h.1, h.2⟩
      | exitSilent =>
        simp only [savedBack] at h
        simp only [silentBack, savedBack]
        exact ih 1 b rest h
      | connect _ => simp only [savedBack] at h; simp only [silentBack, savedBack]; exact ih 0 b rest h
      | unconnect _ => simp only [savedBack] at h; simp only [silentBack, savedBack]; exact ih 0 b rest h
      | reset => simp only [savedBack] at h; simp only [silentBack, savedBack]; exact ih 0 b rest h
      | setSilent _ => simp only [savedBack] at h; simp only [silentBack, savedBack]; exact ih 0 b rest h
      | emit _ _ _ _ => simp only [savedBack] at h; simp only [silentBack, savedBack]; exact ih 0 b rest h
    | succ k =>
      cases op with
      | enterSilent =>
        simp only [savedBack] at h
        simp only [silentBack, savedBack]
        exact ih k b rest h
      | exitSilent =>
        simp only [savedBack] at h
        simp only [silentBack, savedBack]
        exact ih (k + 2) b rest h
      | connect _ => simp only [savedBack] at h; simp only [silentBack, savedBack]; exact ih (k + 1) b rest h
      | unconnect _ => simp only [savedBack] at h; simp only [silentBack, savedBack]; exact ih (k + 1) b rest h
      | reset => simp only [savedBack] at h; simp only [silentBack, savedBack]; exact ih (k + 1) b rest h
      | setSilent _ => simp only [savedBack] at h; simp only [silentBack, savedBack]; exact ih (k + 1) b rest h
      | emit _ _ _ _ => simp only [savedBack] at h; simp only [silentBack, savedBack]; exact ih (k + 1) b rest h

structure InvG (pre : List EOp) (st : EState) : Prop where
  cbs : st.cbs = registered pre
  silent : st.silent = silentBack pre.reverse 0
  saved : st.saved = savedBack pre.reverse 0
  len : st.saved.length = (depthFlag pre).1

theorem invG_init : InvG [] EState.init := ⟨rfl, rfl, rfl, rfl⟩

theorem invG_step (result : Call → Nat) (pre : List EOp) (st : EState) (op : EOp) (ops : List EOp)
    (hi : InvG pre st) (hw : ExitsMatched (op :: ops) (depthFlag pre).1) :
    InvG (pre ++ [op]) (estep result st op).1 ∧ ExitsMatched ops (depthFlag (pre ++ [op])).1 := by
  obtain ⟨hc, hsl, hsv, hlen⟩ := hi
  have hrev : (pre ++ [op]).reverse = op :: pre.reverse := by simp
  cases op with
  | connect r =>
    rw [(estep_connect_cbs result st r).1]
    refine ⟨⟨?_, ?_, ?_, ?_⟩, ?_⟩
    · simp only [registered_snoc, hc]
    · rw [hrev]; simpa [silentBack] using hsl
    · rw [hrev]; simpa [savedBack] using hsv
    · simpa [depthFlag_snoc] using hlen
    · simpa [depthFlag_snoc, ExitsMatched] using hw
  | unconnect items =>
    refine ⟨⟨?_, ?_, ?_, ?_⟩, ?_⟩
    · simp [estep, registered_snoc, hc]
    · rw [hrev]; simpa [estep, silentBack] using hsl
    · rw [hrev]; simpa [estep, savedBack] using hsv
    · simpa [estep, depthFlag_snoc] using hlen
    · simpa [depthFlag_snoc, ExitsMatched] using hw
  | reset =>
    refine ⟨⟨?_, ?_, ?_, ?_⟩, ?_⟩
    · simp [estep, registered_snoc]
    · rw [hrev]; simpa [estep, silentBack] using hsl
    · rw [hrev]; simpa [estep, savedBack] using hsv
    · simpa [estep, depthFlag_snoc] using hlen
    · simpa [depthFlag_snoc, ExitsMatched] using hw
  | emit e s a kw =>
    refine ⟨⟨?_, ?_, ?_, ?_⟩, ?_⟩
    · simp [estep, registered_snoc, hc]
    · rw [hrev]; simpa [estep, silentBack] using hsl
    · rw [hrev]; simpa [estep, savedBack] using hsv
    · simpa [estep, depthFlag_snoc] using hlen
    · simpa [depthFlag_snoc, ExitsMatched] using hw
  | setSilent b =>
    refine ⟨⟨?_, ?_, ?_, ?_⟩, ?_⟩
    · simp [estep, registered_snoc, hc]
    · rw [hrev]; simp [estep, silentBack]
    · rw [hrev]; simpa [estep, savedBack] using hsv
    · simpa [estep, depthFlag_snoc] using hlen
    · simpa [depthFlag_snoc, ExitsMatched] using hw
  | enterSilent =>
    refine ⟨⟨?_, ?_, ?_, ?_⟩, ?_⟩
    · simp [estep, registered_snoc, hc]
    · rw [hrev]; simp [estep, silentBack]
    · rw [hrev]; simp [estep, savedBack, hsl, hsv]
    · simp [estep, depthFlag_snoc, hlen]
    · simpa [depthFlag_snoc, ExitsMatched] using hw
  | exitSilent =>
    simp only [ExitsMatched] at hw
    obtain ⟨hpos, hw⟩ := hw
    cases hs : st.saved with
    | nil => rw [hs] at hlen; simp at hlen; omega
    | cons b rest =>
      obtain ⟨h1, h2⟩ := savedBack_pop pre.reverse 0 b rest (by rw [← hsv, hs])
      refine ⟨⟨?_, ?_, ?_, ?_⟩, ?_⟩
      · simp [estep, hs, registered_snoc, hc]
      · rw [hrev]; simp [estep, hs, silentBack, h1]
      · rw [hrev]; simp [estep, hs, savedBack, h2]
      · rw [hs] at hlen; simp at hlen; simp [estep, hs, depthFlag_snoc]; omega
      · simpa [depthFlag_snoc] using hw

theorem erunG_eq (result : Call → Nat) (ops : List EOp) : ∀ (pre : List EOp) (st : EState),
    InvG pre st → ExitsMatched ops (depthFlag pre).1 → erun result st ops = emitsSpecG result pre ops := by
  induction ops with
  | nil => intros; rfl
  | cons op ops ih =>
    intro pre st hi hw
    obtain ⟨hi', hw'⟩ := invG_step result pre st op ops hi hw
    have := ih _ _ hi' hw'
    by_cases hop : ∃ e s a kw, op = .emit e s a kw
    · obtain ⟨e, s, a, kw, rfl⟩ := hop
      rw [erun_cons_emit]
      simp only [emitsSpecG]
      simp only [estep] at this
      rw [this]
      congr 1
      have hsa : silencedAfter pre = st.silent := hi.silent.symm
      by_cases hs : st.silent = true
      · rw [silenced_emit_none _ _ _ _ _ _ hs, if_pos]
        rw [hsa]; exact hs
      · have hs' : st.silent = false := by simpa using hs
        rw [emit_eq_spec _ _ _ _ _ _ hs', if_neg, hi.cbs]
        rw [hsa]; exact hs
    · have hne : ∀ e s a kw, op ≠ .emit e s a kw := fun e s a kw h => hop ⟨e, s, a, kw, h⟩
      rw [erun_cons_other _ _ _ _ hne, this]
      cases op with
      | emit e s a kw => exact absurd rfl (hne e s a kw)
      | _ => rfl

theorem erunStateG_inv (result : Call → Nat) (ops : List EOp) : ∀ (pre : List EOp) (st : EState),
    InvG pre st → ExitsMatched ops (depthFlag pre).1 → InvG (pre ++ ops) (erunState result st ops) := by
  induction ops with
  | nil => intro pre st hi _; simpa [erunState] using hi
  | cons op ops ih =>
    intro pre st hi hw
    obtain ⟨hi', hw'⟩ := invG_step result pre st op ops hi hw
    have := ih _ _ hi' hw'
    simpa [erunState] using this

theorem emit_outcomes_any_nesting (result : Call → Nat) (ops : List EOp) (h : ExitsMatched ops 0) :
    erun result EState.init ops = emitsSpecG result [] ops :=
  erunG_eq result ops [] EState.init invG_init h

theorem silent_flag_any_nesting (result : Call → Nat) (ops : List EOp) (h : ExitsMatched ops 0) :
    (erunState result EState.init ops).silent = silencedAfter ops := by
  have := (erunStateG_inv result ops [] EState.init invG_init h).silent
  simpa [silencedAfter] using this

/-! ### reporter -/

theorem setValue_obs (st : RState) (v : Int) (before : List RObs)
    (hinv : st.completed = announcedSince before) :
    ((setValue st v).2.complete == shouldAnnounce before true v st.max) = true ∧
    (setValue st v).1.completed =
      announcedSince (⟨true, true, (setValue st v).1.value, st.max, (setValue st v).1.max,
        (setValue st v).2.complete⟩ :: before) := by
  simp only [setValue, shouldAnnounce, announcedSince, ← hinv]
  by_cases h : v < st.max
  · have h' : ¬ v ≥ st.max := by omega
    simp [h, h']
  · have h' : v ≥ st.max := by omega
    cases st.completed <;> simp [h, h']

theorem rstep_obs (st : RState) (op : ROp) (before : List RObs)
    (hinv : st.completed = announcedSince before) :
    ((obsOf (st, op, (rstep st op).1, (rstep st op).2)).announced ==
        shouldAnnounce before (obsOf (st, op, (rstep st op).1, (rstep st op).2)).valueUpdate
          (obsOf (st, op, (rstep st op).1, (rstep st op).2)).value
          (obsOf (st, op, (rstep st op).1, (rstep st op).2)).maxBefore) = true ∧
    (rstep st op).1.completed =
      announcedSince (obsOf (st, op, (rstep st op).1, (rstep st op).2) :: before) := by
  cases op with
  | increment => exact setValue_obs st _ before hinv
  | setValue v => exact setValue_obs st _ before hinv
  | setComplete => exact setValue_obs st _ before hinv
  | setMax m =>
    simp only [obsOf, rstep, shouldAnnounce, announcedSince, ← hinv]
    by_cases h : m > st.max <;> simp [h]
  | reset m =>
    cases m with
    | none =>
      simp only [obsOf, rstep, shouldAnnounce, announcedSince, ← hinv]
      by_cases h : (0 : Int) < st.max <;> simp [h]
    | some m =>
      simp only [obsOf, rstep, shouldAnnounce, announcedSince, ← hinv]
      by_cases h : (0 : Int) < m <;> by_cases h' : m > st.max <;> simp [h, h']

theorem announceOK_run (ops : List ROp) : ∀ (st : RState) (before : List RObs),
    st.completed = announcedSince before →
    announceOK before ((rrun st ops).map obsOf) = true := by
  induction ops with
  | nil => intros; rfl
  | cons op ops ih =>
    intro st before hinv
    obtain ⟨h1, h2⟩ := rstep_obs st op before hinv
    simp only [rrun, List.map_cons, announceOK, Bool.and_eq_true]
    exact ⟨h1, ih _ _ h2⟩

theorem reporter_announce_ok (ops : List ROp) :
    announceOK [] ((rrun RState.init ops).map obsOf) = true :=
  announceOK_run ops RState.init [] rfl

end PhyVerif.C19.Lemmas
