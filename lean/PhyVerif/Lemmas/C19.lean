import PhyVerif.Model.C19
import PhyVerif.Spec.C19
/-! Helper lemmas and full proofs for C19. Statements: `Props/C19.lean`. -/
namespace PhyVerif.C19.Lemmas
open PhyVerif PhyVerif.C19

/-! ### a single emit -/

theorem silenced_emit_none (st : EState) (e s : Nat) (single : Bool) (h : st.silent = true) :
    emit st e s single = ⟨[], .none⟩ := by
  simp [emit, h]

/-- the sender/event filter used by both the loop and the specification -/
def matchesEv (e s : Nat) (c : Cb) : Bool :=
  c.event == e && (match c.sender with | none => true | some x => x == s)

theorem emitLoop_cons (e s : Nat) (single : Bool) (c : Cb) (cs : List Cb) (res : List Nat) :
    emitLoop e s single (c :: cs) res =
      (if matchesEv e s c then
        (if single then ⟨res ++ [c.id], .one c.id⟩ else emitLoop e s single cs (res ++ [c.id]))
      else emitLoop e s single cs res) := by
  obtain ⟨ev, sd, i, ow, la⟩ := c
  cases sd <;> simp [emitLoop, matchesEv]

theorem emitLoop_eq (e s : Nat) (single : Bool) (l : List Cb) (res : List Nat) :
    emitLoop e s single l res =
      (if single then
        match (l.filter (matchesEv e s)).map (·.id) with
        | [] => ⟨res, .list res⟩
        | i :: _ => ⟨res ++ [i], .one i⟩
      else ⟨res ++ (l.filter (matchesEv e s)).map (·.id), .list (res ++ (l.filter (matchesEv e s)).map (·.id))⟩) := by
  induction l generalizing res with
  | nil => cases single <;> simp [emitLoop]
  | cons c cs ih =>
    rw [emitLoop_cons]
    by_cases hm : matchesEv e s c = true
    · rw [if_pos hm]
      cases single
      · simp [ih, hm]
      · simp [hm]
    · rw [if_neg hm, ih]
      simp [hm]

theorem filter_reorder (p : Cb → Bool) (l : List Cb) :
    (l.filter (fun c => !c.last) ++ l.filter (fun c => c.last)).filter p =
      (l.filter p).filter (fun c => !c.last) ++ (l.filter p).filter (fun c => c.last) := by
  simp only [List.filter_append, List.filter_filter]
  congr 1
  · apply List.filter_congr; intro x _; exact Bool.and_comm _ _
  · apply List.filter_congr; intro x _; exact Bool.and_comm _ _

theorem emit_eq_spec (st : EState) (e s : Nat) (single : Bool) (h : st.silent = false) :
    emit st e s single = emitSpec st.cbs e s single := by
  have hs : shouldCall st.cbs e s =
      ((st.cbs.filter (fun c => !c.last) ++ st.cbs.filter (fun c => c.last)).filter
        (matchesEv e s)).map (·.id) := by
    rw [filter_reorder]; rfl
  unfold emit emitSpec
  simp only [h, Bool.false_eq_true, if_false]
  rw [emitLoop_eq, hs]
  generalize List.map (·.id) (List.filter (matchesEv e s)
    (List.filter (fun c => !c.last) st.cbs ++ List.filter (fun c => c.last) st.cbs)) = ids
  cases single
  · simp
  · cases ids <;> simp

/-! ### histories -/

theorem registered_eq (ops : List EOp) :
    registered ops = ops.foldl (fun acc op =>
      match op with
      | .connect c => acc ++ [c]
      | .unconnect items => acc.filter (keeps items)
      | .reset => []
      | _ => acc) [] := by
  cases ops <;> rfl

theorem registered_snoc (pre : List EOp) (op : EOp) :
    registered (pre ++ [op]) =
      (match op with
      | .connect c => registered pre ++ [c]
      | .unconnect items => (registered pre).filter (keeps items)
      | .reset => []
      | _ => registered pre) := by
  rw [registered_eq, registered_eq, List.foldl_append]
  cases op <;> rfl

theorem depthFlag_snoc (pre : List EOp) (op : EOp) :
    depthFlag (pre ++ [op]) =
      (match op with
      | .enterSilent => ((depthFlag pre).1 + 1, (depthFlag pre).2)
      | .exitSilent => ((depthFlag pre).1 - 1, (depthFlag pre).2)
      | .setSilent b => ((depthFlag pre).1, b)
      | _ => depthFlag pre) := by
  unfold depthFlag
  rw [List.foldl_append]
  cases op <;> rfl

/-- the values saved by `d` nested `silent()` frames over a base flag `f` (innermost first) -/
def savedOf : Nat → Bool → List Bool
  | 0, _ => []
  | n + 1, f => (decide (n > 0) || f) :: savedOf n f

structure Inv (pre : List EOp) (st : EState) : Prop where
  cbs : st.cbs = registered pre
  saved : st.saved = savedOf (depthFlag pre).1 (depthFlag pre).2
  silent : st.silent = (decide ((depthFlag pre).1 > 0) || (depthFlag pre).2)

theorem inv_init : Inv [] EState.init := ⟨rfl, rfl, rfl⟩

theorem inv_step (pre : List EOp) (st : EState) (op : EOp) (ops : List EOp)
    (hi : Inv pre st) (hw : WellNested (op :: ops) (depthFlag pre).1) :
    Inv (pre ++ [op]) (estep st op).1 ∧ WellNested ops (depthFlag (pre ++ [op])).1 := by
  obtain ⟨hc, hsv, hsl⟩ := hi
  cases op with
  | connect c =>
    refine ⟨⟨?_, ?_, ?_⟩, ?_⟩ <;>
      simp_all [estep, registered_snoc, depthFlag_snoc, WellNested]
  | unconnect items =>
    refine ⟨⟨?_, ?_, ?_⟩, ?_⟩ <;>
      simp_all [estep, registered_snoc, depthFlag_snoc, WellNested]
  | reset =>
    refine ⟨⟨?_, ?_, ?_⟩, ?_⟩ <;>
      simp_all [estep, registered_snoc, depthFlag_snoc, WellNested]
  | emit e s single =>
    refine ⟨⟨?_, ?_, ?_⟩, ?_⟩ <;>
      simp_all [estep, registered_snoc, depthFlag_snoc, WellNested]
  | setSilent b =>
    simp only [WellNested] at hw
    obtain ⟨h0, hw⟩ := hw
    refine ⟨⟨?_, ?_, ?_⟩, ?_⟩
    · simpa [estep, registered_snoc] using hc
    · simp only [estep, depthFlag_snoc, hsv, h0, savedOf]
    · simp [estep, depthFlag_snoc, h0]
    · simpa [depthFlag_snoc] using hw
  | enterSilent =>
    simp only [WellNested] at hw
    refine ⟨⟨?_, ?_, ?_⟩, ?_⟩
    · simpa [estep, registered_snoc] using hc
    · simp only [estep, depthFlag_snoc, savedOf, hsv, hsl]
    · simp [estep, depthFlag_snoc]
    · simpa [depthFlag_snoc] using hw
  | exitSilent =>
    simp only [WellNested] at hw
    obtain ⟨hpos, hw⟩ := hw
    obtain ⟨n, hn⟩ : ∃ n, (depthFlag pre).1 = n + 1 := ⟨(depthFlag pre).1 - 1, by omega⟩
    have hsv' : st.saved = (decide (n > 0) || (depthFlag pre).2) :: savedOf n (depthFlag pre).2 := by
      rw [hsv, hn]; rfl
    refine ⟨⟨?_, ?_, ?_⟩, ?_⟩
    · simp only [estep, hsv', registered_snoc]; exact hc
    · simp only [estep, hsv', depthFlag_snoc, hn, Nat.add_sub_cancel]
    · simp only [estep, hsv', depthFlag_snoc, hn, Nat.add_sub_cancel]
    · simpa [depthFlag_snoc] using hw

theorem erun_eq (ops : List EOp) : ∀ (pre : List EOp) (st : EState),
    Inv pre st → WellNested ops (depthFlag pre).1 → erun st ops = emitsSpec pre ops := by
  induction ops with
  | nil => intros; rfl
  | cons op ops ih =>
    intro pre st hi hw
    obtain ⟨hi', hw'⟩ := inv_step pre st op ops hi hw
    have := ih _ _ hi' hw'
    cases op with
    | emit e s single =>
      simp only [erun, estep, emitsSpec]
      simp only [estep] at this
      rw [this]
      congr 1
      by_cases hs : st.silent = true
      · rw [silenced_emit_none _ _ _ _ hs, if_pos]
        rw [← hi.silent]; exact hs
      · have hs' : st.silent = false := by simpa using hs
        rw [emit_eq_spec _ _ _ _ hs', if_neg, hi.cbs]
        rw [← hi.silent]; exact hs
    | exitSilent =>
      have hn : (estep st EOp.exitSilent).2 = none := by
        cases hsv : st.saved <;> simp [estep, hsv]
      simp only [erun, emitsSpec, hn]
      exact this
    | _ => simpa [erun, emitsSpec, estep] using this

theorem erunState_inv (ops : List EOp) : ∀ (pre : List EOp) (st : EState),
    Inv pre st → WellNested ops (depthFlag pre).1 → Inv (pre ++ ops) (erunState st ops) := by
  induction ops with
  | nil => intro pre st hi _; simpa [erunState] using hi
  | cons op ops ih =>
    intro pre st hi hw
    obtain ⟨hi', hw'⟩ := inv_step pre st op ops hi hw
    have := ih _ _ hi' hw'
    simpa [erunState] using this

theorem emit_outcomes (ops : List EOp) (h : WellNested ops 0) :
    erun EState.init ops = emitsSpec [] ops :=
  erun_eq ops [] EState.init inv_init h

theorem silent_restores (ops : List EOp) (h : WellNested ops 0) :
    (erunState EState.init ops).silent = (decide ((depthFlag ops).1 > 0) || (depthFlag ops).2) := by
  have := (erunState_inv ops [] EState.init inv_init h).silent
  simpa using this

/-! ### reporter -/

theorem setValue_obs (st : RState) (v : Int) (before : List RObs)
    (hinv : st.completed = announcedSince before) :
    ((setValue st v).2.complete == shouldAnnounce before true v st.max) = true ∧
    (setValue st v).1.completed =
      announcedSince (⟨true, true, (setValue st v).1.value, st.max, (setValue st v).1.max,
        (setValue st v).2.complete⟩ :: before) := by
  simp only [setValue, shouldAnnounce, announcedSince, ← hinv]
  by_cases h : v < st.max
  · have h' : ¬ v ≥ st.max := by omega
    simp [h, h']
  · have h' : v ≥ st.max := by omega
    cases st.completed <;> simp [h, h']

theorem rstep_obs (st : RState) (op : ROp) (before : List RObs)
    (hinv : st.completed = announcedSince before) :
    ((obsOf (st, op, (rstep st op).1, (rstep st op).2)).announced ==
        shouldAnnounce before (obsOf (st, op, (rstep st op).1, (rstep st op).2)).valueUpdate
          (obsOf (st, op, (rstep st op).1, (rstep st op).2)).value
          (obsOf (st, op, (rstep st op).1, (rstep st op).2)).maxBefore) = true ∧
    (rstep st op).1.completed =
      announcedSince (obsOf (st, op, (rstep st op).1, (rstep st op).2) :: before) := by
  cases op with
  | increment => exact setValue_obs st _ before hinv
  | setValue v => exact setValue_obs st _ before hinv
  | setComplete => exact setValue_obs st _ before hinv
  | setMax m =>
    simp only [obsOf, rstep, shouldAnnounce, announcedSince, ← hinv]
    by_cases h : m > st.max <;> simp [h]
  | reset m =>
    cases m with
    | none =>
      simp only [obsOf, rstep, shouldAnnounce, announcedSince, ← hinv]
      by_cases h : (0 : Int) < st.max <;> simp [h]
    | some m =>
      simp only [obsOf, rstep, shouldAnnounce, announcedSince, ← hinv]
      by_cases h : (0 : Int) < m <;> by_cases h' : m > st.max <;> simp [h, h']

theorem announceOK_run (ops : List ROp) : ∀ (st : RState) (before : List RObs),
    st.completed = announcedSince before →
    announceOK before ((rrun st ops).map obsOf) = true := by
  induction ops with
  | nil => intros; rfl
  | cons op ops ih =>
    intro st before hinv
    obtain ⟨h1, h2⟩ := rstep_obs st op before hinv
    simp only [rrun, List.map_cons, announceOK, Bool.and_eq_true]
    exact ⟨h1, ih _ _ h2⟩

theorem reporter_announce_ok (ops : List ROp) :
    announceOK [] ((rrun RState.init ops).map obsOf) = true :=
  announceOK_run ops RState.init [] rfl

end PhyVerif.C19.Lemmas
