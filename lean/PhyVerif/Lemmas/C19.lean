import PhyVerif.Model.C19
import PhyVerif.Spec.C19
/-! Helper lemmas and full proofs for C19. Statements: `Props/C19.lean`. -/
namespace PhyVerif.C19.Lemmas
open PhyVerif PhyVerif.C19

theorem emit_outcomes (ops : List EOp) (h : WellNested ops 0) :
    erun EState.init ops = emitsSpec [] ops := by
  sorry

theorem silent_restores (ops : List EOp) (h : WellNested ops 0) :
    (erunState EState.init ops).silent = (decide ((depthFlag ops).1 > 0) || (depthFlag ops).2) := by
  sorry

theorem silenced_emit_none (st : EState) (e s : Nat) (single : Bool) (h : st.silent = true) :
    emit st e s single = ⟨[], .none⟩ := by
  sorry

theorem emit_eq_spec (st : EState) (e s : Nat) (single : Bool) (h : st.silent = false) :
    emit st e s single = emitSpec st.cbs e s single := by
  sorry

theorem reporter_announce_ok (ops : List ROp) :
    announceOK [] ((rrun RState.init ops).map obsOf) = true := by
  sorry

end PhyVerif.C19.Lemmas
