import PhyVerif.Model.C18c
import PhyVerif.Spec.C18c
import PhyVerif.Lemmas.C18
/-! Proofs for the character-level table model of C18 (`Model/C18c.lean`). Statements: `Props/C18.lean`. -/
namespace PhyVerif.C18.Lemmas
open PhyVerif PhyVerif.C18

/-! ### csv: one record written then read -/

/-- what the reader returns after a field that is followed by `tail` (nothing, or the delimiter and
the rest of the line) -/
def afterField (d : Char) : Str → List Str
  | [] => []
  | _ :: rest => pStartField d rest

/-- `tail` is the end of the line or starts with the delimiter -/
def FieldEnd (d : Char) (tail : Str) : Prop := tail = [] ∨ ∃ rest, tail = d :: rest

theorem consHead_cons (c : Char) (f : Str) (fs : List Str) : consHead c (f :: fs) = (c :: f) :: fs := rfl

theorem pQuoteInQuoted_end (d : Char) (hd : d ≠ '"') (tail : Str) (ht : FieldEnd d tail) :
    pQuoteInQuoted d tail = [] :: afterField d tail := by
  rcases ht with rfl | ⟨rest, rfl⟩
  · simp [pQuoteInQuoted, afterField]
  · simp [pQuoteInQuoted, afterField, hd]

theorem pInQuoted_doubleQuotes (d : Char) (hd : d ≠ '"') (tail : Str) (ht : FieldEnd d tail) :
    ∀ s : Str, pInQuoted d (doubleQuotes s ++ '"' :: tail) = s :: afterField d tail
  | [] => by simp [doubleQuotes, pInQuoted, pQuoteInQuoted_end d hd tail ht]
  | c :: s => by
    have ih := pInQuoted_doubleQuotes d hd tail ht s
    by_cases hc : c = '"'
    · subst hc
      simp [doubleQuotes, pInQuoted, pQuoteInQuoted, ih, consHead_cons]
    · simp [doubleQuotes, pInQuoted, hc, ih, consHead_cons]

theorem needsQuote_cons (d c : Char) (s : Str) :
    needsQuote d (c :: s) = ((c == d || c == '"' || c == '\r' || c == '\n') || needsQuote d s) := by
  simp [needsQuote]

theorem pInField_plain (d : Char) (tail : Str) (ht : FieldEnd d tail) :
    ∀ s : Str, needsQuote d s = false → pInField d (s ++ tail) = s :: afterField d tail
  | [], _ => by
    rcases ht with rfl | ⟨rest, rfl⟩
    · simp [pInField, afterField]
    · simp [pInField, afterField]
  | c :: s, h => by
    rw [needsQuote_cons] at h
    simp only [Bool.or_eq_false_iff, beq_eq_false_iff_ne] at h
    have ih := pInField_plain d tail ht s h.2
    simp [pInField, h.1.1.1.1, ih, consHead_cons]

/-- a written field followed by the end of the line or by the delimiter is read back as itself -/
theorem pStartField_quoteField (d : Char) (hd : d ≠ '"') (tail : Str) (ht : FieldEnd d tail) (s : Str) :
    pStartField d (quoteField d s ++ tail) = s :: afterField d tail := by
  unfold quoteField
  by_cases hq : needsQuote d s = true
  · simp only [hq, if_true, List.cons_append, List.append_assoc, List.singleton_append]
    simp [pStartField, pInQuoted_doubleQuotes d hd tail ht s]
  · have hq' : needsQuote d s = false := by simpa using hq
    simp only [hq', Bool.false_eq_true, if_false]
    cases s with
    | nil =>
      rcases ht with rfl | ⟨rest, rfl⟩
      · simp [pStartField, afterField]
      · simp [pStartField, afterField, hd]
    | cons c s =>
      rw [needsQuote_cons] at hq'
      simp only [Bool.or_eq_false_iff, beq_eq_false_iff_ne] at hq'
      have := pInField_plain d tail ht s hq'.2
      simp [pStartField, hq'.1.1.1.1, hq'.1.1.1.2, this, consHead_cons]

theorem pStartField_joinFields (d : Char) (hd : d ≠ '"') :
    ∀ (f : Str) (fs : List Str), pStartField d (joinFields d (f :: fs)) = f :: fs
  | f, [] => by
    have := pStartField_quoteField d hd [] (Or.inl rfl) f
    simpa [joinFields, afterField] using this
  | f, g :: fs => by
    have ih := pStartField_joinFields d hd g fs
    have := pStartField_quoteField d hd (d :: joinFields d (g :: fs)) (Or.inr ⟨_, rfl⟩) f
    simpa [joinFields, afterField, ih] using this

theorem quoteField_ne_nil (d : Char) (s : Str) (hs : s ≠ []) : quoteField d s ≠ [] := by
  unfold quoteField
  split
  · simp
  · exact hs

theorem joinFields_ne_nil (d : Char) : ∀ (f : Str) (fs : List Str), (f :: fs) ≠ [[]] → joinFields d (f :: fs) ≠ []
  | f, [], h => by
    have : f ≠ [] := fun h0 => h (by rw [h0])
    simpa [joinFields] using quoteField_ne_nil d f this
  | f, g :: fs, _ => by simp [joinFields]

theorem csvParseLine_of_ne_nil (d : Char) (l : Str) (h : l ≠ []) : csvParseLine d l = pStartField d l := by
  cases l with
  | nil => exact absurd rfl h
  | cons c cs => rfl

/-- csv transport contract, proved for the model: a record written by the writer is read back by the
reader as the same fields — ANY field contents (delimiters, quotes, spaces, empty fields, a single
empty field, no field at all) as long as the delimiter is not the quote character -/
theorem csv_line_roundtrip (d : Char) (hd : d ≠ '"') (fs : List Str) :
    csvParseLine d (csvRow d fs) = fs := by
  unfold csvRow
  by_cases h1 : fs = [[]]
  · subst h1
    simp [csvParseLine, pStartField, pInQuoted, pQuoteInQuoted]
  · rw [if_neg h1]
    cases fs with
    | nil => rfl
    | cons f fs =>
      rw [csvParseLine_of_ne_nil d _ (joinFields_ne_nil d f fs h1)]
      exact pStartField_joinFields d hd f fs

/-! ### the text layer -/

theorem universalNewlines_line (rest : Str) : ∀ (l : Str) (b : Bool), NoBreak l →
    universalNewlines b (l ++ '\r' :: '\n' :: rest) = l ++ '\n' :: universalNewlines false rest
  | [], b, _ => by simp [universalNewlines]
  | c :: l, b, h => by
    have hc := h c List.mem_cons_self
    have ih := universalNewlines_line rest l false (fun x hx => h x (List.mem_cons_of_mem _ hx))
    simp [universalNewlines, hc.1, hc.2, ih]

theorem universalNewlines_lines : ∀ (ls : List Str), (∀ l ∈ ls, NoBreak l) →
    universalNewlines false (ls.flatMap fun l => l ++ ['\r', '\n']) = ls.flatMap fun l => l ++ ['\n']
  | [], _ => by simp [universalNewlines]
  | l :: ls, h => by
    have ih := universalNewlines_lines ls (fun x hx => h x (List.mem_cons_of_mem _ hx))
    simp only [List.flatMap_cons, List.append_assoc, List.cons_append, List.nil_append]
    rw [universalNewlines_line _ l false (h l List.mem_cons_self), ih]

theorem splitLines_line (rest : Str) : ∀ (l : Str), (∀ c ∈ l, c ≠ '\n') →
    splitLines (l ++ '\n' :: rest) = l :: splitLines rest
  | [], _ => by simp [splitLines]
  | c :: l, h => by
    have hc := h c List.mem_cons_self
    have ih := splitLines_line rest l (fun x hx => h x (List.mem_cons_of_mem _ hx))
    simp [splitLines, hc, ih, consHead_cons]

theorem splitLines_lines : ∀ (ls : List Str), (∀ l ∈ ls, NoBreak l) →
    splitLines (ls.flatMap fun l => l ++ ['\n']) = ls
  | [], _ => by simp [splitLines]
  | l :: ls, h => by
    have ih := splitLines_lines ls (fun x hx => h x (List.mem_cons_of_mem _ hx))
    simp only [List.flatMap_cons, List.append_assoc, List.cons_append, List.nil_append]
    rw [splitLines_line _ l (fun c hc => (h l List.mem_cons_self c hc).2), ih]

/-- lines without line break, written with `\r\n` terminators and read back in universal-newline mode,
are the same lines -/
theorem fileLines_roundtrip (ls : List Str) (h : ∀ l ∈ ls, NoBreak l) :
    fileLines (ls.flatMap fun l => l ++ ['\r', '\n']) = ls := by
  unfold fileLines
  rw [universalNewlines_lines ls h, splitLines_lines ls h]

/-! ### characters of a written record -/

theorem mem_doubleQuotes {c : Char} : ∀ {s : Str}, c ∈ doubleQuotes s → c ∈ s ∨ c = '"'
  | [], h => by simp [doubleQuotes] at h
  | x :: s, h => by
    unfold doubleQuotes at h
    split at h
    · rename_i hx
      simp only [List.mem_cons] at h
      rcases h with h | h | h
      · exact Or.inr h
      · exact Or.inr h
      · rcases mem_doubleQuotes h with h | h
        · exact Or.inl (List.mem_cons_of_mem _ h)
        · exact Or.inr h
    · simp only [List.mem_cons] at h
      rcases h with h | h
      · exact Or.inl (by rw [h]; exact List.mem_cons_self)
      · rcases mem_doubleQuotes h with h | h
        · exact Or.inl (List.mem_cons_of_mem _ h)
        · exact Or.inr h

theorem mem_quoteField {d c : Char} {s : Str} (h : c ∈ quoteField d s) : c ∈ s ∨ c = '"' := by
  unfold quoteField at h
  split at h
  · simp only [List.mem_cons, List.mem_append, List.mem_singleton] at h
    rcases h with h | h | h
    · exact Or.inr h
    · exact mem_doubleQuotes h
    · rcases h with h | h
      · exact Or.inr h
      · simp at h
  · exact Or.inl h

theorem mem_joinFields {d c : Char} : ∀ {fs : List Str}, c ∈ joinFields d fs → (∃ f ∈ fs, c ∈ f) ∨ c = '"' ∨ c = d
  | [], h => by simp [joinFields] at h
  | [f], h => by
    rcases mem_quoteField (by simpa [joinFields] using h) with h | h
    · exact Or.inl ⟨f, List.mem_cons_self, h⟩
    · exact Or.inr (Or.inl h)
  | f :: g :: fs, h => by
    simp only [joinFields, List.mem_append, List.mem_cons] at h
    rcases h with h | h | h
    · rcases mem_quoteField h with h | h
      · exact Or.inl ⟨f, List.mem_cons_self, h⟩
      · exact Or.inr (Or.inl h)
    · exact Or.inr (Or.inr h)
    · rcases mem_joinFields h with ⟨x, hx, hc⟩ | h
      · exact Or.inl ⟨x, List.mem_cons_of_mem _ hx, hc⟩
      · exact Or.inr h

theorem mem_csvRow {d c : Char} {fs : List Str} (h : c ∈ csvRow d fs) : (∃ f ∈ fs, c ∈ f) ∨ c = '"' ∨ c = d := by
  unfold csvRow at h
  split at h
  · simp only [List.mem_cons] at h
    rcases h with h | h | h
    · exact Or.inr (Or.inl h)
    · exact Or.inr (Or.inl h)
    · simp at h
  · exact mem_joinFields h

theorem noBreak_csvRow (d : Char) (hd : d ≠ '\r' ∧ d ≠ '\n') (fs : List Str) (h : ∀ f ∈ fs, NoBreak f) :
    NoBreak (csvRow d fs) := by
  intro c hc
  rcases mem_csvRow hc with ⟨f, hf, hcf⟩ | rfl | rfl
  · exact h f hf c hcf
  · exact ⟨by decide, by decide⟩
  · exact hd

/-- a record of at least two fields contains the delimiter -/
theorem delim_mem_joinFields (d : Char) (f g : Str) (fs : List Str) : d ∈ joinFields d (f :: g :: fs) := by
  simp [joinFields]

/-- whole files: records without line break written by the csv writer are read back by the csv reader -/
theorem csv_file_roundtrip (d : Char) (hq : d ≠ '"') (hd : d ≠ '\r' ∧ d ≠ '\n') (rows : List (List Str))
    (h : ∀ r ∈ rows, ∀ f ∈ r, NoBreak f) : csvRead d (csvWrite d rows) = rows := by
  unfold csvRead csvWrite
  have : (rows.flatMap fun r => csvRow d r ++ ['\r', '\n']) =
      ((rows.map (csvRow d)).flatMap fun l => l ++ ['\r', '\n']) := by
    simp [List.flatMap_map]
  rw [this, fileLines_roundtrip _ (by
    intro l hl
    obtain ⟨r, hr, rfl⟩ := List.mem_map.mp hl
    exact noBreak_csvRow d hd r (h r hr))]
  rw [List.map_map]
  conv => rhs; rw [← List.map_id rows]
  apply List.map_congr_left
  intro r _
  exact csv_line_roundtrip d hq r

end PhyVerif.C18.Lemmas
