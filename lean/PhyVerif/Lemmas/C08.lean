import PhyVerif.Model.C08
import PhyVerif.Spec.C08
import PhyVerif.Spec.C07
import PhyVerif.Lemmas.C07
import PhyVerif.Lemmas.C17
/-! Helper lemmas and full proofs for C08. Statements: `Props/C08.lean`. -/
namespace PhyVerif.C08.Lemmas
open PhyVerif PhyVerif.C09 PhyVerif.C08

/-! ### general list facts -/

theorem getD_map_range {α : Type} (f : Nat → α) (n i : Nat) (d : α) (h : i < n) :
    ((List.range n).map f).getD i d = f i := by
  rw [List.getD_eq_getElem?_getD, List.getElem?_map, List.getElem?_range h]
  rfl

theorem mem_zip_iff (st sc : List Nat) (hlen : st.length = sc.length) (t c : Nat) :
    (t, c) ∈ st.zip sc ↔ ∃ i, i < st.length ∧ st.getD i 0 = t ∧ sc.getD i 0 = c := by
  rw [List.mem_iff_getElem?]
  constructor
  · rintro ⟨i, hi⟩
    rw [List.getElem?_zip_eq_some] at hi
    obtain ⟨h1, h2⟩ := hi
    have hlt : i < st.length := by
      rcases Nat.lt_or_ge i st.length with h | h
      · exact h
      · rw [List.getElem?_eq_none h] at h1; cases h1
    exact ⟨i, hlt, by rw [List.getD_eq_getElem?_getD, h1]; rfl,
      by rw [List.getD_eq_getElem?_getD, h2]; rfl⟩
  · rintro ⟨i, hi, h1, h2⟩
    refine ⟨i, ?_⟩
    rw [List.getElem?_zip_eq_some]
    have hi' : i < sc.length := hlen ▸ hi
    rw [List.getD_eq_getElem?_getD, List.getElem?_eq_getElem hi] at h1
    rw [List.getD_eq_getElem?_getD, List.getElem?_eq_getElem hi'] at h2
    simp only [Option.getD_some] at h1 h2
    exact ⟨by rw [List.getElem?_eq_getElem hi, h1], by rw [List.getElem?_eq_getElem hi', h2]⟩

/-! ### mergeMap -/

/-- the distinct cluster ids of the spikes of template `t` -/
def mapping (st sc : List Nat) (t : Nat) : List Nat :=
  Np.unique (((List.range st.length).filter fun i => st.getD i 0 == t).map
    fun i => Int.ofNat (sc.getD i 0))

theorem mergeMap_eq (st sc : List Nat) :
    mergeMap st sc = (Np.unique (st.map Int.ofNat)).foldl (fun acc t =>
      (mapping st sc t).foldl (fun a n => a.set n (a.getD n [] ++ [t])) acc)
      (List.replicate (sc.foldl max 0 + 1) []) := rfl

theorem mem_mapping (st sc : List Nat) (t c : Nat) :
    c ∈ mapping st sc t ↔ ∃ i, i < st.length ∧ st.getD i 0 = t ∧ sc.getD i 0 = c := by
  unfold mapping
  rw [(PhyVerif.C07.Lemmas.unique_spec _).2 c]
  simp only [List.mem_map, List.mem_filter, List.mem_range, beq_iff_eq, Int.ofNat_eq_natCast,
    Int.natCast_inj]
  constructor
  · rintro ⟨i, ⟨h1, h2⟩, h3⟩; exact ⟨i, h1, h2, h3⟩
  · rintro ⟨i, h1, h2, h3⟩; exact ⟨i, ⟨h1, h2⟩, h3⟩

theorem mapping_nodup (st sc : List Nat) (t : Nat) : (mapping st sc t).Nodup :=
  PhyVerif.C17.Lemmas.nodup_of_pairwise_lt _ (PhyVerif.C07.Lemmas.unique_spec _).1

theorem inner_fold (t : Nat) (m : List Nat) (hm : m.Nodup) (a : List (List Nat))
    (hb : ∀ n ∈ m, n < a.length) :
    (m.foldl (fun a n => a.set n (a.getD n [] ++ [t])) a).length = a.length ∧
    ∀ c, (m.foldl (fun a n => a.set n (a.getD n [] ++ [t])) a).getD c [] =
      if c ∈ m then a.getD c [] ++ [t] else a.getD c [] := by
  induction m generalizing a with
  | nil => simp
  | cons n ns ih =>
    rw [List.nodup_cons] at hm
    simp only [List.foldl_cons]
    obtain ⟨h1, h2⟩ := ih hm.2 (a.set n (a.getD n [] ++ [t])) (by
      intro k hk; rw [List.length_set]; exact hb k (List.mem_cons_of_mem _ hk))
    refine ⟨by rw [h1, List.length_set], fun c => ?_⟩
    rw [h2]
    by_cases hcn : c = n
    · subst hcn
      have hlt : c < a.length := hb c (by simp)
      simp [hm.1, List.getD_eq_getElem?_getD, List.getElem?_set_self hlt]
    · have hne : n ≠ c := fun h => hcn h.symm
      simp [hcn, List.getD_eq_getElem?_getD, List.getElem?_set_ne hne]

theorem outer_fold (mp : Nat → List Nat) (nC : Nat) (L : List Nat)
    (hnd : ∀ t ∈ L, (mp t).Nodup) (hb : ∀ t ∈ L, ∀ n ∈ mp t, n < nC)
    (acc : List (List Nat)) (hacc : acc.length = nC) :
    (L.foldl (fun acc t => (mp t).foldl (fun a n => a.set n (a.getD n [] ++ [t])) acc) acc).length
      = nC ∧
    ∀ c, (L.foldl (fun acc t => (mp t).foldl (fun a n => a.set n (a.getD n [] ++ [t])) acc)
      acc).getD c [] = acc.getD c [] ++ L.filter (fun t => decide (c ∈ mp t)) := by
  induction L generalizing acc with
  | nil => simp [hacc]
  | cons t ts ih =>
    simp only [List.foldl_cons]
    obtain ⟨i1, i2⟩ := inner_fold t (mp t) (hnd t (by simp)) acc (by
      intro n hn; rw [hacc]; exact hb t (by simp) n hn)
    obtain ⟨h1, h2⟩ := ih (fun u hu => hnd u (List.mem_cons_of_mem _ hu))
      (fun u hu => hb u (List.mem_cons_of_mem _ hu)) _ (i1.trans hacc)
    refine ⟨h1, fun c => ?_⟩
    rw [h2, i2, List.filter_cons]
    by_cases hc : c ∈ mp t <;> simp [hc]

theorem mem_sc_le (sc : List Nat) (c : Nat) (h : c ∈ sc) : c ≤ sc.foldl max 0 :=
  (PhyVerif.C07.Lemmas.le_foldl_max sc 0).2 c h

theorem mem_templatesOf (st sc : List Nat) (c t : Nat) :
    t ∈ templatesOf st sc c ↔ (t, c) ∈ st.zip sc := by
  unfold templatesOf
  rw [(PhyVerif.C07.Lemmas.unique_spec _).2 t]
  simp only [List.mem_map, List.mem_filter, beq_iff_eq, Int.ofNat_eq_natCast, Int.natCast_inj]
  constructor
  · rintro ⟨⟨a, b⟩, ⟨h1, h2⟩, h3⟩
    simp only at h2 h3; subst h2; subst h3; exact h1
  · intro h; exact ⟨(t, c), ⟨h, rfl⟩, rfl⟩

theorem templatesOf_pairwise (st sc : List Nat) (c : Nat) :
    (templatesOf st sc c).Pairwise (· < ·) :=
  (PhyVerif.C07.Lemmas.unique_spec _).1

/-- members of the zipped assignment, without any length condition -/
theorem mem_zip_imp (st sc : List Nat) (t c : Nat) (h : (t, c) ∈ st.zip sc) :
    ∃ i, i < st.length ∧ st.getD i 0 = t ∧ sc.getD i 0 = c := by
  rw [List.mem_iff_getElem?] at h
  obtain ⟨i, hi⟩ := h
  rw [List.getElem?_zip_eq_some] at hi
  obtain ⟨h1, h2⟩ := hi
  have hlt : i < st.length := by
    rcases Nat.lt_or_ge i st.length with h | h
    · exact h
    · rw [List.getElem?_eq_none h] at h1; cases h1
  exact ⟨i, hlt, by rw [List.getD_eq_getElem?_getD, h1]; rfl,
    by rw [List.getD_eq_getElem?_getD, h2]; rfl⟩

/-- the table for every index as a filter of the distinct templates, and its length — for
assignment arrays of ANY lengths -/
theorem mergeMap_getD_gen (st sc : List Nat) (c : Nat) :
    (mergeMap st sc).getD c [] =
      (Np.unique (st.map Int.ofNat)).filter (fun t => decide (c ∈ mapping st sc t)) ∧
    (mergeMap st sc).length = sc.foldl max 0 + 1 := by
  rw [mergeMap_eq]
  obtain ⟨h1, h2⟩ := outer_fold (mapping st sc) (sc.foldl max 0 + 1) (Np.unique (st.map Int.ofNat))
    (fun t _ => mapping_nodup st sc t)
    (fun t _ n hn => by
      obtain ⟨i, _, _, h3⟩ := (mem_mapping st sc t n).1 hn
      by_cases hi' : i < sc.length
      · have : n ∈ sc := by
          rw [← h3, List.getD_eq_getElem?_getD, List.getElem?_eq_getElem hi']
          exact List.getElem_mem hi'
        have := mem_sc_le sc n this
        omega
      · rw [List.getD_eq_getElem?_getD, List.getElem?_eq_none (by omega)] at h3
        simp only [Option.getD_none] at h3
        omega)
    (List.replicate (sc.foldl max 0 + 1) []) (by simp)
  refine ⟨?_, h1⟩
  rw [h2 c]
  have hrep : (List.replicate (sc.foldl max 0 + 1) ([] : List Nat)).getD c [] = [] := by
    rw [List.getD_eq_getElem?_getD, List.getElem?_replicate]; split <;> rfl
  rw [hrep, List.nil_append]

/-- every template of cluster `c` is listed in the table (any lengths) -/
theorem mem_mergeMap_of_mem_templatesOf (st sc : List Nat) (c t : Nat) (h : t ∈ templatesOf st sc c) :
    t ∈ (mergeMap st sc).getD c [] := by
  rw [mem_templatesOf] at h
  obtain ⟨i, hi, h1, h2⟩ := mem_zip_imp st sc t c h
  rw [(mergeMap_getD_gen st sc c).1, List.mem_filter, (PhyVerif.C07.Lemmas.unique_spec _).2 t,
    decide_eq_true_eq, mem_mapping]
  refine ⟨?_, i, hi, h1, h2⟩
  show Int.ofNat t ∈ List.map Int.ofNat st
  rw [List.mem_map]
  exact ⟨t, (List.of_mem_zip h).1, rfl⟩

/-- the table for every index (also beyond the largest id) and its length -/
theorem mergeMap_getD (st sc : List Nat) (hlen : st.length = sc.length) (c : Nat) :
    (mergeMap st sc).getD c [] = templatesOf st sc c ∧
    (mergeMap st sc).length = sc.foldl max 0 + 1 := by
  obtain ⟨h2, h1⟩ := mergeMap_getD_gen st sc c
  refine ⟨?_, h1⟩
  rw [h2]
  apply PhyVerif.C17.Lemmas.eq_of_pairwise_lt_of_mem_iff
  · exact List.Pairwise.filter _ (PhyVerif.C07.Lemmas.unique_spec _).1
  · exact templatesOf_pairwise st sc c
  · intro t
    rw [mem_templatesOf, mem_zip_iff st sc hlen, List.mem_filter,
      (PhyVerif.C07.Lemmas.unique_spec _).2 t, decide_eq_true_eq, mem_mapping]
    constructor
    · exact fun h => h.2
    · rintro ⟨i, hi, h1, h2⟩
      refine ⟨?_, i, hi, h1, h2⟩
      show Int.ofNat t ∈ List.map Int.ofNat st
      rw [List.mem_map]
      refine ⟨t, ?_, rfl⟩
      rw [← h1, List.getD_eq_getElem?_getD, List.getElem?_eq_getElem hi]
      exact List.getElem_mem hi

theorem mergeMap_spec (st sc : List Nat) (hlen : st.length = sc.length) (c : Nat) :
    (mergeMap st sc).getD c [] = templatesOf st sc c ∧ (mergeMap st sc).length = sc.foldl max 0 + 1 :=
  mergeMap_getD st sc hlen c

theorem nanIdx_spec (st sc : List Nat) (hlen : st.length = sc.length) (c : Nat) :
    c ∈ nanIdx (mergeMap st sc) ↔ (c ≤ sc.foldl max 0 ∧ c ∉ sc) := by
  unfold nanIdx
  obtain ⟨h1, h2⟩ := mergeMap_getD st sc hlen c
  rw [List.mem_filter, List.mem_range, h1, h2, List.isEmpty_iff]
  have key : templatesOf st sc c = [] ↔ c ∉ sc := by
    rw [List.eq_nil_iff_forall_not_mem]
    constructor
    · intro h hc
      obtain ⟨i, hi, hic⟩ := List.mem_iff_getElem.1 hc
      have hi' : i < st.length := hlen ▸ hi
      apply h (st.getD i 0)
      rw [mem_templatesOf, mem_zip_iff st sc hlen]
      refine ⟨i, hi', rfl, ?_⟩
      rw [List.getD_eq_getElem?_getD, List.getElem?_eq_getElem hi]; exact hic
    · intro h t ht
      rw [mem_templatesOf] at ht
      exact h (List.of_mem_zip ht).2
  rw [key]
  constructor
  · rintro ⟨a, b⟩; exact ⟨by omega, b⟩
  · rintro ⟨a, b⟩; exact ⟨by omega, b⟩

/-! ### waveforms -/

/-- a cluster with at least one template has a spike, so its id is at most the largest id -/
theorem le_max_of_mem_templatesOf (st sc : List Nat) (c t : Nat) (h : t ∈ templatesOf st sc c) :
    c ≤ sc.foldl max 0 := by
  rw [mem_templatesOf] at h
  exact mem_sc_le sc c (List.of_mem_zip h).2

theorem single_template_unchanged (W : List Mat) (chans : List (List Nat)) (st sc : List Nat)
    (hlen : st.length = sc.length) (ns nc c t : Nat)
    (h1 : templatesOf st sc c = [t]) :
    (clusterWaveforms W chans st sc ns nc).getD c [] = W.getD t [] := by
  have hc : c ≤ sc.foldl max 0 := le_max_of_mem_templatesOf st sc c t (by rw [h1]; simp)
  obtain ⟨hm1, hm2⟩ := mergeMap_getD st sc hlen c
  have hclt : c < (mergeMap st sc).length := by omega
  unfold clusterWaveforms
  simp only []
  rw [getD_map_range _ _ _ _ hclt, hm1, h1]

theorem templateCounts_length (st sc : List Nat) (nt c : Nat) :
    (templateCounts st sc nt c).length = nt := by simp [templateCounts]

theorem templateCounts_getD (st sc : List Nat) (nt c t : Nat) (h : t < nt) :
    (templateCounts st sc nt c).getD t 0 = countOf st sc t c := by
  unfold templateCounts countOf
  exact getD_map_range _ _ _ _ h

theorem countOf_ne_zero_iff (st sc : List Nat) (t c : Nat) :
    countOf st sc t c ≠ 0 ↔ (t, c) ∈ st.zip sc := by
  unfold countOf
  rw [Ne, List.length_eq_zero_iff, List.filter_eq_nil_iff]
  constructor
  · intro h
    apply Classical.byContradiction
    intro hn
    apply h
    rintro ⟨a, b⟩ hab
    simp only [Bool.and_eq_true, beq_iff_eq, not_and]
    rintro rfl rfl
    exact hn hab
  · intro h hn
    exact hn (t, c) h (by simp)

theorem ids_eq (st sc : List Nat) (n c : Nat) (hst : ∀ t ∈ st, t < n) :
    ((List.range n).filter fun t => (templateCounts st sc n c).getD t 0 != 0) =
      templatesOf st sc c := by
  apply PhyVerif.C17.Lemmas.eq_of_pairwise_lt_of_mem_iff
  · exact List.Pairwise.filter _ List.pairwise_lt_range
  · exact templatesOf_pairwise st sc c
  · intro t
    rw [List.mem_filter, List.mem_range, mem_templatesOf, bne_iff_ne]
    constructor
    · rintro ⟨h1, h2⟩
      rw [templateCounts_getD _ _ _ _ _ h1] at h2
      exact (countOf_ne_zero_iff st sc t c).1 h2
    · intro h
      have h1 : t < n := hst t (List.of_mem_zip h).1
      rw [templateCounts_getD _ _ _ _ _ h1]
      exact ⟨h1, (countOf_ne_zero_iff st sc t c).2 h⟩

theorem getD_map' {α β : Type} (f : α → β) (l : List α) (i : Nat) (d : α) :
    (l.map f).getD i (f d) = f (l.getD i d) := by
  rw [List.getD_eq_getElem?_getD, List.getD_eq_getElem?_getD, List.getElem?_map]
  cases l[i]? <;> rfl

theorem onChannels_getD (M : Mat) (chs : List Nat) (s ch : Nat) :
    ((onChannels M chs).getD s []).getD ch 0 =
      if chs.contains ch then (M.getD s []).getD ch 0 else 0 := by
  have e : ∀ row : List Rat, ((List.range row.length).map fun c =>
      if chs.contains c then row.getD c 0 else 0).getD ch 0 =
      if chs.contains ch then row.getD ch 0 else 0 := by
    intro row
    rcases Nat.lt_or_ge ch row.length with h | h
    · rw [getD_map_range _ _ _ _ h]
    · rw [List.getD_eq_getElem?_getD, List.getElem?_eq_none (by simpa using h),
        List.getD_eq_getElem?_getD (l := row), List.getElem?_eq_none h]
      simp
  unfold onChannels
  have e2 : (M.map fun row : List Rat => (List.range row.length).map fun c =>
      if chs.contains c then row.getD c 0 else 0).getD s [] =
      (fun row : List Rat => (List.range row.length).map fun c =>
      if chs.contains c then row.getD c 0 else 0) (M.getD s []) := getD_map' _ M s []
  rw [e2]
  exact e _

theorem getD_map_idxOf {β : Type} (l : List Nat) (g : Nat → β) (x : Nat) (d : β) (h : x ∈ l) :
    (l.map g).getD (l.idxOf x) d = g x := by
  have hlt := List.idxOf_lt_length_iff.2 h
  rw [List.getD_eq_getElem?_getD, List.getElem?_map, List.getElem?_eq_getElem hlt,
    List.getElem_idxOf hlt]
  rfl

/-! ### argmax -/

theorem foldl_max_mem (l : List Nat) (a : Nat) : l.foldl max a = a ∨ l.foldl max a ∈ l := by
  induction l generalizing a with
  | nil => simp
  | cons x xs ih =>
    simp only [List.foldl_cons, List.mem_cons]
    rcases ih (max a x) with h | h
    · rw [h]
      rcases Nat.le_total a x with h' | h'
      · right; left; omega
      · left; omega
    · exact Or.inr (Or.inr h)

theorem foldl_max0_mem (l : List Nat) (hne : l ≠ []) : l.foldl max 0 ∈ l := by
  rcases foldl_max_mem l 0 with h | h
  · rw [h]
    cases l with
    | nil => exact absurd rfl hne
    | cons x xs =>
      have h2 := (PhyVerif.C07.Lemmas.le_foldl_max (x :: xs) 0).2 x (by simp)
      rw [h] at h2
      have : x = 0 := by omega
      simp [this]
  · exact h

theorem argmaxNat_spec (l : List Nat) (hne : l ≠ []) :
    argmaxNat l < l.length ∧ ∀ t, l.getD t 0 ≤ l.getD (argmaxNat l) 0 := by
  unfold argmaxNat
  have hm := foldl_max0_mem l hne
  have hlt := List.idxOf_lt_length_iff.2 hm
  refine ⟨hlt, fun t => ?_⟩
  rw [List.getD_eq_getElem?_getD (i := List.idxOf _ _), List.getElem?_eq_getElem hlt,
    List.getElem_idxOf hlt]
  simp only [Option.getD_some]
  rw [List.getD_eq_getElem?_getD]
  rcases Nat.lt_or_ge t l.length with h | h
  · rw [List.getElem?_eq_getElem h]
    exact (PhyVerif.C07.Lemmas.le_foldl_max l 0).2 _ (List.getElem_mem h)
  · rw [List.getElem?_eq_none h]; simp

theorem dominant_has_max_count (st sc : List Nat) (nt c : Nat) (hnt : 0 < nt) :
    let cnt := templateCounts st sc nt c
    argmaxNat cnt < nt ∧ ∀ t, t < nt → cnt.getD t 0 ≤ cnt.getD (argmaxNat cnt) 0 := by
  intro cnt
  have hl : cnt.length = nt := templateCounts_length st sc nt c
  have hne : cnt ≠ [] := by
    intro h; rw [h] at hl; simp at hl; omega
  obtain ⟨h1, h2⟩ := argmaxNat_spec cnt hne
  exact ⟨hl ▸ h1, fun t _ => h2 t⟩

theorem uncurated_identity (W : List Mat) (chans : List (List Nat)) (st : List Nat) (ns nc : Nat) :
    loadClusters W chans st st ns nc = (W, W.length) := by
  unfold loadClusters
  simp

theorem getD_map_range_ge {α : Type} (f : Nat → α) (n i : Nat) (d : α) (h : n ≤ i) :
    ((List.range n).map f).getD i d = d := by
  rw [List.getD_eq_getElem?_getD, List.getElem?_eq_none (by simpa using h)]; rfl

/-- entries outside the `(ns, nc)` shape of a template read as zero -/
theorem W_entry_zero (W : List Mat) (ns nc : Nat)
    (hW : ∀ M ∈ W, M.length = ns ∧ ∀ row ∈ M, row.length = nc) (t s ch : Nat) (ht : t < W.length)
    (h : ¬ (s < ns ∧ ch < nc)) : ((W.getD t []).getD s []).getD ch 0 = 0 := by
  have hM : W.getD t [] ∈ W := by
    rw [List.getD_eq_getElem?_getD, List.getElem?_eq_getElem ht]; exact List.getElem_mem ht
  obtain ⟨hl, hrow⟩ := hW _ hM
  generalize W.getD t [] = M at hl hrow
  by_cases hs : s < M.length
  · have hr : M.getD s [] ∈ M := by
      rw [List.getD_eq_getElem?_getD, List.getElem?_eq_getElem hs]; exact List.getElem_mem hs
    have := hrow _ hr
    rw [List.getD_eq_getElem?_getD (i := ch), List.getElem?_eq_none (by omega)]; rfl
  · rw [List.getD_eq_getElem?_getD (i := s), List.getElem?_eq_none (by omega)]; rfl

theorem weightedMean_zero (W : List Mat) (chans : List (List Nat)) (st sc : List Nat) (c s ch : Nat)
    (hz : ∀ t ∈ templatesOf st sc c, ((W.getD t []).getD s []).getD ch 0 = 0) :
    weightedMean W chans st sc c s ch = 0 := by
  unfold weightedMean
  simp only []
  have e : (templatesOf st sc c).map (fun t => (countOf st sc t c : Rat) *
        (if (chans.getD t []).contains ch then ((W.getD t []).getD s []).getD ch 0 else 0)) =
      (templatesOf st sc c).map (fun _ => (0 : Rat)) := by
    apply List.map_congr_left
    intro t ht
    rw [hz t ht, ite_self, Rat.mul_zero]
  have e0 : ∀ l : List Nat, (l.map fun _ => (0 : Rat)).sum = 0 := by
    intro l
    induction l with
    | nil => rfl
    | cons a l ih => rw [List.map_cons, List.sum_cons, ih, Rat.zero_add]
  rw [e, e0, Rat.div_def, Rat.zero_mul]

theorem multi_template_weighted_mean (W : List Mat) (chans : List (List Nat)) (st sc : List Nat)
    (hst : ∀ t ∈ st, t < W.length) (ns nc c : Nat)
    (hmulti : 2 ≤ (templatesOf st sc c).length)
    (hW : ∀ M ∈ W, M.length = ns ∧ ∀ row ∈ M, row.length = nc)
    (s ch : Nat) :
    (((clusterWaveforms W chans st sc ns nc).getD c []).getD s []).getD ch 0 =
      if (chans.getD (argmaxNat (templateCounts st sc W.length c)) []).contains ch
      then weightedMean W chans st sc c s ch else 0 := by
  -- two distinct templates of the cluster, both listed in the merge map
  obtain ⟨a, b, hab, ha, hb⟩ : ∃ a b, a < b ∧ a ∈ templatesOf st sc c ∧ b ∈ templatesOf st sc c := by
    have hpw := templatesOf_pairwise st sc c
    rcases hT : templatesOf st sc c with _ | ⟨a, _ | ⟨b, r⟩⟩
    · rw [hT] at hmulti; simp at hmulti
    · rw [hT] at hmulti; simp at hmulti
    · rw [hT, List.pairwise_cons] at hpw
      exact ⟨a, b, hpw.1 b (by simp), by simp, by simp⟩
  have hc : c ≤ sc.foldl max 0 := le_max_of_mem_templatesOf st sc c a ha
  have hm2 := (mergeMap_getD_gen st sc c).2
  have hclt : c < (mergeMap st sc).length := by omega
  have hma := mem_mergeMap_of_mem_templatesOf st sc c a ha
  have hmb := mem_mergeMap_of_mem_templatesOf st sc c b hb
  have haW : a < W.length := by
    rw [mem_templatesOf] at ha
    exact hst a (List.of_mem_zip ha).1
  by_cases hin : s < ns ∧ ch < nc
  · obtain ⟨hs, hchn⟩ := hin
    unfold clusterWaveforms
    simp only []
    rw [getD_map_range _ _ _ _ hclt]
    generalize (mergeMap st sc).getD c [] = T at hma hmb
    rcases T with _ | ⟨x, _ | ⟨y, r⟩⟩
    · simp at hma
    · simp at hma hmb; omega
    simp only []
    rw [getD_map_range _ _ _ _ hs, getD_map_range _ _ _ _ hchn]
    have hfst : (clusterMean W chans st sc c).fst =
        chans.getD (argmaxNat (templateCounts st sc W.length c)) [] := rfl
    rw [hfst]
    split
    · rename_i hcont
      have hmem : ch ∈ chans.getD (argmaxNat (templateCounts st sc W.length c)) [] := by
        simpa using hcont
      have hbest : argmaxNat (templateCounts st sc W.length c) < W.length :=
        (dominant_has_max_count st sc W.length c (by omega)).1
      have hns : (W.getD (argmaxNat (templateCounts st sc W.length c)) []).length = ns := by
        rw [List.getD_eq_getElem?_getD, List.getElem?_eq_getElem hbest]
        exact (hW _ (List.getElem_mem hbest)).1
      unfold clusterMean
      simp only []
      rw [hns, getD_map_range _ _ _ _ hs, getD_map_idxOf _ _ _ _ hmem, ids_eq st sc W.length c hst]
      unfold weightedMean
      simp only []
      have hcnt : ∀ t ∈ templatesOf st sc c,
          (templateCounts st sc W.length c).getD t 0 = countOf st sc t c := by
        intro t ht
        rw [mem_templatesOf] at ht
        exact templateCounts_getD _ _ _ _ _ (hst t (List.of_mem_zip ht).1)
      have e1 : (templatesOf st sc c).map (fun t => (templateCounts st sc W.length c).getD t 0) =
          (templatesOf st sc c).map (fun t => countOf st sc t c) :=
        List.map_congr_left hcnt
      have e2 : (templatesOf st sc c).map (fun t =>
            ((templateCounts st sc W.length c).getD t 0 : Rat) *
              (List.getD (onChannels (W.getD t []) (chans.getD t [])) s []).getD ch 0) =
          (templatesOf st sc c).map (fun t => (countOf st sc t c : Rat) *
            (if (chans.getD t []).contains ch then ((W.getD t []).getD s []).getD ch 0 else 0)) := by
        apply List.map_congr_left
        intro t ht
        rw [hcnt t ht, onChannels_getD]
      rw [e1, e2]
    · rfl
  · -- outside the `(ns, nc)` block both sides are zero
    have hR : weightedMean W chans st sc c s ch = 0 := by
      apply weightedMean_zero
      intro t ht
      rw [mem_templatesOf] at ht
      exact W_entry_zero W ns nc hW t s ch (hst t (List.of_mem_zip ht).1) hin
    rw [hR]
    unfold clusterWaveforms
    simp only []
    rw [getD_map_range _ _ _ _ hclt]
    generalize (mergeMap st sc).getD c [] = T at hma hmb
    rcases T with _ | ⟨x, _ | ⟨y, r⟩⟩
    · simp at hma
    · simp at hma hmb; omega
    simp only []
    by_cases hs : s < ns
    · rw [getD_map_range _ _ _ _ hs, getD_map_range_ge _ _ _ _ (by omega)]
      simp
    · rw [getD_map_range_ge _ _ _ _ (by omega)]
      simp

/-- the number of cluster waveform blocks is the declared number of clusters -/
theorem cluster_count_rule (W : List Mat) (chans : List (List Nat)) (st sc : List Nat) (ns nc : Nat) :
    (loadClusters W chans st sc ns nc).1.length = (loadClusters W chans st sc ns nc).2 ∧
    (loadClusters W chans st sc ns nc).2 = if sc = st then W.length else sc.foldl max 0 + 1 := by
  unfold loadClusters
  by_cases h : sc = st
  · simp [h]
  · have hl := (mergeMap_getD_gen st sc 0).2
    simp [h, clusterWaveforms, hl]

end PhyVerif.C08.Lemmas
