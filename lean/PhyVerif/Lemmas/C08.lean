import PhyVerif.Model.C08
import PhyVerif.Spec.C08
/-! Helper lemmas and full proofs for C08. Statements: `Props/C08.lean`. -/
namespace PhyVerif.C08.Lemmas
open PhyVerif PhyVerif.C09 PhyVerif.C08

theorem mergeMap_spec (st sc : List Nat) (hlen : st.length = sc.length) (c : Nat)
    (hc : c ≤ sc.foldl max 0) :
    (mergeMap st sc).getD c [] = templatesOf st sc c ∧ (mergeMap st sc).length = sc.foldl max 0 + 1 := by
  sorry

theorem nanIdx_spec (st sc : List Nat) (hlen : st.length = sc.length) (c : Nat) :
    c ∈ nanIdx (mergeMap st sc) ↔ (c ≤ sc.foldl max 0 ∧ c ∉ sc) := by
  sorry

theorem single_template_unchanged (W : List Mat) (chans : List (List Nat)) (st sc : List Nat)
    (hlen : st.length = sc.length) (ns nc c t : Nat) (hc : c ≤ sc.foldl max 0)
    (h1 : templatesOf st sc c = [t]) :
    (clusterWaveforms W chans st sc ns nc).getD c [] = W.getD t [] := by
  sorry

theorem multi_template_weighted_mean (W : List Mat) (chans : List (List Nat)) (st sc : List Nat)
    (hlen : st.length = sc.length) (hst : ∀ t ∈ st, t < W.length) (ns nc c : Nat)
    (hc : c ≤ sc.foldl max 0) (hmulti : 2 ≤ (templatesOf st sc c).length)
    (hW : ∀ M ∈ W, M.length = ns ∧ ∀ row ∈ M, row.length = nc)
    (hch : ∀ l ∈ chans, l.Nodup ∧ ∀ ch ∈ l, ch < nc) (hcl : chans.length = W.length)
    (s ch : Nat) (hs : s < ns) (hchn : ch < nc) :
    (((clusterWaveforms W chans st sc ns nc).getD c []).getD s []).getD ch 0 =
      if (chans.getD (argmaxNat (templateCounts st sc W.length c)) []).contains ch
      then weightedMean W chans st sc c s ch else 0 := by
  sorry

theorem dominant_has_max_count (st sc : List Nat) (nt c : Nat) (hnt : 0 < nt) :
    let cnt := templateCounts st sc nt c
    argmaxNat cnt < nt ∧ ∀ t, t < nt → cnt.getD t 0 ≤ cnt.getD (argmaxNat cnt) 0 := by
  sorry

theorem uncurated_identity (W : List Mat) (chans : List (List Nat)) (st : List Nat) (ns nc : Nat) :
    loadClusters W chans st st ns nc = (W, W.length) := by
  sorry

end PhyVerif.C08.Lemmas
