import PhyVerif.Model.C14
import PhyVerif.Spec.C14
import PhyVerif.Lemmas.C09b
import PhyVerif.Lemmas.C14
/-! Proofs for the second part of C14 (unit factor in the exported files, waveform gather on the returned
waveforms, spike depths without features, durations in ms).  Statements: `Props/C14.lean`. -/
namespace PhyVerif.C14.Lemmas
open PhyVerif PhyVerif.C09 PhyVerif.C14

/-! ### the unit factor is a factor -/

theorem spikeAmpsUnit_factor (d : Data) (f : Rat) :
    spikeAmpsUnit d f = (spikeAmpsUnit d 1).map (· * f) := by
  unfold spikeAmpsUnit
  rw [List.map_map]
  apply List.map_congr_left
  intro x _
  simp

theorem ampsVUnit_factor (d : Data) (f : Rat) :
    ampsVUnit d f = (ampsVUnit d 1).map fun o => o.map (· * f) := by
  unfold ampsVUnit
  rw [List.map_map]
  apply List.map_congr_left
  intro o _
  cases o <;> simp

theorem scaleMat_one (W : Mat) : scaleMat W 1 = W := by
  unfold scaleMat
  simp

theorem rescaledUnit_factor (d : Data) (f : Rat) :
    rescaledUnit d f = (rescaledUnit d 1).map fun o => o.map fun W => scaleMat W f := by
  unfold rescaledUnit
  rw [List.map_map]
  apply List.map_congr_left
  intro o _
  cases o <;> simp [scaleMat_one]

theorem gather_scale (row : List Rat) (cs : List Nat) (f : Rat) :
    (cs.map fun c => (row.map (· * f)).getD c 0) = (cs.map fun c => row.getD c 0).map (· * f) := by
  rw [List.map_map]
  apply List.map_congr_left
  intro c _
  exact C09.Lemmas.getD_map_mul row f c

/-- gathering the listed channels commutes with scaling -/
theorem exportWaveformsOpt_scale (wfs : List (Option Mat)) (inds : List (List Nat)) (f : Rat) :
    exportWaveformsOpt (wfs.map fun o => o.map fun W => scaleMat W f) inds =
      (exportWaveformsOpt wfs inds).map fun o => o.map fun W => scaleMat W f := by
  unfold exportWaveformsOpt
  rw [List.zip_map_left, List.map_map, List.map_map]
  apply List.map_congr_left
  intro p _
  rcases p with ⟨o, cs⟩
  cases o with
  | none => simp
  | some W =>
    simp only [Function.comp_def, Prod.map_fst, Prod.map_snd, id_eq, Option.map_some, Option.some.injEq]
    unfold scaleMat
    rw [List.map_map, List.map_map]
    apply List.map_congr_left
    intro row _
    exact gather_scale row cs f

theorem amps_carry_factor (dT dC : Data) (f : Rat) (indsT indsC : List (List Nat)) :
    let e := exportAmpFiles dT dC f indsT indsC
    let e1 := exportAmpFiles dT dC 1 indsT indsC
    e.spikesAmps = e1.spikesAmps.map (· * f) ∧
    e.templatesAmps = e1.templatesAmps.map (fun o => o.map (· * f)) ∧
    e.clustersAmps = e1.clustersAmps.map (fun o => o.map (· * f)) ∧
    e.templatesWaveforms = e1.templatesWaveforms.map (fun o => o.map fun W => scaleMat W f) ∧
    e.clustersWaveforms = e1.clustersWaveforms.map (fun o => o.map fun W => scaleMat W f) := by
  simp only [exportAmpFiles, amplitudesTrue]
  refine ⟨spikeAmpsUnit_factor dT f, ampsVUnit_factor dT f, ampsVUnit_factor dC f, ?_, ?_⟩
  · rw [rescaledUnit_factor dT f, exportWaveformsOpt_scale]
  · rw [rescaledUnit_factor dC f, exportWaveformsOpt_scale]

theorem spike_amps_eq (dT dC : Data) (f : Rat) (indsT indsC : List (List Nat)) (i : Nat)
    (hi : i < dT.spikes.length) (ha : dT.amplitudes.length = dT.spikes.length)
    (hs : dT.spikes.getD i 0 < dT.wfsW.length) :
    (exportAmpFiles dT dC f indsT indsC).spikesAmps.getD i 0 =
      dT.amplitudes.getD i 0 *
        listMax (chAmps (matMul (dT.wfsW.getD (dT.spikes.getD i 0) []) dT.wmi)) * f :=
  (C09.Lemmas.spikeAmpUnit_eq dT f i hi ha hs).1

theorem template_cluster_amps_eq_mean (dT dC : Data) (f : Rat) (indsT indsC : List (List Nat))
    (haT : dT.amplitudes.length = dT.spikes.length) (haC : dC.amplitudes.length = dC.spikes.length)
    (_hsT : ∀ s ∈ dT.spikes, s < dT.wfsW.length) (_hsC : ∀ s ∈ dC.spikes, s < dC.wfsW.length) :
    (∀ t, t < dT.wfsW.length →
      (exportAmpFiles dT dC f indsT indsC).templatesAmps.getD t none =
        meanOver dT.spikes (exportAmpFiles dT dC f indsT indsC).spikesAmps t) ∧
    (∀ c, c < dC.wfsW.length →
      (exportAmpFiles dT dC f indsT indsC).clustersAmps.getD c none =
        meanOver dC.spikes (spikeAmpsUnit dC f) c) ∧
    (exportAmpFiles dT dC f indsT indsC).templatesAmps.length = dT.wfsW.length ∧
    (exportAmpFiles dT dC f indsT indsC).clustersAmps.length = dC.wfsW.length := by
  refine ⟨fun t ht => (C09.Lemmas.ampsVUnit_eq_mean dT f haT t ht).1,
    fun c hc => (C09.Lemmas.ampsVUnit_eq_mean dC f haC c hc).1, ?_, ?_⟩ <;>
  simp [exportAmpFiles, amplitudesTrue, ampsVUnit, ampsV, bincountW, bincountN]

/-! ### exported waveform entries -/

theorem waveforms_export_eq (wfs : List (Option Mat)) (inds : List (List Nat)) (t : Nat) (W : Mat)
    (hW : wfs.getD t none = some W) (ht : t < inds.length) :
    ∃ E, (exportWaveformsOpt wfs inds).getD t none = some E ∧ E.length = W.length ∧
      ∀ s j, s < W.length → j < (inds.getD t []).length →
        entry E s j = entry W s ((inds.getD t []).getD j 0) := by
  have htw : t < wfs.length := by
    by_contra h
    rw [List.getD_eq_getElem?_getD, List.getElem?_eq_none (by omega)] at hW
    cases hW
  have hWt : wfs[t] = some W := by
    rw [List.getD_eq_getElem?_getD, List.getElem?_eq_getElem htw] at hW
    simpa using hW
  refine ⟨W.map fun row => (inds.getD t []).map fun c => row.getD c 0, ?_, by simp, ?_⟩
  · simp [exportWaveformsOpt, List.getD_eq_getElem?_getD, htw, ht, hWt]
  · intro s j hs hj
    simp only [List.getD_eq_getElem?_getD] at hj ⊢
    simp [entry, List.getD_eq_getElem?_getD, hs, hj]

theorem waveforms_export_nan (wfs : List (Option Mat)) (inds : List (List Nat)) (t : Nat)
    (hW : wfs.getD t none = none) : (exportWaveformsOpt wfs inds).getD t none = none := by
  unfold exportWaveformsOpt
  rw [List.getD_eq_getElem?_getD, List.getElem?_map]
  by_cases h : t < (wfs.zip inds).length
  · rw [List.getElem?_eq_getElem h, List.getElem_zip]
    have h1 : t < wfs.length := by simp [List.length_zip] at h; omega
    rw [List.getD_eq_getElem?_getD, List.getElem?_eq_getElem h1] at hW
    simp only [Option.getD_some] at hW
    simp [hW]
  · rw [List.getElem?_eq_none (by omega)]; rfl

/-- composition with C09: the exported block of an id with spikes is the returned (unwhitened, amplitude-rescaled,
unit-scaled) waveform on the listed channels -/
theorem exported_waveform_rescaled (d : Data) (f : Rat) (inds : List (List Nat))
    (hnn : ∀ a ∈ d.amplitudes, 0 ≤ a) (hf : 0 ≤ f) (t : Nat) (ht : t < d.wfsW.length)
    (hti : t < inds.length) (v : Rat) (hv : (ampsVUnit d f).getD t none = some v)
    (hau : 0 < (ampsAu d).getD t 0) (ns nc : Nat) (hns : 0 < ns) (hnc : 0 < nc)
    (hrect : Rect ((unwhitened d).getD t []) ns nc) :
    ∃ W E, (rescaledUnit d f).getD t none = some W ∧ IsPeakAmp W nc v ∧
      (exportWaveformsOpt (rescaledUnit d f) inds).getD t none = some E ∧ E.length = ns ∧
      ∀ s j, s < ns → j < (inds.getD t []).length →
        entry E s j = entry ((unwhitened d).getD t []) s ((inds.getD t []).getD j 0) *
          (v / (ampsAu d).getD t 0) := by
  obtain ⟨W, hW, hR, hpk, hent⟩ :=
    C09.Lemmas.rescaledUnit_peak_nonneg d f hnn hf t ht v hv hau ns nc hns hnc hrect
  obtain ⟨E, hE, hEl, hEe⟩ := waveforms_export_eq (rescaledUnit d f) inds t W hW hti
  refine ⟨W, E, hW, hpk, hE, by rw [hEl, hR.1], ?_⟩
  intro s j hs hj
  rw [hEe s j (by rw [hR.1]; exact hs) hj, hent]

theorem exported_waveform_nan (d : Data) (f : Rat) (inds : List (List Nat)) (t : Nat) (ht : t < d.wfsW.length)
    (hv : (ampsVUnit d f).getD t none = none) :
    (exportWaveformsOpt (rescaledUnit d f) inds).getD t none = none := by
  apply waveforms_export_nan
  unfold ampsVUnit at hv
  rw [C09.Lemmas.getD_map_optmap] at hv
  have hv0 : (ampsV d).getD t none = none := by
    cases h : (ampsV d).getD t none with
    | none => rfl
    | some x => rw [h] at hv; cases hv
  rw [C09.Lemmas.rescaledUnit_getD, C09.Lemmas.rescaled_getD d t ht, hv0]
  rfl

/-! ### spike depths without features -/

theorem spike_depth_eq (ys : List Rat) (peaks nanIdx sc : List Nat) (i : Nat) (hi : i < sc.length)
    (hc : sc.getD i 0 < peaks.length) :
    (spikeDepthsFromClusters (clusterDepths ys peaks nanIdx) sc).getD i none =
      if nanIdx.contains (sc.getD i 0) then none else some (ys.getD (peaks.getD (sc.getD i 0) 0) 0) := by
  have e : (spikeDepthsFromClusters (clusterDepths ys peaks nanIdx) sc).getD i none =
      (clusterDepths ys peaks nanIdx).getD (sc.getD i 0) none := by
    simp [spikeDepthsFromClusters, List.getD_eq_getElem?_getD, hi]
  rw [e]
  generalize sc.getD i 0 = c at hc ⊢
  simp [clusterDepths, List.getD_eq_getElem?_getD, hc]

/-! ### durations in ms, NaN for ids without spikes -/

theorem exportPeakToTrough_getD (wfs : List Mat) (rate : Rat) (nanIdx : List Nat) (c : Nat)
    (hc : c < wfs.length) :
    (exportPeakToTrough wfs rate nanIdx).getD c none =
      if nanIdx.contains c then none else some ((waveformDurations wfs rate).getD c 0) := by
  have hl : c < (waveformDurations wfs rate).length := by
    rw [C09.Lemmas.waveformDurations_length]; exact hc
  simp [exportPeakToTrough, List.getD_eq_getElem?_getD, hl]

theorem peakToTrough_eq (wfs : List Mat) (rate : Rat) (nanIdx : List Nat) (ns nc : Nat) (hns : 0 < ns)
    (hnc : 0 < nc) (hrect : ∀ W ∈ wfs, Rect W ns nc) (c : Nat) (hc : c < wfs.length) (p iM im : Nat)
    (hp : IsPeakChannel (wfs.getD c []) nc p) (hM : IsFirstMax (chan (wfs.getD c []) p) iM)
    (hm : IsFirstMin (chan (wfs.getD c []) p) im) :
    (exportPeakToTrough wfs rate nanIdx).getD c none =
      if nanIdx.contains c then none else some ((((iM : Int) - (im : Int) : Int) : Rat) * 1000 / rate) := by
  rw [exportPeakToTrough_getD wfs rate nanIdx c hc,
    C09.Lemmas.duration_ms_spec wfs rate ns nc hns hnc hrect c hc p iM im hp hM hm]

/-! ### peak channel first (distinct positions) -/

theorem l1_eq_zero (pos : List (Rat × Rat)) (a b : Nat) (h : l1 pos a b = 0) :
    pos.getD a (0, 0) = pos.getD b (0, 0) := by
  unfold l1 at h
  simp only at h
  apply Prod.ext
  · split at h <;> split at h <;> linarith
  · split at h <;> split at h <;> linarith

/-- every row the acceptance predicate admits starts with the peak channel itself when no other channel shares the
peak's position (the loader guarantees pairwise distinct positions, model.py:390-393) -/
theorem nearestOK_peak_first (pos : List (Rat × Rat)) (probes : List Nat) (peak ncw : Nat) (row : List Nat)
    (hp : peak < pos.length) (hn : 0 < ncw)
    (hd : ∀ c, c < pos.length → c ≠ peak → pos.getD c (0, 0) ≠ pos.getD peak (0, 0))
    (h : nearestOK pos probes peak ncw row = true) : row.head? = some peak := by
  unfold nearestOK at h
  simp only [Bool.and_eq_true] at h
  obtain ⟨⟨⟨⟨⟨_, _⟩, h3⟩, h4⟩, _⟩, _⟩ := h
  have hmem : peak ∈ (List.range pos.length).filter fun c => probes.getD c 0 == probes.getD peak 0 :=
    List.mem_filter.2 ⟨List.mem_range.2 hp, by simp⟩
  have hk : 0 < min ncw ((List.range pos.length).filter fun c =>
      probes.getD c 0 == probes.getD peak 0).length := by
    have := List.length_pos_of_mem hmem
    omega
  generalize hkk : min ncw ((List.range pos.length).filter fun c =>
      probes.getD c 0 == probes.getD peak 0).length = k at h3 h4 hk
  cases hrow : row.take k with
  | nil =>
    rw [hrow] at h4
    simp at h4
    omega
  | cons c0 rest =>
    rw [hrow] at h3 h4
    have hc0 : c0 ∈ (List.range pos.length).filter fun c => probes.getD c 0 == probes.getD peak 0 := by
      have := List.all_eq_true.1 h3 c0 (by simp)
      simpa using this
    have hc0lt : c0 < pos.length := List.mem_range.1 (List.mem_filter.1 hc0).1
    have hz : l1 pos peak c0 = 0 := by simpa using h4
    have hpos := (l1_eq_zero pos peak c0 hz).symm
    have hc0p : c0 = peak := by
      by_contra hne
      exact hd c0 hc0lt hne hpos
    cases row with
    | nil => simp at hrow
    | cons r0 rs =>
      cases k with
      | zero => omega
      | succ k =>
        simp only [List.take_succ_cons, List.cons.injEq] at hrow
        simp [hrow.1, hc0p]

theorem nearest_peak_first (pos : List (Rat × Rat)) (probes : List Nat) (peak ncw : Nat)
    (hp : peak < pos.length) (hn : 0 < ncw)
    (hd : ∀ c, c < pos.length → c ≠ peak → pos.getD c (0, 0) ≠ pos.getD peak (0, 0)) :
    (nearestSameProbe pos probes peak ncw).head? = some peak :=
  nearestOK_peak_first pos probes peak ncw _ hp hn hd (nearest_ok pos probes peak ncw hp)

theorem exportPeakToTrough_length (wfs : List Mat) (rate : Rat) (nanIdx : List Nat) :
    (exportPeakToTrough wfs rate nanIdx).length = wfs.length := by
  simp [exportPeakToTrough, C09.Lemmas.waveformDurations_length]

end PhyVerif.C14.Lemmas
