import PhyVerif.Lemmas.C10
import PhyVerif.Lemmas.C03b
/-! C10, second part: which file wins for a metadata field (any visiting order, foreign files anywhere), the arrays
no step writes, and the subset store through the C03 model. Statements: `Props/C10.lean`. -/
namespace PhyVerif.C10.Lemmas
open PhyVerif PhyVerif.C10
open PhyVerif.C18 (Cell)

variable {α : Type} [Zero α]

/-! ### the loader: the last visited file that says anything about a field wins -/

theorem lookup_upsert {β : Type} (l : List (String × β)) (fd : String × β) (k : String) :
    ((l.filter fun q => q.1 != fd.1) ++ [fd]).lookup k =
      (if k = fd.1 then some fd.2 else none).or (l.lookup k) := by
  obtain ⟨a, b⟩ := fd
  by_cases h : k = a
  · subst h
    simp only [if_true, Option.some_or]
    exact lookup_upsert_self l k b
  · simp only [h, if_false, Option.none_or]
    exact lookup_upsert_ne l k a b h

theorem lookup_singleton {β : Type} (fd : String × β) (k : String) :
    [fd].lookup k = if k = fd.1 then some fd.2 else none := by
  obtain ⟨a, b⟩ := fd
  by_cases h : k = a
  · subst h; simp [List.lookup_cons]
  · have hb : (k == a) = false := by simpa using h
    simp [List.lookup_cons, hb, h]

theorem lookup_foldl_upsert {β : Type} (k : String) : ∀ (fields acc : List (String × β)),
    (fields.foldl (fun a fd => (a.filter fun q => q.1 != fd.1) ++ [fd]) acc).lookup k =
      (fields.reverse.lookup k).or (acc.lookup k)
  | [], acc => by simp
  | fd :: rest, acc => by
    rw [List.foldl_cons, lookup_foldl_upsert k rest, lookup_upsert, List.reverse_cons, List.lookup_append,
      Option.or_assoc, lookup_singleton]

theorem lookup_viewStep (parse : String → Cell) (fnum : Nat → Option Int)
    (acc : List (String × List (Cell × Cell))) (p : FName × File) (field : String) :
    (viewStep parse fnum acc p).lookup field = (fileField parse fnum field p).or (acc.lookup field) := by
  unfold viewStep fileField
  split
  · simp
  · cases h : loadMetadata parse fnum p.2 with
    | none => simp
    | some fields => simp only [Option.bind_some]; exact lookup_foldl_upsert field fields acc

theorem findSome?_singleton {β γ : Type} (f : β → Option γ) (p : β) : [p].findSome? f = f p := by
  cases h : f p <;> simp [List.findSome?_cons, h]

theorem lookup_foldl_viewStep (parse : String → Cell) (fnum : Nat → Option Int) (field : String) :
    ∀ (visit : List (FName × File)) (acc : List (String × List (Cell × Cell))),
      (visit.foldl (viewStep parse fnum) acc).lookup field =
        (visit.reverse.findSome? (fileField parse fnum field)).or (acc.lookup field)
  | [], acc => by simp
  | p :: rest, acc => by
    rw [List.foldl_cons, lookup_foldl_viewStep parse fnum field rest, lookup_viewStep, List.reverse_cons,
      List.findSome?_append, Option.or_assoc, findSome?_singleton]

theorem view_field_eq_last (parse : String → Cell) (fnum : Nat → Option Int) (visit : List (FName × File))
    (field : String) :
    (metadataViewIn parse fnum visit).lookup field = visit.reverse.findSome? (fileField parse fnum field) := by
  rw [metadataViewIn, lookup_foldl_viewStep]
  simp [Option.or_none]

/-! ### the file a save writes stays the only file of its name -/

/-- the saved file is in the directory, and every entry of its name has its content -/
def HasSaved (files : List (FName × File)) (name : FName) (T : File) : Prop :=
  (name, T) ∈ files ∧ ∀ p ∈ files, p.1 = name → p.2 = T

theorem hasSaved_putFile_self (files : List (FName × File)) (name : FName) (T : File) :
    HasSaved (putFile files name T) name T := by
  refine ⟨by simp [putFile], ?_⟩
  intro p hp hn
  simp only [putFile, List.mem_append, List.mem_filter, List.mem_singleton] at hp
  rcases hp with ⟨_, h⟩ | rfl
  · simp [hn] at h
  · rfl

theorem hasSaved_putFile_other (files : List (FName × File)) (name other : FName) (T U : File)
    (hne : other ≠ name) (h : HasSaved files name T) : HasSaved (putFile files other U) name T := by
  refine ⟨?_, ?_⟩
  · simp only [putFile, List.mem_append, List.mem_filter, List.mem_singleton]
    exact Or.inl ⟨h.1, by simpa using fun e => hne e.symm⟩
  · intro p hp hn
    simp only [putFile, List.mem_append, List.mem_filter, List.mem_singleton] at hp
    rcases hp with ⟨hp, _⟩ | rfl
    · exact h.2 p hp hn
    · exact absurd hn hne

theorem files_step (render : Cell → String) (scale : α → α) (d : Disk α) (op : Op)
    (h : match op with | .saveMeta _ _ => False | .writeFile _ _ => False | _ => True) :
    (step render scale d op).files = d.files := by
  cases op with
  | saveMeta f m => exact h.elim
  | writeFile s f => exact h.elim
  | saveClusters sc => simp only [step]; split <;> rfl
  | saveSubset sel maxN => simp only [step]; split <;> rfl
  | close => rfl
  | reload => simp only [step]; split <;> rfl

theorem hasSaved_step (render : Cell → String) (scale : α → α) (d : Disk α) (op : Op) (field : String)
    (T : File)
    (hop : match op with
      | .saveMeta f _ => f ≠ field
      | .writeFile s _ => s ≠ ("cluster_" ++ field, true)
      | _ => True)
    (h : HasSaved d.files ("cluster_" ++ field, true) T) :
    HasSaved (step render scale d op).files ("cluster_" ++ field, true) T := by
  cases op with
  | saveMeta f m =>
    refine hasSaved_putFile_other _ _ _ _ _ ?_ h
    intro e
    simp only [Prod.mk.injEq, and_true] at e
    exact hop ((String.append_right_inj _).1 e)
  | writeFile s f => exact hasSaved_putFile_other _ _ _ _ _ hop h
  | saveClusters sc => rw [files_step render scale d _ trivial]; exact h
  | saveSubset sel maxN => rw [files_step render scale d _ trivial]; exact h
  | close => exact h
  | reload => rw [files_step render scale d _ trivial]; exact h

theorem hasSaved_run (render : Cell → String) (scale : α → α) (field : String) (T : File) :
    ∀ (post : List Op) (d : Disk α), KeepsSaved field post →
      HasSaved d.files ("cluster_" ++ field, true) T →
      HasSaved (run render scale d post).files ("cluster_" ++ field, true) T
  | [], _, _, h => h
  | op :: post, d, hk, h => by
    simp only [run, List.foldl_cons]
    exact hasSaved_run render scale field T post _ (fun o ho => hk o (List.mem_cons_of_mem _ ho))
      (hasSaved_step render scale d op field T (hk op (List.mem_cons_self ..)) h)

theorem hasSaved_history (render : Cell → String) (scale : α → α) (d : Disk α) (pre post : List Op)
    (field : String) (m : List (Nat × Option Cell)) (hk : KeepsSaved field post) :
    HasSaved (run render scale d (pre ++ .saveMeta field m :: post)).files ("cluster_" ++ field, true)
      (simpleTable render field (cleanMeta m)) := by
  have : run render scale d (pre ++ .saveMeta field m :: post) =
      run render scale (step render scale (run render scale d pre) (.saveMeta field m)) post := by
    simp [run, List.foldl_append]
  rw [this]
  exact hasSaved_run render scale field _ post _ hk (hasSaved_putFile_self _ _ _)

/-! ### the saved mapping among arbitrary other files -/

theorem fileField_saved (render : Cell → String) (parse : String → Cell) (fnum : Nat → Option Int)
    (field : String) (hfield : field ≠ "cluster_id") (hinfo : field ≠ "info")
    (data : List (Nat × Cell)) (hrt : ∀ p ∈ data, parse (render p.2) = p.2) (hne : ∀ p ∈ data, render p.2 ≠ "")
    (hid : ∀ n : Nat, parse (toString n) = .int n) (hs : Sorted data) (hdata : data ≠ []) :
    fileField parse fnum field (("cluster_" ++ field, true), simpleTable render field data) =
      some (data.map cellPair) := by
  have hstem0 : ("cluster_" ++ field == "cluster_info") = (field == "info") := stem_beq field "info"
  have hstem : ("cluster_" ++ field == "cluster_info") = false := by
    rw [hstem0]; simpa using hinfo
  simp only [fileField, hstem, Bool.false_eq_true, if_false,
    loadMetadata_simpleTable render parse fnum field hfield data hrt hne hid hs, hdata, Option.bind_some,
    List.reverse_cons, List.reverse_nil, List.nil_append]
  simp

theorem findSome?_const {β γ : Type} (g : β → Option γ) (X : γ) : ∀ (l : List β),
    (∀ p ∈ l, g p = none ∨ g p = some X) → (∃ p ∈ l, g p = some X) → l.findSome? g = some X
  | [], _, h => by obtain ⟨p, hp, _⟩ := h; simp at hp
  | a :: l, hall, hex => by
    rcases hall a (List.mem_cons_self ..) with h | h
    · rw [List.findSome?_cons, h]
      apply findSome?_const g X l (fun p hp => hall p (List.mem_cons_of_mem _ hp))
      obtain ⟨p, hp, hg⟩ := hex
      rcases List.mem_cons.1 hp with rfl | hp
      · rw [h] at hg; cases hg
      · exact ⟨p, hp, hg⟩
    · rw [List.findSome?_cons, h]

theorem metadata_last_saved_among_files (render : Cell → String) (parse : String → Cell) (fnum : Nat → Option Int)
    (scale : α → α)
    (d : Disk α) (pre post : List Op) (field : String) (m : List (Nat × Option Cell))
    (hrt : ∀ p ∈ cleanMeta m, parse (render p.2) = p.2) (hne : ∀ p ∈ cleanMeta m, render p.2 ≠ "")
    (hid : ∀ n : Nat, parse (toString n) = .int n)
    (hkeep : KeepsSaved field post)
    (hfield : field ≠ "cluster_id") (hinfo : field ≠ "info") (hvals : cleanMeta m ≠ [])
    (order : List (FName × File))
    (hperm : order.Perm (run render scale d (pre ++ .saveMeta field m :: post)).files)
    (hother : ∀ p ∈ (run render scale d (pre ++ .saveMeta field m :: post)).files,
      p.1.2 = true → p.1 ≠ ("cluster_" ++ field, true) → fileField parse fnum field p = none) :
    (metadataView parse fnum order).lookup field =
      some ((cleanMeta m).map fun p => (Cell.int p.1, p.2)) := by
  have hsaved := hasSaved_history render scale d pre post field m hkeep
  generalize (run render scale d (pre ++ .saveMeta field m :: post)).files = files at *
  have hX := fileField_saved render parse fnum field hfield hinfo (cleanMeta m) hrt hne hid
    (sorted_cleanMeta m) hvals
  rw [metadataView, view_field_eq_last, List.reverse_append, List.findSome?_append]
  have htsv : (order.filter fun p => p.1.2).reverse.findSome? (fileField parse fnum field) =
      some ((cleanMeta m).map cellPair) := by
    apply findSome?_const
    · intro p hp
      have hp' := List.mem_filter.1 (List.mem_reverse.1 hp)
      have hpf : p ∈ files := hperm.mem_iff.1 hp'.1
      by_cases hn : p.1 = ("cluster_" ++ field, true)
      · right
        have h2 := hsaved.2 p hpf hn
        obtain ⟨pn, pf⟩ := p
        simp only at hn h2
        subst hn; subst h2
        exact hX
      · left
        exact hother p hpf hp'.2 hn
    · refine ⟨(("cluster_" ++ field, true), simpleTable render field (cleanMeta m)), ?_, hX⟩
      rw [List.mem_reverse, List.mem_filter]
      exact ⟨hperm.mem_iff.2 hsaved.1, rfl⟩
  rw [htsv, Option.some_or]
  rfl

/-! ### histories of the model's own saves: the last save of a field, and what the other files say about it -/

/-- a field of the abstract state was last written by one `saveMeta` of the history, after which the history does not
save that field again -/
theorem last_save_split (field : String) (vals : List (Nat × Cell)) : ∀ (ops : List Op) (a : Abs), OwnOps ops →
    (absRun a ops).fields.lookup field = some vals →
    (∃ pre m post, ops = pre ++ .saveMeta field m :: post ∧ KeepsSaved field post ∧ vals = cleanMeta m ∧
      field ≠ "cluster_id") ∨
    ((∀ op ∈ ops, match op with | .saveMeta f _ => f ≠ field | _ => True) ∧ a.fields.lookup field = some vals)
  | [], _, _, h => Or.inr ⟨by simp, h⟩
  | op :: ops, a, hown, h => by
    simp only [absRun, List.foldl_cons] at h
    have hown' : OwnOps ops := fun o ho => hown o (List.mem_cons_of_mem _ ho)
    rcases last_save_split field vals ops (absStep a op) hown' h with ⟨pre, m, post, he, hk, hv, hc⟩ | ⟨hno, hl⟩
    · exact Or.inl ⟨op :: pre, m, post, by rw [he]; rfl, hk, hv, hc⟩
    · cases op with
      | saveMeta f m =>
        by_cases hf : f = field
        · subst hf
          left
          refine ⟨[], m, ops, rfl, ?_, ?_, hown _ (List.mem_cons_self ..)⟩
          · intro o ho
            have h1 := hno o ho
            have h2 := hown' o ho
            cases o <;> first | exact h1 | exact h2.elim | trivial
          · simp only [absStep] at hl
            rw [lookup_upsert_self] at hl
            exact (Option.some.inj hl).symm
        · right
          refine ⟨?_, ?_⟩
          · intro o ho
            rcases List.mem_cons.1 ho with rfl | ho
            · exact hf
            · exact hno o ho
          · simp only [absStep] at hl
            rwa [lookup_upsert_ne _ _ _ _ (Ne.symm hf)] at hl
      | saveClusters sc =>
        exact Or.inr ⟨fun o ho => by
          rcases List.mem_cons.1 ho with rfl | ho
          · trivial
          · exact hno o ho, hl⟩
      | writeFile s f =>
        exact Or.inr ⟨fun o ho => by
          rcases List.mem_cons.1 ho with rfl | ho
          · trivial
          · exact hno o ho, hl⟩
      | saveSubset sel maxN =>
        exact Or.inr ⟨fun o ho => by
          rcases List.mem_cons.1 ho with rfl | ho
          · trivial
          · exact hno o ho, hl⟩
      | close =>
        exact Or.inr ⟨fun o ho => by
          rcases List.mem_cons.1 ho with rfl | ho
          · trivial
          · exact hno o ho, hl⟩
      | reload =>
        exact Or.inr ⟨fun o ho => by
          rcases List.mem_cons.1 ho with rfl | ho
          · trivial
          · exact hno o ho, hl⟩

/-- the files that say nothing about `field` (all `.tsv` other than `cluster_<field>.tsv`) still do after a step that is
not a foreign write: a save of another field writes a two-column file of THAT field -/
theorem others_silent_step (render : Cell → String) (parse : String → Cell) (fnum : Nat → Option Int)
    (scale : α → α) (field : String) (hfield : field ≠ "cluster_id") (d : Disk α) (op : Op)
    (hop : match op with | .writeFile _ _ => False | _ => True)
    (h : ∀ p ∈ d.files, p.1.2 = true → p.1 ≠ ("cluster_" ++ field, true) → fileField parse fnum field p = none) :
    ∀ p ∈ (step render scale d op).files, p.1.2 = true → p.1 ≠ ("cluster_" ++ field, true) →
      fileField parse fnum field p = none := by
  cases op with
  | writeFile s f => exact hop.elim
  | saveMeta f m =>
    intro p hp htsv hn
    simp only [step, putFile, List.mem_append, List.mem_filter, List.mem_singleton] at hp
    rcases hp with ⟨hp, _⟩ | rfl
    · exact h p hp htsv hn
    · have hff : field ≠ f := fun e => hn (by rw [e])
      apply fileField_none_of_header
      simp only [List.mem_cons, List.mem_nil_iff, or_false, not_or]
      exact ⟨hfield, hff⟩
  | saveClusters sc => rw [files_step render scale d _ trivial]; exact h
  | saveSubset sel maxN => rw [files_step render scale d _ trivial]; exact h
  | close => exact h
  | reload => rw [files_step render scale d _ trivial]; exact h

theorem others_silent_run (render : Cell → String) (parse : String → Cell) (fnum : Nat → Option Int)
    (scale : α → α) (field : String) (hfield : field ≠ "cluster_id") : ∀ (ops : List Op) (d : Disk α),
    (∀ op ∈ ops, match op with | .writeFile _ _ => False | _ => True) →
    (∀ p ∈ d.files, p.1.2 = true → p.1 ≠ ("cluster_" ++ field, true) → fileField parse fnum field p = none) →
    ∀ p ∈ (run render scale d ops).files, p.1.2 = true → p.1 ≠ ("cluster_" ++ field, true) →
      fileField parse fnum field p = none
  | [], _, _, h => h
  | op :: ops, d, hops, h => by
    simp only [run, List.foldl_cons]
    exact others_silent_run render parse fnum scale field hfield ops _
      (fun o ho => hops o (List.mem_cons_of_mem _ ho))
      (others_silent_step render parse fnum scale field hfield d op (hops op (List.mem_cons_self ..)) h)

theorem metadata_last_saved (render : Cell → String) (parse : String → Cell) (fnum : Nat → Option Int)
    (scale : α → α) (d : Disk α) (ops : List Op) (hown : OwnOps ops) (field : String) (vals : List (Nat × Cell))
    (hrt : ∀ p ∈ vals, parse (render p.2) = p.2) (hne : ∀ p ∈ vals, render p.2 ≠ "")
    (hid : ∀ n : Nat, parse (toString n) = .int n)
    (hinit : ∀ p ∈ d.files, p.1.2 = true → p.1 ≠ ("cluster_" ++ field, true) → fileField parse fnum field p = none)
    (hf : (absRun ⟨[], []⟩ ops).fields.lookup field = some vals)
    (hinfo : field ≠ "info") (hvals : vals ≠ []) :
    fieldView parse fnum (run render scale d ops) field =
      some (vals.map fun p => (Cell.int p.1, p.2)) := by
  have hnw : ∀ op ∈ ops, match op with | .writeFile _ _ => False | _ => True := by
    intro op hop
    have := hown op hop
    cases op <;> first | exact this | trivial
  rcases last_save_split field vals ops ⟨[], []⟩ hown hf with ⟨pre, m, post, he, hk, hv, hc⟩ | ⟨_, hl⟩
  · subst hv
    subst he
    have hsil := others_silent_run render parse fnum scale field hc _ d hnw hinit
    exact metadata_last_saved_among_files render parse fnum scale d pre post field m hrt hne hid hk hc hinfo
      hvals _ (List.Perm.refl _) hsil
  · simp at hl

/-! ### arrays no step writes -/

theorem fixed_step (render : Cell → String) (scale : α → α) (d : Disk α) (op : Op) :
    (step render scale d op).fixed = d.fixed :=
  (step_writes_only render scale d op).1

theorem fixed_run (render : Cell → String) (scale : α → α) : ∀ (ops : List Op) (d : Disk α),
    (run render scale d ops).fixed = d.fixed
  | [], _ => rfl
  | op :: ops, d => by
    simp only [run, List.foldl_cons]
    exact (fixed_run render scale ops _).trans (fixed_step render scale d op)

theorem templates_times_unchanged (render : Cell → String) (scale : α → α) (d : Disk α) (ops : List Op) :
    (run render scale d ops).fixed.spikeTemplates = d.fixed.spikeTemplates ∧
    (run render scale d ops).fixed.spikeSamples = d.fixed.spikeSamples ∧
    (run render scale d ops).fixed = d.fixed := by
  have h := fixed_run render scale ops d
  exact ⟨by rw [h], by rw [h], h⟩

theorem assign_stays_loadable_ok (render : Cell → String) (scale : α → α) (d : Disk α)
    (hfile : (findAssign d.assign).isSome) (hnc : ¬ Conflict d.assign)
    (hinit : AssignOK d.fixed.spikeSamples.length (shown d)) (ops : List Op)
    (hsaves : SavesOK d.fixed.spikeSamples.length ops) :
    (findAssign (run render scale d ops).assign).isSome ∧ ¬ Conflict (run render scale d ops).assign ∧
    AssignOK (run render scale d ops).fixed.spikeSamples.length (shown (run render scale d ops)) := by
  obtain ⟨h1, h2⟩ := assign_stays_loadable render scale d hfile hnc ops
  refine ⟨h1, h2, ?_⟩
  rw [(templates_times_unchanged render scale d ops).2.2]
  exact (clusters_last_saved_ok render scale d hfile hinit ops hsaves).2

/-! ### the subset store -/

theorem subInv_step (render : Cell → String) (scale : α → α) (d : Disk α) (op : Op)
    (hop : match op with
      | .saveSubset sel _ => sel.Pairwise (· < ·) ∧ ∀ i ∈ sel, i < d.fixed.spikeSamples.length
      | _ => True)
    (h : SubsetFromExport scale d.fixed d.subset) :
    SubsetFromExport scale d.fixed (step render scale d op).subset := by
  cases op with
  | saveSubset sel maxN =>
    simp only [step]
    split
    · exact Or.inr ⟨sel, maxN, hop.1, hop.2, rfl⟩
    · exact h
  | saveClusters sc => simp only [step]; split <;> exact h
  | reload => simp only [step]; split <;> exact h
  | saveMeta f m => exact h
  | writeFile s f => exact h
  | close => exact h

theorem subInv_run (render : Cell → String) (scale : α → α) : ∀ (ops : List Op) (d : Disk α),
    SelOK d.fixed ops → SubsetFromExport scale d.fixed d.subset →
      SubsetFromExport scale d.fixed (run render scale d ops).subset
  | [], _, _, h => h
  | op :: ops, d, hsel, h => by
    simp only [run, List.foldl_cons]
    have h1 := subInv_step render scale d op (by
      have := hsel op (List.mem_cons_self ..)
      cases op <;> first | exact this | trivial) h
    have hf := fixed_step render scale d op
    have := subInv_run render scale ops (step render scale d op)
      (by rw [hf]; exact fun o ho => hsel o (List.mem_cons_of_mem _ ho)) (by rw [hf]; exact h1)
    rw [hf] at this
    exact this

/-- what a store found after an in-scope export holds -/
theorem store_eq_raw (scale : α → α) (nch : Nat) (fx : Fixed α) (hfx : FixedOK nch fx)
    (sub : Option (C03.SubsetFiles α)) (hinv : SubsetFromExport scale fx sub)
    (st : C03.Store α) (hst : sub.bind C03.loadSubset = some st)
    (query : List Nat) (hq : ∀ q ∈ query, q ∈ st.spikeIds) (chq : List Nat) (hchq : chq ≠ []) :
    C03.getSpikeWaveforms st query chq fx.nsw =
      some (query.map fun q =>
        C03.lookupSpec scale fx.raw (fx.spikeSamples.getD q 0) fx.nsw
          (st.spikeChannels.getD (st.spikeIds.idxOf q) []) chq) ∧
    ∃ nc, 0 < nc ∧ st.spikeChannels = st.spikeIds.map fun i =>
      C03.templateNChannels true (fx.orders.getD (fx.spikeTemplates.getD i 0) []) nc := by
  rcases hinv with hnone | ⟨sel, maxN, hs1, hs2, hsub⟩
  · rw [hnone] at hst; cases hst
  · rw [hsub, Option.bind_some] at hst
    obtain ⟨w, hw⟩ := C03.Lemmas.subset_loads scale fx.raw nch fx.chunks hfx.tile
      fx.spikeSamples hfx.sorted hfx.inrange fx.spikeTemplates hfx.tlen fx.orders
      hfx.tbound hfx.ord sel hs1 hs2 fx.nsw (C03.subsetWidth maxN fx.nClosest)
    have hst' : st = ⟨sel, sel.map fun i => C03.templateNChannels true
        (fx.orders.getD (fx.spikeTemplates.getD i 0) [])
        (C03.subsetWidth maxN fx.nClosest), w⟩ := by
      rw [hw] at hst; exact (Option.some.inj hst).symm
    have hq' : ∀ q ∈ query, q ∈ sel := by intro q hqq; have := hq q hqq; rw [hst'] at this; exact this
    have key := C03.Lemmas.subset_store_eq_raw scale fx.raw nch fx.chunks hfx.tile
      fx.spikeSamples hfx.sorted hfx.inrange fx.spikeTemplates hfx.tlen fx.orders
      hfx.tbound hfx.ord sel hs1 hs2 fx.nsw hfx.nsw (C03.subsetWidth maxN fx.nClosest)
      query hq' chq hchq
    rw [hw, Option.bind_some] at key
    refine ⟨?_, C03.subsetWidth maxN fx.nClosest, ?_, ?_⟩
    · rw [hst', key]
      congr 1
      apply List.map_congr_left
      intro q hqq
      rw [C03.Lemmas.getD_map_idxOf (fun i => C03.templateNChannels true
        (fx.orders.getD (fx.spikeTemplates.getD i 0) [])
        (C03.subsetWidth maxN fx.nClosest)) [] sel q (hq' q hqq)]
    · have := hfx.closest
      unfold C03.subsetWidth
      omega
    · rw [hst']

theorem subset_eq_raw (render : Cell → String) (scale : α → α) (nch : Nat) (d : Disk α)
    (hfx : FixedOK nch d.fixed) (hinit : SubsetFromExport scale d.fixed d.subset) (ops : List Op)
    (hsel : SelOK d.fixed ops)
    (st : C03.Store α) (hst : storeView (run render scale d ops) = some st)
    (query : List Nat) (hq : ∀ q ∈ query, q ∈ st.spikeIds) (chq : List Nat) (hchq : chq ≠ []) :
    C03.getSpikeWaveforms st query chq d.fixed.nsw =
      some (query.map fun q =>
        C03.lookupSpec scale d.fixed.raw (d.fixed.spikeSamples.getD q 0) d.fixed.nsw
          (st.spikeChannels.getD (st.spikeIds.idxOf q) []) chq) ∧
    ∃ nc, 0 < nc ∧ st.spikeChannels = st.spikeIds.map fun i =>
      C03.templateNChannels true (d.fixed.orders.getD (d.fixed.spikeTemplates.getD i 0) []) nc :=
  store_eq_raw scale nch d.fixed hfx _ (subInv_run render scale ops d hsel hinit) st hst query hq chq hchq

theorem subset_isSome_run (render : Cell → String) (scale : α → α) : ∀ (ops : List Op) (d : Disk α),
    d.subset.isSome → (run render scale d ops).subset.isSome
  | [], _, h => h
  | op :: ops, d, h => by
    simp only [run, List.foldl_cons]
    apply subset_isSome_run render scale ops
    cases op with
    | saveSubset sel maxN => simp only [step]; split <;> first | rfl | exact h
    | saveClusters sc => simp only [step]; split <;> exact h
    | reload => simp only [step]; split <;> exact h
    | saveMeta f m => exact h
    | writeFile s f => exact h
    | close => exact h

/-- after an export anywhere in the history — whatever subset files the directory held before — the files are those
of an in-scope export -/
theorem subInv_after_export (render : Cell → String) (scale : α → α) (nch : Nat) (d : Disk α)
    (hfx : FixedOK nch d.fixed) (a b : List Op) (sel : List Nat) (maxN : Nat)
    (hsel : SelOK d.fixed (a ++ .saveSubset sel maxN :: b)) :
    SubsetFromExport scale d.fixed (run render scale d (a ++ .saveSubset sel maxN :: b)).subset ∧
    (run render scale d (a ++ .saveSubset sel maxN :: b)).subset.isSome := by
  have hsplit : run render scale d (a ++ .saveSubset sel maxN :: b) =
      run render scale (step render scale (run render scale d a) (.saveSubset sel maxN)) b := by
    simp [run, List.foldl_append]
  have hfa : (run render scale d a).fixed = d.fixed := fixed_run render scale a d
  have hs0 := hsel (.saveSubset sel maxN) (by simp)
  have hraw : (run render scale d a).fixed.hasRaw = true := by rw [hfa]; exact hfx.raw
  have hmid : (step render scale (run render scale d a) (.saveSubset sel maxN)).subset =
      some (C03.saveSubset scale d.fixed.raw d.fixed.chunks d.fixed.spikeSamples d.fixed.spikeTemplates
        d.fixed.orders sel d.fixed.nsw (C03.subsetWidth maxN d.fixed.nClosest)) := by
    simp only [step, hraw, if_true]
    rw [hfa]
  have hfm : (step render scale (run render scale d a) (.saveSubset sel maxN)).fixed = d.fixed := by
    rw [fixed_step, hfa]
  rw [hsplit]
  refine ⟨?_, subset_isSome_run render scale b _ (by rw [hmid]; rfl)⟩
  have := subInv_run render scale b (step render scale (run render scale d a) (.saveSubset sel maxN))
    (by rw [hfm]; exact fun o ho => hsel o (by simp [ho]))
    (by rw [hfm, hmid]; exact Or.inr ⟨sel, maxN, hs0.1, hs0.2, rfl⟩)
  rw [hfm] at this
  exact this

theorem subset_present (render : Cell → String) (scale : α → α) (nch : Nat) (d : Disk α)
    (hfx : FixedOK nch d.fixed) (a b : List Op) (sel : List Nat) (maxN : Nat)
    (hsel : SelOK d.fixed (a ++ .saveSubset sel maxN :: b)) :
    (storeView (run render scale d (a ++ .saveSubset sel maxN :: b))).isSome := by
  obtain ⟨hinv, hsome⟩ := subInv_after_export render scale nch d hfx a b sel maxN hsel
  unfold storeView
  rcases hinv with hnone | ⟨sel', maxN', hs1, hs2, hsub⟩
  · rw [hnone] at hsome; cases hsome
  · obtain ⟨w, hw⟩ := C03.Lemmas.subset_loads scale d.fixed.raw nch d.fixed.chunks hfx.tile
      d.fixed.spikeSamples hfx.sorted hfx.inrange d.fixed.spikeTemplates hfx.tlen d.fixed.orders
      hfx.tbound hfx.ord sel' hs1 hs2 d.fixed.nsw (C03.subsetWidth maxN' d.fixed.nClosest)
    rw [hsub, Option.bind_some, hw]
    rfl

/-- … and what that store holds, with no assumption on the subset files the history started with -/
theorem subset_eq_raw_after_export (render : Cell → String) (scale : α → α) (nch : Nat) (d : Disk α)
    (hfx : FixedOK nch d.fixed) (a b : List Op) (sel : List Nat) (maxN : Nat)
    (hsel : SelOK d.fixed (a ++ .saveSubset sel maxN :: b))
    (st : C03.Store α) (hst : storeView (run render scale d (a ++ .saveSubset sel maxN :: b)) = some st)
    (query : List Nat) (hq : ∀ q ∈ query, q ∈ st.spikeIds) (chq : List Nat) (hchq : chq ≠ []) :
    C03.getSpikeWaveforms st query chq d.fixed.nsw =
      some (query.map fun q =>
        C03.lookupSpec scale d.fixed.raw (d.fixed.spikeSamples.getD q 0) d.fixed.nsw
          (st.spikeChannels.getD (st.spikeIds.idxOf q) []) chq) ∧
    ∃ nc, 0 < nc ∧ st.spikeChannels = st.spikeIds.map fun i =>
      C03.templateNChannels true (d.fixed.orders.getD (d.fixed.spikeTemplates.getD i 0) []) nc :=
  store_eq_raw scale nch d.fixed hfx _ (subInv_after_export render scale nch d hfx a b sel maxN hsel).1
    st hst query hq chq hchq

/-- without raw data no history writes (or removes) subset files: `save_spikes_subset_waveforms` returns early -/
theorem export_needs_raw (render : Cell → String) (scale : α → α) : ∀ (ops : List Op) (d : Disk α),
    d.fixed.hasRaw = false → (run render scale d ops).subset = d.subset
  | [], _, _ => rfl
  | op :: ops, d, h => by
    simp only [run, List.foldl_cons]
    have hf := fixed_step render scale d op
    have h1 : (step render scale d op).subset = d.subset := by
      cases op with
      | saveSubset sel maxN => simp only [step, h]; rfl
      | saveClusters sc => simp only [step]; split <;> rfl
      | reload => simp only [step]; split <;> rfl
      | saveMeta f m => rfl
      | writeFile s f => rfl
      | close => rfl
    have := export_needs_raw render scale ops (step render scale d op) (by rw [hf]; exact h)
    exact this.trans h1

/-! ### a foreign two-column file: rows keyed by the parsed id VALUE -/

theorem foldl_dictSet_nodup (fnum : Nat → Option Int) : ∀ (rows acc : List (Cell × Cell)),
    (acc.map fun q => keyOf fnum q.1).Nodup →
    ((rows.foldl (fun d r => dictSet fnum r.1 r.2 d) acc).map fun q => keyOf fnum q.1).Nodup
  | [], _, h => h
  | r :: rows, acc, h => by
    rw [List.foldl_cons]
    exact foldl_dictSet_nodup fnum rows _ (dictSet_nodup fnum r.1 r.2 acc h).1

theorem two_column_file (parse : String → Cell) (fnum : Nat → Option Int)
    (f : String) (hf : f ≠ "cluster_id") (rows : List (String × String))
    (hne : ∀ r ∈ rows, r.1 ≠ "" ∧ r.2 ≠ "") (hrows : rows ≠ []) :
    ∃ dict, loadMetadata parse fnum (.table ["cluster_id", f] (rows.map fun r => [r.1, r.2])) = some [(f, dict)] ∧
      (dict.map fun q => keyOf fnum q.1).Nodup ∧
      ∀ κ, (dictGet fnum dict κ).map (·.2) =
          (((rows.map fun r => (parse r.1, parse r.2)).reverse.find? fun r => keyOf fnum r.1 == κ).map (·.2)) ∧
        (dictGet fnum dict κ).map (·.1) =
          (((rows.map fun r => (parse r.1, parse r.2)).find? fun r => keyOf fnum r.1 == κ).map (·.1)) := by
  refine ⟨_, ?_, foldl_dictSet_nodup fnum (rows.map fun r => (parse r.1, parse r.2)) [] List.nodup_nil, ?_⟩
  · rw [loadMetadata_two_columns parse fnum f hf rows hne, if_neg hrows]
  · intro κ
    have := dictGet_foldl fnum κ (rows.map fun r => (parse r.1, parse r.2)) []
    simpa [dictGet] using this

end PhyVerif.C10.Lemmas

/-! fixtures of the non-vacuity examples in `Props/C10.lean` -/
namespace PhyVerif.C10
open PhyVerif.C18 (Cell)
/-- a small dataset: 4 samples × 3 channels, 4 spikes of templates 1,0,1,0 -/
def exFixed : Fixed Int :=
  { spikeTemplates := [1, 0, 1, 0], spikeSamples := [0, 1, 3, 3],
    raw := [[1, 2, 3], [4, 5, 6], [7, 8, 9], [10, 11, 12]], chunks := [(0, 3), (3, 4)],
    orders := [[2, 0, 1], [1]], nsw := 2, nClosest := 2, hasRaw := true }
/-- `fnum` of a file without integral float ids -/
def noF : Nat → Option Int := fun _ => none
def exRender : Cell → String := fun c => match c with | .int i => toString i | .float t => s!"F{t}" | .text s => s
end PhyVerif.C10
