import PhyVerif.Lemmas.C07
/-! C07: the per-cluster template histogram conserves the spikes of the cluster. -/
namespace PhyVerif.C07.Lemmas
open PhyVerif PhyVerif.C07

theorem countP_lt_succ (l : List Nat) (n : Nat) :
    l.countP (fun a => decide (a < n+1)) = l.countP (fun a => decide (a < n)) + l.count n := by
  induction l with
  | nil => simp
  | cons a l ih =>
    simp only [List.countP_cons, List.count_cons, ih, beq_iff_eq, decide_eq_true_eq]
    by_cases h1 : a < n
    · have h2 : a < n + 1 := by omega
      have h3 : ¬ a = n := by omega
      simp only [h1, h2, h3, if_true, if_false]; omega
    · by_cases h3 : a = n
      · subst h3
        simp
        omega
      · have h2 : ¬ a < n + 1 := by omega
        simp only [h1, h2, h3, if_false]; omega

theorem sum_count_range (l : List Nat) (n : Nat) :
    ((List.range n).map (fun v => l.count v)).sum = l.countP (fun a => decide (a < n)) := by
  induction n with
  | zero => simp
  | succ n ih =>
    rw [List.range_succ, List.map_append, List.sum_append, ih, countP_lt_succ]
    simp

theorem sum_count_range_all (l : List Nat) (n : Nat) (h : ∀ a ∈ l, a < n) :
    ((List.range n).map (fun v => l.count v)).sum = l.length := by
  rw [sum_count_range, List.countP_eq_length]
  intro a ha; simpa using h a ha

theorem mem_spikesInClusters_lt (sc cl : List Nat) (i : Nat) (h : i ∈ spikesInClusters sc cl) : i < sc.length := by
  unfold spikesInClusters at h
  split at h
  · simp at h
  · exact List.mem_range.mp (List.mem_filter.mp h).1

theorem templateCounts_sum (sc st : List Nat) (nt c : Nat) (hlen : st.length = sc.length)
    (hst : ∀ t ∈ st, t < nt) :
    (templateCounts sc st nt c).sum = (spikesInClusters sc [c]).length := by
  unfold templateCounts Np.bincount
  simp only []
  rw [sum_count_range_all, List.length_map]
  intro a ha
  obtain ⟨i, hi, rfl⟩ := List.mem_map.mp ha
  have hil : i < st.length := hlen ▸ mem_spikesInClusters_lt sc [c] i hi
  have hmem : st.getD i 0 ∈ st := by
    simp only [List.getD_eq_getElem?_getD, List.getElem?_eq_getElem hil, Option.getD_some]; exact List.getElem_mem hil
  exact Nat.lt_of_lt_of_le (hst _ hmem) (Nat.le_max_left _ _)

theorem mem_distinctSorted (sc : List Nat) (v : Nat) : v ∈ distinctSorted sc ↔ v ∈ sc := by
  unfold distinctSorted
  rw [(unique_spec (sc.map Int.ofNat)).2 v]
  simp only [List.mem_map]
  constructor
  · rintro ⟨w, hw, hwv⟩
    have : w = v := Int.ofNat.inj hwv
    exact this ▸ hw
  · intro h; exact ⟨v, h, rfl⟩

theorem spikesInClusters_all (sc : List Nat) :
    spikesInClusters sc (distinctSorted sc) = List.range sc.length := by
  unfold spikesInClusters
  split
  · rename_i h
    simp only [Bool.or_eq_true, List.isEmpty_iff] at h
    rcases h with h | h
    · rw [h]; rfl
    · cases sc with
      | nil => rfl
      | cons a t =>
        exfalso
        have : a ∈ distinctSorted (a :: t) := (mem_distinctSorted _ a).2 (by simp)
        rw [h] at this; cases this
  · apply List.filter_eq_self.mpr
    intro i hi
    have hil : i < sc.length := List.mem_range.mp hi
    rw [List.contains_iff_mem, mem_distinctSorted]
    simp only [List.getD_eq_getElem?_getD, List.getElem?_eq_getElem hil, Option.getD_some]
    exact List.getElem_mem hil
end PhyVerif.C07.Lemmas
