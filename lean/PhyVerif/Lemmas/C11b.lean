import PhyVerif.Model.C11
import PhyVerif.Spec.C11
/-! Template-offset lemmas for C11 (offsets = prefix sums of per-probe sizes). -/
namespace PhyVerif.C11.Lemmas
open PhyVerif PhyVerif.C11

private theorem foldl_max_ge (l : List Nat) :
    ∀ a : Nat, a ≤ l.foldl max a ∧ ∀ v ∈ l, v ≤ l.foldl max a := by
  induction l with
  | nil => intro a; simp
  | cons b l ih =>
    intro a
    rw [List.foldl_cons]
    have h := ih (max a b)
    refine ⟨by omega, ?_⟩
    intro v hv
    rcases List.mem_cons.mp hv with h1 | h1
    · subst h1; omega
    · exact h.2 v h1

private theorem foldl_max_lt (l : List Nat) (c : Nat) (h : ∀ v ∈ l, v < c) :
    ∀ a : Nat, a < c → l.foldl max a < c := by
  induction l with
  | nil => intro a ha; simpa using ha
  | cons b l ih =>
    intro a ha
    rw [List.foldl_cons]
    have hb := h b (List.mem_cons_self)
    exact ih (fun v hv => h v (List.mem_cons_of_mem _ hv)) (max a b) (by omega)

private theorem sizeOffsetsFrom_length (sizes : List Nat) :
    ∀ off, (sizeOffsetsFrom off sizes).length = sizes.length := by
  induction sizes with
  | nil => intro off; rfl
  | cons s rest ih => intro off; simp [sizeOffsetsFrom, ih]

private theorem sizeOffsetsFrom_getD (sizes : List Nat) :
    ∀ off k, k < sizes.length → (sizeOffsetsFrom off sizes).getD k 0 = off + (sizes.take k).sum := by
  induction sizes with
  | nil => intro off k hk; simp at hk
  | cons s rest ih =>
    intro off k hk
    cases k with
    | zero => simp [sizeOffsetsFrom]
    | succ k =>
      have hk' : k < rest.length := by simpa using hk
      rw [sizeOffsetsFrom, List.getD_cons_succ, ih _ k hk', List.take_succ_cons, List.sum_cons]
      omega

private theorem take_sum_step (sizes : List Nat) :
    ∀ k l, k < l → l ≤ sizes.length → (sizes.take k).sum + sizes.getD k 0 ≤ (sizes.take l).sum := by
  induction sizes with
  | nil => intro k l hkl hl; simp at hl; omega
  | cons s rest ih =>
    intro k l hkl hl
    cases l with
    | zero => omega
    | succ l =>
      have hl' : l ≤ rest.length := by simpa using hl
      cases k with
      | zero => simp
      | succ k =>
        have := ih k l (by omega) hl'
        simp only [List.take_succ_cons, List.sum_cons, List.getD_cons_succ]
        omega

private theorem zip_getElem? {α β : Type} (as : List α) (bs : List β) (k : Nat)
    (h1 : k < as.length) (h2 : k < bs.length) : (as.zip bs)[k]? = some (as[k], bs[k]) := by
  rw [List.getElem?_zip_eq_some]
  exact ⟨List.getElem?_eq_getElem h1, List.getElem?_eq_getElem h2⟩

private theorem shiftBy_getD_eq (ids : List (List Nat)) (offsets : List Nat)
    (hlen : offsets.length = ids.length) (k : Nat) :
    (shiftBy ids offsets).getD k [] = (ids.getD k []).map (· + offsets.getD k 0) := by
  by_cases hk : k < ids.length
  · have hk' : k < offsets.length := by omega
    simp [shiftBy, List.getD_eq_getElem?_getD, List.getElem?_map, zip_getElem? _ _ k hk hk',
      List.getElem?_eq_getElem hk, List.getElem?_eq_getElem hk']
  · have h1 : ids[k]? = none := List.getElem?_eq_none (Nat.le_of_not_lt hk)
    have h2 : (shiftBy ids offsets)[k]? = none := by
      apply List.getElem?_eq_none
      simp [shiftBy]; omega
    simp [List.getD_eq_getElem?_getD, h1, h2]

/-- running offsets are the prefix sums of the sizes -/
theorem sizeOffsets_prefix (sizes : List Nat) (k : Nat) (hk : k < sizes.length) :
    (sizeOffsetsFrom 0 sizes).getD k 0 = (sizes.take k).sum := by
  rw [sizeOffsetsFrom_getD sizes 0 k hk]; omega

/-- shifted ids: original id + offset of the probe -/
theorem shiftBy_getD (ids : List (List Nat)) (offsets : List Nat) (hlen : offsets.length = ids.length)
    (k i : Nat) (hi : i < (ids.getD k []).length) :
    ((shiftBy ids offsets).getD k []).getD i 0 = (ids.getD k []).getD i 0 + offsets.getD k 0 := by
  rw [shiftBy_getD_eq ids offsets hlen k]
  generalize ids.getD k [] = l at hi
  generalize offsets.getD k 0 = o
  simp [List.getD_eq_getElem?_getD, List.getElem?_map, List.getElem?_eq_getElem hi]

/-- the shifted array of probe `k` for offsets of any length (`zip` truncates) -/
private theorem shiftBy_getD_gen (ids : List (List Nat)) (offsets : List Nat) (k : Nat) :
    (shiftBy ids offsets).getD k [] =
      if k < offsets.length then (ids.getD k []).map (· + offsets.getD k 0) else [] := by
  by_cases hk : k < ids.length
  · by_cases hk' : k < offsets.length
    · simp [shiftBy, List.getD_eq_getElem?_getD, List.getElem?_map, zip_getElem? _ _ k hk hk',
        List.getElem?_eq_getElem hk, hk']
    · have h2 : (shiftBy ids offsets)[k]? = none := by
        apply List.getElem?_eq_none
        simp [shiftBy]; omega
      simp [List.getD_eq_getElem?_getD, h2, hk']
  · have h1 : ids[k]? = none := List.getElem?_eq_none (Nat.le_of_not_lt hk)
    have h2 : (shiftBy ids offsets)[k]? = none := by
      apply List.getElem?_eq_none
      simp [shiftBy]; omega
    simp [List.getD_eq_getElem?_getD, h1, h2]

/-- offsets that are prefix sums of sizes exceeding every id of their probe keep the shifted ids
of different probes apart -/
theorem sized_ids_disjoint (ids : List (List Nat)) (sizes : List Nat)
    (hsz : ∀ k, k < sizes.length → ∀ a ∈ ids.getD k [], a < sizes.getD k 0) (k l : Nat) (hkl : k < l) :
    ∀ a ∈ (shiftBy ids (sizeOffsetsFrom 0 sizes)).getD k [],
      ∀ b ∈ (shiftBy ids (sizeOffsetsFrom 0 sizes)).getD l [], a < b := by
  intro a ha b hb
  rw [shiftBy_getD_gen, sizeOffsetsFrom_length] at ha hb
  by_cases hl : l < sizes.length
  · rw [if_pos hl, sizeOffsets_prefix sizes l hl] at hb
    rw [if_pos (by omega), sizeOffsets_prefix sizes k (by omega)] at ha
    rcases List.mem_map.mp ha with ⟨a0, ha0, rfl⟩
    rcases List.mem_map.mp hb with ⟨b0, hb0, rfl⟩
    have h1 := hsz k (by omega) a0 ha0
    have h2 := take_sum_step sizes k l hkl (by omega)
    show a0 + _ < b0 + _
    omega
  · rw [if_neg hl] at hb; cases hb

private theorem templateSizes_length (ids : List (List Nat)) (counts : List Nat)
    (hlen : counts.length = ids.length) : (templateSizes ids counts).length = ids.length := by
  simp [templateSizes, hlen]

private theorem templateSizes_getD' (ids : List (List Nat)) (counts : List Nat)
    (k : Nat) (hk : k < ids.length) (hk' : k < counts.length) :
    (templateSizes ids counts).getD k 0
      = max ((ids.getD k []).foldl max 0 + 1) (counts.getD k 0) := by
  simp [templateSizes, List.getD_eq_getElem?_getD, List.getElem?_map, zip_getElem? _ _ k hk hk',
    List.getElem?_eq_getElem hk, List.getElem?_eq_getElem hk']

private theorem templateSizes_getD (ids : List (List Nat)) (counts : List Nat)
    (hlen : counts.length = ids.length) (k : Nat) (hk : k < ids.length) :
    (templateSizes ids counts).getD k 0
      = max ((ids.getD k []).foldl max 0 + 1) (counts.getD k 0) :=
  templateSizes_getD' ids counts k hk (by omega)

/-- merged template ids of different probes never collide -/
theorem template_ids_disjoint (ids : List (List Nat)) (counts : List Nat)
    (k l : Nat) (hkl : k < l) :
    ∀ a ∈ (shiftBy ids (templateOffsets ids counts)).getD k [],
      ∀ b ∈ (shiftBy ids (templateOffsets ids counts)).getD l [], a < b := by
  unfold templateOffsets
  apply sized_ids_disjoint ids (templateSizes ids counts) _ k l hkl
  intro j hj a ha
  have hj' : j < ids.length ∧ j < counts.length := by
    have : j < min ids.length counts.length := by simpa [templateSizes] using hj
    omega
  rw [templateSizes_getD' ids counts j hj'.1 hj'.2]
  have := (foldl_max_ge (ids.getD j []) 0).2 a ha
  omega

/-- when every template id is below its probe's template count, the template offsets are the
summed template counts of the previous probes — the merged template numbering of C12 -/
theorem templateOffsets_eq_counts (ids : List (List Nat)) (counts : List Nat) (hlen : counts.length = ids.length)
    (hlt : ∀ k, ∀ a ∈ ids.getD k [], a < counts.getD k 0) (hpos : ∀ c ∈ counts, 0 < c)
    (k : Nat) (hk : k < ids.length) :
    (templateOffsets ids counts).getD k 0 = (counts.take k).sum := by
  have heq : templateSizes ids counts = counts := by
    apply List.ext_getElem (by rw [templateSizes_length ids counts hlen, hlen])
    intro j h1 h2
    have hj : j < ids.length := by omega
    have e1 := templateSizes_getD ids counts hlen j hj
    rw [List.getD_eq_getElem?_getD, List.getD_eq_getElem?_getD (l := counts),
      List.getElem?_eq_getElem h1, List.getElem?_eq_getElem h2] at e1
    simp only [Option.getD_some] at e1
    rw [e1]
    have hp := hpos counts[j] (List.getElem_mem h2)
    have hlt' : ∀ a ∈ ids.getD j [], a < counts[j] := by
      intro a ha
      have := hlt j a ha
      rwa [List.getD_eq_getElem?_getD, List.getElem?_eq_getElem h2, Option.getD_some] at this
    have hb : (ids.getD j []).foldl max 0 < counts[j] :=
      foldl_max_lt (ids.getD j []) counts[j] hlt' 0 hp
    omega
  unfold templateOffsets
  rw [heq]
  exact sizeOffsets_prefix counts k (by omega)

end PhyVerif.C11.Lemmas
