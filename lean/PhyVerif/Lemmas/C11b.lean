import PhyVerif.Model.C11
import PhyVerif.Spec.C11
/-! Template-offset lemmas for C11 (offsets = prefix sums of per-probe sizes). -/
namespace PhyVerif.C11.Lemmas
open PhyVerif PhyVerif.C11

/-- running offsets are the prefix sums of the sizes -/
theorem sizeOffsets_prefix (sizes : List Nat) (k : Nat) (hk : k < sizes.length) :
    (sizeOffsetsFrom 0 sizes).getD k 0 = (sizes.take k).sum := by
  sorry

/-- shifted ids: original id + offset of the probe -/
theorem shiftBy_getD (ids : List (List Nat)) (offsets : List Nat) (hlen : offsets.length = ids.length)
    (k i : Nat) (hi : i < (ids.getD k []).length) :
    ((shiftBy ids offsets).getD k []).getD i 0 = (ids.getD k []).getD i 0 + offsets.getD k 0 := by
  sorry

/-- offsets that are prefix sums of sizes exceeding every id of their probe keep the shifted ids
of different probes apart -/
theorem sized_ids_disjoint (ids : List (List Nat)) (sizes : List Nat) (hlen : sizes.length = ids.length)
    (hsz : ∀ k, ∀ a ∈ ids.getD k [], a < sizes.getD k 0) (k l : Nat) (hkl : k < l) (hl : l < ids.length) :
    ∀ a ∈ (shiftBy ids (sizeOffsetsFrom 0 sizes)).getD k [],
      ∀ b ∈ (shiftBy ids (sizeOffsetsFrom 0 sizes)).getD l [], a < b := by
  sorry

/-- merged template ids of different probes never collide -/
theorem template_ids_disjoint (ids : List (List Nat)) (counts : List Nat) (hlen : counts.length = ids.length)
    (k l : Nat) (hkl : k < l) (hl : l < ids.length) :
    ∀ a ∈ (shiftBy ids (templateOffsets ids counts)).getD k [],
      ∀ b ∈ (shiftBy ids (templateOffsets ids counts)).getD l [], a < b := by
  sorry

/-- when every template id is below its probe's template count, the template offsets are the
summed template counts of the previous probes — the merged template numbering of C12 -/
theorem templateOffsets_eq_counts (ids : List (List Nat)) (counts : List Nat) (hlen : counts.length = ids.length)
    (hlt : ∀ k, ∀ a ∈ ids.getD k [], a < counts.getD k 0) (hpos : ∀ c ∈ counts, 0 < c)
    (k : Nat) (hk : k < ids.length) :
    (templateOffsets ids counts).getD k 0 = (counts.take k).sum := by
  sorry

end PhyVerif.C11.Lemmas
