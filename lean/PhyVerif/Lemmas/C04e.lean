import PhyVerif.Model.C04c
import PhyVerif.Spec.C04
import PhyVerif.Spec.C04b
import PhyVerif.Lemmas.C04c
import PhyVerif.Lemmas.C04d
import PhyVerif.Lemmas.C01
import PhyVerif.Lemmas.C02
/-! The full loader `loadFull`: normal form, extra per-spike attributes, defaults, shapes, traces. -/
namespace PhyVerif.C04.Lemmas
open PhyVerif PhyVerif.C04

/-! ### normal form of a successful `loadFull` -/

theorem loadFull_nf {β : Type} (inv : Arr → Arr) (rate : Rat) (tden ncd : Nat) (one : Cell)
    (raw : Option (List (List (List β)))) (d : Dir) (fv : FullView β) (d' : Dir)
    (h : loadFull inv rate tden ncd one raw d = .ok (fv, d')) :
    load inv d one = .ok (fv.base, d') ∧
    (∀ c ∈ shapeChecks fv.base fv.templateCols fv.nSpikes fv.nChannels fv.nTemplates ncd, c.2 = true) ∧
    fv.nSpikes = fv.base.times.arr.shape.headD 0 ∧
    fv.nChannels = fv.base.channelMap.shape.headD 0 ∧
    fv.nTemplates = (match fv.base.templates with
      | some t => t.shape.headD 0
      | none => maxIdPlus1 fv.base.spikeTemplates) ∧
    fv.templateCols = fv.base.templateCols.map colsFix ∧
    fv.spikeSamples = samplesVal rate tden fv.base.samples ∧
    fv.spikeTimes = timesVal rate tden fv.base.times ∧
    fv.positions = (if positionsDistinct fv.base.channelPositions then Positions.file fv.base.channelPositions
      else .linear fv.nChannels) ∧
    fv.channelShanks = fv.base.channelShanks.getD (zerosVec fv.nChannels) ∧
    fv.channelProbes = fv.base.channelProbes.getD (zerosVec fv.nChannels) ∧
    fv.wm = fv.base.wm.getD (eye one fv.nChannels) ∧
    fv.similar = fv.base.similar.getD (zerosMat fv.nTemplates fv.nTemplates) ∧
    loadSpikeAttributes fv.nSpikes d' = .ok fv.spikeAttributes ∧
    fv.traces = loadTraces raw fv.base.channelMap ∧
    fv.nSamples = raw.map (fun parts => (C01.bounds parts).getLast?.getD 0) ∧
    fv.duration = (match fv.nSamples with
      | some n => (n : Rat) / rate
      | none => fv.spikeTimes.getLast?.getD 0) := by
  unfold loadFull at h
  simp only [bind, Except.bind, pure, Except.pure, throw, throwThe, MonadExceptOf.throw] at h
  cases hl : load inv d one with
  | error e => simp [hl] at h
  | ok r =>
    obtain ⟨v, dd⟩ := r
    simp only [hl] at h
    split at h
    · cases h
    · next hfind =>
      split at h
      · cases h
      split at h
      · cases h
      · next attrs hattrs =>
        injection h with h
        injection h with h1 h2
        subst h1 h2
        refine ⟨rfl, ?_, rfl, rfl, rfl, rfl, rfl, rfl, rfl, rfl, rfl, rfl, rfl, hattrs, rfl, rfl, rfl⟩
        intro c hc
        have := List.find?_eq_none.1 hfind c hc
        simpa using this

/-! ### extra per-spike attributes -/

/-- a name with a given prefix and suffix that do not overlap, cut into its three pieces -/
theorem parts_of_prefix_suffix (pre suf fl : List Char) (hp : pre <+: fl) (hs : suf <:+ fl)
    (hlen : pre.length + suf.length ≤ fl.length) :
    fl = pre ++ ((fl.drop pre.length).take (fl.length - (pre.length + suf.length)) ++ suf) := by
  obtain ⟨r, rfl⟩ := hp
  rw [List.drop_left]
  simp only [List.length_append] at hlen ⊢
  have hs' : suf <:+ r := List.suffix_of_suffix_length_le hs (List.suffix_append _ _) (by omega)
  rw [List.suffix_iff_eq_append] at hs'
  have : pre.length + r.length - (pre.length + suf.length) = r.length - suf.length := by omega
  rw [this, hs']

theorem spike_toList (n : String) : ("spike_" ++ n ++ ".npy").toList = spikePre ++ (n.toList ++ npySuf) := by
  rw [String.toList_append, String.toList_append, List.append_assoc]
  rfl

theorem spikeAttrName_some (f n : String) :
    spikeAttrName f = some n ↔ f = "spike_" ++ n ++ ".npy" := by
  unfold spikeAttrName
  simp only
  constructor
  · intro h
    split at h
    · next hg =>
      simp only [Bool.and_eq_true, decide_eq_true_eq, List.isPrefixOf_iff_prefix, List.isSuffixOf_iff_suffix] at hg
      obtain ⟨⟨hp, hs⟩, hlen⟩ := hg
      have hparts := parts_of_prefix_suffix _ _ _ hp hs hlen
      injection h with h
      subst h
      apply String.toList_inj.1
      rw [spike_toList, String.toList_ofList]
      exact hparts
    · cases h
  · rintro rfl
    rw [spike_toList]
    have h1 : spikePre.isPrefixOf (spikePre ++ (n.toList ++ npySuf)) = true :=
      List.isPrefixOf_iff_prefix.2 (List.prefix_append _ _)
    have h2 : npySuf.isSuffixOf (spikePre ++ (n.toList ++ npySuf)) = true := by
      rw [← List.append_assoc]
      exact List.isSuffixOf_iff_suffix.2 (List.suffix_append _ _)
    have h3 : spikePre.length = 6 := rfl
    have h4 : npySuf.length = 4 := rfl
    have h5 : 10 ≤ (spikePre ++ (n.toList ++ npySuf)).length := by
      simp only [List.length_append, h3, h4]; omega
    simp only [h1, h2, h5, decide_true, Bool.and_self, if_true]
    congr 1
    apply String.toList_inj.1
    rw [String.toList_ofList, List.drop_left' h3]
    have : (spikePre ++ (n.toList ++ npySuf)).length - 10 = n.toList.length := by
      simp only [List.length_append, h3, h4]; omega
    rw [this, List.take_left' rfl]

theorem loadSpikeAttributes_mem (ns : Nat) (d : Dir) :
    ∀ attrs, loadSpikeAttributes ns d = .ok attrs → ∀ n x,
      ((n, x) ∈ attrs ↔ ∃ f a, (f, a) ∈ d ∧ spikeAttrName f = some n ∧ n ∉ skipAttrs ∧
        x = squeeze (scrub a) ∧ x.shape.head? = some ns) := by
  induction d with
  | nil =>
    intro attrs h n x
    simp only [loadSpikeAttributes, pure, Except.pure] at h
    injection h with h
    subst h
    simp
  | cons fa rest ih =>
    obtain ⟨f, a⟩ := fa
    intro attrs h n x
    simp only [loadSpikeAttributes] at h
    -- membership in the tail, whatever happens to the head
    have tail : ∀ attrs', loadSpikeAttributes ns rest = .ok attrs' →
        (¬ (spikeAttrName f = some n ∧ n ∉ skipAttrs ∧ x = squeeze (scrub a) ∧ x.shape.head? = some ns)) →
        ((n, x) ∈ attrs' ↔ ∃ f' a', (f', a') ∈ (f, a) :: rest ∧ spikeAttrName f' = some n ∧ n ∉ skipAttrs ∧
          x = squeeze (scrub a') ∧ x.shape.head? = some ns) := by
      intro attrs' h' hnot
      rw [ih attrs' h' n x]
      constructor
      · rintro ⟨f', a', hm, r⟩
        exact ⟨f', a', List.mem_cons_of_mem _ hm, r⟩
      · rintro ⟨f', a', hm, r⟩
        rcases List.mem_cons.1 hm with heq | hm
        · injection heq with h1 h2
          subst h1 h2
          exact absurd r hnot
        · exact ⟨f', a', hm, r⟩
    split at h
    · next hnone => exact tail attrs h (by rintro ⟨h1, -⟩; rw [hnone] at h1; cases h1)
    · next m hm =>
      split at h
      · next hskip =>
        exact tail attrs h (by rintro ⟨h1, h2, -⟩; rw [hm] at h1; injection h1 with h1; subst h1; exact h2 hskip)
      · next hskip =>
        split at h
        · next hshape0 =>
          refine tail attrs h ?_
          rintro ⟨-, -, h3, h4⟩
          subst h3
          rw [hshape0] at h4
          simp at h4
        · next k ks hshape =>
          split at h
          · next hk =>
            simp only [bind, Except.bind, pure, Except.pure] at h
            split at h
            · cases h
            · next r hr =>
              injection h with h
              subst h
              rw [List.mem_cons, ih r hr n x]
              constructor
              · rintro (heq | ⟨f', a', hm', rr⟩)
                · injection heq with h1 h2
                  subst h1 h2
                  exact ⟨f, a, List.mem_cons_self, hm, hskip, rfl, by rw [hshape, hk]; rfl⟩
                · exact ⟨f', a', List.mem_cons_of_mem _ hm', rr⟩
              · rintro ⟨f', a', hm', r1, r2, r3, r4⟩
                rcases List.mem_cons.1 hm' with heq | hm'
                · injection heq with h1 h2
                  subst h1 h2
                  rw [hm] at r1
                  injection r1 with r1
                  subst r1
                  exact .inl (by rw [r3])
                · exact .inr ⟨f', a', hm', r1, r2, r3, r4⟩
          · next hk =>
            refine tail attrs h ?_
            rintro ⟨-, -, h3, h4⟩
            subst h3
            rw [hshape] at h4
            simp only [List.head?_cons, Option.some.injEq] at h4
            exact hk h4

/-! ### raw traces -/
section Traces
open PhyVerif.C01

/-- column indices of the channel map as naturals -/
def chans (cm : Arr) : List Nat := (cmIdx cm).map Int.toNat

theorem selCols_idx_nonneg {β : Type} (l : List Int) (row : List β) (h : ∀ i ∈ l, 0 ≤ i) :
    selCols (.idx l) row = Np.take row (l.map Int.toNat) := by
  unfold selCols Np.take
  simp only
  induction l with
  | nil => rfl
  | cons i rest ih =>
    have hi := h i (by simp)
    have ih' := ih (fun j hj => h j (by simp [hj]))
    simp only [List.filterMap_cons, List.map_cons] at ih' ⊢
    rw [if_neg (by omega), ih']

theorem traces_permuted {β : Type} (parts : List (List (List β))) (cm : Arr) (it : Item)
    (tr : C02.Heap β × Nat) (htr : loadTraces (some parts) cm = some tr)
    (hnn : ∀ i ∈ cmIdx cm, 0 ≤ i) (hd : InDom parts.flatten.length it) :
    tracesGet parts tr it =
      (npRows parts.flatten it).map fun rows => rows.map fun row => Np.take row (chans cm) := by
  simp only [loadTraces, Option.map_some, Option.some.injEq] at htr
  subst htr
  unfold tracesGet
  rw [C02.Lemmas.eval_eq_eager _ parts _ it hd, C02.Lemmas.derive_ops']
  rw [← C02.Lemmas.applyOps_commutes_rows]
  congr 1
  funext rows
  simp only [List.getD_eq_getElem?_getD, List.getElem?_cons_zero, Option.getD_some, List.nil_append,
    C02.applyOps, List.foldl_cons, List.foldl_nil, C02.applyOp]
  apply List.map_congr_left
  intro row _
  exact selCols_idx_nonneg _ row hnn

/-- `a[idx]` with all positions in range: as long as `idx`, entry `k` is `a[idx[k]]` -/
theorem take_spec {α : Type} (a : List α) (idx : List Nat) (h : ∀ c ∈ idx, c < a.length) :
    (Np.take a idx).length = idx.length ∧
    ∀ k (hk : k < idx.length), (Np.take a idx)[k]? = a[idx[k]]? := by
  induction idx with
  | nil => simp [Np.take]
  | cons c rest ih =>
    have hc : c < a.length := h c (by simp)
    obtain ⟨ih1, ih2⟩ := ih (fun x hx => h x (by simp [hx]))
    have e : Np.take a (c :: rest) = a[c] :: Np.take a rest := by
      simp [Np.take, List.getElem?_eq_getElem hc]
    rw [e]
    refine ⟨by simp [ih1], ?_⟩
    intro k hk
    cases k with
    | zero => simp [List.getElem?_eq_getElem hc]
    | succ k => simpa using ih2 k (by simpa using hk)

theorem mapM_some_mem {ι α : Type} (f : ι → Option α) :
    ∀ (l : List ι) (out : List α), l.mapM f = some out → ∀ r ∈ out, ∃ i ∈ l, f i = some r := by
  intro l
  induction l with
  | nil =>
    intro out h r hr
    simp only [List.mapM_nil, pure, Option.some.injEq] at h
    subst h
    cases hr
  | cons x xs ih =>
    intro out h r hr
    simp only [List.mapM_cons, bind, Option.bind] at h
    cases hx : f x with
    | none => simp [hx] at h
    | some y =>
      cases hxs : List.mapM f xs with
      | none => simp [hx, hxs] at h
      | some ys =>
        simp only [hx, hxs, pure, Option.some.injEq] at h
        subst h
        rcases List.mem_cons.1 hr with rfl | hr
        · exact ⟨x, by simp, hx⟩
        · obtain ⟨i, hi, hfi⟩ := ih ys hxs r hr
          exact ⟨i, by simp [hi], hfi⟩

theorem npRows_mem {α : Type} (A : List α) (it : Item) (rows : List α) (h : npRows A it = some rows) :
    ∀ r ∈ rows, r ∈ A := by
  cases it with
  | int i =>
    simp only [npRows] at h
    split at h
    · cases hx : A[(if i < 0 then i + (A.length : Int) else i).toNat]? with
      | none => simp [hx] at h
      | some r =>
        simp only [hx, Option.map_some, Option.some.injEq] at h
        subst h
        intro r' hr'
        simp only [List.mem_singleton] at hr'
        subst hr'
        exact List.mem_of_getElem? hx
    · cases h
  | slice start stop =>
    simp only [npRows, Option.some.injEq] at h
    subst h
    intro r hr
    simp only [Np.take, List.mem_filterMap] at hr
    obtain ⟨i, -, hi⟩ := hr
    exact List.mem_of_getElem? hi
  | list l =>
    simp only [npRows] at h
    intro r hr
    obtain ⟨i, -, hi⟩ := mapM_some_mem _ l rows h r hr
    split at hi
    · exact List.mem_of_getElem? hi
    · cases hi

end Traces

/-! ### concrete defaults -/

theorem zerosVec_isZeros (n : Nat) : IsZeros [n] (zerosVec n) := by
  refine ⟨rfl, by simp [zerosVec], ?_⟩
  intro c hc
  simp only [zerosVec, List.mem_replicate] at hc
  exact hc.2

theorem zerosMat_isZeros (n m : Nat) : IsZeros [n, m] (zerosMat n m) := by
  refine ⟨rfl, by simp [zerosMat], ?_⟩
  intro c hc
  simp only [zerosMat, List.mem_replicate] at hc
  exact hc.2

theorem sum_map_const (n : Nat) : ∀ m : Nat, ((List.range m).map fun _ => n).sum = m * n := by
  intro m
  induction m with
  | zero => simp
  | succ m ih => rw [List.range_succ, List.map_append, List.sum_append, ih]; simp [Nat.succ_mul]

theorem flatten_const_getElem? {α : Type} (n : Nat) (f : Nat → Nat → α) :
    ∀ (m : Nat) (i j : Nat), i < m → j < n →
      (((List.range m).map fun i => (List.range n).map fun j => f i j).flatten)[i * n + j]? = some (f i j) := by
  intro m
  induction m with
  | zero => intro i j hi; omega
  | succ m ih =>
    intro i j hi hj
    rw [List.range_succ, List.map_append, List.flatten_append]
    have hlen : (((List.range m).map fun i => (List.range n).map fun j => f i j).flatten).length = m * n := by
      rw [List.length_flatten]
      simp only [List.map_map, Function.comp_def, List.length_map, List.length_range]
      exact sum_map_const n m
    by_cases him : i < m
    · have hb : i * n + j < m * n := by
        have := Nat.mul_le_mul_right n (by omega : i + 1 ≤ m)
        rw [Nat.succ_mul] at this
        omega
      rw [List.getElem?_append_left (by rw [hlen]; exact hb)]
      exact ih i j him hj
    · have : i = m := by omega
      subst this
      rw [List.getElem?_append_right (by rw [hlen]; omega), hlen]
      simp [hj]

theorem eye_isEye (one : Cell) (n : Nat) : IsEye one n (eye one n) := by
  refine ⟨rfl, ?_, ?_⟩
  · simp only [eye, List.length_flatten, List.map_map, Function.comp_def, List.length_map, List.length_range]
    exact sum_map_const n n
  · intro i j hi hj
    exact flatten_const_getElem? n (fun i j => if i = j then one else Cell.num 0) n i j hi hj

/-! ### the full view against the table -/
open PhyVerif.C01 in
section
variable {β : Type} (inv : Arr → Arr) (rate : Rat) (tden ncd : Nat) (one : Cell)
  (raw : Option (List (List (List β)))) (d : Dir) (fv : FullView β) (d' : Dir)

theorem rowP_of_row (pats : List String) (tr : Arr → Arr) (Dflt : Arr → Prop) (val : Option Arr) (dflt : Arr)
    (hr : Row d pats tr val) (hd : Dflt dflt) : RowP d pats tr Dflt (val.getD dflt) := by
  rcases hr with ⟨f, a, hw, hl, rfl⟩ | ⟨ha, rfl⟩
  · exact .inl ⟨f, a, hw, hl, rfl⟩
  · exact .inr ⟨ha, hd⟩

theorem loadFull_defaults (h : loadFull inv rate tden ncd one raw d = .ok (fv, d')) :
    RowP d Attr.channelShanks.files Attr.channelShanks.transform (IsZeros [fv.nChannels]) fv.channelShanks ∧
    RowP d Attr.channelProbes.files Attr.channelProbes.transform (IsZeros [fv.nChannels]) fv.channelProbes ∧
    RowP d Attr.wm.files Attr.wm.transform (IsEye one fv.nChannels) fv.wm ∧
    RowP d Attr.similar.files Attr.similar.transform (IsZeros [fv.nTemplates, fv.nTemplates]) fv.similar := by
  obtain ⟨hb, -, -, -, -, -, -, -, -, h1, h2, h3, h4, -⟩ := loadFull_nf inv rate tden ncd one raw d fv d' h
  have hv := load_values inv d fv.base d' hb
  rw [h1, h2, h3, h4]
  exact ⟨rowP_of_row d _ _ _ _ _ (hv .channelShanks) (zerosVec_isZeros _),
    rowP_of_row d _ _ _ _ _ (hv .channelProbes) (zerosVec_isZeros _),
    rowP_of_row d _ _ _ _ _ (hv .wm) (eye_isEye one _),
    rowP_of_row d _ _ _ _ _ (hv .similar) (zerosMat_isZeros _ _)⟩

theorem loadFull_positions (h : loadFull inv rate tden ncd one raw d = .ok (fv, d')) :
    ExpectedPositions d fv.nChannels fv.positions := by
  obtain ⟨hb, -, -, -, -, -, -, -, hp, -⟩ := loadFull_nf inv rate tden ncd one raw d fv d' h
  have hv := load_values inv d fv.base d' hb .channelPositions
  rcases hv with ⟨f, a, hw, hl, hval⟩ | ⟨-, hn⟩
  · simp only [View.attr, Option.some.injEq] at hval
    refine ⟨f, a, hw, hl, ?_⟩
    rw [hp, hval]
    by_cases hdist : (arrRows (Attr.channelPositions.transform a)).Nodup
    · exact .inl ⟨hdist, by simp [positionsDistinct, hdist]⟩
    · exact .inr ⟨hdist, by simp [positionsDistinct, hdist]⟩
  · cases hn

theorem shape_of_headD_len3 (s : List Nat) (h : s.length = 3) : ∃ a b, s = [s.headD 0, a, b] := by
  match s, h with
  | [x, a, b], _ => exact ⟨a, b, rfl⟩

theorem loadFull_shapes (h : loadFull inv rate tden ncd one raw d = .ok (fv, d')) :
    fv.base.times.arr.shape = [fv.nSpikes] ∧
    fv.base.samples.arr.shape.length = 1 ∧
    (∀ a, fv.base.amplitudes = some a → a.shape = [fv.nSpikes]) ∧
    fv.base.spikeTemplates.shape = [fv.nSpikes] ∧
    fv.base.spikeClusters.shape = [fv.nSpikes] ∧
    fv.base.channelMap.shape = [fv.nChannels] ∧
    (ncd ≠ 0 → ∀ c ∈ fv.base.channelMap.data, cellInt c ≤ (ncd : Int) - 1) ∧
    fv.base.channelPositions.shape = [fv.nChannels, 2] ∧
    fv.channelShanks.shape = [fv.nChannels] ∧
    fv.channelProbes.shape = [fv.nChannels] ∧
    (∀ t, fv.base.templates = some t → ∃ nsw nloc, t.shape = [fv.nTemplates, nsw, nloc] ∧
      ∀ c, fv.templateCols = some c → c.shape = [fv.nTemplates, nloc]) ∧
    fv.wm.shape = [fv.nChannels, fv.nChannels] ∧
    (∀ w, fv.base.wmi = some w → w.shape = [fv.nChannels, fv.nChannels]) ∧
    fv.similar.shape = [fv.nTemplates, fv.nTemplates] := by
  obtain ⟨-, hc, -, -, hnt, -, -, -, -, h1, h2, h3, h4, -⟩ := loadFull_nf inv rate tden ncd one raw d fv d' h
  simp only [shapeChecks, List.mem_cons, List.not_mem_nil, or_false, forall_eq_or_imp, forall_eq,
    beq_iff_eq, Option.all_eq_true_iff_get, Bool.or_eq_true, List.all_eq_true, decide_eq_true_eq] at hc
  obtain ⟨c1, c2, c3, c4, c5, c6, c7, c8, c9, c10, c11, c12, c13, c14, c15⟩ := hc
  refine ⟨c1, c2, ?_, c4, c5, c6, ?_, c8, ?_, ?_, ?_, ?_, ?_, ?_⟩
  · intro a ha; exact c3 (by simp [ha]) |> fun x => by simpa [ha] using x
  · intro hn c hc'
    rcases c7 with h0 | h0
    · exact absurd h0 hn
    · exact h0 c hc'
  · rw [h1]; cases hs : fv.base.channelShanks with
    | none => rfl
    | some a => simpa [hs] using c9 (by simp [hs])
  · rw [h2]; cases hs : fv.base.channelProbes with
    | none => rfl
    | some a => simpa [hs] using c10 (by simp [hs])
  · intro t ht
    have hl : t.shape.length = 3 := by simpa [ht] using c11 (by simp [ht])
    obtain ⟨a, b, hab⟩ := shape_of_headD_len3 t.shape hl
    have hnt' : fv.nTemplates = t.shape.headD 0 := by rw [hnt, ht]
    refine ⟨a, b, by rw [hnt']; exact hab, ?_⟩
    intro c hcc
    rw [ht, hcc] at c12
    simp only [beq_iff_eq] at c12
    rw [c12, hab]
    rfl
  · rw [h3]; cases hs : fv.base.wm with
    | none => rfl
    | some a => simpa [hs] using c13 (by simp [hs])
  · intro w hw; simpa [hw] using c14 (by simp [hw])
  · rw [h4]; cases hs : fv.base.similar with
    | none => rfl
    | some a => simpa [hs] using c15 (by simp [hs])

end

section Full
open PhyVerif.C01

/-! ### monotone -/

theorem monotone_cellInt : ∀ l : List Cell, monotone l = true →
    ∀ i (h : i + 1 < l.length), cellInt l[i] ≤ cellInt l[i + 1]
  | [], _, i, h => by simp at h
  | [_], _, i, h => by simp at h
  | .num a :: .num b :: t, hm, i, h => by
    simp only [monotone, Bool.and_eq_true, decide_eq_true_eq] at hm
    cases i with
    | zero => exact hm.1
    | succ i => exact monotone_cellInt (.num b :: t) hm.2 i (by simpa using h)
  | .num _ :: .nan :: _, hm, _, _ => by simp [monotone] at hm
  | .num _ :: .inf :: _, hm, _, _ => by simp [monotone] at hm
  | .nan :: _ :: _, hm, _, _ => by simp [monotone] at hm
  | .inf :: _ :: _, hm, _, _ => by simp [monotone] at hm

/-- declarative reading of the loader's monotonicity test on numeric cells -/
theorem monotone_spec (l : List Int) : monotone (l.map Cell.num) = true ↔ NonDecreasing l := by
  constructor
  · intro h i hi
    have := monotone_cellInt _ h i (by simpa using hi)
    simpa [cellInt] using this
  · intro h
    induction l with
    | nil => rfl
    | cons a t ih =>
      cases t with
      | nil => rfl
      | cons b t' =>
        have h0 : a ≤ b := h 0 (by simp)
        have ht : NonDecreasing (b :: t') := fun i hi => by
          have := h (i + 1) (by simpa using hi)
          simpa using this
        have := ih ht
        simp only [List.map_cons] at this ⊢
        simp [monotone, h0, this]

section
variable {β : Type} (inv : Arr → Arr) (rate : Rat) (tden ncd : Nat) (one : Cell)
  (raw : Option (List (List (List β)))) (d : Dir) (fv : FullView β) (d' : Dir)

theorem loadFull_base (h : loadFull inv rate tden ncd one raw d = .ok (fv, d')) :
    load inv d one = .ok (fv.base, d') :=
  (loadFull_nf inv rate tden ncd one raw d fv d' h).1

theorem mem_names_of_lookup (f : String) (a : Arr) (h : d.lookup f = some a) : f ∈ names d := by
  apply Classical.byContradiction
  intro hn
  rw [lookup_none_of_not_mem d f hn] at h
  cases h

/-- numeric spike samples and times, both layouts -/
theorem loadFull_times (h : loadFull inv rate tden ncd one raw d = .ok (fv, d')) :
    (∀ s, d.lookup "spike_times.npy" = some s →
      fv.spikeSamples = (scrub s).data.map cellInt ∧
      fv.spikeTimes = fv.spikeSamples.map fun (k : Int) => (k : Rat) / rate) ∧
    ("spike_times.npy" ∉ names d → ∃ f t, Wins d ["spikes.times*.npy"] f ∧ d.lookup f = some t ∧
      fv.spikeTimes = (scrub t).data.map (fun c => (cellInt c : Rat) / (tden : Rat)) ∧
      ((∃ g s, Wins d ["spikes.samples*.npy"] g ∧ d.lookup g = some s ∧
          fv.spikeSamples = (scrub s).data.map cellInt) ∨
       (Absent d ["spikes.samples*.npy"] ∧
          fv.spikeSamples = fv.spikeTimes.map fun x => roundHalfEven (x * rate)))) := by
  obtain ⟨hb, -, -, -, -, -, hs, ht, -⟩ := loadFull_nf inv rate tden ncd one raw d fv d' h
  have hx := load_times inv d fv.base d' hb
  rw [hs, ht]
  rcases hx with ⟨s, h1, h2, h3⟩ | ⟨h0, f, t, hw, hl, h2, h3⟩
  · refine ⟨?_, fun hn => absurd (mem_names_of_lookup d _ s h1) hn⟩
    intro s' hs'
    rw [h1] at hs'
    injection hs' with hs'
    subst hs'
    rw [h2, h3]
    simp only [samplesVal, timesVal, squeeze, List.map_map]
    exact ⟨trivial, rfl⟩
  · refine ⟨fun s hs' => ?_, fun _ => ⟨f, t, hw, hl, ?_, ?_⟩⟩
    · exact absurd (mem_names_of_lookup d _ s hs') h0
    · rw [h2]; rfl
    · rcases h3 with ⟨g, s, hg, hgl, h4⟩ | ⟨ha, h4⟩
      · exact .inl ⟨g, s, hg, hgl, by rw [h4]; rfl⟩
      · refine .inr ⟨ha, ?_⟩
        rw [h4, h2]
        simp only [samplesVal, timesVal, squeeze, List.map_map]
        rfl

theorem loadFull_spike_attributes (h : loadFull inv rate tden ncd one raw d = .ok (fv, d')) (n : String) (x : Arr) :
    (n, x) ∈ fv.spikeAttributes ↔ IsSpikeAttr d fv.nSpikes n x := by
  obtain ⟨hb, -, -, -, -, -, -, -, -, -, -, -, -, hat, -⟩ := loadFull_nf inv rate tden ncd one raw d fv d' h
  obtain ⟨a, w, hd', -⟩ := load_dir inv d fv.base d' hb
  rw [loadSpikeAttributes_mem fv.nSpikes d' fv.spikeAttributes hat n x]
  unfold IsSpikeAttr
  constructor
  · rintro ⟨f, y, hm, h1, h2, h3, h4⟩
    have hf := (spikeAttrName_some f n).1 h1
    refine ⟨y, ?_, h2, h3, h4⟩
    rw [hd', List.mem_append, List.mem_append] at hm
    rcases hm with (hm | hm) | hm
    · rw [← hf]; exact hm
    · exfalso
      split at hm
      · simp only [List.mem_singleton, Prod.mk.injEq] at hm
        rw [hm.1] at h1
        have : spikeAttrName "spike_clusters.npy" = some "clusters" := by decide
        rw [this] at h1
        injection h1 with h1
        subst h1
        exact h2 (by decide)
      · cases hm
    · exfalso
      split at hm
      · simp only [List.mem_singleton, Prod.mk.injEq] at hm
        rw [hm.1] at h1
        have : spikeAttrName "whitening_mat_inv.npy" = none := by decide
        rw [this] at h1
        cases h1
      · cases hm
  · rintro ⟨y, hm, h2, h3, h4⟩
    refine ⟨_, y, ?_, (spikeAttrName_some _ n).2 rfl, h2, h3, h4⟩
    rw [hd', List.mem_append, List.mem_append]
    exact .inl (.inl hm)

theorem loadFull_traces (parts : List (List (List β)))
    (h : loadFull inv rate tden ncd one (some parts) d = .ok (fv, d')) (hncd : ncd ≠ 0)
    (hrect : ∀ p ∈ parts, ∀ row ∈ p, row.length = ncd)
    (hnn : ∀ c ∈ fv.base.channelMap.data, 0 ≤ cellInt c) (it : Item)
    (hd : InDom parts.flatten.length it) :
    ∃ tr, fv.traces = some tr ∧
      tracesGet parts tr it =
        ((npRows parts.flatten it).map fun rows => rows.map fun row => Np.take row (chans fv.base.channelMap)) ∧
      (∀ c ∈ chans fv.base.channelMap, c < ncd) ∧
      ∀ rows, npRows parts.flatten it = some rows → ∀ row ∈ rows,
        (Np.take row (chans fv.base.channelMap)).length = (chans fv.base.channelMap).length ∧
        ∀ k (hk : k < (chans fv.base.channelMap).length),
          (Np.take row (chans fv.base.channelMap))[k]? = row[(chans fv.base.channelMap)[k]]? := by
  obtain ⟨-, -, -, -, -, -, -, -, -, -, -, -, -, -, htr, -⟩ := loadFull_nf inv rate tden ncd one _ d fv d' h
  obtain ⟨-, -, -, -, -, hcm, hle, -⟩ := loadFull_shapes inv rate tden ncd one _ d fv d' h
  have hnn' : ∀ i ∈ cmIdx fv.base.channelMap, 0 ≤ i := by
    intro i hi
    obtain ⟨c, hc, rfl⟩ := List.mem_map.1 hi
    exact hnn c hc
  have hlt : ∀ c ∈ chans fv.base.channelMap, c < ncd := by
    intro c hc
    simp only [chans, cmIdx, List.map_map, List.mem_map, Function.comp] at hc
    obtain ⟨cell, hcell, rfl⟩ := hc
    have h1 := hle hncd cell hcell
    have h2 := hnn cell hcell
    omega
  refine ⟨_, htr, traces_permuted parts fv.base.channelMap it _ rfl hnn' hd, hlt, ?_⟩
  intro rows hrows row hrow
  have hmem := npRows_mem parts.flatten it rows hrows row hrow
  obtain ⟨p, hp, hrp⟩ := List.mem_flatten.1 hmem
  have hlen := hrect p hp row hrp
  exact take_spec row _ (fun c hc => by rw [hlen]; exact hlt c hc)

theorem loadFull_duration (h : loadFull inv rate tden ncd one raw d = .ok (fv, d')) :
    (∀ parts, raw = some parts → fv.nSamples = some parts.flatten.length ∧
      fv.duration = (parts.flatten.length : Rat) / rate) ∧
    (raw = none → fv.nSamples = none ∧ fv.duration = fv.spikeTimes.getLast?.getD 0) := by
  obtain ⟨-, -, -, -, -, -, -, -, -, -, -, -, -, -, -, hn, hdur⟩ := loadFull_nf inv rate tden ncd one raw d fv d' h
  constructor
  · intro parts hr
    subst hr
    have : fv.nSamples = some parts.flatten.length := by
      rw [hn]; simp [C01.Lemmas.nSamples_eq parts]
    exact ⟨this, by rw [hdur, this]⟩
  · intro hr
    subst hr
    have : fv.nSamples = none := by rw [hn]; rfl
    exact ⟨this, by rw [hdur, this]⟩

theorem div_mono (a b : Int) (q : Rat) (hq : 0 < q) (h : a ≤ b) : (a : Rat) / q ≤ (b : Rat) / q := by
  rw [Rat.div_def, Rat.div_def]
  exact Rat.mul_le_mul_of_nonneg_right (Rat.intCast_le_intCast.2 h) (Rat.le_of_lt (Rat.inv_pos.2 hq))

/-- the spike times of a loaded model are non-decreasing -/
theorem loadFull_times_sorted (h : loadFull inv rate tden ncd one raw d = .ok (fv, d'))
    (hr : 0 < rate) (htd : 0 < tden) :
    ∀ i (hi : i + 1 < fv.spikeTimes.length), fv.spikeTimes[i] ≤ fv.spikeTimes[i + 1] := by
  obtain ⟨hb, -, -, -, -, -, -, ht, -⟩ := loadFull_nf inv rate tden ncd one raw d fv d' h
  obtain ⟨times, samples, st, sc, cm, pos, hv, -, htm, -⟩ := load_nf inv d fv.base d' hb
  have hbt : fv.base.times = times := by rw [hv]; rfl
  have key : ∀ (cells : List Cell) (q : Rat), 0 < q → monotone cells = true →
      ∀ i (hi : i + 1 < (cells.map fun c => (cellInt c : Rat) / q).length),
        (cells.map fun c => (cellInt c : Rat) / q)[i] ≤ (cells.map fun c => (cellInt c : Rat) / q)[i + 1] := by
    intro cells q hq hm i hi
    simp only [List.getElem_map]
    exact div_mono _ _ q hq (monotone_cellInt cells hm i (by simpa using hi))
  rcases htm with ⟨s, -, h2, -, hm⟩ | ⟨-, t, -, h2, hm, -⟩
  · have e : fv.spikeTimes = (scrub s).data.map fun c => (cellInt c : Rat) / rate := by
      rw [ht, hbt, h2]; rfl
    intro i hi
    simp only [e] at hi ⊢
    exact key _ rate hr hm i hi
  · have e : fv.spikeTimes = (scrub t).data.map fun c => (cellInt c : Rat) / (tden : Rat) := by
      rw [ht, hbt, h2]; rfl
    intro i hi
    simp only [e] at hi ⊢
    exact key _ tden (Rat.natCast_pos.2 htd) hm i hi

end

end Full

theorem loadFull_uncurated_without_templates {β : Type} (inv : Arr → Arr) (rate : Rat) (tden ncd : Nat) (one : Cell)
    (raw : Option (List (List (List β)))) (d : Dir) (fv : FullView β) (d' : Dir)
    (h : loadFull inv rate tden ncd one raw d = .ok (fv, d')) (ht : fv.base.templates = none) :
    fv.base.spikeClusters.data = fv.base.spikeTemplates.data := by
  unfold loadFull at h
  simp only [bind, Except.bind, pure, Except.pure, throw, throwThe, MonadExceptOf.throw] at h
  cases hl : load inv d one with
  | error e => simp [hl] at h
  | ok r =>
    obtain ⟨v, dd⟩ := r
    simp only [hl] at h
    split at h
    · cases h
    · split at h
      · cases h
      · next hcur =>
        split at h
        · cases h
        · injection h with h
          injection h with h1 h2
          subst h1
          simp only at ht
          simpa [ht] using hcur

end PhyVerif.C04.Lemmas
