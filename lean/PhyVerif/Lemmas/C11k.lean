import PhyVerif.Lemmas.C11j
/-! In-domain probe directories are merged without exception. -/
namespace PhyVerif.C11.Lemmas
open PhyVerif PhyVerif.C11

theorem step_next (out : String) (c : Compute) (rest : List (FS × Reg → M (FS × Reg))) (fs0 fs : FS)
    (reg reg' : Reg) (ws : List (String × File)) (hag : Agree out fs0 fs) (hc : c fs reg = .ok (ws, reg'))
    (hnext : ∀ fs', Agree out fs0 fs' → (runSteps rest (fs', reg')).2 = none) :
    (runSteps (saveStep out c :: rest) (fs, reg)).2 = none := by
  rw [runSteps_cons_ok _ _ _ _ (saveStep_run out c fs reg reg' ws hc)]
  exact hnext _ (agree_save out fs0 fs ws hag)

theorem merge_succeeds (fs : FS) (subdirs : List String) (out : String) (hout : out ∉ subdirs)
    (I : Inputs) (hL : Loaded fs subdirs I) (hD : InDomain subdirs I) :
    (merge fs subdirs out).2 = none := by
  obtain ⟨l1, l3, l4, l5, l6, l7, l8, l9, l10, l11, l12, l13, l14, l15, l16, l17⟩ := hL
  obtain ⟨d0, dsc, dst, dmaps, dpos, k3, k4, k5, k6, n4, n5, n6, k12, k13, k14⟩ := hD
  have hsub : subdirs.isEmpty = false := by cases subdirs <;> simp_all
  -- params of at least one probe
  obtain ⟨p, hp⟩ : ∃ p, C12.mergeParams I.params = some p := by
    have hlen := loadEach_length _ _ _ l1
    cases hps : I.params with
    | nil => rw [hps] at hlen; cases subdirs <;> simp_all
    | cons a t => exact ⟨_, rfl⟩
  have hscl := loadEach_length _ _ _ l6
  have hstl := loadEach_length _ _ _ l5
  have htl := loadEach_length _ _ _ l12
  have hsc0 : I.clusters ≠ [] := by intro h; rw [h] at hscl; cases subdirs <;> simp_all
  unfold merge
  rw [hsub]
  simp only [Bool.false_eq_true, if_false, computes, tsvNames, miscNames, List.map_cons, List.map_nil,
    List.cons_append, List.nil_append]
  -- 1 params
  refine step_next out _ _ fs fs _ _ _ (agree_refl out fs) (cParams_run subdirs fs _ _ p l1 hp) ?_
  intro f1 a1
  -- 2 probe description
  refine step_next out (cProbeDesc subdirs) _ fs f1 _ _ _ a1 rfl ?_
  intro f2 a2
  -- 3 spike times
  refine step_next out _ _ fs f2 _ _ _ a2
    (cSpikeTimes_run subdirs f2 _ I.times ((loadInts_congr f2 fs subdirs out hout a2 _).trans l3) k3) ?_
  intro f3 a3
  -- 4 amplitudes
  refine step_next out _ _ fs f3 _ _ _ a3
    (cAmplitudes_run subdirs f3 _ I.amps ((loadInts_congr f3 fs subdirs out hout a3 _).trans l4) k4
      (by show _ = (spikeOrder I.times).length; rw [spikeOrder_length]; exact n4)) ?_
  intro f4 a4
  -- 5 spike templates (unshifted)
  refine step_next out _ _ fs f4 _ _ _ a4
    (cSpikeTemplatesRaw_run subdirs f4 _ I.templates ((loadNats_congr f4 fs subdirs out hout a4 _).trans l5) k5
      (by show _ = (spikeOrder I.times).length; rw [spikeOrder_length]; exact n5)) ?_
  intro f5 a5
  -- 6 spike clusters, shifted templates, probe table
  have hcounts : loadEach (readTemplateCount f5) (subdirs.zip (I.clusters.zip I.templates)) =
      .ok (I.tmpl.map List.length) :=
    (loadCount_congr f5 fs subdirs out hout a5 _).trans
      (counts_run fs subdirs I.clusters I.templates I.tmpl hscl hstl l12 dsc dst)
  refine step_next out _ _ fs f5 _ _ _ a5
    (cSpikeClusters_run subdirs f5 _ I.clusters I.templates (I.tmpl.map List.length)
      ((loadNats_congr f5 fs subdirs out hout a5 _).trans l6) ((loadNats_congr f5 fs subdirs out hout a5 _).trans l5)
      hcounts k6 k5
      (by show _ = (spikeOrder I.times).length; rw [spikeOrder_length, shiftIds_flatten_length]; exact n6)
      (by show _ = (spikeOrder I.times).length
          rw [spikeOrder_length, shiftBy_flatten_length _ _ (templateOffsets_length _ _ (by simp; omega))]
          exact n5)
      ((clusterProbes_length I.times I.clusters n6 dsc hsc0).1.symm)) ?_
  intro f6 a6
  -- 7-9 per-cluster files
  refine step_next out _ _ fs f6 _ _ _ a6
    (cClusterData_run subdirs f6 _ _ _ ((loadTsvOpt_congr f6 fs subdirs out hout a6 _).trans l7)) ?_
  intro f7 a7
  refine step_next out _ _ fs f7 _ _ _ a7
    (cClusterData_run subdirs f7 _ _ _ ((loadTsvOpt_congr f7 fs subdirs out hout a7 _).trans l8)) ?_
  intro f8 a8
  refine step_next out _ _ fs f8 _ _ _ a8
    (cClusterData_run subdirs f8 _ _ _ ((loadTsvOpt_congr f8 fs subdirs out hout a8 _).trans l9)) ?_
  intro f9 a9
  -- 10-14 channels, positions, templates, index tables
  refine step_next out _ _ fs f9 _ _ _ a9
    (cChannelData_run subdirs f9 _ _ ((loadNats_congr f9 fs subdirs out hout a9 _).trans l10) dmaps) ?_
  intro f10 a10
  refine step_next out _ _ fs f10 _ _ _ a10
    (cChannelPositions_run subdirs f10 _ _ ((loadPos_congr f10 fs subdirs out hout a10 _).trans l11) dpos) ?_
  intro f11 a11
  refine step_next out _ _ fs f11 _ _ _ a11
    (cTemplates_run subdirs f11 _ _ ((loadTmpl_congr f11 fs subdirs out hout a11 _).trans l12) k12) ?_
  intro f12 a12
  refine step_next out _ _ fs f12 _ _ _ a12
    (cPcInd_run subdirs f12 _ _ ((loadTable_congr f12 fs subdirs out hout a12 _).trans l13) k13) ?_
  intro f13 a13
  refine step_next out _ _ fs f13 _ _ _ a13
    (cTfInd_run subdirs f13 _ _ ((loadTable_congr f13 fs subdirs out hout a13 _).trans l14) k14) ?_
  intro f14 a14
  -- 15-17 optional matrices
  refine step_next out _ _ fs f14 _ _ _ a14
    (cMisc_run subdirs f14 _ _ _ ((loadMatOpt_congr f14 fs subdirs out hout a14 _).trans l15)) ?_
  intro f15 a15
  refine step_next out _ _ fs f15 _ _ _ a15
    (cMisc_run subdirs f15 _ _ _ ((loadMatOpt_congr f15 fs subdirs out hout a15 _).trans l16)) ?_
  intro f16 a16
  refine step_next out _ _ fs f16 _ _ _ a16
    (cMisc_run subdirs f16 _ _ _ ((loadMatOpt_congr f16 fs subdirs out hout a16 _).trans l17)) ?_
  intro f17 a17
  -- 18 the final load
  obtain ⟨ws, hws⟩ := cLoadModel_run f17 _ out
  refine step_next out _ [] fs f17 _ _ _ a17 hws ?_
  intro f18 _
  rfl

theorem merge_returns_iff (fs : FS) (subdirs : List String) (out : String) (hout : out ∉ subdirs) :
    (merge fs subdirs out).2 = none ↔ ∃ I, Loaded fs subdirs I ∧ InDomain subdirs I :=
  ⟨fun h => by
      obtain ⟨I, hL, hD, _⟩ := merge_ok fs subdirs out (merge fs subdirs out).1.1 (merge fs subdirs out).1.2
        (by rw [← h]) hout
      exact ⟨I, hL, hD⟩,
   fun ⟨I, hL, hD⟩ => merge_succeeds fs subdirs out hout I hL hD⟩

end PhyVerif.C11.Lemmas
