import PhyVerif.Model.C07
import PhyVerif.Spec.C07
/-! Helper lemmas and full proofs for C07. Statements: `Props/C07.lean`. -/
namespace PhyVerif.C07.Lemmas
open PhyVerif PhyVerif.C07

theorem diff_no_wrap (w : Nat) (signed : Bool) (a b : Nat) (hw : 0 < w) (hab : a ≤ b)
    (hb : (b : Int) < (if signed then 2 ^ (w - 1) else 2 ^ w)) :
    (wrapDiff w signed a b > 0 ↔ a < b) := by
  obtain ⟨k, rfl⟩ : ∃ k, w = k + 1 := ⟨w - 1, by omega⟩
  simp only [Nat.add_sub_cancel] at hb
  have h2 : (2 : Int) ^ (k + 1) = 2 * 2 ^ k := by rw [Int.pow_succ]; omega
  have hpos : (0 : Int) < 2 ^ k := Int.pow_pos (by decide)
  unfold wrapDiff
  cases signed
  · simp only [Bool.false_eq_true, if_false] at hb
    have hmod : ((b : Int) - (a : Int)) % 2 ^ (k + 1) = (b : Int) - a :=
      Int.emod_eq_of_lt (by omega) (by omega)
    simp only [Bool.false_and, Bool.false_eq_true, if_false, hmod]
    omega
  · simp only [if_true] at hb
    have hmod : ((b : Int) - (a : Int)) % 2 ^ (k + 1) = (b : Int) - a :=
      Int.emod_eq_of_lt (by omega) (by omega)
    have hdiv : (2 : Int) ^ (k + 1) / 2 = 2 ^ k := by rw [h2]; omega
    simp only [Bool.true_and, hmod, hdiv]
    have : ¬ ((b : Int) - a ≥ 2 ^ k) := by omega
    simp only [decide_eq_true_eq, this, if_false]
    omega

/-! ### unique -/

theorem mem_insertSorted (x v : Nat) (l : List Nat) :
    v ∈ Np.insertSorted x l ↔ v = x ∨ v ∈ l := by
  induction l with
  | nil => simp [Np.insertSorted]
  | cons y ys ih =>
    unfold Np.insertSorted
    split
    · simp
    · split
      · subst_vars; simp
      · simp only [List.mem_cons, ih]
        constructor <;> rintro (h | h | h) <;> simp [h]

theorem pairwise_insertSorted (x : Nat) (l : List Nat) (h : l.Pairwise (· < ·)) :
    (Np.insertSorted x l).Pairwise (· < ·) := by
  induction l with
  | nil => simp [Np.insertSorted]
  | cons y ys ih =>
    rw [List.pairwise_cons] at h
    unfold Np.insertSorted
    split
    · rename_i hxy
      refine List.pairwise_cons.2 ⟨?_, List.pairwise_cons.2 h⟩
      intro z hz
      rcases List.mem_cons.1 hz with rfl | hz
      · exact hxy
      · exact Nat.lt_trans hxy (h.1 z hz)
    · split
      · exact List.pairwise_cons.2 h
      · refine List.pairwise_cons.2 ⟨?_, ih h.2⟩
        intro z hz
        rcases (mem_insertSorted x z ys).1 hz with rfl | hz
        · omega
        · exact h.1 z hz

theorem unique_fold (l : List Int) (acc : List Nat) (hacc : acc.Pairwise (· < ·)) :
    (l.foldl (fun acc v => Np.insertSorted v.toNat acc) acc).Pairwise (· < ·) ∧
    ∀ v, v ∈ l.foldl (fun acc v => Np.insertSorted v.toNat acc) acc ↔
      (v ∈ acc ∨ ∃ a ∈ l, a.toNat = v) := by
  induction l generalizing acc with
  | nil => simp [hacc]
  | cons a as ih =>
    simp only [List.foldl_cons]
    obtain ⟨h1, h2⟩ := ih (Np.insertSorted a.toNat acc) (pairwise_insertSorted _ _ hacc)
    refine ⟨h1, fun v => ?_⟩
    rw [h2, mem_insertSorted]
    simp only [List.mem_cons, exists_eq_or_imp]
    constructor
    · rintro ((h | h) | h)
      · exact Or.inr (Or.inl h.symm)
      · exact Or.inl h
      · exact Or.inr (Or.inr h)
    · rintro (h | h | h)
      · exact Or.inl (Or.inr h)
      · exact Or.inl (Or.inl h.symm)
      · exact Or.inr h

theorem unique_spec (l : List Int) :
    IsSortedSetOf (Np.unique l) (fun v => Int.ofNat v ∈ l) := by
  unfold Np.unique IsSortedSetOf
  obtain ⟨h1, h2⟩ := unique_fold (l.filter (0 ≤ ·)) [] List.Pairwise.nil
  refine ⟨h1, fun v => ?_⟩
  rw [h2]
  simp only [List.not_mem_nil, false_or, List.mem_filter, decide_eq_true_eq]
  constructor
  · rintro ⟨a, ⟨ha, h0⟩, rfl⟩
    have : Int.ofNat a.toNat = a := by simp; omega
    rw [this]; exact ha
  · intro h
    exact ⟨Int.ofNat v, ⟨h, by simp⟩, by simp⟩


/-! ### members / spikesInClusters -/

theorem members_none (sc : List Nat) (c : Nat) :
    members sc none c = (List.range sc.length).filter fun i => sc.getD i 0 == c := by
  unfold members
  conv => rhs; rw [← List.map_id ((List.range sc.length).filter fun i => sc.getD i 0 == c)]
  apply List.map_congr_left
  intro i hi
  have hi' : i < sc.length := List.mem_range.1 (List.mem_filter.1 hi).1
  simp [List.getD_eq_getElem?_getD, List.getElem?_range hi']

theorem clusterSpikes_eq_members (sc : List Nat) (c : Nat) :
    spikesInClusters sc [c] = members sc none c := by
  rw [members_none]
  unfold spikesInClusters
  cases sc with
  | nil => simp
  | cons x xs =>
    simp only [List.isEmpty_cons, Bool.or_self, Bool.false_eq_true, if_false]
    apply List.filter_congr
    intro i _
    rw [Bool.eq_iff_iff]; simp only [List.contains_eq_mem, List.mem_singleton, decide_eq_true_eq, beq_iff_eq]

theorem spikesInClusters_eq_union (sc cl : List Nat) :
    IsSortedSetOf (spikesInClusters sc cl) (fun i => ∃ c ∈ cl, i ∈ members sc none c) := by
  unfold IsSortedSetOf spikesInClusters
  simp only [members_none]
  split
  · rename_i h
    refine ⟨List.Pairwise.nil, fun v => ?_⟩
    simp only [Bool.or_eq_true, List.isEmpty_iff] at h
    rcases h with rfl | rfl <;> simp
  · refine ⟨List.Pairwise.filter _ List.pairwise_lt_range, fun v => ?_⟩
    simp only [List.mem_filter, List.mem_range, List.contains_eq_mem, decide_eq_true_eq,
      beq_iff_eq]
    constructor
    · rintro ⟨h1, h2⟩
      exact ⟨_, h2, h1, rfl⟩
    · rintro ⟨c, hc, h1, rfl⟩
      exact ⟨h1, hc⟩

theorem flatten_spec (d : List (Nat × List Nat)) :
    IsSortedSetOf (flattenPerCluster d) (fun v => ∃ p ∈ d, v ∈ p.2) := by
  unfold flattenPerCluster
  obtain ⟨h1, h2⟩ := unique_spec ((d.map (·.2)).flatten.map Int.ofNat)
  refine ⟨h1, fun v => ?_⟩
  rw [h2]
  simp only [List.mem_map, List.mem_flatten]
  constructor
  · rintro ⟨a, ⟨l, ⟨p, hp, rfl⟩, ha⟩, hav⟩
    have : a = v := Int.ofNat.inj hav
    subst this
    exact ⟨p, hp, ha⟩
  · rintro ⟨p, hp, hv⟩
    exact ⟨v, ⟨p.2, ⟨p, hp, rfl⟩, hv⟩, rfl⟩

/-! ### foldl max -/

theorem le_foldl_max (l : List Nat) (a : Nat) :
    a ≤ l.foldl max a ∧ ∀ x ∈ l, x ≤ l.foldl max a := by
  induction l generalizing a with
  | nil => simp
  | cons y ys ih =>
    simp only [List.foldl_cons, List.mem_cons]
    obtain ⟨h1, h2⟩ := ih (max a y)
    refine ⟨by omega, ?_⟩
    rintro x (rfl | hx)
    · omega
    · exact h2 x hx

theorem foldl_max_le (l : List Nat) (a b : Nat) (ha : a ≤ b) (h : ∀ x ∈ l, x ≤ b) :
    l.foldl max a ≤ b := by
  induction l generalizing a with
  | nil => simpa
  | cons y ys ih =>
    simp only [List.foldl_cons]
    apply ih
    · have := h y (by simp); omega
    · intro x hx; exact h x (by simp [hx])

/-! ### bincount -/

theorem range_filter_length (p : Nat → Bool) (sc : List Nat) :
    ((List.range sc.length).filter fun i => p (sc.getD i 0)).length = sc.countP p := by
  induction sc with
  | nil => simp
  | cons x xs ih =>
    simp only [List.length_cons, List.range_succ_eq_map, List.filter_cons, List.filter_map,
      List.countP_cons]
    rw [← ih]
    by_cases hx : p x <;> simp [hx, Function.comp_def]

theorem templateCounts_spec (sc st : List Nat) (nt c : Nat) (hlen : st.length = sc.length)
    (hst : ∀ t ∈ st, t < nt) :
    (templateCounts sc st nt c).length = nt ∧
    ∀ t, t < nt → (templateCounts sc st nt c).getD t 0 =
      ((List.range sc.length).filter fun i => sc.getD i 0 == c && st.getD i 0 == t).length := by
  unfold templateCounts
  rw [clusterSpikes_eq_members, members_none]
  unfold Np.bincount
  have hm : max nt (if (List.map (fun i => st.getD i 0)
      (List.filter (fun i => sc.getD i 0 == c) (List.range sc.length))).isEmpty = true then 0
      else List.foldl max 0 (List.map (fun i => st.getD i 0)
        (List.filter (fun i => sc.getD i 0 == c) (List.range sc.length))) + 1) = nt := by
    split
    · omega
    · rename_i hne
      have hpos : 0 < nt := by
        cases hnt : nt with
        | zero =>
          exfalso; apply hne
          cases st with
          | nil =>
            have : sc = [] := List.eq_nil_of_length_eq_zero (by simpa using hlen.symm)
            subst this; simp
          | cons a as => have := hst a (by simp); omega
        | succ k => omega
      have : List.foldl max 0 (List.map (fun i => st.getD i 0)
          (List.filter (fun i => sc.getD i 0 == c) (List.range sc.length))) ≤ nt - 1 := by
        apply foldl_max_le _ _ _ (Nat.zero_le _)
        intro x hx
        obtain ⟨i, hi, rfl⟩ := List.mem_map.1 hx
        have hi' : i < st.length := by
          rw [hlen]; exact List.mem_range.1 (List.mem_filter.1 hi).1
        have := hst (st.getD i 0) (by
          rw [List.getD_eq_getElem?_getD, List.getElem?_eq_getElem hi']; simp)
        omega
      omega
  simp only [hm]
  refine ⟨by simp, fun t ht => ?_⟩
  rw [List.getD_eq_getElem?_getD, List.getElem?_map, List.getElem?_range ht]
  simp only [Option.map_some, Option.getD_some]
  rw [List.count_eq_countP, List.countP_map, List.countP_eq_length_filter, List.filter_filter]
  congr 1
  apply List.filter_congr
  intro i _
  simp [Bool.and_comm]


/-! ### indexOf -/

theorem table_fold (l : List Nat) (k : Nat) (t : List Int) :
    ((l.zipIdx k).foldl (fun t (p : Nat × Nat) => t.set p.1 (p.2 : Int)) t).length = t.length ∧
    (∀ v, v ∉ l →
      ((l.zipIdx k).foldl (fun t (p : Nat × Nat) => t.set p.1 (p.2 : Int)) t)[v]? = t[v]?) ∧
    (l.Nodup → ∀ v, v ∈ l → v < t.length →
      ((l.zipIdx k).foldl (fun t (p : Nat × Nat) => t.set p.1 (p.2 : Int)) t)[v]? =
        some ((k + l.idxOf v : Nat) : Int)) := by
  induction l generalizing k t with
  | nil => simp
  | cons x xs ih =>
    simp only [List.zipIdx_cons, List.foldl_cons]
    obtain ⟨h1, h2, h3⟩ := ih (k + 1) (t.set x (k : Int))
    refine ⟨by simpa using h1, ?_, ?_⟩
    · intro v hv
      simp only [List.mem_cons, not_or] at hv
      rw [h2 v hv.2, List.getElem?_set]
      have : ¬ x = v := fun e => hv.1 e.symm
      simp [this]
    · intro hnd v hv hlt
      rw [List.nodup_cons] at hnd
      by_cases hvx : v = x
      · subst hvx
        rw [h2 v hnd.1, List.getElem?_set]
        simp [hlt]
      · have hv' : v ∈ xs := by simpa [hvx] using hv
        rw [h3 hnd.2 v hv' (by simpa using hlt), List.idxOf_cons]
        have : (x == v) = false := by simp; exact fun e => hvx e.symm
        simp only [this, cond_false]
        congr 2; omega

theorem indexTable_get (lookup : List Nat) (hl : lookup.Nodup) (v : Nat) (hv : v ∈ lookup) :
    (Np.indexTable lookup)[v]? = some (Int.ofNat (lookup.idxOf v)) := by
  unfold Np.indexTable
  have hle : v ≤ lookup.foldl max 0 := (le_foldl_max lookup 0).2 v hv
  have := (table_fold lookup 0 ((List.replicate (lookup.foldl max 0 + 1 + 1) (0 : Int)).set
    (lookup.foldl max 0 + 1) (-1))).2.2 hl v hv (by simp; omega)
  simpa using this

theorem mapM_eq_some_map {α β : Type} (f : α → Option β) (g : α → β) (l : List α)
    (h : ∀ a ∈ l, f a = some (g a)) : l.mapM f = some (l.map g) := by
  induction l with
  | nil => simp
  | cons a as ih =>
    rw [List.mapM_cons, h a (by simp), ih (fun b hb => h b (by simp [hb]))]
    simp

theorem indexOf_spec (arr : List Int) (lookup : List Nat) (hl : lookup.Nodup)
    (ha : ∀ a ∈ arr, 0 ≤ a ∧ a.toNat ∈ lookup) :
    Np.indexOf arr lookup = some (arr.map fun a => Int.ofNat (lookup.idxOf a.toNat)) := by
  unfold Np.indexOf
  apply mapM_eq_some_map
  intro a haa
  obtain ⟨h0, hm⟩ := ha a haa
  unfold Np.pyGet?
  rw [if_pos h0]
  exact indexTable_get lookup hl _ hm


/-! ### groupedMean -/

theorem distinctSorted_spec (sc : List Nat) :
    (distinctSorted sc).Pairwise (· < ·) ∧ ∀ v, v ∈ distinctSorted sc ↔ v ∈ sc := by
  obtain ⟨h1, h2⟩ := unique_spec (sc.map Int.ofNat)
  refine ⟨h1, fun v => ?_⟩
  unfold distinctSorted
  refine (h2 v).trans ?_
  show Int.ofNat v ∈ List.map Int.ofNat sc ↔ _
  rw [List.mem_map]
  constructor
  · rintro ⟨a, ha, hav⟩
    rw [← Int.ofNat.inj hav]; exact ha
  · intro hv; exact ⟨v, hv, rfl⟩

theorem addAt_length (t : List Int) (is : List Nat) (as : List Int) :
    (addAt t is as).length = t.length := by
  induction is generalizing t as with
  | nil => simp [addAt]
  | cons i is ih =>
    cases as with
    | nil => simp [addAt]
    | cons a as => simp [addAt, ih]

theorem addAt_getD (t : List Int) (is : List Nat) (as : List Int) (j : Nat) (hj : j < t.length) :
    (addAt t is as).getD j 0 =
      t.getD j 0 + (((is.zip as).filter (fun q => q.1 == j)).map (·.2)).sum := by
  induction is generalizing t as with
  | nil => simp [addAt]
  | cons i is ih =>
    cases as with
    | nil => simp [addAt]
    | cons a as =>
      simp only [addAt, List.zip_cons_cons, List.filter_cons]
      rw [ih _ _ (by simpa using hj)]
      by_cases hij : i = j
      · subst hij
        simp [List.getD_eq_getElem?_getD, hj, Int.add_assoc]
      · simp [List.getD_eq_getElem?_getD, hij]

theorem range_filter_map_getD (p : Nat → Bool) (sc : List Nat) (arr : List Int)
    (h : arr.length = sc.length) :
    ((List.range sc.length).filter fun i => p (sc.getD i 0)).map (fun i => arr.getD i 0) =
      ((sc.zip arr).filter fun q => p q.1).map (·.2) := by
  induction sc generalizing arr with
  | nil => simp
  | cons x xs ih =>
    cases arr with
    | nil => simp at h
    | cons a as =>
      have h' : as.length = xs.length := by simpa using h
      simp only [List.length_cons, List.range_succ_eq_map, List.filter_cons, List.filter_map,
        List.zip_cons_cons]
      have ih' := ih as h'
      by_cases hx : p x <;> simp [hx, Function.comp_def, ← ih']

theorem idxOf_beq (D : List Nat) (hnd : D.Nodup) (c : Nat) (hc : c ∈ D) (j : Nat)
    (hj : j < D.length) : (D.idxOf c == j) = (c == D[j]) := by
  rw [Bool.eq_iff_iff]
  simp only [beq_iff_eq]
  constructor
  · intro h
    have hlt : D.idxOf c < D.length := List.idxOf_lt_length_iff.2 hc
    have := List.getElem_idxOf hlt
    subst h; exact this.symm
  · intro h
    subst h; exact hnd.idxOf_getElem j hj

theorem bincount_idx (sc : List Nat) :
    Np.bincount (sc.map fun c => (distinctSorted sc).idxOf c) =
      (distinctSorted sc).map fun c =>
        ((List.range sc.length).filter fun i => sc.getD i 0 == c).length := by
  obtain ⟨hpw, hmem⟩ := distinctSorted_spec sc
  have hnd : (distinctSorted sc).Nodup := hpw.imp (fun h => Nat.ne_of_lt h)
  have hm : max 0 (if (sc.map fun c => (distinctSorted sc).idxOf c).isEmpty = true then 0
      else (sc.map fun c => (distinctSorted sc).idxOf c).foldl max 0 + 1) =
      (distinctSorted sc).length := by
    cases hsc : sc with
    | nil => simp [distinctSorted, Np.unique]
    | cons x xs =>
      rw [← hsc]
      have hne : ¬ (sc.map fun c => (distinctSorted sc).idxOf c).isEmpty = true := by
        simp [hsc]
      rw [if_neg hne]
      have hpos : 0 < (distinctSorted sc).length :=
        List.length_pos_of_mem ((hmem x).2 (by simp [hsc]))
      have hle : (sc.map fun c => (distinctSorted sc).idxOf c).foldl max 0 ≤
          (distinctSorted sc).length - 1 := by
        apply foldl_max_le _ _ _ (Nat.zero_le _)
        intro y hy
        obtain ⟨c, hc, rfl⟩ := List.mem_map.1 hy
        have := List.idxOf_lt_length_iff.2 ((hmem c).2 hc)
        omega
      have hge : (distinctSorted sc).length - 1 ≤
          (sc.map fun c => (distinctSorted sc).idxOf c).foldl max 0 := by
        apply (le_foldl_max _ 0).2
        apply List.mem_map.2
        refine ⟨(distinctSorted sc)[(distinctSorted sc).length - 1]'(by omega), ?_, ?_⟩
        · exact (hmem _).1 (List.getElem_mem _)
        · exact hnd.idxOf_getElem _ _
      omega
  unfold Np.bincount
  simp only [hm]
  apply List.ext_getElem
  · simp
  · intro j h1 h2
    have hj : j < (distinctSorted sc).length := by simpa using h2
    simp only [List.getElem_map, List.getElem_range]
    rw [range_filter_length (fun v => v == (distinctSorted sc)[j]) sc, List.count_eq_countP,
      List.countP_map]
    apply List.countP_congr
    intro c hc
    simp only [Function.comp_def]
    rw [idxOf_beq _ hnd c ((hmem c).2 hc) j hj]

theorem addAt_idx (arr : List Int) (sc : List Nat) (h : arr.length = sc.length) :
    addAt (List.replicate (distinctSorted sc).length 0)
        (sc.map fun c => (distinctSorted sc).idxOf c) arr =
      (distinctSorted sc).map fun c =>
        (((List.range sc.length).filter fun i => sc.getD i 0 == c).map
          fun i => arr.getD i 0).sum := by
  obtain ⟨hpw, hmem⟩ := distinctSorted_spec sc
  have hnd : (distinctSorted sc).Nodup := hpw.imp (fun h => Nat.ne_of_lt h)
  apply List.ext_getElem
  · simp [addAt_length]
  · intro j h1 h2
    have hj : j < (distinctSorted sc).length := by simpa using h2
    have := addAt_getD (List.replicate (distinctSorted sc).length 0)
      (sc.map fun c => (distinctSorted sc).idxOf c) arr j (by simpa using hj)
    rw [List.getD_eq_getElem?_getD, List.getElem?_eq_getElem h1] at this
    simp only [Option.getD_some] at this
    rw [this, List.getElem_map,
      range_filter_map_getD (fun v => v == (distinctSorted sc)[j]) sc arr h]
    simp only [List.getD_eq_getElem?_getD, List.getElem?_replicate, hj, if_true,
      Option.getD_some, Int.zero_add, List.zip_map_left, List.filter_map, List.map_map]
    congr 1
    have : (List.filter ((fun q : Nat × Int => q.1 == j) ∘
        Prod.map (fun c => List.idxOf c (distinctSorted sc)) id) (sc.zip arr)) =
        (List.filter (fun q => q.1 == (distinctSorted sc)[j]) (sc.zip arr)) := by
      apply List.filter_congr
      intro q hq
      have hq1 : q.1 ∈ sc := (List.of_mem_zip hq).1
      simp only [Function.comp_def, Prod.map_fst]
      exact idxOf_beq _ hnd q.1 ((hmem _).2 hq1) j hj
    rw [this]
    apply List.map_congr_left
    intro q _
    simp

theorem groupedMean_spec (arr : List Int) (sc : List Nat) (h : arr.length = sc.length) :
    groupedMean arr sc = some (groupedSums arr sc) := by
  obtain ⟨hpw, hmem⟩ := distinctSorted_spec sc
  have hnd : (distinctSorted sc).Nodup := hpw.imp (fun h => Nat.ne_of_lt h)
  have hidx := indexOf_spec (sc.map Int.ofNat) (distinctSorted sc) hnd (by
    intro a ha
    obtain ⟨c, hc, rfl⟩ := List.mem_map.1 ha
    exact ⟨by simp, by simpa using (hmem c).2 hc⟩)
  have hreln : (((sc.map Int.ofNat).map fun a =>
      Int.ofNat ((distinctSorted sc).idxOf a.toNat)).map Int.toNat) =
      sc.map fun c => (distinctSorted sc).idxOf c := by
    simp [List.map_map, Function.comp_def]
  unfold groupedMean
  show (do
    let rel ← Np.indexOf (sc.map Int.ofNat) (distinctSorted sc)
    pure ((addAt (List.replicate (distinctSorted sc).length 0) (rel.map Int.toNat) arr).zip
      (Np.bincount (rel.map Int.toNat)))) = _
  rw [hidx]
  simp only [Option.bind_eq_bind, Option.bind_some, Option.pure_def]
  rw [hreln, bincount_idx, addAt_idx arr sc h, List.zip_map']
  rfl


/-! ### stable insertion sort -/

theorem insertBy_all {α : Type} (le : α → α → Bool) (x : α) (L : List α)
    (h : ∀ y ∈ L, le x y = true) : Np.insertBy le x L = x :: L := by
  cases L with
  | nil => rfl
  | cons y ys => simp [Np.insertBy, h y (by simp)]

theorem insertBy_append {α : Type} (le : α → α → Bool) (x : α) (A B : List α)
    (h : ∀ y ∈ A, le x y = false) :
    Np.insertBy le x (A ++ B) = A ++ Np.insertBy le x B := by
  induction A with
  | nil => rfl
  | cons y ys ih =>
    simp [Np.insertBy, h y (by simp), ih (fun z hz => h z (by simp [hz]))]

theorem insertBy_perm {α : Type} (le : α → α → Bool) (x : α) (L : List α) :
    (Np.insertBy le x L).Perm (x :: L) := by
  induction L with
  | nil => exact List.Perm.refl _
  | cons y ys ih =>
    unfold Np.insertBy
    split
    · exact List.Perm.refl _
    · exact (ih.cons y).trans (List.Perm.swap x y ys)

theorem isort_perm {α : Type} (le : α → α → Bool) (l : List α) : (Np.isort le l).Perm l := by
  induction l with
  | nil => exact List.Perm.refl _
  | cons x xs ih =>
    unfold Np.isort
    exact (insertBy_perm le x _).trans (ih.cons x)

abbrev leKey : Nat × Nat → Nat × Nat → Bool := fun a b => decide (a.1 ≤ b.1)

theorem flatMap_congr' {α β : Type} (l : List α) (f g : α → List β)
    (h : ∀ a ∈ l, f a = g a) : l.flatMap f = l.flatMap g := by
  rw [List.flatMap_def, List.flatMap_def, List.map_congr_left h]

theorem insertBy_blocks (x : Nat × Nat) (xs : List (Nat × Nat)) (D : List Nat)
    (hD : D.Pairwise (· < ·)) (hx : x.1 ∈ D) :
    Np.insertBy leKey x (D.flatMap fun c => xs.filter (·.1 == c)) =
      D.flatMap fun c => (x :: xs).filter (·.1 == c) := by
  induction D with
  | nil => simp at hx
  | cons d ds ih =>
    rw [List.pairwise_cons] at hD
    simp only [List.flatMap_cons]
    by_cases hxd : x.1 = d
    · have hrest : (ds.flatMap fun c => (x :: xs).filter (·.1 == c)) =
          ds.flatMap fun c => xs.filter (·.1 == c) := by
        apply flatMap_congr'
        intro c hc
        have := hD.1 c hc
        rw [List.filter_cons, if_neg (by simp; omega)]
      rw [hrest, List.filter_cons, if_pos (by simp [hxd]), List.cons_append]
      apply insertBy_all
      intro y hy
      rcases List.mem_append.1 hy with hy | hy
      · have := (List.mem_filter.1 hy).2
        simp only [beq_iff_eq] at this
        simp; omega
      · obtain ⟨c, hc, hyc⟩ := List.mem_flatMap.1 hy
        have := (List.mem_filter.1 hyc).2
        simp only [beq_iff_eq] at this
        have := hD.1 c hc
        simp; omega
    · have hx' : x.1 ∈ ds := by simpa [hxd] using hx
      have hlt := hD.1 _ hx'
      rw [List.filter_cons, if_neg (by simp [hxd]), insertBy_append, ih hD.2 hx']
      intro y hy
      have := (List.mem_filter.1 hy).2
      simp only [beq_iff_eq] at this
      simp; omega

theorem isort_blocks (l : List (Nat × Nat)) (D : List Nat) (hD : D.Pairwise (· < ·))
    (hl : ∀ q ∈ l, q.1 ∈ D) :
    Np.isort leKey l = D.flatMap fun c => l.filter (·.1 == c) := by
  induction l with
  | nil => simp [Np.isort]
  | cons x xs ih =>
    unfold Np.isort
    rw [ih (fun q hq => hl q (by simp [hq])), insertBy_blocks x xs D hD (hl x (by simp))]


/-! ### boundaries and cutting on a list of blocks -/

def bnd (w : Nat) (s : Bool) : Nat → Nat → List Nat → List Nat
  | _, _, [] => []
  | prev, off, k :: ks =>
    if wrapDiff w s prev k > 0 then off :: bnd w s k (off + 1) ks else bnd w s k (off + 1) ks

theorem bnd_eq (w : Nat) (s : Bool) (pre0 : List Nat) (prev : Nat) (ks : List Nat) :
    (List.range' (pre0.length + 1) ks.length).filter (fun i => i == 0 ||
      decide (wrapDiff w s ((pre0 ++ prev :: ks).getD (i - 1) 0)
        ((pre0 ++ prev :: ks).getD i 0) > 0)) = bnd w s prev (pre0.length + 1) ks := by
  induction ks generalizing pre0 prev with
  | nil => simp [bnd]
  | cons k ks ih =>
    have := ih (pre0 ++ [prev]) k
    simp only [List.length_append, List.length_cons, List.length_nil, List.append_assoc,
      List.cons_append, List.nil_append, Nat.zero_add] at this
    simp only [List.length_cons, List.range'_succ, List.filter_cons, bnd]
    rw [this]
    have e1 : (pre0 ++ prev :: k :: ks).getD (pre0.length + 1 - 1) 0 = prev := by
      simp [List.getD_eq_getElem?_getD]
    have e2 : (pre0 ++ prev :: k :: ks).getD (pre0.length + 1) 0 = k := by
      simp [List.getD_eq_getElem?_getD]
    rw [e1, e2]
    simp

theorem boundaries_cons (w : Nat) (s : Bool) (k : Nat) (ks : List Nat) :
    boundaries w s (k :: ks) = 0 :: bnd w s k 1 ks := by
  unfold boundaries
  rw [List.length_cons, List.range_eq_range', List.range'_succ, List.filter_cons]
  have := bnd_eq w s [] k ks
  simp only [List.length_nil, Nat.zero_add, List.nil_append] at this
  simp only [Nat.zero_add, beq_self_eq_true, Bool.true_or, if_true]
  rw [this]

def keysOf (B : List (Nat × List Nat)) : List Nat :=
  B.flatMap fun b => List.replicate b.2.length b.1

def absOf (B : List (Nat × List Nat)) : List Nat := B.flatMap (·.2)

def offs : Nat → List (Nat × List Nat) → List Nat
  | _, [] => []
  | start, b :: bs => start :: offs (start + b.2.length) bs

theorem bnd_replicate (w : Nat) (s : Bool) (hw : 0 < w) (c : Nat)
    (hc : (c : Int) < (if s then 2 ^ (w - 1) else 2 ^ w)) (off m : Nat) (R : List Nat) :
    bnd w s c off (List.replicate m c ++ R) = bnd w s c (off + m) R := by
  induction m generalizing off with
  | zero => simp
  | succ m ih =>
    have hnot : ¬ wrapDiff w s c c > 0 := by
      rw [diff_no_wrap w s c c hw (Nat.le_refl _) hc]; omega
    rw [List.replicate_succ, List.cons_append, bnd, if_neg hnot, ih]
    congr 1; omega

theorem keysOf_cons (b : Nat × List Nat) (bs : List (Nat × List Nat)) (hb : b.2 ≠ []) :
    keysOf (b :: bs) = b.1 :: (List.replicate (b.2.length - 1) b.1 ++ keysOf bs) := by
  have : b.2.length = (b.2.length - 1) + 1 := by
    have := List.length_pos_iff.2 hb; omega
  unfold keysOf
  rw [List.flatMap_cons]
  conv => lhs; rw [this, List.replicate_succ]
  rfl

theorem bnd_blocks (w : Nat) (s : Bool) (hw : 0 < w) (b : Nat × List Nat)
    (bs : List (Nat × List Nat)) (start : Nat)
    (hkeys : ((b :: bs).map (·.1)).Pairwise (· < ·))
    (hne : ∀ q ∈ b :: bs, q.2 ≠ [])
    (hfit : ∀ q ∈ b :: bs, (q.1 : Int) < (if s then 2 ^ (w - 1) else 2 ^ w)) :
    bnd w s b.1 (start + 1) (List.replicate (b.2.length - 1) b.1 ++ keysOf bs) =
      offs (start + b.2.length) bs := by
  induction bs generalizing b start with
  | nil =>
    rw [bnd_replicate w s hw _ (hfit b (by simp))]
    simp [keysOf, bnd, offs]
  | cons b2 bs' ih =>
    rw [bnd_replicate w s hw _ (hfit b (by simp))]
    have hb : 0 < b.2.length := List.length_pos_iff.2 (hne b (by simp))
    have e : start + 1 + (b.2.length - 1) = start + b.2.length := by omega
    rw [e, keysOf_cons b2 bs' (hne b2 (by simp)), bnd]
    simp only [List.map_cons, List.pairwise_cons] at hkeys
    have hlt : b.1 < b2.1 := hkeys.1 b2.1 (by simp)
    have hpos : wrapDiff w s b.1 b2.1 > 0 :=
      (diff_no_wrap w s b.1 b2.1 hw (Nat.le_of_lt hlt) (hfit b2 (by simp))).2 hlt
    rw [if_pos hpos, offs]
    congr 1
    apply ih b2 (start + b.2.length)
    · simpa using hkeys.2
    · intro q hq; exact hne q (List.mem_cons_of_mem _ hq)
    · intro q hq; exact hfit q (List.mem_cons_of_mem _ hq)

theorem boundaries_blocks (w : Nat) (s : Bool) (hw : 0 < w) (B : List (Nat × List Nat))
    (hkeys : (B.map (·.1)).Pairwise (· < ·))
    (hne : ∀ q ∈ B, q.2 ≠ [])
    (hfit : ∀ q ∈ B, (q.1 : Int) < (if s then 2 ^ (w - 1) else 2 ^ w)) :
    boundaries w s (keysOf B) = offs 0 B := by
  cases B with
  | nil => simp [boundaries, keysOf, offs]
  | cons b bs =>
    rw [keysOf_cons b bs (hne b (by simp)), boundaries_cons]
    have := bnd_blocks w s hw b bs 0 hkeys hne hfit
    simp only [Nat.zero_add] at this
    rw [this, offs, Nat.zero_add]

theorem offs_keys (B : List (Nat × List Nat)) (hne : ∀ q ∈ B, q.2 ≠ []) (pre : List Nat) :
    (offs pre.length B).map (fun i => (pre ++ keysOf B).getD i 0) = B.map (·.1) := by
  induction B generalizing pre with
  | nil => simp [offs]
  | cons b bs ih =>
    rw [offs, List.map_cons, List.map_cons]
    congr 1
    · rw [keysOf_cons b bs (hne b (by simp))]
      simp [List.getD_eq_getElem?_getD]
    · have := ih (fun q hq => hne q (List.mem_cons_of_mem _ hq))
        (pre ++ List.replicate b.2.length b.1)
      simp only [List.length_append, List.length_replicate, List.append_assoc] at this
      exact this

theorem cutAt_blocks (B : List (Nat × List Nat)) (pre : List Nat) :
    cutAt (pre ++ absOf B) (offs pre.length B) = B.map (·.2) := by
  induction B generalizing pre with
  | nil => simp [offs, cutAt]
  | cons b bs ih =>
    have ih' := ih (pre ++ b.2)
    have hl : pre ++ b.2 ++ absOf bs = pre ++ absOf (b :: bs) := by
      simp [absOf]
    rw [hl, List.length_append] at ih'
    cases bs with
    | nil => simp [offs, cutAt, absOf]
    | cons b2 bs' =>
      rw [offs, offs] at *
      rw [cutAt, ih', List.map_cons]
      congr 1
      simp [absOf]

theorem blocks_main (w : Nat) (s : Bool) (hw : 0 < w) (B : List (Nat × List Nat))
    (hkeys : (B.map (·.1)).Pairwise (· < ·))
    (hne : ∀ q ∈ B, q.2 ≠ [])
    (hfit : ∀ q ∈ B, (q.1 : Int) < (if s then 2 ^ (w - 1) else 2 ^ w)) :
    ((boundaries w s (keysOf B)).map (fun i => (keysOf B).getD i 0)).zip
      (cutAt (absOf B) (boundaries w s (keysOf B))) = B := by
  rw [boundaries_blocks w s hw B hkeys hne hfit]
  have h1 := offs_keys B hne []
  have h2 := cutAt_blocks B []
  simp only [List.length_nil, List.nil_append] at h1 h2
  rw [h1, h2, List.zip_map']
  simp


/-! ### assembling `spikesPerCluster` -/

theorem zipIdx_filter_snd (p : Nat → Bool) (sc : List Nat) :
    (sc.zipIdx.filter fun q => p q.1).map (·.2) =
      (List.range sc.length).filter fun i => p (sc.getD i 0) := by
  have hr : List.range sc.length = sc.zipIdx.map (·.2) := by
    rw [List.range_eq_range']; exact (List.zipIdx_map_snd 0 sc).symm
  rw [hr, List.filter_map]
  congr 1
  apply List.filter_congr
  intro q hq
  obtain ⟨hlt, hx⟩ := List.mem_zipIdx' (x := q.1) (i := q.2) hq
  simp [List.getD_eq_getElem?_getD, List.getElem?_eq_getElem hlt, ← hx]

theorem argsort_eq (sc : List Nat) :
    argsortStable sc = (distinctSorted sc).flatMap fun c =>
      (List.range sc.length).filter fun i => sc.getD i 0 == c := by
  obtain ⟨hpw, hmem⟩ := distinctSorted_spec sc
  unfold argsortStable
  show (Np.isort leKey sc.zipIdx).map (·.2) = _
  rw [isort_blocks sc.zipIdx (distinctSorted sc) hpw, List.map_flatMap]
  · apply flatMap_congr'
    intro c _
    exact zipIdx_filter_snd (fun v => v == c) sc
  · intro q hq
    obtain ⟨hlt, hx⟩ := List.mem_zipIdx' (x := q.1) (i := q.2) hq
    rw [hmem, hx]; exact List.getElem_mem _

theorem specGroups_keys (sc : List Nat) (ids : Option (List Nat)) :
    (specGroups sc ids).map (·.1) = distinctSorted sc := by
  simp [specGroups, List.map_map, Function.comp_def]

theorem groups_eq_spec (w : Nat) (signed : Bool) (sc : List Nat) (ids : Option (List Nat))
    (hw : 0 < w) (hfit : FitsDtype w signed sc)
    (hids : ∀ l, ids = some l → l.length = sc.length) :
    spikesPerCluster w signed sc ids = specGroups sc ids := by
  obtain ⟨hpw, hmem⟩ := distinctSorted_spec sc
  unfold spikesPerCluster
  split
  · rename_i he
    have : sc = [] := List.isEmpty_iff.1 he
    subst this
    simp [specGroups, distinctSorted, Np.unique]
  · have hkeys_eq : (argsortStable sc).map (fun i => sc.getD i 0) =
        keysOf (specGroups sc ids) := by
      rw [argsort_eq, List.map_flatMap]
      unfold keysOf specGroups
      rw [List.flatMap_map]
      apply flatMap_congr'
      intro c _
      apply List.eq_replicate_iff.2
      refine ⟨by simp [members], ?_⟩
      intro b hb
      obtain ⟨i, hi, rfl⟩ := List.mem_map.1 hb
      simpa using (List.mem_filter.1 hi).2
    have habs_eq : (argsortStable sc).map
        (fun i => (ids.getD (List.range sc.length)).getD i 0) = absOf (specGroups sc ids) := by
      rw [argsort_eq, List.map_flatMap]
      unfold absOf specGroups
      rw [List.flatMap_map]
      rfl
    simp only []
    rw [hkeys_eq, habs_eq]
    apply blocks_main w signed hw
    · rw [specGroups_keys]; exact hpw
    · intro q hq
      obtain ⟨c, hc, rfl⟩ := List.mem_map.1 hq
      obtain ⟨i, hi, hic⟩ := List.mem_iff_getElem.1 ((hmem c).1 hc)
      have : i ∈ (List.range sc.length).filter fun i => sc.getD i 0 == c := by
        simp [List.mem_filter, hi, List.getD_eq_getElem?_getD, hic]
      intro hnil
      simp only [members, List.map_eq_nil_iff] at hnil
      rw [hnil] at this
      simp at this
    · intro q hq
      obtain ⟨c, hc, rfl⟩ := List.mem_map.1 hq
      exact hfit c ((hmem c).1 hc)

theorem groups_partition (sc : List Nat) :
    ((specGroups sc none).map (·.1)).Pairwise (· < ·) ∧
    ((specGroups sc none).map (·.2)).flatten.Perm (List.range sc.length) := by
  obtain ⟨hpw, hmem⟩ := distinctSorted_spec sc
  refine ⟨by rw [specGroups_keys]; exact hpw, ?_⟩
  have h1 : ((specGroups sc none).map (·.2)).flatten = argsortStable sc := by
    rw [argsort_eq, ← List.flatMap_def]
    unfold specGroups
    rw [List.flatMap_map]
    apply flatMap_congr'
    intro c _
    exact members_none sc c
  rw [h1]
  unfold argsortStable
  have hr : List.range sc.length = sc.zipIdx.map (·.2) := by
    rw [List.range_eq_range']; exact (List.zipIdx_map_snd 0 sc).symm
  rw [hr]
  exact (isort_perm _ _).map _

end PhyVerif.C07.Lemmas
