import PhyVerif.Model.C07
import PhyVerif.Spec.C07
/-! Helper lemmas and full proofs for C07. Statements: `Props/C07.lean`. -/
namespace PhyVerif.C07.Lemmas
open PhyVerif PhyVerif.C07

theorem groups_eq_spec (w : Nat) (signed : Bool) (sc : List Nat) (ids : Option (List Nat))
    (hw : 0 < w) (hfit : FitsDtype w signed sc)
    (hids : ∀ l, ids = some l → l.length = sc.length) :
    spikesPerCluster w signed sc ids = specGroups sc ids := by
  sorry

theorem groups_partition (sc : List Nat) :
    ((specGroups sc none).map (·.1)).Pairwise (· < ·) ∧
    ((specGroups sc none).map (·.2)).flatten.Perm (List.range sc.length) := by
  sorry

theorem diff_no_wrap (w : Nat) (signed : Bool) (a b : Nat) (hw : 0 < w) (hab : a ≤ b)
    (hb : (b : Int) < (if signed then 2 ^ (w - 1) else 2 ^ w)) :
    (wrapDiff w signed a b > 0 ↔ a < b) := by
  sorry

theorem spikesInClusters_eq_union (sc cl : List Nat) :
    IsSortedSetOf (spikesInClusters sc cl) (fun i => ∃ c ∈ cl, i ∈ members sc none c) := by
  sorry

theorem unique_spec (l : List Int) :
    IsSortedSetOf (Np.unique l) (fun v => Int.ofNat v ∈ l) := by
  sorry

theorem indexOf_spec (arr : List Int) (lookup : List Nat) (hl : lookup.Nodup)
    (ha : ∀ a ∈ arr, 0 ≤ a ∧ a.toNat ∈ lookup) :
    Np.indexOf arr lookup = some (arr.map fun a => Int.ofNat (lookup.idxOf a.toNat)) := by
  sorry

theorem flatten_spec (d : List (Nat × List Nat)) :
    IsSortedSetOf (flattenPerCluster d) (fun v => ∃ p ∈ d, v ∈ p.2) := by
  sorry

theorem groupedMean_spec (arr : List Int) (sc : List Nat) (h : arr.length = sc.length) :
    groupedMean arr sc = some (groupedSums arr sc) := by
  sorry

theorem clusterSpikes_eq_members (sc : List Nat) (c : Nat) :
    spikesInClusters sc [c] = members sc none c := by
  sorry

theorem templateCounts_spec (sc st : List Nat) (nt c : Nat) (hlen : st.length = sc.length)
    (hst : ∀ t ∈ st, t < nt) :
    (templateCounts sc st nt c).length = nt ∧
    ∀ t, t < nt → (templateCounts sc st nt c).getD t 0 =
      ((List.range sc.length).filter fun i => sc.getD i 0 == c && st.getD i 0 == t).length := by
  sorry

end PhyVerif.C07.Lemmas
