import PhyVerif.Model.C10
import PhyVerif.Spec.C10
/-! Helper lemmas and full proofs for C10. Statements: `Props/C10.lean`. -/
namespace PhyVerif.C10.Lemmas
open PhyVerif PhyVerif.C10
open PhyVerif.C18 (Cell)

variable {α : Type} [Zero α]

/-! ### the assignment file: found by name, written in place, created by the first load -/

theorem find_writeAssign_hit (P : CName → Bool) (sc : List Nat) :
    ∀ (l : List (CName × List Nat)) (p : CName × List Nat),
      l.find? (fun q => P q.1) = some p →
      (writeAssign p.1 sc l).find? (fun q => P q.1) = some (p.1, sc)
  | [], p, h => by simp at h
  | q :: qs, p, h => by
    by_cases hq : P q.1 = true
    · have hqp : q = p := by simpa [List.find?_cons, hq] using h
      subst hqp
      simp [writeAssign, hq]
    · have hq' : P q.1 = false := by simpa using hq
      have h' : qs.find? (fun q => P q.1) = some p := by simpa [List.find?_cons, hq'] using h
      have hp : P p.1 = true := by simpa using List.find?_some h'
      have hne : q.1 ≠ p.1 := fun e => by rw [e, hp] at hq'; cases hq'
      simp only [writeAssign, hne, if_false, List.find?_cons, hq']
      exact find_writeAssign_hit P sc qs p h'

theorem find_writeAssign_miss (Q : CName → Bool) (name : CName) (hn : Q name = false) (sc : List Nat) :
    ∀ (l : List (CName × List Nat)), l.find? (fun q => Q q.1) = none →
      (writeAssign name sc l).find? (fun q => Q q.1) = none
  | [], _ => by simp [writeAssign, hn]
  | q :: qs, h => by
    have hq : Q q.1 = false := by
      have := List.find?_eq_none.1 h q (List.mem_cons_self ..)
      simpa using this
    have h' : qs.find? (fun q => Q q.1) = none := by simpa [List.find?_cons, hq] using h
    by_cases e : q.1 = name
    · simp [writeAssign, e, hn, h']
    · simp only [writeAssign, e, if_false, List.find?_cons, hq]
      exact find_writeAssign_miss Q name hn sc qs h'

/-- a save is found again by the loader: the file the save resolves is the file the next load resolves -/
theorem findAssign_write (l : List (CName × List Nat)) (p : CName × List Nat) (sc : List Nat)
    (h : findAssign l = some p) : findAssign (writeAssign p.1 sc l) = some (p.1, sc) := by
  unfold findAssign at h ⊢
  cases h1 : l.find? (fun q => q.1.isNone) with
  | some p' =>
    rw [h1] at h
    have hpp : p' = p := by simpa using h
    subst hpp
    rw [find_writeAssign_hit (fun n => n.isNone) sc l p' h1]
  | none =>
    rw [h1] at h
    have h2 : l.find? (fun q => q.1.isSome) = some p := h
    have hp : p.1.isSome = true := by simpa using List.find?_some h2
    have hn : p.1.isNone = false := by
      cases hp1 : p.1 with
      | none => rw [hp1] at hp; cases hp
      | some _ => rfl
    rw [find_writeAssign_miss (fun n => n.isNone) p.1 hn sc l h1]
    exact find_writeAssign_hit (fun n => n.isSome) sc l p h2

/-- no file matches either pattern only when there is no assignment file at all -/
theorem findAssign_none (l : List (CName × List Nat)) (h : findAssign l = none) : l = [] := by
  cases l with
  | nil => rfl
  | cons q qs =>
    exfalso
    unfold findAssign at h
    cases h1 : (q :: qs).find? (fun q => q.1.isNone) with
    | some p => rw [h1] at h; cases h
    | none =>
      rw [h1] at h
      have h2 : (q :: qs).find? (fun q => q.1.isSome) = none := h
      have a := List.find?_eq_none.1 h1 q (List.mem_cons_self ..)
      have b := List.find?_eq_none.1 h2 q (List.mem_cons_self ..)
      cases hq : q.1 <;> simp [hq] at a b

theorem findAssign_mem (l : List (CName × List Nat)) (p : CName × List Nat) (h : findAssign l = some p) :
    p ∈ l := by
  unfold findAssign at h
  cases h1 : l.find? (fun q => q.1.isNone) with
  | some p' =>
    rw [h1] at h
    have hpp : p' = p := by simpa using h
    subst hpp
    exact List.mem_of_find?_eq_some h1
  | none =>
    rw [h1] at h
    exact List.mem_of_find?_eq_some h

theorem writeAssign_names (name : CName) (sc : List Nat) :
    ∀ (l : List (CName × List Nat)), name ∈ l.map (·.1) → (writeAssign name sc l).map (·.1) = l.map (·.1)
  | [], h => by simp at h
  | q :: qs, h => by
    by_cases e : q.1 = name
    · simp [writeAssign, e]
    · have h' : name ∈ qs.map (·.1) := by
        rw [List.map_cons, List.mem_cons] at h
        rcases h with h1 | h1
        · exact absurd h1.symm e
        · exact h1
      simp only [writeAssign, e, if_false, List.map_cons, writeAssign_names name sc qs h']

theorem conflict_names (l l' : List (CName × List Nat)) (h : l'.map (·.1) = l.map (·.1)) :
    Conflict l' → Conflict l := by
  have key : ∀ (P : CName → Prop), (∃ p ∈ l', P p.1) → ∃ p ∈ l, P p.1 := by
    intro P ⟨p, hp, hP⟩
    have : p.1 ∈ l.map (·.1) := h ▸ List.mem_map.2 ⟨p, hp, rfl⟩
    obtain ⟨q, hq, hqe⟩ := List.mem_map.1 this
    exact ⟨q, hq, by rw [hqe]; exact hP⟩
  intro ⟨a, b⟩
  exact ⟨key (fun n => n.isNone = true) a, key (fun n => n.isSome = true) b⟩

/-- one step of a session opened by a load: what the next load shows follows the abstract state, the next load still
finds its file, and no conflict between the two name patterns arises -/
theorem shown_step (render : Cell → String) (scale : α → α) (d : Disk α) (fs : List (String × List (Nat × Cell)))
    (op : Op) (hfile : (findAssign d.assign).isSome) :
    shown (step render scale d op) = (absStep ⟨shown d, fs⟩ op).clusters ∧
    (findAssign (step render scale d op).assign).isSome ∧
    (¬ Conflict d.assign → ¬ Conflict (step render scale d op).assign) := by
  obtain ⟨p, hp⟩ := Option.isSome_iff_exists.1 hfile
  cases op with
  | saveClusters sc =>
    have hw := findAssign_write d.assign p sc hp
    have hn := writeAssign_names p.1 sc d.assign (List.mem_map.2 ⟨p, findAssign_mem _ _ hp, rfl⟩)
    refine ⟨?_, ?_, ?_⟩
    · simp only [step, hp, shown, hw, absStep]
    · simp only [step, hp, hw, Option.isSome_some]
    · intro hnc hc
      apply hnc
      simp only [step, hp] at hc
      exact conflict_names _ _ hn hc
  | saveMeta field m => exact ⟨rfl, hfile, id⟩
  | writeFile name f => exact ⟨rfl, hfile, id⟩
  | saveSubset sel maxN =>
    simp only [step]
    split
    · exact ⟨rfl, hfile, id⟩
    · exact ⟨rfl, hfile, id⟩
  | close => exact ⟨rfl, hfile, id⟩
  | reload =>
    have hs : step render scale d .reload = d := by simp only [step, hp]
    rw [hs]
    exact ⟨rfl, hfile, id⟩

theorem shown_run (render : Cell → String) (scale : α → α) : ∀ (ops : List Op) (d : Disk α)
    (fs : List (String × List (Nat × Cell))), (findAssign d.assign).isSome →
    shown (run render scale d ops) = (absRun ⟨shown d, fs⟩ ops).clusters ∧
    (findAssign (run render scale d ops).assign).isSome ∧
    (¬ Conflict d.assign → ¬ Conflict (run render scale d ops).assign)
  | [], _, _, h => ⟨rfl, h, id⟩
  | op :: ops, d, fs, h => by
    simp only [run, absRun, List.foldl_cons]
    obtain ⟨h1, h2, h3⟩ := shown_step render scale d fs op h
    obtain ⟨k1, k2, k3⟩ := shown_run render scale ops (step render scale d op) (absStep ⟨shown d, fs⟩ op).fields h2
    refine ⟨?_, k2, fun hnc => k3 (h3 hnc)⟩
    rw [show run render scale (step render scale d op) ops =
      List.foldl (step render scale) (step render scale d op) ops from rfl] at k1
    rw [k1, h1]
    rfl

theorem clusters_last_saved (render : Cell → String) (scale : α → α) (d : Disk α)
    (hfile : (findAssign d.assign).isSome) (ops : List Op) :
    shown (run render scale d ops) = (absRun ⟨shown d, []⟩ ops).clusters :=
  (shown_run render scale ops d [] hfile).1

theorem assign_stays_loadable (render : Cell → String) (scale : α → α) (d : Disk α)
    (hfile : (findAssign d.assign).isSome) (hnc : ¬ Conflict d.assign) (ops : List Op) :
    (findAssign (run render scale d ops).assign).isSome ∧ ¬ Conflict (run render scale d ops).assign :=
  ⟨(shown_run render scale ops d [] hfile).2.1, (shown_run render scale ops d [] hfile).2.2 hnc⟩

theorem absRun_clusters_ok (ns : Nat) : ∀ (ops : List Op) (a : Abs), AssignOK ns a.clusters → SavesOK ns ops →
    AssignOK ns (absRun a ops).clusters
  | [], _, h, _ => h
  | op :: ops, a, h, hs => by
    simp only [absRun, List.foldl_cons]
    refine absRun_clusters_ok ns ops (absStep a op) ?_ (fun o ho => hs o (List.mem_cons_of_mem _ ho))
    have h1 := hs op List.mem_cons_self
    cases op <;> first | exact h1 | exact h

/-- `clusters_last_saved` over the histories whose saves a load accepts, with the loadability of the result -/
theorem clusters_last_saved_ok (render : Cell → String) (scale : α → α) (d : Disk α)
    (hfile : (findAssign d.assign).isSome)
    (hinit : AssignOK d.fixed.spikeSamples.length (shown d)) (ops : List Op)
    (hsaves : SavesOK d.fixed.spikeSamples.length ops) :
    shown (run render scale d ops) = (absRun ⟨shown d, []⟩ ops).clusters ∧
    AssignOK d.fixed.spikeSamples.length (shown (run render scale d ops)) := by
  have h := clusters_last_saved render scale d hfile ops
  exact ⟨h, h ▸ absRun_clusters_ok _ ops ⟨shown d, []⟩ hinit hsaves⟩

/-- the load that opens a session: a directory without an assignment file gets `spike_clusters.npy` with the content
of `spike_templates.npy`, any other directory is left alone; afterwards a file is found, and it shows what this load
showed -/
theorem first_load (render : Cell → String) (scale : α → α) (d : Disk α) :
    (findAssign (step render scale d .reload).assign).isSome ∧
    shown (step render scale d .reload) = shown d ∧
    ((findAssign d.assign).isSome → step render scale d .reload = d) ∧
    (findAssign d.assign = none →
      (step render scale d .reload).assign = [(none, d.fixed.spikeTemplates)] ∧
      ¬ Conflict (step render scale d .reload).assign) ∧
    (step render scale d .reload).files = d.files ∧ (step render scale d .reload).subset = d.subset ∧
    (step render scale d .reload).fixed = d.fixed := by
  cases h : findAssign d.assign with
  | some p =>
    have hs : step render scale d .reload = d := by simp only [step, h]
    rw [hs]
    exact ⟨by rw [h]; rfl, rfl, fun _ => rfl, fun h' => (by cases h'), rfl, rfl, rfl⟩
  | none =>
    have he := findAssign_none _ h
    have hs : step render scale d .reload = { d with assign := [(none, d.fixed.spikeTemplates)] } := by
      simp only [step, h]
      rw [he]
      rfl
    rw [hs]
    refine ⟨rfl, ?_, fun h' => (by cases h'), fun _ => ⟨rfl, ?_⟩, rfl, rfl, rfl⟩
    · simp only [shown, h]
      rfl
    · intro ⟨_, ⟨q, hq, hs⟩⟩
      simp only [List.mem_singleton] at hq
      subst hq
      cases hs

/-- `first_load` on the directories the loader accepts (`_find_path(multiple_ok=False)` raises IOError when both name
patterns match): no conflict before, none after -/
theorem first_load_nc (render : Cell → String) (scale : α → α) (d : Disk α) (hnc : ¬ Conflict d.assign) :
    (findAssign (step render scale d .reload).assign).isSome ∧
    ¬ Conflict (step render scale d .reload).assign ∧
    shown (step render scale d .reload) = shown d ∧
    ((findAssign d.assign).isSome → step render scale d .reload = d) ∧
    (findAssign d.assign = none →
      (step render scale d .reload).assign = [(none, d.fixed.spikeTemplates)]) ∧
    (step render scale d .reload).files = d.files ∧ (step render scale d .reload).subset = d.subset ∧
    (step render scale d .reload).fixed = d.fixed := by
  obtain ⟨h1, h2, h3, h4, h5, h6, h7⟩ := first_load render scale d
  refine ⟨h1, ?_, h2, h3, fun h => (h4 h).1, h5, h6, h7⟩
  cases h : findAssign d.assign with
  | some p => rw [h3 (by rw [h]; rfl)]; exact hnc
  | none => exact (h4 h).2

theorem unreadable_ignored (parse : String → Cell) (fnum : Nat → Option Int) (files : List (FName × File)) (name : FName) :
    metadataView parse fnum (putFile files name .unreadable) =
      metadataView parse fnum (files.filter fun p => p.1 != name) := by
  obtain ⟨s, b⟩ := name
  cases b <;> simp [metadataView, metadataViewIn, viewStep, putFile, List.foldl_append, loadMetadata, List.filter_append]

theorem cluster_info_excluded (parse : String → Cell) (fnum : Nat → Option Int) (files : List (FName × File)) (tsv : Bool) (f : File) :
    metadataView parse fnum (putFile files ("cluster_info", tsv) f) =
      metadataView parse fnum (files.filter fun p => p.1 != ("cluster_info", tsv)) := by
  cases tsv <;> simp [metadataView, metadataViewIn, viewStep, putFile, List.foldl_append, List.filter_append]

/-! ### the dict of one field: keyed by the parsed id value -/

theorem dictSet_append (fnum : Nat → Option Int) (k v : Cell) :
    ∀ (d : List (Cell × Cell)), (∀ q ∈ d, keyOf fnum q.1 ≠ keyOf fnum k) → dictSet fnum k v d = d ++ [(k, v)]
  | [], _ => rfl
  | q :: qs, h => by
    have hq := h q (List.mem_cons_self ..)
    simp only [dictSet, hq, if_false, List.cons_append,
      dictSet_append fnum k v qs (fun r hr => h r (List.mem_cons_of_mem _ hr))]

/-- `d[k] = v` then `d.get(κ)`: the class of `k` now shows `v` under the key object it had before (or `k` when new);
every other class is untouched -/
theorem dictGet_dictSet (fnum : Nat → Option Int) (k v : Cell) (κ : Key) :
    ∀ (d : List (Cell × Cell)), dictGet fnum (dictSet fnum k v d) κ =
      if keyOf fnum k = κ then some (((dictGet fnum d κ).map (·.1)).getD k, v) else dictGet fnum d κ
  | [] => by
    by_cases h : keyOf fnum k = κ <;> simp [dictSet, dictGet, h]
  | q :: qs => by
    have ih := dictGet_dictSet fnum k v κ qs
    by_cases hq : keyOf fnum q.1 = keyOf fnum k
    · have hd : dictSet fnum k v (q :: qs) = (q.1, v) :: qs := by simp only [dictSet, hq, if_true]
      rw [hd]
      by_cases h : keyOf fnum k = κ
      · have hb : (keyOf fnum q.1 == κ) = true := by rw [hq]; simpa using h
        simp only [dictGet, List.find?_cons, hb, h, if_true, Option.map_some, Option.getD_some]
      · have hb : (keyOf fnum q.1 == κ) = false := by rw [hq]; simpa using h
        simp only [dictGet, List.find?_cons, hb, h, if_false]
    · have hd : dictSet fnum k v (q :: qs) = q :: dictSet fnum k v qs := by simp only [dictSet, hq, if_false]
      rw [hd]
      by_cases hqk : keyOf fnum q.1 = κ
      · have h : ¬ keyOf fnum k = κ := fun e => hq (hqk.trans e.symm)
        have hb : (keyOf fnum q.1 == κ) = true := by simpa using hqk
        simp only [dictGet, List.find?_cons, hb, h, if_false]
      · have hb : (keyOf fnum q.1 == κ) = false := by simpa using hqk
        simp only [dictGet, List.find?_cons, hb]
        exact ih

/-- the ids of a dict are pairwise different AS KEYS (the Python dict invariant) -/
theorem dictSet_nodup (fnum : Nat → Option Int) (k v : Cell) :
    ∀ (d : List (Cell × Cell)), (d.map fun q => keyOf fnum q.1).Nodup →
      ((dictSet fnum k v d).map fun q => keyOf fnum q.1).Nodup ∧
      ∀ κ, κ ∈ (dictSet fnum k v d).map (fun q => keyOf fnum q.1) →
        κ = keyOf fnum k ∨ κ ∈ d.map fun q => keyOf fnum q.1
  | [], _ => by simp [dictSet]
  | q :: qs, h => by
    rw [List.map_cons, List.nodup_cons] at h
    by_cases hq : keyOf fnum q.1 = keyOf fnum k
    · have hd : dictSet fnum k v (q :: qs) = (q.1, v) :: qs := by simp only [dictSet, hq, if_true]
      rw [hd, List.map_cons, List.nodup_cons]
      refine ⟨⟨h.1, h.2⟩, ?_⟩
      intro κ hκ
      rcases List.mem_cons.1 hκ with e | e
      · exact Or.inl (e.trans hq)
      · exact Or.inr (List.mem_cons_of_mem _ e)
    · obtain ⟨i1, i2⟩ := dictSet_nodup fnum k v qs h.2
      have hd : dictSet fnum k v (q :: qs) = q :: dictSet fnum k v qs := by simp only [dictSet, hq, if_false]
      rw [hd, List.map_cons, List.nodup_cons]
      refine ⟨⟨?_, i1⟩, ?_⟩
      · intro hm
        rcases i2 _ hm with e | e
        · exact hq e
        · exact h.1 e
      · intro κ hκ
        rcases List.mem_cons.1 hκ with e | e
        · exact Or.inr (e ▸ List.mem_cons_self ..)
        · rcases i2 κ e with e' | e'
          · exact Or.inl e'
          · exact Or.inr (List.mem_cons_of_mem _ e')

/-- a dict filled row by row (`rows`: parsed id, parsed value): for every key class, the VALUE is the one of the last
row of that class and the KEY object the one of the first row of that class (or what the dict held before) -/
theorem dictGet_foldl (fnum : Nat → Option Int) (κ : Key) :
    ∀ (rows : List (Cell × Cell)) (acc : List (Cell × Cell)),
      (dictGet fnum (rows.foldl (fun d r => dictSet fnum r.1 r.2 d) acc) κ).map (·.2) =
        ((rows.reverse.find? fun r => keyOf fnum r.1 == κ).map (·.2)).or ((dictGet fnum acc κ).map (·.2)) ∧
      (dictGet fnum (rows.foldl (fun d r => dictSet fnum r.1 r.2 d) acc) κ).map (·.1) =
        ((dictGet fnum acc κ).map (·.1)).or ((rows.find? fun r => keyOf fnum r.1 == κ).map (·.1))
  | [], acc => by simp
  | r :: rows, acc => by
    obtain ⟨i1, i2⟩ := dictGet_foldl fnum κ rows (dictSet fnum r.1 r.2 acc)
    rw [List.foldl_cons, i1, i2, dictGet_dictSet]
    by_cases h : keyOf fnum r.1 = κ
    · have hb : (keyOf fnum r.1 == κ) = true := by simpa using h
      refine ⟨?_, ?_⟩
      · simp only [h, if_true, Option.map_some, List.reverse_cons, List.find?_append, Option.map_or]
        cases h1 : (rows.reverse.find? fun r => keyOf fnum r.1 == κ) with
        | some x => simp
        | none => simp [hb]
      · simp only [h, if_true, Option.map_some, List.find?_cons]
        cases h1 : dictGet fnum acc κ <;> simp
    · have hb : (keyOf fnum r.1 == κ) = false := by simpa using h
      refine ⟨?_, ?_⟩
      · simp only [h, if_false, List.reverse_cons, List.find?_append, Option.map_or]
        cases h1 : (rows.reverse.find? fun r => keyOf fnum r.1 == κ) with
        | some x => simp
        | none => simp [hb]
      · simp only [h, if_false, List.find?_cons, hb]

/-! ### metadata refinement -/

def cellPair (p : Nat × Cell) : Cell × Cell := (.int p.1, p.2)

/-- the per-row update of `loadMetadata` -/
def rowStep (parse : String → Cell) (fnum : Nat → Option Int) (out : List (String × List (Cell × Cell)))
    (row : List (String × String)) : List (String × List (Cell × Cell)) :=
  match row.reverse.lookup "cluster_id" with
  | none => out
  | some cid =>
    (row.filter fun p => p.1 != "cluster_id").foldl (fun out2 p =>
      let old := (out2.lookup p.1).getD []
      (out2.filter fun q => q.1 != p.1) ++ [(p.1, dictSet fnum (parse cid) (parse p.2) old)]) out

theorem loadMetadata_table (parse : String → Cell) (fnum : Nat → Option Int) (header : List String)
    (rows : List (List String)) :
    loadMetadata parse fnum (.table header rows) =
      some ((rows.map fun r => ((header.zip r).filter fun p => p.2 != "")).foldl (rowStep parse fnum) []) := rfl

/-- the update a row of a two-column table performs: `out[f][k] = v` -/
def setRow (fnum : Nat → Option Int) (f : String) (out : List (String × List (Cell × Cell))) (kv : Cell × Cell) :
    List (String × List (Cell × Cell)) :=
  (out.filter fun q => q.1 != f) ++ [(f, dictSet fnum kv.1 kv.2 ((out.lookup f).getD []))]

theorem rowStep_two (parse : String → Cell) (fnum : Nat → Option Int)
    (f : String) (hf : f ≠ "cluster_id") (out : List (String × List (Cell × Cell))) (c v : String)
    (hc : c ≠ "") (hv : v ≠ "") :
    rowStep parse fnum out ((["cluster_id", f].zip [c, v]).filter fun p => p.2 != "") =
      setRow fnum f out (parse c, parse v) := by
  have hf' : (f != "cluster_id") = true := by simpa using hf
  have hv' : (v != "") = true := by simpa using hv
  have hc' : (c != "") = true := by simpa using hc
  have hrow : ((["cluster_id", f].zip [c, v]).filter fun p => p.2 != "") =
      [("cluster_id", c), (f, v)] := by
    simp only [List.zip_cons_cons, List.zip_nil_right, List.filter_cons, List.filter_nil, hv', hc',
      if_true]
  have hfb : ("cluster_id" == f) = false := by simpa using fun h => hf h.symm
  have hl : List.lookup "cluster_id" [("cluster_id", c), (f, v)].reverse = some c := by
    simp [List.lookup_cons, hfb]
  have hfil : ([("cluster_id", c), (f, v)].filter fun p => p.1 != "cluster_id") = [(f, v)] := by simp [hf']
  rw [hrow]
  simp only [rowStep, hl, hfil, List.foldl_cons, List.foldl_nil, setRow]

theorem foldl_setRow (fnum : Nat → Option Int) (f : String) :
    ∀ (rows : List (Cell × Cell)) (acc : List (Cell × Cell)),
      rows.foldl (setRow fnum f) [(f, acc)] = [(f, rows.foldl (fun d r => dictSet fnum r.1 r.2 d) acc)]
  | [], _ => rfl
  | r :: rows, acc => by
    have h1 : setRow fnum f [(f, acc)] r = [(f, dictSet fnum r.1 r.2 acc)] := by simp [setRow]
    rw [List.foldl_cons, h1, foldl_setRow fnum f rows, List.foldl_cons]

theorem foldl_congr_mem {β γ : Type} (f g : β → γ → β) :
    ∀ (l : List γ) (a : β), (∀ a, ∀ x ∈ l, f a x = g a x) → l.foldl f a = l.foldl g a
  | [], _, _ => rfl
  | x :: xs, a, h => by
    rw [List.foldl_cons, List.foldl_cons, h a x (List.mem_cons_self ..)]
    exact foldl_congr_mem f g xs _ (fun a y hy => h a y (List.mem_cons_of_mem _ hy))

/-- ANY readable two-column file `cluster_id, f` whose cells are all non-empty: the field is the dict filled row by row,
keyed by the parsed id (so `dictGet_foldl` says which row's value and which row's key a reload shows) -/
theorem loadMetadata_two_columns (parse : String → Cell) (fnum : Nat → Option Int)
    (f : String) (hf : f ≠ "cluster_id") (rows : List (String × String))
    (hne : ∀ r ∈ rows, r.1 ≠ "" ∧ r.2 ≠ "") :
    loadMetadata parse fnum (.table ["cluster_id", f] (rows.map fun r => [r.1, r.2])) =
      some (if rows = [] then [] else
        [(f, (rows.map fun r => (parse r.1, parse r.2)).foldl (fun d r => dictSet fnum r.1 r.2 d) [])]) := by
  rw [loadMetadata_table, List.map_map, List.foldl_map]
  refine congrArg some ?_
  refine (foldl_congr_mem _ (fun a r => setRow fnum f a (parse r.1, parse r.2)) rows [] ?_).trans ?_
  · intro a r hr
    exact rowStep_two parse fnum f hf a r.1 r.2 (hne r hr).1 (hne r hr).2
  · cases rows with
    | nil => rfl
    | cons r rs =>
      have h1 : setRow fnum f [] (parse r.1, parse r.2) = [(f, [(parse r.1, parse r.2)])] := by
        simp [setRow, dictSet]
      have h2 : rs.foldl (fun a r => setRow fnum f a (parse r.1, parse r.2)) [(f, [(parse r.1, parse r.2)])] =
          (rs.map fun r => (parse r.1, parse r.2)).foldl (setRow fnum f) [(f, [(parse r.1, parse r.2)])] := by
        rw [List.foldl_map]
      rw [if_neg (List.cons_ne_nil _ _), List.foldl_cons, h1, h2, foldl_setRow, List.map_cons, List.foldl_cons]
      rfl

theorem foldl_dictSet_sorted (fnum : Nat → Option Int) (data : List (Nat × Cell)) :
    ∀ (acc : List (Cell × Cell)), data.Pairwise (fun a b => a.1 < b.1) →
      (∀ q ∈ acc, ∀ p ∈ data, keyOf fnum q.1 ≠ Key.num p.1) →
      (data.map cellPair).foldl (fun d r => dictSet fnum r.1 r.2 d) acc = acc ++ data.map cellPair := by
  induction data with
  | nil => intro acc _ _; simp
  | cons p ps ih =>
    intro acc hs hacc
    rw [List.pairwise_cons] at hs
    have h1 : dictSet fnum (cellPair p).1 (cellPair p).2 acc = acc ++ [cellPair p] :=
      dictSet_append fnum _ _ acc (fun q hq => hacc q hq p (List.mem_cons_self ..))
    rw [List.map_cons, List.foldl_cons, h1, ih _ hs.2]
    · simp
    · intro q hq p' hp'
      rcases List.mem_append.1 hq with hq | hq
      · exact hacc q hq p' (List.mem_cons_of_mem _ hp')
      · have := hs.1 p' hp'
        simp only [List.mem_singleton] at hq
        subst hq
        simp only [cellPair, keyOf, ne_eq, Key.num.injEq]
        omega

/-- the file `save_metadata` writes reads back as the saved mapping; the codec hypotheses are about the saved cells
only (`str` / `_try_make_number` satisfy them for integers, floats and strings that are not numerals) -/
theorem loadMetadata_simpleTable (render : Cell → String) (parse : String → Cell) (fnum : Nat → Option Int)
    (f : String) (hf : f ≠ "cluster_id") (data : List (Nat × Cell))
    (hrt : ∀ p ∈ data, parse (render p.2) = p.2) (hne : ∀ p ∈ data, render p.2 ≠ "")
    (hid : ∀ n : Nat, parse (toString n) = .int n)
    (hs : data.Pairwise (fun a b => a.1 < b.1)) :
    loadMetadata parse fnum (simpleTable render f data) =
      some (if data = [] then [] else [(f, data.map cellPair)]) := by
  have hrows : (data.map fun p => [toString p.1, render p.2]) =
      ((data.map fun p => (toString p.1, render p.2)).map fun r => [r.1, r.2]) := by
    rw [List.map_map]; rfl
  unfold simpleTable
  rw [hrows, loadMetadata_two_columns parse fnum f hf]
  · cases data with
    | nil => rfl
    | cons p ps =>
      have hmap : ((p :: ps).map fun p => (toString p.1, render p.2)).map (fun r => (parse r.1, parse r.2)) =
          (p :: ps).map cellPair := by
        rw [List.map_map]
        apply List.map_congr_left
        intro q hq
        simp only [Function.comp, cellPair, hid, hrt q hq]
      rw [hmap, foldl_dictSet_sorted fnum (p :: ps) [] hs (fun q hq => by simp at hq)]
      simp
  · intro r hr
    obtain ⟨p, hp, rfl⟩ := List.mem_map.1 hr
    exact ⟨by simp, hne p hp⟩

/-! sortedness of `cleanMeta` -/
def Sorted (l : List (Nat × Cell)) : Prop := l.Pairwise (fun a b => a.1 < b.1)

theorem mem_insertById (x q : Nat × Cell) (l : List (Nat × Cell)) :
    q ∈ insertById x l → q = x ∨ q ∈ l := by
  induction l with
  | nil => simp [insertById]
  | cons y ys ih =>
    simp only [insertById]
    split
    · simp
    · split
      · simp only [List.mem_cons]; grind
      · simp only [List.mem_cons]; grind

theorem sorted_insertById (x : Nat × Cell) (l : List (Nat × Cell)) (h : Sorted l) :
    Sorted (insertById x l) := by
  unfold Sorted at *
  induction l with
  | nil => simp [insertById]
  | cons y ys ih =>
    rw [List.pairwise_cons] at h
    simp only [insertById]
    split
    · rename_i hlt
      refine List.pairwise_cons.2 ⟨?_, List.pairwise_cons.2 h⟩
      intro q hq
      rcases List.mem_cons.1 hq with rfl | hq
      · exact hlt
      · exact Nat.lt_trans hlt (h.1 q hq)
    · split
      · rename_i _ heq
        refine List.pairwise_cons.2 ⟨?_, h.2⟩
        intro q hq
        rw [heq]; exact h.1 q hq
      · rename_i hnlt hne
        refine List.pairwise_cons.2 ⟨?_, ih h.2⟩
        intro q hq
        rcases mem_insertById x q ys hq with rfl | hq
        · omega
        · exact h.1 q hq

theorem sorted_cleanMeta (m : List (Nat × Option Cell)) : Sorted (cleanMeta m) := by
  unfold cleanMeta
  suffices h : ∀ acc, Sorted acc → Sorted (m.foldl (fun acc p => match p.2 with
      | some v => insertById (p.1, v) acc
      | none => acc.filter fun q => q.1 != p.1) acc) from h [] List.Pairwise.nil
  induction m with
  | nil => intro acc h; exact h
  | cons p ps ih =>
    intro acc h
    rw [List.foldl_cons]
    apply ih
    split
    · exact sorted_insertById _ _ h
    · exact List.Pairwise.filter _ h

theorem stem_beq (a b : String) : ("cluster_" ++ a == "cluster_" ++ b) = (a == b) := by
  rw [Bool.eq_iff_iff]
  simp only [beq_iff_eq]
  exact String.append_right_inj _

theorem name_bne (a b : String) :
    ((("cluster_" ++ a, true) : FName) != ("cluster_" ++ b, true)) = (a != b) := by
  rw [Bool.eq_iff_iff]
  simp only [bne_iff_ne, ne_eq, Prod.mk.injEq, and_true]
  rw [String.append_right_inj]

theorem lookup_filter_ne {α β : Type} [BEq α] [LawfulBEq α] (l : List (α × β)) (k s : α) (h : k ≠ s) :
    (l.filter fun p => p.1 != s).lookup k = l.lookup k := by
  induction l with
  | nil => rfl
  | cons p ps ih =>
    obtain ⟨a, b⟩ := p
    by_cases ha : a = s
    · subst ha
      have hb : (k == a) = false := by simpa using h
      simp [List.lookup_cons, hb, ih]
    · have hb : (a != s) = true := by simpa using ha
      simp only [List.filter_cons, hb, if_true, List.lookup_cons, ih]

theorem lookup_upsert_ne {α β : Type} [BEq α] [LawfulBEq α] (l : List (α × β)) (k s : α) (x : β) (h : k ≠ s) :
    ((l.filter fun p => p.1 != s) ++ [(s, x)]).lookup k = l.lookup k := by
  have hb : (k == s) = false := by simpa using h
  rw [List.lookup_append, lookup_filter_ne l k s h]
  simp [List.lookup_cons, hb]

theorem lookup_upsert_self {β : Type} (l : List (String × β)) (s : String) (x : β) :
    ((l.filter fun p => p.1 != s) ++ [(s, x)]).lookup s = some x := by
  have : (l.filter fun p => p.1 != s).lookup s = none := by
    induction l with
    | nil => rfl
    | cons p ps ih =>
      obtain ⟨a, b⟩ := p
      by_cases ha : a = s
      · subst ha; simpa using ih
      · have hb : (a != s) = true := by simpa using ha
        have hc : (s == a) = false := by simpa using fun h => ha h.symm
        simp only [List.filter_cons, hb, if_true, List.lookup_cons, hc, ih]
  rw [List.lookup_append, this]
  simp

/-! ### a file says nothing about a field that is not in its header -/

theorem rowStep_names (parse : String → Cell) (fnum : Nat → Option Int) (S : String → Prop)
    (out : List (String × List (Cell × Cell))) (row : List (String × String))
    (hout : ∀ fd ∈ out, S fd.1) (hrow : ∀ p ∈ row, S p.1) :
    ∀ fd ∈ rowStep parse fnum out row, S fd.1 := by
  unfold rowStep
  split
  · exact hout
  · rename_i cid _
    have hrow' : ∀ p ∈ row.filter (fun p => p.1 != "cluster_id"), S p.1 :=
      fun p hp => hrow p (List.mem_filter.1 hp).1
    generalize row.filter (fun p => p.1 != "cluster_id") = cells at hrow'
    induction cells generalizing out with
    | nil => exact hout
    | cons c cs ih =>
      rw [List.foldl_cons]
      apply ih
      · intro fd hfd
        rcases List.mem_append.1 hfd with h | h
        · exact hout fd (List.mem_filter.1 h).1
        · simp only [List.mem_singleton] at h
          subst h
          exact hrow' c (List.mem_cons_self ..)
      · exact fun p hp => hrow' p (List.mem_cons_of_mem _ hp)

theorem loadMetadata_names (parse : String → Cell) (fnum : Nat → Option Int) (header : List String)
    (rows : List (List String)) (fields : List (String × List (Cell × Cell)))
    (h : loadMetadata parse fnum (.table header rows) = some fields) : ∀ fd ∈ fields, fd.1 ∈ header := by
  rw [loadMetadata_table] at h
  have h' := Option.some.inj h
  subst h'
  suffices hs : ∀ (rs : List (List (String × String))) (out : List (String × List (Cell × Cell))),
      (∀ r ∈ rs, ∀ p ∈ r, p.1 ∈ header) → (∀ fd ∈ out, fd.1 ∈ header) →
      ∀ fd ∈ rs.foldl (rowStep parse fnum) out, fd.1 ∈ header by
    apply hs
    · intro r hr p hp
      obtain ⟨r0, _, rfl⟩ := List.mem_map.1 hr
      exact (List.of_mem_zip (List.mem_filter.1 hp).1).1
    · intro fd hfd; cases hfd
  intro rs
  induction rs with
  | nil => intro out _ h; exact h
  | cons r rs ih =>
    intro out hr hout
    rw [List.foldl_cons]
    apply ih _ (fun r' hr' => hr r' (List.mem_cons_of_mem _ hr'))
    exact rowStep_names parse fnum (· ∈ header) out r hout (hr r (List.mem_cons_self ..))

theorem lookup_none_of_not_mem {β : Type} (l : List (String × β)) (k : String) (h : ∀ p ∈ l, p.1 ≠ k) :
    l.lookup k = none := by
  induction l with
  | nil => rfl
  | cons p ps ih =>
    obtain ⟨a, b⟩ := p
    have hb : (k == a) = false := by simpa using fun e => h (a, b) (List.mem_cons_self ..) e.symm
    simp only [List.lookup_cons, hb]
    exact ih (fun q hq => h q (List.mem_cons_of_mem _ hq))

theorem fileField_none_of_header (parse : String → Cell) (fnum : Nat → Option Int) (field : String)
    (name : FName) (header : List String) (rows : List (List String)) (h : field ∉ header) :
    fileField parse fnum field (name, .table header rows) = none := by
  unfold fileField
  split
  · rfl
  · cases hl : loadMetadata parse fnum (.table header rows) with
    | none => rfl
    | some fields =>
      simp only [Option.bind_some]
      apply lookup_none_of_not_mem
      intro p hp e
      apply h
      rw [← e]
      exact loadMetadata_names parse fnum header rows fields hl p (List.mem_reverse.1 hp)

/-! ### frame -/

theorem step_frame (render : Cell → String) (scale : α → α) (d : Disk α) (op : Op) (name : FName)
    (hs : match op with
      | .saveMeta field _ => name ≠ ("cluster_" ++ field, true)
      | .writeFile s _ => name ≠ s
      | _ => True) :
    (step render scale d op).files.lookup name = d.files.lookup name := by
  cases op with
  | saveMeta field m => exact lookup_upsert_ne _ _ _ _ hs
  | writeFile s f => exact lookup_upsert_ne _ _ _ _ hs
  | saveClusters sc => simp only [step]; split <;> rfl
  | saveSubset sel maxN => simp only [step]; split <;> rfl
  | close => rfl
  | reload => simp only [step]; split <;> rfl

theorem lookup_writeAssign_ne (name n : CName) (sc : List Nat) (h : n ≠ name) :
    ∀ (l : List (CName × List Nat)), (writeAssign name sc l).lookup n = l.lookup n
  | [] => by
    have hb : (n == name) = false := by simpa using h
    simp [writeAssign, List.lookup_cons, hb]
  | q :: qs => by
    obtain ⟨a, b⟩ := q
    by_cases e : a = name
    · have hb : (n == name) = false := by simpa using h
      subst e
      simp [writeAssign, List.lookup_cons, hb]
    · simp only [writeAssign, e, if_false, List.lookup_cons, lookup_writeAssign_ne name n sc h qs]

/-- everything `touched` does not name keeps its content -/
theorem step_writes_only (render : Cell → String) (scale : α → α) (d : Disk α) (op : Op) :
    (step render scale d op).fixed = d.fixed ∧
    (Target.subsetStore ∉ touched d op → (step render scale d op).subset = d.subset) ∧
    (∀ n, Target.assign n ∉ touched d op → (step render scale d op).assign.lookup n = d.assign.lookup n) ∧
    (∀ n, Target.table n ∉ touched d op → (step render scale d op).files.lookup n = d.files.lookup n) := by
  cases op with
  | saveClusters sc =>
    cases h : findAssign d.assign with
    | none => simp [step, touched, h]
    | some p =>
      simp only [step, touched, h, List.mem_singleton, Target.assign.injEq, true_and, reduceCtorEq,
        not_false_eq_true, forall_const, and_true]
      intro n hn
      exact lookup_writeAssign_ne p.1 n sc hn d.assign
  | saveMeta field m =>
    simp only [step, touched, List.mem_singleton, Target.table.injEq, true_and, reduceCtorEq,
      not_false_eq_true, forall_const]
    intro n hn
    exact lookup_upsert_ne _ _ _ _ hn
  | writeFile s f =>
    simp only [step, touched, List.mem_singleton, Target.table.injEq, true_and, reduceCtorEq,
      not_false_eq_true, forall_const]
    intro n hn
    exact lookup_upsert_ne _ _ _ _ hn
  | saveSubset sel maxN =>
    cases h : d.fixed.hasRaw <;> simp [step, touched, h]
  | close => simp [step, touched]
  | reload =>
    cases h : findAssign d.assign with
    | some p => simp [step, touched, h]
    | none =>
      have he := findAssign_none _ h
      have hs : step render scale d .reload = { d with assign := [(none, d.fixed.spikeTemplates)] } := by
        simp only [step, h]
        rw [he]
        rfl
      have ht : touched d .reload = [.assign none] := by simp only [touched, h]
      rw [hs, ht]
      refine ⟨rfl, fun _ => rfl, ?_, fun _ _ => rfl⟩
      intro n hn
      have hne : n ≠ none := fun e => hn (by rw [e]; exact List.mem_singleton.2 rfl)
      have hb : (n == none) = false := by
        cases n with
        | none => exact absurd rfl hne
        | some x => rfl
      rw [he]
      simp [List.lookup_cons, hb]

end PhyVerif.C10.Lemmas
