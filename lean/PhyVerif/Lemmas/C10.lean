import PhyVerif.Model.C10
import PhyVerif.Spec.C10
/-! Helper lemmas and full proofs for C10. Statements: `Props/C10.lean`. -/
namespace PhyVerif.C10.Lemmas
open PhyVerif PhyVerif.C10
open PhyVerif.C18 (Cell)

variable {α : Type} [Zero α]

/-! ### assignments, unreadable files, `cluster_info` -/

theorem clusters_last_saved (render : Cell → String) (scale : α → α) (d : Disk α) (ops : List Op) :
    (run render scale d ops).clusters = (absRun ⟨d.clusters, []⟩ ops).clusters := by
  suffices h : ∀ (d : Disk α) (a : Abs), d.clusters = a.clusters →
      (run render scale d ops).clusters = (absRun a ops).clusters from h d _ rfl
  induction ops with
  | nil => intro d a h; exact h
  | cons op ops ih =>
    intro d a h
    simp only [run, absRun, List.foldl_cons] at ih ⊢
    apply ih
    cases op <;> simp [step, absStep, h]

theorem unreadable_ignored (parse : String → Cell) (files : List (FName × File)) (name : FName) :
    metadataView parse (putFile files name .unreadable) =
      metadataView parse (files.filter fun p => p.1 != name) := by
  obtain ⟨s, b⟩ := name
  cases b <;> simp [metadataView, metadataViewIn, viewStep, putFile, List.foldl_append, loadMetadata, List.filter_append]

theorem cluster_info_excluded (parse : String → Cell) (files : List (FName × File)) (tsv : Bool) (f : File) :
    metadataView parse (putFile files ("cluster_info", tsv) f) =
      metadataView parse (files.filter fun p => p.1 != ("cluster_info", tsv)) := by
  cases tsv <;> simp [metadataView, metadataViewIn, viewStep, putFile, List.foldl_append, List.filter_append]

/-! ### metadata refinement -/

def cellPair (p : Nat × Cell) : Cell × Cell := (.int p.1, p.2)

/-- the per-row update of `loadMetadata` -/
def rowStep (parse : String → Cell) (out : List (String × List (Cell × Cell)))
    (row : List (String × String)) : List (String × List (Cell × Cell)) :=
  match row.reverse.lookup "cluster_id" with
  | none => out
  | some cid =>
    (row.filter fun p => p.1 != "cluster_id").foldl (fun out2 p =>
      let old := (out2.lookup p.1).getD []
      let upd := (old.filter fun q => q.1 != parse cid) ++ [(parse cid, parse p.2)]
      (out2.filter fun q => q.1 != p.1) ++ [(p.1, upd)]) out

theorem loadMetadata_table (parse : String → Cell) (header : List String) (rows : List (List String)) :
    loadMetadata parse (.table header rows) =
      some ((rows.map fun r => ((header.zip r).filter fun p => p.2 != "")).foldl (rowStep parse) []) := rfl

/-- the update a `simpleTable` row performs -/
def addRow (f : String) (out : List (String × List (Cell × Cell))) (p : Nat × Cell) :
    List (String × List (Cell × Cell)) :=
  (out.filter fun q => q.1 != f) ++
    [(f, (((out.lookup f).getD []).filter fun q => q.1 != Cell.int p.1) ++ [cellPair p])]

theorem rowStep_simple (render : Cell → String) (parse : String → Cell)
    (hrt : ∀ c, parse (render c) = c) (hne : ∀ c, render c ≠ "")
    (hid : ∀ n : Nat, parse (toString n) = .int n)
    (f : String) (hf : f ≠ "cluster_id") (out : List (String × List (Cell × Cell))) (p : Nat × Cell) :
    rowStep parse out ((["cluster_id", f].zip [toString p.1, render p.2]).filter fun p => p.2 != "") =
      addRow f out p := by
  have hf' : (f != "cluster_id") = true := by simpa using hf
  have hne' : (render p.2 != "") = true := by simpa using hne p.2
  have hts : (toString p.1 != "") = true := by simp
  have hrow : ((["cluster_id", f].zip [toString p.1, render p.2]).filter fun p => p.2 != "") =
      [("cluster_id", toString p.1), (f, render p.2)] := by
    simp only [List.zip_cons_cons, List.zip_nil_right, List.filter_cons, List.filter_nil, hne', hts,
      if_true]
  have hfb : ("cluster_id" == f) = false := by simpa using fun h => hf h.symm
  have hl : List.lookup "cluster_id" [("cluster_id", toString p.1), (f, render p.2)].reverse =
      some (toString p.1) := by simp [List.lookup_cons, hfb]
  have hfil : ([("cluster_id", toString p.1), (f, render p.2)].filter fun p => p.1 != "cluster_id") =
      [(f, render p.2)] := by simp [hf']
  rw [hrow]
  simp only [rowStep, hl, hfil, List.foldl_cons, List.foldl_nil, hrt, hid, addRow, cellPair]

theorem foldl_addRow (f : String) (data : List (Nat × Cell)) :
    ∀ (acc : List (Cell × Cell)), data.Pairwise (fun a b => a.1 < b.1) →
      (∀ q ∈ acc, ∀ p ∈ data, q.1 ≠ Cell.int p.1) →
      data.foldl (addRow f) [(f, acc)] = [(f, acc ++ data.map cellPair)] := by
  induction data with
  | nil => intro acc _ _; simp
  | cons p ps ih =>
    intro acc hs hacc
    rw [List.pairwise_cons] at hs
    have h1 : addRow f [(f, acc)] p = [(f, acc ++ [cellPair p])] := by
      have : (acc.filter fun q => q.1 != Cell.int p.1) = acc := by
        rw [List.filter_eq_self]
        intro q hq
        simpa using hacc q hq p (List.mem_cons_self ..)
      simp [addRow, this]
    rw [List.foldl_cons, h1, ih _ hs.2]
    · simp
    · intro q hq p' hp'
      rcases List.mem_append.1 hq with hq | hq
      · exact hacc q hq p' (List.mem_cons_of_mem _ hp')
      · have := hs.1 p' hp'
        simp only [List.mem_singleton] at hq
        subst hq
        simp only [cellPair, ne_eq, Cell.int.injEq]
        omega

theorem loadMetadata_simpleTable (render : Cell → String) (parse : String → Cell)
    (hrt : ∀ c, parse (render c) = c) (hne : ∀ c, render c ≠ "")
    (hid : ∀ n : Nat, parse (toString n) = .int n)
    (f : String) (hf : f ≠ "cluster_id") (data : List (Nat × Cell))
    (hs : data.Pairwise (fun a b => a.1 < b.1)) :
    loadMetadata parse (simpleTable render f data) =
      some (if data = [] then [] else [(f, data.map cellPair)]) := by
  unfold simpleTable
  rw [loadMetadata_table, List.map_map, List.foldl_map]
  simp only [Function.comp, rowStep_simple render parse hrt hne hid f hf]
  cases data with
  | nil => rfl
  | cons p ps =>
    rw [List.pairwise_cons] at hs
    have h1 : addRow f [] p = [(f, [cellPair p])] := by simp [addRow]
    rw [List.foldl_cons, h1, foldl_addRow f ps _ hs.2]
    · simp
    · intro q hq p' hp'
      have := hs.1 p' hp'
      simp only [List.mem_singleton] at hq
      subst hq
      simp only [cellPair, ne_eq, Cell.int.injEq]
      omega

/-! sortedness of `cleanMeta` -/
def Sorted (l : List (Nat × Cell)) : Prop := l.Pairwise (fun a b => a.1 < b.1)

theorem mem_insertById (x q : Nat × Cell) (l : List (Nat × Cell)) :
    q ∈ insertById x l → q = x ∨ q ∈ l := by
  induction l with
  | nil => simp [insertById]
  | cons y ys ih =>
    simp only [insertById]
    split
    · simp
    · split
      · simp only [List.mem_cons]; grind
      · simp only [List.mem_cons]; grind

theorem sorted_insertById (x : Nat × Cell) (l : List (Nat × Cell)) (h : Sorted l) :
    Sorted (insertById x l) := by
  unfold Sorted at *
  induction l with
  | nil => simp [insertById]
  | cons y ys ih =>
    rw [List.pairwise_cons] at h
    simp only [insertById]
    split
    · rename_i hlt
      refine List.pairwise_cons.2 ⟨?_, List.pairwise_cons.2 h⟩
      intro q hq
      rcases List.mem_cons.1 hq with rfl | hq
      · exact hlt
      · exact Nat.lt_trans hlt (h.1 q hq)
    · split
      · rename_i _ heq
        refine List.pairwise_cons.2 ⟨?_, h.2⟩
        intro q hq
        rw [heq]; exact h.1 q hq
      · rename_i hnlt hne
        refine List.pairwise_cons.2 ⟨?_, ih h.2⟩
        intro q hq
        rcases mem_insertById x q ys hq with rfl | hq
        · omega
        · exact h.1 q hq

theorem sorted_cleanMeta (m : List (Nat × Option Cell)) : Sorted (cleanMeta m) := by
  unfold cleanMeta
  suffices h : ∀ acc, Sorted acc → Sorted (m.foldl (fun acc p => match p.2 with
      | some v => insertById (p.1, v) acc
      | none => acc.filter fun q => q.1 != p.1) acc) from h [] List.Pairwise.nil
  induction m with
  | nil => intro acc h; exact h
  | cons p ps ih =>
    intro acc h
    rw [List.foldl_cons]
    apply ih
    split
    · exact sorted_insertById _ _ h
    · exact List.Pairwise.filter _ h

/-! the directory written by an `OwnOps` history mirrors the abstract state (after the legacy CSVs) -/
def fileOf (render : Cell → String) (p : String × List (Nat × Cell)) : FName × File :=
  (("cluster_" ++ p.1, true), simpleTable render p.1 p.2)

theorem stem_beq (a b : String) : ("cluster_" ++ a == "cluster_" ++ b) = (a == b) := by
  rw [Bool.eq_iff_iff]
  simp only [beq_iff_eq]
  exact String.append_right_inj _

theorem name_bne (a b : String) :
    ((("cluster_" ++ a, true) : FName) != ("cluster_" ++ b, true)) = (a != b) := by
  rw [Bool.eq_iff_iff]
  simp only [bne_iff_ne, ne_eq, Prod.mk.injEq, and_true]
  rw [String.append_right_inj]

theorem files_eq_step (render : Cell → String) (csvs : List (FName × File))
    (hcsv : ∀ p ∈ csvs, p.1.2 = false) (scale : α → α) (d : Disk α) (a : Abs) (op : Op)
    (hop : match op with | .writeFile _ _ => False | _ => True)
    (h : d.files = csvs ++ a.fields.map (fileOf render)) :
    (step render scale d op).files = csvs ++ (absStep a op).fields.map (fileOf render) := by
  cases op with
  | writeFile s f => exact hop.elim
  | saveMeta field m =>
    have hc : (csvs.filter fun p => p.1 != (("cluster_" ++ field, true) : FName)) = csvs := by
      rw [List.filter_eq_self]
      intro p hp
      have := hcsv p hp
      obtain ⟨⟨s, b⟩, f⟩ := p
      simp only at this
      subst this
      simp
    simp only [step, absStep, putFile, h, List.map_append, List.map_cons, List.map_nil,
      List.filter_map, List.filter_append, hc, fileOf, List.append_assoc]
    congr 2
    congr 1
    apply List.filter_congr
    intro p _
    simp only [Function.comp, fileOf, name_bne]
  | _ => exact h

theorem files_eq (render : Cell → String) (csvs : List (FName × File))
    (hcsv : ∀ p ∈ csvs, p.1.2 = false) (scale : α → α) (ops : List Op) :
    ∀ (d : Disk α) (a : Abs), (∀ op ∈ ops, match op with | .writeFile _ _ => False | _ => True) →
      d.files = csvs ++ a.fields.map (fileOf render) →
      (run render scale d ops).files = csvs ++ (absRun a ops).fields.map (fileOf render) := by
  induction ops with
  | nil => intro d a _ h; exact h
  | cons op ops ih =>
    intro d a hops h
    simp only [run, absRun, List.foldl_cons] at ih ⊢
    exact ih _ _ (fun o ho => hops o (List.mem_cons_of_mem _ ho))
      (files_eq_step render csvs hcsv scale d a op (hops op (List.mem_cons_self ..)) h)

/-- invariant of the abstract metadata state -/
def FieldsOK (l : List (String × List (Nat × Cell))) : Prop :=
  (l.map (·.1)).Nodup ∧ ∀ p ∈ l, p.1 ≠ "cluster_id" ∧ Sorted p.2

theorem fieldsOK_upsert (l : List (String × List (Nat × Cell))) (f : String) (m : List (Nat × Option Cell))
    (hf : f ≠ "cluster_id") (h : FieldsOK l) :
    FieldsOK ((l.filter fun p => p.1 != f) ++ [(f, cleanMeta m)]) := by
  refine ⟨?_, ?_⟩
  · rw [List.map_append, List.nodup_append]
    refine ⟨?_, by simp, ?_⟩
    · exact (List.Pairwise.filter _ (List.pairwise_map.1 h.1) |> List.pairwise_map.2)
    · intro a ha b hb
      simp only [List.map_cons, List.map_nil, List.mem_singleton] at hb
      subst hb
      simp only [List.mem_map, List.mem_filter] at ha
      obtain ⟨p, ⟨_, hp⟩, rfl⟩ := ha
      simpa using hp
  · intro p hp
    rcases List.mem_append.1 hp with hp | hp
    · exact h.2 p (List.mem_filter.1 hp).1
    · simp only [List.mem_singleton] at hp
      subst hp
      exact ⟨hf, sorted_cleanMeta m⟩

theorem fieldsOK_run (ops : List Op) :
    ∀ (a : Abs), OwnOps ops → FieldsOK a.fields → FieldsOK (absRun a ops).fields := by
  induction ops with
  | nil => intro a _ h; exact h
  | cons op ops ih =>
    intro a hown h
    simp only [absRun, List.foldl_cons] at ih ⊢
    apply ih _ (fun o ho => hown o (List.mem_cons_of_mem _ ho))
    have hop := hown op (List.mem_cons_self ..)
    cases op with
    | saveMeta field m => exact fieldsOK_upsert _ _ _ hop h
    | _ => exact h
theorem lookup_filter_ne {α β : Type} [BEq α] [LawfulBEq α] (l : List (α × β)) (k s : α) (h : k ≠ s) :
    (l.filter fun p => p.1 != s).lookup k = l.lookup k := by
  induction l with
  | nil => rfl
  | cons p ps ih =>
    obtain ⟨a, b⟩ := p
    by_cases ha : a = s
    · subst ha
      have hb : (k == a) = false := by simpa using h
      simp [List.lookup_cons, hb, ih]
    · have hb : (a != s) = true := by simpa using ha
      simp only [List.filter_cons, hb, if_true, List.lookup_cons, ih]

theorem lookup_upsert_ne {α β : Type} [BEq α] [LawfulBEq α] (l : List (α × β)) (k s : α) (x : β) (h : k ≠ s) :
    ((l.filter fun p => p.1 != s) ++ [(s, x)]).lookup k = l.lookup k := by
  have hb : (k == s) = false := by simpa using h
  rw [List.lookup_append, lookup_filter_ne l k s h]
  simp [List.lookup_cons, hb]

theorem lookup_upsert_self {β : Type} (l : List (String × β)) (s : String) (x : β) :
    ((l.filter fun p => p.1 != s) ++ [(s, x)]).lookup s = some x := by
  have : (l.filter fun p => p.1 != s).lookup s = none := by
    induction l with
    | nil => rfl
    | cons p ps ih =>
      obtain ⟨a, b⟩ := p
      by_cases ha : a = s
      · subst ha; simpa using ih
      · have hb : (a != s) = true := by simpa using ha
        have hc : (s == a) = false := by simpa using fun h => ha h.symm
        simp only [List.filter_cons, hb, if_true, List.lookup_cons, hc, ih]
  rw [List.lookup_append, this]
  simp


theorem metadataView_eq (parse : String → Cell) (files : List (FName × File)) :
    metadataView parse files =
      ((files.filter fun p => !p.1.2) ++ (files.filter fun p => p.1.2)).foldl (viewStep parse) [] := rfl

theorem metadataView_split (render : Cell → String) (parse : String → Cell)
    (csvs : List (FName × File)) (hcsv : ∀ p ∈ csvs, p.1.2 = false)
    (l : List (String × List (Nat × Cell))) :
    metadataView parse (csvs ++ l.map (fileOf render)) =
      (l.map (fileOf render)).foldl (viewStep parse) (csvs.foldl (viewStep parse) []) := by
  have h1 : (csvs.filter fun p => !p.1.2) = csvs := by
    rw [List.filter_eq_self]; intro p hp; simp [hcsv p hp]
  have h2 : (csvs.filter fun p => p.1.2) = [] := by
    rw [List.filter_eq_nil_iff]; intro p hp; simp [hcsv p hp]
  have h3 : ((l.map (fileOf render)).filter fun p => !p.1.2) = [] := by
    rw [List.filter_eq_nil_iff]; intro p hp
    obtain ⟨q, _, rfl⟩ := List.mem_map.1 hp
    simp [fileOf]
  have h4 : ((l.map (fileOf render)).filter fun p => p.1.2) = l.map (fileOf render) := by
    rw [List.filter_eq_self]; intro p hp
    obtain ⟨q, _, rfl⟩ := List.mem_map.1 hp
    simp [fileOf]
  rw [metadataView_eq, List.filter_append, List.filter_append, h1, h2, h3, h4]
  simp [List.foldl_append]

theorem viewStep_fileOf (render : Cell → String) (parse : String → Cell)
    (hrt : ∀ c, parse (render c) = c) (hne : ∀ c, render c ≠ "")
    (hid : ∀ n : Nat, parse (toString n) = .int n)
    (acc : List (String × List (Cell × Cell))) (f : String) (data : List (Nat × Cell))
    (hf : f ≠ "cluster_id") (hs : Sorted data) :
    viewStep parse acc (fileOf render (f, data)) =
      if f = "info" ∨ data = [] then acc
      else (acc.filter fun q => q.1 != f) ++ [(f, data.map cellPair)] := by
  have hstem : ("cluster_" ++ f == "cluster_info") = (f == "info") := stem_beq f "info"
  simp only [viewStep, fileOf, hstem, loadMetadata_simpleTable render parse hrt hne hid f hf data hs]
  by_cases h1 : f = "info"
  · simp [h1]
  · by_cases h2 : data = []
    · simp [h1, h2]
    · simp [h1, h2]

theorem lookup_view_ne (render : Cell → String) (parse : String → Cell)
    (hrt : ∀ c, parse (render c) = c) (hne : ∀ c, render c ≠ "")
    (hid : ∀ n : Nat, parse (toString n) = .int n) (field : String)
    (l : List (String × List (Nat × Cell))) :
    ∀ acc, FieldsOK l → (∀ p ∈ l, p.1 ≠ field) →
      ((l.map (fileOf render)).foldl (viewStep parse) acc).lookup field = acc.lookup field := by
  induction l with
  | nil => intro acc _ _; rfl
  | cons p ps ih =>
    intro acc hok hall
    obtain ⟨f, data⟩ := p
    have hp := hok.2 (f, data) (List.mem_cons_self ..)
    have hok' : FieldsOK ps :=
      ⟨(List.nodup_cons.1 hok.1).2, fun q hq => hok.2 q (List.mem_cons_of_mem _ hq)⟩
    rw [List.map_cons, List.foldl_cons, ih _ hok' (fun q hq => hall q (List.mem_cons_of_mem _ hq)),
      viewStep_fileOf render parse hrt hne hid acc f data hp.1 hp.2]
    split
    · rfl
    · exact lookup_upsert_ne _ _ _ _ (fun h => hall (f, data) (List.mem_cons_self ..) h.symm)

theorem lookup_view (render : Cell → String) (parse : String → Cell)
    (hrt : ∀ c, parse (render c) = c) (hne : ∀ c, render c ≠ "")
    (hid : ∀ n : Nat, parse (toString n) = .int n) (field : String) (vals : List (Nat × Cell))
    (hinfo : field ≠ "info") (hvals : vals ≠ [])
    (l : List (String × List (Nat × Cell))) :
    ∀ acc, FieldsOK l → l.lookup field = some vals →
      ((l.map (fileOf render)).foldl (viewStep parse) acc).lookup field =
        some (vals.map cellPair) := by
  induction l with
  | nil => intro acc _ h; simp at h
  | cons p ps ih =>
    intro acc hok hl
    obtain ⟨f, data⟩ := p
    have hp := hok.2 (f, data) (List.mem_cons_self ..)
    have hnd := List.nodup_cons.1 hok.1
    have hok' : FieldsOK ps := ⟨hnd.2, fun q hq => hok.2 q (List.mem_cons_of_mem _ hq)⟩
    rw [List.map_cons, List.foldl_cons,
      viewStep_fileOf render parse hrt hne hid acc f data hp.1 hp.2]
    rw [List.lookup_cons] at hl
    by_cases hff : field = f
    · subst hff
      simp only [beq_self_eq_true, Option.some.injEq] at hl
      subst hl
      rw [lookup_view_ne render parse hrt hne hid field ps _ hok']
      · simp only [hinfo, hvals, or_self, if_false]
        exact lookup_upsert_self _ _ _
      · intro q hq hqf
        exact hnd.1 (List.mem_map.2 ⟨q, hq, hqf⟩)
    · have hb : (field == f) = false := by simpa using hff
      simp only [hb] at hl
      exact ih _ hok' hl

theorem metadata_last_saved (render : Cell → String) (parse : String → Cell)
    (hrt : ∀ c, parse (render c) = c) (hne : ∀ c, render c ≠ "")
    (hid : ∀ n : Nat, parse (toString n) = .int n) (scale : α → α)
    (d : Disk α) (hcsv : ∀ p ∈ d.files, p.1.2 = false)   -- any legacy CSV files, any content
    (ops : List Op) (hown : OwnOps ops) (field : String) (vals : List (Nat × Cell))
    (hf : (absRun ⟨[], []⟩ ops).fields.lookup field = some vals)
    (hinfo : field ≠ "info")     -- `cluster_info.tsv` is deliberately ignored on load
    (hvals : vals ≠ []) :
    fieldView parse (run render scale d ops) field =
      some (vals.map fun p => (Cell.int p.1, p.2)) := by
  have hfiles := files_eq render d.files hcsv scale ops d ⟨[], []⟩
    (fun op hop => by
      have := hown op hop
      cases op <;> first | exact this | trivial) (by simp)
  have hok := fieldsOK_run ops ⟨[], []⟩ hown ⟨List.nodup_nil, fun _ h => by simp at h⟩
  rw [fieldView, hfiles, metadataView_split render parse d.files hcsv]
  exact lookup_view render parse hrt hne hid field vals hinfo hvals _ _ hok hf

/-! ### frame -/

theorem step_frame (render : Cell → String) (scale : α → α) (d : Disk α) (op : Op) (name : FName)
    (hs : match op with
      | .saveMeta field _ => name ≠ ("cluster_" ++ field, true)
      | .writeFile s _ => name ≠ s
      | _ => True) :
    (step render scale d op).files.lookup name = d.files.lookup name := by
  cases op with
  | saveMeta field m => exact lookup_upsert_ne _ _ _ _ hs
  | writeFile s f => exact lookup_upsert_ne _ _ _ _ hs
  | _ => rfl
end PhyVerif.C10.Lemmas
