import PhyVerif.Model.C16c
import PhyVerif.Spec.C16
import PhyVerif.Lemmas.C16
/-! Proofs for the chunk LENGTH (`int(round(600·rate))`, round-half-to-even over `Rat`), the compressed
reader's chunk table, and the `chunk_bounds` clauses for data of any type.  Statements: `Props/C16.lean`. -/
namespace PhyVerif.C16.Lemmas
open PhyVerif.C16

/-! ### `round` -/

theorem den_posR (x : Rat) : (0 : Rat) < ((x.den : Int) : Rat) := by
  have : (0 : Int) < (x.den : Int) := by have := x.den_pos; omega
  exact_mod_cast this

theorem mul_den (x : Rat) : x * ((x.den : Int) : Rat) = (x.num : Rat) := by
  have h := Rat.num_divInt_den x
  rw [Rat.divInt_eq_div] at h
  have hq := den_posR x
  grind

/-- `x = f + r/q` with `q = den x > 0`, `f = ⌊x⌋`, `0 ≤ r < q` — the three numbers `pyRound` computes -/
theorem rat_decomp (x : Rat) :
    ∃ (f r q : Int), 0 < q ∧ 0 ≤ r ∧ r < q ∧ (x * q = q * f + r) ∧ q = x.den ∧
      f = x.num / q ∧ r = x.num % q := by
  refine ⟨x.num / (x.den : Int), x.num % (x.den : Int), x.den, ?_, ?_, ?_, ?_, rfl, rfl, rfl⟩
  · have := x.den_pos; omega
  · apply Int.emod_nonneg; have := x.den_pos; omega
  · apply Int.emod_lt_of_pos; have := x.den_pos; omega
  · have h2 : (x.den : Int) * (x.num / (x.den : Int)) + x.num % (x.den : Int) = x.num :=
      Int.mul_ediv_add_emod _ _
    rw [mul_den, ← Rat.intCast_mul, ← Rat.intCast_add, h2]

theorem pyRound_bounds (x : Rat) : x - 1/2 ≤ (pyRound x : Rat) ∧ (pyRound x : Rat) ≤ x + 1/2 := by
  obtain ⟨f, r, q, hq, hr0, hrq, hx, hq', hf, hr⟩ := rat_decomp x
  have hqR : (0 : Rat) < q := by exact_mod_cast hq
  have hr0R : (0 : Rat) ≤ r := by exact_mod_cast hr0
  have hrqR : (r : Rat) < q := by exact_mod_cast hrq
  unfold pyRound
  simp only [← hq', ← hf, ← hr]
  split
  · rename_i h
    have hR : (2 : Rat) * r < q := by exact_mod_cast h
    constructor <;> (apply Rat.le_of_mul_le_mul_right (c := (q : Rat)) _ hqR; grind)
  · split
    · rename_i _ h
      have hR : (q : Rat) < 2 * r := by exact_mod_cast h
      rw [Rat.intCast_add]
      constructor <;> (apply Rat.le_of_mul_le_mul_right (c := (q : Rat)) _ hqR; grind)
    · rename_i h1 h2
      have hR : (2 : Rat) * r = q := by
        have : 2 * r = q := by omega
        exact_mod_cast this
      split
      · constructor <;> (apply Rat.le_of_mul_le_mul_right (c := (q : Rat)) _ hqR; grind)
      · rw [Rat.intCast_add]
        constructor <;> (apply Rat.le_of_mul_le_mul_right (c := (q : Rat)) _ hqR; grind)

/-- an integer strictly closer than 1/2 to `x` is what `round` returns -/
theorem pyRound_unique (x : Rat) (m : Int) (h1 : x - 1/2 < m) (h2 : (m : Rat) < x + 1/2) :
    pyRound x = m := by
  obtain ⟨b1, b2⟩ := pyRound_bounds x
  have a1 : ((pyRound x : Int) : Rat) < ((m + 1 : Int) : Rat) := by rw [Rat.intCast_add]; grind
  have a2 : ((m : Int) : Rat) < ((pyRound x + 1 : Int) : Rat) := by rw [Rat.intCast_add]; grind
  have a1' : pyRound x < m + 1 := by exact_mod_cast a1
  have a2' : m < pyRound x + 1 := by exact_mod_cast a2
  omega

/-- exactly half way between two integers: the even one -/
theorem pyRound_tie (x : Rat) (k : Int) (h : x = k + 1/2) :
    pyRound x % 2 = 0 ∧ (pyRound x = k ∨ pyRound x = k + 1) := by
  obtain ⟨b1, b2⟩ := pyRound_bounds x
  have hk : pyRound x = k ∨ pyRound x = k + 1 := by
    have a1 : ((k : Int) : Rat) ≤ ((pyRound x : Int) : Rat) := by grind
    have a2 : ((pyRound x : Int) : Rat) ≤ ((k + 1 : Int) : Rat) := by rw [Rat.intCast_add]; grind
    have a1' : k ≤ pyRound x := by exact_mod_cast a1
    have a2' : pyRound x ≤ k + 1 := by exact_mod_cast a2
    omega
  refine ⟨?_, hk⟩
  obtain ⟨f, r, q, hq, hr0, hrq, hx, hq', hf, hr⟩ := rat_decomp x
  have hqR : (0 : Rat) < q := by exact_mod_cast hq
  have hr0R : (0 : Rat) ≤ r := by exact_mod_cast hr0
  have hrqR : (r : Rat) < q := by exact_mod_cast hrq
  rw [h] at hx
  have hkf : k = f := by
    rcases Int.lt_trichotomy k f with hlt | heq | hgt
    · exfalso
      have h1 : ((k + 1 : Int) : Rat) ≤ f := by exact_mod_cast hlt
      rw [Rat.intCast_add] at h1
      have := Rat.mul_le_mul_of_nonneg_right h1 (Rat.le_of_lt hqR)
      grind
    · exact heq
    · exfalso
      have h1 : ((f + 1 : Int) : Rat) ≤ k := by exact_mod_cast hgt
      rw [Rat.intCast_add] at h1
      have := Rat.mul_le_mul_of_nonneg_right h1 (Rat.le_of_lt hqR)
      grind
  have h2r : 2 * r = q := by
    have : (2 : Rat) * r = q := by
      rw [hkf] at hx
      grind
    exact_mod_cast this
  unfold pyRound
  simp only [← hq', ← hf, ← hr]
  rw [if_neg (by omega), if_neg (by omega)]
  split <;> omega

theorem chunkSize_bounds (rate : Rat) :
    600 * rate - 1/2 ≤ (chunkSize rate : Rat) ∧ (chunkSize rate : Rat) ≤ 600 * rate + 1/2 :=
  pyRound_bounds (600 * rate)

theorem chunkSize_tie (rate : Rat) (k : Int) (h : 600 * rate = k + 1/2) :
    chunkSize rate % 2 = 0 ∧ (chunkSize rate = k ∨ chunkSize rate = k + 1) :=
  pyRound_tie (600 * rate) k h

theorem chunkSize_unique (rate : Rat) (m : Int) (h1 : 600 * rate - 1/2 < m)
    (h2 : (m : Rat) < 600 * rate + 1/2) : chunkSize rate = m :=
  pyRound_unique (600 * rate) m h1 h2

/-- the readers' constructors pass `assert chunk_size > 0` exactly for rates above 1/1200 Hz -/
theorem chunkSize_pos_iff (rate : Rat) : 0 < chunkSize rate ↔ 1/1200 < rate := by
  obtain ⟨b1, b2⟩ := chunkSize_bounds rate
  constructor
  · intro hpos
    have h1 : ((1 : Int) : Rat) ≤ (chunkSize rate : Rat) := by exact_mod_cast hpos
    rw [Rat.intCast_one] at h1
    rcases Rat.le_iff_lt_or_eq.1 (show (1 : Rat)/1200 ≤ rate by grind) with h | h
    · exact h
    · exfalso
      obtain ⟨he, hk⟩ := chunkSize_tie rate 0 (by rw [← h, Rat.intCast_zero]; decide +kernel)
      omega
  · intro h
    have : ((0 : Int) : Rat) < (chunkSize rate : Rat) := by rw [Rat.intCast_zero]; grind
    exact_mod_cast this

/-! ### the compressed reader's chunk table -/

theorem ap_succ_last (step : Nat) : ∀ (k a : Nat), ap step a (k + 1) = ap step a k ++ [a + k * step] := by
  intro k
  induction k with
  | zero => intro a; simp [ap]
  | succ k ih =>
    intro a
    rw [ap, ih (a + step)]
    simp only [ap, List.cons_append, List.cons.injEq, true_and]
    congr 2
    rw [Nat.add_mul]; omega

theorem pyRange_zero (n cs : Nat) (hn : 1 ≤ n) (hcs : 0 < cs) :
    pyRange 0 n cs = ap cs 0 ((n - 1) / cs + 1) := by
  have := pyRange_eq_ap 0 (n - 1) cs hcs
  rw [show 0 + (n - 1) + 1 = n by omega] at this
  rw [this, ap]

/-- mtscomp's table for `n ≥ 1` samples and chunk length `cs` is the bound list `_get_chunk_bounds`
builds for one array of `n` rows -/
theorem mtsTable_eq (n cs : Nat) (hn : 1 ≤ n) (hcs : 0 < cs) :
    mtsTable n cs = some (getChunkBounds [n] cs) := by
  have hA : pyRange 0 n cs = ap cs 0 ((n - 1) / cs + 1) := pyRange_zero n cs hn hcs
  have hlastA : (pyRange 0 n cs).getLast? = some ((n - 1) / cs * cs) := by
    rw [hA, ap_getLast]; simp
  have hlt : (n - 1) / cs * cs < n := by
    have := Nat.div_mul_le_self (n - 1) cs; omega
  have hB : pyRange 0 (0 + n + 1) cs = ap cs 0 (n / cs + 1) := by
    rw [pyRange_eq_ap 0 n cs hcs, ap]
  have hlastB : (pyRange 0 (0 + n + 1) cs).getLast? = some (n / cs * cs) := by
    rw [hB, ap_getLast]; simp
  unfold mtsTable
  simp only [hlastA, if_pos hlt]
  unfold getChunkBounds
  simp only [List.foldl_cons, List.foldl_nil, gcbStep, List.isEmpty_nil, Bool.not_true,
    Bool.false_and, List.nil_append]
  simp only [Bool.false_eq_true, if_false, hlastB]
  by_cases hdiv : n / cs * cs = n
  · -- cs divides n: the range of the flat formula already ends with n
    have hm : n / cs = (n - 1) / cs + 1 := by
      have h1 : 1 ≤ n / cs := by
        rcases Nat.eq_zero_or_pos (n / cs) with h | h
        · rw [h] at hdiv; omega
        · exact h
      have h2 : (n - 1) / cs = n / cs - 1 := by
        apply Nat.div_eq_of_lt_le
        · have : (n / cs - 1) * cs + cs = n / cs * cs := by
            rw [← Nat.succ_mul]; congr 1; omega
          omega
        · have : (n / cs - 1 + 1) = n / cs := by omega
          rw [this]; omega
      omega
    rw [if_neg (by simp [hdiv])]
    rw [hB, hA, hm, ap_succ_last cs ((n - 1) / cs + 1) 0]
    congr 3
    rw [← hm]; omega
  · have hm : n / cs = (n - 1) / cs := by
      symm
      apply Nat.div_eq_of_lt_le
      · have := Nat.div_mul_le_self n cs; omega
      · have := Nat.lt_div_mul_add (a := n) hcs
        have : (n / cs + 1) * cs = n / cs * cs + cs := by rw [Nat.succ_mul]
        omega
    rw [if_pos (by simp; omega)]
    rw [hB, hA, hm]
    simp

theorem mtsTable_ok (n cs : Nat) (hn : 1 ≤ n) (hcs : 0 < cs) :
    ∃ t, mtsTable n cs = some t ∧ boundsOK [n] cs t = true :=
  ⟨_, mtsTable_eq n cs hn hcs, getChunkBounds_ok [n] cs hcs (by simp)⟩

/-- the reader clause with the chunk length the constructor computes from the sample rate -/
theorem readerChunkBounds_ok (sizes : List Nat) (rate : Rat) (hne : sizes ≠ []) (hr : 1/1200 < rate) :
    ∃ cb, readerChunkBounds sizes rate = some cb ∧
      boundsOK sizes (chunkSize rate).toNat cb = true := by
  have hpos : 0 < chunkSize rate := (chunkSize_pos_iff rate).2 hr
  refine ⟨getChunkBounds sizes (chunkSize rate).toNat, ?_, getChunkBounds_ok sizes _ (by omega) hne⟩
  unfold readerChunkBounds
  simp only []
  rw [if_neg (by omega)]

/-- … and the constructor's `assert chunk_size > 0` fails for every other rate -/
theorem readerChunkBounds_none (sizes : List Nat) (rate : Rat) (hr : rate ≤ 1/1200) :
    readerChunkBounds sizes rate = none := by
  have hpos : ¬ 0 < chunkSize rate := fun h => absurd ((chunkSize_pos_iff rate).1 h) (Rat.not_lt.2 hr)
  unfold readerChunkBounds
  simp only []
  rw [if_pos (by omega)]

/-! ### how much the compressed iterator hands out at once -/

theorem gaps_adjacent (cs : Nat) : ∀ (l : List Nat), gapsLe cs l = true →
    ∀ k, k + 1 < l.length → l.getD (k + 1) 0 ≤ l.getD k 0 + cs := by
  intro l
  induction l with
  | nil => intro _ k hk; simp at hk
  | cons a t ih =>
    intro hg k hk
    cases t with
    | nil => simp at hk
    | cons b t' =>
      simp only [gapsLe, Bool.and_eq_true, decide_eq_true_eq] at hg
      cases k with
      | zero => simp; omega
      | succ k =>
        have := ih hg.2 k (by simpa using hk)
        simpa using this

theorem gaps_span (cs : Nat) (l : List Nat) (hg : gapsLe cs l = true) :
    ∀ d i, i + d < l.length → l.getD (i + d) 0 ≤ l.getD i 0 + d * cs := by
  intro d
  induction d with
  | zero => intro i _; simp
  | succ d ih =>
    intro i h
    have h1 := ih i (by omega)
    have h2 := gaps_adjacent cs l hg (i + d) (by omega)
    rw [show i + (d + 1) = i + d + 1 by omega, Nat.succ_mul]
    omega

theorem mtsBatch_span (bs nc b : Nat) (hb : bs * b < nc) :
    (mtsBatch bs nc b).1 ≤ (mtsBatch bs nc b).2 ∧ (mtsBatch bs nc b).2 + 1 ≤ nc ∧
      (mtsBatch bs nc b).2 - (mtsBatch bs nc b).1 ≤ bs := by
  simp only [mtsBatch, Nat.mul_succ]
  omega

theorem iterMtsIdx_spans (bs nc : Nat) (hbs : 0 < bs) (hnc : 1 ≤ nc) :
    ∀ p ∈ iterMtsIdx bs nc, p.1 ≤ p.2 ∧ p.2 ≤ nc ∧ p.2 - p.1 ≤ bs := by
  obtain ⟨f1, _, f3⟩ := nBatches_facts bs nc hbs hnc
  have hbt : ∀ p ∈ (List.range (nBatches bs nc)).map (mtsBatch bs nc),
      p.1 ≤ p.2 ∧ p.2 + 1 ≤ nc ∧ p.2 - p.1 ≤ bs := by
    intro p hp
    obtain ⟨b, hb, rfl⟩ := List.mem_map.1 hp
    rw [List.mem_range] at hb
    apply mtsBatch_span
    have : bs * b ≤ bs * (nBatches bs nc - 1) := Nat.mul_le_mul_left _ (by omega)
    omega
  intro p hp
  unfold iterMtsIdx at hp
  simp only [] at hp
  split at hp
  · simp at hp
  · rename_i l hl
    rcases List.mem_append.1 hp with h | h
    · have := hbt p h; omega
    · have hlm := hbt l (List.mem_of_getLast? hl)
      have : p = (l.2, l.2 + 1) := by simpa using h
      subst this
      simp only
      omega

/-- no interval of the compressed iterator is longer than `batch_size` chunk lengths -/
theorem iterChunksMts_len_le (bs cs : Nat) (hbs : 0 < bs) (cb : List Nat) (hg : gapsLe cs cb = true)
    (hlen : 2 ≤ cb.length) : ∀ p ∈ iterChunksMts bs cb, p.2 - p.1 ≤ bs * cs := by
  intro p hp
  unfold iterChunksMts at hp
  obtain ⟨ij, hij, rfl⟩ := List.mem_map.1 hp
  obtain ⟨h1, h2, h3⟩ := iterMtsIdx_spans bs (cb.length - 1) hbs (by omega) ij hij
  have hs := gaps_span cs cb hg (ij.2 - ij.1) ij.1 (by omega)
  rw [show ij.1 + (ij.2 - ij.1) = ij.2 by omega] at hs
  have hm : (ij.2 - ij.1) * cs ≤ bs * cs := Nat.mul_le_mul_right _ h3
  simp only
  omega

/-! ### `chunk_bounds` for data of any type -/

theorem chunkBounds_good (n cs ov : Int) (hn : 0 ≤ n) (hcs : 0 < cs) (hov0 : 0 ≤ ov) (hov : ov < cs) :
    ∀ c ∈ chunkBounds n cs ov, ChunkGood cs c := by
  unfold chunkBounds
  simp only []
  have := loop_good n cs ov hcs hov0 hov n.toNat cs (cs - ov / 2)
    [⟨0, cs, 0, cs - ov / 2⟩]
    (by
      intro c hc
      have : c = ⟨0, cs, 0, cs - ov / 2⟩ := by simpa using hc
      subst this
      simp only [ChunkGood]
      omega) (by omega) rfl
  simp only at this
  generalize loopCB n cs ov n.toNat cs (cs - ov / 2) [⟨0, cs, 0, cs - ov / 2⟩] = r at this ⊢
  obtain ⟨sEnd, keepEnd, acc⟩ := r
  simp only at this ⊢
  obtain ⟨h1, h2, h3, h4⟩ := this
  split
  · intro c hc
    rcases List.mem_append.1 hc with hc | hc
    · exact h1 c hc
    · have : c = ⟨sEnd - ov, n, keepEnd, n⟩ := by simpa using hc
      subst this
      simp only [ChunkGood]
      omega
  · exact h1

/-- `data_chunk(data, c)` is `data_chunk(data, c, with_overlap=True)[ks - s : ke - s]`, and the chunk's
data is at most `cs` long -/
theorem chunk_inside {α : Type} (data : List α) (cs : Int) (hcs : 0 < cs) (c : Chunk)
    (h : ChunkGood cs c) :
    pySlice data c.ks c.ke = pySlice (chunkData data c) (c.ks - c.s) (c.ke - c.s) ∧
      ((chunkData data c).length : Int) ≤ cs := by
  obtain ⟨h1, h2, h3, h4⟩ := h
  constructor
  · unfold chunkData pySlice
    rw [List.drop_take, List.drop_drop, List.take_take]
    have e1 : c.s.toNat + (c.ks - c.s).toNat = c.ks.toNat := by omega
    rw [e1]
    congr 1
    omega
  · unfold chunkData pySlice
    rw [List.length_take]
    omega

end PhyVerif.C16.Lemmas
