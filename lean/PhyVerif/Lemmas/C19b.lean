import PhyVerif.Model.C19
import PhyVerif.Spec.C19
import PhyVerif.Lemmas.C19
/-! C19, second part: the registered list characterised independently of the code's filter, the value
`connect` returns, `is_complete()` and the messages of a reporter. -/
namespace PhyVerif.C19.Lemmas
open PhyVerif PhyVerif.C19

/-! ### unconnect -/

/-- the code's filter (field by field, `not in items`) keeps exactly the registrations no item hits -/
theorem keeps_eq_not_hits (items : List UItem) (c : Cb) : keeps items c = !hits items c := by
  obtain ⟨e, s, i, o, l⟩ := c
  induction items with
  | nil => cases s <;> cases o <;> rfl
  | cons it rest ih =>
    simp only [keeps, hits, List.contains_cons, List.any_cons] at ih ⊢
    cases it with
    | cb j =>
      cases s <;> cases o <;> simp_all <;> grind
    | obj p =>
      cases s <;> cases o <;> simp_all <;> grind

/-- the fold of `registered`, started from any list -/
def regFold (acc : List Cb) (ops : List EOp) : List Cb :=
  ops.foldl (fun acc op =>
    match op with
    | .connect r => (match connectCb r with | some c => acc ++ [c] | none => acc)
    | .unconnect items => acc.filter (keeps items)
    | .reset => []
    | _ => acc) acc

theorem regFold_cons (acc : List Cb) (op : EOp) (ops : List EOp) :
    regFold acc (op :: ops) =
      regFold (match op with
        | .connect r => (match connectCb r with | some c => acc ++ [c] | none => acc)
        | .unconnect items => acc.filter (keeps items)
        | .reset => []
        | _ => acc) ops := by
  cases op <;> rfl

theorem survives_cons (c : Cb) (op : EOp) (later : List EOp) :
    survives c (op :: later) =
      ((match op with
        | .reset => false
        | .unconnect items => !hits items c
        | _ => true) && survives c later) := by
  cases op <;> rfl

theorem regFold_eq (ops : List EOp) : ∀ acc : List Cb,
    regFold acc ops = acc.filter (fun c => survives c ops) ++ registeredFwd ops := by
  induction ops with
  | nil =>
    intro acc
    show acc = _
    simp only [survives, List.all_nil, registeredFwd, List.append_nil]
    exact (List.filter_eq_self.2 (fun _ _ => rfl)).symm
  | cons op ops ih =>
    intro acc
    rw [regFold_cons, ih]
    cases op with
    | connect r =>
      cases h : connectCb r with
      | none => simp [registeredFwd, h, survives_cons]
      | some c =>
        by_cases hs : survives c ops = true
        · simp [registeredFwd, h, survives_cons, List.filter_append, hs]
        · simp [registeredFwd, h, survives_cons, List.filter_append, hs]
    | unconnect items =>
      simp only [registeredFwd, survives_cons, List.filter_filter, keeps_eq_not_hits]
      congr 1
      apply List.filter_congr
      intro c _
      exact Bool.and_comm _ _
    | reset => simp [registeredFwd, survives_cons]
    | setSilent b => simp [registeredFwd, survives_cons]
    | enterSilent => simp [registeredFwd, survives_cons]
    | exitSilent => simp [registeredFwd, survives_cons]
    | emit e s a kw => simp [registeredFwd, survives_cons]

theorem registered_eq_fwd (ops : List EOp) : registered ops = registeredFwd ops := by
  have h : registered ops = regFold [] ops := by cases ops <;> rfl
  rw [h, regFold_eq]
  rfl

/-- the emitter's callback list after ANY history (no hypothesis on the nesting of contexts: an unmatched
exit leaves the state alone) -/
theorem erunState_cbs (result : Call → Nat) (ops : List EOp) : ∀ st : EState,
    (erunState result st ops).cbs = regFold st.cbs ops := by
  induction ops with
  | nil => intro st; rfl
  | cons op ops ih =>
    intro st
    rw [erunState, ih, regFold_cons]
    congr 1
    cases op with
    | connect r => rw [(estep_connect_cbs result st r).1]; rfl
    | exitSilent => cases hs : st.saved <;> simp [estep, hs]
    | _ => rfl

theorem state_registered (result : Call → Nat) (ops : List EOp) :
    (erunState result EState.init ops).cbs = registeredFwd ops := by
  rw [erunState_cbs, regFold_eq]
  simp [EState.init]

theorem unconnect_cbs (result : Call → Nat) (st : EState) (items : List UItem) :
    (estep result st (.unconnect items)).1.cbs = st.cbs.filter (fun c => !hits items c) := by
  simp only [estep]
  apply List.filter_congr
  intro c _
  exact keeps_eq_not_hits items c

theorem emitsSpecF_eq (result : Call → Nat) (ops : List EOp) : ∀ pre : List EOp,
    emitsSpecF result pre ops = emitsSpecG result pre ops := by
  induction ops with
  | nil => intro pre; rfl
  | cons op ops ih =>
    intro pre
    cases op with
    | emit e s a kw => simp only [emitsSpecF, emitsSpecG, ih, registered_eq_fwd]
    | _ => simp only [emitsSpecF, emitsSpecG, ih]

theorem emit_outcomes_forward (result : Call → Nat) (ops : List EOp) (h : ExitsMatched ops 0) :
    erun result EState.init ops = emitsSpecF result [] ops := by
  rw [emitsSpecF_eq]
  exact emit_outcomes_any_nesting result ops h

/-! ### the value `connect` returns -/

theorem connect_returns (result : Call → Nat) (st : EState) (r : ConnReq) :
    (∀ i, connectRet r = some i →
      i = r.id ∧ ∃ c, c.id = i ∧ (estep result st (.connect r)).1.cbs = st.cbs ++ [c]) ∧
    (connectRet r = none → (estep result st (.connect r)).1 = st) := by
  rw [(estep_connect_cbs result st r).1]
  unfold connectRet connectCb
  cases hev : r.event with
  | some e => simp
  | none =>
    cases hn : getOnName r.fname with
    | some e => simp
    | none => simp

/-! ### reporter: `is_complete()` and the messages -/

/-- while the completion flag is set the value is at (or above) the maximum -/
def RInv (st : RState) : Prop := st.completed = true → st.max ≤ st.value

theorem setValue_inv (st : RState) (v : Int) :
    RInv (setValue st v).1 ∧ ((setValue st v).2.complete = true → isComplete (setValue st v).1 = true) := by
  unfold RInv at *
  simp only [setValue, isComplete]
  by_cases hv : v < st.max
  · have : ¬ v ≥ st.max := by omega
    simp [hv, this]
  · have hge : v ≥ st.max := by omega
    simp [hv, hge]

theorem rstep_inv (st : RState) (op : ROp) (h : RInv st) :
    RInv (rstep st op).1 ∧ ((rstep st op).2.complete = true → isComplete (rstep st op).1 = true) := by
  cases op with
  | increment => exact setValue_inv st _
  | setValue v => exact setValue_inv st _
  | setComplete => exact setValue_inv st _
  | setMax m =>
    unfold RInv at *
    simp only [rstep]
    refine ⟨?_, by simp⟩
    by_cases hm : m > st.max
    · simp [hm]
    · simp only [hm, if_false]
      intro hc
      have := h hc
      omega
  | reset m =>
    unfold RInv at *
    cases m with
    | none =>
      simp only [rstep]
      refine ⟨?_, by simp⟩
      by_cases h0 : (0 : Int) < st.max
      · simp [h0]
      · simp only [h0, decide_false, Bool.false_or]
        intro _
        omega
    | some m =>
      simp only [rstep]
      refine ⟨?_, by simp⟩
      by_cases h0 : (0 : Int) < m
      · simp [h0]
      · by_cases h1 : m > st.max
        · simp [h1]
        · simp only [h0, h1, decide_false, Bool.false_or]
          intro _
          omega

theorem rrun_inv (ops : List ROp) : ∀ st : RState, RInv st →
    ∀ t ∈ rrun st ops,
      (t.2.2.1.completed = true → isComplete t.2.2.1 = true) ∧
      (t.2.2.2.complete = true → isComplete t.2.2.1 = true) := by
  induction ops with
  | nil => intro st _ t ht; simp [rrun] at ht
  | cons op ops ih =>
    intro st hinv t ht
    obtain ⟨h1, h2⟩ := rstep_inv st op hinv
    simp only [rrun, List.mem_cons] at ht
    rcases ht with rfl | ht
    · refine ⟨?_, h2⟩
      intro hc
      have := h1 hc
      simp only [isComplete, decide_eq_true_eq]
      exact this
    · exact ih _ h1 t ht

theorem reporter_is_complete (ops : List ROp) :
    ∀ t ∈ rrun RState.init ops,
      (t.2.2.1.completed = true → isComplete t.2.2.1 = true) ∧
      (t.2.2.2.complete = true → isComplete t.2.2.1 = true) :=
  rrun_inv ops RState.init (by intro h; simp [RState.init] at h)

theorem printed_spec (o : ROut) :
    o.printed.count REv.complete = (if o.complete then 1 else 0) ∧
    (∀ v m, REv.progress v m ∈ o.printed ↔ (o.progress = some (v, m) ∧ m ≠ 0 ∧ v ≤ m)) ∧
    o.printed.Sublist o.events ∧
    (∀ v m, o.progress = some (v, m) → o.complete = true →
      o.events = [REv.progress v m, REv.complete]) := by
  obtain ⟨p, c⟩ := o
  refine ⟨?_, ?_, List.filter_sublist, ?_⟩
  · cases p with
    | none => cases c <;> decide
    | some vm =>
      obtain ⟨v, m⟩ := vm
      by_cases h1 : m = 0 <;> by_cases h2 : v ≤ m <;> cases c <;>
        simp [ROut.printed, ROut.events, printsMessage, List.filter_cons, h1, h2]
  · intro v m
    cases p with
    | none => cases c <;> simp [ROut.printed, ROut.events, printsMessage, List.filter_cons]
    | some vm =>
      obtain ⟨v', m'⟩ := vm
      by_cases h1 : m' = 0 <;> by_cases h2 : v' ≤ m' <;> cases c <;>
        simp [ROut.printed, ROut.events, printsMessage, List.filter_cons, h1, h2] <;> grind
  · intro v m hp hc
    simp only at hp hc
    subst hp hc
    rfl

theorem rrun_mem_step (ops : List ROp) : ∀ (st : RState) t, t ∈ rrun st ops → (t.2.2.1, t.2.2.2) = rstep t.1 t.2.1 := by
  induction ops with
  | nil => intro st t h; cases h
  | cons op ops ih =>
    intro st t h
    simp only [rrun, List.mem_cons] at h
    rcases h with rfl | h
    · rfl
    · exact ih _ t h

theorem setValue_messages (st : RState) (x : Int) :
    (∀ v m, REv.progress v m ∈ (setValue st x).2.printed ↔ (x = v ∧ m = st.max ∧ m ≠ 0 ∧ v ≤ m)) ∧
    ((setValue st x).2.complete = true ↔ (st.max ≤ x ∧ st.completed = false)) ∧
    (setValue st x).2.events =
      REv.progress x st.max :: (if (setValue st x).2.complete then [REv.complete] else []) := by
  refine ⟨?_, ?_, ?_⟩
  · intro v m
    simp only [setValue, ROut.printed, ROut.events, List.mem_filter, List.mem_append, List.mem_cons, List.not_mem_nil,
      or_false, printsMessage]
    constructor
    · rintro ⟨h | h, hp⟩
      · injection h with h1 h2; subst h1 h2
        simp only [Bool.and_eq_true, bne_iff_ne, ne_eq, decide_eq_true_eq] at hp
        exact ⟨rfl, rfl, hp.1, hp.2⟩
      · split at h <;> simp at h
    · rintro ⟨rfl, rfl, h1, h2⟩
      exact ⟨.inl rfl, by simp [h1, h2]⟩
  · simp only [setValue]
    by_cases h : x < st.max
    · simp [h]; omega
    · have : st.max ≤ x := by omega
      simp [h, this]
  · simp [setValue, ROut.events]

theorem rstep_messages (st : RState) (op : ROp) :
    (∀ v m, REv.progress v m ∈ (rstep st op).2.printed ↔ (valueSet st op = some v ∧ m = st.max ∧ m ≠ 0 ∧ v ≤ m)) ∧
    ((rstep st op).2.complete = true ↔ ∃ v, valueSet st op = some v ∧ st.max ≤ v ∧ st.completed = false) ∧
    (∀ v, valueSet st op = some v → (rstep st op).2.events =
      REv.progress v st.max :: (if (rstep st op).2.complete then [REv.complete] else [])) ∧
    (valueSet st op = none → (rstep st op).2.events = []) := by
  cases op with
  | increment =>
    obtain ⟨a, b, c⟩ := setValue_messages st (st.value + 1)
    refine ⟨by simpa [rstep, valueSet] using a, by simpa [rstep, valueSet] using b, ?_, by simp [valueSet]⟩
    intro v hv; simp only [valueSet, Option.some.injEq] at hv; subst hv; exact c
  | setValue x =>
    obtain ⟨a, b, c⟩ := setValue_messages st x
    refine ⟨by simpa [rstep, valueSet] using a, by simpa [rstep, valueSet] using b, ?_, by simp [valueSet]⟩
    intro v hv; simp only [valueSet, Option.some.injEq] at hv; subst hv; exact c
  | setComplete =>
    obtain ⟨a, b, c⟩ := setValue_messages st st.max
    refine ⟨by simpa [rstep, valueSet] using a, by simpa [rstep, valueSet] using b, ?_, by simp [valueSet]⟩
    intro v hv; simp only [valueSet, Option.some.injEq] at hv; subst hv; exact c
  | setMax m => simp [rstep, valueSet, ROut.printed, ROut.events]
  | reset m => simp [rstep, valueSet, ROut.printed, ROut.events]

theorem reporter_messages (ops : List ROp) :
    ∀ t ∈ rrun RState.init ops,
      (∀ v m, REv.progress v m ∈ t.2.2.2.printed ↔
        (valueSet t.1 t.2.1 = some v ∧ m = t.1.max ∧ m ≠ 0 ∧ v ≤ m)) ∧
      (t.2.2.2.complete = true ↔ ∃ v, valueSet t.1 t.2.1 = some v ∧ t.1.max ≤ v ∧ t.1.completed = false) ∧
      t.2.2.2.printed.count REv.complete = (if t.2.2.2.complete then 1 else 0) ∧
      (∀ v, valueSet t.1 t.2.1 = some v →
        t.2.2.2.events = REv.progress v t.1.max :: (if t.2.2.2.complete then [REv.complete] else [])) ∧
      (valueSet t.1 t.2.1 = none → t.2.2.2.events = []) ∧
      t.2.2.2.printed.Sublist t.2.2.2.events := by
  intro t ht
  have hs := rrun_mem_step ops _ t ht
  have ho : t.2.2.2 = (rstep t.1 t.2.1).2 := by rw [← hs]
  obtain ⟨a, b, c, d⟩ := rstep_messages t.1 t.2.1
  rw [← ho] at a b c d
  exact ⟨a, b, (printed_spec t.2.2.2).1, c, d, List.filter_sublist⟩

end PhyVerif.C19.Lemmas
