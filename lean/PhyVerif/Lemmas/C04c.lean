import PhyVerif.Model.C04
import PhyVerif.Spec.C04
import PhyVerif.Lemmas.C04
/-! `load_values`: every successful `load` satisfies the declarative table of `Spec/C04.lean`. -/
namespace PhyVerif.C04.Lemmas
open PhyVerif PhyVerif.C04

/-! ### `findPath` / `readFile` against `Wins` / `Absent` -/

theorem findPath_wins (d : Dir) (pats : List String) (f : String) (h : findPath d pats = some f) :
    Wins d pats f :=
  findPath_first_match d pats f h

theorem findPath_absent (d : Dir) (pats : List String) (h : findPath d pats = none) : Absent d pats :=
  findPath_none d pats h

theorem lookup_isSome_of_mem (d : Dir) (f : String) (h : f ∈ d.map (·.1)) : ∃ a, d.lookup f = some a := by
  cases hl : d.lookup f with
  | some a => exact ⟨a, rfl⟩
  | none =>
    rw [List.lookup_eq_none_iff] at hl
    obtain ⟨x, hx, rfl⟩ := List.mem_map.1 h
    have := hl x hx
    simp at this

theorem readFile_some (d : Dir) (pats : List String) (a : Arr) (h : readFile d pats = some a) :
    ∃ f, Wins d pats f ∧ d.lookup f = some a := by
  unfold readFile at h
  split at h
  · next f hf => exact ⟨f, findPath_wins d pats f hf, h⟩
  · cases h

theorem readFile_none (d : Dir) (pats : List String) (h : readFile d pats = none) : Absent d pats := by
  unfold readFile at h
  split at h
  · next f hf =>
    obtain ⟨i, hi, -, hm, -⟩ := findPath_first_match d pats f hf
    obtain ⟨a, ha⟩ := lookup_isSome_of_mem d f hm
    rw [ha] at h
    cases h
  · next hf => exact findPath_absent d pats hf

/-- an ordinary table row, from what `readFile` returns -/
theorem row_of_readFile (d : Dir) (pats : List String) (tr : Arr → Arr) :
    Row d pats tr ((readFile d pats).map tr) := by
  cases h : readFile d pats with
  | some a =>
    obtain ⟨f, hw, hl⟩ := readFile_some d pats a h
    exact .inl ⟨f, a, hw, hl, rfl⟩
  | none => exact .inr ⟨readFile_none d pats h, rfl⟩

theorem wins_not_absent (d : Dir) (pats : List String) (f : String) (h : Wins d pats f) : ¬ Absent d pats := by
  obtain ⟨i, hi, h1, h2, -⟩ := h
  intro ha
  have := ha _ (List.getElem_mem hi) f h2
  rw [h1] at this
  cases this

/-- under `GlobUnique` the winner is unique -/
theorem wins_unique (d : Dir) (pats : List String) (f g : String) (hu : GlobUnique d pats)
    (hf : Wins d pats f) (hg : Wins d pats g) : f = g := by
  obtain ⟨i, hi, f1, f2, f3⟩ := hf
  obtain ⟨j, hj, g1, g2, g3⟩ := hg
  rcases Nat.lt_trichotomy i j with hlt | heq | hgt
  · have := g3 i hi hlt f f2
    rw [f1] at this; cases this
  · subst heq
    exact hu _ (List.getElem_mem hi) f f2 g g2 f1 g1
  · have := f3 j hj hgt g g2
    rw [g1] at this; cases this

/-! ### files created by the loader do not change the later reads -/

theorem findPath_append (d x : Dir) (pats : List String)
    (h : ∀ p ∈ pats, ∀ g ∈ x.map (·.1), globMatch p g = false) :
    findPath (d ++ x) pats = findPath d pats := by
  induction pats with
  | nil => rfl
  | cons p rest ih =>
    have hx : x.filter (fun f => globMatch p f.1) = [] := by
      rw [List.filter_eq_nil_iff]
      intro a ha
      have := h p (by simp) a.1 (List.mem_map.2 ⟨a, ha, rfl⟩)
      simp [this]
    simp only [findPath, List.filter_append, hx, List.append_nil]
    rw [ih (fun q hq => h q (List.mem_cons_of_mem _ hq))]

theorem lookup_append_of_mem (d x : Dir) (f : String) (h : f ∈ d.map (·.1)) :
    (d ++ x).lookup f = d.lookup f := by
  obtain ⟨a, ha⟩ := lookup_isSome_of_mem d f h
  rw [List.lookup_append, ha]
  rfl

theorem readFile_append (d x : Dir) (pats : List String)
    (h : ∀ p ∈ pats, ∀ g ∈ x.map (·.1), globMatch p g = false) :
    readFile (d ++ x) pats = readFile d pats := by
  unfold readFile
  rw [findPath_append d x pats h]
  split
  · next f hf =>
    obtain ⟨i, hi, -, hm, -⟩ := findPath_first_match d pats f hf
    exact lookup_append_of_mem d x f hm
  · rfl

/-- the files `load` may add to the directory -/
def createdNames : List String := ["spike_clusters.npy", "whitening_mat_inv.npy"]

theorem readFile_created (d x : Dir) (pats : List String)
    (hx : ∀ g ∈ x.map (·.1), g ∈ createdNames)
    (hp : ∀ p ∈ pats, ∀ g ∈ createdNames, globMatch p g = false) :
    readFile (d ++ x) pats = readFile d pats :=
  readFile_append d x pats fun p hp' g hg => hp p hp' g (hx g hg)

/-! ### normal form of a successful `load` -/

/-- the inverse-whitening step on the directory after the spike-cluster step -/
def wmiStep (inv : Arr → Arr) (d1 : Dir) (e : Arr) : Option Arr × Dir :=
  match readFile d1 ["whitening_mat_inv.npy"] with
  | some a => (some (atleast 2 (squeeze (scrub a))), d1)
  | none =>
    match (readFile d1 ["whitening_mat.npy"]).map fun a => atleast 2 (squeeze (scrub a)) with
    | some w => ((none : Option Arr), d1 ++ [("whitening_mat_inv.npy", inv w)])
    | none => (none, d1 ++ [("whitening_mat_inv.npy", e)])

/-- the view `load` returns, as a function of the time sources, the four mandatory arrays and the
directory `d1` after the spike-cluster step -/
def viewOf (inv : Arr → Arr) (d d1 : Dir) (times : TimeSrc) (samples : SampleSrc) (st sc cm pos : Arr)
    (e : Arr) : View :=
  { times := times, samples := samples,
    amplitudes := (readFile d ["amplitudes.npy", "spikes.amps*.npy"]).map fun a => squeeze (scrub a),
    spikeTemplates := squeeze (scrub st), spikeClusters := squeeze (scrub sc),
    channelMap := atleast 1 (squeeze (scrub cm)), channelPositions := atleast 2 (squeeze (scrub pos)),
    channelShanks := (readFile d1 ["channel_shanks.npy", "channels.shanks*.npy"]).map fun a =>
      { squeeze (scrub a) with shape := [(squeeze (scrub a)).data.length] },
    channelProbes := (readFile d1 ["channel_probe.npy", "channels.probes*.npy"]).map fun a => atleast 1 (squeeze (scrub a)),
    templates := (readFile d1 ["templates.npy", "templates.waveforms.npy", "templates.waveforms.*.npy"]).map
      fun a => zeroNanTemplates (atleast 3 (squeeze a)),
    templateCols := match (readFile d1 ["templates.npy", "templates.waveforms.npy", "templates.waveforms.*.npy"]).map
        fun a => zeroNanTemplates (atleast 3 (squeeze a)) with
      | some _ => (readFile d1 ["template_ind.npy", "templates.waveformsChannels*.npy"]).map fun a => squeeze (scrub a)
      | none => none,
    wm := (readFile d1 ["whitening_mat.npy"]).map fun a => atleast 2 (squeeze (scrub a)),
    wmi := (wmiStep inv d1 e).1,
    similar := (readFile (wmiStep inv d1 e).2 ["similar_templates.npy"]).map fun a => atleast 2 (squeeze (scrub a)) }

theorem d1Of_some (d : Dir) (f : String)
    (h : findPath d ["spike_clusters.npy", "spikes.clusters*.npy"] = some f) : d1Of d = d := by
  simp only [d1Of, h]

theorem d1Of_none (d : Dir) (f : String) (a : Arr)
    (h : findPath d ["spike_clusters.npy", "spikes.clusters*.npy"] = none)
    (hf : findPath d ["spike_templates.npy", "spikes.templates*.npy"] = some f) (ha : d.lookup f = some a) :
    d1Of d = d ++ [("spike_clusters.npy", a)] := by
  simp only [d1Of, h, hf, ha]

theorem not_not_mono {b : Bool} (h : ¬(!b) = true) : b = true := by simpa using h

theorem readFile_det (d : Dir) (pats : List String) (f : String) (a b : Arr)
    (hf : findPath d pats = some f) (ha : d.lookup f = some a) (hb : readFile d pats = some b) : a = b := by
  simp only [readFile, hf, ha, Option.some.injEq] at hb
  exact hb

theorem load_nf (inv : Arr → Arr) {one : Cell} (d : Dir) (v : View) (d' : Dir) (h : load inv d one = .ok (v, d')) :
    ∃ times samples st sc cm pos,
      v = viewOf inv d (d1Of d) times samples st sc cm pos (inv (eye one (v.channelMap.shape.headD 0))) ∧
      d' = (wmiStep inv (d1Of d) (inv (eye one (v.channelMap.shape.headD 0)))).2 ∧
      ((∃ s, d.lookup "spike_times.npy" = some s ∧ times = .samplesOverRate (squeeze (scrub s)) ∧
          samples = .file (squeeze (scrub s)) ∧ monotone (scrub s).data = true) ∨
       (d.lookup "spike_times.npy" = none ∧ ∃ t, readFile d ["spikes.times*.npy"] = some t ∧
          times = .stored (squeeze (scrub t)) ∧ monotone (scrub t).data = true ∧
          ((∃ s, readFile d ["spikes.samples*.npy"] = some s ∧ samples = .file (squeeze (scrub s))) ∨
           (readFile d ["spikes.samples*.npy"] = none ∧ samples = .roundedTimes (squeeze (scrub t)))))) ∧
      readFile d ["spike_templates.npy", "spikes.templates*.npy"] = some st ∧
      ((∃ f, findPath d ["spike_clusters.npy", "spikes.clusters*.npy"] = some f ∧ d.lookup f = some sc) ∨
       (findPath d ["spike_clusters.npy", "spikes.clusters*.npy"] = none ∧ sc = st)) ∧
      readFile (d1Of d) ["channel_map.npy", "channels.rawInd*.npy"] = some cm ∧
      readFile (d1Of d) ["channel_positions.npy", "channels.localCoordinates*.npy"] = some pos := by
  simp only [load, bind, Except.bind, pure, Except.pure, throw, throwThe, MonadExceptOf.throw] at h
  repeat' first
    | (cases h; done)
    | (injection h with h; injection h with hv hd)
    | split at h
  all_goals subst hv hd
  all_goals first
    | rw [d1Of_some d _ ‹_›]
    | rw [d1Of_none d _ _ ‹_› ‹_› ‹_›]
  all_goals refine ⟨_, _, _, _, _, _, rfl, rfl, ?_, ‹_›, ?_, ‹_›, ‹_›⟩
  all_goals first
    | exact .inl ⟨_, ‹_›, rfl, rfl, not_not_mono ‹_›⟩
    | exact .inr ⟨‹_›, _, ‹_›, rfl, not_not_mono ‹_›, .inl ⟨_, ‹_›, rfl⟩⟩
    | exact .inr ⟨‹_›, _, ‹_›, rfl, not_not_mono ‹_›, .inr ⟨‹_›, rfl⟩⟩
    | exact .inl ⟨_, ‹_›, ‹_›⟩
    | exact .inr ⟨‹_›, readFile_det d _ _ _ _ ‹_› ‹_› ‹_›⟩

/-! ### the table -/

theorem d1Of_cases (d : Dir) : d1Of d = d ∨ ∃ a, d1Of d = d ++ [("spike_clusters.npy", a)] := by
  unfold d1Of
  split
  · exact .inl rfl
  · split
    · split
      · exact .inr ⟨_, rfl⟩
      · exact .inl rfl
    · exact .inl rfl

theorem readFile_d1Of (d : Dir) (pats : List String)
    (hp : ∀ p ∈ pats, globMatch p "spike_clusters.npy" = false) :
    readFile (d1Of d) pats = readFile d pats := by
  rcases d1Of_cases d with h | ⟨a, h⟩
  · rw [h]
  · rw [h]
    exact readFile_append d _ pats (by simpa using hp)

theorem wmiStep_fst (inv : Arr → Arr) (d1 : Dir) (e : Arr) :
    (wmiStep inv d1 e).1 = (readFile d1 ["whitening_mat_inv.npy"]).map fun a => atleast 2 (squeeze (scrub a)) := by
  unfold wmiStep
  split
  · next a ha => simp [ha]
  · next hn => split <;> simp [hn]

theorem wmiStep_snd (inv : Arr → Arr) (d1 : Dir) (e : Arr) :
    (wmiStep inv d1 e).2 = d1 ∨ ∃ w, (wmiStep inv d1 e).2 = d1 ++ [("whitening_mat_inv.npy", w)] := by
  unfold wmiStep
  split
  · exact .inl rfl
  · split
    · exact .inr ⟨_, rfl⟩
    · exact .inr ⟨_, rfl⟩

theorem readFile_d2 (inv : Arr → Arr) (d : Dir) (pats : List String) (e : Arr)
    (hp : ∀ p ∈ pats, ∀ g ∈ createdNames, globMatch p g = false) :
    readFile (wmiStep inv (d1Of d) e).2 pats = readFile d pats := by
  have h1 : readFile (d1Of d) pats = readFile d pats :=
    readFile_d1Of d pats fun p hp' => hp p hp' _ (by simp [createdNames])
  rcases wmiStep_snd inv (d1Of d) e with h | ⟨w, h⟩
  · rw [h, h1]
  · rw [h, readFile_append (d1Of d) _ pats (by
      intro p hp' g hg
      simp only [List.map_cons, List.map_nil, List.mem_singleton] at hg
      subst hg
      exact hp p hp' _ (by simp [createdNames])), h1]

theorem not_mem_of_lookup_none (d : Dir) (f : String) (h : d.lookup f = none) : f ∉ d.map (·.1) := by
  intro hm
  obtain ⟨a, ha⟩ := lookup_isSome_of_mem d f hm
  rw [h] at ha
  cases ha

theorem load_times (inv : Arr → Arr) {one : Cell} (d : Dir) (v : View) (d' : Dir) (h : load inv d one = .ok (v, d')) :
    ExpectedTimes d v.times v.samples := by
  obtain ⟨times, samples, st, sc, cm, pos, hv, -, ht, -⟩ := load_nf inv d v d' h
  generalize inv (eye one (v.channelMap.shape.headD 0)) = e at hv
  subst hv
  simp only [viewOf]
  rcases ht with ⟨s, h1, h2, h3, -⟩ | ⟨h0, t, h1, h2, -, h3⟩
  · exact .inl ⟨s, h1, h2, h3⟩
  · obtain ⟨f, hw, hl⟩ := readFile_some d _ t h1
    refine .inr ⟨not_mem_of_lookup_none d _ h0, f, t, hw, hl, h2, ?_⟩
    rcases h3 with ⟨s, hs, h4⟩ | ⟨hn, h4⟩
    · obtain ⟨g, hw', hl'⟩ := readFile_some d _ s hs
      exact .inl ⟨g, s, hw', hl', h4⟩
    · exact .inr ⟨readFile_none d _ hn, h4⟩

theorem load_values (inv : Arr → Arr) {one : Cell} (d : Dir) (v : View) (d' : Dir) (h : load inv d one = .ok (v, d')) :
    ∀ a : Attr, Expected d a (v.attr a) := by
  obtain ⟨times, samples, st, sc, cm, pos, hv, -, -, hst, hsc, hcm, hpos⟩ := load_nf inv d v d' h
  generalize inv (eye one (v.channelMap.shape.headD 0)) = e at hv
  subst hv
  rw [readFile_d1Of d _ (by decide)] at hcm hpos
  intro a
  cases a
  case amplitudes => exact row_of_readFile d _ _
  case spikeTemplates =>
    obtain ⟨f, hw, hl⟩ := readFile_some d _ st hst
    exact .inl ⟨f, st, hw, hl, rfl⟩
  case spikeClusters =>
    rcases hsc with ⟨f, hf, hl⟩ | ⟨hn, rfl⟩
    · exact .inl ⟨f, sc, findPath_wins d _ f hf, hl, rfl⟩
    · obtain ⟨f, hw, hl⟩ := readFile_some d _ sc hst
      exact .inr ⟨findPath_absent d _ hn, f, sc, hw, hl, rfl⟩
  case channelMap =>
    obtain ⟨f, hw, hl⟩ := readFile_some d _ cm hcm
    exact .inl ⟨f, cm, hw, hl, rfl⟩
  case channelPositions =>
    obtain ⟨f, hw, hl⟩ := readFile_some d _ pos hpos
    exact .inl ⟨f, pos, hw, hl, rfl⟩
  case channelShanks =>
    simp only [View.attr, viewOf, Expected]
    rw [readFile_d1Of d _ (by decide)]
    exact row_of_readFile d _ _
  case channelProbes =>
    simp only [View.attr, viewOf, Expected]
    rw [readFile_d1Of d _ (by decide)]
    exact row_of_readFile d _ _
  case templates =>
    simp only [View.attr, viewOf, Expected]
    rw [readFile_d1Of d _ (by decide)]
    exact row_of_readFile d _ _
  case templateCols =>
    simp only [View.attr, viewOf, Expected]
    rw [readFile_d1Of d _ (by decide), readFile_d1Of d _ (by decide)]
    cases ht : readFile d ["templates.npy", "templates.waveforms.npy", "templates.waveforms.*.npy"] with
    | none => exact .inl ⟨readFile_none d _ ht, rfl⟩
    | some t =>
      obtain ⟨f, hw, -⟩ := readFile_some d _ t ht
      exact .inr ⟨wins_not_absent d _ f hw, row_of_readFile d _ _⟩
  case wm =>
    simp only [View.attr, viewOf, Expected]
    rw [readFile_d1Of d _ (by decide)]
    exact row_of_readFile d _ _
  case wmi =>
    simp only [View.attr, viewOf, Expected]
    rw [wmiStep_fst, readFile_d1Of d _ (by decide)]
    exact row_of_readFile d _ _
  case similar =>
    simp only [View.attr, viewOf, Expected]
    rw [readFile_d2 inv d _ _ (by decide)]
    exact row_of_readFile d _ _

/-! ### rejections -/

theorem load_requires_mandatory (inv : Arr → Arr) {one : Cell} (d : Dir) (a : Attr) (hm : a.mandatory = true)
    (ha : Absent d a.files) (v : View) (d' : Dir) : load inv d one ≠ .ok (v, d') := by
  intro h
  have he := load_values inv d v d' h a
  cases a <;> first | (cases hm; done) | skip
  all_goals
    rcases he with ⟨f, x, hw, -, -⟩ | ⟨-, hn⟩
    · exact wins_not_absent d _ f hw ha
    · cases hn

theorem readFile_of_wins_unique (d : Dir) (pats : List String) (f : String) (a : Arr)
    (hu : GlobUnique d pats) (hw : Wins d pats f) (hl : d.lookup f = some a) : readFile d pats = some a := by
  cases hr : readFile d pats with
  | none => exact absurd (readFile_none d pats hr) (wins_not_absent d pats f hw)
  | some b =>
    obtain ⟨g, hg, hb⟩ := readFile_some d pats b hr
    have := wins_unique d pats g f hu hg hw
    subst this
    rw [hl] at hb
    exact hb.symm

theorem load_rejects_nonmonotone_alf (inv : Arr → Arr) {one : Cell} (d : Dir) (f : String) (t : Arr)
    (hks : "spike_times.npy" ∉ names d) (hu : GlobUnique d ["spikes.times*.npy"])
    (hw : Wins d ["spikes.times*.npy"] f) (hl : d.lookup f = some t)
    (hm : monotone (scrub t).data = false) : load inv d one = .error .nonMonotone := by
  have h0 : d.lookup "spike_times.npy" = none := lookup_none_of_not_mem d _ hks
  have h1 := readFile_of_wins_unique d _ f t hu hw hl
  simp only [load, bind, Except.bind, pure, Except.pure, throw, throwThe, MonadExceptOf.throw, h0, h1]
  cases readFile d ["spikes.samples*.npy"] <;> simp [hm]

end PhyVerif.C04.Lemmas
