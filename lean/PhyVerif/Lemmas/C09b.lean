import PhyVerif.Model.C09b
import PhyVerif.Spec.C09b
import PhyVerif.Lemmas.C09
import Mathlib.Algebra.Order.Ring.Abs
import Mathlib.Algebra.Order.Field.Basic
/-! Proofs for the second part of C09 (unit factor, peak channels, durations in ms).
Statements: `Props/C09.lean`. -/
namespace PhyVerif.C09.Lemmas
open PhyVerif PhyVerif.C09

/-! ### max / min are determined by membership + bound -/

theorem listMax_unique (l : List Rat) (m : Rat) (hm : m ∈ l) (hb : ∀ x ∈ l, x ≤ m) : listMax l = m := by
  have hne : l ≠ [] := List.ne_nil_of_mem hm
  obtain ⟨h1, h2⟩ := listMax_spec l hne
  exact le_antisymm (hb _ h1) (h2 _ hm)

theorem listMin_unique (l : List Rat) (m : Rat) (hm : m ∈ l) (hb : ∀ x ∈ l, m ≤ x) : listMin l = m := by
  have hne : l ≠ [] := List.ne_nil_of_mem hm
  obtain ⟨h1, h2⟩ := listMin_spec l hne
  exact le_antisymm (h2 _ hm) (hb _ h1)

theorem listMax_map_mul_nonpos (v : List Rat) (c : Rat) (hc : c ≤ 0) :
    listMax (v.map (· * c)) = listMin v * c := by
  cases hv : v with
  | nil => simp [listMax, listMin]
  | cons a t =>
    have hne : v ≠ [] := by simp [hv]
    rw [← hv]
    obtain ⟨h1, h2⟩ := listMin_spec v hne
    apply listMax_unique
    · exact List.mem_map.mpr ⟨_, h1, rfl⟩
    · intro x hx
      obtain ⟨y, hy, rfl⟩ := List.mem_map.mp hx
      exact mul_le_mul_of_nonpos_right (h2 y hy) hc

theorem listMin_map_mul_nonpos (v : List Rat) (c : Rat) (hc : c ≤ 0) :
    listMin (v.map (· * c)) = listMax v * c := by
  cases hv : v with
  | nil => simp [listMax, listMin]
  | cons a t =>
    have hne : v ≠ [] := by simp [hv]
    rw [← hv]
    obtain ⟨h1, h2⟩ := listMax_spec v hne
    apply listMin_unique
    · exact List.mem_map.mpr ⟨_, h1, rfl⟩
    · intro x hx
      obtain ⟨y, hy, rfl⟩ := List.mem_map.mp hx
      exact mul_le_mul_of_nonpos_right (h2 y hy) hc

/-- scaling a sample vector by ANY factor scales its peak-to-peak amplitude by the absolute value -/
theorem ptp_scale_abs (v : List Rat) (c : Rat) : ptp (v.map (· * c)) = ptp v * |c| := by
  rcases le_total 0 c with hc | hc
  · rw [abs_of_nonneg hc]; exact ptp_scale v c hc
  · rw [abs_of_nonpos hc]
    unfold ptp
    rw [listMax_map_mul_nonpos v c hc, listMin_map_mul_nonpos v c hc]
    ring

theorem chAmps_scale_abs (U : Mat) (c : Rat) : chAmps (scaleMat U c) = (chAmps U).map (· * |c|) := by
  unfold chAmps scaleMat
  rw [ncols_scale, List.map_map]
  apply List.map_congr_left
  intro j _
  simp only [Function.comp_def]
  rw [col_scale, ptp_scale_abs]

/-- peak amplitude of a scaled waveform -/
theorem peak_scale_abs (U : Mat) (c : Rat) :
    listMax (chAmps (scaleMat U c)) = listMax (chAmps U) * |c| := by
  rw [chAmps_scale_abs, listMax_map_mul _ _ (abs_nonneg c)]

/-! ### the unit factor -/

theorem getD_map_mul (w : List Rat) (f : Rat) (i : Nat) : (w.map (· * f)).getD i 0 = w.getD i 0 * f := by
  simp only [List.getD_eq_getElem?_getD, List.getElem?_map]
  cases w[i]? <;> simp

theorem getD_map_optmap {α : Type} (l : List (Option α)) (g : α → α) (t : Nat) :
    (l.map fun o => o.map g).getD t none = (l.getD t none).map g := by
  simp only [List.getD_eq_getElem?_getD, List.getElem?_map]
  cases l[t]? <;> simp

theorem sum_map_mul_right (m : List Nat) (g : Nat → Rat) (f : Rat) :
    (m.map fun i => g i * f).sum = (m.map g).sum * f := by
  induction m with
  | nil => simp
  | cons a m ih => simp only [List.map_cons, List.sum_cons, ih]; ring

theorem meanOver_scale (s : List Nat) (w : List Rat) (f : Rat) (t : Nat) :
    meanOver s (w.map (· * f)) t = (meanOver s w t).map (· * f) := by
  unfold meanOver
  simp only [getD_map_mul, sum_map_mul_right]
  split
  · rfl
  · simp only [Option.map_some]
    congr 1
    ring

theorem spikeAmpUnit_eq (d : Data) (f : Rat) (i : Nat) (hi : i < d.spikes.length)
    (ha : d.amplitudes.length = d.spikes.length) (hs : d.spikes.getD i 0 < d.wfsW.length) :
    (spikeAmpsUnit d f).getD i 0 =
      d.amplitudes.getD i 0 *
        listMax (chAmps (matMul (d.wfsW.getD (d.spikes.getD i 0) []) d.wmi)) * f ∧
    (spikeAmpsUnit d f).length = d.spikes.length := by
  refine ⟨?_, by simp [spikeAmpsUnit, spikeAmps_length d ha]⟩
  unfold spikeAmpsUnit
  rw [getD_map_mul]
  rcases spikeAmp_eq d i hi ha with h | h
  · rw [h]; ring
  · omega

theorem ampsVUnit_eq_mean (d : Data) (f : Rat) (ha : d.amplitudes.length = d.spikes.length) (t : Nat)
    (ht : t < d.wfsW.length) :
    (ampsVUnit d f).getD t none = meanOver d.spikes (spikeAmpsUnit d f) t ∧
    (ampsVUnit d f).length = d.wfsW.length := by
  obtain ⟨h1, h2⟩ := ampsV_eq_mean d ha t ht
  refine ⟨?_, by simpa [ampsVUnit] using h2⟩
  unfold ampsVUnit spikeAmpsUnit
  rw [getD_map_optmap, h1, meanOver_scale]

theorem rescaledUnit_getD (d : Data) (f : Rat) (t : Nat) :
    (rescaledUnit d f).getD t none = ((rescaled d).getD t none).map fun W => scaleMat W f := by
  unfold rescaledUnit
  simp only [List.getD_eq_getElem?_getD, List.getElem?_map]
  cases (rescaled d)[t]? <;> simp

theorem ampsAu_getD (d : Data) (t : Nat) (ht : t < d.wfsW.length) :
    (ampsAu d).getD t 0 = listMax (chAmps ((unwhitened d).getD t [])) := by
  have hU : t < (unwhitened d).length := by simp [unwhitened, ht]
  unfold ampsAu
  simp only [List.getD_eq_getElem?_getD]
  simp [hU]

/-- The returned (unit-scaled) waveform of an id with spikes has as peak amplitude the ABSOLUTE VALUE of
the returned per-id amplitude — no sign condition on amplitudes or factor. -/
theorem rescaledUnit_peak_abs (d : Data) (f : Rat) (t : Nat) (ht : t < d.wfsW.length) (v : Rat)
    (hv : (ampsVUnit d f).getD t none = some v) (hau : 0 < (ampsAu d).getD t 0) :
    ∃ W, (rescaledUnit d f).getD t none = some W ∧ listMax (chAmps W) = |v| := by
  unfold ampsVUnit at hv
  rw [getD_map_optmap] at hv
  cases hv0 : (ampsV d).getD t none with
  | none => rw [hv0] at hv; cases hv
  | some v0 =>
    rw [hv0] at hv
    simp only [Option.map_some, Option.some.injEq] at hv
    have hne : (ampsAu d).getD t 0 ≠ 0 := ne_of_gt hau
    refine ⟨scaleMat (scaleMat ((unwhitened d).getD t []) (v0 / (ampsAu d).getD t 0)) f, ?_, ?_⟩
    · rw [rescaledUnit_getD, rescaled_getD d t ht, hv0]
      simp only [if_neg hne, Option.map_some]
      rfl
    · rw [peak_scale_abs, peak_scale_abs, ← ampsAu_getD d t ht, ← hv, abs_mul, abs_div,
        abs_of_pos hau]
      field_simp

theorem ampsVUnit_nonneg (d : Data) (f : Rat) (hnn : ∀ a ∈ d.amplitudes, 0 ≤ a) (hf : 0 ≤ f) (t : Nat)
    (ht : t < d.wfsW.length) (v : Rat) (hv : (ampsVUnit d f).getD t none = some v) : 0 ≤ v := by
  unfold ampsVUnit at hv
  rw [getD_map_optmap] at hv
  cases hv0 : (ampsV d).getD t none with
  | none => rw [hv0] at hv; cases hv
  | some v0 =>
    rw [hv0] at hv
    simp only [Option.map_some, Option.some.injEq] at hv
    rw [← hv]
    exact mul_nonneg (ampsV_nonneg d hnn t ht v0 hv0) hf

theorem ampsVUnit_nonpos (d : Data) (f : Rat) (hnn : ∀ a ∈ d.amplitudes, 0 ≤ a) (hf : f ≤ 0) (t : Nat)
    (ht : t < d.wfsW.length) (v : Rat) (hv : (ampsVUnit d f).getD t none = some v) : v ≤ 0 := by
  unfold ampsVUnit at hv
  rw [getD_map_optmap] at hv
  cases hv0 : (ampsV d).getD t none with
  | none => rw [hv0] at hv; cases hv
  | some v0 =>
    rw [hv0] at hv
    simp only [Option.map_some, Option.some.injEq] at hv
    rw [← hv]
    exact mul_nonpos_of_nonneg_of_nonpos (ampsV_nonneg d hnn t ht v0 hv0) hf

/-! ### peak-to-peak, peak channel, peak amplitude: entry-level characterisations -/

theorem col_length (W : Mat) (j : Nat) : (col W j).length = W.length := by simp [col]

theorem col_eq_chan (W : Mat) (j : Nat) : col W j = chan W j := by
  apply List.ext_getElem
  · simp [col, chan]
  · intro s h1 h2
    have hs : s < W.length := by simpa [col] using h1
    simp [col, chan, entry, List.getD_eq_getElem?_getD, hs]

theorem col_getD (W : Mat) (j s : Nat) (hs : s < W.length) : (col W j).getD s 0 = entry W s j := by
  simp [col, entry, List.getD_eq_getElem?_getD, hs]

theorem getD_mem' (l : List Rat) (i : Nat) (h : i < l.length) : l.getD i 0 ∈ l := by
  rw [getD_eq_getElem' l i h]; exact List.getElem_mem h

theorem getD_argmax (l : List Rat) (h : l ≠ []) : l.getD (argmaxFirst l) 0 = listMax l := by
  obtain ⟨h1, h2, _⟩ := argmaxFirst_spec l h
  symm
  apply listMax_unique _ _ (getD_mem' l _ h1)
  intro x hx
  obtain ⟨k, hk, rfl⟩ := List.getElem_of_mem hx
  rw [← getD_eq_getElem' l k hk]
  exact h2 k hk

theorem getD_argmin (l : List Rat) (h : l ≠ []) : l.getD (argminFirst l) 0 = listMin l := by
  obtain ⟨h1, h2, _⟩ := argminFirst_spec l h
  symm
  apply listMin_unique _ _ (getD_mem' l _ h1)
  intro x hx
  obtain ⟨k, hk, rfl⟩ := List.getElem_of_mem hx
  rw [← getD_eq_getElem' l k hk]
  exact h2 k hk

theorem col_ne_nil (W : Mat) (j : Nat) (hW : W ≠ []) : col W j ≠ [] := by
  intro h
  have := col_length W j
  rw [h] at this
  exact hW (List.eq_nil_of_length_eq_zero this.symm)

/-- the model's `ptp` of a channel is the largest minus the smallest sample of that channel -/
theorem ptp_isPtp (W : Mat) (j : Nat) (hW : W ≠ []) : IsPtp W j (ptp (col W j)) := by
  have hne := col_ne_nil W j hW
  obtain ⟨a1, a2, _⟩ := argmaxFirst_spec (col W j) hne
  obtain ⟨b1, b2, _⟩ := argminFirst_spec (col W j) hne
  rw [col_length] at a1 b1
  refine ⟨argmaxFirst (col W j), argminFirst (col W j), a1, b1, ?_, ?_, ?_⟩
  · intro s hs
    have := a2 s (by rw [col_length]; exact hs)
    rwa [col_getD W j s hs, col_getD W j _ a1] at this
  · intro s hs
    have := b2 s (by rw [col_length]; exact hs)
    rwa [col_getD W j s hs, col_getD W j _ b1] at this
  · unfold ptp
    rw [← getD_argmax _ hne, ← getD_argmin _ hne, col_getD W j _ a1, col_getD W j _ b1]

theorem isPtp_unique (W : Mat) (j : Nat) (a b : Rat) (ha : IsPtp W j a) (hb : IsPtp W j b) : a = b := by
  obtain ⟨s1, s2, hs1, hs2, hM, hm, rfl⟩ := ha
  obtain ⟨r1, r2, hr1, hr2, hM', hm', rfl⟩ := hb
  have e1 : entry W s1 j = entry W r1 j := le_antisymm (hM' s1 hs1) (hM r1 hr1)
  have e2 : entry W s2 j = entry W r2 j := le_antisymm (hm r2 hr2) (hm' s2 hs2)
  rw [e1, e2]

theorem chAmps_length (W : Mat) : (chAmps W).length = ncols W := by simp [chAmps]

theorem chAmps_getD (W : Mat) (j : Nat) (hj : j < ncols W) : (chAmps W).getD j 0 = ptp (col W j) := by
  simp [chAmps, List.getD_eq_getElem?_getD, hj]

theorem ncols_of_rect (W : Mat) (ns nc : Nat) (h : Rect W ns nc) (hns : 0 < ns) : ncols W = nc := by
  obtain ⟨hl, hr⟩ := h
  cases W with
  | nil => simp at hl; omega
  | cons r W => simpa [ncols] using hr r (by simp)

theorem ne_nil_of_rect (W : Mat) (ns nc : Nat) (h : Rect W ns nc) (hns : 0 < ns) : W ≠ [] := by
  intro hW
  rw [hW] at h
  have := h.1
  simp at this
  omega

/-- `np.argmax(tmp.max(axis=0) - tmp.min(axis=0))` of one rectangular waveform is its peak channel -/
theorem peakChannel_spec (W : Mat) (ns nc : Nat) (h : Rect W ns nc) (hns : 0 < ns) (hnc : 0 < nc) :
    IsPeakChannel W nc (argmaxFirst (chAmps W)) := by
  have hW := ne_nil_of_rect W ns nc h hns
  have hncols := ncols_of_rect W ns nc h hns
  have hne : chAmps W ≠ [] := by
    intro hc
    have := chAmps_length W
    rw [hc, hncols] at this
    simp at this
    omega
  obtain ⟨h1, h2, h3⟩ := argmaxFirst_spec (chAmps W) hne
  rw [chAmps_length, hncols] at h1
  refine ⟨h1, ptp (col W (argmaxFirst (chAmps W))), ptp_isPtp W _ hW, ?_, ?_⟩
  · intro j b hj hb
    rw [isPtp_unique W j b _ hb (ptp_isPtp W j hW)]
    have := h2 j (by rw [chAmps_length, hncols]; exact hj)
    rwa [chAmps_getD W j (by omega), chAmps_getD W _ (by omega)] at this
  · intro j b hj hb
    rw [isPtp_unique W j b _ hb (ptp_isPtp W j hW)]
    have := h3 j hj
    rwa [chAmps_getD W j (by omega), chAmps_getD W _ (by omega)] at this

theorem peakChannels_getD (wfs : List Mat) (t : Nat) (ht : t < wfs.length) :
    (peakChannels wfs).getD t 0 = argmaxFirst (chAmps (wfs.getD t [])) := by
  simp [peakChannels, List.getD_eq_getElem?_getD, ht]

theorem peakChannels_spec (wfs : List Mat) (t ns nc : Nat) (ht : t < wfs.length)
    (hrect : Rect (wfs.getD t []) ns nc) (hns : 0 < ns) (hnc : 0 < nc) :
    IsPeakChannel (wfs.getD t []) nc ((peakChannels wfs).getD t 0) ∧
    (peakChannels wfs).length = wfs.length := by
  refine ⟨?_, by simp [peakChannels]⟩
  rw [peakChannels_getD wfs t ht]
  exact peakChannel_spec _ ns nc hrect hns hnc

/-- the model's `max(chAmps)` is the largest channel peak-to-peak -/
theorem peakAmp_spec (W : Mat) (ns nc : Nat) (h : Rect W ns nc) (hns : 0 < ns) (hnc : 0 < nc) :
    IsPeakAmp W nc (listMax (chAmps W)) := by
  have hW := ne_nil_of_rect W ns nc h hns
  have hncols := ncols_of_rect W ns nc h hns
  obtain ⟨hp, a, ha, hb, _⟩ := peakChannel_spec W ns nc h hns hnc
  have hne : chAmps W ≠ [] := by
    intro hc
    have := chAmps_length W
    rw [hc, hncols] at this
    simp at this
    omega
  have hmax : listMax (chAmps W) = a := by
    rw [← getD_argmax _ hne, chAmps_getD W _ (by omega)]
    exact isPtp_unique W _ _ _ (ptp_isPtp W _ hW) ha
  rw [hmax]
  exact ⟨⟨_, hp, ha⟩, hb⟩

/-! ### durations in milliseconds -/

theorem getD_eq_getElem_nat (l : List Nat) (i : Nat) (h : i < l.length) : l[i] = l.getD i 0 := by
  simp [List.getD_eq_getElem?_getD, h]

/-- C-order flat indexing of a table whose rows all have length `n` -/
theorem flatten_getD_uniform (n : Nat) (d : Int) : ∀ (L : List (List Int)) (t p : Nat),
    (∀ r ∈ L, r.length = n) → t < L.length → p < n →
    L.flatten.getD (t * n + p) d = (L.getD t []).getD p d := by
  intro L
  induction L with
  | nil => intro t p _ ht _; simp at ht
  | cons r L ih =>
    intro t p hr ht hp
    have hrn : r.length = n := hr r (by simp)
    cases t with
    | zero =>
      simp only [Nat.zero_mul, Nat.zero_add, List.flatten_cons, List.getD_cons_zero]
      simp only [List.getD_eq_getElem?_getD]
      rw [List.getElem?_append_left (by omega)]
    | succ t =>
      have e : (t + 1) * n + p = r.length + (t * n + p) := by rw [hrn, Nat.succ_mul]; omega
      simp only [List.flatten_cons, List.getD_cons_succ]
      rw [e]
      have := ih t p (fun r' h' => hr r' (by simp [h'])) (by simpa using ht) hp
      rw [← this]
      simp only [List.getD_eq_getElem?_getD]
      rw [List.getElem?_append_right (by omega)]
      congr 2
      omega

theorem durTable_getD (wfs : List Mat) (t : Nat) (ht : t < wfs.length) :
    (durTable wfs).getD t [] =
      (List.range (ncols (wfs.getD t []))).map fun j =>
        (argmaxFirst (col (wfs.getD t []) j) : Int) - (argminFirst (col (wfs.getD t []) j) : Int) := by
  simp [durTable, List.getD_eq_getElem?_getD, ht]

theorem durations_getD (wfs : List Mat) (t : Nat) (ht : t < wfs.length) :
    (durations wfs).getD t 0 =
      (argmaxFirst (col (wfs.getD t []) (argmaxFirst (chAmps (wfs.getD t [])))) : Int) -
      (argminFirst (col (wfs.getD t []) (argmaxFirst (chAmps (wfs.getD t [])))) : Int) := by
  simp [durations, List.getD_eq_getElem?_getD, ht]

theorem ravelIndex_getD (nc : Nat) (peaks : List Nat) (t : Nat) (ht : t < peaks.length) :
    (ravelIndex nc peaks).getD t 0 = t * nc + peaks.getD t 0 := by
  simp [ravelIndex, List.getD_eq_getElem?_getD, ht]

/-- the flat-index route of `_waveform_durations` picks, for waveform `t`, the entry of the peak
channel — provided all waveforms have the same rectangular shape (they are slices of one array) -/
theorem waveformDurations_getD (wfs : List Mat) (rate : Rat) (ns nc : Nat) (hns : 0 < ns) (hnc : 0 < nc)
    (hrect : ∀ W ∈ wfs, Rect W ns nc) (t : Nat) (ht : t < wfs.length) :
    (waveformDurations wfs rate).getD t 0 = (((durations wfs).getD t 0 : Int) : Rat) / rate * 1000 := by
  have hWt : Rect (wfs.getD t []) ns nc := by
    apply hrect
    rw [List.getD_eq_getElem?_getD, List.getElem?_eq_getElem ht]
    exact List.getElem_mem ht
  have hnct : ncols (wfs.getD t []) = nc := ncols_of_rect _ ns nc hWt hns
  have hhead : ncols (wfs.headD []) = nc := by
    cases wfs with
    | nil => simp at ht
    | cons W0 rest => exact ncols_of_rect _ ns nc (hrect W0 (by simp)) hns
  have hp : (peakChannels wfs).getD t 0 < nc := (peakChannels_spec wfs t ns nc ht hWt hns hnc).1.1
  have hpl : t < (peakChannels wfs).length := by simp [peakChannels, ht]
  have hrows : ∀ r ∈ durTable wfs, r.length = nc := by
    intro r hr
    obtain ⟨W, hW, rfl⟩ := List.mem_map.mp hr
    rw [List.length_map, List.length_range]
    exact ncols_of_rect _ ns nc (hrect W hW) hns
  have hflat := flatten_getD_uniform nc 0 (durTable wfs) t ((peakChannels wfs).getD t 0) hrows
    (by simp [durTable, ht]) hp
  have hri : t < (ravelIndex nc (peakChannels wfs)).length := by simp [ravelIndex, hpl]
  unfold waveformDurations
  simp only [hhead]
  rw [List.getD_eq_getElem?_getD, List.getElem?_map, List.getElem?_eq_getElem hri]
  simp only [Option.map_some, Option.getD_some]
  have e : (ravelIndex nc (peakChannels wfs))[t] = t * nc + (peakChannels wfs).getD t 0 := by
    rw [← ravelIndex_getD nc _ t hpl, getD_eq_getElem_nat]
  rw [e, hflat, durTable_getD wfs t ht, durations_getD wfs t ht, peakChannels_getD wfs t ht]
  have hp' : argmaxFirst (chAmps (wfs.getD t [])) < ncols (wfs.getD t []) := by
    rw [hnct, ← peakChannels_getD wfs t ht]; exact hp
  generalize wfs.getD t [] = W at hp' ⊢
  simp only [List.getD_eq_getElem?_getD, List.getElem?_map, List.getElem?_range hp', Option.map_some,
    Option.getD_some]

theorem isFirstMax_unique (l : List Rat) (i j : Nat) (hi : IsFirstMax l i) (hj : IsFirstMax l j) : i = j := by
  obtain ⟨i1, i2, i3⟩ := hi
  obtain ⟨j1, j2, j3⟩ := hj
  rcases Nat.lt_trichotomy i j with h | h | h
  · exact absurd (j3 i h) (not_lt.mpr (i2 j j1))
  · exact h
  · exact absurd (i3 j h) (not_lt.mpr (j2 i i1))

theorem isFirstMin_unique (l : List Rat) (i j : Nat) (hi : IsFirstMin l i) (hj : IsFirstMin l j) : i = j := by
  obtain ⟨i1, i2, i3⟩ := hi
  obtain ⟨j1, j2, j3⟩ := hj
  rcases Nat.lt_trichotomy i j with h | h | h
  · exact absurd (j3 i h) (not_lt.mpr (i2 j j1))
  · exact h
  · exact absurd (i3 j h) (not_lt.mpr (j2 i i1))

theorem isPeakChannel_unique (W : Mat) (nc p q : Nat) (hp : IsPeakChannel W nc p)
    (hq : IsPeakChannel W nc q) : p = q := by
  obtain ⟨p1, a, pa, p2, p3⟩ := hp
  obtain ⟨q1, b, qb, q2, q3⟩ := hq
  rcases Nat.lt_trichotomy p q with h | h | h
  · exact absurd (q3 p a h pa) (not_lt.mpr (p2 q b q1 qb))
  · exact h
  · exact absurd (p3 q b h qb) (not_lt.mpr (q2 p a p1 pa))

/-- `_waveform_durations` entry `t` in the direct form: for THE peak channel `p` of waveform `t`, THE first
position `iM` of the maximum and THE first position `im` of the minimum along time on that channel, the
value is `(iM - im)` samples converted to milliseconds. -/
theorem duration_ms_spec (wfs : List Mat) (rate : Rat) (ns nc : Nat) (hns : 0 < ns) (hnc : 0 < nc)
    (hrect : ∀ W ∈ wfs, Rect W ns nc) (t : Nat) (ht : t < wfs.length) (p iM im : Nat)
    (hp : IsPeakChannel (wfs.getD t []) nc p) (hM : IsFirstMax (chan (wfs.getD t []) p) iM)
    (hm : IsFirstMin (chan (wfs.getD t []) p) im) :
    (waveformDurations wfs rate).getD t 0 = (((iM : Int) - (im : Int) : Int) : Rat) * 1000 / rate := by
  have hWt : Rect (wfs.getD t []) ns nc := by
    apply hrect
    rw [List.getD_eq_getElem?_getD, List.getElem?_eq_getElem ht]
    exact List.getElem_mem ht
  have hW := ne_nil_of_rect _ ns nc hWt hns
  rw [waveformDurations_getD wfs rate ns nc hns hnc hrect t ht, durations_getD wfs t ht]
  have e1 : argmaxFirst (chAmps (wfs.getD t [])) = p :=
    isPeakChannel_unique _ nc _ _ (peakChannel_spec _ ns nc hWt hns hnc) hp
  rw [e1, col_eq_chan]
  have hne : chan (wfs.getD t []) p ≠ [] := by rw [← col_eq_chan]; exact col_ne_nil _ _ hW
  rw [isFirstMax_unique _ _ _ (argmaxFirst_spec _ hne) hM, isFirstMin_unique _ _ _ (argminFirst_spec _ hne) hm]
  rw [div_mul_eq_mul_div]

/-- the three objects the direct formula speaks about exist (and are unique by the lemmas above) -/
theorem duration_objects_exist (W : Mat) (ns nc : Nat) (h : Rect W ns nc) (hns : 0 < ns) (hnc : 0 < nc) :
    ∃ p iM im, IsPeakChannel W nc p ∧ IsFirstMax (chan W p) iM ∧ IsFirstMin (chan W p) im := by
  have hW := ne_nil_of_rect W ns nc h hns
  refine ⟨_, _, _, peakChannel_spec W ns nc h hns hnc, argmaxFirst_spec _ ?_, argminFirst_spec _ ?_⟩ <;>
  · rw [← col_eq_chan]; exact col_ne_nil _ _ hW

theorem waveformDurations_length (wfs : List Mat) (rate : Rat) :
    (waveformDurations wfs rate).length = wfs.length := by
  simp [waveformDurations, ravelIndex, peakChannels]

/-! ### the rescaled templates in entry-level terms -/

theorem rect_scaleMat (W : Mat) (ns nc : Nat) (c : Rat) (h : Rect W ns nc) : Rect (scaleMat W c) ns nc := by
  obtain ⟨h1, h2⟩ := h
  refine ⟨by simp [scaleMat, h1], ?_⟩
  intro row hrow
  obtain ⟨r, hr, rfl⟩ := List.mem_map.mp hrow
  simp [h2 r hr]

theorem entry_scaleMat (W : Mat) (c : Rat) (s j : Nat) : entry (scaleMat W c) s j = entry W s j * c := by
  unfold entry scaleMat
  simp only [List.getD_eq_getElem?_getD, List.getElem?_map]
  cases W[s]? with
  | none => simp
  | some row =>
    simp only [Option.map_some, Option.getD_some, List.getElem?_map]
    cases row[j]? <;> simp

theorem rescaledUnit_peak_full (d : Data) (f : Rat) (t : Nat) (ht : t < d.wfsW.length) (v : Rat)
    (hv : (ampsVUnit d f).getD t none = some v) (hau : 0 < (ampsAu d).getD t 0) (ns nc : Nat)
    (hns : 0 < ns) (hnc : 0 < nc) (hrect : Rect ((unwhitened d).getD t []) ns nc) :
    ∃ W, (rescaledUnit d f).getD t none = some W ∧ Rect W ns nc ∧ IsPeakAmp W nc |v| ∧
      ∀ s j, entry W s j = entry ((unwhitened d).getD t []) s j * (v / (ampsAu d).getD t 0) := by
  unfold ampsVUnit at hv
  rw [getD_map_optmap] at hv
  cases hv0 : (ampsV d).getD t none with
  | none => rw [hv0] at hv; cases hv
  | some v0 =>
    rw [hv0] at hv
    simp only [Option.map_some, Option.some.injEq] at hv
    have hne : (ampsAu d).getD t 0 ≠ 0 := ne_of_gt hau
    have hR : Rect (scaleMat (scaleMat ((unwhitened d).getD t []) (v0 / (ampsAu d).getD t 0)) f) ns nc :=
      rect_scaleMat _ ns nc _ (rect_scaleMat _ ns nc _ hrect)
    refine ⟨scaleMat (scaleMat ((unwhitened d).getD t []) (v0 / (ampsAu d).getD t 0)) f, ?_, hR, ?_, ?_⟩
    rotate_left
    · have hpk := peakAmp_spec _ ns nc hR hns hnc
      have e : listMax (chAmps (scaleMat (scaleMat ((unwhitened d).getD t [])
          (v0 / (ampsAu d).getD t 0)) f)) = |v| := by
        rw [peak_scale_abs, peak_scale_abs, ← ampsAu_getD d t ht, ← hv, abs_mul, abs_div,
          abs_of_pos hau]
        field_simp
      rwa [e] at hpk
    · intro s j
      rw [entry_scaleMat, entry_scaleMat, ← hv]
      ring
    · rw [rescaledUnit_getD, rescaled_getD d t ht, hv0]
      simp only [if_neg hne, Option.map_some]
      rfl

theorem rescaledUnit_peak_nonneg (d : Data) (f : Rat) (hnn : ∀ a ∈ d.amplitudes, 0 ≤ a) (hf : 0 ≤ f)
    (t : Nat) (ht : t < d.wfsW.length) (v : Rat)
    (hv : (ampsVUnit d f).getD t none = some v) (hau : 0 < (ampsAu d).getD t 0) (ns nc : Nat)
    (hns : 0 < ns) (hnc : 0 < nc) (hrect : Rect ((unwhitened d).getD t []) ns nc) :
    ∃ W, (rescaledUnit d f).getD t none = some W ∧ Rect W ns nc ∧ IsPeakAmp W nc v ∧
      ∀ s j, entry W s j = entry ((unwhitened d).getD t []) s j * (v / (ampsAu d).getD t 0) := by
  have := rescaledUnit_peak_full d f t ht v hv hau ns nc hns hnc hrect
  rwa [abs_of_nonneg (ampsVUnit_nonneg d f hnn hf t ht v hv)] at this

theorem rescaledUnit_peak_nonpos (d : Data) (f : Rat) (hnn : ∀ a ∈ d.amplitudes, 0 ≤ a) (hf : f ≤ 0)
    (t : Nat) (ht : t < d.wfsW.length) (v : Rat)
    (hv : (ampsVUnit d f).getD t none = some v) (hau : 0 < (ampsAu d).getD t 0) (ns nc : Nat)
    (hns : 0 < ns) (hnc : 0 < nc) (hrect : Rect ((unwhitened d).getD t []) ns nc) :
    ∃ W, (rescaledUnit d f).getD t none = some W ∧ Rect W ns nc ∧ IsPeakAmp W nc (-v) ∧
      ∀ s j, entry W s j = entry ((unwhitened d).getD t []) s j * (v / (ampsAu d).getD t 0) := by
  have := rescaledUnit_peak_full d f t ht v hv hau ns nc hns hnc hrect
  rwa [abs_of_nonpos (ampsVUnit_nonpos d f hnn hf t ht v hv)] at this

/-! ### matrix product and weighted depth as explicit finite sums -/

theorem sumTo_succ' (n : Nat) (a : Nat → Rat) : sumTo (n + 1) a = a 0 + sumTo n fun k => a (k + 1) := by
  unfold sumTo
  rw [List.range_succ_eq_map, List.map_cons, List.sum_cons, List.map_map]
  rfl

theorem sumTo_congr (n : Nat) (a b : Nat → Rat) (h : ∀ k, k < n → a k = b k) : sumTo n a = sumTo n b := by
  unfold sumTo
  congr 1
  apply List.map_congr_left
  intro k hk
  exact h k (List.mem_range.mp hk)

theorem dot_eq_sumTo : ∀ (a b : List Rat), a.length = b.length →
    dot a b = sumTo a.length fun k => a.getD k 0 * b.getD k 0 := by
  intro a
  induction a with
  | nil => intro b _; simp [dot, sumTo]
  | cons x a ih =>
    intro b hb
    cases b with
    | nil => simp at hb
    | cons y b =>
      have hb' : a.length = b.length := by simpa using hb
      have := ih b hb'
      unfold dot at this ⊢
      rw [List.length_cons, sumTo_succ', List.zip_cons_cons, List.map_cons, List.sum_cons, this]
      simp

theorem sum_map_eq_sumTo (l : List Rat) (g : Rat → Rat) :
    (l.map g).sum = sumTo l.length fun k => g (l.getD k 0) := by
  induction l with
  | nil => simp [sumTo]
  | cons x l ih =>
    rw [List.length_cons, sumTo_succ', List.map_cons, List.sum_cons, ih]
    simp

/-- entry of `np.matmul(W, M)`: `sum_k W[s,k] * M[k,j]` -/
theorem matMul_entry (W M : Mat) (s j : Nat) (hs : s < W.length) (hj : j < ncols M)
    (hrow : (W.getD s []).length = M.length) :
    entry (matMul W M) s j = sumTo M.length fun k => entry W s k * entry M k j := by
  have e : entry (matMul W M) s j = dot (W.getD s []) (col M j) := by
    simp [entry, matMul, List.getD_eq_getElem?_getD, hs, hj]
  rw [e, dot_eq_sumTo _ _ (by rw [col_length, hrow]), hrow]
  apply sumTo_congr
  intro k hk
  rw [col_getD M j k hk]
  rfl

theorem getD_map_nat (l : List Nat) (g : Nat → Rat) (k : Nat) (hk : k < l.length) :
    (l.map g).getD k 0 = g (l.getD k 0) := by
  simp [List.getD_eq_getElem?_getD, hk]

theorem getD_map_rat (l : List Rat) (g : Rat → Rat) (k : Nat) (hk : k < l.length) :
    (l.map g).getD k 0 = g (l.getD k 0) := by
  simp [List.getD_eq_getElem?_getD, hk]

-- `hst`/`hb` (index bounds: the real code raises IndexError outside them) are not needed by the proof
set_option linter.unusedVariables false in
/-- `get_depths` entry `i` as an explicit finite sum over the `nloc` local channels of the spike's template -/
theorem depth_direct (feat0 : List (List Rat)) (cols : List (List Nat)) (ys : List Rat) (st : List Nat)
    (i nloc : Nat) (hi : i < feat0.length) (hl : st.length = feat0.length)
    (hf : (feat0.getD i []).length = nloc) (hst : st.getD i 0 < cols.length)
    (hc : (cols.getD (st.getD i 0) []).length = nloc)
    (hb : ∀ c ∈ cols.getD (st.getD i 0) [], c < ys.length) :
    (depths feat0 cols ys st).getD i none =
      (let w := fun k => max ((feat0.getD i []).getD k 0) 0 * max ((feat0.getD i []).getD k 0) 0
       let y := fun k => ys.getD ((cols.getD (st.getD i 0) []).getD k 0) 0
       if sumTo nloc w = 0 then none else some (sumTo nloc (fun k => y k * w k) / sumTo nloc w)) := by
  rw [depths_eq feat0 cols ys st i hi hl]
  simp only
  have e1 : ((feat0.getD i []).map fun x => max x 0 * max x 0).sum =
      sumTo nloc fun k => max ((feat0.getD i []).getD k 0) 0 * max ((feat0.getD i []).getD k 0) 0 := by
    rw [sum_map_eq_sumTo, hf]
  have e2 : dot ((cols.getD (st.getD i 0) []).map fun c => ys.getD c 0)
        ((feat0.getD i []).map fun x => max x 0 * max x 0) =
      sumTo nloc fun k => ys.getD ((cols.getD (st.getD i 0) []).getD k 0) 0 *
        (max ((feat0.getD i []).getD k 0) 0 * max ((feat0.getD i []).getD k 0) 0) := by
    rw [dot_eq_sumTo _ _ (by rw [List.length_map, List.length_map, hc, hf]), List.length_map, hc]
    apply sumTo_congr
    intro k hk
    rw [getD_map_nat _ _ k (by omega), getD_map_rat _ _ k (by omega)]
  rw [e1, e2]

end PhyVerif.C09.Lemmas
