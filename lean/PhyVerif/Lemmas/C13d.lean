import PhyVerif.Model.C13d
import PhyVerif.Lemmas.C13
import PhyVerif.Lemmas.C13c
import PhyVerif.Lemmas.C04c
import PhyVerif.Model.C14
import PhyVerif.Lemmas.C14d
/-! The link between the directory-level conversion (`convertFS`) and the loader of C04: proofs of
`convert_output_loads` (statements in `Props/C13.lean`). -/
namespace PhyVerif.C13.Lemmas
open PhyVerif PhyVerif.C13 PhyVerif.C04 PhyVerif.C04.Lemmas

/-- the name on disk of the file the conversion leaves for the (unlabelled) name `n` -/
def S (label : String) (n : Name) : String := strOfName (labelled' label n)

/-- the characters every labelled version of `n` starts with: `obj.attr.` for an object file (the label or the
extension follows), the whole name otherwise -/
def stemChars (n : Name) : List Char :=
  if isObj n then
    match n with
    | [a, b, _] => a.toList ++ '.' :: (b.toList ++ ['.'])
    | _ => (strOfName n).toList
  else (strOfName n).toList

theorem allNames_shape : ∀ n ∈ allNames, isObj n = false ∨ ∃ a b c, n = [a, b, c] := by
  have h : allNames.all (fun n => !isObj n || n.length == 3) = true := by decide
  intro n hn
  have := List.all_eq_true.mp h n hn
  simp only [Bool.or_eq_true, Bool.not_eq_true', beq_iff_eq] at this
  rcases this with h | h
  · exact .inl h
  · right
    match n, h with
    | [a, b, c], _ => exact ⟨a, b, c, rfl⟩

theorem S_decomp (label : String) (n : Name) (hn : n ∈ allNames) :
    ∃ rest, (S label n).toList = stemChars n ++ rest := by
  rcases allNames_shape n hn with h | ⟨a, b, c, rfl⟩
  · refine ⟨[], ?_⟩
    have : labelled' label n = n := by
      unfold labelled'; split
      · rfl
      · exact relabel_of_not_obj _ _ h
    simp [S, this, stemChars, h]
  · by_cases ho : isObj [a, b, c] = true
    · by_cases hl : label = ""
      · refine ⟨c.toList, ?_⟩
        simp [S, labelled', hl, stemChars, ho, strOfName]
      · refine ⟨label.toList ++ '.' :: c.toList, ?_⟩
        have : relabel label [a, b, c] = [a, b, label, c] := by simp [relabel, ho, withLabel3]
        simp [S, labelled', hl, this, stemChars, ho, strOfName]
    · simp only [Bool.not_eq_true] at ho
      refine ⟨[], ?_⟩
      have : labelled' label [a, b, c] = [a, b, c] := by
        unfold labelled'; split
        · rfl
        · exact relabel_of_not_obj _ _ ho
      simp [S, this, stemChars, ho]

/-- object files with the extension `npy`: the name on disk is `labelled` of Model/C13b -/
theorem S_npy (label a b : String) (ho : isObj [a, b, "npy"] = true) :
    S label [a, b, "npy"] = labelled label (a ++ "." ++ b) := by
  by_cases hl : label = ""
  · simp [S, labelled', hl, labelled, strOfName, String.append_assoc]
  · have : relabel label [a, b, "npy"] = [a, b, label, "npy"] := by simp [relabel, ho, withLabel3]
    simp [S, labelled', hl, this, labelled, strOfName, String.append_assoc]

theorem prefix_self_append (l r : List Char) : l.isPrefixOf (l ++ r) = true :=
  List.isPrefixOf_iff_prefix.mpr (List.prefix_append _ _)

/-- the names on disk are pairwise different, whatever the label -/
theorem S_inj (label : String) (a b : Name) (ha : a ∈ allNames) (hb : b ∈ allNames)
    (h : S label a = S label b) : a = b := by
  have htab : allNames.all (fun a => allNames.all fun b => a == b || mismatch (stemChars a) (stemChars b)) = true := by
    decide +kernel
  have := List.all_eq_true.mp (List.all_eq_true.mp htab a ha) b hb
  simp only [Bool.or_eq_true, beq_iff_eq] at this
  rcases this with h1 | h1
  · exact h1
  · exfalso
    obtain ⟨ra, hra⟩ := S_decomp label a ha
    obtain ⟨rb, hrb⟩ := S_decomp label b hb
    have h2 := not_prefix_of_mismatch _ _ rb h1
    rw [← hrb, ← h, hra, prefix_self_append] at h2
    cases h2

/-- Bool table: the literal prefix of the pattern `p` departs from the stem of every possible output file other
than `n0` -/
def noOther (p : String) (n0 : Name) : Bool :=
  allNames.all fun n => n == n0 || mismatch (splitStar p.toList).1 (stemChars n)

theorem noOther_spec (p : String) (n0 : Name) (h : noOther p n0 = true) (label : String) :
    ∀ n ∈ allNames, n ≠ n0 → globMatch p (S label n) = false := by
  intro n hn hne
  have := List.all_eq_true.mp h n hn
  simp only [Bool.or_eq_true, beq_iff_eq] at this
  rcases this with h1 | h1
  · exact absurd h1 hne
  · apply globMatch_false_of_not_prefix
    obtain ⟨r, hr⟩ := S_decomp label n hn
    rw [hr]
    exact not_prefix_of_mismatch _ _ _ h1


/-! ### the loader's searches on the projected directory -/

/-- every file of the directory is the labelled version of one of the names the conversion can write -/
def KeysLab (label : String) (out : FDir) : Prop := ∀ x ∈ out, ∃ k ∈ allNames, x.1 = labelled' label k

theorem names_project (I : Interp) (out : FDir) (g : String) (hg : g ∈ names (project I out)) :
    ∃ x ∈ out, g = strOfName x.1 := by
  simp only [names, project, List.map_map, List.mem_map, Function.comp] at hg
  obtain ⟨x, hx, rfl⟩ := hg
  exact ⟨x, hx, rfl⟩

theorem lookup_project (I : Interp) (label : String) (out : FDir) (hK : KeysLab label out) (n0 : Name)
    (hn0 : n0 ∈ allNames) :
    (project I out).lookup (S label n0) = (out.lookup (labelled' label n0)).map (arrOf I) := by
  induction out with
  | nil => rfl
  | cons x rest ih =>
    obtain ⟨k, hk, hxk⟩ := hK x (List.mem_cons_self)
    have ih' := ih (fun y hy => hK y (List.mem_cons_of_mem _ hy))
    by_cases hkn : k = n0
    · subst hkn
      have e1 : (S label k == strOfName x.1) = true := by simp [S, hxk]
      have e2 : (x.1 == labelled' label k) = true := by simp [hxk]
      simp only [project, List.map_cons, List.lookup, e1, FDir.lookup, List.find?, e2, Option.map_some]
    · have e1 : (S label n0 == strOfName x.1) = false := by
        rw [hxk]
        simp only [beq_eq_false_iff_ne, ne_eq]
        intro h
        exact hkn (S_inj label n0 k hn0 hk h).symm
      have e2 : (x.1 == labelled' label n0) = false := by
        rw [hxk]
        simp only [beq_eq_false_iff_ne, ne_eq]
        intro h
        exact hkn (S_inj label k n0 hk hn0 (congrArg strOfName h))
      have : (project I (x :: rest)).lookup (S label n0) = (project I rest).lookup (S label n0) := by
        simp only [project, List.map_cons, List.lookup, e1]
      rw [this, ih']
      simp [FDir.lookup, List.find?, e2]

/-- the result of a first-match search: the one file `n0` all the patterns can match, when it is there -/
theorem findPath_project (I : Interp) (label : String) (out : FDir) (hK : KeysLab label out)
    (P : List String) (n0 : Name) (hn0 : n0 ∈ allNames)
    (hother : ∀ p ∈ P, ∀ n ∈ allNames, n ≠ n0 → globMatch p (S label n) = false)
    (hmatch : ∃ p ∈ P, globMatch p (S label n0) = true) :
    findPath (project I out) P = if out.has (labelled' label n0) then some (S label n0) else none := by
  cases hf : findPath (project I out) P with
  | none =>
    have habs := findPath_absent _ _ hf
    cases hh : out.has (labelled' label n0)
    · simp
    · exfalso
      obtain ⟨e, he⟩ := has_eq_true.mp hh
      obtain ⟨p, hp, hm⟩ := hmatch
      have := habs p hp (S label n0) (by
        simp only [names, project, List.map_map, List.mem_map, Function.comp]
        exact ⟨_, he, rfl⟩)
      rw [hm] at this
      cases this
  | some f =>
    obtain ⟨i, hi, hm, hmem, -⟩ := findPath_wins _ _ _ hf
    obtain ⟨x, hx, rfl⟩ := names_project I out f hmem
    obtain ⟨k, hk, hxk⟩ := hK x hx
    have hkn : k = n0 := by
      apply Classical.byContradiction
      intro hne
      have := hother _ (List.getElem_mem hi) k hk hne
      rw [S, ← hxk, hm] at this
      cases this
    subst hkn
    have hh : out.has (labelled' label k) = true := has_eq_true.mpr ⟨x.2, by rw [← hxk]; exact hx⟩
    simp [hh, S, hxk]

theorem readFile_project (I : Interp) (label : String) (out : FDir) (hK : KeysLab label out)
    (P : List String) (n0 : Name) (hn0 : n0 ∈ allNames)
    (hother : ∀ p ∈ P, ∀ n ∈ allNames, n ≠ n0 → globMatch p (S label n) = false)
    (hmatch : ∃ p ∈ P, globMatch p (S label n0) = true) :
    readFile (project I out) P = (out.lookup (labelled' label n0)).map (arrOf I) := by
  unfold readFile
  rw [findPath_project I label out hK P n0 hn0 hother hmatch]
  cases hh : out.has (labelled' label n0)
  · simp [lookup_none_of_not_has hh]
  · simp [lookup_project I label out hK n0 hn0]

/-- patterns that no file of an output directory matches -/
theorem findPath_project_none (I : Interp) (label : String) (out : FDir) (hK : KeysLab label out)
    (P : List String) (hno : ∀ p ∈ P, ∀ n ∈ allNames, globMatch p (S label n) = false) :
    findPath (project I out) P = none := by
  cases hf : findPath (project I out) P with
  | none => rfl
  | some f =>
    exfalso
    obtain ⟨i, hi, hm, hmem, -⟩ := findPath_wins _ _ _ hf
    obtain ⟨x, hx, rfl⟩ := names_project I out f hmem
    obtain ⟨k, hk, hxk⟩ := hK x hx
    have := hno _ (List.getElem_mem hi) k hk
    rw [S, ← hxk, hm] at this
    cases this


/-! ### `load` on a directory in the ALF layout, from what its searches return -/

theorem load_alf_of_reads (inv : Arr → Arr) (d : Dir) (t s a st sc cm pos w wc : Arr) (f : String)
    (h0 : d.lookup "spike_times.npy" = none)
    (ht : readFile d ["spikes.times*.npy"] = some t)
    (hs : readFile d ["spikes.samples*.npy"] = some s)
    (hm : monotone (scrub t).data = true)
    (ha : readFile d ["amplitudes.npy", "spikes.amps*.npy"] = some a)
    (hst : readFile d ["spike_templates.npy", "spikes.templates*.npy"] = some st)
    (hk : findPath d ["spike_clusters.npy"] = none)
    (hf : findPath d ["spike_clusters.npy", "spikes.clusters*.npy"] = some f)
    (hsc : d.lookup f = some sc)
    (hcm : readFile d ["channel_map.npy", "channels.rawInd*.npy"] = some cm)
    (hpos : readFile d ["channel_positions.npy", "channels.localCoordinates*.npy"] = some pos)
    (hw : readFile d ["templates.npy", "templates.waveforms.npy", "templates.waveforms.*.npy"] = some w)
    (hwc : readFile d ["template_ind.npy", "templates.waveformsChannels*.npy"] = some wc) :
    ∃ v d', load inv d = .ok (v, d') ∧
      v.times = .stored (squeeze (scrub t)) ∧ v.samples = .file (squeeze (scrub s)) ∧
      v.spikeClusters = squeeze (scrub sc) ∧ v.spikeTemplates = squeeze (scrub st) ∧
      v.amplitudes = some (squeeze (scrub a)) ∧ v.channelMap = atleast 1 (squeeze (scrub cm)) ∧
      v.channelPositions = atleast 2 (squeeze (scrub pos)) ∧
      v.templates = some (zeroNanTemplates (atleast 3 (squeeze w))) ∧
      v.templateCols = some (squeeze (scrub wc)) := by
  unfold load
  simp only [h0, ht, hs, hm, ha, hst, hk, hf, hsc, hcm, hpos, hw, hwc, Option.isSome_none, Bool.false_and,
    pure_bind, Bool.not_true, Bool.false_eq_true, if_false, Option.map_some]
  exact ⟨_, _, rfl, rfl, rfl, rfl, rfl, rfl, rfl, rfl, rfl, rfl⟩

/-! ### arrays of value rows -/

theorem rowsTrail_z (I : Interp) (l : List Int) : rowsTrail I (l.map Row.z) = [] := by
  cases l <;> rfl

theorem rowsTrail_q (I : Interp) (l : List Rat) : rowsTrail I (l.map Row.q) = [] := by
  cases l <;> rfl

theorem flatMap_z (I : Interp) (l : List Int) : (l.map Row.z).flatMap (rowCells I) = l.map Cell.num := by
  induction l with
  | nil => rfl
  | cons x xs ih => simp [rowCells, ih]

theorem flatMap_q (I : Interp) (l : List Rat) :
    (l.map Row.q).flatMap (rowCells I) = (l.map I.encQ).map Cell.num := by
  induction l with
  | nil => rfl
  | cons x xs ih => simp [rowCells, ih]

/-- a file of integer values, stored as `(n,)` or `(n, 1)`, is read (scrubbed, squeezed) as the vector of its values -/
theorem read_z (I : Interp) (e : Entry) (l : List Int) (hr : e.rows = l.map Row.z) (h2 : 2 ≤ l.length) :
    squeeze (scrub (arrOf I e)) = vec l := by
  have hne : (l.length != 1) = true := by simp; omega
  cases hv : e.vec2d <;>
    simp [arrOf, hr, hv, rowsTrail_z, flatMap_z, scrub, squeeze, vec, List.filter, hne]

theorem read_q (I : Interp) (l : List Rat) (h2 : 2 ≤ l.length) :
    squeeze (scrub (arrOf I (fresh (l.map Row.q)))) = vec (l.map I.encQ) ∧
    (scrub (arrOf I (fresh (l.map Row.q)))).data = (l.map I.encQ).map Cell.num := by
  have hne : (l.length != 1) = true := by simp; omega
  constructor <;> simp [arrOf, fresh, rowsTrail_q, flatMap_q, scrub, squeeze, vec, List.filter, hne]


/-! ### the files of the final output directory -/

theorem final_keys (cfg : Cfg) (v : View) (gen : Nat → String) (src : FDir) (h : Convertible cfg ⟨src, []⟩) :
    KeysLab cfg.label (convertFS cfg v gen ⟨src, []⟩).fs.out := by
  obtain ⟨out4, o, h4, hcomp, hkeys, hres⟩ := convertFS_ok cfg v gen ⟨src, []⟩ h
  rw [hres]
  simp only []
  have hk4 : KeysIn allNames out4 :=
    keysIn_mono (keysIn_makeDepths v _ out4 (keysIn_out3 v gen src) h4) (fun n hn => List.mem_append_left _ hn)
  have hk5 := keysIn_rename cfg.label _
    (keysIn_foldl_copy cfg.force (src' cfg ⟨src, []⟩) fileRenames out4 (fun _ hr => hr) hk4)
  intro x hx
  have hxk : x.1 ∈ o.keys := List.mem_map.mpr ⟨x, hx, rfl⟩
  rw [← hkeys] at hxk
  obtain ⟨y, hy, hyx⟩ := List.mem_map.mp hxk
  obtain ⟨k, hk, hyk⟩ := hk5 y hy
  exact ⟨k, hk, by rw [← hyx, hyk]⟩

theorem lookup_copy_target_same (force : Bool) (src out : FDir) (pre post : List (Name × Name × Bool))
    (r : Name × Name × Bool) (hsplit : fileRenames = pre ++ r :: post)
    (hpre : ∀ r' ∈ pre, r.2.1 ≠ r'.2.1) (hpost : ∀ r' ∈ post, r.2.1 ≠ r'.2.1)
    (hno : out.has r.2.1 = false) (hsq : r.2.2 = false) (e : Entry) (he : src.lookup r.1 = some e) :
    (copyFiles force src out).lookup r.2.1 = some e := by
  unfold copyFiles
  rw [hsplit, List.foldl_append, List.foldl_cons, lookup_foldl_copy_ne _ _ _ post _ hpost]
  have hno' : (List.foldl (copyOne force src) out pre).has r.2.1 = false := by
    rw [← lookup_isSome, lookup_foldl_copy_ne _ _ _ pre _ hpre, lookup_isSome]; exact hno
  generalize List.foldl (copyOne force src) out pre = o1 at hno'
  unfold copyOne
  simp only [he, hno', hsq, Bool.false_and, Bool.false_eq_true, ↓reduceIte]
  exact lookup_write_self _ _ _

/-- `channels.localCoordinates[.label].npy` is the source's `channel_positions.npy`, byte for byte -/
theorem final_positions (cfg : Cfg) (v : View) (gen : Nat → String) (src : FDir) (h : Convertible cfg ⟨src, []⟩)
    (e : Entry) (he : src.lookup ["channel_positions", "npy"] = some e) :
    (convertFS cfg v gen ⟨src, []⟩).fs.out.lookup (labelled' cfg.label ["channels", "localCoordinates", "npy"]) =
      some e := by
  obtain ⟨out4, o, h4, hcomp, _, hres⟩ := convertFS_ok cfg v gen ⟨src, []⟩ h
  rw [hres]
  simp only []
  have hsrc : (src' cfg ⟨src, []⟩).lookup ["channel_positions", "npy"] = some e := by
    rw [lookup_src' cfg ⟨src, []⟩ _ (by decide) (by decide)]; exact he
  unfold compressSpikesDtypes at hcomp
  cases hd1 : mapFirst (matchesSpikes "templates") u16
      (renameWithLabel cfg.label (copyFiles cfg.force (src' cfg ⟨src, []⟩) out4)) with
  | none => simp [hd1] at hcomp
  | some d1 =>
    simp only [hd1, Option.bind_some] at hcomp
    rw [lookup_mapFirst_ne _ _ _ (not_matches_of_first _ _ _ _ _ (by decide)) _ _ hcomp,
      lookup_mapFirst_ne _ _ _ (not_matches_of_first _ _ _ _ _ (by decide)) _ _ hd1, lookup_rename]
    exact lookup_copy_target_same cfg.force _ out4 (fileRenames.take 4) (fileRenames.drop 5)
      (["channel_positions", "npy"], ["channels", "localCoordinates", "npy"], false) rfl (by decide) (by decide)
      (has_out4_empty v gen src out4 h4 _ (by decide)) rfl e hsrc

/-- the computed files the loader reads, under their labelled names -/
theorem final_computed (cfg : Cfg) (v : View) (gen : Nat → String) (fs : FS) (h : Convertible cfg fs) :
    (convertFS cfg v gen fs).fs.out.lookup (labelled' cfg.label ["spikes", "amps", "npy"]) =
      some (fresh (spikeAmps v)) ∧
    (convertFS cfg v gen fs).fs.out.lookup (labelled' cfg.label ["channels", "rawInd", "npy"]) =
      some (fresh (tokRows "rawInd" v.channelProbes.length)) ∧
    (convertFS cfg v gen fs).fs.out.lookup (labelled' cfg.label ["templates", "waveforms", "npy"]) =
      some (fresh (tokRows "templates.waveforms" v.nTemplates)) ∧
    (convertFS cfg v gen fs).fs.out.lookup (labelled' cfg.label ["templates", "waveformsChannels", "npy"]) =
      some (fresh (tokRows "templates.waveformsChannels" v.nTemplates)) := by
  refine ⟨?_, ?_, ?_, ?_⟩ <;>
  · rw [lookup_final cfg v gen fs h _ (by decide) (by decide) (by simp [fileRenames])
      (by first | exact not_matches_of_second _ _ _ _ _ (by decide) (by decide)
                | exact not_matches_of_first _ _ _ _ _ (by decide))
      (by first | exact not_matches_of_second _ _ _ _ _ (by decide) (by decide)
                | exact not_matches_of_first _ _ _ _ _ (by decide))]
    simp only [out3, makeTemplateAndSpikesObjects, makeChannelObjects]
    repeat rw [lookup_write_ne _ _ _ _ (by decide)]
    exact lookup_write_self _ _ _

/-! ### the loader's patterns against the possible output names -/

theorem noAny_spec (p : String) (h : noOther p [] = true) (label : String) :
    ∀ n ∈ allNames, globMatch p (S label n) = false := by
  intro n hn
  refine noOther_spec p [] h label n hn ?_
  intro h0
  subst h0
  revert hn
  decide

theorem match_star (label a b pat : String) (ho : isObj [a, b, "npy"] = true)
    (h : splitStar pat.toList = ((a ++ "." ++ b).toList, some ['.', 'n', 'p', 'y'])) :
    globMatch pat (S label [a, b, "npy"]) = true := by
  rw [S_npy label a b ho]
  exact gm_lab_true _ _ _ h

theorem match_waveforms (label : String) :
    ∃ p ∈ ["templates.npy", "templates.waveforms.npy", "templates.waveforms.*.npy"],
      globMatch p (S label ["templates", "waveforms", "npy"]) = true := by
  rw [S_npy label _ _ (by decide)]
  have e : "templates" ++ "." ++ "waveforms" = "templates.waveforms" := by decide
  rw [e]
  by_cases hl : label = ""
  · subst hl
    exact ⟨"templates.waveforms.npy", by simp, by decide⟩
  · exact ⟨"templates.waveforms.*.npy", by simp, gm_dotted_labelled_true label hl⟩


/-! ### a file of interpreted one-cell rows -/

theorem flatMap_singleton_of {α β} (f : α → List β) (g : α → β) (is : List α) (h : ∀ i ∈ is, f i = [g i]) :
    is.flatMap f = is.map g := by
  induction is with
  | nil => rfl
  | cons a t ih =>
    rw [List.flatMap_cons, h a List.mem_cons_self, ih (fun i hi => h i (List.mem_cons_of_mem _ hi))]; rfl

theorem filter_ne_one_of_prod (t : List Nat) (h : t.prod = 1) : t.filter (· != 1) = [] := by
  induction t with
  | nil => rfl
  | cons a t ih =>
    rw [List.prod_cons] at h
    have h1 : a = 1 := Nat.eq_one_of_mul_eq_one_right h
    have h2 : t.prod = 1 := Nat.eq_one_of_mul_eq_one_left h
    subst h1
    simpa using ih h2

/-- a file of `n` one-cell rows (`I.cells w i = [l[i]]`, trailing dimensions of product 1) is read as the vector `l` -/
theorem read_tok_scalar (I : Interp) (w : String) (n : Nat) (l : List Int) (hl : l.length = n)
    (hI : (I.cells w 0).length = (I.trail w).prod)
    (hc : ∀ i, i < n → I.cells w i = [.num (l.getD i 0)]) :
    atleast 1 (squeeze (scrub (arrOf I (fresh (tokRows w n))))) = vec l := by
  have hd : (tokRows w n).flatMap (rowCells I) = l.map Cell.num := by
    unfold tokRows
    rw [List.flatMap_map]
    rw [flatMap_singleton_of (fun i => rowCells I (Row.tok w i)) (fun i => Cell.num (l.getD i 0)) _
      (fun i hi => hc i (List.mem_range.1 hi))]
    apply List.ext_getElem (by simp [hl])
    intro i h1 h2
    simp at h1 h2 ⊢
    simp [List.getElem?_eq_getElem h2]
  cases n with
  | zero =>
    have : l = [] := List.eq_nil_of_length_eq_zero hl
    subst this
    rfl
  | succ k =>
    have htr : (I.trail w).filter (· != 1) = [] := by
      apply filter_ne_one_of_prod
      rw [← hI, hc 0 (by omega)]; rfl
    have hrt : rowsTrail I (tokRows w (k + 1)) = I.trail w := by
      simp [tokRows, List.range_succ_eq_map, rowsTrail]
    have hlen : (tokRows w (k + 1)).length = k + 1 := by simp [tokRows]
    have hs : scrub ⟨(k + 1) :: I.trail w, l.map Cell.num⟩ = ⟨(k + 1) :: I.trail w, l.map Cell.num⟩ := by
      simp [scrub]
    simp only [arrOf, fresh, hd, hrt, hlen, hs, squeeze, Bool.false_eq_true, if_false, List.filter_cons, htr]
    by_cases hk : k = 0
    · subst hk; simp [atleast, vec, hl]
    · have : (k + 1 != 1) = true := by simp; omega
      simp [this, atleast, vec, hl]

/-! ### the round trip on the output of `convertFS` -/

theorem convert_output_loads_files (inv : Arr → Arr) (I : Interp) (cfg : Cfg) (v : View) (gen : Nat → String) (src : FDir)
    (h : Convertible cfg ⟨src, []⟩) (hv : ViewOK v) (h2 : 2 ≤ v.samples.length)
    (hmono : monotone ((v.times.map I.encQ).map Cell.num) = true)
    (esc est epos : Entry)
    (hsc : src.lookup ["spike_clusters", "npy"] = some esc)
    (hscr : esc.rows = (v.spikeClusters.map Int.ofNat).map Row.z)
    (hst : src.lookup ["spike_templates", "npy"] = some est)
    (hstr : est.rows = (v.spikeTemplates.map Int.ofNat).map Row.z)
    (hpos : src.lookup ["channel_positions", "npy"] = some epos)
    (hidc : ∀ c ∈ v.spikeClusters, c < 65536) (hidt : ∀ c ∈ v.spikeTemplates, c < 65536) :
    ∃ lv d', load inv (project I (convertFS cfg v gen ⟨src, []⟩).fs.out) = .ok (lv, d') ∧
      lv.times = .stored (vec (v.times.map I.encQ)) ∧
      lv.samples = .file (vec v.samples) ∧
      lv.spikeClusters = vec (v.spikeClusters.map Int.ofNat) ∧
      lv.spikeTemplates = vec (v.spikeTemplates.map Int.ofNat) ∧
      lv.amplitudes = some (squeeze (scrub (arrOf I (fresh (spikeAmps v))))) ∧
      lv.channelMap = atleast 1 (squeeze (scrub (arrOf I (fresh (tokRows "rawInd" v.channelProbes.length))))) ∧
      lv.channelPositions = atleast 2 (squeeze (scrub (arrOf I epos))) ∧
      lv.templates = some (zeroNanTemplates (atleast 3 (squeeze
        (arrOf I (fresh (tokRows "templates.waveforms" v.nTemplates)))))) ∧
      lv.templateCols = some (squeeze (scrub (arrOf I (fresh (tokRows "templates.waveformsChannels" v.nTemplates))))) := by
  obtain ⟨hv1, hv2, hv3, -, -⟩ := hv
  have hK := final_keys cfg v gen src h
  obtain ⟨hT, hS⟩ := export_times_samples cfg v gen ⟨src, []⟩ h
  obtain ⟨hA, hR, hW, hWC⟩ := final_computed cfg v gen ⟨src, []⟩ h
  have hP := final_positions cfg v gen src h epos hpos
  have hrows : ∀ (l : List Nat), (∀ c ∈ l, c < 65536) →
      ∀ r ∈ (l.map Int.ofNat).map Row.z, ∃ z, r = Row.z z ∧ 0 ≤ z ∧ z < 65536 := by
    intro l hl r hr
    simp only [List.map_map, List.mem_map, Function.comp] at hr
    obtain ⟨c, hc, rfl⟩ := hr
    exact ⟨_, rfl, by simp, by have := hl c hc; simp; omega⟩
  obtain ⟨ec, hC, hCr⟩ := export_ids cfg v gen src h "clusters" _ (.inl ⟨rfl, rfl⟩) esc hsc
    (by rw [hscr]; exact hrows _ hidc)
  obtain ⟨et, hTm, hTr⟩ := export_ids cfg v gen src h "templates" _ (.inr ⟨rfl, rfl⟩) est hst
    (by rw [hstr]; exact hrows _ hidt)
  generalize (convertFS cfg v gen ⟨src, []⟩).fs.out = out at *
  -- the loader's searches
  have r0 : (project I out).lookup "spike_times.npy" = none := by
    rw [← readFile_exact _ _ (by decide)]
    unfold readFile
    rw [findPath_project_none I cfg.label out hK _ (by
      intro p hp; simp only [List.mem_cons, List.not_mem_nil, or_false] at hp; subst hp
      exact noAny_spec _ (by decide +kernel) _)]
  have rT := readFile_project I cfg.label out hK ["spikes.times*.npy"] ["spikes", "times", "npy"] (by decide)
    (by intro p hp; simp only [List.mem_cons, List.not_mem_nil, or_false] at hp; subst hp
        exact noOther_spec _ _ (by decide +kernel) _)
    ⟨_, List.mem_cons_self, match_star _ _ _ _ (by decide) (by decide)⟩
  have rS := readFile_project I cfg.label out hK ["spikes.samples*.npy"] ["spikes", "samples", "npy"] (by decide)
    (by intro p hp; simp only [List.mem_cons, List.not_mem_nil, or_false] at hp; subst hp
        exact noOther_spec _ _ (by decide +kernel) _)
    ⟨_, List.mem_cons_self, match_star _ _ _ _ (by decide) (by decide)⟩
  have rA := readFile_project I cfg.label out hK ["amplitudes.npy", "spikes.amps*.npy"] ["spikes", "amps", "npy"]
    (by decide)
    (by intro p hp; simp only [List.mem_cons, List.not_mem_nil, or_false] at hp
        rcases hp with rfl | rfl <;> exact noOther_spec _ _ (by decide +kernel) _)
    ⟨"spikes.amps*.npy", by simp, match_star _ _ _ _ (by decide) (by decide)⟩
  have rTm := readFile_project I cfg.label out hK ["spike_templates.npy", "spikes.templates*.npy"]
    ["spikes", "templates", "npy"] (by decide)
    (by intro p hp; simp only [List.mem_cons, List.not_mem_nil, or_false] at hp
        rcases hp with rfl | rfl <;> exact noOther_spec _ _ (by decide +kernel) _)
    ⟨"spikes.templates*.npy", by simp, match_star _ _ _ _ (by decide) (by decide)⟩
  have rK : findPath (project I out) ["spike_clusters.npy"] = none :=
    findPath_project_none I cfg.label out hK _ (by
      intro p hp; simp only [List.mem_cons, List.not_mem_nil, or_false] at hp; subst hp
      exact noAny_spec _ (by decide +kernel) _)
  have rF := findPath_project I cfg.label out hK ["spike_clusters.npy", "spikes.clusters*.npy"]
    ["spikes", "clusters", "npy"] (by decide)
    (by intro p hp; simp only [List.mem_cons, List.not_mem_nil, or_false] at hp
        rcases hp with rfl | rfl <;> exact noOther_spec _ _ (by decide +kernel) _)
    ⟨"spikes.clusters*.npy", by simp, match_star _ _ _ _ (by decide) (by decide)⟩
  have hhas : out.has (labelled' cfg.label ["spikes", "clusters", "npy"]) = true := by
    rw [← lookup_isSome, hC]; rfl
  rw [hhas] at rF
  simp only [if_true] at rF
  have rC := lookup_project I cfg.label out hK ["spikes", "clusters", "npy"] (by decide)
  have rM := readFile_project I cfg.label out hK ["channel_map.npy", "channels.rawInd*.npy"]
    ["channels", "rawInd", "npy"] (by decide)
    (by intro p hp; simp only [List.mem_cons, List.not_mem_nil, or_false] at hp
        rcases hp with rfl | rfl <;> exact noOther_spec _ _ (by decide +kernel) _)
    ⟨"channels.rawInd*.npy", by simp, match_star _ _ _ _ (by decide) (by decide)⟩
  have rP := readFile_project I cfg.label out hK ["channel_positions.npy", "channels.localCoordinates*.npy"]
    ["channels", "localCoordinates", "npy"] (by decide)
    (by intro p hp; simp only [List.mem_cons, List.not_mem_nil, or_false] at hp
        rcases hp with rfl | rfl <;> exact noOther_spec _ _ (by decide +kernel) _)
    ⟨"channels.localCoordinates*.npy", by simp, match_star _ _ _ _ (by decide) (by decide)⟩
  have rW := readFile_project I cfg.label out hK
    ["templates.npy", "templates.waveforms.npy", "templates.waveforms.*.npy"] ["templates", "waveforms", "npy"]
    (by decide)
    (by intro p hp; simp only [List.mem_cons, List.not_mem_nil, or_false] at hp
        rcases hp with rfl | rfl | rfl <;> exact noOther_spec _ _ (by decide +kernel) _)
    (match_waveforms cfg.label)
  have rWC := readFile_project I cfg.label out hK ["template_ind.npy", "templates.waveformsChannels*.npy"]
    ["templates", "waveformsChannels", "npy"] (by decide)
    (by intro p hp; simp only [List.mem_cons, List.not_mem_nil, or_false] at hp
        rcases hp with rfl | rfl <;> exact noOther_spec _ _ (by decide +kernel) _)
    ⟨"templates.waveformsChannels*.npy", by simp, match_star _ _ _ _ (by decide) (by decide)⟩
  rw [hT] at rT; rw [hS] at rS; rw [hA] at rA; rw [hTm] at rTm; rw [hC] at rC; rw [hR] at rM; rw [hP] at rP
  rw [hW] at rW; rw [hWC] at rWC
  simp only [Option.map_some] at rT rS rA rTm rC rM rP rW rWC
  have hlen : 2 ≤ v.times.length := by omega
  obtain ⟨qT, qD⟩ := read_q I v.times hlen
  have hmono' : monotone (scrub (arrOf I (fresh (v.times.map Row.q)))).data = true := by rw [qD]; exact hmono
  obtain ⟨lv, d', hl, e1, e2, e3, e4, e5, e6, e7, e8, e9⟩ :=
    load_alf_of_reads inv (project I out) _ _ _ _ _ _ _ _ _ _ r0 rT rS hmono' rA rTm rK rF rC rM rP rW rWC
  refine ⟨lv, d', hl, ?_, ?_, ?_, ?_, e5, e6, e7, e8, e9⟩
  · rw [e1, qT]
  · rw [e2, read_z I _ v.samples rfl h2]
  · rw [e3, read_z I ec _ (by rw [hCr, hscr]) (by simp; omega)]
  · rw [e4, read_z I et _ (by rw [hTr, hstr]) (by simp; omega)]


/-- the round trip with the channel map INTERPRETED: `channels.rawInd` holds `C14.exportRawInd` of the view -/
theorem convert_output_loads (inv : Arr → Arr) (I : Interp) (cfg : Cfg) (v : View) (gen : Nat → String) (src : FDir)
    (h : Convertible cfg ⟨src, []⟩) (hv : ViewOK v) (h2 : 2 ≤ v.samples.length)
    (hmono : monotone ((v.times.map I.encQ).map Cell.num) = true)
    (hI : ∀ w i, (I.cells w i).length = (I.trail w).prod)
    (hraw : ∀ i, i < v.channelProbes.length →
      I.cells "rawInd" i = [.num ((C14.exportRawInd v.channelMap v.channelProbes).getD i 0)])
    (esc est epos : Entry)
    (hsc : src.lookup ["spike_clusters", "npy"] = some esc)
    (hscr : esc.rows = (v.spikeClusters.map Int.ofNat).map Row.z)
    (hst : src.lookup ["spike_templates", "npy"] = some est)
    (hstr : est.rows = (v.spikeTemplates.map Int.ofNat).map Row.z)
    (hpos : src.lookup ["channel_positions", "npy"] = some epos)
    (hidc : ∀ c ∈ v.spikeClusters, c < 65536) (hidt : ∀ c ∈ v.spikeTemplates, c < 65536) :
    ∃ lv d', load inv (project I (convertFS cfg v gen ⟨src, []⟩).fs.out) = .ok (lv, d') ∧
      lv.times = .stored (vec (v.times.map I.encQ)) ∧
      lv.samples = .file (vec v.samples) ∧
      lv.spikeClusters = vec (v.spikeClusters.map Int.ofNat) ∧
      lv.spikeTemplates = vec (v.spikeTemplates.map Int.ofNat) ∧
      lv.amplitudes = some (squeeze (scrub (arrOf I (fresh (spikeAmps v))))) ∧
      lv.channelMap = vec (C14.exportRawInd v.channelMap v.channelProbes) ∧
      lv.channelPositions = atleast 2 (squeeze (scrub (arrOf I epos))) ∧
      lv.templates = some (zeroNanTemplates (atleast 3 (squeeze
        (arrOf I (fresh (tokRows "templates.waveforms" v.nTemplates)))))) ∧
      lv.templateCols = some (squeeze (scrub (arrOf I (fresh (tokRows "templates.waveformsChannels" v.nTemplates))))) := by
  obtain ⟨lv, d', hl, e1, e2, e3, e4, e5, e6, e7, e8, e9⟩ :=
    convert_output_loads_files inv I cfg v gen src h hv h2 hmono esc est epos hsc hscr hst hstr hpos hidc hidt
  refine ⟨lv, d', hl, e1, e2, e3, e4, e5, ?_, e7, e8, e9⟩
  rw [e6]
  exact read_tok_scalar I "rawInd" _ _ (by rw [C14.Lemmas.exportRawInd_length]; exact hv.2.2.2.2.symm) (hI _ _) hraw

theorem source_in_samples_exports_seconds (cfg : Cfg) (rate : Rat) (s : List Int) (rest : View) (gen : Nat → String)
    (fs : FS) (h : Convertible cfg fs) (hr : 0 < rate) :
    (viewOfFile rate (.inSamples s) rest).samples = s ∧
    (viewOfFile rate (.inSamples s) rest).times = timesOf rate s ∧
    (convertFS cfg (viewOfFile rate (.inSamples s) rest) gen fs).fs.out.lookup
        (labelled' cfg.label ["spikes", "times", "npy"]) = some (fresh ((timesOf rate s).map Row.q)) ∧
    (convertFS cfg (viewOfFile rate (.inSamples s) rest) gen fs).fs.out.lookup
        (labelled' cfg.label ["spikes", "samples", "npy"]) = some (fresh (s.map Row.z)) ∧
    ∀ (i : Nat) (_ : i < s.length), (timesOf rate s).getD i 0 * rate = (s.getD i 0 : Int) := by
  obtain ⟨h1, h2⟩ := export_times_samples cfg (viewOfFile rate (.inSamples s) rest) gen fs h
  exact ⟨rfl, rfl, h1, h2, (times_in_seconds rate s (fun h0 => by rw [h0] at hr; exact absurd hr (by decide))).2⟩

theorem source_in_seconds_exports_verbatim (cfg : Cfg) (rate : Rat) (t : List Rat) (s : Option (List Int)) (rest : View)
    (gen : Nat → String) (fs : FS) (h : Convertible cfg fs) :
    (convertFS cfg (viewOfFile rate (.inSeconds t s) rest) gen fs).fs.out.lookup
        (labelled' cfg.label ["spikes", "times", "npy"]) = some (fresh (t.map Row.q)) := by
  have h1 := (export_times_samples cfg (viewOfFile rate (.inSeconds t s) rest) gen fs h).1
  rw [h1]
  cases s <;> rfl

end PhyVerif.C13.Lemmas
