import PhyVerif.Model.C19
/-! C19: connecting a fresh callback and unconnecting it again restores the emitter state. -/
namespace PhyVerif.C19.Lemmas
open PhyVerif.C19

theorem connectCb_id (r : ConnReq) (c : Cb) (h : connectCb r = some c) : c.id = r.id := by
  unfold connectCb at h
  split at h
  · injection h with h; rw [← h]
  · split at h
    · injection h with h; rw [← h]
    · cases h

theorem keeps_cb_self (c : Cb) : keeps [.cb c.id] c = false := by
  unfold keeps; simp

theorem connect_unconnect_inverse (result : Call → Nat) (st : EState) (r : ConnReq)
    (hfresh : ∀ c ∈ st.cbs, c.id ≠ r.id) :
    (estep result (estep result st (.connect r)).1 (.unconnect [.cb r.id])).1 = st := by
  have hk : ∀ c ∈ st.cbs, keeps [.cb r.id] c = true := by
    intro c hc
    have := hfresh c hc
    unfold keeps
    cases hs : c.sender <;> cases ho : c.owner <;> simp [this]
  have hf : st.cbs.filter (keeps [.cb r.id]) = st.cbs := List.filter_eq_self.mpr hk
  cases hc : connectCb r with
  | none => simp only [estep, hc, hf]
  | some c =>
    have hid := connectCb_id r c hc
    simp only [estep, hc, List.filter_append, hf]
    have : [c].filter (keeps [.cb r.id]) = [] := by
      rw [← hid]; simp [keeps_cb_self]
    rw [this, List.append_nil]
end PhyVerif.C19.Lemmas
