import PhyVerif.Model.C03
import PhyVerif.Spec.C03
/-! Helper lemmas and full proofs for C03. Statements: `Props/C03.lean`. -/
namespace PhyVerif.C03.Lemmas
open PhyVerif PhyVerif.C16 PhyVerif.C03

variable {α : Type} [Zero α]

theorem extract_eq_window (A : List (List α)) (nch : Nat) (hA : Rect A nch) (s : Int)
    (hs0 : 0 ≤ s) (hs : s < A.length) (n : Nat) (hn : 0 < n) (ch : List Int) (hch : ChOK nch ch) :
    extractWaveform A s n ch = window A s n ch := by
  sorry

theorem iter_concat_eq_map (A : List (List α)) (ivs : List (Nat × Nat))
    (hT : intervalsTile A.length ivs = true) (spikes : List Int) (chans : List (List Int))
    (hlen : chans.length = spikes.length) (hsorted : spikes.Pairwise (· ≤ ·))
    (hb : ∀ s ∈ spikes, 0 ≤ s ∧ s < A.length) (n : Nat) :
    (iterWaveforms A ivs spikes chans n).flatten =
      (spikes.zip chans).map fun sc => extractWaveform A sc.1 n sc.2 := by
  sorry

theorem export_loads_windows (scale : α → α) (A : List (List α)) (nch : Nat) (hA : Rect A nch)
    (ivs : List (Nat × Nat)) (hT : intervalsTile A.length ivs = true) (spikes : List Int)
    (chans : List (List Int)) (hlen : chans.length = spikes.length)
    (hsorted : spikes.Pairwise (· ≤ ·)) (hb : ∀ s ∈ spikes, 0 ≤ s ∧ s < A.length) (n : Nat)
    (hn : 0 < n) (nloc : Nat) (hnl : 0 < nloc) (hch : ∀ c ∈ chans, c.length = nloc ∧ ChOK nch c) :
    npLoad (exportWaveforms scale A ivs spikes chans n nloc) =
      some ((spikes.zip chans).map fun sc => (window A sc.1 n sc.2).map fun row => row.map scale) := by
  sorry

theorem lookup_eq_window (st : Store α) (A : List (List α)) (samples : List Int) (n : Nat)
    (hids : st.spikeIds.Nodup)
    (hl1 : st.spikeChannels.length = st.spikeIds.length) (hl2 : st.waveforms.length = st.spikeIds.length)
    (hl3 : samples.length = st.spikeIds.length)
    (hstore : ∀ p, p < st.spikeIds.length →
      st.waveforms.getD p [] = window A (samples.getD p 0) n (st.spikeChannels.getD p []))
    (hdist : ∀ ind ∈ st.spikeChannels, (ind.filter (· ≠ -1)).Nodup)
    (query : List Nat) (hq : ∀ q ∈ query, q ∈ st.spikeIds) (chq : List Nat) :
    getSpikeWaveforms st query chq n = some (query.map fun q =>
      let p := st.spikeIds.idxOf q
      (List.range n).map fun r => chq.map fun (c : Nat) =>
        if (st.spikeChannels.getD p []).contains (Int.ofNat c)
        then ((window A (samples.getD p 0) n [Int.ofNat c]).getD r []).getD 0 0 else 0) := by
  sorry

end PhyVerif.C03.Lemmas
