import PhyVerif.Model.C03
import PhyVerif.Spec.C03
/-! Helper lemmas and full proofs for C03. Statements: `Props/C03.lean`. -/
namespace PhyVerif.C03.Lemmas
open PhyVerif PhyVerif.C16 PhyVerif.C03

variable {α : Type} [Zero α]

/-! ### `extract_eq_window` -/

/-- one row of the recording after channel pick and −1 masking -/
theorem row_pick (nch : Nat) (row : List α) (ch : List Int)
    (hch : ChOK nch ch) :
    ((ch.map (pickCol row)).zip ch).map (fun (v, c) => if c == -1 then 0 else v) =
      ch.map fun c => if c ≠ -1 then row.getD c.toNat 0 else 0 := by
  induction ch with
  | nil => rfl
  | cons c t ih =>
    have hc := hch c (by simp)
    have ih' := ih (fun c hc => hch c (by simp [hc]))
    simp only [List.map_cons, List.zip_cons_cons]
    rw [ih']
    congr 1
    rcases hc with h | ⟨h0, h1⟩
    · simp [h]
    · have h1 : c ≠ -1 := by omega
      have h2 : ¬ c < 0 := by omega
      simp [h1, h2, pickCol]

omit [Zero α] in
theorem getElem?_rowsSlice_map {β : Type} (A : List (List α)) (lo hi : Int) (F : List α → β) (k : Nat) :
    ((rowsSlice A lo hi).map F)[k]? =
      if k < hi.toNat - lo.toNat then (A[lo.toNat + k]?).map F else none := by
  simp only [rowsSlice, List.getElem?_map, List.getElem?_take, List.getElem?_drop]
  split <;> simp

theorem getElem?_window (A : List (List α)) (s : Int) (n : Nat) (ch : List Int) (i : Nat) :
    (window A s n ch)[i]? = if i < n then some (ch.map fun c =>
      if 0 ≤ s - (n / 2 : Nat) + i ∧ s - (n / 2 : Nat) + i < (A.length : Int) ∧ c ≠ -1
      then (A.getD (s - (n / 2 : Nat) + i).toNat []).getD c.toNat 0 else 0) else none := by
  simp only [window, List.getElem?_map]
  split <;> simp_all

/-- masked row as a function of the raw row -/
def mrow (ch : List Int) (row : List α) : List α :=
  ch.map fun c => if c ≠ -1 then row.getD c.toNat 0 else 0

/-- the picked and masked rows of `extractWaveform` -/
theorem getElem?_core (A : List (List α)) (lo hi : Int) (nch : Nat) (ch : List Int)
    (hch : ChOK nch ch) (k : Nat) :
    (((rowsSlice A lo hi).map fun row => ch.map (pickCol row)).map fun row =>
        (row.zip ch).map fun (v, c) => if c == -1 then 0 else v)[k]? =
      if k < hi.toNat - lo.toNat then (A[lo.toNat + k]?).map (mrow ch) else none := by
  rw [List.map_map, getElem?_rowsSlice_map]
  split
  · cases A[lo.toNat + k]? with
    | none => rfl
    | some row => simp only [Option.map_some, Function.comp_apply, mrow]; congr 1; exact row_pick nch row ch hch
  · rfl

theorem length_core (A : List (List α)) (lo hi : Int) (ch : List Int) :
    (((rowsSlice A lo hi).map fun row => ch.map (pickCol row)).map fun row =>
        (row.zip ch).map fun (v, c) => if c == -1 then 0 else v).length =
      min (hi.toNat - lo.toNat) (A.length - lo.toNat) := by
  simp [rowsSlice]

theorem extract_form (A : List (List α)) (s : Int) (n : Nat) (ch : List Int) :
    extractWaveform A s n ch =
      List.replicate (-(s - (n / 2 : Nat))).toNat (List.replicate ch.length 0) ++
      (((rowsSlice A (max 0 (s - (n / 2 : Nat))) (s + (n - n / 2 : Nat))).map fun row =>
          ch.map (pickCol row)).map fun row =>
        (row.zip ch).map fun (v, c) => if c == -1 then 0 else v) ++
      List.replicate (s + (n - n / 2 : Nat) - A.length).toNat (List.replicate ch.length 0) := by
  unfold extractWaveform
  dsimp only
  have e1 : (n : Int) / 2 = ((n / 2 : Nat) : Int) := by omega
  have e2 : (n : Int) - ((n / 2 : Nat) : Int) = ((n - n / 2 : Nat) : Int) := by omega
  rw [e1, e2]
  generalize List.map _ (List.map _ (rowsSlice A _ _)) = W
  unfold zeroRows
  split <;> split
  · rfl
  · have h : (-(s - ((n / 2 : Nat) : Int))).toNat = 0 := by omega
    rw [h]; rfl
  · have h : (s + ((n - n / 2 : Nat) : Int) - (A.length : Int)).toNat = 0 := by omega
    rw [h]; simp
  · have h : (-(s - ((n / 2 : Nat) : Int))).toNat = 0 := by omega
    have h' : (s + ((n - n / 2 : Nat) : Int) - (A.length : Int)).toNat = 0 := by omega
    rw [h, h']; simp

theorem wrow_out (A : List (List α)) (r : Int) (ch : List Int) (h : ¬ (0 ≤ r ∧ r < (A.length : Int))) :
    (ch.map fun c => if 0 ≤ r ∧ r < (A.length : Int) ∧ c ≠ -1
      then (A.getD r.toNat []).getD c.toNat 0 else 0) = List.replicate ch.length 0 := by
  have : ∀ c : Int, ¬ (0 ≤ r ∧ r < (A.length : Int) ∧ c ≠ -1) := fun c hc => h ⟨hc.1, hc.2.1⟩
  simp only [this, if_false]
  exact List.map_const' ..

theorem wrow_in (A : List (List α)) (r : Int) (ch : List Int) (h0 : 0 ≤ r) (h1 : r < (A.length : Int))
    (idx : Nat) (hidx : idx = r.toNat) :
    (A[idx]?).map (mrow ch) = some (ch.map fun c => if 0 ≤ r ∧ r < (A.length : Int) ∧ c ≠ -1
      then (A.getD r.toNat []).getD c.toNat 0 else 0) := by
  subst hidx
  have hlt : r.toNat < A.length := by omega
  have hg : A.getD r.toNat [] = A[r.toNat] := by simp [List.getD_eq_getElem?_getD, hlt]
  rw [List.getElem?_eq_getElem hlt, hg]
  simp only [Option.map_some, mrow, h0, h1, true_and]

theorem extract_eq_window (A : List (List α)) (nch : Nat) (s : Int)
    (hs0 : 0 ≤ s) (hs : s < A.length) (n : Nat) (ch : List Int) (hch : ChOK nch ch) :
    extractWaveform A s n ch = window A s n ch := by
  rw [extract_form]
  apply List.ext_getElem?
  intro i
  rw [getElem?_window]
  simp only [List.getElem?_append, List.length_append, length_core, getElem?_core A _ _ nch ch hch,
    List.length_replicate, List.getElem?_replicate]
  have ha : n / 2 + (n - n / 2) = n := by omega
  generalize n / 2 = a at *
  generalize n - a = b at *
  have h1 : ((-(s - (a : Int))).toNat : Int) = max 0 ((a : Int) - s) := by omega
  have h2 : ((max 0 (s - (a : Int))).toNat : Int) = max 0 (s - (a : Int)) := by omega
  have h3 : ((s + (b : Int)).toNat : Int) = s + (b : Int) := by omega
  have h4 : ((s + (b : Int) - (A.length : Int)).toNat : Int) = max 0 (s + (b : Int) - (A.length : Int)) := by
    omega
  generalize (-(s - (a : Int))).toNat = L at *
  generalize (max 0 (s - (a : Int))).toNat = lo at *
  generalize (s + (b : Int)).toNat = hi at *
  generalize (s + (b : Int) - (A.length : Int)).toNat = R at *
  by_cases hi : i < n
  · rw [if_pos hi]
    by_cases hr0 : s - (a : Int) + (i : Int) < 0
    · rw [if_pos (by omega), if_pos (by omega), if_pos (by omega), wrow_out A _ ch (by omega)]
    · by_cases hr1 : s - (a : Int) + (i : Int) < (A.length : Int)
      · rw [if_pos (by omega), if_neg (by omega), if_pos (by omega),
          wrow_in A _ ch (by omega) hr1 _ (by omega)]
      · rw [if_neg (by omega), if_pos (by omega), wrow_out A _ ch (by omega)]
  · rw [if_neg (by omega), if_neg (by omega), if_neg hi]

/-! ### `iter_concat_eq_map` -/

theorem ssRight_pair (a b : Nat) (x : Int) (hab : a < b) :
    (Np.ssRight [(a : Int), (b : Int)] x == 1) = (decide ((a : Int) ≤ x) && decide (x < (b : Int))) := by
  simp only [Np.ssRight, List.countP_cons, List.countP_nil]
  by_cases h1 : (a : Int) ≤ x <;> by_cases h2 : (b : Int) ≤ x <;> simp [h1, h2] <;> omega

theorem ssRight_same (a : Nat) (x : Int) :
    (Np.ssRight [(a : Int), (a : Int)] x == 1) = false := by
  simp only [Np.ssRight, List.countP_cons, List.countP_nil]
  by_cases h1 : (a : Int) ≤ x <;> simp [h1]

theorem pairwise_zip_fst {β : Type} : ∀ (l : List Int) (c : List β), l.Pairwise (· ≤ ·) →
    (l.zip c).Pairwise (fun x y => x.1 ≤ y.1)
  | [], _, _ => by simp
  | _ :: _, [], _ => by simp
  | x :: l, c :: cs, h => by
    rw [List.pairwise_cons] at h
    rw [List.zip_cons_cons, List.pairwise_cons]
    exact ⟨fun y hy => h.1 y.1 (List.of_mem_zip (b := y.2) hy).1, pairwise_zip_fst l cs h.2⟩

/-- sorted keys: the entries in `[a, b)` followed by the entries `≥ b` are the entries `≥ a` -/
theorem filter_split {β : Type} (a b : Int) (hab : a ≤ b) : ∀ (Z : List (Int × β)),
    Z.Pairwise (fun x y => x.1 ≤ y.1) →
    Z.filter (fun z => decide (a ≤ z.1) && decide (z.1 < b)) ++ Z.filter (fun z => decide (b ≤ z.1)) =
      Z.filter (fun z => decide (a ≤ z.1))
  | [], _ => rfl
  | z :: t, h => by
    rw [List.pairwise_cons] at h
    have ih := filter_split a b hab t h.2
    by_cases h1 : a ≤ z.1
    · by_cases h2 : z.1 < b
      · simp only [List.filter_cons, h1, h2, decide_true, Bool.and_self, if_true,
          show ¬ b ≤ z.1 by omega, decide_false, Bool.false_eq_true, if_false, List.cons_append, ih]
      · have hnil : t.filter (fun z => decide (a ≤ z.1) && decide (z.1 < b)) = [] := by
          rw [List.filter_eq_nil_iff]
          intro y hy
          have := h.1 y hy
          simp; omega
        rw [hnil, List.nil_append] at ih
        simp only [List.filter_cons, h1, h2, decide_true, decide_false, Bool.and_false,
          Bool.false_eq_true, if_false, hnil, List.nil_append, show b ≤ z.1 by omega, if_true, ih]
    · simp only [List.filter_cons, h1, decide_false, Bool.false_and, Bool.false_eq_true, if_false,
        show ¬ b ≤ z.1 by omega, ih]

theorem chain_filter {β : Type} (dur : Nat) (Z : List (Int × β))
    (hZ : Z.Pairwise (fun x y => x.1 ≤ y.1)) (hlt : ∀ z ∈ Z, z.1 < (dur : Int)) :
    ∀ (ivs : List (Nat × Nat)) (cur : Nat), chainFrom cur ivs = some dur →
      (ivs.map fun iv => Z.filter fun z => Np.ssRight [(iv.1 : Int), (iv.2 : Int)] z.1 == 1).flatten =
        Z.filter (fun z => decide ((cur : Int) ≤ z.1))
  | [], cur, h => by
    simp only [chainFrom, Option.some.injEq] at h
    subst h
    simp only [List.map_nil, List.flatten_nil]
    symm
    rw [List.filter_eq_nil_iff]
    intro z hz
    have := hlt z hz
    simp; omega
  | (a, b) :: t, cur, h => by
    rw [chainFrom] at h
    by_cases hab : a = b
    · subst hab
      simp only [beq_self_eq_true, if_true] at h
      have hf : Z.filter (fun _ => false) = [] := by simp
      simp only [List.map_cons, List.flatten_cons, ssRight_same, hf, List.nil_append]
      exact chain_filter dur Z hZ hlt t cur h
    · have hab' : (a == b) = false := by simp [hab]
      simp only [hab', Bool.false_eq_true, if_false] at h
      split at h
      · rename_i hc
        simp only [Bool.and_eq_true, beq_iff_eq, decide_eq_true_eq] at hc
        obtain ⟨rfl, hlt'⟩ := hc
        have ih := chain_filter dur Z hZ hlt t b h
        simp only [List.map_cons, List.flatten_cons, ih]
        have : (fun z : Int × β => Np.ssRight [(a : Int), (b : Int)] z.1 == 1) =
            fun z => decide ((a : Int) ≤ z.1) && decide (z.1 < (b : Int)) := by
          funext z; exact ssRight_pair a b z.1 hlt'
        rw [this]
        exact filter_split (a : Int) (b : Int) (by omega) Z hZ
      · cases h

theorem iter_concat_eq_map (A : List (List α)) (ivs : List (Nat × Nat))
    (hT : intervalsTile A.length ivs = true) (spikes : List Int) (chans : List (List Int))
    (hsorted : spikes.Pairwise (· ≤ ·))
    (hb : ∀ s ∈ spikes, 0 ≤ s ∧ s < A.length) (n : Nat) :
    (iterWaveforms A ivs spikes chans n).flatten =
      (spikes.zip chans).map fun sc => extractWaveform A sc.1 n sc.2 := by
  have hchain : chainFrom 0 ivs = some A.length := by
    simpa [intervalsTile] using hT
  have hZ := pairwise_zip_fst spikes chans hsorted
  have hmem : ∀ z ∈ spikes.zip chans, 0 ≤ z.1 ∧ z.1 < (A.length : Int) := fun z hz =>
    hb z.1 (List.of_mem_zip (b := z.2) hz).1
  have key := chain_filter A.length (spikes.zip chans) hZ (fun z hz => (hmem z hz).2) ivs 0 hchain
  have hall : (spikes.zip chans).filter (fun z => decide (((0 : Nat) : Int) ≤ z.1)) = spikes.zip chans := by
    rw [List.filter_eq_self]
    intro z hz
    have := (hmem z hz).1
    simp; omega
  rw [hall] at key
  unfold iterWaveforms
  rw [List.flatten_filter_ne_nil]
  conv => rhs; rw [← key]
  rw [List.map_flatten, List.map_map]
  rfl

/-! ### `export_loads_windows` -/

omit [Zero α] in
theorem chunk_flatten (k : Nat) : ∀ (m : Nat) (xs : List (List α)), xs.length = m →
    (∀ x ∈ xs, x.length = k) → chunk k m xs.flatten = xs
  | 0, xs, h, _ => by
    have : xs = [] := List.eq_nil_of_length_eq_zero h
    subst this; rfl
  | m + 1, [], h, _ => by simp at h
  | m + 1, x :: xs, h, hk => by
    have hx : x.length = k := hk x (by simp)
    have ih := chunk_flatten k m xs (by simpa using h) (fun y hy => hk y (by simp [hy]))
    simp only [chunk, List.flatten_cons]
    rw [List.take_left' hx, List.drop_left' hx, ih]

omit [Zero α] in
theorem length_flatten_const (k : Nat) : ∀ (xs : List (List α)), (∀ x ∈ xs, x.length = k) →
    xs.flatten.length = xs.length * k
  | [], _ => by simp
  | x :: xs, hk => by
    have hx : x.length = k := hk x (by simp)
    have ih := length_flatten_const k xs (fun y hy => hk y (by simp [hy]))
    simp only [List.flatten_cons, List.length_append, List.length_cons, hx, ih]
    rw [Nat.add_mul, Nat.one_mul, Nat.add_comm]

theorem length_window (A : List (List α)) (s : Int) (n : Nat) (ch : List Int) :
    (window A s n ch).length = n := by simp [window]

theorem length_row_window (A : List (List α)) (s : Int) (n : Nat) (ch : List Int) :
    ∀ row ∈ window A s n ch, row.length = ch.length := by
  intro row hrow
  simp only [window, List.mem_map] at hrow
  obtain ⟨i, _, rfl⟩ := hrow
  simp

theorem export_loads_windows (scale : α → α) (A : List (List α)) (nch : Nat)
    (ivs : List (Nat × Nat)) (hT : intervalsTile A.length ivs = true) (spikes : List Int)
    (chans : List (List Int)) (hlen : chans.length = spikes.length)
    (hsorted : spikes.Pairwise (· ≤ ·)) (hb : ∀ s ∈ spikes, 0 ≤ s ∧ s < A.length) (n : Nat)
    (nloc : Nat) (hch : ∀ c ∈ chans, c.length = nloc ∧ ChOK nch c) :
    npLoad (exportWaveforms scale A ivs spikes chans n nloc) =
      some ((spikes.zip chans).map fun sc => (window A sc.1 n sc.2).map fun row => row.map scale) := by
  have hiter := iter_concat_eq_map A ivs hT spikes chans hsorted hb n
  have hext : ((spikes.zip chans).map fun sc => extractWaveform A sc.1 n sc.2) =
      (spikes.zip chans).map fun sc => window A sc.1 n sc.2 := by
    apply List.map_congr_left
    intro z hz
    have hz' := List.of_mem_zip (a := z.1) (b := z.2) hz
    exact extract_eq_window A nch z.1 (hb z.1 hz'.1).1 (hb z.1 hz'.1).2 n z.2 (hch z.2 hz'.2).2
  -- the expected result
  generalize hWs : ((spikes.zip chans).map fun sc =>
    (window A sc.1 n sc.2).map fun row => row.map scale) = Ws
  have hcells : (exportWaveforms scale A ivs spikes chans n nloc).cells = (Ws.map List.flatten).flatten := by
    simp only [exportWaveforms, hiter, hext, ← hWs, List.map_map]
    rfl
  have hWlen : Ws.length = spikes.length := by
    rw [← hWs, List.length_map, List.length_zip, hlen, Nat.min_self]
  have hW1 : ∀ w ∈ Ws, w.length = n := by
    intro w hw
    rw [← hWs] at hw
    simp only [List.mem_map] at hw
    obtain ⟨z, _, rfl⟩ := hw
    simp [length_window]
  have hW2 : ∀ w ∈ Ws, ∀ row ∈ w, row.length = nloc := by
    intro w hw row hrow
    rw [← hWs] at hw
    simp only [List.mem_map] at hw
    obtain ⟨z, hz, rfl⟩ := hw
    simp only [List.mem_map] at hrow
    obtain ⟨row', hrow', rfl⟩ := hrow
    have hz' := List.of_mem_zip (a := z.1) (b := z.2) hz
    rw [List.length_map, length_row_window A z.1 n z.2 row' hrow', (hch z.2 hz'.2).1]
  have hflat : ∀ x ∈ Ws.map List.flatten, x.length = n * nloc := by
    intro x hx
    simp only [List.mem_map] at hx
    obtain ⟨w, hw, rfl⟩ := hx
    rw [length_flatten_const nloc w (hW2 w hw), hW1 w hw]
  have hshape : (exportWaveforms scale A ivs spikes chans n nloc).shape = (spikes.length, n, nloc) := rfl
  unfold npLoad
  rw [hshape, hcells]
  simp only
  have hlenc : (Ws.map List.flatten).flatten.length = spikes.length * n * nloc := by
    rw [length_flatten_const (n * nloc) _ hflat, List.length_map, hWlen, Nat.mul_assoc]
  rw [if_pos hlenc, chunk_flatten (n * nloc) spikes.length _ (by simpa using hWlen) hflat,
    List.map_map]
  congr 1
  conv => rhs; rw [← List.map_id Ws]
  apply List.map_congr_left
  intro w hw
  simp only [Function.comp_apply, id]
  exact chunk_flatten nloc n w (hW1 w hw) (hW2 w hw)

/-! ### `lookup_eq_window` -/

theorem mapM_some_of_forall {β γ : Type} (f : β → Option γ) (g : β → γ) : ∀ (l : List β),
    (∀ x ∈ l, f x = some (g x)) → l.mapM f = some (l.map g)
  | [], _ => rfl
  | x :: l, h => by
    have ih := mapM_some_of_forall f g l (fun y hy => h y (by simp [hy]))
    rw [List.mapM_cons, h x (by simp), ih]
    rfl

/-- column `idxOf c ind` of the window on `ind` is the window on `[c]` -/
theorem window_cell (A : List (List α)) (smp : Int) (n : Nat) (ind : List Int) (r : Nat) (c : Int)
    (hc : c ∈ ind) :
    ((window A smp n ind).getD r []).getD (ind.idxOf c) 0 =
      ((window A smp n [c]).getD r []).getD 0 0 := by
  simp only [List.getD_eq_getElem?_getD, getElem?_window]
  by_cases hr : r < n
  · have hlt : ind.idxOf c < ind.length := List.idxOf_lt_length_of_mem hc
    simp only [hr, if_true, Option.getD_some, List.getElem?_map, List.getElem?_eq_getElem hlt,
      List.getElem_idxOf hlt, Option.map_some, List.map_cons, List.map_nil, List.getElem?_cons_zero]
  · simp [hr]

theorem lookup_eq_window (st : Store α) (A : List (List α)) (samples : List Int) (n : Nat)
    (hl1 : st.spikeChannels.length = st.spikeIds.length) (hl2 : st.waveforms.length = st.spikeIds.length)
    (hstore : ∀ p, p < st.spikeIds.length →
      st.waveforms.getD p [] = window A (samples.getD p 0) n (st.spikeChannels.getD p []))
    (query : List Nat) (hq : ∀ q ∈ query, q ∈ st.spikeIds) (chq : List Nat)
    (hn : 0 < n) (hchq : chq ≠ []) :
    getSpikeWaveforms st query chq n = some (query.map fun q =>
      let p := st.spikeIds.idxOf q
      (List.range n).map fun r => chq.map fun (c : Nat) =>
        if (st.spikeChannels.getD p []).contains (Int.ofNat c)
        then ((window A (samples.getD p 0) n [Int.ofNat c]).getD r []).getD 0 0 else 0) := by
  unfold getSpikeWaveforms
  have hall : query.all st.spikeIds.contains = true := by
    rw [List.all_eq_true]
    intro q hq'
    exact List.contains_iff_mem.mpr (hq q hq')
  have hnz : (n == 0 || chq.isEmpty) = false := by
    cases chq with
    | nil => exact absurd rfl hchq
    | cons c t => simp; omega
  rw [hall, hnz]
  simp only [Bool.not_true, Bool.false_eq_true, if_false]
  apply mapM_some_of_forall
  intro q hq'
  have hp : st.spikeIds.idxOf q < st.spikeIds.length := List.idxOf_lt_length_of_mem (hq q hq')
  generalize st.spikeIds.idxOf q = p at hp ⊢
  have hp1 : p < st.spikeChannels.length := by omega
  have hp2 : p < st.waveforms.length := by omega
  have e1 : st.spikeChannels.getD p [] = st.spikeChannels[p] := by
    simp [List.getD_eq_getElem?_getD, hp1]
  have e2 : st.waveforms.getD p [] = st.waveforms[p] := by
    simp [List.getD_eq_getElem?_getD, hp2]
  have hw := hstore p hp
  rw [e1, e2] at hw
  rw [e1, List.getElem?_eq_getElem hp1, List.getElem?_eq_getElem hp2]
  dsimp only
  rw [hw]
  congr 1
  apply List.map_congr_left
  intro r _
  apply List.map_congr_left
  intro c _
  split
  · rename_i hc
    exact window_cell A _ n _ r _ (List.contains_iff_mem.mp hc)
  · rfl

end PhyVerif.C03.Lemmas
