import PhyVerif.Lemmas.C03
/-! Composition lemmas for C03: export → store files → load → lookup (`routes_agree`), the
`TemplateModel` subset store (`subset_store_eq_raw`) and `TemplateModel.get_waveforms`.
Statements: `Props/C03.lean`. -/
namespace PhyVerif.C03.Lemmas
open PhyVerif PhyVerif.C16 PhyVerif.C03

variable {α : Type} [Zero α]

/-! ### cells of a scaled window -/

theorem getElem?_scaleW_window (scale : α → α) (A : List (List α)) (s : Int) (n : Nat) (ch : List Int)
    (r : Nat) (hr : r < n) :
    (scaleW scale (window A s n ch))[r]? = some (ch.map fun c => scale (wcell A s n r c)) := by
  simp only [scaleW, List.getElem?_map, getElem?_window, hr, if_true, Option.map_some, List.map_map]
  rfl

theorem scaled_cell (scale : α → α) (A : List (List α)) (s : Int) (n : Nat) (ind : List Int)
    (r : Nat) (hr : r < n) (c : Int) (hc : c ∈ ind) :
    ((scaleW scale (window A s n ind)).getD r []).getD (ind.idxOf c) 0 = scale (wcell A s n r c) := by
  have hlt : ind.idxOf c < ind.length := List.idxOf_lt_length_of_mem hc
  simp only [List.getD_eq_getElem?_getD, getElem?_scaleW_window scale A s n ind r hr, Option.getD_some,
    List.getElem?_map, List.getElem?_eq_getElem hlt, List.getElem_idxOf hlt, Option.map_some]

/-! ### lookup in a store that holds the scaled windows -/

theorem lookup_scaled (scale : α → α) (A : List (List α)) (samples : List Int) (chans : List (List Int))
    (hlen : chans.length = samples.length) (ids : List Nat) (hids : ids.length = samples.length)
    (n : Nat) (hn : 0 < n) (query : List Nat) (hq : ∀ q ∈ query, q ∈ ids) (chq : List Nat) (hchq : chq ≠ []) :
    getSpikeWaveforms ⟨ids, chans, (samples.zip chans).map fun sc => scaleW scale (window A sc.1 n sc.2)⟩
        query chq n =
      some (query.map fun q =>
        lookupSpec scale A (samples.getD (ids.idxOf q) 0) n (chans.getD (ids.idxOf q) []) chq) := by
  unfold getSpikeWaveforms
  have hall : query.all ids.contains = true := by
    rw [List.all_eq_true]
    intro q hq'
    exact List.contains_iff_mem.mpr (hq q hq')
  have hnz : (n == 0 || chq.isEmpty) = false := by
    cases chq with
    | nil => exact absurd rfl hchq
    | cons c t => simp; omega
  simp only [hall, hnz, Bool.not_true, Bool.false_eq_true, if_false]
  apply mapM_some_of_forall
  intro q hq'
  have hp : ids.idxOf q < ids.length := List.idxOf_lt_length_of_mem (hq q hq')
  generalize ids.idxOf q = p at hp ⊢
  have hp1 : p < chans.length := by omega
  have hp2 : p < samples.length := by omega
  have e1 : chans.getD p [] = chans[p] := by simp [List.getD_eq_getElem?_getD, hp1]
  have e2 : samples.getD p 0 = samples[p] := by simp [List.getD_eq_getElem?_getD, hp2]
  have hz : (samples.zip chans)[p]? = some (samples[p], chans[p]) := by
    rw [List.getElem?_zip_eq_some]
    exact ⟨List.getElem?_eq_getElem hp2, List.getElem?_eq_getElem hp1⟩
  rw [e1, e2, List.getElem?_eq_getElem hp1, List.getElem?_map, hz]
  simp only [Option.map_some]
  congr 1
  unfold lookupSpec
  apply List.map_congr_left
  intro r hr
  have hr' : r < n := List.mem_range.1 hr
  apply List.map_congr_left
  intro c _
  split
  · rename_i hc
    exact scaled_cell scale A _ n _ r hr' _ (List.contains_iff_mem.mp hc)
  · rfl

/-! ### `routes_agree` -/

theorem extract_all_eq_window (A : List (List α)) (nch : Nat) (samples : List Int) (chans : List (List Int))
    (hb : ∀ s ∈ samples, 0 ≤ s ∧ s < A.length) (n : Nat) (hch : ∀ c ∈ chans, ChOK nch c) :
    ∀ sc ∈ samples.zip chans, extractWaveform A sc.1 n sc.2 = window A sc.1 n sc.2 := by
  intro z hz
  have hz' := List.of_mem_zip (a := z.1) (b := z.2) hz
  exact extract_eq_window A nch z.1 (hb z.1 hz'.1).1 (hb z.1 hz'.1).2 n z.2 (hch z.2 hz'.2)

theorem routes_agree (scale : α → α) (A : List (List α)) (nch : Nat)
    (ivs : List (Nat × Nat)) (hT : intervalsTile A.length ivs = true) (samples : List Int)
    (chans : List (List Int)) (hlen : chans.length = samples.length)
    (hsorted : samples.Pairwise (· ≤ ·)) (hb : ∀ s ∈ samples, 0 ≤ s ∧ s < A.length) (n : Nat) (hn : 0 < n)
    (nloc : Nat) (hch : ∀ c ∈ chans, c.length = nloc ∧ ChOK nch c)
    (ids : List Nat) (hids : ids.length = samples.length)
    (query : List Nat) (hq : ∀ q ∈ query, q ∈ ids) (chq : List Nat) (hchq : chq ≠ []) :
    (∀ sc ∈ samples.zip chans, extractWaveform A sc.1 n sc.2 = window A sc.1 n sc.2) ∧
    npLoad (exportWaveforms scale A ivs samples chans n nloc) =
      some ((samples.zip chans).map fun sc => scaleW scale (extractWaveform A sc.1 n sc.2)) ∧
    (loadSubset ⟨ids, chans, exportWaveforms scale A ivs samples chans n nloc⟩).bind
        (fun st => getSpikeWaveforms st query chq n) =
      some (query.map fun q =>
        lookupSpec scale A (samples.getD (ids.idxOf q) 0) n (chans.getD (ids.idxOf q) []) chq) := by
  have hext := extract_all_eq_window A nch samples chans hb n (fun c hc => (hch c hc).2)
  have hload := export_loads_windows scale A nch ivs hT samples chans hlen hsorted hb n nloc hch
  have hload' : npLoad (exportWaveforms scale A ivs samples chans n nloc) =
      some ((samples.zip chans).map fun sc => scaleW scale (window A sc.1 n sc.2)) := hload
  refine ⟨hext, ?_, ?_⟩
  · rw [hload']
    congr 1
    apply List.map_congr_left
    intro z hz
    rw [hext z hz]
  · simp only [loadSubset, hload', Option.map_some, Option.bind_some]
    exact lookup_scaled scale A samples chans hlen ids hids n hn query hq chq hchq

/-! ### the `TemplateModel` subset store -/

theorem length_templateNChannels (used : Bool) (order : List Int) (nc : Nat) :
    (templateNChannels used order nc).length = nc := by
  unfold templateNChannels
  cases used
  · simp
  · simp only [Bool.not_true, Bool.false_eq_true, if_false, List.length_append, List.length_take,
      List.length_replicate]
    omega

theorem chOK_templateNChannels (nch : Nat) (used : Bool) (order : List Int) (nc : Nat)
    (ho : ChOK nch order) : ChOK nch (templateNChannels used order nc) := by
  unfold templateNChannels
  intro c hc
  cases used
  · simp only [Bool.not_false, if_true] at hc
    exact Or.inl (List.eq_of_mem_replicate hc)
  · simp only [Bool.not_true, Bool.false_eq_true, if_false, List.mem_append] at hc
    rcases hc with hc | hc
    · exact ho c (List.mem_of_mem_take hc)
    · exact Or.inl (List.eq_of_mem_replicate hc)

theorem getD_bestChannels (spikeTemplates : List Nat) (orders : List (List Int)) (nc : Nat) (t : Nat)
    (ht : t < orders.length) :
    (bestChannels spikeTemplates orders nc).getD t [] =
      templateNChannels (spikeTemplates.contains t) (orders.getD t []) nc := by
  simp [bestChannels, List.getD_eq_getElem?_getD, List.getElem?_map, List.getElem?_range ht]

theorem chOK_getD (nch : Nat) (orders : List (List Int)) (ho : ∀ o ∈ orders, ChOK nch o) (t : Nat) :
    ChOK nch (orders.getD t []) := by
  rw [List.getD_eq_getElem?_getD]
  by_cases ht : t < orders.length
  · rw [List.getElem?_eq_getElem ht]
    exact ho _ (List.getElem_mem ht)
  · rw [List.getElem?_eq_none (by omega)]
    intro c hc
    simp at hc

/-- a sorted vector read at increasing positions is sorted (`spike_samples[spike_ids]`) -/
theorem sorted_take_at (l : List Int) (hl : l.Pairwise (· ≤ ·)) :
    ∀ (sel : List Nat), sel.Pairwise (· < ·) → (∀ i ∈ sel, i < l.length) →
      (sel.map fun i => l.getD i 0).Pairwise (· ≤ ·) := by
  intro sel hsel hb
  rw [List.pairwise_map]
  refine List.Pairwise.imp_of_mem ?_ hsel
  intro i j hi hj hij
  have h1 := hb i hi
  have h2 := hb j hj
  simp only [List.getD_eq_getElem?_getD, List.getElem?_eq_getElem h1, List.getElem?_eq_getElem h2,
    Option.getD_some]
  exact (List.pairwise_iff_getElem.1 hl) i j h1 h2 hij

theorem getD_map_idxOf {β : Type} (f : Nat → β) (d : β) (sel : List Nat) (q : Nat) (hq : q ∈ sel) :
    (sel.map f).getD (sel.idxOf q) d = f q := by
  have hlt : sel.idxOf q < sel.length := List.idxOf_lt_length_of_mem hq
  simp [List.getD_eq_getElem?_getD, List.getElem?_map, List.getElem?_eq_getElem hlt,
    List.getElem_idxOf hlt]

theorem subset_store_eq_raw (scale : α → α) (A : List (List α)) (nch : Nat)
    (ivs : List (Nat × Nat)) (hT : intervalsTile A.length ivs = true)
    (spikeSamples : List Int) (hss : spikeSamples.Pairwise (· ≤ ·))
    (hsb : ∀ s ∈ spikeSamples, 0 ≤ s ∧ s < A.length)
    (spikeTemplates : List Nat) (hst : spikeTemplates.length = spikeSamples.length)
    (orders : List (List Int)) (hto : ∀ t ∈ spikeTemplates, t < orders.length)
    (hord : ∀ o ∈ orders, ChOK nch o)
    (sel : List Nat) (hsel : sel.Pairwise (· < ·)) (hselb : ∀ i ∈ sel, i < spikeSamples.length)
    (n : Nat) (hn : 0 < n) (nc : Nat)
    (query : List Nat) (hq : ∀ q ∈ query, q ∈ sel) (chq : List Nat) (hchq : chq ≠ []) :
    (loadSubset (saveSubset scale A ivs spikeSamples spikeTemplates orders sel n nc)).bind
        (fun st => getSpikeWaveforms st query chq n) =
      some (query.map fun q =>
        lookupSpec scale A (spikeSamples.getD q 0) n
          (templateNChannels true (orders.getD (spikeTemplates.getD q 0) []) nc) chq) := by
  unfold saveSubset
  dsimp only
  generalize hchans : (sel.map fun i =>
    (bestChannels spikeTemplates orders nc).getD (spikeTemplates.getD i 0) []) = chans
  generalize hsamp : (sel.map fun i => spikeSamples.getD i 0) = samples
  have hlen : chans.length = samples.length := by rw [← hchans, ← hsamp]; simp
  have hids : sel.length = samples.length := by rw [← hsamp]; simp
  have hsorted : samples.Pairwise (· ≤ ·) := by
    rw [← hsamp]; exact sorted_take_at spikeSamples hss sel hsel hselb
  have hb : ∀ s ∈ samples, 0 ≤ s ∧ s < A.length := by
    intro s hs
    rw [← hsamp] at hs
    obtain ⟨i, hi, rfl⟩ := List.mem_map.1 hs
    have h1 := hselb i hi
    simp only [List.getD_eq_getElem?_getD, List.getElem?_eq_getElem h1, Option.getD_some]
    exact hsb _ (List.getElem_mem h1)
  -- the template of a selected spike
  have htq : ∀ i ∈ sel, spikeTemplates.getD i 0 ∈ spikeTemplates := by
    intro i hi
    have h1 : i < spikeTemplates.length := by rw [hst]; exact hselb i hi
    simp only [List.getD_eq_getElem?_getD, List.getElem?_eq_getElem h1, Option.getD_some]
    exact List.getElem_mem h1
  have hrow : ∀ i ∈ sel, (bestChannels spikeTemplates orders nc).getD (spikeTemplates.getD i 0) [] =
      templateNChannels true (orders.getD (spikeTemplates.getD i 0) []) nc := by
    intro i hi
    rw [getD_bestChannels _ _ _ _ (hto _ (htq i hi)), List.contains_iff_mem.mpr (htq i hi)]
  have hch : ∀ c ∈ chans, c.length = nc ∧ ChOK nch c := by
    intro c hc
    rw [← hchans] at hc
    obtain ⟨i, hi, rfl⟩ := List.mem_map.1 hc
    rw [hrow i hi]
    exact ⟨length_templateNChannels _ _ _, chOK_templateNChannels nch _ _ _ (chOK_getD nch orders hord _)⟩
  have key := (routes_agree scale A nch ivs hT samples chans hlen hsorted hb n hn nc hch sel hids
    query hq chq hchq).2.2
  rw [key]
  congr 1
  apply List.map_congr_left
  intro q hq'
  have hqs := hq q hq'
  rw [← hsamp, ← hchans, getD_map_idxOf (fun i => spikeSamples.getD i 0) 0 sel q hqs,
    getD_map_idxOf (fun i => (bestChannels spikeTemplates orders nc).getD (spikeTemplates.getD i 0) [])
      [] sel q hqs, hrow q hqs]

/-- the subset files always load (the store is present after an export), and what the reloaded store holds:
the selected ids, per selected spike the first `nc` channels of its template filled up with −1, and per selected
spike the unit factor times the raw window of ITS sample on ITS channel row -/
theorem subset_loads_eq (scale : α → α) (A : List (List α)) (nch : Nat)
    (ivs : List (Nat × Nat)) (hT : intervalsTile A.length ivs = true)
    (spikeSamples : List Int) (hss : spikeSamples.Pairwise (· ≤ ·))
    (hsb : ∀ s ∈ spikeSamples, 0 ≤ s ∧ s < A.length)
    (spikeTemplates : List Nat) (hst : spikeTemplates.length = spikeSamples.length)
    (orders : List (List Int)) (hto : ∀ t ∈ spikeTemplates, t < orders.length)
    (hord : ∀ o ∈ orders, ChOK nch o)
    (sel : List Nat) (hsel : sel.Pairwise (· < ·)) (hselb : ∀ i ∈ sel, i < spikeSamples.length)
    (n : Nat) (nc : Nat) :
    loadSubset (saveSubset scale A ivs spikeSamples spikeTemplates orders sel n nc) =
      some ⟨sel, sel.map fun i =>
        templateNChannels true (orders.getD (spikeTemplates.getD i 0) []) nc,
        sel.map fun i => scaleW scale (window A (spikeSamples.getD i 0) n
          (templateNChannels true (orders.getD (spikeTemplates.getD i 0) []) nc))⟩ := by
  unfold saveSubset
  dsimp only
  have htq : ∀ i ∈ sel, spikeTemplates.getD i 0 ∈ spikeTemplates := by
    intro i hi
    have h1 : i < spikeTemplates.length := by rw [hst]; exact hselb i hi
    simp only [List.getD_eq_getElem?_getD, List.getElem?_eq_getElem h1, Option.getD_some]
    exact List.getElem_mem h1
  have hrow : ∀ i ∈ sel, (bestChannels spikeTemplates orders nc).getD (spikeTemplates.getD i 0) [] =
      templateNChannels true (orders.getD (spikeTemplates.getD i 0) []) nc := by
    intro i hi
    rw [getD_bestChannels _ _ _ _ (hto _ (htq i hi)), List.contains_iff_mem.mpr (htq i hi)]
  have hchans : (sel.map fun i =>
      (bestChannels spikeTemplates orders nc).getD (spikeTemplates.getD i 0) []) =
      sel.map fun i => templateNChannels true (orders.getD (spikeTemplates.getD i 0) []) nc :=
    List.map_congr_left hrow
  rw [hchans]
  have hw : (sel.map fun i => scaleW scale (window A (spikeSamples.getD i 0) n
        (templateNChannels true (orders.getD (spikeTemplates.getD i 0) []) nc))) =
      ((sel.map fun i => spikeSamples.getD i 0).zip
        (sel.map fun i => templateNChannels true (orders.getD (spikeTemplates.getD i 0) []) nc)).map
        fun sc => (window A sc.1 n sc.2).map fun row => row.map scale := by
    rw [List.zip_map', List.map_map]
    rfl
  rw [hw]
  generalize hc : (sel.map fun i =>
    templateNChannels true (orders.getD (spikeTemplates.getD i 0) []) nc) = chans
  generalize hsamp : (sel.map fun i => spikeSamples.getD i 0) = samples
  have hlen : chans.length = samples.length := by rw [← hc, ← hsamp]; simp
  have hsorted : samples.Pairwise (· ≤ ·) := by
    rw [← hsamp]; exact sorted_take_at spikeSamples hss sel hsel hselb
  have hb : ∀ s ∈ samples, 0 ≤ s ∧ s < A.length := by
    intro s hs
    rw [← hsamp] at hs
    obtain ⟨i, hi, rfl⟩ := List.mem_map.1 hs
    have h1 := hselb i hi
    simp only [List.getD_eq_getElem?_getD, List.getElem?_eq_getElem h1, Option.getD_some]
    exact hsb _ (List.getElem_mem h1)
  have hch : ∀ c ∈ chans, c.length = nc ∧ ChOK nch c := by
    intro c hcm
    rw [← hc] at hcm
    obtain ⟨i, _, rfl⟩ := List.mem_map.1 hcm
    exact ⟨length_templateNChannels _ _ _, chOK_templateNChannels nch _ _ _ (chOK_getD nch orders hord _)⟩
  have hload := export_loads_windows scale A nch ivs hT samples chans hlen hsorted hb n nc hch
  simp only [loadSubset, hload, Option.map_some]

/-- the weaker form used by C10: the ids and the channel rows of the reloaded store -/
theorem subset_loads (scale : α → α) (A : List (List α)) (nch : Nat)
    (ivs : List (Nat × Nat)) (hT : intervalsTile A.length ivs = true)
    (spikeSamples : List Int) (hss : spikeSamples.Pairwise (· ≤ ·))
    (hsb : ∀ s ∈ spikeSamples, 0 ≤ s ∧ s < A.length)
    (spikeTemplates : List Nat) (hst : spikeTemplates.length = spikeSamples.length)
    (orders : List (List Int)) (hto : ∀ t ∈ spikeTemplates, t < orders.length)
    (hord : ∀ o ∈ orders, ChOK nch o)
    (sel : List Nat) (hsel : sel.Pairwise (· < ·)) (hselb : ∀ i ∈ sel, i < spikeSamples.length)
    (n : Nat) (nc : Nat) :
    ∃ w, loadSubset (saveSubset scale A ivs spikeSamples spikeTemplates orders sel n nc) =
      some ⟨sel, sel.map fun i =>
        templateNChannels true (orders.getD (spikeTemplates.getD i 0) []) nc, w⟩ :=
  ⟨_, subset_loads_eq scale A nch ivs hT spikeSamples hss hsb spikeTemplates hst orders hto hord sel hsel hselb n nc⟩

/-! ### `TemplateModel.get_waveforms` -/

/-- a failed assertion of the lookup: it raises (and `get_waveforms` catches exactly this) -/
theorem lookup_none_of_not_asserts (st : Store α) (query chq : List Nat) (n : Nat)
    (h : lookupAsserts st query chq n = false) : getSpikeWaveforms st query chq n = none := by
  unfold getSpikeWaveforms
  unfold lookupAsserts at h
  cases h1 : query.all st.spikeIds.contains
  · simp
  · cases h2 : (n == 0 || chq.isEmpty)
    · simp [h1, h2] at h
    · simp

theorem asserts_of_lookup (st : Store α) (query chq : List Nat) (n : Nat) (W : List (List (List α)))
    (h : getSpikeWaveforms st query chq n = some W) : lookupAsserts st query chq n = true := by
  cases ha : lookupAsserts st query chq n
  · rw [lookup_none_of_not_asserts st query chq n ha] at h; exact absurd h (by simp)
  · rfl

/-- the windows the raw-data route returns -/
theorem raw_route (A : List (List α)) (nch : Nat) (spikeSamples : List Int)
    (query chq : List Nat) (n : Nat)
    (hqb : ∀ q ∈ query, q < spikeSamples.length)
    (hsb : ∀ s ∈ spikeSamples, 0 ≤ s ∧ s < A.length) (hc : ∀ c ∈ chq, c < nch) :
    extractWaveforms A (query.map fun q => spikeSamples.getD q 0) n (chq.map Int.ofNat) =
      query.map fun q => window A (spikeSamples.getD q 0) n (chq.map Int.ofNat) := by
  simp only [extractWaveforms, List.map_map]
  apply List.map_congr_left
  intro q' hq'
  have h1 := hqb q' hq'
  have hs : spikeSamples.getD q' 0 ∈ spikeSamples := by
    simp only [List.getD_eq_getElem?_getD, List.getElem?_eq_getElem h1, Option.getD_some]
    exact List.getElem_mem h1
  simp only [Function.comp_apply]
  apply extract_eq_window A nch _ (hsb _ hs).1 (hsb _ hs).2
  intro c hcm
  obtain ⟨k, hk, rfl⟩ := List.mem_map.1 hcm
  have := hc k hk
  exact Or.inr ⟨by simp, by simpa using this⟩

theorem getWaveforms_stored (st : Store α) (A : List (List α)) (spikeSamples : List Int)
    (query chq : List Nat) (n : Nat) (W : List (List (List α)))
    (h : getSpikeWaveforms st query chq n = some W) :
    getWaveformsE (some st) A spikeSamples query chq n = some W := by
  cases ha : lookupAsserts st query chq n
  · rw [lookup_none_of_not_asserts st query chq n ha] at h
    exact absurd h (by simp)
  · simp [getWaveformsE, ha, h]

/-- an exception of the lookup other than AssertionError is not caught -/
theorem getWaveforms_propagates (st : Store α) (A : List (List α)) (spikeSamples : List Int)
    (query chq : List Nat) (n : Nat) (ha : lookupAsserts st query chq n = true)
    (h : getSpikeWaveforms st query chq n = none) :
    getWaveformsE (some st) A spikeSamples query chq n = none := by
  simp [getWaveformsE, ha, h]

theorem getWaveforms_unstored (st : Store α) (A : List (List α)) (nch : Nat) (spikeSamples : List Int)
    (query chq : List Nat) (n : Nat) (hn : 0 < n) (q : Nat) (hq : q ∈ query) (hns : q ∉ st.spikeIds)
    (hqb : ∀ q ∈ query, q < spikeSamples.length)
    (hsb : ∀ s ∈ spikeSamples, 0 ≤ s ∧ s < A.length) (hc : ∀ c ∈ chq, c < nch) :
    getWaveformsE (some st) A spikeSamples query chq n =
      some (query.map fun q => window A (spikeSamples.getD q 0) n (chq.map Int.ofNat)) := by
  have hfalse : lookupAsserts st query chq n = false := by
    unfold lookupAsserts
    have : query.all st.spikeIds.contains = false := by
      rw [List.all_eq_false]
      exact ⟨q, hq, by simpa using hns⟩
    simp [this]
  have hn' : (n == 0) = false := by simp; omega
  simp only [getWaveformsE, hfalse, hn', Bool.false_eq_true, if_false,
    raw_route A nch spikeSamples query chq n hqb hsb hc]

theorem getWaveforms_raw (A : List (List α)) (nch : Nat) (spikeSamples : List Int)
    (query chq : List Nat) (n : Nat) (hn : 0 < n)
    (hqb : ∀ q ∈ query, q < spikeSamples.length)
    (hsb : ∀ s ∈ spikeSamples, 0 ≤ s ∧ s < A.length) (hc : ∀ c ∈ chq, c < nch) :
    getWaveformsE none A spikeSamples query chq n =
      some (query.map fun q => window A (spikeSamples.getD q 0) n (chq.map Int.ofNat)) := by
  have hn' : (n == 0) = false := by simp; omega
  simp only [getWaveformsE, hn', Bool.false_eq_true, if_false,
    raw_route A nch spikeSamples query chq n hqb hsb hc]

/-- `save_spikes_subset_waveforms` followed by `get_waveforms` on the reloaded store, both branches: when every
requested spike was selected the store answers (`lookupSpec`), as soon as one was not the raw data answer -/
theorem getWaveforms_after_save (scale : α → α) (A : List (List α)) (nch : Nat)
    (ivs : List (Nat × Nat)) (hT : intervalsTile A.length ivs = true)
    (spikeSamples : List Int) (hss : spikeSamples.Pairwise (· ≤ ·))
    (hsb : ∀ s ∈ spikeSamples, 0 ≤ s ∧ s < A.length)
    (spikeTemplates : List Nat) (hst : spikeTemplates.length = spikeSamples.length)
    (orders : List (List Int)) (hto : ∀ t ∈ spikeTemplates, t < orders.length)
    (hord : ∀ o ∈ orders, ChOK nch o)
    (sel : List Nat) (hsel : sel.Pairwise (· < ·)) (hselb : ∀ i ∈ sel, i < spikeSamples.length)
    (n : Nat) (hn : 0 < n) (nc : Nat)
    (query : List Nat) (hqb : ∀ q ∈ query, q < spikeSamples.length)
    (chq : List Nat) (hchq : chq ≠ []) (hc : ∀ c ∈ chq, c < nch) :
    getWaveformsE (loadSubset (saveSubset scale A ivs spikeSamples spikeTemplates orders sel n nc))
        A spikeSamples query chq n =
      some (if query.all sel.contains then
          query.map fun q => lookupSpec scale A (spikeSamples.getD q 0) n
            (templateNChannels true (orders.getD (spikeTemplates.getD q 0) []) nc) chq
        else query.map fun q => window A (spikeSamples.getD q 0) n (chq.map Int.ofNat)) := by
  have hload := subset_loads_eq scale A nch ivs hT spikeSamples hss hsb spikeTemplates hst orders hto hord
    sel hsel hselb n nc
  cases hall : query.all sel.contains
  · -- some requested spike is not stored
    rw [hload]
    obtain ⟨q, hq, hqn⟩ := List.all_eq_false.1 hall
    simp only [Bool.false_eq_true, if_false]
    exact getWaveforms_unstored _ A nch spikeSamples query chq n hn q hq (by simpa using hqn) hqb hsb hc
  · have hq : ∀ q ∈ query, q ∈ sel := by
      intro q hq
      have := List.all_eq_true.1 hall q hq
      simpa using this
    have key := subset_store_eq_raw scale A nch ivs hT spikeSamples hss hsb spikeTemplates hst orders hto hord
      sel hsel hselb n hn nc query hq chq hchq
    rw [hload] at key ⊢
    simp only [Option.bind_some] at key
    simp only [if_true]
    exact getWaveforms_stored _ A spikeSamples query chq n _ key

end PhyVerif.C03.Lemmas
