import PhyVerif.Model.C17
import PhyVerif.Spec.C17
/-! Helper lemmas and full proofs for C17. Statements: `Props/C17.lean`. -/
namespace PhyVerif.C17.Lemmas
open PhyVerif PhyVerif.C17

theorem chunksKept_ok (bounds : List Int) (nKept : Nat) (hk : 1 ≤ nKept) (hb : 2 ≤ bounds.length) :
    keptOK bounds nKept (chunksKept bounds nKept) = true := by
  sorry

theorem parity_iff_in_kept (bounds : List Int) (nKept : Nat) (hk : 1 ≤ nKept) (hg : GridOK bounds)
    (t : Int) :
    timeInChunks (chunksKept bounds nKept) t = inKept bounds nKept t := by
  sorry

theorem selection_ok (choose : List Nat → Nat → List Nat) (hch : ChooseOK choose) (x : Inp)
    (hk : 1 ≤ x.nKept) (hg : GridOK x.bounds) :
    SpecOK x (selectWith choose x) = true := by
  sorry

end PhyVerif.C17.Lemmas
