import PhyVerif.Model.C17
import PhyVerif.Spec.C17
import PhyVerif.Spec.C07
import PhyVerif.Lemmas.C07
/-! Helper lemmas and full proofs for C17. Statements: `Props/C17.lean`. -/
namespace PhyVerif.C17.Lemmas
open PhyVerif PhyVerif.C17

/-! ### general list facts -/

/-- two strictly increasing lists with the same members are equal -/
theorem eq_of_pairwise_lt_of_mem_iff : ∀ (l₁ l₂ : List Nat), l₁.Pairwise (· < ·) → l₂.Pairwise (· < ·) →
    (∀ v, v ∈ l₁ ↔ v ∈ l₂) → l₁ = l₂
  | [], [], _, _, _ => rfl
  | [], b :: l₂, _, _, h => by have := (h b).2 (by simp); simp at this
  | a :: l₁, [], _, _, h => by have := (h a).1 (by simp); simp at this
  | a :: l₁, b :: l₂, h₁, h₂, h => by
    rw [List.pairwise_cons] at h₁ h₂
    have hab : a = b := by
      have ha := (h a).1 (by simp)
      have hb := (h b).2 (by simp)
      rcases List.mem_cons.mp ha with ha | ha
      · exact ha
      · rcases List.mem_cons.mp hb with hb | hb
        · exact hb.symm
        · have := h₁.1 b hb; have := h₂.1 a ha; omega
    subst hab
    have ht : l₁ = l₂ := by
      apply eq_of_pairwise_lt_of_mem_iff l₁ l₂ h₁.2 h₂.2
      intro v
      constructor
      · intro hv
        have hlt := h₁.1 v hv
        rcases List.mem_cons.mp ((h v).1 (List.mem_cons_of_mem _ hv)) with h' | h'
        · omega
        · exact h'
      · intro hv
        have hlt := h₂.1 v hv
        rcases List.mem_cons.mp ((h v).2 (List.mem_cons_of_mem _ hv)) with h' | h'
        · omega
        · exact h'
    rw [ht]

theorem drop_take_two (l : List Int) (i : Nat) (h : i + 1 < l.length) :
    (l.drop i).take 2 = [l.getD i 0, l.getD (i + 1) 0] := by
  have h0 : i < l.length := by omega
  have e1 : l.getD i 0 = l[i] := by simp [List.getD_eq_getElem?_getD, List.getElem?_eq_getElem h0]
  have e2 : l.getD (i + 1) 0 = l[i + 1] := by
    simp [List.getD_eq_getElem?_getD, List.getElem?_eq_getElem h]
  rw [e1, e2, List.drop_eq_getElem_cons h0, List.drop_eq_getElem_cons h]
  rfl

/-! ### the stride -/

theorem stride_pos (n k : Nat) : 1 ≤ stride n k := by unfold stride; omega

theorem lt_ceil_iff (n s j : Nat) (hs : 1 ≤ s) : j < (n + s - 1) / s ↔ j * s < n := by
  have h : j + 1 ≤ (n + s - 1) / s ↔ (j + 1) * s ≤ n + s - 1 := Nat.le_div_iff_mul_le (by omega)
  rw [Nat.succ_mul] at h
  omega

/-- the multiples of `s` below `n`, in increasing order -/
theorem range_filter_mod (n s : Nat) (hs : 1 ≤ s) :
    (List.range n).filter (fun i => i % s == 0) = (List.range ((n + s - 1) / s)).map (· * s) := by
  apply eq_of_pairwise_lt_of_mem_iff
  · exact List.Pairwise.filter _ List.pairwise_lt_range
  · rw [List.pairwise_map]
    refine List.Pairwise.imp ?_ List.pairwise_lt_range
    intro a b hab
    exact Nat.mul_lt_mul_of_lt_of_le hab (Nat.le_refl _) (by omega)
  · intro v
    simp only [List.mem_filter, List.mem_range, List.mem_map, beq_iff_eq]
    constructor
    · rintro ⟨hv, hm⟩
      refine ⟨v / s, ?_, ?_⟩
      · rw [lt_ceil_iff n s _ hs]
        have := Nat.div_add_mod v s
        have : v / s * s = v := by rw [Nat.mul_comm]; omega
        omega
      · have := Nat.div_add_mod v s
        rw [Nat.mul_comm]; omega
    · rintro ⟨j, hj, rfl⟩
      rw [lt_ceil_iff n s _ hs] at hj
      exact ⟨hj, Nat.mul_mod_left _ _⟩

theorem keptStarts_eq (n k : Nat) :
    keptStarts n k = (List.range n).filter (fun i => i % stride n k == 0) := by
  unfold keptStarts
  exact (range_filter_mod n (stride n k) (stride_pos n k)).symm

theorem keptStarts_length_le (n k : Nat) (hk : 1 ≤ k) : (keptStarts n k).length ≤ k := by
  unfold keptStarts
  simp only [List.length_map, List.length_range]
  have hs := stride_pos n k
  generalize hsd : stride n k = s at hs
  have hkn : n ≤ k * s := by
    have h1 : (n + k - 1) / k ≤ s := by rw [← hsd]; unfold stride; omega
    have h2 := Nat.div_add_mod (n + k - 1) k
    have h3 := Nat.mod_lt (n + k - 1) (by omega : k > 0)
    have h4 : k * ((n + k - 1) / k) ≤ k * s := Nat.mul_le_mul_left k h1
    omega
  have : (n + s - 1) / s < k + 1 := by
    rw [Nat.div_lt_iff_lt_mul (by omega), Nat.succ_mul]
    omega
  omega

/-- the flattened kept bounds are the kept intervals of the statement -/
theorem chunksKept_eq (bounds : List Int) (nKept : Nat) :
    chunksKept bounds nKept = (keptIntervals bounds nKept).flatMap (fun iv => [iv.1, iv.2]) := by
  unfold chunksKept keptIntervals
  rw [keptStarts_eq, List.flatMap_map]
  apply C07.Lemmas.flatMap_congr'
  intro i hi
  rw [List.mem_filter, List.mem_range] at hi
  exact drop_take_two bounds i (by omega)

theorem keptIntervals_length (bounds : List Int) (nKept : Nat) :
    (keptIntervals bounds nKept).length = (keptStarts (bounds.length - 1) nKept).length := by
  unfold keptIntervals
  rw [keptStarts_eq, List.length_map]

theorem chunksKept_ok (bounds : List Int) (nKept : Nat) (hk : 1 ≤ nKept) :
    keptOK bounds nKept (chunksKept bounds nKept) = true := by
  unfold keptOK
  rw [Bool.and_eq_true, beq_iff_eq, decide_eq_true_eq]
  exact ⟨chunksKept_eq bounds nKept,
    by rw [keptIntervals_length]; exact keptStarts_length_le _ _ hk⟩

/-! ### parity of `searchsorted` = membership of a kept interval -/

theorem parity_flat (t : Int) : ∀ (ivs : List (Int × Int)), (∀ p ∈ ivs, p.1 < p.2) →
    ivs.Pairwise (fun p q => p.2 ≤ q.1) →
    ((ivs.flatMap fun iv => [iv.1, iv.2]).countP (· ≤ t) % 2 == 1) =
      ivs.any (fun iv => decide (iv.1 ≤ t) && decide (t < iv.2))
  | [], _, _ => by simp
  | (a, b) :: ivs, h1, h2 => by
    rw [List.pairwise_cons] at h2
    have ih := parity_flat t ivs (fun p hp => h1 p (List.mem_cons_of_mem _ hp)) h2.2
    have hab : a < b := h1 (a, b) (by simp)
    rw [List.flatMap_cons, List.countP_append, List.any_cons]
    generalize (ivs.flatMap fun iv => [iv.1, iv.2]).countP (· ≤ t) = c at ih ⊢
    simp only [List.countP_cons, List.countP_nil, decide_eq_true_eq]
    by_cases hat : a ≤ t
    · by_cases hbt : b ≤ t
      · have : ¬ t < b := by omega
        simp only [hat, hbt, this, if_true, decide_true, decide_false, Bool.and_false, Bool.false_or]
        rw [← ih]
        have : (0 + 1 + 1 + c) % 2 = c % 2 := by omega
        rw [this]
      · have hr : ivs.any (fun iv => decide (iv.1 ≤ t) && decide (t < iv.2)) = false := by
          rw [List.any_eq_false]
          intro p hp
          have := h2.1 p hp
          have : ¬ p.1 ≤ t := by simp only at this; omega
          simp [this]
        have : t < b := by omega
        rw [hr] at ih
        simp only [hat, hbt, this, if_true, if_false, decide_true, Bool.and_true, Bool.true_or]
        have hc : c % 2 = 0 := by
          have := Nat.mod_two_eq_zero_or_one c
          rcases this with h | h
          · exact h
          · rw [h] at ih; simp at ih
        have : (0 + 1 + 0 + c) % 2 = 1 := by omega
        rw [this]; rfl
    · have hbt : ¬ b ≤ t := by omega
      simp only [hat, hbt, if_false, decide_false, Bool.false_and, Bool.false_or]
      rw [← ih]
      have : (0 + 0 + 0 + c) % 2 = c % 2 := by omega
      rw [this]

theorem getD_lt_of_pairwise (l : List Int) (h : l.Pairwise (· < ·)) (i j : Nat) (hij : i < j)
    (hj : j < l.length) : l.getD i 0 < l.getD j 0 := by
  have := List.pairwise_iff_getElem.mp h i j (by omega) hj hij
  simpa [List.getD_eq_getElem?_getD, List.getElem?_eq_getElem hj,
    List.getElem?_eq_getElem (by omega : i < l.length)] using this

theorem getD_le_of_pairwise (l : List Int) (h : l.Pairwise (· < ·)) (i j : Nat) (hij : i ≤ j)
    (hj : j < l.length) : l.getD i 0 ≤ l.getD j 0 := by
  rcases Nat.lt_or_eq_of_le hij with h' | h'
  · exact Int.le_of_lt (getD_lt_of_pairwise l h i j h' hj)
  · subst h'; exact Int.le_refl _

theorem parity_iff_in_kept' (bounds : List Int) (nKept : Nat) (hg : GridOK bounds) (t : Int) :
    timeInChunks (chunksKept bounds nKept) t = inKept bounds nKept t := by
  unfold timeInChunks inKept Np.ssRight
  rw [chunksKept_eq]
  apply parity_flat
  · intro p hp
    unfold keptIntervals at hp
    simp only [List.mem_map, List.mem_filter, List.mem_range] at hp
    obtain ⟨i, ⟨hi, _⟩, rfl⟩ := hp
    exact getD_lt_of_pairwise bounds hg.2 i (i + 1) (by omega) (by omega)
  · unfold keptIntervals
    rw [List.pairwise_map]
    have hp : ((List.range (bounds.length - 1)).filter
        fun i => i % stride (bounds.length - 1) nKept == 0).Pairwise (· < ·) :=
      List.Pairwise.filter _ List.pairwise_lt_range
    refine List.Pairwise.imp_of_mem ?_ hp
    intro i j hi hj hij
    rw [List.mem_filter, List.mem_range] at hi hj
    exact getD_le_of_pairwise bounds hg.2 (i + 1) j (by omega) (by omega)

theorem parity_iff_in_kept (bounds : List Int) (nKept : Nat) (hg : GridOK bounds)
    (t : Int) :
    timeInChunks (chunksKept bounds nKept) t = inKept bounds nKept t :=
  parity_iff_in_kept' bounds nKept hg t

/-! ### the selection -/

theorem eligible_eq (x : Inp) (hg : GridOK x.bounds) (c : Nat) : eligible x c = eligibleSpec x c := by
  unfold eligible eligibleSpec spikesOf intersectSorted
  cases hs : x.subsetChunks <;> cases hss : x.subset <;>
    simp only [List.filter_filter, parity_iff_in_kept' _ _ hg] <;>
    simp only [if_true, if_false, Bool.false_eq_true, List.filter_filter, Bool.not_false, Bool.not_true,
      Bool.true_or, Bool.false_or, Bool.and_true] <;>
    (try (apply List.filter_congr; intro i _;
          cases (inKept x.bounds x.nKept (x.times.getD i 0)) <;> cases (x.clusters.getD i 0 == c) <;>
          simp))

theorem nodup_of_pairwise_lt (l : List Nat) (h : l.Pairwise (· < ·)) : l.Nodup :=
  List.Pairwise.imp (fun h => Nat.ne_of_lt h) h

theorem strictIncN_of_pairwise : ∀ (l : List Nat), l.Pairwise (· < ·) → strictIncN l = true
  | [], _ => rfl
  | [_], _ => rfl
  | a :: b :: t, h => by
    rw [List.pairwise_cons] at h
    unfold strictIncN
    rw [Bool.and_eq_true, decide_eq_true_eq]
    exact ⟨h.1 b (by simp), strictIncN_of_pairwise (b :: t) h.2⟩

theorem eligibleSpec_pairwise (x : Inp) (c : Nat) : (eligibleSpec x c).Pairwise (· < ·) :=
  List.Pairwise.filter _ List.pairwise_lt_range

theorem mem_eligibleSpec (x : Inp) (c v : Nat) (h : v ∈ eligibleSpec x c) :
    v < x.clusters.length ∧ x.clusters.getD v 0 = c := by
  unfold eligibleSpec at h
  rw [List.mem_filter, List.mem_range, Bool.and_eq_true, Bool.and_eq_true, beq_iff_eq] at h
  exact ⟨h.1, h.2.1.1⟩

theorem selectCluster_cases (choose : List Nat → Nat → List Nat) (x : Inp) (hg : GridOK x.bounds)
    (c : Nat) :
    (selectCluster choose x c = eligibleSpec x c) ∨
    (∃ n : Int, x.count = some n ∧ n > 0 ∧ ((eligibleSpec x c).length : Int) > n ∧
      selectCluster choose x c = choose (eligibleSpec x c) n.toNat) := by
  unfold selectCluster
  simp only [eligible_eq x hg]
  cases hc : x.count with
  | none => exact Or.inl rfl
  | some n =>
    by_cases h : n > 0 ∧ ((eligibleSpec x c).length : Int) > n
    · right
      exact ⟨n, rfl, h.1, h.2, by simp only [if_pos h]⟩
    · left
      simp only [if_neg h]

theorem mem_selectCluster (choose : List Nat → Nat → List Nat) (hch : ChooseOK choose) (x : Inp)
    (hg : GridOK x.bounds) (c v : Nat) (h : v ∈ selectCluster choose x c) : v ∈ eligibleSpec x c := by
  rcases selectCluster_cases choose x hg c with he | ⟨n, _, hn0, hlen, he⟩
  · rw [he] at h; exact h
  · rw [he] at h
    exact (hch (eligibleSpec x c) n.toNat (nodup_of_pairwise_lt _ (eligibleSpec_pairwise x c))
      (by omega)).2.2 v h

theorem selectWith_spec (choose : List Nat → Nat → List Nat) (x : Inp) (hne : x.req.isEmpty = false) :
    (selectWith choose x).Pairwise (· < ·) ∧
      ∀ v, v ∈ selectWith choose x ↔ ∃ c ∈ x.req, v ∈ selectCluster choose x c := by
  unfold selectWith
  rw [hne]
  simp only [Bool.false_eq_true, if_false]
  have h := C07.Lemmas.unique_spec (((x.req.eraseDups).flatMap (selectCluster choose x)).map Int.ofNat)
  refine ⟨h.1, fun v => ?_⟩
  rw [h.2 v]
  simp only [List.mem_map, List.mem_flatMap, List.mem_eraseDups]
  constructor
  · rintro ⟨w, hw, hwv⟩
    have : w = v := Int.ofNat.inj hwv
    subst this
    exact hw
  · intro hw
    exact ⟨v, hw, rfl⟩

theorem cluster_clause (choose : List Nat → Nat → List Nat) (hch : ChooseOK choose) (x : Inp)
    (hg : GridOK x.bounds) (c : Nat) (got : List Nat) (hgpw : got.Pairwise (· < ·))
    (hg' : ∀ v, v ∈ got ↔ v ∈ selectCluster choose x c) :
    (match x.count with
      | some n =>
        if n > 0 ∧ ((eligibleSpec x c).length : Int) > n then
          decide ((got.length : Int) = n) && got.all ((eligibleSpec x c).contains ·)
        else got == eligibleSpec x c
      | none => got == eligibleSpec x c) = true := by
  have hall : ∀ (_ : selectCluster choose x c = eligibleSpec x c), (got == eligibleSpec x c) = true := by
    intro he
    rw [beq_iff_eq]
    apply eq_of_pairwise_lt_of_mem_iff _ _ hgpw (eligibleSpec_pairwise x c)
    intro v; rw [hg' v, he]
  have hsel : selectCluster choose x c = (match x.count with
      | some n => if n > 0 ∧ ((eligibleSpec x c).length : Int) > n then
          choose (eligibleSpec x c) n.toNat else eligibleSpec x c
      | none => eligibleSpec x c) := by
    unfold selectCluster
    simp only [eligible_eq x hg]
    cases x.count <;> rfl
  cases hc : x.count with
  | none =>
    rw [hc] at hsel
    exact hall hsel
  | some n =>
    rw [hc] at hsel
    simp only at hsel ⊢
    by_cases h : n > 0 ∧ ((eligibleSpec x c).length : Int) > n
    · rw [if_pos h] at hsel ⊢
      obtain ⟨hnd, hlen, hsub⟩ := hch (eligibleSpec x c) n.toNat
        (nodup_of_pairwise_lt _ (eligibleSpec_pairwise x c)) (by omega)
      rw [← hsel] at hnd hlen hsub
      have hperm : got.Perm (selectCluster choose x c) :=
        (List.perm_ext_iff_of_nodup (nodup_of_pairwise_lt _ hgpw) hnd).mpr hg'
      rw [Bool.and_eq_true, decide_eq_true_eq, List.all_eq_true]
      refine ⟨by rw [hperm.length_eq, hlen]; omega, fun v hv => ?_⟩
      exact List.contains_iff_mem.mpr (hsub v ((hg' v).1 hv))
    · rw [if_neg h] at hsel ⊢
      exact hall hsel

theorem selection_ok (choose : List Nat → Nat → List Nat) (hch : ChooseOK choose) (x : Inp)
    (hg : GridOK x.bounds) :
    SpecOK x (selectWith choose x) = true := by
  cases hne : x.req.isEmpty with
  | true =>
    have hr : x.req = [] := List.isEmpty_iff.mp hne
    unfold SpecOK selectWith
    rw [hne, hr]
    rfl
  | false =>
    obtain ⟨hpw, hmem⟩ := selectWith_spec choose x hne
    generalize selectWith choose x = out at hpw hmem
    -- members of the output restricted to cluster `c`
    have hgot : ∀ c ∈ x.req, ∀ v,
        v ∈ out.filter (fun i => x.clusters.getD i 0 == c) ↔ v ∈ selectCluster choose x c := by
      intro c hc v
      rw [List.mem_filter, beq_iff_eq, hmem]
      constructor
      · rintro ⟨⟨c', _, hv⟩, hvc⟩
        have := (mem_eligibleSpec x c' v (mem_selectCluster choose hch x hg c' v hv)).2
        have : c' = c := by omega
        subst this
        exact hv
      · intro hv
        exact ⟨⟨c, hc, hv⟩, (mem_eligibleSpec x c v (mem_selectCluster choose hch x hg c v hv)).2⟩
    unfold SpecOK
    rw [Bool.and_eq_true, Bool.and_eq_true]
    refine ⟨⟨strictIncN_of_pairwise out hpw, ?_⟩, ?_⟩
    · rw [List.all_eq_true]
      intro v hv
      obtain ⟨c, hc, hvc⟩ := (hmem v).1 hv
      have := mem_eligibleSpec x c v (mem_selectCluster choose hch x hg c v hvc)
      rw [Bool.and_eq_true, decide_eq_true_eq, this.2]
      exact ⟨this.1, List.contains_iff_mem.mpr hc⟩
    · rw [List.all_eq_true]
      intro c hc
      exact cluster_clause choose hch x hg c _ (List.Pairwise.filter _ hpw) (hgot c hc)

end PhyVerif.C17.Lemmas
