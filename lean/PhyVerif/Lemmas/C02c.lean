import PhyVerif.Model.C02c
import PhyVerif.Lemmas.C02
/-! Proofs about blocks handed out by `__getitem__` and modified by the caller. Core Lean only. -/
namespace PhyVerif.C02.Lemmas
open PhyVerif PhyVerif.C01 PhyVerif.C02

variable {β : Type}

/-- what `getitem` answers, computed -/
theorem getitem_eq_some (m : Mem β) (np : Nat) (ops : List (Op β)) (it : Item) (m' : Mem β) (a : Nat)
    (hg : getitem m np ops it = some (m', a)) :
    ∃ rows, getRows (m.parts np) it = some rows ∧ m' = ⟨m.arrays ++ [applyOps ops rows]⟩ ∧ a = m.arrays.length := by
  unfold getitem at hg
  cases hr : getRows (m.parts np) it with
  | none => simp [hr] at hg
  | some rows =>
    simp only [hr, Option.map_some, Option.some.injEq, Prod.mk.injEq] at hg
    exact ⟨rows, rfl, hg.1.symm, hg.2.symm⟩

/-- the block handed out holds what `eval` says -/
theorem getitem_block (h : Heap β) (m : Mem β) (np : Nat) (r : Nat) (it : Item) :
    (getitem m np (h.getD r []) it).map (fun p => p.1.block p.2) = eval h (m.parts np) r it := by
  unfold getitem eval
  cases getRows (m.parts np) it with
  | none => rfl
  | some rows => simp [Mem.block, List.getD_eq_getElem?_getD]

/-- the block is a new object: its address is beyond every object that existed, the objects that existed are
unchanged by the call -/
theorem getitem_fresh (m : Mem β) (np : Nat) (ops : List (Op β)) (it : Item) (m' : Mem β) (a : Nat)
    (hg : getitem m np ops it = some (m', a)) :
    a = m.arrays.length ∧ m'.arrays.take m.arrays.length = m.arrays := by
  obtain ⟨rows, _, rfl, rfl⟩ := getitem_eq_some m np ops it m' a hg
  simp

/-- the block and its address, for a reader that exists (`r < h.length`) over a storage whose parts exist
(`np ≤ m.arrays.length`): the address is outside the storage and the storage is as it was -/
theorem getitem_block_fresh (h : Heap β) (m : Mem β) (np : Nat) (hnp : np ≤ m.arrays.length) (r : Nat)
    (hr : r < h.length) (it : Item) :
    (getitem m np h[r] it).map (fun p => p.1.block p.2) = eval h (m.parts np) r it ∧
    (m.parts np).length = np ∧
    ∀ m' a, getitem m np h[r] it = some (m', a) →
      a = m.arrays.length ∧ np ≤ a ∧ m'.arrays.length = a + 1 ∧
      m'.arrays.take m.arrays.length = m.arrays ∧ m'.parts np = m.parts np := by
  have hget : h.getD r [] = h[r] := by simp [List.getD_eq_getElem?_getD, hr]
  refine ⟨hget ▸ getitem_block h m np r it, by simp [Mem.parts, hnp], fun m' a hg => ?_⟩
  obtain ⟨rows, _, rfl, rfl⟩ := getitem_eq_some m np _ it m' a hg
  refine ⟨rfl, hnp, by simp, by simp, ?_⟩
  simp only [Mem.parts]
  rw [List.take_append_of_le_length hnp]

/-- writing into the block handed out leaves the storage as it was -/
theorem scribble_parts (m : Mem β) (np : Nat) (hnp : np ≤ m.arrays.length) (ops : List (Op β)) (it : Item)
    (m' : Mem β) (a : Nat) (hg : getitem m np ops it = some (m', a)) (f : List (List β) → List (List β)) :
    (scribble m' a f).parts np = m.parts np := by
  obtain ⟨rows, _, rfl, rfl⟩ := getitem_eq_some m np ops it m' a hg
  simp only [scribble, Mem.parts]
  rw [List.take_set_of_le hnp, List.take_append_of_le_length hnp]

end PhyVerif.C02.Lemmas
