import PhyVerif.Model.C12
import PhyVerif.Spec.C12
/-! Helper lemmas and full proofs for C12. Statements: `Props/C12.lean`. -/
namespace PhyVerif.C12.Lemmas
open PhyVerif PhyVerif.C12

variable {α : Type} [Zero α]

theorem prefixSum_zero (l : List Nat) : prefixSum l 0 = 0 := by simp [prefixSum]

theorem prefixSum_cons_succ (a : Nat) (l : List Nat) (k : Nat) :
    prefixSum (a :: l) (k + 1) = a + prefixSum l k := by simp [prefixSum]

theorem nat_foldl_max (l : List Nat) :
    ∀ a : Nat, a ≤ l.foldl max a ∧ ∀ v ∈ l, v ≤ l.foldl max a := by
  induction l with
  | nil => intro a; simp
  | cons b l ih =>
    intro a
    rw [List.foldl_cons]
    have h := ih (max a b)
    refine ⟨by omega, ?_⟩
    intro v hv
    rcases List.mem_cons.mp hv with h1 | h1
    · subst h1; omega
    · exact h.2 v h1

theorem nat_foldl_max_le (l : List Nat) (B : Nat) :
    ∀ a : Nat, a ≤ B → (∀ v ∈ l, v ≤ B) → l.foldl max a ≤ B := by
  induction l with
  | nil => intro a ha _; simpa using ha
  | cons b l ih =>
    intro a ha hl
    rw [List.foldl_cons]
    have hb := hl b (by simp)
    exact ih (max a b) (by omega) (fun v hv => hl v (by simp [hv]))

theorem int_foldl_max (l : List Int) :
    ∀ a : Int, a ≤ l.foldl max a ∧ ∀ v ∈ l, v ≤ l.foldl max a := by
  induction l with
  | nil => intro a; simp
  | cons b l ih =>
    intro a
    rw [List.foldl_cons]
    have h := ih (max a b)
    refine ⟨by omega, ?_⟩
    intro v hv
    rcases List.mem_cons.mp hv with h1 | h1
    · subst h1; omega
    · exact h.2 v h1

theorem int_foldl_min (l : List Int) :
    ∀ a : Int, l.foldl min a ≤ a ∧ ∀ v ∈ l, l.foldl min a ≤ v := by
  induction l with
  | nil => intro a; simp
  | cons b l ih =>
    intro a
    rw [List.foldl_cons]
    have h := ih (min a b)
    refine ⟨by omega, ?_⟩
    intro v hv
    rcases List.mem_cons.mp hv with h1 | h1
    · subst h1; omega
    · exact h.2 v h1

theorem perm_foldl_max (m : List Nat) (off : Nat) (hne : m ≠ [])
    (hp : m.Perm (List.range m.length)) :
    (m.map (· + off)).foldl max 0 + 1 = off + m.length := by
  have hpos : 0 < m.length := List.length_pos_iff.mpr hne
  have hup : (m.map (· + off)).foldl max 0 ≤ off + m.length - 1 := by
    apply nat_foldl_max_le _ _ 0 (by omega)
    intro v hv
    rcases List.mem_map.mp hv with ⟨x, hx, rfl⟩
    have := List.mem_range.mp ((hp.mem_iff).mp hx)
    omega
  have hlo : m.length - 1 + off ≤ (m.map (· + off)).foldl max 0 := by
    apply (nat_foldl_max _ 0).2
    apply List.mem_map.mpr
    exact ⟨m.length - 1, (hp.mem_iff).mpr (List.mem_range.mpr (by omega)), rfl⟩
  omega

theorem mapsOK_cons {m : List Nat} {rest : List (List Nat)} (h : MapsOK (m :: rest)) :
    (m ≠ [] ∧ m.Perm (List.range m.length)) ∧ MapsOK rest :=
  ⟨h m (by simp), fun x hx => h x (by simp [hx])⟩

theorem chanOffsetsFrom_getD (maps : List (List Nat)) :
    ∀ (off k : Nat), MapsOK maps → k < maps.length →
      (chanOffsetsFrom off maps).getD k 0 = off + prefixSum (maps.map List.length) k := by
  induction maps with
  | nil => intro off k _ hk; simp at hk
  | cons m rest ih =>
    intro off k h hk
    obtain ⟨hm, hrest⟩ := mapsOK_cons h
    cases k with
    | zero => simp [chanOffsetsFrom, prefixSum_zero]
    | succ k =>
      have hk' : k < rest.length := by simpa using hk
      rw [chanOffsetsFrom, List.getD_cons_succ, ih _ k hrest hk', perm_foldl_max m off hm.1 hm.2,
        List.map_cons, prefixSum_cons_succ]
      omega

theorem chanOffsetsFrom_length (maps : List (List Nat)) :
    ∀ off : Nat, (chanOffsetsFrom off maps).length = maps.length := by
  induction maps with
  | nil => intro off; rfl
  | cons m rest ih => intro off; simp [chanOffsetsFrom, ih]

theorem chanOffsets_eq_prefix (maps : List (List Nat)) (h : MapsOK maps) (k : Nat)
    (hk : k < maps.length) :
    (chanOffsets maps).getD k 0 = prefixSum (maps.map List.length) k := by
  rw [chanOffsets, chanOffsetsFrom_getD maps 0 k h hk]; omega

/-- entries of a flattened list of per-probe blocks, each block mapped with its own offset -/
theorem zipFlat_get {β γ : Type} (g : β → Nat → γ) (L : List (List β)) :
    ∀ (offs : List Nat) (k i : Nat), offs.length = L.length → k < L.length →
      i < (L.getD k []).length →
      (((L.zip offs).map fun p => p.1.map fun x => g x p.2).flatten)[prefixSum (L.map List.length) k + i]? =
        ((L.getD k [])[i]?).map fun x => g x (offs.getD k 0) := by
  induction L with
  | nil => intro offs k i _ hk; simp at hk
  | cons a L ih =>
    intro offs k i hlen hk hi
    cases offs with
    | nil => simp at hlen
    | cons o offs =>
      have hlen' : offs.length = L.length := by simpa using hlen
      cases k with
      | zero =>
        have hi' : i < a.length := by simpa using hi
        simp [prefixSum_zero, List.getElem?_append_left, hi']
      | succ k =>
        have hk' : k < L.length := by simpa using hk
        have hi' : i < (L.getD k []).length := by simpa using hi
        have := ih offs k i hlen' hk' hi'
        simp only [List.zip_cons_cons, List.map_cons, List.flatten_cons, prefixSum_cons_succ,
          List.getD_cons_succ]
        rw [List.getElem?_append_right (by simp; omega)]
        simp only [List.length_map]
        rw [show a.length + prefixSum (L.map List.length) k + i - a.length =
          prefixSum (L.map List.length) k + i by omega]
        exact this

theorem zipFlat_length {β γ : Type} (g : β → Nat → γ) (L : List (List β)) :
    ∀ (offs : List Nat), offs.length = L.length →
      (((L.zip offs).map fun p => p.1.map fun x => g x p.2).flatten).length =
        (L.map List.length).sum := by
  induction L with
  | nil => intro offs _; simp
  | cons a L ih =>
    intro offs hlen
    cases offs with
    | nil => simp at hlen
    | cons o offs =>
      have hlen' : offs.length = L.length := by simpa using hlen
      have := ih offs hlen'
      simp only [List.zip_cons_cons, List.map_cons, List.flatten_cons, List.length_append,
        List.length_map, List.sum_cons, this]

/-- a position inside block `k` exists only when block `k` exists -/
theorem lt_length_of_lt_getD_length {β : Type} (L : List (List β)) (k i : Nat)
    (hi : i < (L.getD k []).length) : k < L.length := by
  rcases Nat.lt_or_ge k L.length with h | h
  · exact h
  · rw [List.getD_eq_getElem?_getD, List.getElem?_eq_none h] at hi; simp at hi

theorem channelProbes_eq (maps : List (List Nat)) :
    channelProbes maps =
      ((maps.zip (List.range' 0 maps.length)).map fun p => p.1.map fun _ => p.2).flatten := by
  rw [channelProbes, List.zipIdx_eq_zip_range']

theorem channels_block (maps : List (List Nat)) (h : MapsOK maps) (k i : Nat)
    (hi : i < (maps.getD k []).length) :
    (mergeChannelMaps maps).getD (prefixSum (maps.map List.length) k + i) 0 =
        (maps.getD k []).getD i 0 + prefixSum (maps.map List.length) k ∧
    (channelProbes maps).getD (prefixSum (maps.map List.length) k + i) maps.length = k ∧
    (mergeChannelMaps maps).length = (maps.map List.length).sum ∧
    (channelProbes maps).length = (maps.map List.length).sum := by
  have hk : k < maps.length := lt_length_of_lt_getD_length maps k i hi
  have hlen : (chanOffsets maps).length = maps.length := chanOffsetsFrom_length maps 0
  have hlenr : (List.range' 0 maps.length).length = maps.length := by simp
  refine ⟨?_, ?_, ?_, ?_⟩
  · have := zipFlat_get (fun x o => x + o) maps (chanOffsets maps) k i hlen hk hi
    have hoff := chanOffsets_eq_prefix maps h k hk
    rw [mergeChannelMaps, List.getD_eq_getElem?_getD, this, hoff]
    generalize maps.getD k [] = row at hi ⊢
    simp [List.getD_eq_getElem?_getD, List.getElem?_eq_getElem hi]
  · have := zipFlat_get (fun (_ : Nat) o => o) maps (List.range' 0 maps.length) k i hlenr hk hi
    rw [channelProbes_eq, List.getD_eq_getElem?_getD, this, List.getElem?_eq_getElem hi]
    simp [List.getD_eq_getElem?_getD, hk]
  · exact zipFlat_length (fun x o => x + o) maps (chanOffsets maps) hlen
  · rw [channelProbes_eq]
    exact zipFlat_length (fun (_ : Nat) o => o) maps (List.range' 0 maps.length) hlenr


/-! positions -/

/-- the x offset handed to the next probe -/
def nextOff (xoff : Int) (p : List (Int × Int)) : Int :=
  let xs := (p.map fun xy => (xy.1 + xoff, xy.2)).map (·.1)
  2 * xs.foldl max (xs.headD 0) - xs.foldl min (xs.headD 0)

theorem shiftPositionsFrom_cons (xoff : Int) (p : List (Int × Int)) (rest : List (List (Int × Int))) :
    shiftPositionsFrom xoff (p :: rest) =
      (p.map fun xy => (xy.1 + xoff, xy.2)) :: shiftPositionsFrom (nextOff xoff p) rest := rfl

theorem positions_translated_from (pos : List (List (Int × Int))) :
    ∀ (xoff : Int) (k : Nat), ∃ dx : Int,
      (shiftPositionsFrom xoff pos).getD k [] = (pos.getD k []).map fun xy => (xy.1 + dx, xy.2) := by
  induction pos with
  | nil => intro xoff k; exact ⟨0, by simp [shiftPositionsFrom]⟩
  | cons p rest ih =>
    intro xoff k
    cases k with
    | zero => exact ⟨xoff, by simp [shiftPositionsFrom_cons]⟩
    | succ k =>
      obtain ⟨dx, hdx⟩ := ih (nextOff xoff p) k
      exact ⟨dx, by simpa [shiftPositionsFrom_cons] using hdx⟩

theorem positions_translated (pos : List (List (Int × Int))) (k : Nat) :
    ∃ dx : Int, (shiftPositionsFrom 0 pos).getD k [] = (pos.getD k []).map fun xy => (xy.1 + dx, xy.2) :=
  positions_translated_from pos 0 k

theorem nextOff_spec (xoff : Int) (p : List (Int × Int)) (hnn : ∀ xy ∈ p, 0 ≤ xy.1)
    (hd : ∃ a ∈ p, ∃ b ∈ p, a.1 < b.1) :
    xoff ≤ nextOff xoff p ∧ ∀ xy ∈ p, xy.1 + xoff < nextOff xoff p := by
  obtain ⟨a, ha, b, hb, hab⟩ := hd
  have hxs : ((p.map fun xy => (xy.1 + xoff, xy.2)).map (·.1)) = p.map fun xy => xy.1 + xoff := by
    simp [List.map_map, Function.comp_def]
  have hmem : ∀ xy ∈ p, xy.1 + xoff ∈ p.map fun xy => xy.1 + xoff :=
    fun xy hxy => List.mem_map.mpr ⟨xy, hxy, rfl⟩
  unfold nextOff
  simp only [hxs]
  generalize (p.map fun xy => xy.1 + xoff) = xs at hmem
  have hmax := (int_foldl_max xs (xs.headD 0)).2
  have hmin := (int_foldl_min xs (xs.headD 0)).2
  have h1 := hmin _ (hmem a ha)
  have h2 := hmax _ (hmem b hb)
  have key : ∀ xy ∈ p, xy.1 + xoff < 2 * xs.foldl max (xs.headD 0) - xs.foldl min (xs.headD 0) := by
    intro xy hxy
    have h3 := hmax _ (hmem xy hxy)
    omega
  refine ⟨?_, key⟩
  have := key a ha
  have := hnn a ha
  omega

theorem posOK_cons {p : List (Int × Int)} {rest : List (List (Int × Int))} (h : PosOK (p :: rest)) :
    ((∀ xy ∈ p, 0 ≤ xy.1) ∧ ∃ a ∈ p, ∃ b ∈ p, a.1 < b.1) ∧ PosOK rest :=
  ⟨h p (by simp), fun x hx => h x (by simp [hx])⟩

/-- every shifted coordinate is at least the starting offset -/
theorem shift_lower (pos : List (List (Int × Int))) :
    ∀ (xoff : Int), PosOK pos → ∀ q ∈ shiftPositionsFrom xoff pos, ∀ b ∈ q, xoff ≤ b.1 := by
  induction pos with
  | nil => intro xoff _ q hq; simp [shiftPositionsFrom] at hq
  | cons p rest ih =>
    intro xoff h q hq b hb
    obtain ⟨⟨hnn, hd⟩, hrest⟩ := posOK_cons h
    rw [shiftPositionsFrom_cons] at hq
    rcases List.mem_cons.mp hq with rfl | hq
    · rcases List.mem_map.mp hb with ⟨xy, hxy, rfl⟩
      have := hnn xy hxy
      simp only
      omega
    · have h1 := ih (nextOff xoff p) hrest q hq b hb
      have h2 := (nextOff_spec xoff p hnn hd).1
      omega

theorem mem_getD_mem {β : Type} (L : List (List β)) (l : Nat) (b : β) (hb : b ∈ L.getD l []) :
    ∃ q ∈ L, b ∈ q := by
  rw [List.getD_eq_getElem?_getD] at hb
  cases hq : L[l]? with
  | none => simp [hq] at hb
  | some q =>
    rw [hq] at hb
    exact ⟨q, List.mem_of_getElem? hq, by simpa using hb⟩

theorem positions_apart_from (pos : List (List (Int × Int))) :
    ∀ (xoff : Int) (k l : Nat), PosOK pos → k < l →
      ∀ a ∈ (shiftPositionsFrom xoff pos).getD k [], ∀ b ∈ (shiftPositionsFrom xoff pos).getD l [],
        a.1 < b.1 := by
  induction pos with
  | nil => intro xoff k l _ _ a ha; simp [shiftPositionsFrom] at ha
  | cons p rest ih =>
    intro xoff k l h hkl a ha b hb
    obtain ⟨⟨hnn, hd⟩, hrest⟩ := posOK_cons h
    rw [shiftPositionsFrom_cons] at ha hb
    cases l with
    | zero => omega
    | succ l =>
      rw [List.getD_cons_succ] at hb
      cases k with
      | zero =>
        rw [List.getD_cons_zero] at ha
        rcases List.mem_map.mp ha with ⟨xy, hxy, rfl⟩
        obtain ⟨q, hq, hbq⟩ := mem_getD_mem _ l b hb
        have h1 := shift_lower rest (nextOff xoff p) hrest q hq b hbq
        have h2 := (nextOff_spec xoff p hnn hd).2 xy hxy
        simp only
        omega
      | succ k =>
        rw [List.getD_cons_succ] at ha
        exact ih (nextOff xoff p) k l hrest (by omega) a ha b hb

theorem positions_apart (pos : List (List (Int × Int))) (h : PosOK pos) (k l : Nat) (hkl : k < l) :
    ∀ a ∈ (shiftPositionsFrom 0 pos).getD k [], ∀ b ∈ (shiftPositionsFrom 0 pos).getD l [], a.1 < b.1 :=
  positions_apart_from pos 0 k l h hkl

/-! zero padding -/

theorem pad_getD (a b c : Nat) (row : List α) :
    (List.replicate a (0 : α) ++ row ++ List.replicate b 0).getD c 0 =
      if a ≤ c ∧ c < a + row.length then row.getD (c - a) 0 else 0 := by
  rw [List.getD_eq_getElem?_getD, List.getD_eq_getElem?_getD]
  by_cases h1 : c < a
  · rw [List.append_assoc, List.getElem?_append_left (by simpa using h1)]
    have : ¬ (a ≤ c ∧ c < a + row.length) := by omega
    simp [this, h1]
  · rw [List.append_assoc, List.getElem?_append_right (by simp; omega)]
    simp only [List.length_replicate]
    by_cases h2 : c - a < row.length
    · have : a ≤ c ∧ c < a + row.length := by omega
      rw [List.getElem?_append_left h2]
      simp [this]
    · have : ¬ (a ≤ c ∧ c < a + row.length) := by omega
      rw [List.getElem?_append_right (by omega)]
      simp only [this, List.getElem?_replicate, if_false]
      split <;> rfl


/-! templates -/

omit [Zero α] in
theorem tmplWidth_of_ok (t : List (List (List α))) (ns nc : Nat) (h : TmplOK t ns nc) (hns : 0 < ns) :
    ((t.headD []).headD []).length = nc := by
  obtain ⟨hne, hall⟩ := h
  cases t with
  | nil => exact absurd rfl hne
  | cons tm t =>
    obtain ⟨hl, hrow⟩ := hall tm (by simp)
    cases tm with
    | nil => simp at hl; omega
    | cons row tm => simpa using hrow row (by simp)

theorem prefixSum_succ_tail (ncs : List Nat) (k : Nat) :
    prefixSum ncs (k + 1) = ncs.getD 0 0 + prefixSum ncs.tail k := by
  cases ncs <;> simp [prefixSum]

theorem getD_succ_tail (ncs : List Nat) (k : Nat) : ncs.getD (k + 1) 0 = ncs.tail.getD k 0 := by
  cases ncs <;> simp

theorem mergeTemplatesFrom_getD (total ns : Nat) (hns : 0 < ns) (ts : List (List (List (List α)))) :
    ∀ (ncs : List Nat) (j0 k t : Nat),
      (∀ k, k < ts.length → TmplOK (ts.getD k []) ns (ncs.getD k 0)) →
      k < ts.length → t < (ts.getD k []).length →
      (mergeTemplatesFrom total j0 ts).getD (prefixSum (ts.map List.length) k + t) [] =
        ((ts.getD k []).getD t []).map fun row =>
          List.replicate (j0 + prefixSum ncs k) (0 : α) ++ row ++
            List.replicate (total - (j0 + prefixSum ncs k) - ncs.getD k 0) 0 := by
  induction ts with
  | nil => intro ncs j0 k t _ hk; simp at hk
  | cons t0 rest ih =>
    intro ncs j0 k t hok hk ht
    have h0 : TmplOK t0 ns (ncs.getD 0 0) := by simpa using hok 0 (by simp)
    have hw := tmplWidth_of_ok t0 ns (ncs.getD 0 0) h0 hns
    rw [mergeTemplatesFrom]
    simp only [hw]
    cases k with
    | zero =>
      have ht' : t < t0.length := by simpa using ht
      rw [List.getD_eq_getElem?_getD, List.getD_eq_getElem?_getD]
      simp only [List.map_cons, prefixSum_zero, Nat.zero_add, List.getD_cons_zero, Nat.add_zero]
      rw [List.getElem?_append_left (by simpa using ht'), List.getElem?_map,
        List.getElem?_eq_getElem ht']
      simp [ht']
    | succ k =>
      have hk' : k < rest.length := by simpa using hk
      have ht' : t < (rest.getD k []).length := by simpa using ht
      have hok' : ∀ k, k < rest.length → TmplOK (rest.getD k []) ns (ncs.tail.getD k 0) := by
        intro k hk
        have := hok (k + 1) (by simp; omega)
        rw [getD_succ_tail] at this
        simpa using this
      have := ih ncs.tail (j0 + ncs.getD 0 0) k t hok' hk' ht'
      simp only [List.map_cons, prefixSum_cons_succ, List.getD_cons_succ]
      rw [List.getD_eq_getElem?_getD, List.getElem?_append_right (by simp; omega)]
      simp only [List.length_map]
      rw [show t0.length + prefixSum (rest.map List.length) k + t - t0.length =
        prefixSum (rest.map List.length) k + t by omega, ← List.getD_eq_getElem?_getD, this,
        prefixSum_succ_tail, getD_succ_tail,
        show j0 + ncs.getD 0 0 + prefixSum ncs.tail k = j0 + (ncs.getD 0 0 + prefixSum ncs.tail k) by omega]

/-- every merged template has as many rows as the input templates -/
theorem mergeTemplatesFrom_rows (total ns : Nat) (ts : List (List (List (List α)))) :
    ∀ (j0 : Nat), (∀ t ∈ ts, ∀ tm ∈ t, tm.length = ns) →
      ∀ x ∈ mergeTemplatesFrom total j0 ts, x.length = ns := by
  induction ts with
  | nil => intro j0 _ x hx; simp [mergeTemplatesFrom] at hx
  | cons t0 rest ih =>
    intro j0 h x hx
    rw [mergeTemplatesFrom, List.mem_append] at hx
    rcases hx with hx | hx
    · obtain ⟨tm, htm, rfl⟩ := List.mem_map.1 hx
      rw [List.length_map]
      exact h t0 (by simp) tm htm
    · exact ih _ (fun t ht => h t (List.mem_cons_of_mem _ ht)) x hx

omit [Zero α] in
theorem getD_nil_of_length_le {β : Type} (l : List (List β)) (s : Nat) (h : l.length ≤ s) :
    l.getD s [] = [] := by
  rw [List.getD_eq_getElem?_getD, List.getElem?_eq_none h]; rfl

theorem templates_block (ts : List (List (List (List α)))) (ns : Nat) (ncs : List Nat)
    (hok : ∀ k (hk : k < ts.length), TmplOK (ts[k]'hk) ns (ncs.getD k 0))
    (k t s c : Nat) (hk : k < ts.length) (ht : t < (ts[k]'hk).length) :
    get3 (mergeTemplates ts) (prefixSum (ts.map List.length) k + t) s c =
      if prefixSum ncs k ≤ c ∧ c < prefixSum ncs k + ncs.getD k 0
      then get3 (ts[k]'hk) t s (c - prefixSum ncs k) else 0 := by
  have hget : ts[k]'hk = ts.getD k [] := by simp [List.getD_eq_getElem?_getD, hk]
  have hok' : ∀ k, k < ts.length → TmplOK (ts.getD k []) ns (ncs.getD k 0) := by
    intro k hk
    have := hok k hk
    simpa [List.getD_eq_getElem?_getD, hk] using this
  rw [hget] at ht ⊢
  by_cases hs : s < ns
  · have hmain := mergeTemplatesFrom_getD ((ts.map tmplWidth).sum) ns (by omega) ts ncs 0 k t hok' hk ht
    obtain ⟨_, hall⟩ := hok' k hk
    unfold get3 mergeTemplates
    generalize ts.getD k [] = tk at ht hall hmain ⊢
    have htm : tk.getD t [] ∈ tk := by
      rw [List.getD_eq_getElem?_getD, List.getElem?_eq_getElem ht]; simp
    obtain ⟨hl, hrow⟩ := hall _ htm
    generalize tk.getD t [] = tm at hl hrow hmain ⊢
    have hs' : s < tm.length := by omega
    have hrw : tm.getD s [] ∈ tm := by
      rw [List.getD_eq_getElem?_getD, List.getElem?_eq_getElem hs']; simp
    have hrl := hrow _ hrw
    rw [hmain, List.getD_eq_getElem?_getD (l := tm.map _), List.getElem?_map,
      List.getElem?_eq_getElem hs']
    simp only [Option.map_some, Option.getD_some, Nat.zero_add]
    rw [pad_getD]
    have : tm[s] = tm.getD s [] := by simp [List.getD_eq_getElem?_getD, hs']
    rw [this, hrl]
  · -- no such sample row: both sides are zero
    have hrows : ∀ t ∈ ts, ∀ tm ∈ t, tm.length = ns := by
      intro t ht tm htm
      obtain ⟨k, hk, rfl⟩ := List.getElem_of_mem ht
      exact ((hok k hk).2 tm htm).1
    have hL : get3 (mergeTemplates ts) (prefixSum (ts.map List.length) k + t) s c = 0 := by
      unfold get3 mergeTemplates
      have : ((mergeTemplatesFrom ((ts.map tmplWidth).sum) 0 ts).getD
          (prefixSum (ts.map List.length) k + t) []).getD s [] = [] := by
        apply getD_nil_of_length_le
        rw [List.getD_eq_getElem?_getD]
        cases hx : (mergeTemplatesFrom ((ts.map tmplWidth).sum) 0 ts)[prefixSum (ts.map List.length) k + t]? with
        | none => simp
        | some x =>
          have := mergeTemplatesFrom_rows _ ns ts 0 hrows x (List.mem_of_getElem? hx)
          simp only [Option.getD_some]; omega
      rw [this]; rfl
    have hR : get3 (ts.getD k []) t s (c - prefixSum ncs k) = 0 := by
      unfold get3
      have htm : (ts.getD k []).getD t [] ∈ ts.getD k [] := by
        rw [List.getD_eq_getElem?_getD (l := ts.getD k []), List.getElem?_eq_getElem ht]; simp
      have hl := ((hok' k hk).2 _ htm).1
      rw [getD_nil_of_length_le _ s (by omega)]; rfl
    rw [hL, hR]; split <;> rfl

/-! tables -/

theorem tables_shifted (tables : List (List (List Nat))) (offsets : List Nat)
    (hlen : offsets.length = tables.length) (k r c : Nat)
    (hr : r < (tables.getD k []).length) :
    ((shiftTables tables offsets).getD (prefixSum (tables.map List.length) k + r) []).getD c 0 =
      if c < ((tables.getD k []).getD r []).length
      then ((tables.getD k []).getD r []).getD c 0 + offsets.getD k 0 else 0 := by
  have hk : k < tables.length := lt_length_of_lt_getD_length tables k r hr
  have := zipFlat_get (fun (row : List Nat) o => row.map (· + o)) tables offsets k r hlen hk hr
  have h2 : (shiftTables tables offsets).getD (prefixSum (tables.map List.length) k + r) [] =
      (((tables.getD k [])[r]?).map fun x => x.map (· + offsets.getD k 0)).getD [] := by
    rw [shiftTables, List.getD_eq_getElem?_getD, this]
  rw [h2]
  generalize tables.getD k [] = tk at hr ⊢
  rw [List.getElem?_eq_getElem hr]
  have : tk[r] = tk.getD r [] := by simp [List.getD_eq_getElem?_getD, hr]
  rw [this]
  generalize tk.getD r [] = row
  simp only [Option.map_some, Option.getD_some]
  rw [List.getD_eq_getElem?_getD, List.getD_eq_getElem?_getD, List.getElem?_map]
  by_cases h : c < row.length
  · simp [h]
  · simp [h]

/-! block diagonal -/

theorem blockDiagFrom_getD (total : Nat) (ms : List (List (List α))) :
    ∀ (j0 k i : Nat), k < ms.length → i < (ms.getD k []).length →
      (blockDiagFrom total j0 ms).getD (prefixSum (ms.map List.length) k + i) [] =
        List.replicate (j0 + prefixSum (ms.map List.length) k) (0 : α) ++ (ms.getD k []).getD i [] ++
          List.replicate (total - (j0 + prefixSum (ms.map List.length) k) - (ms.getD k []).length) 0 := by
  induction ms with
  | nil => intro j0 k i hk; simp at hk
  | cons m rest ih =>
    intro j0 k i hk hi
    rw [blockDiagFrom]
    cases k with
    | zero =>
      have hi' : i < m.length := by simpa using hi
      rw [List.getD_eq_getElem?_getD, List.getD_eq_getElem?_getD]
      simp only [List.map_cons, prefixSum_zero, Nat.zero_add, List.getD_cons_zero, Nat.add_zero]
      rw [List.getElem?_append_left (by simpa using hi'), List.getElem?_map,
        List.getElem?_eq_getElem hi']
      simp
    | succ k =>
      have hk' : k < rest.length := by simpa using hk
      have hi' : i < (rest.getD k []).length := by simpa using hi
      have := ih (j0 + m.length) k i hk' hi'
      simp only [List.map_cons, prefixSum_cons_succ, List.getD_cons_succ]
      rw [List.getD_eq_getElem?_getD, List.getElem?_append_right (by simp; omega)]
      simp only [List.length_map]
      rw [show m.length + prefixSum (rest.map List.length) k + i - m.length =
        prefixSum (rest.map List.length) k + i by omega, ← List.getD_eq_getElem?_getD, this,
        show j0 + m.length + prefixSum (rest.map List.length) k =
          j0 + (m.length + prefixSum (rest.map List.length) k) by omega]

theorem blockDiag_entries (ms : List (List (List α))) (hsq : ∀ m ∈ ms, ∀ row ∈ m, row.length = m.length)
    (k i j : Nat) (hi : i < (ms.getD k []).length) :
    get2 (blockDiag ms) (prefixSum (ms.map List.length) k + i) j =
      if prefixSum (ms.map List.length) k ≤ j ∧ j < prefixSum (ms.map List.length) k + (ms.getD k []).length
      then get2 (ms.getD k []) i (j - prefixSum (ms.map List.length) k) else 0 := by
  have hk : k < ms.length := lt_length_of_lt_getD_length ms k i hi
  have hmain := blockDiagFrom_getD ((ms.map List.length).sum) ms 0 k i hk hi
  have hm : ms.getD k [] ∈ ms := by
    rw [List.getD_eq_getElem?_getD, List.getElem?_eq_getElem hk]; simp
  have hsq' := hsq _ hm
  generalize ms.getD k [] = m at hi hmain hsq'
  have hrow : m.getD i [] ∈ m := by
    rw [List.getD_eq_getElem?_getD, List.getElem?_eq_getElem hi]; simp
  have hrl := hsq' _ hrow
  unfold get2 blockDiag
  rw [hmain, Nat.zero_add, pad_getD, hrl]

theorem params_ok (p : Nat × Nat) (rest : List (Nat × Nat)) :
    mergeParams (p :: rest) = some (p.1, p.2 + (rest.map (·.2)).sum) := by
  simp [mergeParams]

/-! index offsets (arbitrary channel maps, gaps allowed) -/

theorem chanIndexOffsetsFrom_length (maps : List (List Nat)) :
    ∀ off : Nat, (chanIndexOffsetsFrom off maps).length = maps.length := by
  induction maps with
  | nil => intro off; rfl
  | cons m rest ih => intro off; simp [chanIndexOffsetsFrom, ih]

theorem chanIndexOffsetsFrom_getD (maps : List (List Nat)) :
    ∀ (off k : Nat), k < maps.length →
      (chanIndexOffsetsFrom off maps).getD k 0 = off + prefixSum (maps.map List.length) k := by
  induction maps with
  | nil => intro off k hk; simp at hk
  | cons m rest ih =>
    intro off k hk
    cases k with
    | zero => simp [chanIndexOffsetsFrom, prefixSum_zero]
    | succ k =>
      have hk' : k < rest.length := by simpa using hk
      rw [chanIndexOffsetsFrom, List.getD_cons_succ, ih _ k hk', List.map_cons, prefixSum_cons_succ]
      omega

theorem chanIndexOffsets_eq_prefix (maps : List (List Nat)) (k : Nat) (hk : k < maps.length) :
    (chanIndexOffsets maps).getD k 0 = prefixSum (maps.map List.length) k := by
  rw [chanIndexOffsets, chanIndexOffsetsFrom_getD maps 0 k hk]; omega

theorem mergePcInd_eq_shiftTables (maps : List (List Nat)) (tables : List (List (List Nat))) :
    mergePcInd maps tables = shiftTables tables (chanIndexOffsets maps) := rfl

/-- `channels_block` without `MapsOK`: position `c` of block `k` of the merged channel arrays,
for arbitrary channel maps (the raw offset stays `chanOffsets`) -/
theorem channels_block_any (maps : List (List Nat)) (k i : Nat)
    (hi : i < (maps.getD k []).length) :
    (mergeChannelMaps maps).getD (prefixSum (maps.map List.length) k + i) 0 =
        (maps.getD k []).getD i 0 + (chanOffsets maps).getD k 0 ∧
    (channelProbes maps).getD (prefixSum (maps.map List.length) k + i) maps.length = k := by
  have hk : k < maps.length := lt_length_of_lt_getD_length maps k i hi
  have hlen : (chanOffsets maps).length = maps.length := chanOffsetsFrom_length maps 0
  have hlenr : (List.range' 0 maps.length).length = maps.length := by simp
  refine ⟨?_, ?_⟩
  · have := zipFlat_get (fun x o => x + o) maps (chanOffsets maps) k i hlen hk hi
    rw [mergeChannelMaps, List.getD_eq_getElem?_getD, this]
    generalize maps.getD k [] = row at hi ⊢
    simp [List.getD_eq_getElem?_getD, List.getElem?_eq_getElem hi]
  · have := zipFlat_get (fun (_ : Nat) o => o) maps (List.range' 0 maps.length) k i hlenr hk hi
    rw [channelProbes_eq, List.getD_eq_getElem?_getD, this, List.getElem?_eq_getElem hi]
    simp [List.getD_eq_getElem?_getD, hk]

theorem pc_ind_in_block (maps : List (List Nat)) (tables : List (List (List Nat))) (k r j : Nat)
    (hk : k < maps.length) (hlen : tables.length = maps.length)
    (hr : r < (tables.getD k []).length) (hj : j < ((tables.getD k []).getD r []).length)
    (hc : ((tables.getD k []).getD r []).getD j 0 < (maps.getD k []).length) :
    let c := ((tables.getD k []).getD r []).getD j 0
    let c' := ((mergePcInd maps tables).getD (prefixSum (tables.map List.length) k + r) []).getD j 0
    c' = prefixSum (maps.map List.length) k + c ∧
    (channelProbes maps).getD c' maps.length = k ∧
    (mergeChannelMaps maps).getD c' 0 = (maps.getD k []).getD c 0 + (chanOffsets maps).getD k 0 := by
  intro c c'
  have hlenI : (chanIndexOffsets maps).length = tables.length := by
    rw [chanIndexOffsets, chanIndexOffsetsFrom_length, hlen]
  have hc' : c' = prefixSum (maps.map List.length) k + c := by
    show ((mergePcInd maps tables).getD (prefixSum (tables.map List.length) k + r) []).getD j 0 = _
    rw [mergePcInd_eq_shiftTables, tables_shifted tables _ hlenI k r j hr, if_pos hj,
      chanIndexOffsets_eq_prefix maps k hk]
    exact Nat.add_comm _ _
  have hb := channels_block_any maps k c hc
  rw [hc']
  exact ⟨rfl, hb.2, hb.1⟩

end PhyVerif.C12.Lemmas
