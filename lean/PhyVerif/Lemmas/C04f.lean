import PhyVerif.Model.C04f
import PhyVerif.Lemmas.C04e
/-! Feature tables: the exchange of axes, and the tables against the declarative rows. -/
namespace PhyVerif.C04.Lemmas
open PhyVerif PhyVerif.C04

/-- entry `i * L + r` of the concatenation of blocks of one length `L` is entry `r` of block `i` -/
theorem flatten_uniform_getElem? {α : Type} (L : Nat) :
    ∀ (bs : List (List α)), (∀ b ∈ bs, b.length = L) → ∀ i r, r < L →
      bs.flatten[i * L + r]? = (bs[i]?).bind (·[r]?) := by
  intro bs
  induction bs with
  | nil => intro _ i r _; simp
  | cons b rest ih =>
    intro hb i r hr
    have hbl : b.length = L := hb b (by simp)
    rw [List.flatten_cons]
    cases i with
    | zero =>
      simp only [Nat.zero_mul, Nat.zero_add, List.getElem?_cons_zero, Option.bind_some]
      exact List.getElem?_append_left (by omega)
    | succ i =>
      rw [List.getElem?_append_right (by rw [hbl, Nat.succ_mul]; omega)]
      have : (i + 1) * L + r - b.length = i * L + r := by rw [hbl, Nat.succ_mul]; omega
      rw [this, ih (fun x hx => hb x (by simp [hx])) i r hr]
      simp

theorem grid_length {α : Type} (m n : Nat) (f : Nat → Nat → α) :
    (((List.range m).map fun i => (List.range n).map fun j => f i j).flatten).length = m * n := by
  rw [List.length_flatten]
  simp only [List.map_map, Function.comp_def, List.length_map, List.length_range]
  exact sum_map_const n m

/-- the exchanged axes: entry `(i, k, j)` of the result is entry `(i, j, k)` of the array -/
theorem transpose021_spec (a : Arr) (n p q : Nat) (hs : a.shape = [n, p, q]) (hl : a.data.length = n * (p * q)) :
    (transpose021 a).shape = [n, q, p] ∧ (transpose021 a).data.length = n * (q * p) ∧
    ∀ i j k, i < n → j < p → k < q →
      (transpose021 a).data[i * (q * p) + (k * p + j)]? = a.data[i * (p * q) + (j * q + k)]? := by
  unfold transpose021
  rw [hs]
  simp only
  have hblocks : ∀ b ∈ (List.range n).map (fun i =>
      ((List.range q).map fun k => (List.range p).map fun j =>
        a.data.getD (i * (p * q) + j * q + k) (Cell.num 0)).flatten), b.length = q * p := by
    intro b hb
    obtain ⟨i, -, rfl⟩ := List.mem_map.1 hb
    exact grid_length q p _
  refine ⟨trivial, ?_, ?_⟩
  · rw [List.length_flatten]
    simp only [List.map_map, Function.comp_def, grid_length]
    exact sum_map_const (q * p) n
  · intro i j k hi hj hk
    have hr : k * p + j < q * p := by
      have := Nat.mul_le_mul_right p (by omega : k + 1 ≤ q)
      rw [Nat.succ_mul] at this
      omega
    rw [flatten_uniform_getElem? (q * p) _ hblocks i (k * p + j) hr]
    simp only [List.getElem?_map, List.getElem?_range hi, Option.map_some, Option.bind_some]
    rw [flatten_const_getElem? p (fun k j => a.data.getD (i * (p * q) + j * q + k) (Cell.num 0)) q k j hk hj]
    have hidx : i * (p * q) + j * q + k < a.data.length := by
      rw [hl]
      have h1 : j * q + k < p * q := by
        have := Nat.mul_le_mul_right q (by omega : j + 1 ≤ p)
        rw [Nat.succ_mul] at this
        omega
      have h2 := Nat.mul_le_mul_right (p * q) (by omega : i + 1 ≤ n)
      rw [Nat.succ_mul] at h2
      omega
    rw [List.getD_eq_getElem?_getD, Nat.add_assoc, List.getElem?_eq_getElem (by rw [← Nat.add_assoc]; exact hidx)]
    rfl

/-- an optional table read with a shape assertion: the outcome against `Row` -/
theorem optTable_row (d : Dir) (name : String) (tr : Arr → Arr) (shape : List Nat) (what : String)
    (val : Option Arr) (h : optTable d name tr shape what = .ok val) :
    Row d [name] tr val ∧ ∀ c, val = some c → c.shape = shape := by
  unfold optTable at h
  cases hr : readFile d [name] with
  | none =>
    simp only [hr, pure, Except.pure, Except.ok.injEq] at h
    subst h
    exact ⟨.inr ⟨readFile_none d _ hr, rfl⟩, fun c hc => by cases hc⟩
  | some c =>
    simp only [hr] at h
    split at h
    · cases h
    · next hs =>
      simp only [pure, Except.pure, Except.ok.injEq] at h
      subst h
      obtain ⟨f, hw, hl⟩ := readFile_some d _ c hr
      refine ⟨.inl ⟨f, c, hw, hl, rfl⟩, ?_⟩
      intro c' hc'
      injection hc' with hc'
      subst hc'
      simpa using hs

theorem loadFeatures_some (d : Dir) (nt : Nat) (s : Sparse) (h : loadFeatures d nt = .ok (some s)) :
    ∃ a, d.lookup "pc_features.npy" = some a ∧ (feat3 a).shape.length = 3 ∧
      s.data = transpose021 (feat3 a) ∧
      Row d ["pc_feature_ind.npy"] featCols s.cols ∧
      (∀ c, s.cols = some c → c.shape = [nt, (s.data.shape.drop 1).headD 0]) ∧
      Row d ["pc_feature_spike_ids.npy"] (fun r => squeeze (scrub r)) s.rows ∧
      (∀ r, s.rows = some r → r.shape = [s.data.shape.headD 0]) := by
  unfold loadFeatures at h
  rw [readFile_exact d "pc_features.npy" (by decide)] at h
  cases ha : d.lookup "pc_features.npy" with
  | none => simp [ha, pure, Except.pure] at h
  | some a =>
    simp only [ha] at h
    split at h
    · cases h
    · next h3 =>
      simp only [bind, Except.bind] at h
      split at h
      · cases h
      · next cols hc =>
        split at h
        · cases h
        · next rows hrw =>
          simp only [pure, Except.pure, Except.ok.injEq, Option.some.injEq] at h
          subst h
          obtain ⟨c1, c2⟩ := optTable_row d _ _ _ _ cols hc
          obtain ⟨r1, r2⟩ := optTable_row d _ _ _ _ rows hrw
          exact ⟨a, rfl, by simpa using h3, rfl, c1, c2, r1, r2⟩

/-- the shown features by ENTRIES, for a stored `(n, p, q)` array without size-1 dimensions -/
theorem loadFeatures_entries (d : Dir) (nt : Nat) (s : Sparse) (h : loadFeatures d nt = .ok (some s))
    (a : Arr) (ha : d.lookup "pc_features.npy" = some a) (n p q : Nat) (hs : a.shape = [n, p, q])
    (hn : n ≠ 1) (hp : p ≠ 1) (hq : q ≠ 1) (hl : a.data.length = n * (p * q)) :
    s.data.shape = [n, q, p] ∧
    ∀ i j k, i < n → j < p → k < q →
      s.data.data[i * (q * p) + (k * p + j)]? = a.data[i * (p * q) + (j * q + k)]? := by
  obtain ⟨a', ha', -, hd, -⟩ := loadFeatures_some d nt s h
  rw [ha] at ha'
  injection ha' with ha'
  subst ha'
  have hsq : squeeze a = a := by
    cases a with
    | mk sh da =>
      simp only at hs
      subst hs
      simp [squeeze, hn, hp, hq]
  have hf : feat3 a = a := by
    simp [feat3, hsq, hs]
  rw [hd, hf]
  obtain ⟨h1, -, h3⟩ := transpose021_spec a n p q hs hl
  exact ⟨h1, h3⟩

theorem loadFeatures_none (d : Dir) (nt : Nat) (h : loadFeatures d nt = .ok none) :
    "pc_features.npy" ∉ names d := by
  unfold loadFeatures at h
  rw [readFile_exact d "pc_features.npy" (by decide)] at h
  cases ha : d.lookup "pc_features.npy" with
  | none => exact not_mem_of_lookup_none d _ ha
  | some a =>
    exfalso
    simp only [ha] at h
    split at h
    · cases h
    · simp only [bind, Except.bind] at h
      split at h
      · cases h
      · split at h
        · cases h
        · cases h

theorem loadTemplateFeatures_some (d : Dir) (nt : Nat) (s : Sparse)
    (h : loadTemplateFeatures d nt = .ok (some s)) :
    ∃ a, d.lookup "template_features.npy" = some a ∧ (squeeze a).shape.length = 2 ∧
      s.data = squeeze a ∧
      Row d ["template_feature_ind.npy"] (fun c => squeeze (scrub c)) s.cols ∧
      (∀ c, s.cols = some c → c.shape = [nt, (s.data.shape.drop 1).headD 0]) ∧
      Row d ["template_feature_spike_ids.npy"] (fun r => squeeze (scrub r)) s.rows ∧
      (∀ r, s.rows = some r → r.shape = [s.data.shape.headD 0]) := by
  unfold loadTemplateFeatures at h
  rw [readFile_exact d "template_features.npy" (by decide)] at h
  cases ha : d.lookup "template_features.npy" with
  | none => simp [ha, pure, Except.pure] at h
  | some a =>
    simp only [ha] at h
    split at h
    · cases h
    · next h3 =>
      simp only [bind, Except.bind] at h
      split at h
      · cases h
      · next cols hc =>
        split at h
        · cases h
        · next rows hrw =>
          simp only [pure, Except.pure, Except.ok.injEq, Option.some.injEq] at h
          subst h
          obtain ⟨c1, c2⟩ := optTable_row d _ _ _ _ cols hc
          obtain ⟨r1, r2⟩ := optTable_row d _ _ _ _ rows hrw
          exact ⟨a, rfl, by simpa using h3, rfl, c1, c2, r1, r2⟩

/-- the files the loader creates do not change the feature tables -/
theorem readFile_features_frame (inv : Arr → Arr) {one : Cell} (d : Dir) (v : View) (d' : Dir) (h : load inv d one = .ok (v, d'))
    (name : String) (hn : ∀ g ∈ createdNames, globMatch name g = false) :
    readFile d' [name] = readFile d [name] := by
  obtain ⟨_, _, _, _, _, _, -, hd, -⟩ := load_nf inv d v d' h
  rw [hd]
  exact readFile_d2 inv d [name] _ (by simpa using hn)

end PhyVerif.C04.Lemmas
