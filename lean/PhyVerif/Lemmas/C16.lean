import PhyVerif.Model.C16
import PhyVerif.Spec.C16
/-! Helper lemmas and full proofs for C16. The property statements are in `Props/C16.lean`. -/
namespace PhyVerif.C16.Lemmas
open PhyVerif.C16

theorem kept_append {α : Type} (data : List α) (a b : List Chunk) :
    kept data (a ++ b) = kept data a ++ kept data b := by
  simp [kept]

theorem take_extend {α : Type} (data : List α) (a b : Int) (ha : 0 ≤ a) (hab : a ≤ b) :
    data.take a.toNat ++ pySlice data a b = data.take b.toNat := by
  unfold pySlice
  have h : b.toNat = a.toNat + (b.toNat - a.toNat) := by omega
  conv => rhs; rw [h, List.take_add]

theorem loop_inv {α : Type} (data : List α) (n cs ov : Int) (hcs : 0 < cs) (hov0 : 0 ≤ ov) (hov : ov < cs) :
    ∀ (fuel : Nat) (sEnd keepEnd : Int) (acc : List Chunk),
      kept data acc = data.take keepEnd.toNat → 0 ≤ keepEnd → keepEnd = sEnd - ov / 2 →
      let r := loopCB n cs ov fuel sEnd keepEnd acc
      kept data r.2.2 = data.take r.2.1.toNat ∧ 0 ≤ r.2.1 ∧ r.2.1 = r.1 - ov / 2 ∧
        (fuel ≥ (n - sEnd).toNat → ¬ (r.1 - ov + cs < n)) := by
  intro fuel
  induction fuel with
  | zero =>
    intro sEnd keepEnd acc h1 h2 h3
    simp only [loopCB]
    refine ⟨h1, h2, h3, ?_⟩
    intro hf; omega
  | succ k ih =>
    intro sEnd keepEnd acc h1 h2 h3
    simp only [loopCB]
    split
    · rename_i hlt
      have hse : sEnd - ov < sEnd - ov + cs := by omega
      simp only [hse, if_true]
      have := ih (sEnd - ov + cs) (sEnd - ov + cs - ov / 2)
        (acc ++ [⟨sEnd - ov, sEnd - ov + cs, keepEnd, sEnd - ov + cs - ov / 2⟩])
        (by
          rw [kept_append, h1]
          simp only [kept, List.map_cons, List.map_nil, List.flatten_cons, List.flatten_nil, List.append_nil]
          exact take_extend data _ _ h2 (by omega))
        (by omega) rfl
      obtain ⟨a, b, c, d⟩ := this
      refine ⟨a, b, c, ?_⟩
      intro hf
      apply d
      omega
    · rename_i hge
      refine ⟨h1, h2, h3, ?_⟩
      intro _; exact hge

theorem chunkBounds_tile {α : Type} (data : List α) (cs ov : Int) (hcs : 0 < cs) (hov0 : 0 ≤ ov) (hov : ov < cs) :
    kept data (chunkBounds (data.length : Int) cs ov) = data := by
  unfold chunkBounds
  simp only []
  have hinit : kept data [(⟨0, cs, 0, cs - ov / 2⟩ : Chunk)] = data.take (cs - ov / 2).toNat := by
    simp [kept, pySlice]
  have := loop_inv data (data.length : Int) cs ov hcs hov0 hov (data.length : Int).toNat cs (cs - ov / 2)
    [⟨0, cs, 0, cs - ov / 2⟩] hinit (by omega) rfl
  simp only at this
  generalize loopCB (↑data.length) cs ov (↑data.length : Int).toNat cs (cs - ov / 2) [⟨0, cs, 0, cs - ov / 2⟩] = r at this ⊢
  obtain ⟨sEnd, keepEnd, acc⟩ := r
  simp only at this ⊢
  obtain ⟨h1, h2, h3, h4⟩ := this
  split
  · rw [kept_append, h1]
    simp only [kept, List.map_cons, List.map_nil, List.flatten_cons, List.flatten_nil, List.append_nil]
    by_cases hk : keepEnd ≤ (data.length : Int)
    · rw [take_extend data _ _ h2 hk]; simp
    · have : data.length ≤ keepEnd.toNat := by omega
      rw [List.take_of_length_le this]
      simp [pySlice]; omega
  · rename_i hs
    rw [h1]
    apply List.take_of_length_le
    omega

theorem chunkBounds_tileOK (n cs ov : Nat) (hcs : 0 < cs) (hov : ov < cs) :
    tileOK n cs (chunkBounds n cs ov) = true := by
  sorry

theorem getChunkBounds_ok (sizes : List Nat) (cs : Nat) (hcs : 0 < cs) (hne : sizes ≠ []) :
    boundsOK sizes cs (getChunkBounds sizes cs) = true := by
  sorry

theorem iterChunksBase_tile (b : List Nat) (n : Nat) (h0 : b.head? = some 0)
    (hl : b.getLast? = some n) (hs : strictInc b = true) :
    intervalsTile n (iterChunksBase b) = true := by
  sorry

theorem reader_iter_tile (sizes : List Nat) (cs : Nat) (hcs : 0 < cs) (hne : sizes ≠ []) :
    intervalsTile sizes.sum (iterChunksBase (getChunkBounds sizes cs)) = true := by
  sorry

theorem iterChunksMts_tile (bs : Nat) (hbs : 0 < bs) (cb : List Nat) (n : Nat)
    (h0 : cb.head? = some 0) (hl : cb.getLast? = some n) (hs : strictInc cb = true)
    (hlen : 2 ≤ cb.length) :
    intervalsTile n (iterChunksMts bs cb) = true := by
  sorry

theorem excerpts_ok (n k size : Int) (hn : 0 ≤ n) (hk : 2 ≤ k) (hs : 0 ≤ size) :
    excerptsOK n k size (excerpts n k size) = true := by
  sorry

theorem getExcerpts_short {α : Type} (data : List α) (k size : Nat)
    (h : data.length < k * size) : getExcerpts data k size = data := by
  simp [getExcerpts, h]

theorem getExcerpts_sublist {α : Type} (data : List α) (k size : Nat) (hs : 0 < size)
    (hlen : k * size ≤ data.length) :
    (getExcerpts data k size).Sublist data ∧ (getExcerpts data k size).length ≤ k * size := by
  sorry

end PhyVerif.C16.Lemmas
