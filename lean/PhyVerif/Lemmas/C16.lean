import PhyVerif.Model.C16
import PhyVerif.Spec.C16
/-! Helper lemmas and full proofs for C16. The property statements are in `Props/C16.lean`. -/
namespace PhyVerif.C16.Lemmas
open PhyVerif.C16

theorem kept_append {α : Type} (data : List α) (a b : List Chunk) :
    kept data (a ++ b) = kept data a ++ kept data b := by
  simp [kept]

theorem take_extend {α : Type} (data : List α) (a b : Int) (ha : 0 ≤ a) (hab : a ≤ b) :
    data.take a.toNat ++ pySlice data a b = data.take b.toNat := by
  unfold pySlice
  have h : b.toNat = a.toNat + (b.toNat - a.toNat) := by omega
  conv => rhs; rw [h, List.take_add]

theorem loop_inv {α : Type} (data : List α) (n cs ov : Int) (hcs : 0 < cs) (hov0 : 0 ≤ ov) (hov : ov < cs) :
    ∀ (fuel : Nat) (sEnd keepEnd : Int) (acc : List Chunk),
      kept data acc = data.take keepEnd.toNat → 0 ≤ keepEnd → keepEnd = sEnd - ov / 2 →
      let r := loopCB n cs ov fuel sEnd keepEnd acc
      kept data r.2.2 = data.take r.2.1.toNat ∧ 0 ≤ r.2.1 ∧ r.2.1 = r.1 - ov / 2 ∧
        (fuel ≥ (n - sEnd).toNat → ¬ (r.1 - ov + cs < n)) := by
  intro fuel
  induction fuel with
  | zero =>
    intro sEnd keepEnd acc h1 h2 h3
    simp only [loopCB]
    refine ⟨h1, h2, h3, ?_⟩
    intro hf; omega
  | succ k ih =>
    intro sEnd keepEnd acc h1 h2 h3
    simp only [loopCB]
    split
    · rename_i hlt
      have hse : sEnd - ov < sEnd - ov + cs := by omega
      simp only [hse, if_true]
      have := ih (sEnd - ov + cs) (sEnd - ov + cs - ov / 2)
        (acc ++ [⟨sEnd - ov, sEnd - ov + cs, keepEnd, sEnd - ov + cs - ov / 2⟩])
        (by
          rw [kept_append, h1]
          simp only [kept, List.map_cons, List.map_nil, List.flatten_cons, List.flatten_nil, List.append_nil]
          exact take_extend data _ _ h2 (by omega))
        (by omega) rfl
      obtain ⟨a, b, c, d⟩ := this
      refine ⟨a, b, c, ?_⟩
      intro hf
      apply d
      omega
    · rename_i hge
      refine ⟨h1, h2, h3, ?_⟩
      intro _; exact hge

theorem chunkBounds_tile {α : Type} (data : List α) (cs ov : Int) (hcs : 0 < cs) (hov0 : 0 ≤ ov) (hov : ov < cs) :
    kept data (chunkBounds (data.length : Int) cs ov) = data := by
  unfold chunkBounds
  simp only []
  have hinit : kept data [(⟨0, cs, 0, cs - ov / 2⟩ : Chunk)] = data.take (cs - ov / 2).toNat := by
    simp [kept, pySlice]
  have := loop_inv data (data.length : Int) cs ov hcs hov0 hov (data.length : Int).toNat cs (cs - ov / 2)
    [⟨0, cs, 0, cs - ov / 2⟩] hinit (by omega) rfl
  simp only at this
  generalize loopCB (↑data.length) cs ov (↑data.length : Int).toNat cs (cs - ov / 2) [⟨0, cs, 0, cs - ov / 2⟩] = r at this ⊢
  obtain ⟨sEnd, keepEnd, acc⟩ := r
  simp only at this ⊢
  obtain ⟨h1, h2, h3, h4⟩ := this
  split
  · rw [kept_append, h1]
    simp only [kept, List.map_cons, List.map_nil, List.flatten_cons, List.flatten_nil, List.append_nil]
    by_cases hk : keepEnd ≤ (data.length : Int)
    · rw [take_extend data _ _ h2 hk]; simp
    · have : data.length ≤ keepEnd.toNat := by omega
      rw [List.take_of_length_le this]
      simp [pySlice]; omega
  · rename_i hs
    rw [h1]
    apply List.take_of_length_le
    omega

def ChunkGood (cs : Int) (c : Chunk) : Prop :=
  0 ≤ c.s ∧ c.s ≤ c.ks ∧ c.ke ≤ c.e ∧ c.e - c.s ≤ cs

theorem chunkGood_test (n cs : Nat) (c : Chunk) (h : ChunkGood cs c) :
    (ivSubset (clampIv n c.ks c.ke) (clampIv n c.s c.e) &&
      decide ((clampIv n c.s c.e).2 - (clampIv n c.s c.e).1 ≤ cs)) = true := by
  obtain ⟨h1, h2, h3, h4⟩ := h
  simp only [ivSubset, Bool.and_eq_true, Bool.or_eq_true, beq_iff_eq, decide_eq_true_eq]
  simp only [clampIv]
  omega

theorem loop_good (n cs ov : Int) (hcs : 0 < cs) (hov0 : 0 ≤ ov) (hov : ov < cs) :
    ∀ (fuel : Nat) (sEnd keepEnd : Int) (acc : List Chunk),
      (∀ c ∈ acc, ChunkGood cs c) → cs ≤ sEnd → keepEnd = sEnd - ov / 2 →
      let r := loopCB n cs ov fuel sEnd keepEnd acc
      (∀ c ∈ r.2.2, ChunkGood cs c) ∧ cs ≤ r.1 ∧ r.2.1 = r.1 - ov / 2 ∧
        (fuel ≥ (n - sEnd).toNat → ¬ (r.1 - ov + cs < n)) := by
  intro fuel
  induction fuel with
  | zero =>
    intro sEnd keepEnd acc h1 h2 h3
    simp only [loopCB]
    refine ⟨h1, h2, h3, ?_⟩
    intro hf; omega
  | succ k ih =>
    intro sEnd keepEnd acc h1 h2 h3
    simp only [loopCB]
    split
    · rename_i hlt
      have hse : sEnd - ov < sEnd - ov + cs := by omega
      simp only [hse, if_true]
      have := ih (sEnd - ov + cs) (sEnd - ov + cs - ov / 2)
        (acc ++ [⟨sEnd - ov, sEnd - ov + cs, keepEnd, sEnd - ov + cs - ov / 2⟩])
        (by
          intro c hc
          rcases List.mem_append.1 hc with hc | hc
          · exact h1 c hc
          · have : c = ⟨sEnd - ov, sEnd - ov + cs, keepEnd, sEnd - ov + cs - ov / 2⟩ := by simpa using hc
            subst this
            simp only [ChunkGood]
            omega)
        (by omega) rfl
      obtain ⟨a, b, c, d⟩ := this
      refine ⟨a, b, c, ?_⟩
      intro hf
      apply d
      omega
    · rename_i hge
      refine ⟨h1, h2, h3, ?_⟩
      intro _; exact hge

theorem chunkBounds_tileOK (n cs ov : Nat) (hcs : 0 < cs) (hov : ov < cs) :
    tileOK n cs (chunkBounds n cs ov) = true := by
  unfold tileOK
  rw [Bool.and_eq_true]
  constructor
  · have h := chunkBounds_tile (List.range n) (cs : Int) (ov : Int) (by omega) (by omega) (by omega)
    rw [List.length_range] at h
    rw [h]; simp
  · rw [List.all_eq_true]
    intro c hc
    apply chunkGood_test
    revert c
    unfold chunkBounds
    simp only []
    have := loop_good (n : Int) cs ov (by omega) (by omega) (by omega) (n : Int).toNat cs (cs - ov / 2)
      [⟨0, cs, 0, cs - ov / 2⟩]
      (by
        intro c hc
        have : c = ⟨0, cs, 0, (cs:Int) - ov / 2⟩ := by simpa using hc
        subst this
        simp only [ChunkGood]
        omega) (by omega) rfl
    simp only at this
    generalize loopCB (n : Int) cs ov (n : Int).toNat cs (cs - ov / 2) [⟨0, cs, 0, cs - ov / 2⟩] = r at this ⊢
    obtain ⟨sEnd, keepEnd, acc⟩ := r
    simp only at this ⊢
    obtain ⟨h1, h2, h3, h4⟩ := this
    split
    · intro c hc
      rcases List.mem_append.1 hc with hc | hc
      · exact h1 c hc
      · have : c = ⟨sEnd - ov, n, keepEnd, n⟩ := by simpa using hc
        subst this
        simp only [ChunkGood]
        omega
    · exact h1

/-- arithmetic progression `a, a+step, …` with `k` elements -/
def ap (step : Nat) : Nat → Nat → List Nat
  | _, 0 => []
  | a, k+1 => a :: ap step (a + step) k

theorem map_range_ap (step : Nat) : ∀ (k a : Nat),
    (List.range k).map (fun i => a + i * step) = ap step a k := by
  intro k
  induction k with
  | zero => intro a; simp [ap]
  | succ k ih =>
    intro a
    rw [List.range_succ_eq_map, List.map_cons, List.map_map, ap, ← ih (a + step)]
    congr 1
    · simp
    · apply List.map_congr_left
      intro i _
      simp only [Function.comp, Nat.succ_eq_add_one, Nat.add_mul, Nat.one_mul]
      omega

theorem pyRange_eq_ap (n size cs : Nat) (hcs : 0 < cs) :
    pyRange n (n + size + 1) cs = n :: ap cs (n + cs) (size / cs) := by
  unfold pyRange
  rw [map_range_ap]
  have : (n + size + 1 - n + cs - 1) / cs = size / cs + 1 := by
    have : n + size + 1 - n + cs - 1 = size + cs := by omega
    rw [this, Nat.add_div_right _ hcs]
  rw [this, ap]

theorem ap_strictInc (cs : Nat) (hcs : 0 < cs) : ∀ k a, strictInc (ap cs a k) = true := by
  intro k
  induction k with
  | zero => intro a; simp [ap, strictInc]
  | succ k ih =>
    intro a
    cases k with
    | zero => simp [ap, strictInc]
    | succ k =>
      have := ih (a + cs)
      simp only [ap] at this ⊢
      simp only [strictInc, Bool.and_eq_true, decide_eq_true_eq]
      exact ⟨by omega, this⟩

theorem ap_gapsLe (cs : Nat) : ∀ k a, gapsLe cs (ap cs a k) = true := by
  intro k
  induction k with
  | zero => intro a; simp [ap, gapsLe]
  | succ k ih =>
    intro a
    cases k with
    | zero => simp [ap, gapsLe]
    | succ k =>
      have := ih (a + cs)
      simp only [ap] at this ⊢
      simp only [gapsLe, Bool.and_eq_true, decide_eq_true_eq]
      exact ⟨by omega, this⟩

theorem ap_getLast (cs : Nat) : ∀ k a, (ap cs a (k+1)).getLast? = some (a + k * cs) := by
  intro k
  induction k with
  | zero => intro a; simp [ap]
  | succ k ih =>
    intro a
    have := ih (a + cs)
    rw [ap]
    simp only [ap] at this ⊢
    rw [List.getLast?_cons_cons, this]
    simp only [Nat.add_mul, Nat.one_mul, Option.some.injEq]
    omega

theorem strictInc_append : ∀ (b ext : List Nat) (n : Nat), strictInc b = true →
    b.getLast? = some n → strictInc (n :: ext) = true → strictInc (b ++ ext) = true := by
  intro b
  induction b with
  | nil => intro ext n _ h; simp at h
  | cons x t ih =>
    intro ext n hs hl he
    cases t with
    | nil =>
      simp only [List.getLast?_singleton, Option.some.injEq] at hl
      subst hl; exact he
    | cons y t' =>
      simp only [strictInc, Bool.and_eq_true, decide_eq_true_eq] at hs
      rw [List.getLast?_cons_cons] at hl
      have := ih ext n hs.2 hl he
      simp only [List.cons_append] at this ⊢
      simp only [strictInc, Bool.and_eq_true, decide_eq_true_eq]
      exact ⟨hs.1, this⟩

theorem gapsLe_append (cs : Nat) : ∀ (b ext : List Nat) (n : Nat), gapsLe cs b = true →
    b.getLast? = some n → gapsLe cs (n :: ext) = true → gapsLe cs (b ++ ext) = true := by
  intro b
  induction b with
  | nil => intro ext n _ h; simp at h
  | cons x t ih =>
    intro ext n hs hl he
    cases t with
    | nil =>
      simp only [List.getLast?_singleton, Option.some.injEq] at hl
      subst hl; exact he
    | cons y t' =>
      simp only [gapsLe, Bool.and_eq_true, decide_eq_true_eq] at hs
      rw [List.getLast?_cons_cons] at hl
      have := ih ext n hs.2 hl he
      simp only [List.cons_append] at this ⊢
      simp only [gapsLe, Bool.and_eq_true, decide_eq_true_eq]
      exact ⟨hs.1, this⟩

theorem getLast?_append_of (b ext : List Nat) (n : Nat) (hl : b.getLast? = some n) :
    (b ++ ext).getLast? = (n :: ext).getLast? := by
  cases ext with
  | nil => simp [hl]
  | cons e t => simp [List.getLast?_append, List.getLast?_cons]

/-- what one loop iteration of `_get_chunk_bounds` appends -/
theorem gcbStep_spec (cs : Nat) (hcs : 0 < cs) (b : List Nat) (n size : Nat)
    (hb : b = [] ∨ b.getLast? = some n) :
    ∃ ext, gcbStep cs (b, n) size = ((if b = [] then [n] else b) ++ ext, n + size) ∧
      strictInc (n :: ext) = true ∧ gapsLe cs (n :: ext) = true ∧
      (n :: ext).getLast? = some (n + size) := by
  have hm : size / cs * cs ≤ size := Nat.div_mul_le_self size cs
  have hm2 : size < size / cs * cs + cs := by
    have := Nat.lt_div_mul_add (a := size) hcs
    omega
  generalize hmd : size / cs = m at hm hm2
  have hlastT : (n :: ap cs (n + cs) m).getLast? = some (n + m * cs) := ap_getLast cs m n
  have hsT : strictInc (n :: ap cs (n + cs) m) = true := ap_strictInc cs hcs (m+1) n
  have hgT : gapsLe cs (n :: ap cs (n + cs) m) = true := ap_gapsLe cs (m+1) n
  generalize ht : ap cs (n + cs) m = t at hlastT hsT hgT
  -- state after appending the range part
  have hb' : (if b = [] then [n] else b).getLast? = some n := by
    rcases hb with hb | hb
    · simp [hb]
    · have : b ≠ [] := by intro h; simp [h] at hb
      simp [this, hb]
  have hstep : gcbStep cs (b, n) size =
      (if ((if b = [] then [n] else b) ++ t).getLast? != some (n + size)
        then ((if b = [] then [n] else b) ++ t) ++ [n + size]
        else ((if b = [] then [n] else b) ++ t), n + size) := by
    simp only [gcbStep]
    rw [pyRange_eq_ap n size cs hcs, hmd, ht]
    rcases hb with hb | hb
    · subst hb
      simp
    · have : b ≠ [] := by intro h; simp [h] at hb
      simp [this, hb]
  rw [getLast?_append_of _ t n hb', hlastT] at hstep
  by_cases hsz : m * cs = size
  · refine ⟨t, ?_, hsT, hgT, ?_⟩
    · rw [hstep]; simp [hsz]
    · rw [hlastT, hsz]
  · refine ⟨t ++ [n + size], ?_, ?_, ?_, ?_⟩
    · rw [hstep]
      have : (some (n + m * cs) != some (n + size)) = true := by
        simp only [bne_iff_ne, ne_eq, Option.some.injEq]; omega
      simp [this]
    · have := strictInc_append (n :: t) [n + size] (n + m * cs) hsT hlastT (by
        simp [strictInc]; omega)
      simpa using this
    · have := gapsLe_append cs (n :: t) [n + size] (n + m * cs) hgT hlastT (by
        simp [gapsLe]; omega)
      simpa using this
    · rw [← List.cons_append, List.getLast?_append]; simp

def GInv (cs : Nat) (b : List Nat) (n : Nat) : Prop :=
  b.head? = some 0 ∧ b.getLast? = some n ∧ strictInc b = true ∧ gapsLe cs b = true

theorem gcbStep_inv (cs : Nat) (hcs : 0 < cs) (b : List Nat) (n size : Nat) (h : GInv cs b n) :
    ∃ b', gcbStep cs (b, n) size = (b', n + size) ∧ GInv cs b' (n + size) ∧ ∀ x ∈ b, x ∈ b' := by
  obtain ⟨h0, hl, hs, hg⟩ := h
  have hne : b ≠ [] := by intro h; simp [h] at hl
  obtain ⟨ext, he, hse, hge, hle⟩ := gcbStep_spec cs hcs b n size (Or.inr hl)
  simp only [hne, if_false] at he
  refine ⟨b ++ ext, he, ⟨?_, ?_, ?_, ?_⟩, ?_⟩
  · cases b with
    | nil => exact absurd rfl hne
    | cons x t => simpa using h0
  · rw [getLast?_append_of b ext n hl, hle]
  · exact strictInc_append b ext n hs hl hse
  · exact gapsLe_append cs b ext n hg hl hge
  · intro x hx; exact List.mem_append_left _ hx

theorem gcbStep_init (cs : Nat) (hcs : 0 < cs) (size : Nat) :
    ∃ b', gcbStep cs ([], 0) size = (b', size) ∧ GInv cs b' size := by
  obtain ⟨ext, he, hse, hge, hle⟩ := gcbStep_spec cs hcs [] 0 size (Or.inl rfl)
  simp only [if_true, Nat.zero_add, List.singleton_append] at he hle
  exact ⟨0 :: ext, he, rfl, hle, hse, hge⟩

theorem fold_inv (cs : Nat) (hcs : 0 < cs) : ∀ (sizes : List Nat) (b : List Nat) (n : Nat),
    GInv cs b n →
    ∃ b', sizes.foldl (gcbStep cs) (b, n) = (b', n + sizes.sum) ∧ GInv cs b' (n + sizes.sum) ∧
      (∀ x ∈ b, x ∈ b') ∧ ∀ p ∈ partBoundsFrom n sizes, p ∈ b' := by
  intro sizes
  induction sizes with
  | nil =>
    intro b n h
    refine ⟨b, by simp, by simpa using h, fun x hx => hx, ?_⟩
    intro p hp
    simp only [partBoundsFrom, List.mem_singleton] at hp
    subst hp
    exact List.mem_of_getLast? h.2.1
  | cons s rest ih =>
    intro b n h
    obtain ⟨b1, e1, i1, m1⟩ := gcbStep_inv cs hcs b n s h
    obtain ⟨b2, e2, i2, m2, p2⟩ := ih b1 (n + s) i1
    have hsum : n + (s :: rest).sum = n + s + rest.sum := by simp [Nat.add_assoc]
    refine ⟨b2, ?_, ?_, fun x hx => m2 x (m1 x hx), ?_⟩
    · rw [List.foldl_cons, e1, e2, hsum]
    · rw [hsum]; exact i2
    · intro p hp
      simp only [partBoundsFrom, List.mem_cons] at hp
      rcases hp with hp | hp
      · subst hp; exact m2 _ (m1 _ (List.mem_of_getLast? h.2.1))
      · exact p2 p hp

theorem getChunkBounds_ok (sizes : List Nat) (cs : Nat) (hcs : 0 < cs) (hne : sizes ≠ []) :
    boundsOK sizes cs (getChunkBounds sizes cs) = true := by
  cases sizes with
  | nil => exact absurd rfl hne
  | cons s rest =>
    obtain ⟨b1, e1, i1⟩ := gcbStep_init cs hcs s
    obtain ⟨b2, e2, ⟨h0, hl, hs, hg⟩, m2, p2⟩ := fold_inv cs hcs rest b1 s i1
    have hb : getChunkBounds (s :: rest) cs = b2 := by
      simp only [getChunkBounds, List.foldl_cons, e1, e2]
    rw [hb]
    simp only [boundsOK, Bool.and_eq_true, List.all_eq_true, List.contains_iff_mem]
    refine ⟨⟨⟨⟨?_, ?_⟩, hs⟩, ?_⟩, hg⟩
    · simp [h0]
    · simp [hl]
    · intro p hp
      simp only [partBounds, partBoundsFrom, List.mem_cons, Nat.zero_add] at hp
      rcases hp with hp | hp
      · subst hp
        have : (0 : Nat) ∈ b1 := List.mem_of_head? i1.1
        exact m2 _ this
      · exact p2 p hp

theorem chain_base (b : List Nat) (n : Nat) : ∀ a, b.head? = some a →
    b.getLast? = some n → strictInc b = true → chainFrom a (b.zip b.tail) = some n := by
  induction b with
  | nil => intro a h; simp at h
  | cons x t ih =>
    intro a h0 hl hs
    simp only [List.head?_cons, Option.some.injEq] at h0
    subst h0
    cases t with
    | nil =>
      simp only [List.getLast?_singleton, Option.some.injEq] at hl
      simp [chainFrom, hl]
    | cons y t' =>
      simp only [strictInc, Bool.and_eq_true, decide_eq_true_eq] at hs
      rw [List.getLast?_cons_cons] at hl
      have := ih y rfl hl hs.2
      simp only [List.tail_cons, List.zip_cons_cons, chainFrom]
      have hne : (x == y) = false := by simp; omega
      simp only [hne, Bool.false_eq_true, if_false, beq_self_eq_true, Bool.true_and, decide_eq_true_eq, hs.1, if_true]
      simpa using this

theorem iterChunksBase_tile (b : List Nat) (n : Nat) (h0 : b.head? = some 0)
    (hl : b.getLast? = some n) (hs : strictInc b = true) :
    intervalsTile n (iterChunksBase b) = true := by
  unfold intervalsTile iterChunksBase
  rw [chain_base b n 0 h0 hl hs]; simp

theorem reader_iter_tile (sizes : List Nat) (cs : Nat) (hcs : 0 < cs) (hne : sizes ≠ []) :
    intervalsTile sizes.sum (iterChunksBase (getChunkBounds sizes cs)) = true := by
  have h := getChunkBounds_ok sizes cs hcs hne
  simp only [boundsOK, Bool.and_eq_true, beq_iff_eq] at h
  obtain ⟨⟨⟨⟨h0, hl⟩, hs⟩, _⟩, _⟩ := h
  exact iterChunksBase_tile _ _ h0 hl hs

theorem chainFrom_append : ∀ (l1 l2 : List (Nat × Nat)) (cur : Nat),
    chainFrom cur (l1 ++ l2) = (chainFrom cur l1).bind (fun c => chainFrom c l2) := by
  intro l1
  induction l1 with
  | nil => intro l2 cur; simp [chainFrom]
  | cons p t ih =>
    intro l2 cur
    obtain ⟨a, b⟩ := p
    simp only [List.cons_append, chainFrom]
    split
    · exact ih l2 cur
    · split
      · exact ih l2 b
      · rfl

/-- mapping an index-level chain through a function that is strictly increasing on `[0, nc]` -/
theorem chainFrom_map (f : Nat → Nat) (nc : Nat) (hf : ∀ i j, i < j → j ≤ nc → f i < f j) :
    ∀ (l : List (Nat × Nat)) (cur fin : Nat), chainFrom cur l = some fin →
      (∀ p ∈ l, p.1 ≤ nc ∧ p.2 ≤ nc) →
      chainFrom (f cur) (l.map (fun p => (f p.1, f p.2))) = some (f fin) := by
  intro l
  induction l with
  | nil => intro cur fin h _; simp [chainFrom] at h ⊢; exact congrArg f h
  | cons p t ih =>
    intro cur fin h hb
    obtain ⟨a, b⟩ := p
    have hab := hb (a, b) (List.mem_cons_self)
    have ht : ∀ p ∈ t, p.1 ≤ nc ∧ p.2 ≤ nc := fun p hp => hb p (List.mem_cons_of_mem _ hp)
    simp only [chainFrom, List.map_cons] at h ⊢
    by_cases e : a = b
    · subst e
      simp only [beq_self_eq_true, if_true] at h ⊢
      exact ih cur fin h ht
    · have e1 : (a == b) = false := by simpa using e
      simp only [e1, Bool.false_eq_true, if_false] at h
      by_cases c : (a == cur && decide (a < b)) = true
      · simp only [c, if_true] at h
        simp only [Bool.and_eq_true, beq_iff_eq, decide_eq_true_eq] at c
        obtain ⟨c1, c2⟩ := c
        subst c1
        have hlt := hf a b c2 hab.2
        have e2 : (f a == f b) = false := by simp; omega
        simp only [e2, Bool.false_eq_true, if_false, beq_self_eq_true, Bool.true_and, decide_eq_true_eq, hlt, if_true]
        exact ih b fin h ht
      · simp only [c] at h
        exact absurd h (by simp)

theorem nBatches_facts (bs nc : Nat) (hbs : 0 < bs) (hnc : 1 ≤ nc) :
    1 ≤ nBatches bs nc ∧ nc ≤ bs * nBatches bs nc ∧ bs * (nBatches bs nc - 1) < nc := by
  unfold nBatches
  have h1 := Nat.div_add_mod (nc + bs - 1) bs
  have h2 := Nat.mod_lt (nc + bs - 1) hbs
  generalize (nc + bs - 1) / bs = q at h1 ⊢
  generalize (nc + bs - 1) % bs = r at h1 h2
  have hq : 1 ≤ q := by
    rcases Nat.eq_zero_or_pos q with h | h
    · subst h; simp at h1; omega
    · exact h
  obtain ⟨q', rfl⟩ : ∃ q', q = q' + 1 := ⟨q - 1, by omega⟩
  simp only [Nat.mul_add, Nat.mul_one, Nat.add_sub_cancel] at h1 ⊢
  omega

/-- chain through the first `k+1` batches -/
theorem mts_prefix (bs nc : Nat) (hbs : 0 < bs) (hnc : 1 ≤ nc) : ∀ k, bs * k < nc →
    chainFrom 0 ((List.range (k+1)).map (mtsBatch bs nc)) = some (min (bs * (k+1)) nc - 1) := by
  intro k
  induction k with
  | zero =>
    intro _
    simp only [List.range_succ, List.range_zero, List.nil_append, List.map_cons, List.map_nil, mtsBatch,
      chainFrom, Nat.mul_zero, Nat.zero_add, Nat.mul_one]
    split
    · rename_i h; simp only [beq_iff_eq] at h; simp only [Option.some.injEq]; omega
    · rename_i h
      simp only [beq_iff_eq] at h
      have : 0 < max (0 - 1) (min bs nc - 1) := by omega
      simp only [beq_self_eq_true, Bool.true_and, decide_eq_true_eq, this, if_true, Option.some.injEq]
      omega
  | succ k ih =>
    intro hk
    have hk' : bs * k < nc := by
      simp only [Nat.mul_add, Nat.mul_one] at hk; omega
    rw [List.range_succ, List.map_append, chainFrom_append, ih hk']
    simp only [Nat.mul_add, Nat.mul_one] at hk ⊢
    simp only [Option.bind_some, List.map_cons, List.map_nil, mtsBatch, chainFrom, Nat.mul_add, Nat.mul_one]
    generalize bs * k = m at hk hk'
    have e1 : min (m + bs) nc - 1 = m + bs - 1 := by omega
    split
    · rename_i h; simp only [beq_iff_eq] at h; simp only [Option.some.injEq]; omega
    · rename_i h
      simp only [beq_iff_eq] at h
      have c : (m + bs - 1 == min (m + bs) nc - 1 &&
          decide (m + bs - 1 < max (m + bs - 1) (min (m + bs + bs) nc - 1))) = true := by
        simp only [Bool.and_eq_true, beq_iff_eq, decide_eq_true_eq]; omega
      simp only [c, if_true, Option.some.injEq]
      omega

theorem iterMtsIdx_chain (bs nc : Nat) (hbs : 0 < bs) (hnc : 1 ≤ nc) :
    chainFrom 0 (iterMtsIdx bs nc) = some nc ∧ ∀ p ∈ iterMtsIdx bs nc, p.1 ≤ nc ∧ p.2 ≤ nc := by
  obtain ⟨f1, f2, f3⟩ := nBatches_facts bs nc hbs hnc
  generalize hq : nBatches bs nc = q at f1 f2 f3
  obtain ⟨k, rfl⟩ : ∃ k, q = k + 1 := ⟨q - 1, by omega⟩
  simp only [Nat.add_sub_cancel] at f3
  have hlast : ((List.range (k+1)).map (mtsBatch bs nc)).getLast? = some (mtsBatch bs nc k) := by
    rw [List.range_succ, List.map_append]; simp
  have hl2 : (mtsBatch bs nc k).2 = nc - 1 := by
    simp only [mtsBatch]
    simp only [Nat.mul_add, Nat.mul_one] at f2 ⊢
    omega
  have hidx : iterMtsIdx bs nc = (List.range (k+1)).map (mtsBatch bs nc) ++ [(nc - 1, nc - 1 + 1)] := by
    simp only [iterMtsIdx, hq, hlast, hl2]
  rw [hidx]
  constructor
  · rw [chainFrom_append, mts_prefix bs nc hbs hnc k f3]
    have e : min (bs * (k + 1)) nc - 1 = nc - 1 := by omega
    have e1 : (nc - 1 == nc - 1 + 1) = false := by simp
    simp [e, chainFrom, e1]
    omega
  · intro p hp
    rcases List.mem_append.1 hp with hp | hp
    · simp only [List.mem_map, List.mem_range] at hp
      obtain ⟨i, hi, rfl⟩ := hp
      have : bs * i ≤ bs * k := Nat.mul_le_mul_left bs (by omega)
      simp only [mtsBatch]
      omega
    · simp only [List.mem_singleton] at hp
      subst hp
      simp only; omega

theorem strictInc_pairwise : ∀ l : List Nat, strictInc l = true → l.Pairwise (· < ·) := by
  intro l
  induction l with
  | nil => intro _; exact List.Pairwise.nil
  | cons a t ih =>
    intro h
    cases t with
    | nil => simp
    | cons b t' =>
      simp only [strictInc, Bool.and_eq_true, decide_eq_true_eq] at h
      have hp := ih h.2
      refine List.Pairwise.cons ?_ hp
      intro x hx
      rcases List.mem_cons.1 hx with hx | hx
      · subst hx; exact h.1
      · have := (List.pairwise_cons.1 hp).1 x hx
        omega

theorem iterChunksMts_tile (bs : Nat) (hbs : 0 < bs) (cb : List Nat) (n : Nat)
    (h0 : cb.head? = some 0) (hl : cb.getLast? = some n) (hs : strictInc cb = true)
    (hlen : 2 ≤ cb.length) :
    intervalsTile n (iterChunksMts bs cb) = true := by
  have hp := strictInc_pairwise cb hs
  rw [List.pairwise_iff_getElem] at hp
  have hf : ∀ i j, i < j → j ≤ cb.length - 1 → cb.getD i 0 < cb.getD j 0 := by
    intro i j hij hj
    have hj' : j < cb.length := by omega
    have hi' : i < cb.length := by omega
    have := hp i j hi' hj' hij
    simpa [List.getD_eq_getElem?_getD, hi', hj'] using this
  obtain ⟨c1, c2⟩ := iterMtsIdx_chain bs (cb.length - 1) hbs (by omega)
  have := chainFrom_map (fun i => cb.getD i 0) (cb.length - 1) hf _ 0 (cb.length - 1) c1 c2
  have e0 : cb.getD 0 0 = 0 := by
    cases cb with
    | nil => simp at h0
    | cons x t => simpa using h0
  have en : cb.getD (cb.length - 1) 0 = n := by
    rw [List.getLast?_eq_getElem?] at hl
    simp [List.getD_eq_getElem?_getD, hl]
  simp only [e0, en] at this
  unfold intervalsTile iterChunksMts
  rw [this]; simp

theorem excerptsLoop_inv (n step size : Int) (hs : 0 ≤ size) (hst : size ≤ step) :
    ∀ (fuel i : Nat) (prev : Int), prev ≤ (i : Int) * step →
      excerptsChain n size prev (excerptsLoop n step size fuel i) = true ∧
      (excerptsLoop n step size fuel i).length ≤ fuel := by
  intro fuel
  induction fuel with
  | zero => intro i prev _; simp [excerptsLoop, excerptsChain]
  | succ f ih =>
    intro i prev hp
    simp only [excerptsLoop]
    split
    · simp [excerptsChain]
    · rename_i hlt
      have hnext : min ((i : Int) * step + size) n ≤ ((i + 1 : Nat) : Int) * step := by
        have : ((i + 1 : Nat) : Int) * step = (i : Int) * step + step := by
          rw [Int.natCast_add, Int.add_mul]; simp
        omega
      obtain ⟨h1, h2⟩ := ih (i + 1) (min ((i : Int) * step + size) n) hnext
      simp only [excerptsChain, Bool.and_eq_true, decide_eq_true_eq, List.length_cons]
      refine ⟨⟨⟨⟨⟨hp, ?_⟩, ?_⟩, ?_⟩, h1⟩, by omega⟩ <;> omega

theorem excerptStep_ge (n k size : Int) : size ≤ excerptStep n k size := by
  unfold excerptStep; omega

theorem excerpts_chain (n k size : Int) (hs : 0 ≤ size) :
    excerptsChain n size 0 (excerpts n k size) = true ∧ (excerpts n k size).length ≤ k.toNat := by
  unfold excerpts
  exact excerptsLoop_inv n _ size hs (excerptStep_ge n k size) k.toNat 0 0 (by simp)

theorem excerpts_ok (n k size : Int) (hn : 0 ≤ n) (hk : 2 ≤ k) (hs : 0 ≤ size) :
    excerptsOK n k size (excerpts n k size) = true := by
  have _ := hn
  obtain ⟨h1, h2⟩ := excerpts_chain n k size hs
  simp only [excerptsOK, Bool.and_eq_true, decide_eq_true_eq]
  exact ⟨h1, by omega⟩


theorem getExcerpts_short {α : Type} (data : List α) (k size : Nat)
    (h : data.length < k * size) : getExcerpts data k size = data := by
  simp [getExcerpts, h]

theorem chain_sublist {α : Type} (data : List α) (n size : Int) :
    ∀ (l : List (Int × Int)) (prev : Int), 0 ≤ prev → excerptsChain n size prev l = true →
      ((l.map (fun p => pySlice data p.1 p.2)).flatten).Sublist (data.drop prev.toNat) ∧
      ((l.map (fun p => pySlice data p.1 p.2)).flatten).length ≤ l.length * size.toNat := by
  intro l
  induction l with
  | nil => intro prev _ _; simp
  | cons p t ih =>
    intro prev hp h
    obtain ⟨a, b⟩ := p
    simp only [excerptsChain, Bool.and_eq_true, decide_eq_true_eq] at h
    obtain ⟨⟨⟨⟨h1, h2⟩, h3⟩, h4⟩, h5⟩ := h
    obtain ⟨i1, i2⟩ := ih b (by omega) h5
    simp only [List.map_cons, List.flatten_cons, List.length_append, List.length_cons]
    constructor
    · have e : data.drop a.toNat =
          (data.drop a.toNat).take (b.toNat - a.toNat) ++ data.drop b.toNat := by
        have : data.drop b.toNat = (data.drop a.toNat).drop (b.toNat - a.toNat) := by
          rw [List.drop_drop]; congr 1; omega
        rw [this, List.take_append_drop]
      have s1 : (pySlice data a b ++ (t.map (fun p => pySlice data p.1 p.2)).flatten).Sublist
          (data.drop a.toNat) := by
        rw [e]
        exact List.Sublist.append (List.Sublist.refl _) i1
      refine s1.trans ?_
      have : data.drop a.toNat = (data.drop prev.toNat).drop (a.toNat - prev.toNat) := by
        rw [List.drop_drop]; congr 1; omega
      rw [this]
      exact List.drop_sublist _ _
    · have : (pySlice data a b).length ≤ size.toNat := by
        simp only [pySlice, List.length_take, List.length_drop]; omega
      rw [Nat.add_mul]; omega

theorem getExcerpts_sublist {α : Type} (data : List α) (k size : Nat) (hs : 0 < size)
    (hlen : k * size ≤ data.length) :
    (getExcerpts data k size).Sublist data ∧ (getExcerpts data k size).length ≤ k * size := by
  unfold getExcerpts
  have h1 : ¬ data.length < k * size := by omega
  simp only [h1, if_false]
  split
  · simp
  · split
    · rename_i hk1
      subst hk1
      refine ⟨List.take_sublist _ _, ?_⟩
      simp only [List.length_take]; omega
    · rename_i hk0 hk1
      obtain ⟨c1, c2⟩ := excerpts_chain (data.length : Int) (k : Int) (size : Int) (by omega)
      obtain ⟨s1, s2⟩ := chain_sublist data _ _ _ 0 (by omega) c1
      refine ⟨by simpa using s1, ?_⟩
      have : (excerpts (data.length : Int) k size).length * (size : Int).toNat ≤ k * size := by
        simp only [Int.toNat_natCast] at c2 ⊢
        exact Nat.mul_le_mul_right _ c2
      omega

end PhyVerif.C16.Lemmas
