import PhyVerif.Model.C14
import PhyVerif.Model.C08
import PhyVerif.Lemmas.C08
import PhyVerif.Lemmas.C09
import PhyVerif.Lemmas.C09b
import PhyVerif.Lemmas.C14b
/-! Proofs for the third part of C14: WHICH ids are blanked (the ids without spikes, computed from the spike
assignment; composition with C08's `nan_idx`), cluster / spike depths and durations stated on that.
Statements: `Props/C14.lean`. -/
namespace PhyVerif.C14.Lemmas
open PhyVerif PhyVerif.C09 PhyVerif.C14

theorem mem_spikelessIds (n : Nat) (sc : List Nat) (c : Nat) :
    c ∈ spikelessIds n sc ↔ c < n ∧ c ∉ sc := by
  simp [spikelessIds, List.mem_filter, List.mem_range]

theorem contains_spikelessIds (n : Nat) (sc : List Nat) (c : Nat) (hc : c < n) :
    (spikelessIds n sc).contains c = !decide (c ∈ sc) := by
  by_cases h : c ∈ sc
  · have : ¬ c ∈ spikelessIds n sc := fun hm => ((mem_spikelessIds n sc c).1 hm).2 h
    simp [h, this]
  · have : c ∈ spikelessIds n sc := (mem_spikelessIds n sc c).2 ⟨hc, h⟩
    simp [h, this]

/-- composition with C08: for a curated dataset (`n_clusters = max id + 1`) the blanked ids ARE `model.nan_idx` -/
theorem spikelessIds_eq_nanIdx (st sc : List Nat) (hlen : st.length = sc.length) :
    spikelessIds (sc.foldl max 0 + 1) sc = C08.nanIdx (C08.mergeMap st sc) := by
  unfold spikelessIds C08.nanIdx
  rw [(C08.Lemmas.mergeMap_spec st sc hlen 0).2]
  apply List.filter_congr
  intro c hc
  rw [List.mem_range] at hc
  have h := C08.Lemmas.nanIdx_spec st sc hlen c
  unfold C08.nanIdx at h
  rw [List.mem_filter, List.mem_range, (C08.Lemmas.mergeMap_spec st sc hlen 0).2] at h
  by_cases hm : c ∈ sc
  · have h1 : ¬ ((C08.mergeMap st sc).getD c []).isEmpty = true := fun he => (h.1 ⟨hc, he⟩).2 hm
    rw [Bool.not_eq_true] at h1
    rw [h1]; simp [hm]
  · have h1 : ((C08.mergeMap st sc).getD c []).isEmpty = true := (h.2 ⟨by omega, hm⟩).2
    rw [h1]; simp [hm]

/-- … stated on the model's `nan_idx` (`modelNanIdx`), for a CURATED, non-empty assignment (`_hne`: the domain, the real
loader takes `max` of the ids; not needed by the proof) -/
theorem blanked_ids_eq_nanIdx (st sc : List Nat) (hlen : st.length = sc.length) (hcur : sc ≠ st) (_hne : sc ≠ []) :
    spikelessIds (sc.foldl max 0 + 1) sc = modelNanIdx st sc := by
  rw [spikelessIds_eq_nanIdx st sc hlen, modelNanIdx, if_neg hcur]

theorem exportClusterDepths_length (ys : List Rat) (peaks sc : List Nat) :
    (exportClusterDepths ys peaks sc).length = peaks.length := by
  simp [exportClusterDepths, clusterDepths]

theorem export_cluster_depth_eq (ys : List Rat) (peaks sc : List Nat) (c : Nat) (hc : c < peaks.length) :
    (exportClusterDepths ys peaks sc).getD c none =
      if c ∈ sc then some (ys.getD (peaks.getD c 0) 0) else none := by
  unfold exportClusterDepths
  rw [Lemmas.cluster_depth_eq ys peaks _ c hc, contains_spikelessIds _ sc c hc]
  by_cases h : c ∈ sc <;> simp [h]

theorem getD_mem_self (sc : List Nat) (i : Nat) (hi : i < sc.length) : sc.getD i 0 ∈ sc := by
  rw [List.getD_eq_getElem?_getD, List.getElem?_eq_getElem hi]
  exact List.getElem_mem hi

theorem export_spike_depth_eq (fe : Option Feats) (ys : List Rat) (peaks st sc : List Nat)
    (hno : getDepths fe ys st = none) (i : Nat) (hi : i < sc.length) (hc : sc.getD i 0 < peaks.length) :
    (exportSpikeDepths fe ys peaks st sc).getD i none = some (ys.getD (peaks.getD (sc.getD i 0) 0) 0) := by
  unfold exportSpikeDepths
  rw [hno]
  show (spikeDepthsFromClusters (clusterDepths ys peaks (spikelessIds peaks.length sc)) sc).getD i none = _
  rw [Lemmas.spike_depth_eq ys peaks _ sc i hi hc, contains_spikelessIds _ sc _ hc,
    decide_eq_true (getD_mem_self sc i hi)]
  rfl

theorem getDepths_none_iff (fe : Option Feats) (ys : List Rat) (st : List Nat) :
    getDepths fe ys st = none ↔ ∀ f, fe = some f → f.feat0.length ≠ st.length := by
  unfold getDepths
  cases fe with
  | none => simp
  | some f => by_cases h : f.feat0.length = st.length <;> simp [h]

theorem spike_depth_features_eq_fold (f : Feats) (ys : List Rat) (peaks st sc : List Nat)
    (hl : f.feat0.length = st.length) (i : Nat) (hi : i < st.length) :
    (exportSpikeDepths (some f) ys peaks st sc).getD i none =
      (let w := (f.feat0.getD i []).map fun x => (max x 0) * (max x 0)
       let y := (f.cols.getD (st.getD i 0) []).map fun c => ys.getD c 0
       if w.sum = 0 then none else some (dot y w / w.sum)) ∧
    (exportSpikeDepths (some f) ys peaks st sc).length = st.length := by
  have e : exportSpikeDepths (some f) ys peaks st sc = depths f.feat0 f.cols ys st := by
    simp [exportSpikeDepths, getDepths, hl]
  rw [e]
  refine ⟨C09.Lemmas.depths_eq f.feat0 f.cols ys st i (hl ▸ hi) hl.symm, ?_⟩
  simp [depths, hl]

/-- the feature-weighted depth of spike `i` as explicit finite sums over the `nloc` local channels, on the domain of the
BATCH gathers of `get_depths` (model.py:1129-1134): hypotheses for EVERY spike -/
theorem spike_depth_features_eq (f : Feats) (ys : List Rat) (peaks st sc : List Nat) (nloc : Nat)
    (hl : f.feat0.length = st.length)
    (hf : ∀ i, i < st.length → (f.feat0.getD i []).length = nloc)
    (hst : ∀ i, i < st.length → st.getD i 0 < f.cols.length)
    (hc : ∀ i, i < st.length → (f.cols.getD (st.getD i 0) []).length = nloc)
    (hb : ∀ i, i < st.length → ∀ c ∈ f.cols.getD (st.getD i 0) [], c < ys.length)
    (i : Nat) (hi : i < st.length) :
    (exportSpikeDepths (some f) ys peaks st sc).getD i none =
      (let w := fun k => max ((f.feat0.getD i []).getD k 0) 0 * max ((f.feat0.getD i []).getD k 0) 0
       let y := fun k => ys.getD ((f.cols.getD (st.getD i 0) []).getD k 0) 0
       if sumTo nloc w = 0 then none else some (sumTo nloc (fun k => y k * w k) / sumTo nloc w)) ∧
    (exportSpikeDepths (some f) ys peaks st sc).length = st.length := by
  have e : exportSpikeDepths (some f) ys peaks st sc = depths f.feat0 f.cols ys st := by
    simp [exportSpikeDepths, getDepths, hl]
  rw [e]
  refine ⟨C09.Lemmas.depth_direct f.feat0 f.cols ys st i nloc (hl ▸ hi) hl.symm (hf i hi) (hst i hi) (hc i hi)
    (hb i hi), ?_⟩
  simp [depths, hl]

theorem exportSpikeDepths_length_fallback (fe : Option Feats) (ys : List Rat) (peaks st sc : List Nat)
    (hno : getDepths fe ys st = none) : (exportSpikeDepths fe ys peaks st sc).length = sc.length := by
  simp [exportSpikeDepths, hno, spikeDepthsFromClusters]

/-! ### listed channels of every template / cluster -/

theorem exportListedChannels_length (wfs : List Mat) (pos : List (Rat × Rat)) (probes : List Nat) (ncw : Nat) :
    (exportListedChannels wfs pos probes ncw).length = wfs.length := by
  simp [exportListedChannels, peakChannels]

theorem exportListedChannels_getD (wfs : List Mat) (pos : List (Rat × Rat)) (probes : List Nat) (ncw t : Nat)
    (ht : t < wfs.length) :
    (exportListedChannels wfs pos probes ncw).getD t [] =
      nearestSameProbe pos probes ((peakChannels wfs).getD t 0) ncw := by
  have h : t < (peakChannels wfs).length := by simp [peakChannels, ht]
  simp [exportListedChannels, List.getD_eq_getElem?_getD, h]

-- `_hpr`: the domain (one probe label per channel); the proof does not need it
theorem listed_channels_of_waveform (wfs : List Mat) (pos : List (Rat × Rat)) (probes : List Nat)
    (ncw t ns nc : Nat) (ht : t < wfs.length) (hrect : Rect (wfs.getD t []) ns nc) (hns : 0 < ns) (hnc : 0 < nc)
    (hpos : pos.length = nc) (_hpr : probes.length = pos.length) :
    IsPeakChannel (wfs.getD t []) nc ((peakChannels wfs).getD t 0) ∧
    nearestOK pos probes ((peakChannels wfs).getD t 0) ncw
      ((exportListedChannels wfs pos probes ncw).getD t []) = true ∧
    (exportListedChannels wfs pos probes ncw).length = wfs.length := by
  have hpk := (C09.Lemmas.peakChannels_spec wfs t ns nc ht hrect hns hnc).1
  refine ⟨hpk, ?_, exportListedChannels_length wfs pos probes ncw⟩
  rw [exportListedChannels_getD wfs pos probes ncw t ht]
  exact Lemmas.nearest_ok pos probes _ ncw (hpos ▸ hpk.1)

theorem contains_modelNanIdx (st sc : List Nat) (hlen : st.length = sc.length) (c : Nat)
    (hc : sc ≠ st → c ≤ sc.foldl max 0) :
    (modelNanIdx st sc).contains c = (decide (sc ≠ st) && !decide (c ∈ sc)) := by
  unfold modelNanIdx
  by_cases h : sc = st
  · simp [h]
  · have hs := C08.Lemmas.nanIdx_spec st sc hlen c
    by_cases hm : c ∈ sc
    · have : ¬ c ∈ C08.nanIdx (C08.mergeMap st sc) := fun hx => (hs.1 hx).2 hm
      simp [h, hm, this]
    · have : c ∈ C08.nanIdx (C08.mergeMap st sc) := hs.2 ⟨hc h, hm⟩
      simp [h, hm, this]

theorem durations_eq (wfs : List Mat) (rate : Rat) (st sc : List Nat) (hlen : st.length = sc.length)
    (hn : sc ≠ st → wfs.length = sc.foldl max 0 + 1) (ns nc : Nat) (hns : 0 < ns)
    (hnc : 0 < nc) (hrect : ∀ W ∈ wfs, Rect W ns nc) (c : Nat) (hc : c < wfs.length) (p iM im : Nat)
    (hp : IsPeakChannel (wfs.getD c []) nc p) (hM : IsFirstMax (chan (wfs.getD c []) p) iM)
    (hm : IsFirstMin (chan (wfs.getD c []) p) im) :
    (exportDurations wfs rate st sc).getD c none =
      if sc ≠ st ∧ c ∉ sc then none else some ((((iM : Int) - (im : Int) : Int) : Rat) * 1000 / rate) := by
  unfold exportDurations
  rw [Lemmas.peakToTrough_eq wfs rate _ ns nc hns hnc hrect c hc p iM im hp hM hm,
    contains_modelNanIdx st sc hlen c (fun h => by have := hn h; omega)]
  by_cases h : sc = st <;> by_cases h2 : c ∈ sc <;> simp [h, h2]

theorem exportDurations_length (wfs : List Mat) (rate : Rat) (st sc : List Nat) :
    (exportDurations wfs rate st sc).length = wfs.length :=
  Lemmas.exportPeakToTrough_length wfs rate _

end PhyVerif.C14.Lemmas
