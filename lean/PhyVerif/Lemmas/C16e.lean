import PhyVerif.Model.C16e
import PhyVerif.Lemmas.C16d
/-! Proofs for the chunk-length envelope of non-binary64 sample rates (`Model/C16e.lean`), for the compressed iterator at
batch size 0, and the witness that the float product matters.  Statements: `Props/C16.lean`. -/
namespace PhyVerif.C16.Lemmas
open PhyVerif.C16 PhyVerif.Fl PhyVerif.Fl.Lemmas

theorem envSlack_nonneg (p : Nat) (rate : ℚ) : 0 ≤ envSlack p rate := by
  unfold envSlack
  have : 0 ≤ pow2 (-(p : Int)) * absR (defaultChunkDuration * rate) := by
    rw [absR_eq]; exact mul_nonneg (le_of_lt (pow2_pos _)) (abs_nonneg _)
  linarith

/-- an integer is at least `chunkSizeLo` iff it is at least the real lower end of the envelope -/
theorem chunkSizeLo_le_iff (p : Nat) (rate : ℚ) (z : Int) :
    chunkSizeLo p rate ≤ z ↔ 600 * rate - envSlack p rate ≤ (z : ℚ) := by
  unfold chunkSizeLo defaultChunkDuration
  rw [neg_le, Rat.le_floor_iff]
  push_cast
  constructor <;> intro h <;> linarith

theorem le_chunkSizeHi_iff (p : Nat) (rate : ℚ) (z : Int) :
    z ≤ chunkSizeHi p rate ↔ (z : ℚ) ≤ 600 * rate + envSlack p rate := by
  unfold chunkSizeHi defaultChunkDuration
  rw [Rat.le_floor_iff]

/-- `round` of ANY number within the relative rounding error `2^-p` of the exact product lies in the envelope -/
theorem pyRound_in_envelope (p : Nat) (rate y : ℚ)
    (h : absR (y - 600 * rate) ≤ pow2 (-(p : Int)) * absR (600 * rate)) :
    chunkSizeLo p rate ≤ pyRound y ∧ pyRound y ≤ chunkSizeHi p rate := by
  obtain ⟨b1, b2⟩ := pyRound_bounds y
  rw [absR_eq, abs_le] at h
  rw [chunkSizeLo_le_iff, le_chunkSizeHi_iff]
  unfold envSlack defaultChunkDuration
  constructor <;> linarith [h.1, h.2]

theorem chunkSizeFl_in_envelope (rate : ℚ) :
    chunkSizeLo 53 rate ≤ chunkSizeFl rate ∧ chunkSizeFl rate ≤ chunkSizeHi 53 rate := by
  unfold chunkSizeFl defaultChunkDuration
  exact pyRound_in_envelope 53 rate _ (roundDouble_rel (600 * rate))

/-- the envelope is never empty (it contains the chunk length of the exact product) and holds at most
`2 + 2·2^-p·|600·rate|` integers -/
theorem envelope_nonempty (p : Nat) (rate : ℚ) :
    chunkSizeLo p rate ≤ chunkSize rate ∧ chunkSize rate ≤ chunkSizeHi p rate := by
  unfold chunkSize defaultChunkDuration
  refine pyRound_in_envelope p rate _ ?_
  rw [sub_self, absR_eq, abs_zero, absR_eq]
  exact mul_nonneg (le_of_lt (pow2_pos _)) (abs_nonneg _)

/-- a rate with `chunkSizeHi p rate ≤ 0` is rejected whatever the rounding; one with `1 ≤ chunkSizeLo p rate` accepted -/
theorem envelope_decides (p : Nat) (rate y : ℚ)
    (h : absR (y - 600 * rate) ≤ pow2 (-(p : Int)) * absR (600 * rate)) :
    (chunkSizeHi p rate ≤ 0 → pyRound y ≤ 0) ∧ (1 ≤ chunkSizeLo p rate → 0 < pyRound y) := by
  obtain ⟨h1, h2⟩ := pyRound_in_envelope p rate y h
  constructor <;> intro h' <;> omega

/-! ### the compressed iterator at batch size 0 -/

theorem iterChunksMts_bs_zero (cb : List Nat) : iterChunksMts 0 cb = [] := by
  simp [iterChunksMts, iterMtsIdx, nBatches]

theorem iterChunksMts_bs_zero_not_tile (cb : List Nat) (n : Nat) (hn : 0 < n) :
    intervalsTile n (iterChunksMts 0 cb) = false := by
  rw [iterChunksMts_bs_zero]
  simp [intervalsTile, chainFrom]
  omega

/-! ### the float product matters -/

theorem chunkSizeFl_ne_chunkSize_witness :
    chunkSizeFl (3242591731706757 / 144115188075855872) = 14 ∧
    chunkSize (3242591731706757 / 144115188075855872) = 13 := by decide +kernel

end PhyVerif.C16.Lemmas
