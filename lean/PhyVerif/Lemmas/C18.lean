import PhyVerif.Model.C18
import PhyVerif.Spec.C18
/-! Helper lemmas and full proofs for C18. Statements: `Props/C18.lean`. -/
namespace PhyVerif.C18.Lemmas
open PhyVerif PhyVerif.C18

theorem value_roundtrip (v : PV) (h : WF v) : decode (encode v) = canon v := by
  sorry

theorem key_roundtrip (hs : IntStrOK) (k : Key) (hk : KeyOK k) : intifyKey (stringifyKey k) = k := by
  sorry

theorem json_roundtrip (hs : IntStrOK) (d : List (Key × PV)) (hk : ∀ kv ∈ d, KeyOK kv.1 ∧ WF kv.2) :
    roundTrip d = d.map fun kv => (kv.1, canon kv.2) := by
  sorry

theorem isIntString_neg_example : isIntString "-1" = true ∧ isIntString "12" = true ∧
    isIntString "1x" = false ∧ isIntString "-" = false ∧ isIntString "" = false := by
  sorry

theorem tsv_roundtrip (render : Cell → String) (parse : String → Cell)
    (hrt : ∀ c, parse (render c) = c) (hne : ∀ c, render c ≠ "")
    (rows : List (List (String × Cell))) (first : Option String)
    (hnodup : ∀ r ∈ rows, (r.map (·.1)).Nodup) (file : List String × List (List String))
    (hw : writeTsv render rows first = some file) :
    readTsv parse file = expectedRows file.1 rows ∧
    (∀ r ∈ rows, ∀ fc ∈ r, fc.1 ∈ file.1) ∧ file.1.Nodup := by
  sorry

theorem tsv_first_field_first (render : Cell → String) (rows : List (List (String × Cell))) (f : String)
    (hf : ∃ r ∈ rows, f ∈ r.map (·.1)) (file : List String × List (List String))
    (hw : writeTsv render rows (some f) = some file) : file.1.head? = some f := by
  sorry

end PhyVerif.C18.Lemmas
