import PhyVerif.Model.C18
import PhyVerif.Model.C18b
import PhyVerif.Spec.C18
/-! Helper lemmas and full proofs for C18. Statements: `Props/C18.lean`. -/
namespace PhyVerif.C18.Lemmas
open PhyVerif PhyVerif.C18

/-! ### JSON values -/

/-- decoding a list of plain integers is the identity -/
theorem decodeList_ofInts (items : List Int) : decodeList (ofInts items) = ofInts items := by
  induction items with
  | nil => simp [ofInts, decodeList]
  | cons i is ih => simp [ofInts, decodeList, decode, ih]

theorem natsOf_ofNats (l : List Nat) : natsOf (ofNats l) = l := by
  induction l with
  | nil => rfl
  | cons n ns ih => simp [ofNats, natsOf, ih]

/-- the object hook recognises an encoded array and rebuilds it from the three entries of the marker:
dtype from `"dtype"`, shape from `"shape"`, items from the payload, C-contiguous -/
theorem decode_marker (dtype : String) (shape : List Nat) (items : List Int) :
    decode (marker dtype shape items) = .arr dtype shape (cStrides shape) 0 items := by
  have h1 : ("__ndarray__" == "__ndarray__") = true := by decide
  have h2 : ("__ndarray__" == "dtype") = false := by decide
  have h3 : ("__ndarray__" == "shape") = false := by decide
  have h4 : ("dtype" == "dtype") = true := by decide
  have h5 : ("dtype" == "shape") = false := by decide
  have h6 : ("shape" == "shape") = true := by decide
  simp [marker, decode, findArr, findKey, fromMarker, natsOf_ofNats, h1, h2, h3, h4, h5, h6]

/-- a user dictionary without the reserved keys is not mistaken for an encoded array / Qt array -/
theorem findArr_encodeDict : ∀ (kv : PVDict), WFDict kv →
    findArr (encodeDict kv) = none ∧ findKey "__qbytearray__" (encodeDict kv) = none
  | .nil, _ => by simp [encodeDict, findArr, findKey]
  | .cons k v t, h => by
    have h' : k ≠ "__ndarray__" ∧ k ≠ "__qbytearray__" ∧ WF v ∧ WFDict t := by simpa [WFDict] using h
    have ih := findArr_encodeDict t h'.2.2.2
    simp only [findArr] at ih
    simp [encodeDict, findArr, findKey, h'.1, h'.2.1, ih.1, ih.2]

mutual
theorem vr : ∀ (v : PV), WF v → decode (encode v) = canon v
  | .none, _ => by simp [encode, decode, canon]
  | .bool _, _ => by simp [encode, decode, canon]
  | .int _, _ => by simp [encode, decode, canon]
  | .float _, _ => by simp [encode, decode, canon]
  | .str _, _ => by simp [encode, decode, canon]
  | .npScalar _, _ => by simp [encode, decode, canon]
  | .npExotic _ _, _ => by simp [encode, canon, decode_marker, cStrides]
  | .payload _ _, _ => by simp [encode, decode, canon]
  | .arr dtype [] st off mem, _ => by simp [encode, canon, decode_marker]
  | .arr dtype [n] st off mem, _ => by
    by_cases hn : (n ≤ 10 && !noListDtype dtype) = true
    · simp only [encode, canon, hn, if_true]
      simp [decode, decodeList_ofInts]
    · simp only [encode, canon, hn]
      exact decode_marker ..
  | .arr dtype (_ :: _ :: _) st off mem, _ => by simp [encode, canon, decode_marker]
  | .list l, h => by
    have := vrL l (by simpa [WF] using h)
    simp [encode, decode, canon, this]
  | .dict kv, h => by
    have hd : WFDict kv := by simpa [WF] using h
    have := vrD kv hd
    simp [encode, decode, canon, this, (findArr_encodeDict kv hd).1, (findArr_encodeDict kv hd).2]
theorem vrL : ∀ (l : PVList), WFList l → decodeList (encodeList l) = canonList l
  | .nil, _ => by simp [encodeList, decodeList, canonList]
  | .cons x t, h => by
    have h' : WF x ∧ WFList t := by simpa [WFList] using h
    simp [encodeList, decodeList, canonList, vr x h'.1, vrL t h'.2]
theorem vrD : ∀ (kv : PVDict), WFDict kv → decodeDict (encodeDict kv) = canonDict kv
  | .nil, _ => by simp [encodeDict, decodeDict, canonDict]
  | .cons k x t, h => by
    have h' : k ≠ "__ndarray__" ∧ k ≠ "__qbytearray__" ∧ WF x ∧ WFDict t := by simpa [WFDict] using h
    simp [encodeDict, decodeDict, canonDict, vr x h'.2.2.1, vrD t h'.2.2.2]
end

/-! ### arrays: shape, dtype and every element survive, for every memory layout -/

theorem sum_map_const {α : Type} (L : Nat) : ∀ (l : List α), (l.map (fun _ => L)).sum = l.length * L
  | [] => by simp
  | _ :: t => by simp [sum_map_const L t, Nat.add_mul, Nat.add_comm]

theorem gather_length (mem : List Int) : ∀ (shape : List Nat) (strides : List Int) (pos : Int),
    (gather mem shape strides pos).length = size shape
  | [], _, _ => by simp [gather, size]
  | n :: shape, s :: strides, pos => by
    simp only [gather, size, List.length_flatMap]
    rw [List.map_congr_left (g := fun _ => size shape) (fun i _ => gather_length mem shape strides _)]
    simp [sum_map_const]
  | n :: shape, [], pos => by
    simp only [gather, size, List.length_flatMap]
    rw [List.map_congr_left (g := fun _ => size shape) (fun i _ => gather_length mem shape [] _)]
    simp [sum_map_const]

/-- indexing into equally long blocks laid one after the other -/
theorem getD_flatMap_range (f : Nat → List Int) (L : Nat) :
    ∀ (n : Nat), (∀ i, i < n → (f i).length = L) → ∀ (i r : Nat), i < n → r < L →
      ((List.range n).flatMap f).getD (i * L + r) 0 = (f i).getD r 0 := by
  intro n
  induction n with
  | zero => intro _ i r hi; omega
  | succ n ih =>
    intro hlen i r hi hr
    have hlenL : ((List.range n).flatMap f).length = n * L := by
      rw [List.length_flatMap, List.map_congr_left (g := fun _ => L)
        (fun i hi => hlen i (by have := List.mem_range.mp hi; omega))]
      simp [sum_map_const]
    rw [List.range_succ, List.flatMap_append]
    simp only [List.flatMap_cons, List.flatMap_nil, List.append_nil]
    by_cases hin : i < n
    · have hlt : i * L + r < ((List.range n).flatMap f).length := by
        rw [hlenL]
        calc i * L + r < i * L + L := by omega
          _ = (i + 1) * L := by rw [Nat.add_mul, Nat.one_mul]
          _ ≤ n * L := Nat.mul_le_mul_right L (by omega)
      rw [List.getD_eq_getElem?_getD, List.getElem?_append_left hlt, ← List.getD_eq_getElem?_getD]
      exact ih (fun j hj => hlen j (by omega)) i r hin hr
    · have hi' : i = n := by omega
      subst hi'
      rw [List.getD_eq_getElem?_getD, List.getElem?_append_right (by rw [hlenL]; omega), hlenL,
        ← List.getD_eq_getElem?_getD]
      congr 1
      omega

theorem rank_lt : ∀ (shape idx : List Nat), IdxOK shape idx → rank shape idx < size shape
  | [], [], _ => by simp [rank, size]
  | [], _ :: _, h => by simp [IdxOK] at h
  | _ :: _, [], h => by simp [IdxOK] at h
  | n :: shape, i :: idx, h => by
    have h' : i < n ∧ IdxOK shape idx := by simpa [IdxOK] using h
    have ih := rank_lt shape idx h'.2
    simp only [rank, size]
    calc i * size shape + rank shape idx < i * size shape + size shape := by omega
      _ = (i + 1) * size shape := by rw [Nat.add_mul, Nat.one_mul]
      _ ≤ n * size shape := Nat.mul_le_mul_right _ (by omega)

/-- the row-major copy holds, at the row-major rank of `idx`, the element the array has at `idx` -/
theorem gather_getD (mem : List Int) : ∀ (shape : List Nat) (strides : List Int) (pos : Int)
    (idx : List Nat), strides.length = shape.length → IdxOK shape idx →
    (gather mem shape strides pos).getD (rank shape idx) 0 = getMem mem (memPos strides pos idx)
  | [], [], pos, [], _, _ => by simp [gather, rank, memPos]
  | [], _ :: _, _, _, hl, _ => by simp at hl
  | [], [], _, _ :: _, _, h => by simp [IdxOK] at h
  | _ :: _, [], _, _, hl, _ => by simp at hl
  | _ :: _, _ :: _, _, [], _, h => by simp [IdxOK] at h
  | n :: shape, s :: strides, pos, i :: idx, hl, h => by
    have h' : i < n ∧ IdxOK shape idx := by simpa [IdxOK] using h
    have hl' : strides.length = shape.length := by simpa using hl
    simp only [gather, rank, memPos]
    rw [getD_flatMap_range _ (size shape) n (fun j _ => gather_length mem shape strides _) i _ h'.1
      (rank_lt shape idx h'.2)]
    exact gather_getD mem shape strides _ idx hl' h'.2

theorem memPos_cStrides : ∀ (shape idx : List Nat) (pos : Int), IdxOK shape idx →
    memPos (cStrides shape) pos idx = pos + (rank shape idx : Nat)
  | [], [], pos, _ => by simp [memPos, cStrides, rank]
  | [], _ :: _, _, h => by simp [IdxOK] at h
  | _ :: _, [], _, h => by simp [IdxOK] at h
  | n :: shape, i :: idx, pos, h => by
    have h' : i < n ∧ IdxOK shape idx := by simpa [IdxOK] using h
    simp only [memPos, cStrides, rank]
    rw [memPos_cStrides shape idx _ h'.2]
    push_cast
    omega

/-- every element of the array that comes back equals the element of the saved array at the same
multi-index, whatever (strides, offset) the saved array had -/
theorem array_elements_preserved (shape : List Nat) (strides : List Int) (off : Int) (mem : List Int)
    (idx : List Nat) (hl : strides.length = shape.length) (hi : IdxOK shape idx) :
    getAt (cStrides shape) 0 (gather mem shape strides off) idx = getAt strides off mem idx := by
  unfold getAt
  rw [memPos_cStrides shape idx 0 hi, ← gather_getD mem shape strides off idx hl hi]
  unfold getMem
  simp only [List.getD_eq_getElem?_getD]
  split
  · omega
  · simp

theorem value_roundtrip (v : PV) (h : WF v) : decode (encode v) = canon v := vr v h

/-- an array that is not a short 1-D non-complex one comes back as an array with the same dtype string,
the same shape, C-contiguous, holding the row-major copy of the saved elements -/
theorem array_roundtrip (dtype : String) (shape : List Nat) (strides : List Int) (off : Int) (mem : List Int)
    (hbig : ∀ n, shape = [n] → (n ≤ 10 && !noListDtype dtype) = false) :
    decode (encode (.arr dtype shape strides off mem)) =
      .arr dtype shape (cStrides shape) 0 (gather mem shape strides off) := by
  rw [value_roundtrip _ (by simp [WF])]
  match shape, hbig with
  | [], _ => simp [canon]
  | [n], hbig => simp [canon, hbig n rfl]
  | _ :: _ :: _, _ => simp [canon]

/-- the elements of a 1-D array in index order: `mem[offset + i * stride]` for i = 0 .. n-1 -/
theorem gather_1d (mem : List Int) (n : Nat) (s : Int) (off : Int) :
    gather mem [n] [s] off = (List.range n).map fun (i : Nat) => getMem mem (off + (i : Int) * s) := by
  simp only [gather]
  generalize List.range n = l
  induction l with
  | nil => rfl
  | cons a t ih => simp [List.flatMap_cons, ih]

/-- a 1-D array of at most ten items of a non-complex dtype comes back as the list of its elements in
index order (whatever its stride: `a[::2]`, `a[::-1]` included) -/
theorem small_array_roundtrip (dtype : String) (n : Nat) (s : Int) (off : Int) (mem : List Int)
    (hn : n ≤ 10) (hc : noListDtype dtype = false) :
    decode (encode (.arr dtype [n] [s] off mem)) =
      .list (ofInts ((List.range n).map fun (i : Nat) => getMem mem (off + (i : Int) * s))) := by
  rw [value_roundtrip _ (by simp [WF])]
  have : (n ≤ 10 && !noListDtype dtype) = true := by simp [hn, hc]
  simp only [canon, this, if_true, gather_1d]

theorem key_roundtrip (hs : IntStrOK) (k : Key) (hk : KeyOK k) : intifyKey (stringifyKey k) = k := by
  cases k with
  | int i => simp [stringifyKey, intifyKey, (hs i).1, (hs i).2]
  | str s =>
    have : isIntString s = false := hk
    simp [stringifyKey, intifyKey, this]

theorem json_roundtrip (hs : IntStrOK) (d : List (Key × PV)) (hk : ∀ kv ∈ d, KeyOK kv.1 ∧ WF kv.2) :
    roundTrip d = d.map fun kv => (kv.1, canon kv.2) := by
  unfold roundTrip
  apply List.map_congr_left
  intro kv hkv
  rw [key_roundtrip hs kv.1 (hk kv hkv).1, value_roundtrip kv.2 (hk kv hkv).2]

theorem isIntString_neg_example : isIntString "-1" = true ∧ isIntString "12" = true ∧
    isIntString "1x" = false ∧ isIntString "-" = false ∧ isIntString "" = false := by
  decide

/-! ### TSV / CSV tables -/

theorem insert_perm (x : String) (l : List String) : (sortStrings.insert x l).Perm (x :: l) := by
  induction l with
  | nil => simp [sortStrings.insert]
  | cons y ys ih =>
    simp only [sortStrings.insert]
    split
    · exact List.Perm.refl _
    · exact (List.Perm.cons y ih).trans (List.Perm.swap x y ys)

theorem sortStrings_perm (l : List String) : (sortStrings l).Perm l := by
  induction l with
  | nil => simp [sortStrings]
  | cons x xs ih =>
    have : sortStrings (x :: xs) = sortStrings.insert x (sortStrings xs) := by simp [sortStrings]
    rw [this]
    exact (insert_perm x _).trans (List.Perm.cons x ih)

theorem nodup_eraseDups (l : List String) : l.eraseDups.Nodup := by
  generalize hn : l.length = n
  induction n using Nat.strongRecOn generalizing l with
  | _ n ih =>
    cases l with
    | nil => simp
    | cons a as =>
      rw [List.eraseDups_cons, List.nodup_cons]
      refine ⟨?_, ih _ ?_ _ rfl⟩
      · simp [List.mem_eraseDups]
      · have := List.length_filter_le (fun b => !b == a) as
        simp at hn; omega

/-- the header line of `write_tsv` -/
def header {γ : Type} (rows : List (List (String × γ))) (first : Option String) : List String :=
  let fields := (rows.flatMap fun r => r.map (·.1)).eraseDups
  match first with
  | some f => if fields.contains f then f :: sortStrings (fields.erase f) else sortStrings fields
  | none => sortStrings fields

theorem writeTsv_eq {γ : Type} (render : γ → String) (rows : List (List (String × γ))) (first : Option String) :
    writeTsv render rows first =
      if rows.isEmpty then none else
        some (header rows first, rows.map fun r => (header rows first).map fun f =>
          renderOpt render (r.lookup f)) := rfl

theorem header_perm {γ : Type} (rows : List (List (String × γ))) (first : Option String) :
    (header rows first).Perm (rows.flatMap fun r => r.map (·.1)).eraseDups := by
  unfold header
  cases first with
  | none => exact sortStrings_perm _
  | some f =>
    simp only
    split
    · rename_i hc
      have hm := List.contains_iff_mem.mp hc
      exact (List.Perm.cons f (sortStrings_perm _)).trans (List.perm_cons_erase hm).symm
    · exact sortStrings_perm _

theorem header_nodup {γ : Type} (rows : List (List (String × γ))) (first : Option String) :
    (header rows first).Nodup :=
  (header_perm rows first).nodup_iff.mpr (nodup_eraseDups _)

theorem mem_header {γ : Type} (rows : List (List (String × γ))) (first : Option String)
    (r : List (String × γ)) (hr : r ∈ rows) (fc : String × γ) (hfc : fc ∈ r) :
    fc.1 ∈ header rows first := by
  rw [(header_perm rows first).mem_iff, List.mem_eraseDups, List.mem_flatMap]
  exact ⟨r, hr, List.mem_map.mpr ⟨fc, hfc, rfl⟩⟩

theorem mem_of_lookup_eq_some {γ : Type} {f : String} {c : γ} :
    ∀ {r : List (String × γ)}, r.lookup f = some c → (f, c) ∈ r
  | [], h => by simp at h
  | (k, v) :: t, h => by
    rw [List.lookup_cons] at h
    by_cases hk : (f == k) = true
    · rw [hk] at h
      have hfk : f = k := by simpa using hk
      have hv : v = c := Option.some.inj h
      subst hfk; subst hv
      exact List.mem_cons_self
    · have hk' : (f == k) = false := by simpa using hk
      rw [hk'] at h
      exact List.mem_cons_of_mem _ (mem_of_lookup_eq_some h)

/-- one line written then read back (cells of the row in the domain `D`) -/
theorem line_roundtrip_on (D : Cell → Prop) (render : Cell → String) (parse : String → Cell)
    (hrt : ∀ c, D c → parse (render c) = c) (hne : ∀ c, D c → render c ≠ "")
    (r : List (String × Cell)) (hD : ∀ fc ∈ r, D fc.2) (fields : List String) :
    (((fields.zip (fields.map fun f => renderOpt render (r.lookup f))).filter
        fun p => p.2 != "").map fun p => (p.1, parse p.2)) =
      fields.filterMap fun f => (r.lookup f).map fun c => (f, c) := by
  induction fields with
  | nil => simp
  | cons f fs ih =>
    simp only [List.map_cons, List.zip_cons_cons, List.filterMap_cons]
    cases hl : r.lookup f with
    | none => simpa [List.filter_cons, renderOpt] using ih
    | some c =>
      have hc : D c := hD (f, c) (mem_of_lookup_eq_some hl)
      simpa [List.filter_cons, renderOpt, hne c hc, hrt c hc] using ih

/- `hnodup` is not needed by the proof: `expectedRows` and `writeTsv` both use `List.lookup`
(first occurrence of a field), so duplicate field names inside a row are handled consistently. -/
set_option linter.unusedVariables false in
theorem tsv_roundtrip_on (D : Cell → Prop) (render : Cell → String) (parse : String → Cell)
    (hrt : ∀ c, D c → parse (render c) = c) (hne : ∀ c, D c → render c ≠ "")
    (rows : List (List (String × Cell))) (first : Option String)
    (hnodup : ∀ r ∈ rows, (r.map (·.1)).Nodup) (hD : ∀ r ∈ rows, ∀ fc ∈ r, D fc.2)
    (file : List String × List (List String))
    (hw : writeTsv render rows first = some file) :
    readTsv parse file = expectedRows file.1 rows ∧
    (∀ r ∈ rows, ∀ fc ∈ r, fc.1 ∈ file.1) ∧ file.1.Nodup := by
  rw [writeTsv_eq] at hw
  split at hw
  · exact absurd hw (by simp)
  · have hfile := (Option.some.inj hw).symm
    subst hfile
    refine ⟨?_, fun r hr fc hfc => mem_header rows first r hr fc hfc, header_nodup rows first⟩
    simp only [readTsv, expectedRows, List.map_map]
    apply List.map_congr_left
    intro r hr
    exact line_roundtrip_on D render parse hrt hne r (hD r hr) (header rows first)

/-- the unrestricted form: the domain is every cell -/
theorem tsv_roundtrip (render : Cell → String) (parse : String → Cell)
    (hrt : ∀ c, parse (render c) = c) (hne : ∀ c, render c ≠ "")
    (rows : List (List (String × Cell))) (first : Option String)
    (hnodup : ∀ r ∈ rows, (r.map (·.1)).Nodup) (file : List String × List (List String))
    (hw : writeTsv render rows first = some file) :
    readTsv parse file = expectedRows file.1 rows ∧
    (∀ r ∈ rows, ∀ fc ∈ r, fc.1 ∈ file.1) ∧ file.1.Nodup :=
  tsv_roundtrip_on (fun _ => True) render parse (fun c _ => hrt c) (fun c _ => hne c)
    rows first hnodup (fun _ _ _ _ => trivial) file hw

theorem tsv_first_field_first (render : Cell → String) (rows : List (List (String × Cell))) (f : String)
    (hf : ∃ r ∈ rows, f ∈ r.map (·.1)) (file : List String × List (List String))
    (hw : writeTsv render rows (some f) = some file) : file.1.head? = some f := by
  rw [writeTsv_eq] at hw
  split at hw
  · exact absurd hw (by simp)
  · have hfile := (Option.some.inj hw).symm
    subst hfile
    obtain ⟨r, hr, hfr⟩ := hf
    have hm : f ∈ (rows.flatMap fun r => r.map (·.1)).eraseDups := by
      rw [List.mem_eraseDups, List.mem_flatMap]
      exact ⟨r, hr, hfr⟩
    show (header rows (some f)).head? = some f
    unfold header
    simp only
    rw [if_pos (List.contains_iff_mem.mpr hm)]
    rfl

/-! ### Bonus: the transport hypothesis `IntStrOK` holds for `intToStr := toString` -/

theorem parseNat_eq (cs : List Char) : parseNat cs = Nat.ofDigitChars 10 cs 0 := by
  unfold parseNat Nat.ofDigitChars
  generalize 0 = init
  induction cs generalizing init with
  | nil => rfl
  | cons c cs ih => simp only [List.foldl_cons]; rw [Nat.mul_comm]; exact ih _

theorem parseNat_toDigits (n : Nat) : parseNat (Nat.toDigits 10 n) = n := by
  rw [parseNat_eq]; exact Nat.ofDigitChars_ten_toDigits

theorem all_isDigit_toDigits (n : Nat) : (Nat.toDigits 10 n).all Char.isDigit = true := by
  rw [List.all_eq_true]
  intro c hc
  exact Nat.isDigit_of_mem_toDigits (by decide) (by decide) hc

theorem isIntString_of_nonneg {s : String} {c : Char} {cs : List Char} (h : s.toList = c :: cs)
    (hc : c ≠ '-') : isIntString s = (c :: cs).all Char.isDigit ∧ parseInt s = (parseNat (c :: cs) : Nat) := by
  unfold isIntString parseInt
  rw [h]
  constructor
  · show (match c :: cs with
      | [] => false
      | '-' :: rest => !rest.isEmpty && rest.all Char.isDigit
      | _ => (c :: cs).all Char.isDigit) = _
    split
    · contradiction
    · rename_i h'; injection h' with h1 _; exact absurd h1 hc
    · rfl
  · split
    · rename_i h'; injection h' with h1 _; exact absurd h1 hc
    · rfl

theorem isIntString_of_neg {s : String} {rest : List Char} (h : s.toList = '-' :: rest) :
    isIntString s = (!rest.isEmpty && rest.all Char.isDigit) ∧ parseInt s = -((parseNat rest : Nat) : Int) := by
  unfold isIntString parseInt
  rw [h]
  exact ⟨rfl, rfl⟩

theorem natRepr_ok (n : Nat) : ∃ c cs, n.repr.toList = c :: cs ∧ c ≠ '-' ∧ (c :: cs).all Char.isDigit = true
    ∧ parseNat (c :: cs) = n := by
  have hl : n.repr.toList = Nat.toDigits 10 n := Nat.toList_repr
  have hall := all_isDigit_toDigits n
  have hp := parseNat_toDigits n
  cases hd : Nat.toDigits 10 n with
  | nil => exact absurd hd Nat.toDigits_ne_nil
  | cons c cs =>
    rw [hd] at hall hp
    refine ⟨c, cs, by rw [hl, hd], ?_, hall, hp⟩
    intro hc
    subst hc
    simp at hall

/-- the transport hypothesis `IntStrOK` holds for the concrete `intToStr := toString` -/
theorem intStrOK : IntStrOK := by
  intro i
  unfold intToStr
  rw [Int.toString_eq_repr, Int.repr_eq_if]
  split
  · rename_i hi
    obtain ⟨c, cs, h, hc, hall, hp⟩ := natRepr_ok i.toNat
    obtain ⟨h1, h2⟩ := isIntString_of_nonneg h hc
    rw [h1, h2, hall, hp]
    exact ⟨rfl, Int.toNat_of_nonneg hi⟩
  · rename_i hi
    obtain ⟨c, cs, h, hc, hall, hp⟩ := natRepr_ok (-i).toNat
    have h' : ("-" ++ (-i).toNat.repr).toList = '-' :: (c :: cs) := by
      rw [String.toList_append, h]; rfl
    obtain ⟨h1, h2⟩ := isIntString_of_neg h'
    rw [h1, h2, hall, hp]
    refine ⟨rfl, ?_⟩
    omega

/-! ### The concrete `str` / `_try_make_number` instance on integers and alphabetic labels -/

/-- a letter is neither '-' nor a digit -/
theorem not_isDigit_of_isAlpha {c : Char} (h : c.isAlpha = true) : c.isDigit = false ∧ c ≠ '-' := by
  simp only [Char.isAlpha, Char.isUpper, Char.isLower, Char.isDigit, Bool.or_eq_true,
    Bool.and_eq_true, decide_eq_true_eq] at h ⊢
  refine ⟨?_, ?_⟩
  · rcases h with h | h <;> simp [UInt32.le_iff_toNat_le] at h ⊢ <;> omega
  · intro hc; subst hc; revert h; decide

/-- a non-empty alphabetic string is not the decimal form of an integer -/
theorem isIntString_alpha {s : String} (hne : s ≠ "") (hal : s.toList.all Char.isAlpha = true) :
    isIntString s = false := by
  cases hs : s.toList with
  | nil => exact absurd (String.toList_eq_nil_iff.mp hs) hne
  | cons c cs =>
    rw [hs] at hal
    have hc : c.isAlpha = true := by simp at hal; exact hal.1
    obtain ⟨hd, hm⟩ := not_isDigit_of_isAlpha hc
    rw [(isIntString_of_nonneg hs hm).1]
    simp [hd]

theorem renderPy_ne (c : Cell) (hc : CellPy c) : renderPy c ≠ "" := by
  cases c with
  | int i =>
    intro h
    have := (intStrOK i).1
    simp only [renderPy] at h
    rw [h] at this
    revert this; decide
  | text s => exact hc.1
  | float _ => exact absurd hc (by simp [CellPy])

theorem parsePy_renderPy (c : Cell) (hc : CellPy c) : parsePy (renderPy c) = c := by
  cases c with
  | int i => simp [renderPy, parsePy, (intStrOK i).1, (intStrOK i).2]
  | text s => simp [renderPy, parsePy, isIntString_alpha hc.1 hc.2]
  | float _ => exact absurd hc (by simp [CellPy])

theorem tsv_roundtrip_py (rows : List (List (String × Cell))) (first : Option String)
    (hnodup : ∀ r ∈ rows, (r.map (·.1)).Nodup) (hD : ∀ r ∈ rows, ∀ fc ∈ r, CellPy fc.2)
    (file : List String × List (List String))
    (hw : writeTsv renderPy rows first = some file) :
    readTsv parsePy file = expectedRows file.1 rows ∧
    (∀ r ∈ rows, ∀ fc ∈ r, fc.1 ∈ file.1) ∧ file.1.Nodup :=
  tsv_roundtrip_on CellPy renderPy parsePy parsePy_renderPy renderPy_ne rows first hnodup hD file hw

end PhyVerif.C18.Lemmas
