import PhyVerif.Model.C18
import PhyVerif.Model.C18b
import PhyVerif.Spec.C18
/-! Helper lemmas and full proofs for C18. Statements: `Props/C18.lean`. -/
namespace PhyVerif.C18.Lemmas
open PhyVerif PhyVerif.C18

/-! ### JSON values -/

/-- decoding a list of plain integers is the identity -/
theorem decodeList_ofInts (items : List Int) : decodeList (ofInts items) = ofInts items := by
  induction items with
  | nil => simp [ofInts, decodeList]
  | cons i is ih => simp [ofInts, decodeList, decode, ih]

/-- the object hook recognises an encoded array -/
theorem decode_marker (dtype : String) (shape : List Nat) (items : List Int) :
    decode (marker dtype shape items) = .arr dtype shape items := by
  simp [marker, decode, findArr]

/-- a user dictionary without the reserved key is not mistaken for an encoded array -/
theorem findArr_encodeDict : ∀ (kv : PVDict), WFDict kv → findArr (encodeDict kv) = none
  | .nil, _ => by simp [encodeDict, findArr]
  | .cons k v t, h => by
    have h' : k ≠ "__ndarray__" ∧ WF v ∧ WFDict t := by simpa [WFDict] using h
    simp [encodeDict, findArr, h'.1, findArr_encodeDict t h'.2.2]

mutual
theorem vr : ∀ (v : PV), WF v → decode (encode v) = canon v
  | .none, _ => by simp [encode, decode, canon]
  | .bool _, _ => by simp [encode, decode, canon]
  | .int _, _ => by simp [encode, decode, canon]
  | .float _, _ => by simp [encode, decode, canon]
  | .str _, _ => by simp [encode, decode, canon]
  | .npScalar _, _ => by simp [encode, decode, canon]
  | .arr dtype [] items, _ => by simp [encode, canon, decode_marker]
  | .arr dtype [n] items, _ => by
    by_cases hn : (n ≤ 10 && !isComplexDtype dtype) = true
    · simp only [encode, canon, hn, if_true]
      simp [decode, decodeList_ofInts]
    · simp only [encode, canon, hn]
      exact decode_marker ..
  | .arr dtype (_ :: _ :: _) items, _ => by simp [encode, canon, decode_marker]
  | .list l, h => by
    have := vrL l (by simpa [WF] using h)
    simp [encode, decode, canon, this]
  | .dict kv, h => by
    have hd : WFDict kv := by simpa [WF] using h
    have := vrD kv hd
    simp [encode, decode, canon, this, findArr_encodeDict kv hd]
theorem vrL : ∀ (l : PVList), WFList l → decodeList (encodeList l) = canonList l
  | .nil, _ => by simp [encodeList, decodeList, canonList]
  | .cons x t, h => by
    have h' : WF x ∧ WFList t := by simpa [WFList] using h
    simp [encodeList, decodeList, canonList, vr x h'.1, vrL t h'.2]
theorem vrD : ∀ (kv : PVDict), WFDict kv → decodeDict (encodeDict kv) = canonDict kv
  | .nil, _ => by simp [encodeDict, decodeDict, canonDict]
  | .cons k x t, h => by
    have h' : k ≠ "__ndarray__" ∧ WF x ∧ WFDict t := by simpa [WFDict] using h
    simp [encodeDict, decodeDict, canonDict, vr x h'.2.1, vrD t h'.2.2]
end

theorem value_roundtrip (v : PV) (h : WF v) : decode (encode v) = canon v := vr v h

theorem key_roundtrip (hs : IntStrOK) (k : Key) (hk : KeyOK k) : intifyKey (stringifyKey k) = k := by
  cases k with
  | int i => simp [stringifyKey, intifyKey, (hs i).1, (hs i).2]
  | str s =>
    have : isIntString s = false := hk
    simp [stringifyKey, intifyKey, this]

theorem json_roundtrip (hs : IntStrOK) (d : List (Key × PV)) (hk : ∀ kv ∈ d, KeyOK kv.1 ∧ WF kv.2) :
    roundTrip d = d.map fun kv => (kv.1, canon kv.2) := by
  unfold roundTrip
  apply List.map_congr_left
  intro kv hkv
  rw [key_roundtrip hs kv.1 (hk kv hkv).1, value_roundtrip kv.2 (hk kv hkv).2]

theorem isIntString_neg_example : isIntString "-1" = true ∧ isIntString "12" = true ∧
    isIntString "1x" = false ∧ isIntString "-" = false ∧ isIntString "" = false := by
  decide

/-! ### TSV / CSV tables -/

theorem insert_perm (x : String) (l : List String) : (sortStrings.insert x l).Perm (x :: l) := by
  induction l with
  | nil => simp [sortStrings.insert]
  | cons y ys ih =>
    simp only [sortStrings.insert]
    split
    · exact List.Perm.refl _
    · exact (List.Perm.cons y ih).trans (List.Perm.swap x y ys)

theorem sortStrings_perm (l : List String) : (sortStrings l).Perm l := by
  induction l with
  | nil => simp [sortStrings]
  | cons x xs ih =>
    have : sortStrings (x :: xs) = sortStrings.insert x (sortStrings xs) := by simp [sortStrings]
    rw [this]
    exact (insert_perm x _).trans (List.Perm.cons x ih)

theorem nodup_eraseDups (l : List String) : l.eraseDups.Nodup := by
  generalize hn : l.length = n
  induction n using Nat.strongRecOn generalizing l with
  | _ n ih =>
    cases l with
    | nil => simp
    | cons a as =>
      rw [List.eraseDups_cons, List.nodup_cons]
      refine ⟨?_, ih _ ?_ _ rfl⟩
      · simp [List.mem_eraseDups]
      · have := List.length_filter_le (fun b => !b == a) as
        simp at hn; omega

/-- the header line of `write_tsv` -/
def header (rows : List (List (String × Cell))) (first : Option String) : List String :=
  let fields := (rows.flatMap fun r => r.map (·.1)).eraseDups
  match first with
  | some f => if fields.contains f then f :: sortStrings (fields.erase f) else sortStrings fields
  | none => sortStrings fields

theorem writeTsv_eq (render : Cell → String) (rows : List (List (String × Cell))) (first : Option String) :
    writeTsv render rows first =
      if rows.isEmpty then none else
        some (header rows first, rows.map fun r => (header rows first).map fun f =>
          match r.lookup f with
          | some c => render c
          | none => "") := rfl

theorem header_perm (rows : List (List (String × Cell))) (first : Option String) :
    (header rows first).Perm (rows.flatMap fun r => r.map (·.1)).eraseDups := by
  unfold header
  cases first with
  | none => exact sortStrings_perm _
  | some f =>
    simp only
    split
    · rename_i hc
      have hm := List.contains_iff_mem.mp hc
      exact (List.Perm.cons f (sortStrings_perm _)).trans (List.perm_cons_erase hm).symm
    · exact sortStrings_perm _

theorem header_nodup (rows : List (List (String × Cell))) (first : Option String) :
    (header rows first).Nodup :=
  (header_perm rows first).nodup_iff.mpr (nodup_eraseDups _)

theorem mem_header (rows : List (List (String × Cell))) (first : Option String)
    (r : List (String × Cell)) (hr : r ∈ rows) (fc : String × Cell) (hfc : fc ∈ r) :
    fc.1 ∈ header rows first := by
  rw [(header_perm rows first).mem_iff, List.mem_eraseDups, List.mem_flatMap]
  exact ⟨r, hr, List.mem_map.mpr ⟨fc, hfc, rfl⟩⟩

theorem mem_of_lookup_eq_some {f : String} {c : Cell} :
    ∀ {r : List (String × Cell)}, r.lookup f = some c → (f, c) ∈ r
  | [], h => by simp at h
  | (k, v) :: t, h => by
    rw [List.lookup_cons] at h
    by_cases hk : (f == k) = true
    · rw [hk] at h
      have hfk : f = k := by simpa using hk
      have hv : v = c := Option.some.inj h
      subst hfk; subst hv
      exact List.mem_cons_self
    · have hk' : (f == k) = false := by simpa using hk
      rw [hk'] at h
      exact List.mem_cons_of_mem _ (mem_of_lookup_eq_some h)

/-- one line written then read back (cells of the row in the domain `D`) -/
theorem line_roundtrip_on (D : Cell → Prop) (render : Cell → String) (parse : String → Cell)
    (hrt : ∀ c, D c → parse (render c) = c) (hne : ∀ c, D c → render c ≠ "")
    (r : List (String × Cell)) (hD : ∀ fc ∈ r, D fc.2) (fields : List String) :
    (((fields.zip (fields.map fun f =>
        match r.lookup f with
        | some c => render c
        | none => "")).filter fun p => p.2 != "").map fun p => (p.1, parse p.2)) =
      fields.filterMap fun f => (r.lookup f).map fun c => (f, c) := by
  induction fields with
  | nil => simp
  | cons f fs ih =>
    simp only [List.map_cons, List.zip_cons_cons, List.filterMap_cons]
    cases hl : r.lookup f with
    | none => simpa [List.filter_cons] using ih
    | some c =>
      have hc : D c := hD (f, c) (mem_of_lookup_eq_some hl)
      simpa [List.filter_cons, hne c hc, hrt c hc] using ih

/- `hnodup` is not needed by the proof: `expectedRows` and `writeTsv` both use `List.lookup`
(first occurrence of a field), so duplicate field names inside a row are handled consistently. -/
set_option linter.unusedVariables false in
theorem tsv_roundtrip_on (D : Cell → Prop) (render : Cell → String) (parse : String → Cell)
    (hrt : ∀ c, D c → parse (render c) = c) (hne : ∀ c, D c → render c ≠ "")
    (rows : List (List (String × Cell))) (first : Option String)
    (hnodup : ∀ r ∈ rows, (r.map (·.1)).Nodup) (hD : ∀ r ∈ rows, ∀ fc ∈ r, D fc.2)
    (file : List String × List (List String))
    (hw : writeTsv render rows first = some file) :
    readTsv parse file = expectedRows file.1 rows ∧
    (∀ r ∈ rows, ∀ fc ∈ r, fc.1 ∈ file.1) ∧ file.1.Nodup := by
  rw [writeTsv_eq] at hw
  split at hw
  · exact absurd hw (by simp)
  · have hfile := (Option.some.inj hw).symm
    subst hfile
    refine ⟨?_, fun r hr fc hfc => mem_header rows first r hr fc hfc, header_nodup rows first⟩
    simp only [readTsv, expectedRows, List.map_map]
    apply List.map_congr_left
    intro r hr
    exact line_roundtrip_on D render parse hrt hne r (hD r hr) _

/-- the unrestricted form: the domain is every cell -/
theorem tsv_roundtrip (render : Cell → String) (parse : String → Cell)
    (hrt : ∀ c, parse (render c) = c) (hne : ∀ c, render c ≠ "")
    (rows : List (List (String × Cell))) (first : Option String)
    (hnodup : ∀ r ∈ rows, (r.map (·.1)).Nodup) (file : List String × List (List String))
    (hw : writeTsv render rows first = some file) :
    readTsv parse file = expectedRows file.1 rows ∧
    (∀ r ∈ rows, ∀ fc ∈ r, fc.1 ∈ file.1) ∧ file.1.Nodup :=
  tsv_roundtrip_on (fun _ => True) render parse (fun c _ => hrt c) (fun c _ => hne c)
    rows first hnodup (fun _ _ _ _ => trivial) file hw

theorem tsv_first_field_first (render : Cell → String) (rows : List (List (String × Cell))) (f : String)
    (hf : ∃ r ∈ rows, f ∈ r.map (·.1)) (file : List String × List (List String))
    (hw : writeTsv render rows (some f) = some file) : file.1.head? = some f := by
  rw [writeTsv_eq] at hw
  split at hw
  · exact absurd hw (by simp)
  · have hfile := (Option.some.inj hw).symm
    subst hfile
    obtain ⟨r, hr, hfr⟩ := hf
    have hm : f ∈ (rows.flatMap fun r => r.map (·.1)).eraseDups := by
      rw [List.mem_eraseDups, List.mem_flatMap]
      exact ⟨r, hr, hfr⟩
    show (header rows (some f)).head? = some f
    unfold header
    simp only
    rw [if_pos (List.contains_iff_mem.mpr hm)]
    rfl

/-! ### Bonus: the transport hypothesis `IntStrOK` holds for `intToStr := toString` -/

theorem parseNat_eq (cs : List Char) : parseNat cs = Nat.ofDigitChars 10 cs 0 := by
  unfold parseNat Nat.ofDigitChars
  generalize 0 = init
  induction cs generalizing init with
  | nil => rfl
  | cons c cs ih => simp only [List.foldl_cons]; rw [Nat.mul_comm]; exact ih _

theorem parseNat_toDigits (n : Nat) : parseNat (Nat.toDigits 10 n) = n := by
  rw [parseNat_eq]; exact Nat.ofDigitChars_ten_toDigits

theorem all_isDigit_toDigits (n : Nat) : (Nat.toDigits 10 n).all Char.isDigit = true := by
  rw [List.all_eq_true]
  intro c hc
  exact Nat.isDigit_of_mem_toDigits (by decide) (by decide) hc

theorem isIntString_of_nonneg {s : String} {c : Char} {cs : List Char} (h : s.toList = c :: cs)
    (hc : c ≠ '-') : isIntString s = (c :: cs).all Char.isDigit ∧ parseInt s = (parseNat (c :: cs) : Nat) := by
  unfold isIntString parseInt
  rw [h]
  constructor
  · show (match c :: cs with
      | [] => false
      | '-' :: rest => !rest.isEmpty && rest.all Char.isDigit
      | _ => (c :: cs).all Char.isDigit) = _
    split
    · contradiction
    · rename_i h'; injection h' with h1 _; exact absurd h1 hc
    · rfl
  · split
    · rename_i h'; injection h' with h1 _; exact absurd h1 hc
    · rfl

theorem isIntString_of_neg {s : String} {rest : List Char} (h : s.toList = '-' :: rest) :
    isIntString s = (!rest.isEmpty && rest.all Char.isDigit) ∧ parseInt s = -((parseNat rest : Nat) : Int) := by
  unfold isIntString parseInt
  rw [h]
  exact ⟨rfl, rfl⟩

theorem natRepr_ok (n : Nat) : ∃ c cs, n.repr.toList = c :: cs ∧ c ≠ '-' ∧ (c :: cs).all Char.isDigit = true
    ∧ parseNat (c :: cs) = n := by
  have hl : n.repr.toList = Nat.toDigits 10 n := Nat.toList_repr
  have hall := all_isDigit_toDigits n
  have hp := parseNat_toDigits n
  cases hd : Nat.toDigits 10 n with
  | nil => exact absurd hd Nat.toDigits_ne_nil
  | cons c cs =>
    rw [hd] at hall hp
    refine ⟨c, cs, by rw [hl, hd], ?_, hall, hp⟩
    intro hc
    subst hc
    simp at hall

/-- the transport hypothesis `IntStrOK` holds for the concrete `intToStr := toString` -/
theorem intStrOK : IntStrOK := by
  intro i
  unfold intToStr
  rw [Int.toString_eq_repr, Int.repr_eq_if]
  split
  · rename_i hi
    obtain ⟨c, cs, h, hc, hall, hp⟩ := natRepr_ok i.toNat
    obtain ⟨h1, h2⟩ := isIntString_of_nonneg h hc
    rw [h1, h2, hall, hp]
    exact ⟨rfl, Int.toNat_of_nonneg hi⟩
  · rename_i hi
    obtain ⟨c, cs, h, hc, hall, hp⟩ := natRepr_ok (-i).toNat
    have h' : ("-" ++ (-i).toNat.repr).toList = '-' :: (c :: cs) := by
      rw [String.toList_append, h]; rfl
    obtain ⟨h1, h2⟩ := isIntString_of_neg h'
    rw [h1, h2, hall, hp]
    refine ⟨rfl, ?_⟩
    omega

/-! ### The concrete `str` / `_try_make_number` instance on integers and alphabetic labels -/

/-- a letter is neither '-' nor a digit -/
theorem not_isDigit_of_isAlpha {c : Char} (h : c.isAlpha = true) : c.isDigit = false ∧ c ≠ '-' := by
  simp only [Char.isAlpha, Char.isUpper, Char.isLower, Char.isDigit, Bool.or_eq_true,
    Bool.and_eq_true, decide_eq_true_eq] at h ⊢
  refine ⟨?_, ?_⟩
  · rcases h with h | h <;> simp [UInt32.le_iff_toNat_le] at h ⊢ <;> omega
  · intro hc; subst hc; revert h; decide

/-- a non-empty alphabetic string is not the decimal form of an integer -/
theorem isIntString_alpha {s : String} (hne : s ≠ "") (hal : s.toList.all Char.isAlpha = true) :
    isIntString s = false := by
  cases hs : s.toList with
  | nil => exact absurd (String.toList_eq_nil_iff.mp hs) hne
  | cons c cs =>
    rw [hs] at hal
    have hc : c.isAlpha = true := by simp at hal; exact hal.1
    obtain ⟨hd, hm⟩ := not_isDigit_of_isAlpha hc
    rw [(isIntString_of_nonneg hs hm).1]
    simp [hd]

theorem renderPy_ne (c : Cell) (hc : CellPy c) : renderPy c ≠ "" := by
  cases c with
  | int i =>
    intro h
    have := (intStrOK i).1
    simp only [renderPy] at h
    rw [h] at this
    revert this; decide
  | text s => exact hc.1
  | float _ => exact absurd hc (by simp [CellPy])

theorem parsePy_renderPy (c : Cell) (hc : CellPy c) : parsePy (renderPy c) = c := by
  cases c with
  | int i => simp [renderPy, parsePy, (intStrOK i).1, (intStrOK i).2]
  | text s => simp [renderPy, parsePy, isIntString_alpha hc.1 hc.2]
  | float _ => exact absurd hc (by simp [CellPy])

theorem tsv_roundtrip_py (rows : List (List (String × Cell))) (first : Option String)
    (hnodup : ∀ r ∈ rows, (r.map (·.1)).Nodup) (hD : ∀ r ∈ rows, ∀ fc ∈ r, CellPy fc.2)
    (file : List String × List (List String))
    (hw : writeTsv renderPy rows first = some file) :
    readTsv parsePy file = expectedRows file.1 rows ∧
    (∀ r ∈ rows, ∀ fc ∈ r, fc.1 ∈ file.1) ∧ file.1.Nodup :=
  tsv_roundtrip_on CellPy renderPy parsePy parsePy_renderPy renderPy_ne rows first hnodup hD file hw

end PhyVerif.C18.Lemmas
