import PhyVerif.Model.C01
import PhyVerif.Spec.C01
import PhyVerif.Lemmas.Np
import PhyVerif.Lemmas.C07
/-! Helper lemmas and full proofs for C01. Statements: `Props/C01.lean`. -/
namespace PhyVerif.C01.Lemmas
open PhyVerif PhyVerif.C01

/-! ### `bounds` -/

theorem boundsFrom_length {α : Type} (parts : List (List α)) :
    ∀ off, (boundsFrom off parts).length = parts.length + 1 := by
  induction parts with
  | nil => intro off; rfl
  | cons p ps ih => intro off; simp [boundsFrom, ih]

theorem boundsFrom_getElem? {α : Type} (parts : List (List α)) :
    ∀ off j, j ≤ parts.length →
      (boundsFrom off parts)[j]? = some (off + (parts.take j).flatten.length) := by
  induction parts with
  | nil =>
    intro off j hj
    have : j = 0 := by simpa using hj
    subst this; simp [boundsFrom]
  | cons p ps ih =>
    intro off j hj
    cases j with
    | zero => simp [boundsFrom]
    | succ j =>
      have hj' : j ≤ ps.length := by simpa using hj
      simp only [boundsFrom, List.getElem?_cons_succ, ih _ j hj', List.take_succ_cons,
        List.flatten_cons, List.length_append]
      congr 1; omega

theorem le_of_mem_boundsFrom {α : Type} (parts : List (List α)) :
    ∀ off y, y ∈ boundsFrom off parts → off ≤ y := by
  induction parts with
  | nil => intro off y hy; simp [boundsFrom] at hy; omega
  | cons p ps ih =>
    intro off y hy
    simp only [boundsFrom, List.mem_cons] at hy
    rcases hy with rfl | hy
    · exact Nat.le_refl _
    · have := ih _ _ hy; omega

theorem boundsFrom_sorted {α : Type} (parts : List (List α)) :
    ∀ off, (boundsFrom off parts).Pairwise (· ≤ ·) := by
  induction parts with
  | nil => intro off; simp [boundsFrom]
  | cons p ps ih =>
    intro off
    simp only [boundsFrom]
    refine List.pairwise_cons.2 ⟨fun y hy => ?_, ih _⟩
    have := le_of_mem_boundsFrom ps _ y hy; omega

theorem getLast?_boundsFrom {α : Type} (parts : List (List α)) :
    ∀ off, (boundsFrom off parts).getLast? = some (off + parts.flatten.length) := by
  induction parts with
  | nil => intro off; simp [boundsFrom]
  | cons p ps ih =>
    intro off
    simp only [boundsFrom, List.getLast?_cons, ih, List.flatten_cons, List.length_append,
      Option.getD_some]
    congr 1; omega

theorem nSamples_eq {α : Type} (parts : List (List α)) :
    (bounds parts).getLast? = some parts.flatten.length := by
  simpa [bounds] using getLast?_boundsFrom parts 0

theorem memmapRows_exact (off isz nch rows : Nat) (h1 : 0 < isz) (h2 : 0 < nch) :
    memmapRows (off + rows * nch * isz) off isz nch = rows := by
  unfold memmapRows
  rw [Nat.add_sub_cancel_left, Nat.mul_assoc, Nat.mul_comm nch isz]
  exact Nat.mul_div_cancel _ (Nat.mul_pos h1 h2)


/-- cumulated length of the first `j` parts = start offset of part `j` -/
def startOf {α : Type} (parts : List (List α)) (j : Nat) : Nat := (parts.take j).flatten.length

theorem bounds_getElem? {α : Type} (parts : List (List α)) (j : Nat) (hj : j ≤ parts.length) :
    (bounds parts)[j]? = some (startOf parts j) := by
  simpa [bounds, startOf] using boundsFrom_getElem? parts 0 j hj

theorem bounds_length {α : Type} (parts : List (List α)) :
    (bounds parts).length = parts.length + 1 := boundsFrom_length parts 0

theorem bounds_getElem {α : Type} (parts : List (List α)) (j : Nat) (hj : j < (bounds parts).length) :
    (bounds parts)[j] = startOf parts j := by
  have h := bounds_getElem? parts j (by rw [bounds_length] at hj; omega)
  rw [List.getElem?_eq_getElem hj] at h
  exact Option.some.inj h

theorem startOf_zero {α : Type} (parts : List (List α)) : startOf parts 0 = 0 := by
  simp [startOf]

theorem startOf_length {α : Type} (parts : List (List α)) :
    startOf parts parts.length = parts.flatten.length := by
  simp [startOf]

theorem startOf_succ {α : Type} (parts : List (List α)) (j : Nat) (hj : j < parts.length) :
    startOf parts (j + 1) = startOf parts j + parts[j].length := by
  unfold startOf
  rw [List.take_succ_eq_append_getElem hj, List.flatten_append, List.length_append]
  simp

/-! ### `searchsorted(·, 'right')` on a sorted list -/

theorem le_iff_lt_countP (b : List Nat) (hb : b.Pairwise (· ≤ ·)) (x : Nat) :
    ∀ j (h : j < b.length), (b[j] ≤ x ↔ j < b.countP (· ≤ x)) := by
  induction b with
  | nil => intro j h; simp at h
  | cons a t ih =>
    intro j h
    rw [List.pairwise_cons] at hb
    by_cases hax : a ≤ x
    · cases j with
      | zero => simp [hax]
      | succ j =>
        have hj : j < t.length := by simpa using h
        have := ih hb.2 j hj
        simp only [List.getElem_cons_succ, List.countP_cons, hax, decide_true, if_true]
        omega
    · have h0 : t.countP (· ≤ x) = 0 := by
        rw [List.countP_eq_zero]
        intro y hy
        have := hb.1 y hy
        simp only [decide_eq_true_eq]; omega
      cases j with
      | zero => simp [hax, h0]
      | succ j =>
        have hj : j < t.length := by simpa using h
        have : a ≤ t[j] := hb.1 _ (List.getElem_mem _)
        simp only [List.getElem_cons_succ, List.countP_cons, hax, decide_false, h0]
        simp; omega

theorem ssRight_mono (b : List Nat) {x y : Nat} (h : x ≤ y) : ssRight b x ≤ ssRight b y := by
  unfold ssRight
  apply List.countP_mono_left
  intro z _ hz
  simp only [decide_eq_true_eq] at hz ⊢; omega

/-- the chunk found by `_find_chunks` is the part containing the sample -/
theorem chunk_spec {α : Type} (parts : List (List α)) (x : Nat) (hx : x < parts.flatten.length) :
    ssRight (bounds parts) x - 1 < parts.length ∧
    startOf parts (ssRight (bounds parts) x - 1) ≤ x ∧
    x < startOf parts (ssRight (bounds parts) x - 1 + 1) := by
  have hlen := bounds_length parts
  have hiff := le_iff_lt_countP (bounds parts) (boundsFrom_sorted parts 0) x
  have h0 := hiff 0 (by omega)
  have hl := hiff parts.length (by omega)
  rw [bounds_getElem, startOf_zero] at h0
  rw [bounds_getElem, startOf_length] at hl
  have hc := hiff (ssRight (bounds parts) x - 1)
  have hc1 := hiff (ssRight (bounds parts) x - 1 + 1)
  unfold ssRight at *
  have hA : 0 < (bounds parts).countP (· ≤ x) := h0.1 (Nat.zero_le _)
  have hB : (bounds parts).countP (· ≤ x) ≤ parts.length := by
    apply Nat.le_of_not_lt; intro h; have := hl.2 h; omega
  have hc := hc (by omega)
  have hc1 := hc1 (by omega)
  rw [bounds_getElem] at hc hc1
  refine ⟨by omega, hc.2 (by omega), ?_⟩
  apply Nat.lt_of_not_le; intro h; have := hc1.1 h; omega

/-- conversely a sample inside part `c` is assigned chunk `c` -/
theorem chunk_unique {α : Type} (parts : List (List α)) (x c : Nat) (hc : c < parts.length)
    (h1 : startOf parts c ≤ x) (h2 : x < startOf parts (c + 1)) :
    ssRight (bounds parts) x - 1 = c := by
  have hlen := bounds_length parts
  have hiff := le_iff_lt_countP (bounds parts) (boundsFrom_sorted parts 0) x
  have ha := hiff c (by omega)
  have hb := hiff (c + 1) (by omega)
  rw [bounds_getElem] at ha hb
  unfold ssRight
  have := ha.1 h1
  have : ¬ c + 1 < (bounds parts).countP (· ≤ x) := fun h => by have := hb.2 h; omega
  omega

/-- row `x` of the concatenation is row `x - i0` of the part that contains it -/
theorem part_getElem? {α : Type} (parts : List (List α)) :
    ∀ (c x : Nat) (hc : c < parts.length), startOf parts c ≤ x → x < startOf parts (c + 1) →
      parts[c][x - startOf parts c]? = parts.flatten[x]? := by
  induction parts with
  | nil => intro c x hc; simp at hc
  | cons p ps ih =>
    intro c x hc h1 h2
    cases c with
    | zero =>
      simp only [startOf, List.take_zero, List.flatten_nil, List.length_nil, Nat.sub_zero,
        List.getElem_cons_zero, List.flatten_cons] at h2 ⊢
      simp at h2
      rw [List.getElem?_append_left h2]
    | succ c =>
      have hc' : c < ps.length := by simpa using hc
      simp only [startOf, List.take_succ_cons, List.flatten_cons, List.length_append] at h1 h2 ⊢
      have := ih c (x - p.length) hc' (by simp only [startOf]; omega) (by simp only [startOf]; omega)
      simp only [startOf] at this
      rw [List.getElem_cons_succ, List.getElem?_append_right (by omega), ← this]
      congr 1; omega


/-! ### int branch -/

theorem readInt_eq {α : Type} (parts : List (List α)) (x : Nat) (hx : x < parts.flatten.length) :
    readInt parts x = (parts.flatten[x]?).map fun r => [r] := by
  obtain ⟨hc, h1, h2⟩ := chunk_spec parts x hx
  unfold readInt
  simp only []
  rw [if_neg (by rw [bounds_length]; omega), bounds_getElem? parts _ (by omega),
    List.getElem?_eq_getElem hc]
  simp only []
  rw [part_getElem? parts _ x hc h1 h2]

/-! ### slice branch -/

theorem slicePart_eq_nil_of_le {α : Type} (s e i0 : Nat) (p : List α) (h : i0 + p.length ≤ s) :
    slicePart s e i0 p = [] := by
  unfold slicePart
  rw [List.drop_eq_nil_of_le (by omega), List.take_nil]

theorem slicePart_eq_nil_of_ge {α : Type} (s e i0 : Nat) (p : List α) (h : e ≤ i0) :
    slicePart s e i0 p = [] := by
  unfold slicePart
  have : min p.length (e - i0) - (s - i0) = 0 := by omega
  rw [this]; rfl

/-- reading every part and stacking gives the slice of the concatenation -/
theorem walk_all {α : Type} (s e : Nat) (parts : List (List α)) :
    ∀ off, (((boundsFrom off parts).zip parts).map fun ip => slicePart s e ip.1 ip.2).flatten
      = (parts.flatten.drop (s - off)).take ((e - off) - (s - off)) := by
  induction parts with
  | nil => intro off; simp [boundsFrom]
  | cons p ps ih =>
    intro off
    simp only [boundsFrom, List.zip_cons_cons, List.map_cons, List.flatten_cons, ih,
      List.drop_append, List.take_append, List.length_drop]
    congr 1
    · unfold slicePart
      rw [List.take_eq_take_iff, List.length_drop]; omega
    · congr 1
      · omega
      · congr 1; omega

theorem flatten_map_eq_nil {β γ : Type} (f : β → List γ) (L : List β) (h : ∀ y ∈ L, f y = []) :
    (L.map f).flatten = [] := by
  rw [List.flatten_eq_nil_iff]
  intro l hl
  obtain ⟨y, hy, rfl⟩ := List.mem_map.1 hl
  exact h y hy

theorem flatten_map_window {β γ : Type} (f : β → List γ) (L : List β) (a k : Nat)
    (h1 : ∀ y ∈ L.take a, f y = []) (h2 : ∀ y ∈ (L.drop a).drop k, f y = []) :
    (((L.drop a).take k).map f).flatten = (L.map f).flatten := by
  conv => rhs; rw [← List.take_append_drop a L, ← List.take_append_drop k (L.drop a)]
  simp only [List.map_append, List.flatten_append, flatten_map_eq_nil f _ h1,
    flatten_map_eq_nil f _ h2, List.nil_append, List.append_nil]

theorem readSlice_eq {α : Type} (parts : List (List α)) (s e : Nat) (he : 1 ≤ e) :
    readSlice parts s e = (parts.flatten.drop s).take (e - s) := by
  have hw := walk_all s e parts 0
  simp only [Nat.sub_zero] at hw
  rw [← hw]
  unfold readSlice
  simp only []
  have hlen := bounds_length parts
  have hzl : ((bounds parts).zip parts).length = parts.length := by
    rw [List.length_zip, hlen]; omega
  have hsorted := boundsFrom_sorted parts 0
  apply flatten_map_window
  · intro y hy
    obtain ⟨j, hj, rfl⟩ := List.mem_take_iff_getElem.1 hy
    have hj' : j < parts.length := by omega
    rw [List.getElem_zip]
    simp only []
    apply slicePart_eq_nil_of_le
    have := (le_iff_lt_countP (bounds parts) hsorted s (j + 1) (by omega)).2
      (by unfold ssRight at hj; omega)
    rw [bounds_getElem, startOf_succ _ _ hj'] at this
    rw [bounds_getElem]; exact this
  · intro y hy
    rw [List.drop_drop] at hy
    obtain ⟨j, hj, rfl⟩ := List.mem_drop_iff_getElem.1 hy
    rw [List.getElem_zip]
    simp only []
    apply slicePart_eq_nil_of_ge
    have h0 := (le_iff_lt_countP (bounds parts) hsorted (e - 1) 0 (by omega)).1
      (by rw [bounds_getElem, startOf_zero]; omega)
    have hh := (le_iff_lt_countP (bounds parts) hsorted (e - 1)
      (ssRight (bounds parts) s - 1 + (ssRight (bounds parts) (e - 1) - 1 + 1 -
        (ssRight (bounds parts) s - 1)) + j) (by omega))
    have hmono := ssRight_mono (bounds parts) (show s ≤ s from Nat.le_refl _)
    unfold ssRight at *
    omega


/-! ### slice normalisation -/

theorem take_range' {α : Type} (A : List α) : ∀ (k s : Nat),
    Np.take A (List.range' s k) = (A.drop s).take k := by
  intro k
  induction k with
  | zero => intro s; simp [Np.take]
  | succ k ih =>
    intro s
    have ih' := ih (s + 1)
    unfold Np.take at ih' ⊢
    rw [List.range'_succ, List.filterMap_cons]
    by_cases hs : s < A.length
    · rw [List.getElem?_eq_getElem hs]
      simp only []
      rw [ih', List.drop_eq_getElem_cons hs, List.take_succ_cons]
    · rw [List.getElem?_eq_none (by omega)]
      simp only []
      rw [ih', List.drop_eq_nil_of_le (by omega), List.drop_eq_nil_of_le (by omega)]
      simp

theorem neg_emod (v n : Int) (h1 : -n ≤ v) (h2 : v < 0) : v % n = v + n := by
  rw [← Int.add_emod_right]
  exact Int.emod_eq_of_lt (by omega) (by omega)

/-- NumPy's start/stop of a unit-step slice (as in `slice.indices`) -/
def npStart (n : Int) : Option Int → Int
  | none => 0
  | some s => if s < 0 then max (s + n) 0 else min s n
def npStop (n : Int) : Option Int → Int
  | none => n
  | some e => if e < 0 then max (e + n) 0 else min e n

theorem sliceIdx_one (n : Nat) (start stop : Option Int) :
    Np.sliceIdx n start stop 1 =
      List.range' (npStart n start).toNat (npStop n stop - npStart n start).toNat := by
  have hs0 : 0 ≤ npStart n start := by
    unfold npStart; split
    · omega
    · split <;> omega
  unfold Np.sliceIdx
  simp only [show (1 : Int) > 0 by decide, if_true]
  change (List.range (if npStart n start < npStop n stop then
      ((npStop n stop - npStart n start + 1 - 1) / 1).toNat else 0)).map
      (fun (k : Nat) => (npStart n start + Int.ofNat k * 1).toNat) = _
  rw [List.range'_eq_map_range]
  have hcnt : (if npStart n start < npStop n stop then
      ((npStop n stop - npStart n start + 1 - 1) / 1).toNat else 0)
      = (npStop n stop - npStart n start).toNat := by
    split
    · congr 1; rw [Int.ediv_one]; omega
    · omega
  rw [hcnt]
  apply List.map_congr_left
  intro k _
  simp only [Int.ofNat_eq_natCast, Int.mul_one]
  omega

theorem slice_norm (n : Nat) (start stop : Option Int)
    (hs : ∀ s, start = some s → -(n : Int) ≤ s ∧ s ≤ n)
    (he : ∀ e, stop = some e → -(n : Int) ≤ e ∧ e ≤ n)
    (hne : Np.sliceIdx n start stop 1 ≠ []) :
    ∃ s e : Nat, s < e ∧ e ≤ n ∧ normBound (pyOr start 0) n = s ∧ normBound (pyOr stop n) n = e ∧
      Np.sliceIdx n start stop 1 = List.range' s (e - s) := by
  rw [sliceIdx_one] at hne ⊢
  have hlt : npStart n start < npStop n stop := by
    apply Int.lt_of_not_ge; intro h
    apply hne
    rw [show (npStop n stop - npStart n start).toNat = 0 by omega]; rfl
  have hS : normBound (pyOr start 0) n = npStart n start ∧ 0 ≤ npStart n start := by
    cases start with
    | none => simp [pyOr, normBound, npStart]; omega
    | some v =>
      have := hs v rfl
      unfold pyOr normBound npStart
      simp only []
      by_cases hv0 : v = 0
      · subst hv0; simp; omega
      · rw [if_neg hv0]
        by_cases hneg : v < 0
        · rw [if_pos hneg, if_pos hneg, neg_emod v n (by omega) hneg]; omega
        · rw [if_neg hneg, if_neg hneg]; omega
  have hE : normBound (pyOr stop n) n = npStop n stop ∧ npStop n stop ≤ n := by
    cases stop with
    | none =>
      rw [show pyOr none (n : Int) = n from rfl]
      unfold normBound npStop
      simp only []
      rw [if_neg (by omega)]; omega
    | some v =>
      have := he v rfl
      by_cases hv0 : v = 0
      · subst hv0
        exfalso
        simp only [npStop] at hlt
        omega
      · unfold pyOr normBound npStop
        simp only []
        rw [if_neg hv0]
        by_cases hneg : v < 0
        · rw [if_pos hneg, if_pos hneg, neg_emod v n (by omega) hneg]; omega
        · rw [if_neg hneg, if_neg hneg]; omega
  refine ⟨(npStart n start).toNat, (npStop n stop).toNat, by omega, by omega, by omega, by omega, ?_⟩
  congr 1; omega


/-! ### list branch -/

/-- a list that is monotone in `f` splits into the run with the minimal key and the rest -/
theorem filter_split {β : Type} (f : β → Nat) (c : Nat) (l : List β)
    (hl : l.Pairwise (fun a b => f a ≤ f b)) (hc : ∀ x ∈ l, c ≤ f x) :
    l.filter (fun x => f x == c) ++ l.filter (fun x => f x != c) = l := by
  induction l with
  | nil => rfl
  | cons x xs ih =>
    rw [List.pairwise_cons] at hl
    have ih' := ih hl.2 (fun y hy => hc y (List.mem_cons_of_mem _ hy))
    by_cases hx : f x = c
    · simp only [List.filter_cons, hx, beq_self_eq_true, if_true, bne_self_eq_false,
        Bool.false_eq_true, if_false, List.cons_append, ih']
    · have h1 : xs.filter (fun y => f y == c) = [] := by
        rw [List.filter_eq_nil_iff]
        intro y hy
        have := hl.1 y hy
        have := hc x (List.mem_cons_self ..)
        simp only [beq_iff_eq]; omega
      have h2 : xs.filter (fun y => f y != c) = xs := by
        rw [h1] at ih'; simpa using ih'
      simp [hx, h1, h2]

/-- grouping a key-monotone list by the increasing list of its keys and concatenating the groups
gives the list back -/
theorem group_flatten {β : Type} (f : β → Nat) (cs : List Nat) (hcs : cs.Pairwise (· < ·)) :
    ∀ (l : List β), l.Pairwise (fun a b => f a ≤ f b) → (∀ x ∈ l, f x ∈ cs) →
      (cs.map fun c => l.filter (fun x => f x == c)).flatten = l := by
  induction cs with
  | nil =>
    intro l _ hmem
    cases l with
    | nil => rfl
    | cons x xs => exact absurd (hmem x (List.mem_cons_self ..)) List.not_mem_nil
  | cons c cs ih =>
    intro l hl hmem
    rw [List.pairwise_cons] at hcs
    have hmin : ∀ x ∈ l, c ≤ f x := by
      intro x hx
      rcases List.mem_cons.1 (hmem x hx) with h | h
      · omega
      · exact Nat.le_of_lt (hcs.1 _ h)
    have hrest := ih hcs.2 (l.filter (fun x => f x != c)) (hl.filter _) (by
      intro x hx
      rw [List.mem_filter] at hx
      rcases List.mem_cons.1 (hmem x hx.1) with h | h
      · simp [h] at hx
      · exact h)
    have hcongr : (cs.map fun c' => l.filter (fun x => f x == c')) =
        cs.map fun c' => (l.filter (fun x => f x != c)).filter (fun x => f x == c') := by
      apply List.map_congr_left
      intro c' hc'
      rw [List.filter_filter]
      apply List.filter_congr
      intro x _
      have := hcs.1 c' hc'
      by_cases h : f x = c' <;> simp [h]; omega
    rw [List.map_cons, List.flatten_cons, hcongr, hrest]
    exact filter_split f c l hl hmin


theorem readList_eq {α : Type} (parts : List (List α)) (l : List Nat)
    (hl : l.Pairwise (· < ·)) (hlt : ∀ x ∈ l, x < parts.flatten.length) (d : α) :
    readList parts l = some (l.map fun x => (parts.flatten[x]?).getD d) := by
  let cid : Nat → Nat := fun x => ssRight (bounds parts) x - 1
  let G : Nat → α := fun x => (parts.flatten[x]?).getD d
  obtain ⟨hsorted, hmem⟩ := C07.Lemmas.unique_spec (l.map fun x => Int.ofNat (cid x))
  have hmem' : ∀ c, c ∈ Np.unique (l.map fun x => Int.ofNat (cid x)) ↔ ∃ x ∈ l, cid x = c := by
    intro c
    rw [hmem c]
    show Int.ofNat c ∈ List.map (fun x => Int.ofNat (cid x)) l ↔ _
    rw [List.mem_map]
    constructor
    · rintro ⟨x, hx, h⟩; exact ⟨x, hx, Int.ofNat.inj h⟩
    · rintro ⟨x, hx, h⟩; exact ⟨x, hx, by rw [h]⟩
  have hmono : l.Pairwise (fun a b => cid a ≤ cid b) := by
    apply hl.imp
    intro a b hab
    have := ssRight_mono (bounds parts) (Nat.le_of_lt hab)
    show ssRight (bounds parts) a - 1 ≤ ssRight (bounds parts) b - 1
    omega
  have hgroup := group_flatten cid _ hsorted l hmono (fun x hx => (hmem' _).2 ⟨x, hx, rfl⟩)
  unfold readList
  simp only []
  rw [Np.Lemmas.mapM_option_eq_some _ (fun c => (l.filter (fun x => cid x == c)).map G)]
  · rw [Option.map_some]
    congr 1
    have : (fun c => (l.filter (fun x => cid x == c)).map G) =
        (List.map G) ∘ (fun c => l.filter (fun x => cid x == c)) := rfl
    rw [this, ← List.map_map, ← List.map_flatten, hgroup]
  · intro c hc
    obtain ⟨x, hx, rfl⟩ := (hmem' c).1 hc
    obtain ⟨hc, h1, h2⟩ := chunk_spec parts x (hlt x hx)
    simp only [cid] at hc ⊢
    rw [if_neg (by rw [bounds_length]; omega), bounds_getElem? parts _ (by omega),
      bounds_getElem? parts _ (by omega), List.getElem?_eq_getElem hc]
    simp only []
    have hfilter : (l.filter fun y => decide (startOf parts (ssRight (bounds parts) x - 1) ≤ y) &&
          decide (y < startOf parts (ssRight (bounds parts) x - 1 + 1))) =
        l.filter (fun y => ssRight (bounds parts) y - 1 == ssRight (bounds parts) x - 1) := by
      apply List.filter_congr
      intro y hy
      rw [Bool.eq_iff_iff]
      simp only [Bool.and_eq_true, decide_eq_true_eq, beq_iff_eq]
      constructor
      · rintro ⟨ha, hb⟩
        exact chunk_unique parts y _ hc ha hb
      · intro h
        obtain ⟨_, h1', h2'⟩ := chunk_spec parts y (hlt y hy)
        have h : ssRight (bounds parts) y - 1 = ssRight (bounds parts) x - 1 := h
        rw [h] at h1' h2'
        exact ⟨h1', h2'⟩
    rw [hfilter]
    apply Np.Lemmas.mapM_option_eq_some
    intro y hy
    rw [List.mem_filter, beq_iff_eq] at hy
    obtain ⟨_, h1', h2'⟩ := chunk_spec parts y (hlt y hy.1)
    have h : ssRight (bounds parts) y - 1 = ssRight (bounds parts) x - 1 := hy.2
    rw [h] at h1' h2'
    rw [part_getElem? parts _ y hc h1' h2', List.getElem?_eq_getElem (hlt y hy.1)]
    show _ = some ((parts.flatten[y]?).getD d)
    rw [List.getElem?_eq_getElem (hlt y hy.1)]; rfl


/-! ### main statements -/

theorem nonempty_of_length_pos {α : Type} (A : List α) (h : 0 < A.length) : Nonempty α := by
  cases A with
  | nil => simp at h
  | cons a _ => exact ⟨a⟩

theorem npRows_list_eq {α : Type} (A : List α) (l : List Int)
    (h : ∀ i ∈ l, 0 ≤ i ∧ i < A.length) (d : α) :
    npRows A (.list l) = some ((l.map Int.toNat).map fun x => (A[x]?).getD d) := by
  unfold npRows
  simp only []
  rw [List.map_map]
  apply Np.Lemmas.mapM_option_eq_some
  intro i hi
  obtain ⟨h0, h1⟩ := h i hi
  rw [if_pos ⟨by omega, h1⟩, if_neg (by omega)]
  have : i.toNat < A.length := by omega
  simp [List.getElem?_eq_getElem this]

/-- the main equality; it needs neither `parts ≠ []` (implied by `InDom`) nor non-empty parts
(`bounds` is then only weakly increasing, which is all the chunk lookup uses) -/
theorem getRows_eq_concat' {α : Type} (parts : List (List α)) (it : Item)
    (hd : InDom parts.flatten.length it) :
    getRows parts it = npRows parts.flatten it := by
  have hn : (bounds parts).getLast?.getD 0 = parts.flatten.length := by rw [nSamples_eq]; rfl
  cases it with
  | int i =>
    obtain ⟨h1, h2⟩ := hd
    unfold getRows npRows
    simp only [hn]
    have hn0 : ¬ ((parts.flatten.length : Nat) : Int) = 0 := by omega
    rw [if_neg hn0, if_pos (And.intro h1 h2)]
    by_cases hneg : i < 0
    · simp only [if_pos hneg]
      rw [neg_emod i _ h1 hneg, if_neg (by omega)]
      exact readInt_eq parts _ (by omega)
    · simp only [if_neg hneg]
      exact readInt_eq parts _ (by omega)
  | slice start stop =>
    obtain ⟨hs, he, hne'⟩ := hd
    obtain ⟨s, e, hse, hen, hS, hE, hidx⟩ := slice_norm _ start stop hs he hne'
    unfold getRows npRows
    simp only [hn, hS, hE, hidx]
    rw [if_pos (by omega), if_neg (by omega), Int.toNat_natCast, Int.toNat_natCast,
      if_neg (by have := ssRight_mono (bounds parts) (show s ≤ e - 1 by omega); omega),
      readSlice_eq parts s e (by omega), take_range']
  | list l =>
    obtain ⟨hl0, hl1, hl2⟩ := hd
    have hpos : 0 < parts.flatten.length := by
      cases l with
      | nil => exact absurd rfl hl0
      | cons i _ => have := hl2 i (List.mem_cons_self ..); omega
    obtain ⟨d⟩ := nonempty_of_length_pos _ hpos
    rw [npRows_list_eq _ l hl2 d]
    unfold getRows
    simp only []
    rw [if_neg (by simpa using hl0), if_neg (by
      simp only [List.any_eq_true, decide_eq_true_eq, not_exists, not_and]
      intro i hi; have := hl2 i hi; omega)]
    apply readList_eq
    · rw [List.pairwise_map]
      apply hl1.imp_of_mem
      intro a b ha hb hab
      have := hl2 a ha; have := hl2 b hb; omega
    · intro x hx
      obtain ⟨i, hi, rfl⟩ := List.mem_map.1 hx
      have := hl2 i hi; omega

theorem npRows_some {α : Type} (A : List α) (it : Item) (hd : InDom A.length it) :
    ∃ rows, npRows A it = some rows ∧ rows ≠ [] := by
  cases it with
  | int i =>
    obtain ⟨h1, h2⟩ := hd
    have hlt : (if i < 0 then i + (A.length : Int) else i).toNat < A.length := by
      split <;> omega
    refine ⟨[A[(if i < 0 then i + (A.length : Int) else i).toNat]], ?_, by simp⟩
    unfold npRows
    simp only []
    rw [if_pos ⟨h1, h2⟩, List.getElem?_eq_getElem hlt]; rfl
  | slice start stop =>
    obtain ⟨hs, he, hne'⟩ := hd
    obtain ⟨s, e, hse, hen, _, _, hidx⟩ := slice_norm _ start stop hs he hne'
    refine ⟨_, rfl, ?_⟩
    rw [hidx, take_range']
    intro h
    have := congrArg List.length h
    simp only [List.length_take, List.length_drop, List.length_nil] at this
    omega
  | list l =>
    obtain ⟨hl0, hl1, hl2⟩ := hd
    have hpos : 0 < A.length := by
      cases l with
      | nil => exact absurd rfl hl0
      | cons i _ => have := hl2 i (List.mem_cons_self ..); omega
    obtain ⟨d⟩ := nonempty_of_length_pos _ hpos
    refine ⟨_, npRows_list_eq A l hl2 d, ?_⟩
    simpa using hl0

set_option linter.unusedVariables false in
theorem getRows_eq_concat {α : Type} (parts : List (List α)) (hp : parts ≠ [])
    (hne : ∀ p ∈ parts, p ≠ []) (it : Item) (hd : InDom parts.flatten.length it) :
    getRows parts it = npRows parts.flatten it :=
  getRows_eq_concat' parts it hd

set_option linter.unusedVariables false in
theorem getItem_eq_concat {β : Type} (parts : List (List (List β))) (hp : parts ≠ [])
    (hne : ∀ p ∈ parts, p ≠ []) (it : Item) (c : ColSel) (hd : InDom parts.flatten.length it) :
    getItem parts it c = (npRows parts.flatten it).map fun rows => rows.map (selCols c) := by
  unfold getItem
  rw [getRows_eq_concat' parts it hd]

end PhyVerif.C01.Lemmas
