import PhyVerif.Model.C01
import PhyVerif.Spec.C01
/-! Helper lemmas and full proofs for C01. Statements: `Props/C01.lean`. -/
namespace PhyVerif.C01.Lemmas
open PhyVerif PhyVerif.C01

theorem getRows_eq_concat {α : Type} (parts : List (List α)) (hp : parts ≠ [])
    (hne : ∀ p ∈ parts, p ≠ []) (it : Item) (hd : InDom parts.flatten.length it) :
    getRows parts it = npRows parts.flatten it := by
  sorry

theorem npRows_some {α : Type} (A : List α) (it : Item) (hd : InDom A.length it) :
    ∃ rows, npRows A it = some rows ∧ rows ≠ [] := by
  sorry

theorem getItem_eq_concat {β : Type} (parts : List (List (List β))) (hp : parts ≠ [])
    (hne : ∀ p ∈ parts, p ≠ []) (it : Item) (c : ColSel) (hd : InDom parts.flatten.length it) :
    getItem parts it c = (npRows parts.flatten it).map fun rows => rows.map (selCols c) := by
  sorry

theorem nSamples_eq {α : Type} (parts : List (List α)) :
    (bounds parts).getLast? = some parts.flatten.length := by
  sorry

theorem memmapRows_exact (off isz nch rows : Nat) (h1 : 0 < isz) (h2 : 0 < nch) :
    memmapRows (off + rows * nch * isz) off isz nch = rows := by
  sorry

end PhyVerif.C01.Lemmas
