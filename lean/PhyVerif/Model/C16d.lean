import PhyVerif.Model.C16c
import PhyVerif.Model.Fl
/-!
C16, chunk LENGTH of the readers as the float unit computes it.

  phylib/io/traces.py:339 / :422 / :453   chunk_size = int(round(DEFAULT_CHUNK_DURATION * sample_rate))
  mtscomp.py:326                          int(np.round(self.chunk_duration * self.sample_rate))

`Model/C16c.lean` (`chunkSize`, `mtsChunkSize`) rounds the EXACT product `600·rate` to the nearest integer.  The
code first forms the double product `600.0 * rate` — one IEEE-754 binary64 multiplication, i.e.
`Fl.roundDouble (600·rate)` for the exact value `rate` of the double handed to the reader — and only then calls
`round` (ties to even, exact on the double).  The two differ when the exact product lies within half an ulp of a
`.5` tie: e.g. `rate = 0x1.999999999999ap-4 = 0.1000000000000000055…`, `600·rate = 60.00000000000000333…` is not
affected, but a rate whose exact product lies just beside `k + 1/2` can round to the tie and then to the even neighbour: the
double 0.0225 has the exact product 13.4999999999999995… (→ 13) and the float product 13.5 (→ 14, what the real reader
computes) — theorem `chunkSizeFl_ne_chunkSize`, `Props/C16.lean`.

Not modelled: rates for which the product is subnormal or overflows (`Fl.InRange` fails; the real constructors
reject the former — chunk size 0, AssertionError, which is also what this model says: `chunkSizeFl_pos_iff` — and
`round(inf)` raises OverflowError where this model returns a finite chunk length), NaN.  The domain of sample rates
on which this model is the code is `C01.RateOK` (`Spec/C01b.lean`): `1/2 + 2^-54 < 600·rate < 2^1024 − 2^970`; the
correspondence run of C16 uses that same predicate to decide which rates the real constructor must accept and which
it must reject.  Sample rates given as NumPy scalars of ANOTHER precision (float32, float16, long double) are
multiplied in that precision: `Model/C16e.lean`.
-/
namespace PhyVerif.C16
open PhyVerif.Fl

/-- traces.py:339 / :422 / :453 with the float product: `int(round(fl(600.0 * rate)))` -/
def chunkSizeFl (rate : Rat) : Int := pyRound (roundDouble (defaultChunkDuration * rate))

/-- mtscomp.py:326 with the float product: `int(np.round(fl(chunk_duration * sample_rate)))` -/
def mtsChunkSizeFl (chunkDuration rate : Rat) : Int := pyRound (roundDouble (chunkDuration * rate))

/-- chunk bounds of a flat / in-memory / npy reader as a function of the sample RATE (traces.py:339-342), chunk
length computed by the float unit: `none` = `AssertionError` (`assert chunk_size > 0`). -/
def readerChunkBoundsFl (sizes : List Nat) (rate : Rat) : Option (List Nat) :=
  let cs := chunkSizeFl rate
  if cs ≤ 0 then none else some (getChunkBounds sizes cs.toNat)

end PhyVerif.C16
