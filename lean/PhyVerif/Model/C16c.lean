import PhyVerif.Model.C16
/-!
C16, chunk LENGTH of the readers (what `Model/C16.lean` takes as the parameter `cs`):

  phylib/io/traces.py:36   DEFAULT_CHUNK_DURATION = 600.0
  phylib/io/traces.py:339  chunk_size = int(round(DEFAULT_CHUNK_DURATION * sample_rate))   (Flat)
  phylib/io/traces.py:422  the same expression                                            (Array, Npy)
  phylib/io/traces.py:371  self.chunk_bounds = reader.chunk_bounds                        (compressed: the
                           table stored in the `.ch` file, written by mtscomp.Writer._compute_chunk_bounds
                           with chunk_size = int(np.round(chunk_duration * sample_rate)))

The sample rate is an exact rational (`Rat`); a float IS a rational, and the correspondence run sends the
exact value of the float it hands to the real reader.  Core Lean only (linked into the driver).
-/
namespace PhyVerif.C16

/-- Python `round(x)` (one argument) of a float with exact value `x`, and `np.round` of a float64
scalar: the nearest integer, ties go to the EVEN neighbour.  `int(...)` of the result is the identity.
`x = num/den` with `den > 0`, so `num / den` (`Int.ediv`) is the floor and `num % den ∈ [0, den)`. -/
def pyRound (x : Rat) : Int :=
  let q : Int := x.den
  let f := x.num / q
  let r := x.num % q
  if 2 * r < q then f
  else if q < 2 * r then f + 1
  else if f % 2 = 0 then f else f + 1

/-- traces.py:36 -/
def defaultChunkDuration : Rat := 600

/-- traces.py:339 / :422 / :453: `int(round(DEFAULT_CHUNK_DURATION * sample_rate))`.  An `Int`: the
expression itself accepts any rate; `_get_chunk_bounds` then asserts `chunk_size > 0` (traces.py:144). -/
def chunkSize (rate : Rat) : Int := pyRound (defaultChunkDuration * rate)

/-- mtscomp.py:326 `int(np.round(self.chunk_duration * self.sample_rate))` -/
def mtsChunkSize (chunkDuration rate : Rat) : Int := pyRound (chunkDuration * rate)

/-- mtscomp.py:324-335 `Writer._compute_chunk_bounds`: `list(range(0, n, cs))`, plus `n` when the last
bound is smaller.  `none` = the code raises for `n = 0` (`chunk_bounds[-1]` of an empty list; the real writer asserts a non-empty
recording even earlier: `AssertionError`). -/
def mtsTable (n cs : Nat) : Option (List Nat) :=
  let b := pyRange 0 n cs
  match b.getLast? with
  | none => none
  | some l => some (if l < n then b ++ [n] else b)

/-- chunk bounds of a flat / in-memory / npy reader as a function of the sample RATE (traces.py:339-342):
`none` = `AssertionError` (`assert chunk_size > 0`, for rates of at most 1/1200 Hz). -/
def readerChunkBounds (sizes : List Nat) (rate : Rat) : Option (List Nat) :=
  let cs := chunkSize rate
  if cs ≤ 0 then none else some (getChunkBounds sizes cs.toNat)

end PhyVerif.C16
