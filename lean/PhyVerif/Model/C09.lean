import PhyVerif.Model.Np
/-!
Model of the amplitude / channel / duration / depth summaries (property C09), phylib/io/model.py:
`get_amplitudes_true`, `_amplitudes`, `_channels`, `_waveform_durations`, `get_depths`.
Exact arithmetic over `Rat`; NaN (0/0) is `none`.
-/
namespace PhyVerif.C09
open PhyVerif

abbrev Mat := List (List Rat)

def dot (a b : List Rat) : Rat := ((a.zip b).map fun p => p.1 * p.2).sum

/-- column `j` of a matrix -/
def col (M : Mat) (j : Nat) : List Rat := M.map fun row => row.getD j 0

/-- number of columns (of the first row) -/
def ncols (M : Mat) : Nat := (M.headD []).length

/-- `np.matmul(W, M)` for `W : ns × nc`, `M : nc × nc` -/
def matMul (W M : Mat) : Mat :=
  W.map fun row => (List.range (ncols M)).map fun j => dot row (col M j)

def listMax (l : List Rat) : Rat := l.foldl max (l.headD 0)
def listMin (l : List Rat) : Rat := l.foldl min (l.headD 0)

/-- peak-to-peak amplitude of a sample vector -/
def ptp (v : List Rat) : Rat := listMax v - listMin v

/-- `np.max(W, axis=0) - np.min(W, axis=0)`: per-channel peak-to-peak of a `(ns, nc)` waveform -/
def chAmps (W : Mat) : List Rat := (List.range (ncols W)).map fun j => ptp (col W j)

/-- `np.argmax`: first index of the maximum -/
def argmaxFirst (l : List Rat) : Nat := l.idxOf (listMax l)
/-- `np.argmin`: first index of the minimum -/
def argminFirst (l : List Rat) : Nat := l.idxOf (listMin l)

structure Data where
  wfsW : List Mat            -- stored (whitened) waveforms, one per template (or cluster) id
  wmi : Mat                  -- inverse whitening matrix
  amplitudes : List Rat      -- stored spike amplitudes
  spikes : List Nat          -- id (template or cluster) of each spike
deriving Repr

/-- `templates_wfs[n] = data[n] @ wmi` -/
def unwhitened (d : Data) : List Mat := d.wfsW.map fun W => matMul W d.wmi

/-- `templates_amps_au`: largest channel peak-to-peak of each unwhitened waveform -/
def ampsAu (d : Data) : List Rat := (unwhitened d).map fun W => listMax (chAmps W)

/-- `spike_amps = templates_amps_au[spikes] * amplitudes` -/
def spikeAmps (d : Data) : List Rat :=
  (d.spikes.zip d.amplitudes).map fun p => (ampsAu d).getD p.1 0 * p.2

/-- `np.bincount(spikes, weights=w, minlength=n)` -/
def bincountW (spikes : List Nat) (w : List Rat) (n : Nat) : List Rat :=
  (List.range n).map fun t => (((spikes.zip w).filter fun p => p.1 == t).map (·.2)).sum

/-- `np.bincount(spikes, minlength=n)` -/
def bincountN (spikes : List Nat) (n : Nat) : List Nat :=
  (List.range n).map fun t => spikes.count t

/-- `templates_amps_v = bincount(spikes, weights=spike_amps) / bincount(spikes)`; `none` = NaN -/
def ampsV (d : Data) : List (Option Rat) :=
  let n := d.wfsW.length
  ((bincountW d.spikes (spikeAmps d) n).zip (bincountN d.spikes n)).map fun p =>
    if p.2 = 0 then none else some (p.1 / p.2)

/-- `templates_physical_unit = templates_wfs * (amps_v / amps_au)[:, None, None]` -/
def rescaled (d : Data) : List (Option Mat) :=
  ((unwhitened d).zip ((ampsV d).zip (ampsAu d))).map fun p =>
    match p.2.1 with
    | none => none
    | some v => if p.2.2 = 0 then none else some (p.1.map fun row => row.map (· * (v / p.2.2)))

/-- `_amplitudes(ids)`: `tid = unique(ids); bincount(ids, weights=amps)[tid] / bincount(ids)[tid]` -/
def meanAmps (ids : List Nat) (amps : List Rat) : List (Nat × Rat) :=
  let tid := Np.unique (ids.map Int.ofNat)
  let n := (ids.foldl max 0) + 1
  tid.map fun t => (t, (bincountW ids amps n).getD t 0 / ((bincountN ids n).getD t 0 : Nat))

/-- `_channels(sparse)` (dense): peak channel = first argmax of the per-channel peak-to-peak -/
def peakChannels (wfs : List Mat) : List Nat := wfs.map fun W => argmaxFirst (chAmps W)

/-- `_waveform_durations`: `(argmax - argmin)` along time on the peak channel, in samples -/
def durations (wfs : List Mat) : List Int :=
  wfs.map fun W =>
    let pc := argmaxFirst (chAmps W)
    (argmaxFirst (col W pc) : Int) - (argminFirst (col W pc) : Int)

/-- `get_depths`: per spike `sum(ypos * f) / sum(f)` with `f = max(feature_pc0, 0) ** 2`,
`ypos` = depth of the channels listed for the spike's template; `none` = NaN (0/0) -/
def depths (feat0 : List (List Rat)) (cols : List (List Nat)) (ys : List Rat)
    (spikeTemplates : List Nat) : List (Option Rat) :=
  (feat0.zip spikeTemplates).map fun p =>
    let f := p.1.map fun x => (max x 0) * (max x 0)
    let y := (cols.getD p.2 []).map fun c => ys.getD c 0
    let den := f.sum
    if den = 0 then none else some (dot y f / den)

end PhyVerif.C09
