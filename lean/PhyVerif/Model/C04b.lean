import PhyVerif.Model.C04
/-!
The two supported file layouts side by side: a KiloSort/phy-named directory and the ALF-named
directory holding the same arrays (plus the spike times in seconds, which only ALF stores).
-/
namespace PhyVerif.C04

/-- the array files of the KiloSort/phy layout that the loader model reads -/
def ksNames : List String :=
  ["spike_times.npy", "spike_templates.npy", "spike_clusters.npy", "amplitudes.npy", "channel_map.npy",
   "channel_positions.npy", "channel_shanks.npy", "channel_probe.npy", "templates.npy", "template_ind.npy",
   "whitening_mat.npy", "whitening_mat_inv.npy", "similar_templates.npy"]

/-- ALF name of a KiloSort/phy file (the whitening and similarity matrices keep their names) -/
def alfName (n : String) : String :=
  if n = "spike_times.npy" then "spikes.samples.npy"
  else if n = "spike_templates.npy" then "spikes.templates.npy"
  else if n = "spike_clusters.npy" then "spikes.clusters.npy"
  else if n = "amplitudes.npy" then "spikes.amps.npy"
  else if n = "channel_map.npy" then "channels.rawInd.npy"
  else if n = "channel_positions.npy" then "channels.localCoordinates.npy"
  else if n = "channel_shanks.npy" then "channels.shanks.npy"
  else if n = "channel_probe.npy" then "channels.probes.npy"
  else if n = "templates.npy" then "templates.waveforms.npy"
  else if n = "template_ind.npy" then "templates.waveformsChannels.npy"
  else n

/-- the same arrays under ALF names, with the spike times in seconds `t` added -/
def toALF (d : Dir) (t : Arr) : Dir :=
  ("spikes.times.npy", t) :: d.map fun na => (alfName na.1, na.2)

def allNum (a : Arr) : Bool := a.data.all fun c => match c with | .num _ => true | _ => false

end PhyVerif.C04
