import PhyVerif.Model.C08
import PhyVerif.Model.C09b
/-!
Third part of the C09 model (phylib/io/model.py): WHICH stored arrays the per-template and the per-cluster
summaries are computed from.

* `get_amplitudes_true(use=…)` (model.py:1140-1147) selects `(sparse, spikes, n_wav)`:
  `use='clusters'` → `(self.sparse_clusters, self.spike_clusters, self.n_clusters)`, otherwise
  `(self.sparse_templates, self.spike_templates, self.n_templates)`.
* `sparse_clusters` / `n_clusters` are set by the `_load_data` branch (model.py:416-428, model `C08.loadClusters`):
  the count-weighted template means with `max(spike_clusters) + 1` ids when anything was curated, the template
  array itself with `n_templates` ids otherwise.
* `clusters_channels`, `clusters_waveforms_durations` (model.py:1284-1287, 1330-1333) read `sparse_clusters.data`,
  `templates_channels`, `templates_waveforms_durations`, `templates_probes` read `sparse_templates.data`.
* `_amplitudes` (model.py:1315-1321) returns a BARE vector: position `k` holds the mean stored amplitude of the
  `k`-th id present (`np.unique`), not one entry per id.

Nothing here is read back from a loaded model: the inputs are the stored files (`templates.npy`,
`spike_templates.npy`, `spike_clusters.npy`, `amplitudes.npy`, the inverse whitening matrix) and the per-template
channel lists of property C05 that `get_cluster_mean_waveforms` restricts the means to.
Core Lean only (linked into the driver).
-/
namespace PhyVerif.C09
open PhyVerif

/-- the stored arrays of a dense dataset that the C09 summaries are functions of -/
structure Stored where
  templates : List Mat        -- `templates.npy` (whitened), one `(ns, nc)` block per template
  chans : List (List Nat)     -- channel list of each (whitened) template record, property C05
  st : List Nat               -- `spike_templates.npy`
  sc : List Nat               -- `spike_clusters.npy` (a copy of `spike_templates.npy` when absent)
  ns : Nat                    -- samples per waveform
  nc : Nat                    -- channels
  wmi : Mat                   -- inverse whitening matrix
  amplitudes : List Rat       -- `amplitudes.npy`
deriving Repr

/-- `(sparse.data, spikes, n_wav)` of model.py:1140-1147; `clusters = true` is `use='clusters'` -/
def useArrays (s : Stored) (clusters : Bool) : List Mat × List Nat × Nat :=
  if clusters then
    let lc := C08.loadClusters s.templates s.chans s.st s.sc s.ns s.nc
    (lc.1, s.sc, lc.2)
  else (s.templates, s.st, s.templates.length)

/-- the waveforms / assignment `get_amplitudes_true(use=…)` works on, as a `Data` record -/
def useData (s : Stored) (clusters : Bool) : Data :=
  ⟨(useArrays s clusters).1, s.wmi, s.amplitudes, (useArrays s clusters).2.1⟩

/-- `get_amplitudes_true(sample2unit=f, use=…)` on the stored arrays.  The real loop runs over
`np.arange(n_wav)` on an array shaped like `sparse.data` and the counts use `minlength=n_wav`: with
`n_wav ≠ len(sparse.data)` it raises (IndexError when larger, a broadcasting ValueError when smaller) — `none`
here; `amplitudesTrueUse_defined` shows that this never happens.  A spike whose id is `≥ n_wav` makes
`templates_amps_au[spikes]` (model.py:1164) raise IndexError — `none` too (`amplitudesTrueUse_none`); it cannot
happen on a dataset that loads (`assignment_lt_idCount`). -/
def amplitudesTrueUse (s : Stored) (clusters : Bool) (f : Rat) :
    Option (List Rat × List (Option Mat) × List (Option Rat)) :=
  let a := useArrays s clusters
  if a.1.length = a.2.2 ∧ a.2.1.all (· < a.2.2) = true then some (amplitudesTrue (useData s clusters) f) else none

/-- `templates_channels` / `clusters_channels` on the stored arrays -/
def channelsUse (s : Stored) (clusters : Bool) : List Nat := peakChannels (useArrays s clusters).1

/-- `templates_waveforms_durations` / `clusters_waveforms_durations` (milliseconds) on the stored arrays -/
def durationsUse (s : Stored) (clusters : Bool) (rate : Rat) : List Rat :=
  waveformDurations (useArrays s clusters).1 rate

/-- everything one id space reports, the arrays selected ONCE (what the driver evaluates): the selected
`(waveforms, assignment, n_wav)`, the three return values of `get_amplitudes_true`, the peak channels and the
durations in milliseconds.  `summariesUse_unfold` (by `rfl`): componentwise the definitions above. -/
def summariesUse (s : Stored) (clusters : Bool) (f rate : Rat) :
    (List Mat × List Nat × Nat) × Option (List Rat × List (Option Mat) × List (Option Rat)) × List Nat × List Rat :=
  let a := useArrays s clusters
  let d : Data := ⟨a.1, s.wmi, s.amplitudes, a.2.1⟩
  (a, (if a.1.length = a.2.2 ∧ a.2.1.all (· < a.2.2) = true then some (amplitudesTrue d f) else none),
   peakChannels a.1, waveformDurations a.1 rate)

/-- `templates_probes` (model.py:1302-1304): `channel_probes[templates_channels]`.  A peak channel beyond the
probe table raises IndexError in the real code (cannot happen: the table has one entry per channel). -/
def templatesProbes (probes : List Int) (templates : List Mat) : List Int :=
  (peakChannels templates).map fun c => probes.getD c 0

/-- `_amplitudes(tmp)` (model.py:1315-1321) as RETURNED: the bare vector
`bincount(tmp, weights=amplitudes)[tid] / bincount(tmp)[tid]`, `tid = np.unique(tmp)`.  (`n[np.isnan(n)] = 1`
never fires: counts are integers.) -/
def amplitudesVec (ids : List Nat) (amps : List Rat) : List Rat :=
  let tid := Np.unique (ids.map Int.ofNat)
  let n := ids.foldl max 0 + 1
  tid.map fun t => (bincountW ids amps n).getD t 0 / ((bincountN ids n).getD t 0 : Nat)

end PhyVerif.C09
