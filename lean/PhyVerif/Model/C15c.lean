import PhyVerif.Model.C15b
import PhyVerif.Model.Fl
/-!
Third part of the model of `phylib/stats/ccg.py` (property C15): the float → integer conversions of
`correlograms` (ccg.py:116-131) with their REAL meaning.  Every argument is a double, i.e. a rational; every
float operation of the code is the exact operation followed by `Fl.roundDouble` (IEEE-754 binary64, round to
nearest even, `Model/Fl.lean`):

  ccg.py:117  spike_samples = (spike_times * sample_rate).astype(np.int64)     trunc(fl(t * rate))
  ccg.py:125  bin_size = np.clip(bin_size, 1e-5, 1e5)                          exact (a comparison)
  ccg.py:126  binsize = int(sample_rate * bin_size)                            trunc(fl(rate * clip bin))
  ccg.py:130  window_size = np.clip(window_size, 1e-5, 1e5)                    exact
  ccg.py:131  winsize_bins = 2 * int(.5 * window_size / bin_size) + 1          2 * trunc(fl(fl(.5 * w) / b)) + 1

(Python evaluates `.5 * window_size / bin_size` as `(.5 * window_size) / bin_size`: TWO rounded operations; the
first one is exact for every double `w` that is not subnormal.)  The definitions of `Model/C15b.lean`
(`samplesOf`, `binsizeOf`, `winsizeBins`, `correlogramsQ`) are the same expressions WITHOUT the roundings; they
agree with these on the inputs of `FlExact` (`Props/C15.lean`, `fl_eq_exact`).

Domain (`FlDom`): every product / quotient above is zero or in the normal range of binary64 (`Fl.InRange`) and
every ROUNDED product is below `2^63` in magnitude (`samplesOfFl_int64`: the samples then fit `int64`).  Outside it the real code meets subnormal rounding, `inf`, or the
undefined `astype(np.int64)` of a value that does not fit — none of which is modelled.  NumPy computes
`spike_times * sample_rate` with SIMD multiplications, which are correctly rounded like the scalar ones.
-/
namespace PhyVerif.C15
open PhyVerif PhyVerif.Fl

/-- `(spike_times * sample_rate).astype(np.int64)` (ccg.py:117): one rounded product per spike, truncated -/
def samplesOfFl (rate : Rat) (times : List Rat) : List Int :=
  times.map fun t => truncInt (roundDouble (t * rate))

/-- `int(sample_rate * np.clip(bin_size, 1e-5, 1e5))` (ccg.py:125-126) -/
def binsizeOfFl (rate bin : Rat) : Int := truncInt (roundDouble (rate * clip bin clipLo clipHi))

/-- the float `.5 * window_size / bin_size` after both clips (ccg.py:131): `fl(fl(.5 * w) / b)` -/
def halfQuotFl (window bin : Rat) : Rat :=
  roundDouble (roundDouble ((1 / 2 : Rat) * clip window clipLo clipHi) / clip bin clipLo clipHi)

/-- `winsize_bins = 2 * int(.5 * window_size / bin_size) + 1` (ccg.py:131) -/
def winsizeBinsFl (window bin : Rat) : Int := 2 * truncInt (halfQuotFl window bin) + 1

/-- the float product `sample_rate * bin_size` (ccg.py:126) BEFORE `int()` cuts it: the bin in samples as the float
unit sees it.  A whole number = the bin is a whole number of samples; otherwise `int()` shortens the bin. -/
def binProdFl (rate bin : Rat) : Rat := roundDouble (rate * clip bin clipLo clipHi)

/-- `winsize_bins // 2` -/
def halfOfFl (window bin : Rat) : Nat := (winsizeBinsFl window bin / 2).toNat

/-- the inputs on which the roundings above are what the hardware computes and `astype(np.int64)` is defined -/
def FlDom (times : List Rat) (rate bin window : Rat) : Prop :=
  (∀ t ∈ times, InRange (t * rate) ∧ absR (roundDouble (t * rate)) < pow2 63) ∧
  InRange (rate * clip bin clipLo clipHi) ∧
  InRange ((1 / 2 : Rat) * clip window clipLo clipHi) ∧
  InRange (roundDouble ((1 / 2 : Rat) * clip window clipLo clipHi) / clip bin clipLo clipHi)

instance (times : List Rat) (rate bin window : Rat) : Decidable (FlDom times rate bin window) := by
  unfold FlDom; infer_instance

/-- the float products `spike_times * sample_rate` (ccg.py:117) before `astype` -/
def prodsFl (rate : Rat) (times : List Rat) : List Rat := times.map fun t => roundDouble (t * rate)

/-- the quantifier of the property ("sample rates for which time*rate is exact"): every FLOAT product
`time * rate` is a whole number of samples, so that truncation has nothing to cut (spike times on the sample grid
as far as the float unit is concerned, e.g. `t = fl(T / rate)`).  Used by the correspondence run only, to grade a
disagreement (on the grid: the property fails; off the grid: the code no longer matches the model). -/
def timesOnGrid (times : List Rat) (rate : Rat) : Bool :=
  (prodsFl rate times).all fun x => x.den == 1

/-- bin or window outside `[1e-5, 1e5]` s: the code silently replaces them by the bound -/
def clipped (bin window : Rat) : Bool :=
  clip bin clipLo clipHi != bin || clip window clipLo clipHi != window

/-- `correlograms` after the three float → integer conversions: the asserts and the loop on the count array, from
the spike samples, the bin in samples and the number of bins.  `none` = an assertion fails or an exception is raised
(rate ≤ 0, decreasing times, lengths differ, `binsize < 1`, a cluster outside the lookup table, an index out of range). -/
def correlogramsOfInts (samples : List Int) (binsize winsize : Int) (times : List Rat) (sc : List Int)
    (ids : Option (List Nat)) (rate : Rat) (sym : Bool) : Option (List (List (List Nat))) :=
  if ¬ (0 < rate) then none
  else if ¬ (times.zip times.tail).all (fun p => decide (p.1 ≤ p.2)) then none
  else if times.length ≠ sc.length then none
  else if binsize < 1 then none
  else
    match correlogramsArr samples sc (idsOr sc ids) binsize winsize with
    | none => none
    | some c => some (if sym then symmetrize c else c)

/-- `correlograms(spike_times, spike_clusters, cluster_ids, sample_rate, bin_size, window_size, symmetrize)` with
the arguments read as doubles and every float operation rounded (see the header). -/
def correlogramsFl (times : List Rat) (sc : List Int) (ids : Option (List Nat)) (rate bin window : Rat)
    (sym : Bool) : Option (List (List (List Nat))) :=
  correlogramsOfInts (samplesOfFl rate times) (binsizeOfFl rate bin) (winsizeBinsFl window bin) times sc ids rate sym

end PhyVerif.C15
