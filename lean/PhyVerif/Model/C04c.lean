import PhyVerif.Model.C04
import PhyVerif.Model.C02
/-!
The rest of `TemplateModel._load_data` (phylib/io/model.py:347-477) on top of `C04.load`:
numeric spike samples and times (`_load_spike_samples`, model.py:644-663), the shape assertions, the
replacement of non-distinct channel positions, the concrete defaults of the optional files, the extra
per-spike attributes (`_load_spike_attributes`, model.py:520-538), the raw traces with their lazy
channel permutation (`_load_traces`, model.py:575-588, through the reader models of C01/C02) and the
duration.  Core Lean only (linked into the driver).

Not modelled (not part of C04's list): cluster waveforms (`get_merge_map`, `cluster_waveforms`,
model.py:418-428 — C08), features and template features, metadata (C10), dtype whitelists
(model.py:545, 608, 705 — cells carry no dtype here).
-/
namespace PhyVerif.C04
open PhyVerif

/-! ### `np.round` -/

/-- `np.round(q)`: nearest integer, ties to the even one (model.py:661) -/
def roundHalfEven (q : Rat) : Int :=
  let f := q.floor
  let r := q - (f : Rat)
  if r < 1/2 then f else if 1/2 < r then f + 1 else if f % 2 = 0 then f else f + 1

/-- the integer a (scrubbed) cell stands for -/
def cellInt : Cell → Int
  | .num i => i
  | _ => 0

/-- `spike_samples` as numbers (model.py:650, 658, 661).  Cells of a samples file are sample numbers;
cells of a seconds file are the numerators of seconds over the fixed denominator `tden`
(`tden` is a decoding device of the model, not a parameter of the loader).
`.astype(np.uint64)` is the identity on the non-negative products that well-formed datasets have
(a negative time wraps around in the real code: `-0.002 s · 1000 Hz` loads as `2^64 - 2`). -/
def samplesVal (rate : Rat) (tden : Nat) : SampleSrc → List Int
  | .file s => s.data.map cellInt
  | .roundedTimes t => t.data.map fun c => roundHalfEven ((cellInt c : Rat) / (tden : Rat) * rate)

/-- `spike_times` in seconds (model.py:651, 655) -/
def timesVal (rate : Rat) (tden : Nat) : TimeSrc → List Rat
  | .samplesOverRate s => s.data.map fun c => (cellInt c : Rat) / rate
  | .stored t => t.data.map fun c => (cellInt c : Rat) / (tden : Rat)

def TimeSrc.arr : TimeSrc → Arr
  | .samplesOverRate s => s
  | .stored t => t

def SampleSrc.arr : SampleSrc → Arr
  | .file s => s
  | .roundedTimes t => t

/-! ### channel positions -/

/-- rows of a 2-D array -/
def arrRows (a : Arr) : List (List Cell) :=
  match a.shape with
  | [n, w] => (List.range n).map fun r => (a.data.drop (r * w)).take w
  | _ => []

/-- `_all_positions_distinct` (model.py:148-150) -/
def positionsDistinct (a : Arr) : Bool := decide (arrRows a).Nodup

/-- channel positions of the loaded model: the file, or `linear_positions(nc)` -/
inductive Positions where
  | file (a : Arr)
  | linear (n : Nat)
deriving Repr, DecidableEq

/-- `linear_positions(n)` = `np.c_[zeros(n), linspace(0, 1, n)]` (phylib/utils/geometry.py:22-25);
`linspace(0, 1, 1) = [0]` -/
def linearPositions (n : Nat) : List (List Rat) :=
  (List.range n).map fun (k : Nat) => [(0 : Rat), (k : Rat) / ((n - 1 : Nat) : Rat)]

/-! ### defaults -/

def zerosVec (n : Nat) : Arr := ⟨[n], List.replicate n (.num 0)⟩
def zerosMat (n m : Nat) : Arr := ⟨[n, m], List.replicate (n * m) (.num 0)⟩
-- `eye` (`np.eye`) is defined in Model/C04.lean (`load` writes the inverse of the identity)

/-- `if cols.ndim != 2: cols = np.atleast_2d(cols).T` (model.py:721-722) -/
def colsFix (a : Arr) : Arr :=
  match a.shape with
  | [] => { a with shape := [1, 1] }
  | [n] => { a with shape := [n, 1] }
  | _ => a

/-! ### extra per-spike attributes -/

def spikePre : List Char := ['s', 'p', 'i', 'k', 'e', '_']
def npySuf : List Char := ['.', 'n', 'p', 'y']

/-- `filename.stem[6:]` of a file found by `glob('spike_*.npy')` (model.py:522-526): the name starts
with `spike_`, ends with `.npy` (the two not overlapping); the attribute name is what lies between -/
def spikeAttrName (f : String) : Option String :=
  let fl := f.toList
  if spikePre.isPrefixOf fl && npySuf.isSuffixOf fl && decide (10 ≤ fl.length) then
    some (String.ofList ((fl.drop 6).take (fl.length - 10)))
  else none

/-- `SKIP_SPIKE_ATTRS` (model.py:282) -/
def skipAttrs : List String :=
  ["clusters", "templates", "samples", "times", "times_reordered", "amplitudes"]

inductive FullErr where
  | base (e : LoadErr)
  | shape (what : String)           -- an `assert …shape == …` of `_load_data` fails (AssertionError)
  | curatedWithoutTemplates         -- no template file and clusters ≠ templates: `self.sparse_templates.cols`
                                    -- on `None` (model.py:418-419): AttributeError
deriving Repr, DecidableEq

/-- `_load_spike_attributes` (model.py:520-538): every `spike_*.npy` except the reserved names, read
fully (scrubbed, squeezed); kept when its first dimension is the number of spikes, skipped
otherwise.  A file that squeezes to a 0-d array (one stored value, shapes `()`, `(1,)`, `(1,1)`) has no first
dimension equal to the number of spikes and is skipped like every other attribute of the wrong length: this is the
STATEMENT ("attribute arrays of matching length") and the repaired loader (`assert arr.ndim >= 1 and …`,
/tmp/fx/c04/scalar_spike_attribute_skipped.patch).  The code at /repo HEAD evaluates `arr.shape[0]` on the 0-d array:
IndexError, not caught by the `except (IOError, AssertionError)` of model.py:534, the whole load fails
(pre-finding PF-C04c, corpus/C04/pf_c04d_*). -/
def loadSpikeAttributes (ns : Nat) : Dir → Except FullErr (List (String × Arr))
  | [] => pure []
  | (f, a) :: rest =>
    match spikeAttrName f with
    | none => loadSpikeAttributes ns rest
    | some n =>
      if n ∈ skipAttrs then loadSpikeAttributes ns rest
      else
        match (squeeze (scrub a)).shape with
        | [] => loadSpikeAttributes ns rest       -- 0-d after the squeeze: no first dimension to match (see docstring)
        | k :: _ =>
          if k = ns then do
            let r ← loadSpikeAttributes ns rest
            pure ((n, squeeze (scrub a)) :: r)
          else loadSpikeAttributes ns rest

/-! ### raw traces -/

/-- the channel map as column indices -/
def cmIdx (cm : Arr) : List Int := cm.data.map cellInt

/-- `_load_traces` (model.py:575-588): nothing without raw data files; otherwise the reader of the
files (C01: `parts`, a fresh reader has no deferred operation: heap `[[]]`, address 0) followed by
`traces[:, channel_map]`, which derives a reader carrying one `cols` operation (C02 `derive`;
traces.py:221-232).  Result: the op heap and the address of `traces`. -/
def loadTraces {β : Type} (raw : Option (List (List (List β)))) (cm : Arr) :
    Option (C02.Heap β × Nat) :=
  raw.map fun _ => C02.derive ([[]] : C02.Heap β) 0 (.cols (.idx (cmIdx cm)))

/-- `model.traces[item]` -/
def tracesGet {β : Type} (parts : List (List (List β))) (tr : C02.Heap β × Nat) (item : C01.Item) :
    Option (List (List β)) :=
  C02.eval tr.1 parts tr.2 item

/-- rows of raw file `i`: `_memmap_flat` (traces.py:164-175) computes them from the file size -/
def rawRows (fsizes : List Nat) (offset itemsize ncd : Nat) : List Nat :=
  fsizes.map fun fs => C01.memmapRows fs offset itemsize ncd

/-! ### the whole of `_load_data` -/

/-- everything C04 lists, with the defaults made concrete -/
structure FullView (β : Type) where
  base : View
  nSpikes : Nat
  nChannels : Nat
  nTemplates : Nat
  spikeSamples : List Int
  spikeTimes : List Rat
  positions : Positions
  channelShanks : Arr
  channelProbes : Arr
  templateCols : Option Arr
  wm : Arr
  wmi : Arr
  similar : Arr
  spikeAttributes : List (String × Arr)
  traces : Option (C02.Heap β × Nat)
  nSamples : Option Nat
  duration : Rat

/-- `spike_templates.max() + 1` (model.py:413) -/
def maxIdPlus1 (a : Arr) : Nat := (a.data.foldl (fun m c => max m (cellInt c)) (-1) + 1).toNat

/-- the assertions of `_load_data` and of the `_load_*` methods on shapes (model.py:351, 360, 364,
371, 385, 389, 397, 401, 411, 439, 445, 449, 544, 593, 609, 630, 662, 704, 726), in one list:
(what, holds) -/
def shapeChecks (v : View) (cols : Option Arr) (ns nc nt ncd : Nat) : List (String × Bool) :=
  [ ("spike times (ns,)", v.times.arr.shape == [ns]),
    ("spike samples 1-D", v.samples.arr.shape.length == 1),
    ("amplitudes (ns,)", v.amplitudes.all (·.shape == [ns])),
    ("spike templates (ns,)", v.spikeTemplates.shape == [ns]),
    ("spike clusters (ns,)", v.spikeClusters.shape == [ns]),
    ("channel map (nc,)", v.channelMap.shape == [nc]),
    ("channel map <= n_channels_dat - 1",
      ncd == 0 || v.channelMap.data.all fun c => decide (cellInt c ≤ (ncd : Int) - 1)),
    ("channel positions (nc, 2)", v.channelPositions.shape == [nc, 2]),
    ("channel shanks (nc,)", v.channelShanks.all (·.shape == [nc])),
    ("channel probes (nc,)", v.channelProbes.all (·.shape == [nc])),
    ("templates 3-D", v.templates.all (·.shape.length == 3)),
    ("template columns (nt, nloc)",
      match v.templates, cols with
      | some t, some c => c.shape == [nt, (t.shape.drop 2).headD 0]
      | _, _ => true),
    ("whitening matrix (nc, nc)", v.wm.all (·.shape == [nc, nc])),
    ("inverse whitening matrix (nc, nc)", v.wmi.all (·.shape == [nc, nc])),
    ("similar templates (nt, nt)", v.similar.all (·.shape == [nt, nt])) ]

/-- `TemplateModel(**params)._load_data()` (model.py:313-477): `rate` = sample_rate, `ncd` =
n_channels_dat (0 = not given), `raw` = the rows of the files of `dat_path` (`none` = no raw data),
`one` = the cell standing for 1.0, `tden` = denominator of the seconds tokens.
The array files are read by `load`; here follow the steps `load` leaves out.  (An ill-shaped
directory is reported after the reads, the real code stops at its first failing assertion — having
possibly created `spike_clusters.npy` already; which assertion fails first is not observable through
this model, a failed load returns no directory.) -/
def loadFull {β : Type} (inv : Arr → Arr) (rate : Rat) (tden ncd : Nat) (one : Cell)
    (raw : Option (List (List (List β)))) (d : Dir) : Except FullErr (FullView β × Dir) := do
  let (v, d') ← match load inv d one with
    | .ok r => pure r
    | .error e => throw (.base e)
  let ns := v.times.arr.shape.headD 0                    -- `ns, = self.spike_times.shape`
  let nc := v.channelMap.shape.headD 0                   -- model.py:383
  let nt := match v.templates with                       -- model.py:408, 413
    | some t => t.shape.headD 0
    | none => maxIdPlus1 v.spikeTemplates
  let cols := v.templateCols.map colsFix
  match (shapeChecks v cols ns nc nt ncd).find? (fun c => !c.2) with
  | some c => throw (.shape c.1)
  | none => pure ()
  -- model.py:418-419: `if not np.all(spike_clusters == spike_templates) and self.sparse_templates.cols is None`
  if v.templates.isNone && v.spikeClusters.data != v.spikeTemplates.data then throw .curatedWithoutTemplates
  let positions :=                                       -- model.py:390-393
    if positionsDistinct v.channelPositions then Positions.file v.channelPositions else .linear nc
  let attrs ← loadSpikeAttributes ns d'                  -- model.py:474
  let times := timesVal rate tden v.times
  let nSamples := raw.map fun parts => (C01.bounds parts).getLast?.getD 0
  pure ({ base := v, nSpikes := ns, nChannels := nc, nTemplates := nt,
          spikeSamples := samplesVal rate tden v.samples, spikeTimes := times,
          positions := positions,
          channelShanks := v.channelShanks.getD (zerosVec nc),     -- model.py:573
          channelProbes := v.channelProbes.getD (zerosVec nc),     -- model.py:563
          templateCols := cols,
          wm := v.wm.getD (eye one nc),                            -- model.py:438
          -- model.py:444-447: the stored inverse, or `_compute_wmi(self.wm)` of the matrix WITH its default
          wmi := v.wmi.getD (inv (v.wm.getD (eye one nc))),
          similar := v.similar.getD (zerosMat nt nt),              -- model.py:692
          spikeAttributes := attrs,
          traces := loadTraces raw v.channelMap,
          nSamples := nSamples,
          duration := match nSamples with                          -- model.py:452-456
            | some n => (n : Rat) / rate
            | none => times.getLast?.getD 0 }, d')

end PhyVerif.C04
