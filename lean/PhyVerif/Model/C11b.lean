import PhyVerif.Model.C04
import PhyVerif.Model.C11
import PhyVerif.Model.C12
/-!
The array files of the directory written by `Merger.merge()` in the terms of the loader model of
C04: what the merger writes is given by the C11 / C12 models, what `merge()` finally does — it
loads the merged directory — is `C04.load`.
-/
namespace PhyVerif.C11
open PhyVerif PhyVerif.C04

/-- the per-probe inputs of a merge, as the C11 / C12 models take them -/
structure Probes where
  times : List (List Int)          -- spike samples
  amps : List (List Int)           -- amplitudes (tokens)
  clusters : List (List Nat)
  templates : List (List Nat)      -- spike templates
  ntemplates : List Nat            -- rows of each probe's templates.npy
  maps : List (List Nat)           -- channel maps
  positions : List (List (Int × Int))
deriving Repr

def natVec (l : List Nat) : Arr := ⟨[l.length], l.map fun n => Cell.num (Int.ofNat n)⟩
def intVec (l : List Int) : Arr := ⟨[l.length], l.map Cell.num⟩
def posArr (l : List (Int × Int)) : Arr := ⟨[l.length, 2], (l.map fun xy => [Cell.num xy.1, Cell.num xy.2]).flatten⟩

/-- the spike / channel array files of the merged directory -/
def mergedDir (p : Probes) : Dir :=
  [ ("spike_times.npy", intVec (mergedTimes p.times)),
    ("amplitudes.npy", intVec (gather p.amps (spikeOrder p.times))),
    ("spike_clusters.npy", natVec (mergedIds p.times p.clusters)),
    ("spike_templates.npy", natVec (mergedTemplateIds p.times p.templates p.ntemplates)),
    ("channel_map.npy", natVec (C12.mergeChannelMaps p.maps)),
    ("channel_probe.npy", natVec (C12.channelProbes p.maps)),
    ("channel_positions.npy", posArr (C12.mergePositions p.positions)) ]

/-- at least two spikes and two channels in total (the loader squeezes size-1 dimensions away),
one template count per probe, one position per channel -/
def ProbesOK (p : Probes) : Prop :=
  2 ≤ p.times.flatten.length ∧ p.ntemplates.length = p.times.length ∧
  p.amps.map List.length = p.times.map List.length ∧
  p.clusters.map List.length = p.times.map List.length ∧
  p.templates.map List.length = p.times.map List.length ∧
  2 ≤ p.maps.flatten.length ∧ p.positions.map List.length = p.maps.map List.length

end PhyVerif.C11
