import PhyVerif.Model.Np
/-!
Model of the channel/template side of probe merging (property C12), phylib/io/merge.py:
`write_channel_data`, `write_channel_positions`, `write_templates`, `write_template_data`,
`write_misc` (scipy `block_diag`), `write_params`.
-/
namespace PhyVerif.C12
open PhyVerif

/-- `write_channel_data`: `array += offset; offsets.append(offset); offset = array.max() + 1` -/
def chanOffsetsFrom : Nat → List (List Nat) → List Nat
  | _, [] => []
  | off, m :: rest => off :: chanOffsetsFrom ((m.map (· + off)).foldl max 0 + 1) rest

def chanOffsets (maps : List (List Nat)) : List Nat := chanOffsetsFrom 0 maps

/-- `write_channel_data`: `index_offset += len(array)` — the block of each probe in the merged
channel numbering (rows of `channel_map.npy`, columns of `templates.npy`); differs from the raw
offsets `chanOffsets` as soon as a channel map has gaps -/
def chanIndexOffsetsFrom : Nat → List (List Nat) → List Nat
  | _, [] => []
  | off, m :: rest => off :: chanIndexOffsetsFrom (off + m.length) rest

def chanIndexOffsets (maps : List (List Nat)) : List Nat := chanIndexOffsetsFrom 0 maps

/-- merged `pc_feature_ind.npy`: channel-index tables shifted by the index offsets -/
def mergePcInd (maps : List (List Nat)) (tables : List (List (List Nat))) : List (List Nat) :=
  ((tables.zip (chanIndexOffsets maps)).map fun p => p.1.map fun row => row.map (· + p.2)).flatten

/-- merged `channel_map.npy` -/
def mergeChannelMaps (maps : List (List Nat)) : List Nat :=
  ((maps.zip (chanOffsets maps)).map fun p => p.1.map (· + p.2)).flatten

/-- merged `channel_probe.npy`: `array * 0 + ind` -/
def channelProbes (maps : List (List Nat)) : List Nat :=
  (maps.zipIdx.map fun p => p.1.map fun _ => p.2).flatten

/-- `write_channel_positions`: running x offset `2 * max(x) - min(x)` of the shifted probe.
Positions are (x, y) pairs; `none` for a probe without channels (np.max of nothing raises). -/
def shiftPositionsFrom : Int → List (List (Int × Int)) → List (List (Int × Int))
  | _, [] => []
  | xoff, p :: rest =>
    let p' := p.map fun xy => (xy.1 + xoff, xy.2)
    let xs := p'.map (·.1)
    let mx := xs.foldl max (xs.headD 0)
    let mn := xs.foldl min (xs.headD 0)
    p' :: shiftPositionsFrom (2 * mx - mn) rest

def mergePositions (pos : List (List (Int × Int))) : List (Int × Int) :=
  (shiftPositionsFrom 0 pos).flatten

variable {α : Type} [Zero α]

/-- `write_templates`: every template of probe i is written as a `(n_samples, n_channels)` block
that is zero except on columns `[j0, j0 + nc_i)`, `j0` = summed width of the previous probes -/
def mergeTemplatesFrom (total : Nat) : Nat → List (List (List (List α))) → List (List (List α))
  | _, [] => []
  | j0, t :: rest =>
    let nc := ((t.headD []).headD []).length
    (t.map fun tmpl => tmpl.map fun row =>
        List.replicate j0 (0 : α) ++ row ++ List.replicate (total - j0 - nc) 0) ++
      mergeTemplatesFrom total (j0 + nc) rest

/-- width of a probe's templates (number of channels) -/
def tmplWidth (t : List (List (List α))) : Nat := ((t.headD []).headD []).length

def mergeTemplates (ts : List (List (List (List α)))) : List (List (List α)) :=
  mergeTemplatesFrom ((ts.map tmplWidth).sum) 0 ts

/-- `write_template_data`: per-probe index tables shifted by per-probe offsets, concatenated -/
def shiftTables (tables : List (List (List Nat))) (offsets : List Nat) : List (List Nat) :=
  ((tables.zip offsets).map fun p => p.1.map fun row => row.map (· + p.2)).flatten

/-- `scipy.linalg.block_diag` of square matrices -/
def blockDiagFrom (total : Nat) : Nat → List (List (List α)) → List (List α)
  | _, [] => []
  | j0, m :: rest =>
    (m.map fun row => List.replicate j0 (0 : α) ++ row ++ List.replicate (total - j0 - m.length) 0) ++
      blockDiagFrom total (j0 + m.length) rest

def blockDiag (ms : List (List (List α))) : List (List α) :=
  blockDiagFrom ((ms.map List.length).sum) 0 ms

/-- `write_params`: (sample_rate of the first probe, summed raw channel count) -/
def mergeParams (params : List (Nat × Nat)) : Option (Nat × Nat) :=
  match params with
  | [] => none
  | p :: _ => some (p.1, (params.map (·.2)).sum)

end PhyVerif.C12
