import PhyVerif.Model.Np
/-!
Model of `SpikeSelector` (property C17), phylib/io/array.py: `__init__` (kept chunks at a regular
stride), `_times_in_chunks` (parity of `searchsorted(..., 'right')` in the flattened kept bounds),
`__call__` (per-cluster eligibility, random sub-selection, sorted union).
The random choice is a parameter `choose` constrained only by its contract.
-/
namespace PhyVerif.C17
open PhyVerif

structure Inp where
  times : List Int            -- spike_times[spike id]
  clusters : List Nat         -- cluster of each spike id (get_spikes_per_cluster = members)
  bounds : List Int           -- chunk grid (2..m bounds, increasing)
  nKept : Nat                 -- n_chunks_kept (≥ 1)
  count : Option Int          -- n_spk_clu (None / 0 / negative ⇒ no sub-selection)
  req : List Nat              -- requested cluster ids (any order, unknown ids, repeats)
  subsetChunks : Bool
  subset : Option (List Nat)  -- subset_spikes
deriving Repr

/-- `max(1, int(ceil(n_chunks / n_chunks_kept)))` -/
def stride (nChunks nKept : Nat) : Nat := max 1 ((nChunks + nKept - 1) / nKept)

/-- start indices `range(0, n_chunks, stride)` -/
def keptStarts (nChunks nKept : Nat) : List Nat :=
  let s := stride nChunks nKept
  (List.range ((nChunks + s - 1) / s)).map (· * s)

/-- `chunks_kept`: flattened `[a0, b0, a1, b1, …]` -/
def chunksKept (bounds : List Int) (nKept : Nat) : List Int :=
  (keptStarts (bounds.length - 1) nKept).flatMap fun i => (bounds.drop i).take 2

/-- `_times_in_chunks` for one time -/
def timeInChunks (kept : List Int) (t : Int) : Bool := (Np.ssRight kept t) % 2 == 1

/-- spike ids of cluster `c`, increasing (`get_spikes_per_cluster`).
The real selector is handed a CALLABLE; the model fixes it to "the members of the cluster in the cluster vector", the
property quantifies over spike-time / cluster VECTORS.  What the callable must return is fixed by how
`SpikeSelector.__call__` uses it (array.py:423-430: `self.spike_times[spike_ids]`, then `spike_ids[mask]` with a
boolean mask, then `np.intersect1d`): a one-dimensional NumPy INTEGER array — for an unknown cluster an EMPTY one,
which is what both callers in the repository pass (`model.py:1422`, `test_array.py`:
`spt.get(cl, np.array([], dtype=np.int64))`).  A callable answering with a Python list (`dict.get(c, [])`) breaks that
contract: `[][mask]` raises TypeError when `subset_chunks=True` (ran it).  That is outside the property (the list is
not a cluster vector's answer), the check does not generate it.  Any integer dtype is inside: the check hands out
int64 / int32 / uint32 / intp arrays. -/
def spikesOf (clusters : List Nat) (c : Nat) : List Nat :=
  (List.range clusters.length).filter fun i => clusters.getD i 0 == c

/-- `np.intersect1d(spike_ids, subset)` for an increasing duplicate-free `spike_ids` -/
def intersectSorted (ids : List Nat) (subset : List Nat) : List Nat := ids.filter (subset.contains ·)

/-- eligible spikes of cluster `c` -/
def eligible (x : Inp) (c : Nat) : List Nat :=
  let ids := spikesOf x.clusters c
  let ids := if x.subsetChunks then
      ids.filter fun i => timeInChunks (chunksKept x.bounds x.nKept) (x.times.getD i 0)
    else ids
  match x.subset with
  | none => ids
  | some s => intersectSorted ids s

/-- the per-cluster selection -/
def selectCluster (choose : List Nat → Nat → List Nat) (x : Inp) (c : Nat) : List Nat :=
  let e := eligible x c
  match x.count with
  | some n => if n > 0 ∧ (e.length : Int) > n then choose e n.toNat else e
  | none => e

/-- `SpikeSelector.__call__`: a dict keyed by cluster (a repeated id keeps its last selection),
then `_flatten_per_cluster` = sorted union -/
def selectWith (choose : List Nat → Nat → List Nat) (x : Inp) : List Nat :=
  if x.req.isEmpty then [] else
  Np.unique (((x.req.eraseDups).flatMap (selectCluster choose x)).map Int.ofNat)

/-- contract of `np.random.choice(ids, n, replace=False)` for `n < len(ids)` -/
def ChooseOK (choose : List Nat → Nat → List Nat) : Prop :=
  ∀ l n, l.Nodup → n < l.length →
    (choose l n).Nodup ∧ (choose l n).length = n ∧ ∀ v ∈ choose l n, v ∈ l

end PhyVerif.C17
