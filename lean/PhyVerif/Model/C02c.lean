import PhyVerif.Model.C02
/-!
What a caller does with the BLOCK a reader returned (property C02): array objects by address, so that aliasing
between a returned block and the storage the readers read from is expressible.

`BaseEphysReader.__getitem__` (phylib/io/traces.py:246-252):
* `to_concat.append(self._get_part(part_idx, subitem))` - each piece is basic indexing on the part's storage (the
  caller's ndarray, the `np.memmap` of a file, the chunk mtscomp keeps in its cache): a VIEW of an existing object;
* `out = np.vstack(to_concat)` - ALWAYS allocates a new array object holding the stacked rows (also for one piece);
* `return self._apply_ops(out)` - every deferred operation works on that new object or allocates another one.

So the block handed to the caller is an object that did not exist before the call: whatever the caller does to it in
place (post-processing a block is ordinary use: `blk -= median`) cannot reach the storage. `getitem` models this with
an explicit allocation; `getitemNoCopy` is the plausible rewrite "nothing to concatenate when the rows come from one
part", which hands out the storage object itself.
-/
namespace PhyVerif.C02
open PhyVerif PhyVerif.C01

/-- array objects by address -/
structure Mem (β : Type) where
  arrays : List (List (List β))

/-- the storage a family of readers reads from: the first `np` array objects (one per part) -/
def Mem.parts {β : Type} (m : Mem β) (np : Nat) : List (List (List β)) := m.arrays.take np

/-- the contents of the array object at address `a` -/
def Mem.block {β : Type} (m : Mem β) (a : Nat) : List (List β) := m.arrays.getD a []

/-- `reader[item]` for a reader carrying `ops`: read the rows from the storage, `np.vstack` them into a NEW array
object, replay the deferred operations; returns the memory afterwards and the address of the block handed out -/
def getitem {β : Type} (m : Mem β) (np : Nat) (ops : List (Op β)) (item : Item) : Option (Mem β × Nat) :=
  (getRows (m.parts np) item).map fun rows => (⟨m.arrays ++ [applyOps ops rows]⟩, m.arrays.length)

/-- the caller modifies, in place, the array object at address `a` -/
def scribble {β : Type} (m : Mem β) (a : Nat) (f : List (List β) → List (List β)) : Mem β :=
  ⟨m.arrays.set a (f (m.block a))⟩

/-- the rewrite that skips `np.vstack` when there is nothing to concatenate, in its simplest instance: a one-part
reader without deferred operations asked for all its rows hands out the storage object itself -/
def getitemNoCopy {β : Type} (m : Mem β) (np : Nat) (ops : List (Op β)) (item : Item) : Option (Mem β × Nat) :=
  match np, ops, item with
  | 1, [], .slice none none => (getRows (m.parts 1) item).map fun _ => (m, 0)
  | _, _, _ => getitem m np ops item

end PhyVerif.C02
