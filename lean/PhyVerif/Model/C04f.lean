import PhyVerif.Model.C04
import PhyVerif.Model.C04c
/-!
Feature tables of the loaded model: `_load_features` (phylib/io/model.py:766-801) and
`_load_template_features` (model.py:803-829).  Both read a data array with `mmap_mode='r'` (hence NOT
scrubbed), an optional column table and an optional row table (spike ids); the principal-component
features are stored `(n_spikes, n_pcs, n_channels_loc)` and shown with the last two axes exchanged.
Core Lean only.
-/
namespace PhyVerif.C04

/-- `data.transpose((0, 2, 1))` of a 3-D array `(n, p, q)`, in C order -/
def transpose021 (a : Arr) : Arr :=
  match a.shape with
  | [n, p, q] =>
    ⟨[n, q, p],
     ((List.range n).map fun i =>
        ((List.range q).map fun k =>
          (List.range p).map fun j => a.data.getD (i * (p * q) + j * q + k) (.num 0)).flatten).flatten⟩
  | _ => a

/-- a data array with its optional column and row tables (`Bunch(data=, cols=, rows=)`) -/
structure Sparse where
  data : Arr
  cols : Option Arr
  rows : Option Arr
deriving Repr, DecidableEq

/-- `x.reshape(x.shape + (1,))` -/
def addAxis (a : Arr) : Arr := { a with shape := a.shape ++ [1] }

/-- the stored principal-component array as the loader sees it before exchanging the axes: squeezed
(memory-mapped, hence not scrubbed), a 2-D array (one component per channel) given a last axis
(model.py:771-775) -/
def feat3 (a : Arr) : Arr :=
  let d0 := squeeze a
  if d0.shape.length == 2 then addAxis d0 else d0

/-- the stored column table of the features: squeezed (memory-mapped), a vector made a column
(model.py:784-788) -/
def featCols (c : Arr) : Arr :=
  let c0 := squeeze c
  if c0.shape.length == 1 then addAxis c0 else c0

/-- an optional table next to a data array (the `try … except IOError` blocks of model.py:783-799,
815-827): absent ⇒ `none`; present ⇒ transformed, and asserted to have the given shape -/
def optTable (d : Dir) (name : String) (tr : Arr → Arr) (shape : List Nat) (what : String) :
    Except FullErr (Option Arr) :=
  match readFile d [name] with
  | none => pure none
  | some c => if (tr c).shape != shape then throw (.shape what) else pure (some (tr c))

/-- `_load_features` on the directory the loader leaves behind; `nt` = n_templates.
`none` = no `pc_features.npy`. -/
def loadFeatures (d : Dir) (nt : Nat) : Except FullErr (Option Sparse) :=
  match readFile d ["pc_features.npy"] with
  | none => pure none                                                  -- model.py:780-781
  | some a =>
    if (feat3 a).shape.length != 3 then throw (.shape "pc_features 3-D") else  -- model.py:776
    let data := transpose021 (feat3 a)                                 -- model.py:778
    do
      let cols ← optTable d "pc_feature_ind.npy" featCols [nt, (data.shape.drop 1).headD 0]
        "pc_feature_ind (nt, nloc)"                                    -- model.py:784-790
      let rows ← optTable d "pc_feature_spike_ids.npy" (fun r => squeeze (scrub r)) [data.shape.headD 0]
        "pc_feature_spike_ids (n,)"                                    -- model.py:796-797
      pure (some { data := data, cols := cols, rows := rows })

/-- `_load_template_features`; `none` = no `template_features.npy` -/
def loadTemplateFeatures (d : Dir) (nt : Nat) : Except FullErr (Option Sparse) :=
  match readFile d ["template_features.npy"] with
  | none => pure none
  | some a =>
    let data := squeeze a                                              -- memmap: no scrub
    if data.shape.length != 2 then throw (.shape "template_features 2-D") else   -- model.py:810
    do
      let cols ← optTable d "template_feature_ind.npy" (fun c => squeeze (scrub c))
        [nt, (data.shape.drop 1).headD 0] "template_feature_ind (nt, nloc)"      -- model.py:816-818
      let rows ← optTable d "template_feature_spike_ids.npy" (fun r => squeeze (scrub r))
        [data.shape.headD 0] "template_feature_spike_ids (n,)"                   -- model.py:824-825
      pure (some { data := data, cols := cols, rows := rows })

end PhyVerif.C04
