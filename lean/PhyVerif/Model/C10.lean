import PhyVerif.Model.C18
import PhyVerif.Model.C03
/-!
Model of the saved curation state (property C10), phylib/io/model.py + phylib/utils/_misc.py:
`save_spike_clusters`, `save_metadata` → `_write_tsv_simple`, `_load_metadata` / `load_metadata` /
`read_tsv` (error tolerant, `cluster_info` excluded), `save_spikes_subset_waveforms`, `close`,
reload = `load_model`.  The dataset directory is a finite map from file names to contents; the arrays no step
of a history writes (spike templates, spike times, the raw recording, the templates through the per-template
channel order) are the component `fixed`; the subset store is the three files of the C03 model
(`C03.saveSubset` / `C03.loadSubset`); the files that can hold the spike-cluster assignments are kept BY NAME
(`assign`): the loader and `save_spike_clusters` each resolve a file with `_find_path`, and a load that finds none
creates `spike_clusters.npy` (the one write a reload performs in this model).
-/
namespace PhyVerif.C10
open PhyVerif.C18 (Cell)

/-- content of a `*.tsv` / `*.csv` file in the dataset directory -/
inductive File where
  | table (header : List String) (rows : List (List String))   -- parsed by the csv module
  | unreadable                                                  -- empty file, bad quoting, … : read_tsv raises
deriving Repr, DecidableEq

/-- a metadata file name: stem and extension (`true` = `.tsv`, `false` = `.csv`) -/
abbrev FName := String × Bool

/-- name of a file that can hold the spike-cluster assignments: `none` = `spike_clusters.npy` (KiloSort / phy),
`some label` = `spikes.clusters<label>.npy` — what the loader's glob `spikes.clusters*.npy` matches: label `""` is the
plain ALF name, `".probe00"` a labelled ALF file -/
abbrev CName := Option String

/-- the part of the dataset directory that no operation of a history writes -/
structure Fixed (α : Type) where
  spikeTemplates : List Nat                 -- spike_templates.npy
  spikeSamples : List Int                   -- spike_times.npy
  raw : List (List α)                       -- the raw recording as `model.traces` shows it (channel map applied)
  chunks : List (Nat × Nat)                 -- `model.traces.iter_chunks()` (C16)
  orders : List (List Int)                  -- per template: `get_template(t).channel_ids` (templates.npy & co, C05)
  nsw : Nat                                 -- n_samples_waveforms (templates.shape[1])
  nClosest : Nat                            -- n_closest_channels (params.py, default 12)
  hasRaw : Bool                             -- `model.traces is not None`: params.py names a raw data file that exists
deriving Repr, DecidableEq

structure Disk (α : Type) where
  assign : List (CName × List Nat)          -- the assignment files in the directory, in the order `glob` lists them
  files : List (FName × File)               -- metadata files by name; a later write replaces the file
  subset : Option (C03.SubsetFiles α)       -- `_phy_spikes_subset.{spikes,channels,waveforms}.npy`
  fixed : Fixed α
deriving Repr, DecidableEq

inductive Op where
  | saveClusters (sc : List Nat)
  | saveMeta (field : String) (m : List (Nat × Option Cell))      -- dict {cluster_id: value or None}
  | writeFile (name : FName) (f : File)                           -- a foreign TSV/CSV file
  | saveSubset (sel : List Nat) (maxN : Nat)    -- `sel`: what the random spike selector returned (C17); max_n_channels
  | close
  | reload
deriving Repr

/-- replace or add a file -/
def putFile (files : List (FName × File)) (name : FName) (f : File) : List (FName × File) :=
  (files.filter fun p => p.1 != name) ++ [(name, f)]

/-- insert into an id-sorted association list (`sorted(data)` in `_write_tsv_simple`) -/
def insertById (x : Nat × Cell) : List (Nat × Cell) → List (Nat × Cell)
  | [] => [x]
  | y :: ys => if x.1 < y.1 then x :: y :: ys else if x.1 = y.1 then x :: ys else y :: insertById x ys

/-- the dict `{c: v for c, v in values.items() if v is not None}` as an id-sorted list; for a
repeated id the last entry wins (dict semantics) -/
def cleanMeta (m : List (Nat × Option Cell)) : List (Nat × Cell) :=
  m.foldl (fun acc p => match p.2 with
    | some v => insertById (p.1, v) acc
    | none => acc.filter fun q => q.1 != p.1) []

/-- `_write_tsv_simple(path, field, data)` -/
def simpleTable (render : Cell → String) (field : String) (data : List (Nat × Cell)) : File :=
  .table ["cluster_id", field] (data.map fun p => [toString p.1, render p.2])

variable {α : Type} [Zero α]

/-- `_find_path('spike_clusters.npy', 'spikes.clusters*.npy', multiple_ok=False, …)`, model.py `_find_path` (l. 482) / `_find_first_existing_path` (l. 251) as of 3b29a81: the
first file `glob` lists for each of the two patterns; one of them → that file, none → `None`. When BOTH patterns
match, the code raises IOError (`multiple_ok=False`; such a directory does not load — `Conflict`, out of scope of every
theorem); here the first pattern is taken. `save_spike_clusters` (model.py l. 1393) resolves its file with the same
two patterns, so the save goes to the file the loader reads. (Before the repair `fix: save spike clusters to the file
the loader reads` the save looked for the exact name `spikes.clusters.npy`: a labelled file loaded but could never be
saved — corpus/C10/pf_c10c_*.) -/
def findAssign (assign : List (CName × List Nat)) : Option (CName × List Nat) :=
  match assign.find? (fun p => p.1.isNone) with
  | some p => some p
  | none => assign.find? (fun p => p.1.isSome)

/-- both patterns of `_find_path` match: the loader (and the save) raise IOError -/
def Conflict (assign : List (CName × List Nat)) : Prop :=
  (∃ p ∈ assign, p.1.isNone) ∧ (∃ p ∈ assign, p.1.isSome)

/-- `np.save(path, spike_clusters)`: the first entry of that name is replaced (a directory has one), a missing
file is created -/
def writeAssign (name : CName) (sc : List Nat) : List (CName × List Nat) → List (CName × List Nat)
  | [] => [(name, sc)]
  | q :: qs => if q.1 = name then (name, sc) :: qs else q :: writeAssign name sc qs

/-- `_load_spike_clusters()`, model.py l. 615-634: the assignments a load shows — the content of the file found, or of the
copy of `spike_templates.npy` it creates when there is none -/
def shown (d : Disk α) : List Nat :=
  match findAssign d.assign with
  | some p => p.2
  | none => d.fixed.spikeTemplates

/-- one operation; `scale` is the multiplication by `sample2unit` -/
def step (render : Cell → String) (scale : α → α) (d : Disk α) : Op → Disk α
  | .saveClusters sc =>
    -- `save_spike_clusters`, model.py l. 1393-1399: the file is resolved by name, then overwritten
    match findAssign d.assign with
    | some p => { d with assign := writeAssign p.1 sc d.assign }
    | none => d       -- the code raises IOError (`mandatory`); never after a load, which leaves such a file
  | .saveMeta field m =>
    { d with files := putFile d.files ("cluster_" ++ field, true) (simpleTable render field (cleanMeta m)) }
  | .writeFile name f => { d with files := putFile d.files name f }
  | .saveSubset sel maxN =>
    -- `save_spikes_subset_waveforms`, model.py l. 1401-1404: without raw data (`self.traces is None`) a warning and an early return, nothing is written;
    -- l. 1406-1447 (raw data present): ids, channel rows and the chunk-by-chunk export replace the three files
    if d.fixed.hasRaw then
      { d with subset := some (C03.saveSubset scale d.fixed.raw d.fixed.chunks d.fixed.spikeSamples
          d.fixed.spikeTemplates d.fixed.orders sel d.fixed.nsw (C03.subsetWidth maxN d.fixed.nClosest)) }
    else d
  | .close => d
  | .reload =>
    -- `load_model`: the only file of this model a load writes is `spike_clusters.npy`, created as a copy of
    -- `spike_templates.npy` when no assignment file is found (model.py l. 618-623)
    match findAssign d.assign with
    | some _ => d
    | none => { d with assign := d.assign ++ [(none, d.fixed.spikeTemplates)] }

def run (render : Cell → String) (scale : α → α) (d : Disk α) (ops : List Op) : Disk α :=
  ops.foldl (step render scale) d

/-- a file of the dataset directory that an operation may write -/
inductive Target where
  | assign (n : CName)        -- `spike_clusters.npy` / `spikes.clusters<label>.npy`
  | table (n : FName)         -- a `.tsv` / `.csv` file
  | subsetStore               -- the three files `_phy_spikes_subset.{spikes,channels,waveforms}.npy`
deriving Repr, DecidableEq

/-- the files `step` may write (`step_writes_only`); everything else in the directory keeps its bytes -/
def touched (d : Disk α) : Op → List Target
  | .saveClusters _ => match findAssign d.assign with | some p => [.assign p.1] | none => []
  | .saveMeta field _ => [.table ("cluster_" ++ field, true)]
  | .writeFile name _ => [.table name]
  | .saveSubset _ _ => if d.fixed.hasRaw then [.subsetStore] else []
  | .close => []
  | .reload => match findAssign d.assign with | some _ => [] | none => [.assign none]

/-- `_load_spike_waveforms()` on reload: no files, or a waveform file that does not load → no store -/
def storeView (d : Disk α) : Option (C03.Store α) := d.subset.bind C03.loadSubset

/-- the class of a parsed id as a DICT KEY: Python compares and hashes `int` and `float` keys by numeric value
(`1 == 1.0`, `hash(1) == hash(1.0)`, also `0 == -0.0`), strings by content, and a number never equals a string.
`fnum tok` is the integer the value of the float token `tok` equals, if it is integral (number parsing is transport).
Not covered: `nan` ids (a `nan` key equals no key, not even itself). -/
inductive Key where
  | num (i : Int)
  | frac (tok : Nat)
  | str (s : String)
deriving Repr, DecidableEq

def keyOf (fnum : Nat → Option Int) : Cell → Key
  | .int i => .num i
  | .float t => match fnum t with
    | some i => .num i
    | none => .frac t
  | .text s => .str s

/-- `d[k] = v` on a dict kept as an association list in insertion order: an entry with an EQUAL key keeps its key object
and its place and takes the new value (`{1: 'A'}[1.0] = 'B'` gives `{1: 'B'}`); otherwise the pair is appended -/
def dictSet (fnum : Nat → Option Int) (k v : Cell) : List (Cell × Cell) → List (Cell × Cell)
  | [] => [(k, v)]
  | q :: qs => if keyOf fnum q.1 = keyOf fnum k then (q.1, v) :: qs else q :: dictSet fnum k v qs

/-- `d.get(k)` as the stored (key, value) pair of the class `κ` -/
def dictGet (fnum : Nat → Option Int) (d : List (Cell × Cell)) (κ : Key) : Option (Cell × Cell) :=
  d.find? fun q => keyOf fnum q.1 == κ

/-- `load_metadata(file)`: rows with a `cluster_id`, every other non-empty cell becomes
`out[field][cluster_id] = value` — a dict assignment keyed by the PARSED id (`dictSet`: a later row with an equal id,
however it is written — `1`, `01`, `1.0`, `1e0` —, overwrites the value and keeps the first row's key). A row is the dict
`{k: v for k, v in zip(header, row) if v != ''}` of `read_tsv`: for a repeated column name the LAST non-empty
cell is the value (so `cluster_id` is looked up from the right) -/
def loadMetadata (parse : String → Cell) (fnum : Nat → Option Int) (f : File) :
    Option (List (String × List (Cell × Cell))) :=
  match f with
  | .unreadable => none
  | .table header rows =>
    let cells := rows.map fun r => ((header.zip r).filter fun p => p.2 != "")
    some (cells.foldl (fun out row =>
      match row.reverse.lookup "cluster_id" with
      | none => out
      | some cid =>
        (row.filter fun p => p.1 != "cluster_id").foldl (fun out2 p =>
          let old := (out2.lookup p.1).getD []
          (out2.filter fun q => q.1 != p.1) ++ [(p.1, dictSet fnum (parse cid) (parse p.2) old)]) out) [])

/-- the loader's treatment of one visited file: `cluster_info` skipped, an unreadable file skipped,
`metadata[field] = data` for every field of the file (replaces the whole field) -/
def viewStep (parse : String → Cell) (fnum : Nat → Option Int) (acc : List (String × List (Cell × Cell))) (p : FName × File) :
    List (String × List (Cell × Cell)) :=
  if p.1.1 == "cluster_info" then acc else
  match loadMetadata parse fnum p.2 with
  | none => acc
  | some fields => fields.foldl (fun a fd => (a.filter fun q => q.1 != fd.1) ++ [fd]) acc

/-- `_load_metadata()` given the list of files in the order the loader visits them -/
def metadataViewIn (parse : String → Cell) (fnum : Nat → Option Int) (visit : List (FName × File)) : List (String × List (Cell × Cell)) :=
  visit.foldl (viewStep parse fnum) []

/-- `_load_metadata()`: all `*.csv` files first, then all `*.tsv` files (`files = list(glob('*.csv'));
files.extend(glob('*.tsv'))`, so that the TSV files phy writes win over legacy CSV files), each group in the order
of the directory listing `files` (which `glob` does not specify) -/
def metadataView (parse : String → Cell) (fnum : Nat → Option Int) (files : List (FName × File)) :
    List (String × List (Cell × Cell)) :=
  metadataViewIn parse fnum ((files.filter fun p => !p.1.2) ++ (files.filter fun p => p.1.2))

/-- what a freshly loaded model shows -/
def view (parse : String → Cell) (fnum : Nat → Option Int) (d : Disk α) : List Nat × List (String × List (Cell × Cell)) :=
  (shown d, metadataView parse fnum d.files)

end PhyVerif.C10
