import PhyVerif.Model.C18
import PhyVerif.Model.C03
/-!
Model of the saved curation state (property C10), phylib/io/model.py + phylib/utils/_misc.py:
`save_spike_clusters`, `save_metadata` → `_write_tsv_simple`, `_load_metadata` / `load_metadata` /
`read_tsv` (error tolerant, `cluster_info` excluded), `save_spikes_subset_waveforms`, `close`,
reload = `load_model`.  The dataset directory is a finite map from file names to contents; the arrays no step
of a history writes (spike templates, spike times, the raw recording, the templates through the per-template
channel order) are the component `fixed`; the subset store is the three files of the C03 model
(`C03.saveSubset` / `C03.loadSubset`).
-/
namespace PhyVerif.C10
open PhyVerif.C18 (Cell)

/-- content of a `*.tsv` / `*.csv` file in the dataset directory -/
inductive File where
  | table (header : List String) (rows : List (List String))   -- parsed by the csv module
  | unreadable                                                  -- empty file, bad quoting, … : read_tsv raises
deriving Repr, DecidableEq

/-- a metadata file name: stem and extension (`true` = `.tsv`, `false` = `.csv`) -/
abbrev FName := String × Bool

/-- the part of the dataset directory that no operation of a history writes -/
structure Fixed (α : Type) where
  spikeTemplates : List Nat                 -- spike_templates.npy
  spikeSamples : List Int                   -- spike_times.npy
  raw : List (List α)                       -- the raw recording as `model.traces` shows it (channel map applied)
  chunks : List (Nat × Nat)                 -- `model.traces.iter_chunks()` (C16)
  orders : List (List Int)                  -- per template: `get_template(t).channel_ids` (templates.npy & co, C05)
  nsw : Nat                                 -- n_samples_waveforms (templates.shape[1])
  nClosest : Nat                            -- n_closest_channels (params.py, default 12)
deriving Repr, DecidableEq

structure Disk (α : Type) where
  clusters : List Nat                       -- spike_clusters.npy
  files : List (FName × File)               -- metadata files by name; a later write replaces the file
  subset : Option (C03.SubsetFiles α)       -- `_phy_spikes_subset.{spikes,channels,waveforms}.npy`
  fixed : Fixed α
deriving Repr, DecidableEq

inductive Op where
  | saveClusters (sc : List Nat)
  | saveMeta (field : String) (m : List (Nat × Option Cell))      -- dict {cluster_id: value or None}
  | writeFile (name : FName) (f : File)                           -- a foreign TSV/CSV file
  | saveSubset (sel : List Nat) (maxN : Nat)    -- `sel`: what the random spike selector returned (C17); max_n_channels
  | close
  | reload
deriving Repr

/-- replace or add a file -/
def putFile (files : List (FName × File)) (name : FName) (f : File) : List (FName × File) :=
  (files.filter fun p => p.1 != name) ++ [(name, f)]

/-- insert into an id-sorted association list (`sorted(data)` in `_write_tsv_simple`) -/
def insertById (x : Nat × Cell) : List (Nat × Cell) → List (Nat × Cell)
  | [] => [x]
  | y :: ys => if x.1 < y.1 then x :: y :: ys else if x.1 = y.1 then x :: ys else y :: insertById x ys

/-- the dict `{c: v for c, v in values.items() if v is not None}` as an id-sorted list; for a
repeated id the last entry wins (dict semantics) -/
def cleanMeta (m : List (Nat × Option Cell)) : List (Nat × Cell) :=
  m.foldl (fun acc p => match p.2 with
    | some v => insertById (p.1, v) acc
    | none => acc.filter fun q => q.1 != p.1) []

/-- `_write_tsv_simple(path, field, data)` -/
def simpleTable (render : Cell → String) (field : String) (data : List (Nat × Cell)) : File :=
  .table ["cluster_id", field] (data.map fun p => [toString p.1, render p.2])

variable {α : Type} [Zero α]

/-- one operation; `scale` is the multiplication by `sample2unit` -/
def step (render : Cell → String) (scale : α → α) (d : Disk α) : Op → Disk α
  | .saveClusters sc => { d with clusters := sc }
  | .saveMeta field m =>
    { d with files := putFile d.files ("cluster_" ++ field, true) (simpleTable render field (cleanMeta m)) }
  | .writeFile name f => { d with files := putFile d.files name f }
  | .saveSubset sel maxN =>
    -- model.py:1369-1427 (raw data present): ids, channel rows and the chunk-by-chunk export replace the three files
    { d with subset := some (C03.saveSubset scale d.fixed.raw d.fixed.chunks d.fixed.spikeSamples
        d.fixed.spikeTemplates d.fixed.orders sel d.fixed.nsw (C03.subsetWidth maxN d.fixed.nClosest)) }
  | .close => d
  | .reload => d

def run (render : Cell → String) (scale : α → α) (d : Disk α) (ops : List Op) : Disk α :=
  ops.foldl (step render scale) d

/-- `_load_spike_waveforms()` on reload: no files, or a waveform file that does not load → no store -/
def storeView (d : Disk α) : Option (C03.Store α) := d.subset.bind C03.loadSubset

/-- `load_metadata(file)`: rows with a `cluster_id`, every other non-empty cell becomes
`out[field][cluster_id] = value` (a later row overwrites an earlier one for the same id). A row is the dict
`{k: v for k, v in zip(header, row) if v != ''}` of `read_tsv`: for a repeated column name the LAST non-empty
cell is the value (so `cluster_id` is looked up from the right) -/
def loadMetadata (parse : String → Cell) (f : File) : Option (List (String × List (Cell × Cell))) :=
  match f with
  | .unreadable => none
  | .table header rows =>
    let cells := rows.map fun r => ((header.zip r).filter fun p => p.2 != "")
    some (cells.foldl (fun out row =>
      match row.reverse.lookup "cluster_id" with
      | none => out
      | some cid =>
        (row.filter fun p => p.1 != "cluster_id").foldl (fun out2 p =>
          let old := (out2.lookup p.1).getD []
          let upd := (old.filter fun q => q.1 != parse cid) ++ [(parse cid, parse p.2)]
          (out2.filter fun q => q.1 != p.1) ++ [(p.1, upd)]) out) [])

/-- the loader's treatment of one visited file: `cluster_info` skipped, an unreadable file skipped,
`metadata[field] = data` for every field of the file (replaces the whole field) -/
def viewStep (parse : String → Cell) (acc : List (String × List (Cell × Cell))) (p : FName × File) :
    List (String × List (Cell × Cell)) :=
  if p.1.1 == "cluster_info" then acc else
  match loadMetadata parse p.2 with
  | none => acc
  | some fields => fields.foldl (fun a fd => (a.filter fun q => q.1 != fd.1) ++ [fd]) acc

/-- `_load_metadata()` given the list of files in the order the loader visits them -/
def metadataViewIn (parse : String → Cell) (visit : List (FName × File)) : List (String × List (Cell × Cell)) :=
  visit.foldl (viewStep parse) []

/-- `_load_metadata()`: all `*.csv` files first, then all `*.tsv` files (`files = list(glob('*.csv'));
files.extend(glob('*.tsv'))`, so that the TSV files phy writes win over legacy CSV files), each group in the order
of the directory listing `files` (which `glob` does not specify) -/
def metadataView (parse : String → Cell) (files : List (FName × File)) :
    List (String × List (Cell × Cell)) :=
  metadataViewIn parse ((files.filter fun p => !p.1.2) ++ (files.filter fun p => p.1.2))

/-- what a freshly loaded model shows -/
def view (parse : String → Cell) (d : Disk α) : List Nat × List (String × List (Cell × Cell)) :=
  (d.clusters, metadataView parse d.files)

end PhyVerif.C10
