import PhyVerif.Model.C18
/-!
Model of the saved curation state (property C10), phylib/io/model.py + phylib/utils/_misc.py:
`save_spike_clusters`, `save_metadata` → `_write_tsv_simple`, `_load_metadata` / `load_metadata` /
`read_tsv` (error tolerant, `cluster_info` excluded), `save_spikes_subset_waveforms`, `close`,
reload = `load_model`.  The dataset directory is a finite map from file names to contents.
-/
namespace PhyVerif.C10
open PhyVerif.C18 (Cell)

/-- content of a `*.tsv` / `*.csv` file in the dataset directory -/
inductive File where
  | table (header : List String) (rows : List (List String))   -- parsed by the csv module
  | unreadable                                                  -- empty file, bad quoting, … : read_tsv raises
deriving Repr, DecidableEq

/-- a metadata file name: stem and extension (`true` = `.tsv`, `false` = `.csv`) -/
abbrev FName := String × Bool

structure Disk where
  clusters : List Nat                       -- spike_clusters.npy
  files : List (FName × File)               -- metadata files by name; a later write replaces the file
  subsetSaved : Bool                        -- `_phy_spikes_subset.*` present
deriving Repr, DecidableEq

inductive Op where
  | saveClusters (sc : List Nat)
  | saveMeta (field : String) (m : List (Nat × Option Cell))      -- dict {cluster_id: value or None}
  | writeFile (name : FName) (f : File)                           -- a foreign TSV/CSV file
  | saveSubset
  | close
  | reload
deriving Repr

/-- replace or add a file -/
def putFile (files : List (FName × File)) (name : FName) (f : File) : List (FName × File) :=
  (files.filter fun p => p.1 != name) ++ [(name, f)]

/-- insert into an id-sorted association list (`sorted(data)` in `_write_tsv_simple`) -/
def insertById (x : Nat × Cell) : List (Nat × Cell) → List (Nat × Cell)
  | [] => [x]
  | y :: ys => if x.1 < y.1 then x :: y :: ys else if x.1 = y.1 then x :: ys else y :: insertById x ys

/-- the dict `{c: v for c, v in values.items() if v is not None}` as an id-sorted list; for a
repeated id the last entry wins (dict semantics) -/
def cleanMeta (m : List (Nat × Option Cell)) : List (Nat × Cell) :=
  m.foldl (fun acc p => match p.2 with
    | some v => insertById (p.1, v) acc
    | none => acc.filter fun q => q.1 != p.1) []

/-- `_write_tsv_simple(path, field, data)` -/
def simpleTable (render : Cell → String) (field : String) (data : List (Nat × Cell)) : File :=
  .table ["cluster_id", field] (data.map fun p => [toString p.1, render p.2])

def step (render : Cell → String) (d : Disk) : Op → Disk
  | .saveClusters sc => { d with clusters := sc }
  | .saveMeta field m =>
    { d with files := putFile d.files ("cluster_" ++ field, true) (simpleTable render field (cleanMeta m)) }
  | .writeFile name f => { d with files := putFile d.files name f }
  | .saveSubset => { d with subsetSaved := true }
  | .close => d
  | .reload => d

def run (render : Cell → String) (d : Disk) (ops : List Op) : Disk := ops.foldl (step render) d

/-- `load_metadata(file)`: rows with a `cluster_id`, every other non-empty cell becomes
`out[field][cluster_id] = value` (a later row overwrites an earlier one for the same id) -/
def loadMetadata (parse : String → Cell) (f : File) : Option (List (String × List (Cell × Cell))) :=
  match f with
  | .unreadable => none
  | .table header rows =>
    let cells := rows.map fun r => ((header.zip r).filter fun p => p.2 != "")
    some (cells.foldl (fun out row =>
      match row.lookup "cluster_id" with
      | none => out
      | some cid =>
        (row.filter fun p => p.1 != "cluster_id").foldl (fun out2 p =>
          let old := (out2.lookup p.1).getD []
          let upd := (old.filter fun q => q.1 != parse cid) ++ [(parse cid, parse p.2)]
          (out2.filter fun q => q.1 != p.1) ++ [(p.1, upd)]) out) [])

/-- `_load_metadata()`: all `*.csv` files first, then all `*.tsv` files (so that the TSV files phy
writes win over legacy CSV files), except `cluster_info`; unreadable ones skipped;
`metadata[field] = data` per file (a later file replaces the whole field) -/
def metadataView (parse : String → Cell) (files : List (FName × File)) :
    List (String × List (Cell × Cell)) :=
  ((files.filter fun p => !p.1.2) ++ (files.filter fun p => p.1.2)).foldl (fun acc p =>
    if p.1.1 == "cluster_info" then acc else
    match loadMetadata parse p.2 with
    | none => acc
    | some fields => fields.foldl (fun a fd => (a.filter fun q => q.1 != fd.1) ++ [fd]) acc) []

/-- what a freshly loaded model shows -/
def view (parse : String → Cell) (d : Disk) : List Nat × List (String × List (Cell × Cell)) :=
  (d.clusters, metadataView parse d.files)

end PhyVerif.C10
