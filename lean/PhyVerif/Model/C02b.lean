import PhyVerif.Model.C02
/-!
A statement-level model of `BaseEphysReader._append_op` (phylib/io/traces.py:253-258) with Python's object
semantics made explicit, so that ALIASING is expressible: list objects live in a store by address, a reader object
holds the ADDRESS of its `_ops` list, `copy.copy` creates a new reader object holding the SAME address, `list(x)`
allocates a new list object, `.append` mutates the list object at an address.

`Model/C02.derive` is the abstraction of the three statements; `Lemmas/C02b.appendOp_refines_derive` proves it, and
`aliasing_variant_changes_parent` proves that the program WITHOUT the fresh list (the regression the NOTE in the code
warns about) does change what the parent returns — the model can tell the two apart.
-/
namespace PhyVerif.C02
open PhyVerif

/-- Python objects: list objects by address; reader objects by id, each holding the address of its `_ops` -/
structure Store (β : Type) where
  lists : List (List (Op β))
  readers : List Nat

/-- the statements `_append_op` is made of (and the ones plausible rewrites use) -/
inductive Stmt (β : Type) where
  /-- `clone = copy.copy(src)`: a new reader object whose `_ops` field holds the same address -/
  | copyReader (src : Nat)
  /-- `rd._ops = list(src._ops)`: a new list object with the same items; `rd`'s field now holds its address -/
  | freshOps (rd src : Nat)
  /-- `rd._ops.append(op)`: in place, on the list object `rd`'s field points to -/
  | append (rd : Nat) (op : Op β)

def Store.addr {β : Type} (s : Store β) (rd : Nat) : Nat := s.readers.getD rd 0

/-- the operations a reader carries: the contents of the list object its field points to -/
def Store.opsOf {β : Type} (s : Store β) (rd : Nat) : List (Op β) := s.lists.getD (s.addr rd) []

def exec {β : Type} (s : Store β) : Stmt β → Store β
  | .copyReader src => { s with readers := s.readers ++ [s.addr src] }
  | .freshOps rd src => { lists := s.lists ++ [s.opsOf src], readers := s.readers.set rd s.lists.length }
  | .append rd op => { s with lists := s.lists.set (s.addr rd) (s.opsOf rd ++ [op]) }

def run {β : Type} (s : Store β) (prog : List (Stmt β)) : Store β := prog.foldl exec s

/-- `_append_op(op)` called on reader `self`; the clone is the next reader id -/
def appendOpProgram {β : Type} (s : Store β) (self : Nat) (op : Op β) : List (Stmt β) :=
  let clone := s.readers.length
  [.copyReader self, .freshOps clone self, .append clone op]

/-- the same method without `clone._ops = list(self._ops)` (shared list: the side effect the NOTE warns about) -/
def aliasingVariant {β : Type} (s : Store β) (self : Nat) (op : Op β) : List (Stmt β) :=
  let clone := s.readers.length
  [.copyReader self, .append clone op]

/-- no reader points outside the store -/
def Store.WF {β : Type} (s : Store β) : Prop := ∀ rd, rd < s.readers.length → s.addr rd < s.lists.length

/-- what every reader carries, reader by reader: the heap `Model/C02` works with -/
def Store.abs {β : Type} (s : Store β) : Heap β := (List.range s.readers.length).map s.opsOf

end PhyVerif.C02
