/-!
Model of `phylib/io/datasets.py: download_file` (property C20): pre-check of an existing file,
download, verification against `URL + '.md5'`, one retry, `RuntimeError`.
Bodies and checksums are tokens; `hash` is an abstract function (MD5 in the real code).
A server is two scripts: what the data URL answers to successive GETs and what the checksum URL
answers; an exhausted script answers with an error / "unavailable".
-/
namespace PhyVerif.C20

inductive DataResp where
  | body (b : Nat)        -- HTTP 200 with this body
  | httpError             -- non-200
deriving Repr, DecidableEq

inductive SumResp where
  | avail (h : Nat)       -- checksum file served, first field = h
  | missing               -- any failure while fetching it (or an empty checksum)
deriving Repr, DecidableEq

inductive Req where
  | data
  | sum
deriving Repr, DecidableEq

inductive Result where
  | skipped               -- returned early: valid existing file
  | done                  -- returned normally after downloading
  | httpError             -- `raise_for_status()`
  | mismatch              -- RuntimeError: checksum doesn't match
deriving Repr, DecidableEq

structure St where
  file : Option Nat
  dscript : List DataResp
  sscript : List SumResp
  log : List (Req × Option SumResp)     -- requests in order; for checksum requests, the answer
deriving Repr

/-- `_check_md5_of_url`: tri-state `some true` / `some false` / `none` -/
def checkSum (hash : Nat → Nat) (st : St) : St × Option Bool :=
  let (resp, rest) := match st.sscript with
    | [] => (SumResp.missing, [])
    | r :: rs => (r, rs)
  let st' := { st with sscript := rest, log := st.log ++ [(.sum, some resp)] }
  match resp, st.file with
  | .avail h, some b => (st', some (hash b == h))
  | .avail _, none => (st', none)      -- not reached: the file exists whenever a check runs
  | .missing, _ => (st', none)

/-- `_download` + `_save_stream`: `none` = HTTP error raised, the file is left as it was -/
def fetch (st : St) : Option St :=
  let (resp, rest) := match st.dscript with
    | [] => (DataResp.httpError, [])
    | r :: rs => (r, rs)
  match resp with
  | .httpError => none
  | .body b => some { st with file := some b, dscript := rest, log := st.log ++ [(.data, none)] }

def logData (st : St) : St := { st with log := st.log ++ [(.data, none)], dscript := st.dscript.tail }

/-- `download_file` -/
def download (hash : Nat → Nat) (st0 : St) : St × Result :=
  -- pre-check
  let pre : St × Option Bool := match st0.file with
    | some _ => checkSum hash st0
    | none => (st0, none)
  if pre.2 == some true then (pre.1, .skipped) else
  match fetch pre.1 with
  | none => (logData pre.1, .httpError)
  | some st1 =>
    let (st2, c1) := checkSum hash st1
    if c1 == some false then
      match fetch st2 with
      | none => (logData st2, .httpError)
      | some st3 =>
        let (st4, c2) := checkSum hash st3
        if c2 == some false then (st4, .mismatch) else (st4, .done)
    else (st2, .done)

def start (prior : Option Nat) (ds : List DataResp) (ss : List SumResp) : St := ⟨prior, ds, ss, []⟩

/-- number of data requests in a log -/
def nData (log : List (Req × Option SumResp)) : Nat := (log.filter fun r => r.1 == .data).length

/-- answer to the last checksum request of a log -/
def lastSum (log : List (Req × Option SumResp)) : Option SumResp :=
  match (log.filter fun r => r.1 == .sum).getLast? with
  | some (_, r) => r
  | none => none

/-! ### The text of the checksum file (`_check_md5_of_url`, phylib/io/datasets.py:83-90)

`checksum = download_text_file(url + '.md5').split()[0]` inside `try … except Exception: checksum = None`,
then `if checksum: return _check_md5(output_path, checksum)`.  A text is a list of code points. -/

/-- `str.isspace` of one code point (CPython `_PyUnicode_IsWhitespace`): what `str.split()` without an
argument separates on. -/
def isWhite (c : Nat) : Bool :=
  (9 ≤ c && c ≤ 13) || (28 ≤ c && c ≤ 32) || c == 0x85 || c == 0xa0 || c == 0x1680 ||
  (0x2000 ≤ c && c ≤ 0x200a) || c == 0x2028 || c == 0x2029 || c == 0x202f || c == 0x205f || c == 0x3000

/-- `text.split()[0]`: the first whitespace-separated field; `none` = `IndexError` (no field at all:
an empty or all-whitespace text), which datasets.py:87 turns into "no checksum". -/
def firstField (text : List Nat) : Option (List Nat) :=
  match (text.dropWhile isWhite).takeWhile (fun c => !isWhite c) with
  | [] => none
  | f => some f

/-- `str.lower()` on one code point, restricted to ASCII: no code point outside `A`-`Z` has a hexadecimal digit
(or any ASCII letter a-f) as its lower case, so for the comparison with a `hexdigest()` nothing else matters. -/
def lowerAscii (c : Nat) : Nat := if 65 ≤ c && c ≤ 90 then c + 32 else c

/-- what one GET of `URL + '.md5'` delivers, before it is parsed -/
inductive SumAnswer where
  | text (t : List Nat)   -- HTTP 200 with this text
  | error                 -- non-200 (`raise_for_status()` inside the `try`)
deriving Repr, DecidableEq

/-- datasets.py:84-90 and the comparison `_md5(path) == checksum` of `_check_md5` (datasets.py:80) for one answer.
The comparison is the one of hexadecimal numerals, i.e. letter case is ignored (`hashlib`'s `hexdigest()` is lower
case, `certutil` / `Get-FileHash` publish upper case): the field is lower-cased before it is compared.
`render` lists the hash values that some body has together with their
`hexdigest()` text; a field that renders no listed hash value is the checksum `other` (to be chosen outside
the hash values of the bodies: such a field matches no file). -/
def parseSum (render : List (Nat × List Nat)) (other : Nat) : SumAnswer → SumResp
  | .error => .missing
  | .text t =>
    match firstField t with
    | none => .missing
    | some f =>
      match render.find? (fun r => r.2 == f.map lowerAscii) with
      | some r => .avail r.1
      | none => .avail other

/-! ### HTTP statuses (`_download`, phylib/io/datasets.py:53-59)

`r = get(url, stream=stream)`, then `if r.status_code != 200: r.raise_for_status()`, then `return r`.
"HTTP error" of the statement is a status, not the one number 404: every client (4xx) and server (5xx) error. -/

/-- `requests.Response.raise_for_status` raises `HTTPError` exactly for `400 <= status_code < 600`. -/
def isHttpError (status : Nat) : Bool := 400 ≤ status && status < 600

/-- `_download` raises: the status is not 200 and `raise_for_status()` raises for it.  (A non-200 status below 400 -
1xx, 204, 206, a redirect that was not followed - is handed on like a 200 by the code that exists; such answers are
no "HTTP error" and no "correct / corrupted body" of the statement and are not generated.) -/
def getRaises (status : Nat) : Bool := status != 200 && isHttpError status

/-- what one GET of the data URL answered with `status` and a body with token `b` is to `download_file` -/
def dataOfStatus (status b : Nat) : DataResp := if getRaises status then .httpError else .body b

/-- what one GET of `URL + '.md5'` answered with `status` and the text `t` is to `_check_md5_of_url` (the error page
of an HTTP error is never read: `raise_for_status()` raises inside the `try`) -/
def sumOfStatus (status : Nat) (t : List Nat) : SumAnswer := if getRaises status then .error else .text t

end PhyVerif.C20
