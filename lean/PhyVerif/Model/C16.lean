/-
Model of the chunking helpers of phylib (property C16).

  phylib/io/array.py : chunk_bounds, excerpts, _excerpt_step, data_chunk, get_excerpts
  phylib/io/traces.py: _get_chunk_bounds, BaseEphysReader.iter_chunks,
                       MtscompEphysReader.iter_chunks

Core Lean only (linked into the native driver).
-/
namespace PhyVerif.C16

/-- One tuple yielded by `chunk_bounds`: (s_start, s_end, keep_start, keep_end). -/
structure Chunk where
  s : Int
  e : Int
  ks : Int
  ke : Int
deriving Repr, DecidableEq

/-- Python `data[i:j]` for ints `i, j ≥ 0` (clamping at the end of the data is what
`List.drop`/`List.take` do). -/
def pySlice {α : Type} (data : List α) (i j : Int) : List α :=
  (data.drop i.toNat).take (j.toNat - i.toNat)

/-- The `while` loop of `chunk_bounds` with fuel.  State = (s_end, keep_end, yielded so far). -/
def loopCB (n cs ov : Int) : Nat → Int → Int → List Chunk → (Int × Int × List Chunk)
  | 0, sEnd, keepEnd, acc => (sEnd, keepEnd, acc)
  | fuel+1, sEnd, keepEnd, acc =>
    if sEnd - ov + cs < n then
      let s := sEnd - ov
      let e := s + cs
      let ke := e - ov / 2
      loopCB n cs ov fuel e ke (if s < e then acc ++ [⟨s, e, keepEnd, ke⟩] else acc)
    else (sEnd, keepEnd, acc)

/-- `list(chunk_bounds(n, cs, ov))`. -/
def chunkBounds (n cs ov : Int) : List Chunk :=
  let first : Chunk := ⟨0, cs, 0, cs - ov / 2⟩
  let r := loopCB n cs ov n.toNat cs (cs - ov / 2) [first]
  if r.1 - ov < n then r.2.2 ++ [⟨r.1 - ov, n, r.2.1, n⟩] else r.2.2

/-- concatenation of `data_chunk(data, c)` (kept part) over the chunks. -/
def kept {α : Type} (data : List α) (cs : List Chunk) : List α :=
  (cs.map (fun c => pySlice data c.ks c.ke)).flatten

/-- `data_chunk(data, c, with_overlap=True)`. -/
def chunkData {α : Type} (data : List α) (c : Chunk) : List α := pySlice data c.s c.e

/-! ### `_get_chunk_bounds` -/

/-- Python `list(range(a, b, step))` for `step > 0`. -/
def pyRange (a b step : Nat) : List Nat :=
  (List.range ((b - a + step - 1) / step)).map (fun i => a + i * step)

/-- One iteration of the `for arr_size in arr_sizes` loop. State = (b, n). -/
def gcbStep (cs : Nat) (st : List Nat × Nat) (size : Nat) : List Nat × Nat :=
  let b := st.1
  let n := st.2
  let ch := pyRange n (n + size + 1) cs
  let ch := if !b.isEmpty && !ch.isEmpty && ch.head? == b.getLast? then ch.tail else ch
  let b := b ++ ch
  let b := if b.getLast? != some (n + size) then b ++ [n + size] else b
  (b, n + size)

def getChunkBounds (sizes : List Nat) (cs : Nat) : List Nat :=
  (sizes.foldl (gcbStep cs) ([], 0)).1

/-- `_get_part_bounds`: `[0] + cumsum(sizes)`. -/
def partBoundsFrom : Nat → List Nat → List Nat
  | off, [] => [off]
  | off, s :: ss => off :: partBoundsFrom (off + s) ss

def partBounds (sizes : List Nat) : List Nat := partBoundsFrom 0 sizes

/-! ### chunk iterators -/

/-- `BaseEphysReader.iter_chunks`: `zip(bounds[:-1], bounds[1:])`. -/
def iterChunksBase (b : List Nat) : List (Nat × Nat) := b.zip b.tail

/-- chunk-index intervals `(first', last')` of `MtscompEphysReader.iter_chunks` for one batch -/
def mtsBatch (bs nc batch : Nat) : Nat × Nat :=
  let first := bs * batch
  let last := min (bs * (batch + 1)) nc
  let first' := first - 1            -- max(first - 1, 0)
  let last' := max first' (last - 1)
  (first', last')

/-- number of batches as mtscomp computes it: ceil(n_chunks / batch_size).  `bs = 0` (a reader created with
`n_threads=0`: what `get_ephys_reader(<path>.cbin)` does on a one-cpu machine, `cpu_count() // 2`): the real division
raises ZeroDivisionError while the reader is opened; Lean's `/ 0 = 0` gives no batch (`iterChunksMts_bs_zero`). -/
def nBatches (bs nc : Nat) : Nat := (nc + bs - 1) / bs

/-- index intervals yielded by the compressed iterator (including the trailing "last chunk"). -/
def iterMtsIdx (bs nc : Nat) : List (Nat × Nat) :=
  let bt := (List.range (nBatches bs nc)).map (mtsBatch bs nc)
  match bt.getLast? with
  | none => []    -- the real code raises (unbound local) when there is no batch
  | some l => bt ++ [(l.2, l.2 + 1)]

def iterChunksMts (bs : Nat) (cb : List Nat) : List (Nat × Nat) :=
  (iterMtsIdx bs (cb.length - 1)).map (fun p => (cb.getD p.1 0, cb.getD p.2 0))

/-! ### excerpts -/

/-- `_excerpt_step` (Python floor division on a possibly negative numerator). -/
def excerptStep (n k size : Int) : Int := max (Int.fdiv (n - size) (k - 1)) size

/-- `list(excerpts(n, k, size))` -/
def excerptsLoop (n step size : Int) : Nat → Nat → List (Int × Int)
  | 0, _ => []
  | fuel+1, i =>
    let start := (i : Int) * step
    if start ≥ n then [] else (start, min (start + size) n) :: excerptsLoop n step size fuel (i+1)

def excerpts (n k size : Int) : List (Int × Int) :=
  excerptsLoop n (excerptStep n k size) size k.toNat 0

/-- `get_excerpts(data, k, size)` on a list. -/
def getExcerpts {α : Type} (data : List α) (k size : Nat) : List α :=
  if data.length < k * size then data
  else if k = 0 then []
  else if k = 1 then data.take size
  else ((excerpts data.length k size).map (fun p => pySlice data p.1 p.2)).flatten

end PhyVerif.C16
