import PhyVerif.Model.C18
/-!
Concrete renderer / parser instance for the TSV model of `Model/C18.lean` (property C18):
what `write_tsv` (`str(value)`) and `read_tsv` (`_try_make_number`) do on integer cells and on
plain alphabetic labels such as "good", "mua".  Floats are outside this instance.
-/
namespace PhyVerif.C18

/-- `str(value)` as used by `write_tsv` on integers and labels (floats: outside this instance) -/
def renderPy : Cell → String
  | .int i => intToStr i
  | .text s => s
  | .float _ => ""

/-- `_try_make_number` on strings that are not float literals: `int(s)` when it succeeds,
otherwise the string itself -/
def parsePy (s : String) : Cell :=
  if isIntString s then .int (parseInt s) else .text s

/-- cells of this instance: integers and non-empty alphabetic labels -/
def CellPy : Cell → Prop
  | .int _ => True
  | .text s => s ≠ "" ∧ s.toList.all Char.isAlpha = true
  | .float _ => False

end PhyVerif.C18
