import PhyVerif.Model.Np
/-!
Model of the spike side of probe merging (property C11), phylib/io/merge.py:
`_load_multiple_spike_times` (concatenate + stable argsort), `_load_multiple_spike_arrays`
(concatenate + gather), `write_spike_clusters` (running offsets `max + 1`), `cluster_probes`,
`write_cluster_data` (renumbered per-cluster TSV).
-/
namespace PhyVerif.C11
open PhyVerif

/-- `spike_order`: stable argsort of the concatenated spike times -/
def spikeOrder (times : List (List Int)) : List Nat := Np.argsortStable times.flatten

/-- `concat(arrays)[spike_order]` -/
def gather {α : Type} (arrays : List (List α)) (order : List Nat) : List α :=
  order.filterMap (arrays.flatten[·]?)

/-- merged spike times -/
def mergedTimes (times : List (List Int)) : List Int := gather times (spikeOrder times)

/-- running offsets of `write_spike_clusters`: `offset_{k+1} = offset_k + max(ids_k) + 1` -/
def idOffsetsFrom : Nat → List (List Nat) → List Nat
  | _, [] => []
  | off, ids :: rest => off :: idOffsetsFrom (off + (ids.foldl max 0) + 1) rest

def idOffsets (ids : List (List Nat)) : List Nat := idOffsetsFrom 0 ids

/-- per-probe id arrays after `sc += offset` -/
def shiftIds (ids : List (List Nat)) : List (List Nat) :=
  (ids.zip (idOffsets ids)).map fun p => p.1.map (· + p.2)

/-- merged id array (clusters or templates) -/
def mergedIds (times : List (List Int)) (ids : List (List Nat)) : List Nat :=
  gather (shiftIds ids) (spikeOrder times)

/-- `cluster_probes`: `i * ones(max(sc_i) + 1)` concatenated -/
def clusterProbes (ids : List (List Nat)) : List Nat :=
  (ids.zipIdx.map fun p => List.replicate ((p.1.foldl max 0) + 1) p.2).flatten

/-- renumbered per-cluster metadata: `metadata[k + offset] = v`, later probes overwrite earlier
ones on equal keys (a Python dict); `none` = the probe has no such file -/
def mergeMetadata {β : Type} (md : List (Option (List (Nat × β)))) (offsets : List Nat) :
    List (Nat × β) :=
  ((md.zip offsets).map fun p =>
    match p.1 with
    | none => []
    | some l => l.map fun kv => (kv.1 + p.2, kv.2)).flatten

/-- `write_cluster_data` with the actual offsets: the rows of probe `k` whose cluster id lies in the
probe's id range (`c ≤ max(spike_clusters_k)`; rows of higher ids have no spike and no place in the
merged numbering) are renumbered by `idOffsets`; `none` = the probe has no such file -/
def mergeClusterData {β : Type} (md : List (Option (List (Nat × β)))) (ids : List (List Nat)) :
    List (Nat × β) :=
  (((md.zip ids).zip (idOffsets ids)).map fun p =>
    match p.1.1 with
    | none => []
    | some l => (l.filter fun kv => kv.1 ≤ p.1.2.foldl max 0).map fun kv => (kv.1 + p.2, kv.2)).flatten

end PhyVerif.C11

namespace PhyVerif.C11

/-- running offsets as prefix sums of per-probe sizes -/
def sizeOffsetsFrom : Nat → List Nat → List Nat
  | _, [] => []
  | off, s :: rest => off :: sizeOffsetsFrom (off + s) rest

/-- template offsets of `write_spike_clusters`: per probe
`max(max(spike_templates) + 1, number of rows of templates.npy)` -/
def templateSizes (ids : List (List Nat)) (counts : List Nat) : List Nat :=
  (ids.zip counts).map fun p => max (p.1.foldl max 0 + 1) p.2

def templateOffsets (ids : List (List Nat)) (counts : List Nat) : List Nat :=
  sizeOffsetsFrom 0 (templateSizes ids counts)

/-- per-probe id arrays after `st += offset` -/
def shiftBy (ids : List (List Nat)) (offsets : List Nat) : List (List Nat) :=
  (ids.zip offsets).map fun p => p.1.map (· + p.2)

/-- merged template ids -/
def mergedTemplateIds (times : List (List Int)) (ids : List (List Nat)) (counts : List Nat) : List Nat :=
  gather (shiftBy ids (templateOffsets ids counts)) (spikeOrder times)

end PhyVerif.C11
