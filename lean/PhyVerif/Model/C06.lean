import PhyVerif.Model.Np
/-!
Model of the sparse → dense feature access (property C06), phylib/io/model.py:
`from_sparse`, `get_features`, `get_template_features` (and `_index_of` from array.py).
A cell `β` is opaque (it may stand for the vector of principal components of one channel, i.e. the
trailing dimensions); `zero` is what `np.zeros` gives and `nan` what the NaN pre-fill gives.
`none` = the real code raises.
-/
namespace PhyVerif.C06
open PhyVerif

variable {β : Type}

/-- relative column of a stored channel index: position in `r_[channel_ids, -1]`; anything that
is not requested goes to the discard column `n` -/
def locOf (chans : List Nat) (c : Int) : Nat :=
  if 0 ≤ c ∧ chans.contains c.toNat then chans.idxOf c.toNat else chans.length

/-- one row of `out[x, cols_loc, ...] = data`: scatter in column order (a later write wins),
into `n + 1` columns, then drop the discard column -/
def scatterRow (zero : β) (chans : List Nat) (data : List β) (cols : List Int) : List β :=
  let init := List.replicate (chans.length + 1) zero
  let filled := (cols.zip data).foldl (fun acc (p : Int × β) => acc.set (locOf chans p.1) p.2) init
  filled.take chans.length

/-- `from_sparse(data, cols, channel_ids)`; `none` when the requested channels are not distinct
(`NotImplementedError`) or the shapes disagree (assertion) -/
def fromSparse (zero : β) (data : List (List β)) (cols : List (List Int)) (chans : List Nat) :
    Option (List (List β)) :=
  if !chans.Nodup then none
  else if data.length != cols.length then none
  else if (data.zip cols).any (fun p => p.1.length != p.2.length) then none
  else some ((data.zip cols).map fun p => scatterRow zero chans p.1 p.2)

/-- a feature store: data rows, optional per-template column table, optional row (spike id) table -/
structure Sparse (β : Type) where
  data : List (List β)
  cols : Option (List (List Int))
  rows : Option (List Nat)

/-- sorted distinct common elements (`np.intersect1d`) -/
def intersect1d (a b : List Nat) : List Nat :=
  Np.unique ((a.filter (b.contains ·)).map Int.ofNat)

/-- the NaN-pre-filled `(ns, nloc)` block with the stored rows written at the positions of their
spikes in the request -/
def gatherRows (nan : β) (sf : Sparse β) (nloc : Nat) (spikeIds : List Nat) : Option (List (List β)) :=
  match sf.rows with
  | some rows => do
    let s := intersect1d spikeIds rows
    let rel ← Np.indexOf (s.map Int.ofNat) rows
    let out ← Np.indexOf (s.map Int.ofNat) spikeIds
    let init := List.replicate spikeIds.length (List.replicate nloc nan)
    pure ((out.zip rel).foldl (fun acc (p : Int × Int) =>
      acc.set p.1.toNat (sf.data.getD p.2.toNat [])) init)
  | none => spikeIds.mapM fun q => sf.data[q]?

/-- per requested spike: the column table row of its template, or `arange(nloc)` -/
def colsFor (sf : Sparse β) (nloc : Nat) (spikeTemplates : List Nat) (spikeIds : List Nat) :
    Option (List (List Int)) :=
  match sf.cols with
  | some cols => spikeIds.mapM fun q => do
      let t ← spikeTemplates[q]?
      cols[t]?
  | none => some (spikeIds.map fun _ => (List.range nloc).map Int.ofNat)

/-- `get_features(spike_ids, channel_ids)` with a feature file present -/
def getFeatures (zero nan : β) (sf : Sparse β) (nloc : Nat) (spikeTemplates : List Nat)
    (spikeIds chans : List Nat) : Option (List (List β)) := do
  let feats ← gatherRows nan sf nloc spikeIds
  let cols ← colsFor sf nloc spikeTemplates spikeIds
  fromSparse zero feats cols chans

/-- `get_template_features(spike_ids)`: same resolution, densified over all templates -/
def getTemplateFeatures (zero nan : β) (tf : Sparse β) (nloc : Nat) (spikeTemplates : List Nat)
    (nTemplates : Nat) (spikeIds : List Nat) : Option (List (List β)) :=
  getFeatures zero nan tf nloc spikeTemplates spikeIds (List.range nTemplates)

end PhyVerif.C06
