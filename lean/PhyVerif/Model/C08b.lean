import PhyVerif.Model.C08
import PhyVerif.Model.C07
/-!
Second part of the C08 model: the dominant template of a spike selection as computed by
`_get_template_from_spikes` (phylib/io/model.py:1178-1189: `np.unique(st, return_counts=True)` +
`np.argmax(counts)`), which `get_cluster_channels` (model.py:1229-1232) applies to the spikes of a
cluster.  `get_cluster_mean_waveforms` (model.py:1242-1243) finds its dominant template differently
(`np.argmax` of the dense per-template histogram); `Props/C08.lean` proves that both pick the same
template.
-/
namespace PhyVerif.C08
open PhyVerif

/-- `np.unique(x, return_counts=True)`: sorted distinct values and their multiplicities -/
def uniqueCounts (x : List Nat) : List Nat × List Nat :=
  let u := Np.unique (x.map Int.ofNat)
  (u, u.map fun v => x.count v)

/-- `_get_template_from_spikes(spike_ids)`, model.py:1181-1185: the id of the template that is then
loaded with `get_template` (C05).  An empty selection makes the real `np.argmax` raise ValueError
(the model's `getD` default 0 is outside every theorem's domain). -/
def templateFromSpikes (spikeTemplates spikeIds : List Nat) : Nat :=
  let st := spikeIds.map fun i => spikeTemplates.getD i 0
  let uc := uniqueCounts st
  uc.1.getD (argmaxNat uc.2) 0

/-- the template whose channels `get_cluster_channels(c)` returns:
`_get_template_from_spikes(get_cluster_spikes(c))` -/
def clusterTemplate (st sc : List Nat) (c : Nat) : Nat :=
  templateFromSpikes st (C07.spikesInClusters sc [c])

end PhyVerif.C08
