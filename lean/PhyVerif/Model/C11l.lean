import PhyVerif.Model.C11e
/-!
`merge()` called on a `Merger` that has been used before (phylib/io/merge.py:310-336).

The constructor (merge.py:83-92) stores only `subdirs`, `out_dir`, `probe_info`; everything else a `Merger` holds
is written by the `write_*` methods of a `merge()` call: `spike_order` (merge.py:118), `cluster_offsets`,
`cluster_counts`, `template_offsets` (re-created EMPTY at merge.py:140-142, then appended to once per probe inside
the loop of merge.py:146-158), `channel_offsets`, `channel_index_offsets` (re-created empty at merge.py:199-203,
appended to at merge.py:211-212). These registers stay on the object when `merge()` returns AND when it raises
half-way — e.g. `FileNotFoundError` at merge.py:150 for the `templates.npy` of probe 1 leaves
`cluster_offsets == [0]` — and the next `merge()` of the same object starts with them.

`mergeFrom reg0` is `merge()` started with ARBITRARY registers `reg0` (whatever an earlier call left, complete or
half-filled); `Merger(subdirs, out).merge()` of a fresh object is `mergeFrom {}` (`merge`, by `rfl`). Each step of
`Model/C11e.lean` REPLACES the registers it computes (`{ reg with clusters := sc, … }`), which mirrors the
re-creation of the lists at the top of the two methods; a step that appended to what it finds
(`reg.clusters ++ sc`) would be a different model, for which `merge_again_as_fresh` is false.
-/
namespace PhyVerif.C11
open PhyVerif

/-- `m.merge()` on a Merger whose registers hold `reg0` -/
def mergeFrom (reg0 : Reg) (fs : FS) (subdirs : List String) (out : String) : (FS × Reg) × Option MergeErr :=
  if subdirs.isEmpty then ((fs, reg0), some .noProbes)
  else runSteps ((computes subdirs out).map (saveStep out)) (fs, reg0)

/-- files created or replaced in the probe directories between two calls (a file that was missing is copied in) -/
def applyEdits (fs : FS) (edits : List (Path × File)) : FS :=
  edits.foldl (fun fs e => fs.write e.1 e.2) fs

/-- `m = Merger(subdirs, out); m.merge()` (returns or raises); the directories are edited; `m.merge()` again on the
SAME object: the outcome of the first call, and the outcome of the second -/
def mergeRetry (fs : FS) (edits : List (Path × File)) (subdirs : List String) (out : String) :
    ((FS × Reg) × Option MergeErr) × ((FS × Reg) × Option MergeErr) :=
  let first := merge fs subdirs out
  (first, mergeFrom first.1.2 (applyEdits first.1.1 edits) subdirs out)

end PhyVerif.C11
