import PhyVerif.Model.C01
/-!
Model of the lazy operator mechanism of the raw-data reader (property C02),
phylib/io/traces.py: `_append_op`, `_apply_ops`/`_apply_op`, the operator dunders and
`reader[:, cols]`.

* cells have an arbitrary type `β`; an element-wise operator (with its scalar argument) is an
  arbitrary function `β → β` — the theorems hold for whatever NumPy computes for it;
* op lists live in a heap indexed by address so that aliasing between a reader and the readers
  derived from it is expressible: `derive` follows the three statements of `_append_op`.
-/
namespace PhyVerif.C02
open PhyVerif PhyVerif.C01

/-- one deferred operation: an element-wise operator, or a whole-recording channel selection -/
inductive Op (β : Type) where
  | elem (f : β → β)
  | cols (c : ColSel)

/-- `_apply_op(op, arg, arr)` on a block of rows -/
def applyOp {β : Type} : Op β → List (List β) → List (List β)
  | .elem f, A => A.map fun row => row.map f
  | .cols c, A => A.map (selCols c)

/-- `_apply_ops`: replay the deferred operations in order -/
def applyOps {β : Type} (ops : List (Op β)) (A : List (List β)) : List (List β) :=
  ops.foldl (fun acc op => applyOp op acc) A

/-- heap of op lists, by address -/
abbrev Heap (β : Type) := List (List (Op β))

/-- `_append_op(op)` on the reader whose `_ops` lives at address `r`:
`clone = copy.copy(self)` (shares the address) → `clone._ops = list(self._ops)` (fresh list at a
fresh address) → `clone._ops.append(op)` (in place, at the clone's address).
Returns the new heap and the clone's address. -/
def derive {β : Type} (h : Heap β) (r : Nat) (op : Op β) : Heap β × Nat :=
  let a := h.length
  let h1 := h ++ [h.getD r []]
  let h2 := h1.set a (h1.getD a [] ++ [op])
  (h2, a)

/-- `reader[item]` for the reader whose ops are at address `r`: read + stack the rows, then apply
the deferred operations to the stacked block -/
def eval {β : Type} (h : Heap β) (parts : List (List (List β))) (r : Nat) (item : Item) :
    Option (List (List β)) :=
  (getRows parts item).map (applyOps (h.getD r []))

/-- `reader[item, cols]`: a clone with an extra `cols` op is evaluated (and discarded) -/
def evalCols {β : Type} (h : Heap β) (parts : List (List (List β))) (r : Nat) (item : Item)
    (c : ColSel) : Option (List (List β)) :=
  let d := derive h r (.cols c)
  eval d.1 parts d.2 item

/-- a derivation history: each step derives a new reader from an existing address -/
def runDerivations {β : Type} (h : Heap β) : List (Nat × Op β) → Heap β
  | [] => h
  | (r, op) :: rest => runDerivations (derive h r op).1 rest

end PhyVerif.C02
