import PhyVerif.Model.C01
import PhyVerif.Model.C16d
/-!
C01, the reader OBJECTS: what each backend's constructor stores (phylib/io/traces.py
`FlatEphysReader.__init__` :323-345, `ArrayEphysReader.__init__` :414-423, `NpyEphysReader.__init__`
:431-440, `MtscompEphysReader.__init__` :353-371, dispatch `_get_ephys_constructor` :466-501), the
attribute properties of `BaseEphysReader` (:204-223) and `__getitem__` (:229-252) reading the STORED
`part_bounds`, with the backend's `_get_part` (:347, :373, :425).

`Model/C01.lean` is the mechanism on a bare list of parts; here the same mechanism runs on the fields a
constructor has filled in.  `α` is the (opaque) type of a row.  Core Lean only.
-/
namespace PhyVerif.C01
open PhyVerif

/-- the reader class `get_ephys_reader` picks -/
inductive Backend where
  | flat | array | npy | cbin
deriving DecidableEq, Repr

/-- the fields of a reader object that `__getitem__` and the attribute properties read -/
structure Reader (α : Type) where
  backend : Backend
  /-- `_mmaps` / `[_arr]` / the recording behind the `mtscomp.Reader` — what `_get_part` reads from -/
  store : List (List α)
  partBounds : List Nat
  chunkBounds : List Nat
  nChannels : Nat
  dtype : String
  rate : Rat

/-- a flat binary file: its size in bytes and the complete rows found after the header -/
structure FlatFile (α : Type) where
  fsize : Nat
  rows : List α

/-- a two-dimensional NumPy array: `shape = (rows.length, ncols)` (a shape has a second entry also when
there is no row), `dtype` -/
structure Arr (α : Type) where
  rows : List α
  ncols : Nat
  dtype : String

/-- the `.ch` metadata of a compressed file, as far as `MtscompEphysReader.__init__` reads it through the
`mtscomp.Reader` attributes -/
structure CMeta where
  nChannels : Nat
  dtype : String
  rate : Rat
  chunkBounds : List Nat

/-- what is handed to `get_ephys_reader` -/
inductive Source (α : Type) where
  /-- one or several flat files with `offset=`, the item size of `dtype=`, `n_channels=`, `sample_rate=` -/
  | flat (files : List (FlatFile α)) (offset itemsize nch : Nat) (dtype : String) (rate : Rat)
  /-- an in-memory array -/
  | array (a : Arr α) (rate : Rat)
  /-- a list of `.npy` paths (a single path is the one-element list), each standing for the array `np.load`
  returns -/
  | npy (paths : List (Arr α)) (rate : Rat)
  /-- a list of opened compressed files: metadata and the recording the decoder yields -/
  | cbin (readers : List (CMeta × List α))

/-- `ArrayEphysReader.__init__` (traces.py:414-423): `assert sample_rate > 0`; `chunk_size =
int(round(600.0 * sample_rate))` — the FLOAT product, `C16.chunkSizeFl` of `Model/C16d.lean` (the model C16 has of
the same line; not the exact-rational `C16.chunkSize`, which accepts rates such as the double `1/1200` that the
code rejects); `_get_chunk_bounds` asserts `chunk_size > 0`.  Not modelled: a rate whose float product overflows
(`round(inf)`: OverflowError; excluded by `RateOK`, `Spec/C01b.lean`). -/
def buildArray {α : Type} (be : Backend) (a : Arr α) (rate : Rat) : Option (Reader α) :=
  if rate ≤ 0 then none else
  match C16.readerChunkBoundsFl [a.rows.length] rate with
  | none => none
  | some cb => some
    { backend := be, store := [a.rows], partBounds := [0, a.rows.length], chunkBounds := cb,
      nChannels := a.ncols, dtype := a.dtype, rate := rate }

/-- the constructors.  `none` = the real code raises. -/
def build {α : Type} : Source α → Option (Reader α)
  | .flat files off isz nch dtype rate =>
    -- `paths[0].stem` (:330); `_memmap_flat`: `assert n_channels > 0` (:168), a negative row count
    -- (file shorter than the header) makes `np.memmap` raise
    if files.isEmpty then none
    else if nch = 0 then none
    else if files.any (fun f => decide (f.fsize < off)) then none
    else
      -- `arr.shape[0] for arr in self._mmaps` (:340-342): the row count `_memmap_flat` derived from the size
      let sizes := files.map fun f => memmapRows f.fsize off isz nch
      match C16.readerChunkBoundsFl sizes rate with
      | none => none                   -- `assert chunk_size > 0`
      | some cb => some
        { backend := .flat, store := files.map (·.rows), partBounds := C16.partBounds sizes,   -- `_get_part_bounds`: `[0] + cumsum`
          chunkBounds := cb, nChannels := nch, dtype := dtype, rate := rate }
  | .array a rate => buildArray .array a rate
  | .npy paths rate =>
    -- :432-435 "There should be exactly one path to a npy file."
    match paths with
    | [a] => buildArray .npy a rate
    | _ => none
  | .cbin readers =>
    -- :355-362 `assert reader`; "Taking the first file only."
    match readers with
    | [] => none
    | (m, decoded) :: _ =>
      -- mtscomp.Reader.open: `self.n_samples = self.chunk_bounds[-1]`
      match m.chunkBounds.getLast? with
      | none => none
      | some n => some
        { backend := .cbin, store := [decoded], partBounds := [0, n], chunkBounds := m.chunkBounds,
          nChannels := m.nChannels, dtype := m.dtype, rate := m.rate }

/-! ### attribute properties (traces.py:204-223) -/

/-- `n_samples`: `self.chunk_bounds[-1]` (`none` = IndexError) -/
def Reader.nSamples {α : Type} (r : Reader α) : Option Nat := r.chunkBounds.getLast?

/-- `shape`: `(self.n_samples, self.n_channels)` -/
def Reader.shape {α : Type} (r : Reader α) : Option (Nat × Nat) := r.nSamples.map fun n => (n, r.nChannels)

/-- `duration`: `self.n_samples / float(self.sample_rate)` (`none` = ZeroDivisionError) -/
def Reader.duration {α : Type} (r : Reader α) : Option Rat :=
  r.nSamples.bind fun n => if r.rate = 0 then none else some ((n : Rat) / r.rate)

/-! ### `__getitem__` on the stored bounds -/

/-- what indexing a reader does: a block of rows, the decoder's refusal (`NotImplementedError` of
`mtscomp.Reader.__getitem__` for index lists/arrays), or any other exception -/
inductive Outcome (β : Type) where
  | ok (v : β)
  | refused
  | raised
deriving Repr, DecidableEq

/-- `readSlice` of `Model/C01.lean` with the bounds as a parameter (`self.part_bounds`) -/
def readSliceW {α : Type} (b : List Nat) (parts : List (List α)) (s e : Nat) : List α :=
  let first := ssRight b s - 1
  let last := ssRight b (e - 1) - 1
  let offs := b.zip parts
  (((offs.drop first).take (last + 1 - first)).map (fun ip => slicePart s e ip.1 ip.2)).flatten

/-- the chunk indices the list branch of `_get_subitems` loops over (`np.unique(_find_chunks(...))`, with
its `IndexError` for a chunk beyond the last part) -/
def listChunks (b : List Nat) (l : List Nat) : Option (List Nat) :=
  (Np.unique (l.map fun x => Int.ofNat (ssRight b x - 1))).mapM fun c =>
    if c + 1 ≥ b.length then none else some c

def readListW {α : Type} (b : List Nat) (parts : List (List α)) (l : List Nat) : Option (List α) :=
  let chunks := Np.unique (l.map fun x => Int.ofNat (ssRight b x - 1))
  let pieces := chunks.mapM fun c =>
    if c + 1 ≥ b.length then none else
    match b[c]?, b[c+1]?, parts[c]? with
    | some i0, some i1, some p =>
      ((l.filter fun x => decide (i0 ≤ x) && decide (x < i1)).mapM fun x => p[x - i0]?)
    | _, _, _ => none
  pieces.map List.flatten

def readIntW {α : Type} (b : List Nat) (parts : List (List α)) (i : Nat) : Option (List α) :=
  let c := ssRight b i - 1
  if c + 1 ≥ b.length then none else
  match b[c]?, parts[c]? with
  | some i0, some p => (p[i - i0]?).map fun r => [r]
  | _, _ => none

/-- `getRows` of `Model/C01.lean` with the bounds as a parameter -/
def getRowsW {α : Type} (b : List Nat) (parts : List (List α)) (item : Item) : Option (List α) :=
  let n : Int := (b.getLast?.getD 0 : Nat)
  match item with
  | .slice start stop =>
    let s := normBound (pyOr start 0) n
    let e := normBound (pyOr stop n) n
    if 0 ≤ s ∧ s ≤ n ∧ 0 ≤ e ∧ e ≤ n then
      if e ≤ 0 then none
      else
        let out := readSliceW b parts s.toNat e.toNat
        if ssRight b (e.toNat - 1) < ssRight b s.toNat then none else
        some out
    else none
  | .list l =>
    if l.isEmpty then none
    else if l.any (· < 0) then none
    else readListW b parts (l.map Int.toNat)
  | .int i =>
    if n = 0 then none else
    let i := if i < 0 then i % n else i
    if i < 0 then none else readIntW b parts i.toNat

/-- `reader[item]`: `_get_subitems(self.part_bounds, item)`, then `self._get_part` for each pair, then
`np.vstack`.  The compressed backend's `_get_part` is `self.reader[subitem]` (:375); for the list branch every
sub-item is an index ARRAY, which the decoder refuses — after `_get_subitems` itself has run (it raises for a
negative or out-of-range entry), and only if there is a pair at all (none: `np.vstack([])` raises). -/
def getRowsB {α : Type} (r : Reader α) (item : Item) : Outcome (List α) :=
  match r.backend, item with
  | .cbin, .list l =>
    if l.isEmpty then .raised
    else if l.any (· < 0) then .raised
    else match listChunks r.partBounds (l.map Int.toNat) with
      | none => .raised
      | some [] => .raised
      | some (_ :: _) => .refused
  | _, _ =>
    match getRowsW r.partBounds r.store item with
    | none => .raised
    | some rows => .ok rows

/-- `reader[item, cols]` -/
def getItemB {β : Type} (r : Reader (List β)) (item : Item) (c : ColSel) : Outcome (List (List β)) :=
  match getRowsB r item with
  | .ok rows => .ok (rows.map (selCols c))
  | .refused => .refused
  | .raised => .raised

/-- the deferred `cols` ops of a derived reader, applied in list order to a row of the stacked block
(`_apply_ops`, traces.py:261-264: `for op, arg in self._ops: arr = arr[:, arg]`) -/
def applyCols {β : Type} (ops : List ColSel) (row : List β) : List β :=
  ops.foldl (fun acc c => selCols c acc) row

/-- `reader[:, c1][:, c2]…[item, c]`: every `[:, ck]` returns a clone whose op list has `('cols', ck)`
appended at the END (`_append_op`, traces.py:254-259; the full slice is not read, :238-240); the final
`[item, c]` appends `c` the same way, reads and stacks the rows on the stored part bounds, then applies the
ops in list order.  `ops` = `[c1, c2, …, c]`. -/
def getItemOps {β : Type} (r : Reader (List β)) (item : Item) (ops : List ColSel) :
    Outcome (List (List β)) :=
  match getRowsB r item with
  | .ok rows => .ok (rows.map (applyCols ops))
  | .refused => .refused
  | .raised => .raised

end PhyVerif.C01
