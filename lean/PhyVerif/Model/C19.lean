/-!
Model of `phylib/utils/event.py` (property C19): `EventEmitter` (connect / unconnect / reset /
silent / set_silent / emit) and `ProgressReporter` (value updates, maximum, completion flag).
Core Lean only.  Senders, callbacks, argument values are natural-number tokens; event names and
function names are strings (the event name of a `connect` without `event=` is derived from the
function name, event.py:57-65).
-/
namespace PhyVerif.C19

/-- one entry of `self._callbacks` (event.py:106): (event, sender filter, callback identity, owner
object of a bound-method callback (`f.__self__`), `last=True` flag taken from `**kwargs`) -/
structure Cb where
  event : String
  sender : Option Nat
  id : Nat
  owner : Option Nat
  last : Bool
deriving Repr, DecidableEq

/-- the arguments of one `connect(func, event=None, sender=None, **kwargs)` call (event.py:76):
`fname` is `func.__name__`, `event` the optional `event=` argument -/
structure ConnReq where
  fname : String
  event : Option String
  sender : Option Nat
  id : Nat
  owner : Option Nat
  last : Bool
deriving Repr, DecidableEq

/-- `_get_on_name` (event.py:57-65): `re.match("^on_(.+)$", func.__name__)`; `none` stands for the
`ValueError` it raises.  `.` does not match a newline and `$` also matches just before one final
newline, which is what the `takeWhile`/`dropWhile` pair says. -/
def getOnName (fname : String) : Option String :=
  match fname.toList with
  | 'o' :: 'n' :: '_' :: body =>
    let x := body.takeWhile (· != '\n')
    let r := body.dropWhile (· != '\n')
    if x.isEmpty then none
    else if r.isEmpty || r == ['\n'] then some (String.ofList x) else none
  | _ => none

/-- event.py:101-106: an explicit `event=` wins, otherwise the name is derived from the function;
`none` = `connect` raises `ValueError` and registers nothing -/
def connectCb (r : ConnReq) : Option Cb :=
  match r.event with
  | some e => some ⟨e, r.sender, r.id, r.owner, r.last⟩
  | none =>
    match getOnName r.fname with
    | some e => some ⟨e, r.sender, r.id, r.owner, r.last⟩
    | none => none

/-- what `unconnect(*items)` receives: callback functions and/or objects -/
inductive UItem where
  | cb (id : Nat)
  | obj (o : Nat)
deriving Repr, DecidableEq

/-- keyword arguments of an emit: a dictionary (distinct keys) of value tokens; token 0 is falsy -/
abbrev Kwargs := List (String × Nat)

inductive EOp where
  | connect (r : ConnReq)
  | unconnect (items : List UItem)
  | reset
  | setSilent (b : Bool)
  | enterSilent                 -- `with emitter.silent():` entered
  | exitSilent                  -- … and left
  | emit (event : String) (sender : Nat) (args : List Nat) (kwargs : Kwargs)
deriving Repr

/-- `saved`: the values held by the frames of the currently open `silent()` context managers
(innermost first) -/
structure EState where
  cbs : List Cb
  silent : Bool
  saved : List Bool
deriving Repr

def EState.init : EState := ⟨[], false, []⟩

/-- what one callback invocation `f(sender, *args, **kwargs)` received (event.py:141) -/
structure Call where
  id : Nat
  sender : Nat
  args : List Nat
  kwargs : Kwargs
deriving Repr, DecidableEq

/-- the value `emit` returns -/
inductive Ret where
  | none                        -- silenced: returns None
  | list (l : List Nat)         -- `res`: list of results in call order
  | one (r : Nat)               -- `single`: `res[-1]` right after the first call
deriving Repr, DecidableEq

/-- result of one emit: the invocations in order and the returned value -/
structure EOut where
  calls : List Call
  ret : Ret
deriving Repr, DecidableEq

/-- `f not in items and sender not in items and getattr(f, '__self__', None) not in items` -/
def keeps (items : List UItem) (c : Cb) : Bool :=
  !(items.contains (.cb c.id)) &&
  (match c.sender with | none => true | some s => !(items.contains (.obj s))) &&
  (match c.owner with | none => true | some o => !(items.contains (.obj o)))

/-- `single = kwargs.pop('single', None)` (event.py:130): the truth value of the popped entry and
the dictionary that is forwarded to the callbacks -/
def popSingle (kw : Kwargs) : Bool × Kwargs :=
  ((match kw.lookup "single" with | some v => v != 0 | none => false),
   kw.filter (fun p => p.1 != "single"))

/-- the loop of `emit` over `callbacks` (event.py:136-143).  `calls` records what each callback
received, `res` is the code's result list (`res.append(f(sender, *args, **kwargs))`); the value a
callback returns is `result` of what it received.  With `single` the loop returns `res[-1]`, i.e.
the element just appended. -/
def emitLoop (result : Call → Nat) (event : String) (sender : Nat) (args : List Nat) (kw : Kwargs)
    (single : Bool) : List Cb → List Call → List Nat → EOut
  | [], calls, res => ⟨calls, .list res⟩
  | c :: cs, calls, res =>
    if c.event == event && (match c.sender with | none => true | some s => s == sender) then
      let call : Call := ⟨c.id, sender, args, kw⟩
      if single then ⟨calls ++ [call], .one (result call)⟩
      else emitLoop result event sender args kw single cs (calls ++ [call]) (res ++ [result call])
    else emitLoop result event sender args kw single cs calls res

/-- `emit(event, sender, *args, **kwargs)` (event.py:115-144) -/
def emit (result : Call → Nat) (st : EState) (event : String) (sender : Nat) (args : List Nat)
    (kwargs : Kwargs) : EOut :=
  if st.silent then ⟨[], .none⟩
  else
    let sk := popSingle kwargs
    let callbacks := st.cbs.filter (fun c => !c.last) ++ st.cbs.filter (fun c => c.last)
    emitLoop result event sender args sk.2 sk.1 callbacks [] []

/-- one operation.  `set_silent` and `silent()` act on the same flag whatever the nesting:
`silent()` saves the flag in its frame and restores it on exit (event.py:67-74), `set_silent`
overwrites the flag (event.py:49-51), also inside a context. -/
def estep (result : Call → Nat) (st : EState) : EOp → EState × Option EOut
  | .connect r =>
    match connectCb r with
    | some c => ({ st with cbs := st.cbs ++ [c] }, none)
    | none => (st, none)               -- ValueError: nothing registered
  | .unconnect items => ({ st with cbs := st.cbs.filter (keeps items) }, none)
  | .reset => ({ st with cbs := [] }, none)
  | .setSilent b => ({ st with silent := b }, none)
  | .enterSilent => ({ st with silent := true, saved := st.silent :: st.saved }, none)
  | .exitSilent =>
    match st.saved with
    | [] => (st, none)
    | b :: rest => ({ st with silent := b, saved := rest }, none)
  | .emit e s a kw => (st, some (emit result st e s a kw))

/-- run a history, collecting the outcome of every emit -/
def erun (result : Call → Nat) : EState → List EOp → List EOut
  | _, [] => []
  | st, op :: ops =>
    match estep result st op with
    | (st', some o) => o :: erun result st' ops
    | (st', none) => erun result st' ops

def erunState (result : Call → Nat) : EState → List EOp → EState
  | st, [] => st
  | st, op :: ops => erunState result (estep result st op).1 ops

/-- The value `connect(func, …)` returns: `func` itself (event.py:108 `return func`), so that
`@emitter.connect def on_x(…)` leaves the name `on_x` bound to the function.  The decorator form with
arguments, `emitter.connect(event=…, sender=…, last=…)(func)`, is `partial(self.connect, …)(func)`
(event.py:98-99) and therefore returns the same value.  `none` = `connect` raised `ValueError`. -/
def connectRet (r : ConnReq) : Option Nat :=
  match connectCb r with
  | some _ => some r.id
  | none => none

/-- what the connects of a history return, in order -/
def connectRets : List EOp → List (Option Nat)
  | [] => []
  | .connect r :: ops => connectRet r :: connectRets ops
  | _ :: ops => connectRets ops

/-! ### ProgressReporter -/

inductive ROp where
  | increment
  | setValue (v : Int)
  | setMax (m : Int)
  | setComplete
  | reset (m : Option Int)
deriving Repr

structure RState where
  value : Int
  max : Int
  completed : Bool
deriving Repr, DecidableEq

def RState.init : RState := ⟨0, 0, false⟩

/-- events one operation emits: `progress(value, max)` and possibly `complete` -/
structure ROut where
  progress : Option (Int × Int)
  complete : Bool
deriving Repr, DecidableEq

/-- `_set_value` -/
def setValue (st : RState) (v : Int) : RState × ROut :=
  let completed := if v < st.max then false else st.completed
  let announce := !completed && decide (v ≥ st.max)
  ({ value := v, max := st.max, completed := completed || announce }, ⟨some (v, st.max), announce⟩)

def rstep (st : RState) : ROp → RState × ROut
  | .increment => setValue st (st.value + 1)
  | .setValue v => setValue st v
  | .setComplete => setValue st st.max
  | .setMax m =>
    ({ st with max := m, completed := if m > st.max then false else st.completed }, ⟨none, false⟩)
  | .reset m =>
    let mx := match m with | none => st.max | some m => m
    -- value goes back to 0; a completion announced earlier no longer counts once the value is
    -- below the maximum again
    ({ value := 0, max := mx,
       completed := if decide ((0 : Int) < mx) || decide (mx > st.max) then false else st.completed },
     ⟨none, false⟩)

/-- run a history: (state before, op, state after, output) per step -/
def rrun : RState → List ROp → List (RState × ROp × RState × ROut)
  | _, [] => []
  | st, op :: ops =>
    let (st', out) := rstep st op
    (st, op, st', out) :: rrun st' ops

/-- `is_complete()` (event.py:291-293): `self._value >= self._value_max` -/
def isComplete (st : RState) : Bool := decide (st.value ≥ st.max)

/-- the `progress` property (event.py:299-302): `self._value / float(self._value_max)` as the fraction
(value, max); `none` = `ZeroDivisionError` (maximum 0, which is the initial state) -/
def progressFrac (st : RState) : Option (Int × Int) :=
  if st.max = 0 then none else some (st.value, st.max)

/-- an event a reporter emits -/
inductive REv where
  | progress (value max : Int)
  | complete
deriving Repr, DecidableEq

/-- the events of one operation in emission order: `_set_value` emits `progress` first and `complete`
after it (event.py:249-251) -/
def ROut.events (o : ROut) : List REv :=
  (match o.progress with | some (v, m) => [REv.progress v m] | none => []) ++
    (if o.complete then [REv.complete] else [])

/-- A reporter with messages (`set_progress_message` / `set_complete_message`, event.py:224-243: two
callbacks connected with `sender=self`): which events print their message.  `_default_on_progress`
(event.py:174-182) prints nothing when the maximum is 0 or the value exceeds it; `_default_on_complete`
(event.py:185-189) always prints. -/
def printsMessage : REv → Bool
  | .progress v m => m != 0 && decide (v ≤ m)
  | .complete => true

def ROut.printed (o : ROut) : List REv := o.events.filter printsMessage

end PhyVerif.C19
