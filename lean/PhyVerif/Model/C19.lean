/-!
Model of `phylib/utils/event.py` (property C19): `EventEmitter` (connect / unconnect / reset /
silent / set_silent / emit) and `ProgressReporter` (value updates, maximum, completion flag).
Core Lean only.  Events, senders, callbacks are natural-number tokens.
-/
namespace PhyVerif.C19

/-- one entry of `self._callbacks`: (event, sender filter, callback identity, owner object of a
bound-method callback (`f.__self__`), `last=True` flag) -/
structure Cb where
  event : Nat
  sender : Option Nat
  id : Nat
  owner : Option Nat
  last : Bool
deriving Repr, DecidableEq

/-- what `unconnect(*items)` receives: callback functions and/or objects -/
inductive UItem where
  | cb (id : Nat)
  | obj (o : Nat)
deriving Repr, DecidableEq

inductive EOp where
  | connect (c : Cb)
  | unconnect (items : List UItem)
  | reset
  | setSilent (b : Bool)
  | enterSilent                 -- `with emitter.silent():` entered
  | exitSilent                  -- … and left
  | emit (event sender : Nat) (single : Bool)
deriving Repr

/-- `saved`: the values held by the frames of the currently open `silent()` context managers
(innermost first) -/
structure EState where
  cbs : List Cb
  silent : Bool
  saved : List Bool
deriving Repr

def EState.init : EState := ⟨[], false, []⟩

/-- result of one emit: callbacks called in order (ids) and the returned value -/
inductive Ret where
  | none                        -- silenced: returns None
  | list (l : List Nat)         -- list of results in call order
  | one (r : Nat)               -- `single`: the first result
deriving Repr, DecidableEq

structure EOut where
  calls : List Nat
  ret : Ret
deriving Repr, DecidableEq

/-- `f not in items and sender not in items and getattr(f, '__self__', None) not in items` -/
def keeps (items : List UItem) (c : Cb) : Bool :=
  !(items.contains (.cb c.id)) &&
  (match c.sender with | none => true | some s => !(items.contains (.obj s))) &&
  (match c.owner with | none => true | some o => !(items.contains (.obj o)))

/-- the loop of `emit` over `callbacks` (non-`last` first, then `last`) -/
def emitLoop (event sender : Nat) (single : Bool) : List Cb → List Nat → EOut
  | [], res => ⟨res, .list res⟩
  | c :: cs, res =>
    if c.event == event && (match c.sender with | none => true | some s => s == sender) then
      if single then ⟨res ++ [c.id], .one c.id⟩
      else emitLoop event sender single cs (res ++ [c.id])
    else emitLoop event sender single cs res

def emit (st : EState) (event sender : Nat) (single : Bool) : EOut :=
  if st.silent then ⟨[], .none⟩
  else
    let callbacks := st.cbs.filter (fun c => !c.last) ++ st.cbs.filter (fun c => c.last)
    emitLoop event sender single callbacks []

def estep (st : EState) : EOp → EState × Option EOut
  | .connect c => ({ st with cbs := st.cbs ++ [c] }, none)
  | .unconnect items => ({ st with cbs := st.cbs.filter (keeps items) }, none)
  | .reset => ({ st with cbs := [] }, none)
  | .setSilent b => ({ st with silent := b }, none)
  | .enterSilent => ({ st with silent := true, saved := st.silent :: st.saved }, none)
  | .exitSilent =>
    match st.saved with
    | [] => (st, none)
    | b :: rest => ({ st with silent := b, saved := rest }, none)
  | .emit e s single => (st, some (emit st e s single))

/-- run a history, collecting the outcome of every emit -/
def erun : EState → List EOp → List EOut
  | _, [] => []
  | st, op :: ops =>
    let (st', out) := estep st op
    match out with
    | some o => o :: erun st' ops
    | none => erun st' ops

def erunState : EState → List EOp → EState
  | st, [] => st
  | st, op :: ops => erunState (estep st op).1 ops

/-! ### ProgressReporter -/

inductive ROp where
  | increment
  | setValue (v : Int)
  | setMax (m : Int)
  | setComplete
  | reset (m : Option Int)
deriving Repr

structure RState where
  value : Int
  max : Int
  completed : Bool
deriving Repr, DecidableEq

def RState.init : RState := ⟨0, 0, false⟩

/-- events one operation emits: `progress(value, max)` and possibly `complete` -/
structure ROut where
  progress : Option (Int × Int)
  complete : Bool
deriving Repr, DecidableEq

/-- `_set_value` -/
def setValue (st : RState) (v : Int) : RState × ROut :=
  let completed := if v < st.max then false else st.completed
  let announce := !completed && decide (v ≥ st.max)
  ({ value := v, max := st.max, completed := completed || announce }, ⟨some (v, st.max), announce⟩)

def rstep (st : RState) : ROp → RState × ROut
  | .increment => setValue st (st.value + 1)
  | .setValue v => setValue st v
  | .setComplete => setValue st st.max
  | .setMax m =>
    ({ st with max := m, completed := if m > st.max then false else st.completed }, ⟨none, false⟩)
  | .reset m =>
    let mx := match m with | none => st.max | some m => m
    -- value goes back to 0; a completion announced earlier no longer counts once the value is
    -- below the maximum again
    ({ value := 0, max := mx,
       completed := if decide ((0 : Int) < mx) || decide (mx > st.max) then false else st.completed },
     ⟨none, false⟩)

/-- run a history: (state before, op, state after, output) per step -/
def rrun : RState → List ROp → List (RState × ROp × RState × ROut)
  | _, [] => []
  | st, op :: ops =>
    let (st', out) := rstep st op
    (st, op, st', out) :: rrun st' ops

end PhyVerif.C19
