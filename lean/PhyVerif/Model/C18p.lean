import PhyVerif.Model.C18c
/-!
Model of the parameter files of property C18: `write_python` / `read_python`
(phylib/utils/_misc.py:153-197), for the values `params.py` holds: None, booleans, integers, floats,
strings, and lists / tuples of those.

* `write_python` writes `key = value` lines; a top-level string is written `"%s" % v` (NOT `repr`),
  anything else with `str(v)`, i.e. `repr` of the elements inside lists and tuples.
* `read_python` `exec`s the file and lower-cases the variable names.  The part of Python's parser that
  such files need is modelled: a tokenizer (names/numbers, `=`, brackets, commas, string literals with
  either quote and the escapes `\\ \' \" \n \r \t`) and a literal reader on the tokens.
Core Lean only.
-/
namespace PhyVerif.C18

/-- None, True/False, an integer, a float (given by the text `repr(x)` writes for it), a string -/
inductive PScalar where
  | none
  | bool (b : Bool)
  | int (i : Int)
  | float (lit : String)
  | str (s : String)
deriving DecidableEq, Repr

inductive PVal where
  | scalar (a : PScalar)
  | list (l : List PScalar)
  | tuple (l : List PScalar)
deriving DecidableEq, Repr

/-! ### writing -/

/-- the body of `repr(s)` between the quotes `q` (`unicode_repr`): backslash, the quote in use, tab,
newline and carriage return are escaped; every other character is written as it is (Python writes
other control characters and non-printable code points as `\xhh` / `\uhhhh`: outside this model) -/
def escapeBody (q : Char) : Str → Str
  | [] => []
  | c :: cs =>
    (if c == '\\' then ['\\', '\\']
     else if c == q then ['\\', q]
     else if c == '\n' then ['\\', 'n']
     else if c == '\r' then ['\\', 'r']
     else if c == '\t' then ['\\', 't']
     else [c]) ++ escapeBody q cs

/-- `repr(s)`: single quotes, unless the string contains a single quote and no double quote -/
def reprStr (s : Str) : Str :=
  let q := if s.contains '\'' && !s.contains '"' then '"' else '\''
  q :: (escapeBody q s ++ [q])

def reprScalar : PScalar → Str
  | .none => "None".toList
  | .bool true => "True".toList
  | .bool false => "False".toList
  | .int i => (intToStr i).toList
  | .float lit => lit.toList
  | .str s => reprStr s.toList

/-- `', '.join(...)` -/
def joinComma : List Str → Str
  | [] => []
  | [x] => x
  | x :: y :: rest => x ++ ',' :: ' ' :: joinComma (y :: rest)

/-- the text written after `key = ` (_misc.py:192-194): `'"%s"' % v` for a string, `str(v)` otherwise -/
def strTop : PVal → Str
  | .scalar (.str s) => '"' :: (s.toList ++ ['"'])
  | .scalar a => reprScalar a
  | .list l => '[' :: (joinComma (l.map reprScalar) ++ [']'])
  | .tuple [a] => '(' :: (reprScalar a ++ [',', ')'])
  | .tuple l => '(' :: (joinComma (l.map reprScalar) ++ [')'])

/-- `write_python(path, data)`: one `key = value\n` line per entry, in dictionary order -/
def writePython (d : List (String × PVal)) : Str :=
  d.flatMap fun kv => kv.1.toList ++ (' ' :: '=' :: ' ' :: (strTop kv.2 ++ ['\n']))

/-! ### reading: tokens -/

inductive Tok where
  | punct (c : Char)
  | atom (s : Str)       -- a name or a number
  | str (s : Str)        -- a string literal, unescaped
  | bad                  -- what Python's tokenizer rejects (or this model does not cover)
deriving DecidableEq, Repr

def isPunct (c : Char) : Bool := c == '=' || c == '[' || c == ']' || c == '(' || c == ')' || c == ','
def isSpace (c : Char) : Bool := c == ' ' || c == '\t'
def isQuote (c : Char) : Bool := c == '\'' || c == '"'

/-- the character an escape sequence `\e` stands for (the ones `repr` writes and `\'`, `\"`) -/
def unescape (e : Char) : Option Char :=
  if e == '\\' then some '\\' else if e == '\'' then some '\'' else if e == '"' then some '"'
  else if e == 'n' then some '\n' else if e == 'r' then some '\r' else if e == 't' then some '\t'
  else none

def consAtom (c : Char) : List Tok → List Tok
  | .atom s :: ts => .atom (c :: s) :: ts
  | ts => .bad :: ts

def consStr (c : Char) : List Tok → List Tok
  | .str s :: ts => .str (c :: s) :: ts
  | ts => ts              -- the literal was already found to be bad

mutual
/-- between tokens -/
def tDefault : Str → List Tok
  | [] => []
  | c :: cs =>
    if isSpace c then tDefault cs
    else if isPunct c then .punct c :: tDefault cs
    else if isQuote c then tStr c cs
    else consAtom c (tAtom cs)
/-- inside a name / number: the head of the result is the rest of that token -/
def tAtom : Str → List Tok
  | [] => [.atom []]
  | c :: cs =>
    if isSpace c then .atom [] :: tDefault cs
    else if isPunct c then .atom [] :: .punct c :: tDefault cs
    else if isQuote c then [.atom [], .bad]          -- a string prefix such as r'..' / b'..': not covered
    else consAtom c (tAtom cs)
/-- inside a string literal opened with `q`: the head of the result is the rest of the literal -/
def tStr (q : Char) : Str → List Tok
  | [] => [.bad]                                      -- unterminated string literal
  | c :: cs =>
    if c == q then .str [] :: tDefault cs
    else if c == '\\' then
      match cs with
      | [] => [.bad]
      | e :: cs' =>
        match unescape e with
        | some ch => consStr ch (tStr q cs')
        | none => [.bad]
    else consStr c (tStr q cs)
end

/-! ### reading: literals -/

/-- a name or number token as a value: None / True / False, an integer, or a float (kept as its text).
Python's literal grammar is the grammar of `int()` / `float()` on a token without blanks, minus
`inf`/`nan` (names, not literals) and minus integers with leading zeros such as `007` (a SyntaxError
that `str(int)` never writes; accepted here). -/
def parseAtom (tok : Str) : Option PScalar :=
  if tok == "None".toList then some .none
  else if tok == "True".toList then some (.bool true)
  else if tok == "False".toList then some (.bool false)
  else match parseIntLit tok with
    | some i => some (.int i)
    | none =>
      match parseFloatLit tok with
      | some (.float _ _ _) => some (.float (String.ofList tok))
      | _ => none

def parseScalarTok : Tok → Option PScalar
  | .atom a => parseAtom a
  | .str s => some (.str (String.ofList s))
  | _ => none

/-- the elements between brackets: scalars separated by commas; the flag says whether a comma follows
the last element -/
def parseSeq : List Tok → Option (List PScalar × Bool)
  | [] => some ([], false)
  | [t] => (parseScalarTok t).map fun a => ([a], false)
  | t :: c :: rest =>
    if c == .punct ',' then
      match parseScalarTok t, rest with
      | some a, [] => some ([a], true)
      | some a, _ :: _ => (parseSeq rest).map fun p => (a :: p.1, p.2)
      | none, _ => none
    else none

/-- the tokens after `=` as a value (no nesting: elements are scalars).  `(x)` is just `x`;
`(x,)` and `(x, y)` are tuples. -/
def parseValueToks (ts : List Tok) : Option PVal :=
  match ts with
  | [t] => (parseScalarTok t).map .scalar
  | .punct '[' :: rest =>
    if rest.getLast? == some (.punct ']') then (parseSeq rest.dropLast).map fun p => .list p.1 else none
  | .punct '(' :: rest =>
    if rest.getLast? == some (.punct ')') then
      match parseSeq rest.dropLast with
      | some ([a], false) => some (.scalar a)
      | some (l, _) => some (.tuple l)
      | none => none
    else none
  | _ => none

def keywords : List String :=
  ["False", "None", "True", "and", "as", "assert", "async", "await", "break", "class", "continue", "def",
   "del", "elif", "else", "except", "finally", "for", "from", "global", "if", "import", "in", "is", "lambda",
   "nonlocal", "not", "or", "pass", "raise", "return", "try", "while", "with", "yield"]

/-- an ASCII identifier that is not a keyword -/
def isIdent (k : Str) : Bool :=
  match k with
  | [] => false
  | c :: cs =>
    (c.isAlpha || c == '_') && cs.all (fun x => x.isAlphanum || x == '_') &&
      !keywords.contains (String.ofList (c :: cs))

/-- `d[k] = v`: replace the value of an existing key, else append -/
def dictSet {β : Type} (d : List (String × β)) (k : String) (v : β) : List (String × β) :=
  match d with
  | [] => [(k, v)]
  | (k', v') :: t => if k' == k then (k', v) :: t else (k', v') :: dictSet t k v

/-- one line: `name = value`; a blank line is no statement -/
def parseLine (line : Str) : Option (Option (String × PVal)) :=
  match tDefault line with
  | [] => some none
  | .atom k :: .punct '=' :: vt =>
    if isIdent k then (parseValueToks vt).map fun v => some (String.ofList k, v) else none
  | _ => none

/-- `read_python(path)` on the text of the file: `exec` line by line into a dictionary, then
`{k.lower(): v}`; `none`: the real function raises (SyntaxError, NameError) or the line is outside the
modelled fragment -/
def readPython (text : Str) : Option (List (String × PVal)) :=
  ((fileLines text).mapM parseLine).map fun stmts =>
    let vars := stmts.foldl (fun d s => match s with | some kv => dictSet d kv.1 kv.2 | none => d) []
    vars.foldl (fun d kv => dictSet d kv.1.toLower kv.2) []

end PhyVerif.C18
