import PhyVerif.Model.C04
import PhyVerif.Model.C04c
import PhyVerif.Model.Np
/-!
`TemplateModel._load_data` (phylib/io/model.py:347-477) with the dataset directory returned in EVERY outcome
(`loadAny`): the statement of C04 says what loading leaves in the directory also when it rejects.  The steps are those
of `C04.load`, in the order of `_load_data`, each failing statement returning the directory as it is AT THAT STATEMENT:
`spike_clusters.npy` is created by `_load_spike_clusters` (`shutil.copy`, model.py:623, called at model.py:372) and
`whitening_mat_inv.npy` by `_compute_wmi` (model.py:760, called at model.py:447); everything that fails before model.py:372
leaves the directory as it was, everything that fails between the two leaves the cluster copy behind.
Two rejections `C04.load` does not have are modelled here: an empty spike train (`np.max` of an empty array in
`_load_spike_templates`, model.py:608: ValueError) and the dtype whitelists (model.py:548, 611, 712; cells carry no dtype,
the attributes whose stored dtype is refused are the parameter `bad`).
Also here: the attributes `_load_data` derives from loaded arrays and that no file holds: `template_ids`, `cluster_ids`
(`np.unique`, model.py:369, 376), `probes`, `n_probes` (model.py:404-405).
Core Lean only.
-/
namespace PhyVerif.C04
open PhyVerif

inductive AnyErr where
  | load (e : LoadErr)
  | emptyTrain                 -- no spike: `np.max(np.unique(out))` of an empty array (model.py:608), ValueError
  | dtype (what : String)      -- `assert out.dtype in (...)` (model.py:548, 611, 712), AssertionError
deriving Repr, DecidableEq

/-- `_load_spike_samples` (model.py:644-666): the time source, the sample source and the cells the monotonicity test
sees; `none` = no `spike_times.npy` and no `spikes.times*.npy` -/
def timesOf (d : Dir) : Option (TimeSrc × SampleSrc × List Cell) :=
  match d.lookup "spike_times.npy" with
  | some s => some (TimeSrc.samplesOverRate (squeeze (scrub s)), SampleSrc.file (squeeze (scrub s)), (scrub s).data)
  | none =>
    match readFile d ["spikes.times*.npy"] with
    | none => none
    | some t =>
      match readFile d ["spikes.samples*.npy"] with
      | some s => some (TimeSrc.stored (squeeze (scrub t)), SampleSrc.file (squeeze (scrub s)), (scrub t).data)
      | none => some (TimeSrc.stored (squeeze (scrub t)), SampleSrc.roundedTimes (squeeze (scrub t)), (scrub t).data)

/-- `_load_spike_clusters` (model.py:612-635): the loaded clusters and the directory it leaves (the copy of the
spike-template file when no cluster file exists) -/
def clustersOf (d : Dir) : Except LoadErr (Arr × Dir) :=
  match findPath d ["spike_clusters.npy", "spikes.clusters*.npy"] with
  | some f => match d.lookup f with
    | some a => .ok (squeeze (scrub a), d)
    | none => .error (.missing "spike clusters")
  | none =>
    match findPath d ["spike_templates.npy", "spikes.templates*.npy"] with
    | some f => match d.lookup f with
      | some a => .ok (squeeze (scrub a), d ++ [("spike_clusters.npy", a)])
      | none => .error (.missing "spike templates")
    | none => .error (.missing "spike templates")

/-- `_load_data` on the array files: the outcome AND the directory left behind, in every outcome.
`bad` ⊆ {"spike_templates", "channel_map", "templates"}: attributes whose stored dtype the loader's whitelist refuses.
`one` = the cell standing for 1.0 (as in `C04.load`: the identity that replaces a missing whitening matrix). -/
def loadAny (inv : Arr → Arr) (bad : List String) (d : Dir) (one : Cell := .num 1) : Except AnyErr View × Dir :=
  match timesOf d with                                                      -- model.py:350
  | none => (.error (.load (.missing "spike times")), d)
  | some (times, samples, tcells) =>
  if !monotone tcells then (.error (.load .nonMonotone), d) else            -- model.py:354-355
  let amplitudes := (readFile d ["amplitudes.npy", "spikes.amps*.npy"]).map fun a => squeeze (scrub a)   -- :358
  match readFile d ["spike_templates.npy", "spikes.templates*.npy"] with    -- model.py:363
  | none => (.error (.load (.missing "spike templates")), d)
  | some a0 =>
  if (squeeze (scrub a0)).data.isEmpty then (.error .emptyTrain, d) else    -- model.py:608
  if "spike_templates" ∈ bad then (.error (.dtype "spike templates"), d) else   -- model.py:611
  if (findPath d ["spike_clusters.npy"]).isSome && (findPath d ["spikes.clusters*.npy"]).isSome then
    (.error (.load (.conflict "spike clusters")), d) else                   -- model.py:613-614 (`multiple_ok=False`)
  match clustersOf d with                                                   -- model.py:372: the copy is made HERE
  | .error e => (.error (.load e), d)
  | .ok (sc, d1) =>
  match readFile d1 ["channel_map.npy", "channels.rawInd*.npy"] with        -- model.py:385
  | none => (.error (.load (.missing "channel map")), d1)
  | some a1 =>
  if "channel_map" ∈ bad then (.error (.dtype "channel map"), d1) else      -- model.py:548
  match readFile d1 ["channel_positions.npy", "channels.localCoordinates*.npy"] with   -- model.py:391
  | none => (.error (.load (.missing "channel positions")), d1)
  | some a2 =>
  let shanks := (readFile d1 ["channel_shanks.npy", "channels.shanks*.npy"]).map fun a =>
    { squeeze (scrub a) with shape := [(squeeze (scrub a)).data.length] }
  let probes := (readFile d1 ["channel_probe.npy", "channels.probes*.npy"]).map fun a => atleast 1 (squeeze (scrub a))
  let templates := (readFile d1 ["templates.npy", "templates.waveforms.npy", "templates.waveforms.*.npy"]).map
    fun a => zeroNanTemplates (atleast 3 (squeeze a))                        -- model.py:409
  if templates.isSome && decide ("templates" ∈ bad) then (.error (.dtype "templates"), d1) else   -- model.py:712
  let cols := match templates with
    | some _ => (readFile d1 ["template_ind.npy", "templates.waveformsChannels*.npy"]).map fun a => squeeze (scrub a)
    | none => none
  let wm := (readFile d1 ["whitening_mat.npy"]).map fun a => atleast 2 (squeeze (scrub a))    -- model.py:439
  let (wmi, d2) := match readFile d1 ["whitening_mat_inv.npy"] with           -- model.py:444-447: written HERE
    | some a => (some (atleast 2 (squeeze (scrub a))), d1)
    | none =>
      match wm with
      | some w => (none, d1 ++ [("whitening_mat_inv.npy", inv w)])
      | none => (none, d1 ++ [("whitening_mat_inv.npy", inv (eye one ((atleast 1 (squeeze (scrub a1))).shape.headD 0)))])
  let similar := (readFile d2 ["similar_templates.npy"]).map fun a => atleast 2 (squeeze (scrub a))
  (.ok { times := times, samples := samples, amplitudes := amplitudes, spikeTemplates := squeeze (scrub a0),
         spikeClusters := sc, channelMap := atleast 1 (squeeze (scrub a1)),
         channelPositions := atleast 2 (squeeze (scrub a2)), channelShanks := shanks, channelProbes := probes,
         templates := templates, templateCols := cols, wm := wm, wmi := wmi, similar := similar }, d2)

/-- the rejections that happen before anything is created (model.py:350-371) -/
def AnyErr.early : AnyErr → Bool
  | .load .nonMonotone => true
  | .load (.conflict _) => true
  | .load (.missing w) => w != "channel map" && w != "channel positions"
  | .emptyTrain => true
  | .dtype w => w == "spike templates"

/-! ### attributes derived from loaded arrays -/

/-- `np.unique` of an id vector (ids are non-negative: `Np.unique` lists the non-negative values present) -/
def uniqueIds (a : Arr) : List Nat := Np.unique (a.data.map cellInt)

/-- `ids` is `np.unique` of the cells `data`: strictly increasing, and an INTEGER is listed iff it occurs (stated over
`Int`: a negative value that occurs would have to be listed too) -/
def IsIdSetOf (ids : List Nat) (data : List Cell) : Prop :=
  ids.Pairwise (· < ·) ∧ ∀ z : Int, (∃ v ∈ ids, (v : Int) = z) ↔ ∃ c ∈ data, cellInt c = z

/-- `self.template_ids = np.unique(self.spike_templates)` (model.py:369) -/
def View.templateIds (v : View) : List Nat := uniqueIds v.spikeTemplates
/-- `self.cluster_ids = np.unique(self.spike_clusters)` (model.py:376) -/
def View.clusterIds (v : View) : List Nat := uniqueIds v.spikeClusters
/-- `self.probes = np.unique(self.channel_probes)` (model.py:404), on the probes with their default (zeros) -/
def FullView.probes {β : Type} (fv : FullView β) : List Nat := uniqueIds fv.channelProbes
/-- `self.n_probes = len(self.probes)` (model.py:405) -/
def FullView.nProbes {β : Type} (fv : FullView β) : Nat := fv.probes.length

end PhyVerif.C04
