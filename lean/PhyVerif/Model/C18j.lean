/-!
The TEXT of a string inside the file `save_json` writes (property C18), phylib/utils/_misc.py:136-138:

    with path.open('w') as f:                       # text mode, LOCALE encoding, errors='strict'
        json.dump(data, f, cls=_CustomEncoder, indent=2, sort_keys=True)      # ensure_ascii left at True

and `load_json` (_misc.py:119-123): `path.read_text()` (locale encoding again) then `json.loads`.

A Python `str` is a list of code points `0 .. 0x10FFFF`, LONE SURROGATES INCLUDED (`os.listdir` /
`os.fsdecode` return U+DC80..U+DCFF for the bytes of a file name that is not valid UTF-8, PEP 383), so
strings are `List Nat` here (a Lean `Char` cannot be a surrogate).

* `escChar` / `escapeStr` mirror `json.encoder.py_encode_basestring_ascii` (what `ensure_ascii=True`
  selects; `c_encode_basestring_ascii` is the same function in C): `"` `\` and the five short escapes,
  printable ASCII as it is, every other code point of the BMP as `\uXXXX` (lower-case hex), astral code
  points as a surrogate pair of two `\uXXXX`.
* `scan` mirrors `json.decoder.py_scanstring` (strict) after the opening quote, including the joining
  of a `\uD8xx..\uDBxx` escape that is directly followed by a `\uDCxx..\uDFxx` escape.
* `strictAscii` is the `'ascii'` codec with `errors='strict'` — the encoding `path.open('w')` uses in a
  process whose locale is C / POSIX without UTF-8 mode; the `'utf-8'` codec (`strictUtf8Ok`) refuses
  exactly the surrogates.
-/
namespace PhyVerif.C18

/-- a Python `str`: code points, lone surrogates allowed -/
abbrev PyStr := List Nat

/-- lower-case hexadecimal digit of `n < 16` (`'{0:04x}'.format`) -/
def hexDigit (n : Nat) : Nat := if n < 10 then 48 + n else 87 + n

/-- `'{0:04x}'.format(n)` for `n < 0x10000` -/
def hex4 (n : Nat) : List Nat :=
  [hexDigit (n / 4096 % 16), hexDigit (n / 256 % 16), hexDigit (n / 16 % 16), hexDigit (n % 16)]

/-- `'\\u{0:04x}'.format(n)` -/
def escU (n : Nat) : List Nat := 92 :: 117 :: hex4 n

/-- `replace(match)` of `py_encode_basestring_ascii` (json/encoder.py:55-70) on one code point.  For an
astral `c`, `n = c - 0x10000`, `s1 = 0xd800 | ((n >> 10) & 0x3ff)`, `s2 = 0xdc00 | (n & 0x3ff)` (the
low ten bits of 0xd800 / 0xdc00 are zero, so `|` is `+`). -/
def escChar (c : Nat) : List Nat :=
  if c = 34 then [92, 34]              -- '"'  -> \"
  else if c = 92 then [92, 92]         -- '\\' -> \\
  else if c = 8 then [92, 98]          -- \b
  else if c = 12 then [92, 102]        -- \f
  else if c = 10 then [92, 110]        -- \n
  else if c = 13 then [92, 114]        -- \r
  else if c = 9 then [92, 116]         -- \t
  else if 32 ≤ c ∧ c ≤ 126 then [c]    -- [ -~] stays
  else if c < 65536 then escU c
  else escU (55296 + (c - 65536) / 1024 % 1024) ++ escU (56320 + (c - 65536) % 1024)

/-- the body of the string literal written for `s` (between the two quotes) -/
def escapeStr (s : PyStr) : List Nat := s.flatMap escChar

/-- the string literal written for `s` -/
def strLiteral (s : PyStr) : List Nat := 34 :: (escapeStr s ++ [34])

/-- `int(esc, 16)` on one digit (`_decode_uXXXX`: both cases of the letters are accepted) -/
def hexVal (d : Nat) : Option Nat :=
  if 48 ≤ d ∧ d ≤ 57 then some (d - 48)
  else if 97 ≤ d ∧ d ≤ 102 then some (d - 87)
  else if 65 ≤ d ∧ d ≤ 70 then some (d - 55)
  else none

/-- `_decode_uXXXX` -/
def hex4Val (a b c d : Nat) : Option Nat :=
  match hexVal a, hexVal b, hexVal c, hexVal d with
  | some a, some b, some c, some d => some (((a * 16 + b) * 16 + c) * 16 + d)
  | _, _, _, _ => none

def isHigh (u : Nat) : Bool := 55296 ≤ u && u ≤ 56319      -- 0xd800 <= u <= 0xdbff
def isLow (u : Nat) : Bool := 56320 ≤ u && u ≤ 57343       -- 0xdc00 <= u <= 0xdfff

/-- `BACKSLASH` (json/decoder.py:60-64) -/
def simpleEsc (e : Nat) : Option Nat :=
  if e = 34 then some 34 else if e = 92 then some 92 else if e = 47 then some 47
  else if e = 98 then some 8 else if e = 102 then some 12 else if e = 110 then some 10
  else if e = 114 then some 13 else if e = 116 then some 9 else none

/-- `0x10000 + (((uni - 0xd800) << 10) | (uni2 - 0xdc00))` -/
def joinPair (u u2 : Nat) : Nat := 65536 + ((u - 55296) * 1024 + (u2 - 56320))

/-- prepend a decoded code point to the result of scanning the rest -/
def consRes (c : Nat) (r : Option (PyStr × List Nat)) : Option (PyStr × List Nat) :=
  r.map fun p => (c :: p.1, p.2)

/-- the look-ahead after a `\uD8xx..\uDBxx` escape (json/decoder.py:119-124): `none` when the text does not go
on with `\u`; otherwise `_decode_uXXXX` of the next four characters (`some none` where it raises) -/
def lookU : List Nat → Option (Option Nat)
  | 92 :: 117 :: e :: f :: g :: h :: _ => some (hex4Val e f g h)
  | 92 :: 117 :: _ => some none
  | _ => none

/-- `py_scanstring(s, end, strict=True)` started just after the opening quote: the decoded string and
the text after the closing quote; `none` where the real function raises JSONDecodeError (unterminated
string, control character, invalid escape).  (`c_scanstring`, the function in use, is the same automaton;
`py_scanstring`'s `int(esc, 16)` also accepts four characters such as `+1f0` or `1_f0`, which the encoder
never writes: `none` here.) -/
def scan : List Nat → Option (PyStr × List Nat)
  | [] => none
  | 34 :: rest => some ([], rest)
  | 92 :: 117 :: a :: b :: c :: d :: rest =>
    match hex4Val a b c d with
    | none => none
    | some u =>
      if isHigh u then
        match lookU rest with
        | none => consRes u (scan rest)
        | some none => none
        | some (some u2) =>
          if isLow u2 then consRes (joinPair u u2) (scan (rest.drop 6)) else consRes u (scan rest)
      else consRes u (scan rest)
  | 92 :: e :: rest =>
    match simpleEsc e with
    | some c => consRes c (scan rest)
    | none => none
  | [92] => none
  | c :: rest => if c < 32 then none else consRes c (scan rest)
termination_by l => l.length
decreasing_by all_goals (simp only [List.length_cons, List.length_drop]; omega)

/-- the `'ascii'` codec, `errors='strict'`: bytes = code units, UnicodeEncodeError (`none`) on anything
above 127 -/
def strictAscii (t : List Nat) : Option (List Nat) := if t.all (· < 128) then some t else none

/-- does the `'utf-8'` codec (`errors='strict'`) accept the text?  It refuses exactly the surrogates. -/
def strictUtf8Ok (t : List Nat) : Bool := t.all fun c => !(55296 ≤ c && c ≤ 57343)

/-- `load_json` of what `save_json` wrote for a one-string value, in a process whose locale encoding
is ASCII: encode the literal (write), decode it (read: ASCII bytes are their code units), scan it -/
def strViaAsciiFile (s : PyStr) : Option (PyStr × List Nat) :=
  match strictAscii (strLiteral s) with
  | some (34 :: body) => scan body
  | _ => none

end PhyVerif.C18
