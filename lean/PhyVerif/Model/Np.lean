/-!
List versions of the NumPy / Python primitives phylib uses.  Core Lean only.
Each definition states the NumPy call it stands for; their agreement with NumPy is part of the
trusted base and is exercised by the correspondence runs (never proved).
-/
namespace PhyVerif.Np

/-- `np.cumsum` -/
def cumsumFrom : Nat → List Nat → List Nat
  | _, [] => []
  | acc, x :: xs => (acc + x) :: cumsumFrom (acc + x) xs

def cumsum (l : List Nat) : List Nat := cumsumFrom 0 l

/-- `np.searchsorted(b, x, 'right')` on a sorted list: number of elements ≤ x. -/
def ssRight (b : List Int) (x : Int) : Nat := b.countP (· ≤ x)

/-- `np.searchsorted(b, x, 'left')` on a sorted list: number of elements < x. -/
def ssLeft (b : List Int) (x : Int) : Nat := b.countP (· < x)

/-- Python `a % n` for `n > 0` (result in `[0, n)`), `Int.emod` -/
def pyMod (a n : Int) : Int := a % n

/-- Python `a // n` (floor division) -/
def pyFloorDiv (a n : Int) : Int := Int.fdiv a n

/-- Python sequence indexing with a possibly negative index; `none` = IndexError. -/
def pyGet? {α : Type} (l : List α) (i : Int) : Option α :=
  if 0 ≤ i then l[i.toNat]? else
    if -i ≤ l.length then l[(l.length - (-i).toNat)]? else none

/-- write `v` at position `i` (in range), as `tmp[i] = v` -/
def setAt {α : Type} (l : List α) (i : Nat) (v : α) : List α := l.set i v

/-- The lookup table built by `_index_of(arr, lookup)` (phylib/io/array.py):
`tmp = zeros(max(lookup)+2); tmp[-1] = -1; tmp[lookup] = arange(len(lookup))`
(later duplicates overwrite earlier ones, as NumPy fancy assignment does). -/
def indexTable (lookup : List Nat) : List Int :=
  let m := (lookup.foldl max 0) + 1
  let tmp := (List.replicate (m + 1) (0 : Int)).set m (-1)
  (lookup.zipIdx).foldl (fun t (p : Nat × Nat) => t.set p.1 (p.2 : Int)) tmp

/-- `_index_of(arr, lookup)`: `tmp[arr]` with NumPy negative-index wrap-around;
`none` = IndexError. -/
def indexOf (arr : List Int) (lookup : List Nat) : Option (List Int) :=
  arr.mapM (pyGet? (indexTable lookup))

/-- insert into a sorted duplicate-free list -/
def insertSorted (x : Nat) : List Nat → List Nat
  | [] => [x]
  | y :: ys => if x < y then x :: y :: ys else if x = y then y :: ys else y :: insertSorted x ys

/-- `_unique(x)` (bincount + nonzero): the sorted distinct non-negative values. -/
def unique (l : List Int) : List Nat :=
  (l.filter (0 ≤ ·)).foldl (fun acc v => insertSorted v.toNat acc) []

/-- `np.bincount(x, minlength=m)` for non-negative x -/
def bincount (l : List Nat) (minlength : Nat := 0) : List Nat :=
  let m := max minlength (if l.isEmpty then 0 else l.foldl max 0 + 1)
  (List.range m).map (fun v => l.count v)

/-- `slice(start, stop, step).indices(len)` followed by `range(...)`: the positions Python/NumPy
select for `a[start:stop:step]` on a sequence of length `len` (step ≠ 0). -/
def sliceIdx (len : Nat) (start stop : Option Int) (step : Int) : List Nat :=
  let n : Int := len
  if step > 0 then
    let s := match start with
      | none => 0
      | some s => if s < 0 then max (s + n) 0 else min s n
    let e := match stop with
      | none => n
      | some e => if e < 0 then max (e + n) 0 else min e n
    let cnt := if s < e then ((e - s + step - 1) / step).toNat else 0
    (List.range cnt).map fun (k : Nat) => (s + Int.ofNat k * step).toNat
  else if step < 0 then
    let s := match start with
      | none => n - 1
      | some s => if s < 0 then max (s + n) (-1) else min s (n - 1)
    let e := match stop with
      | none => -1
      | some e => if e < 0 then max (e + n) (-1) else min e (n - 1)
    let cnt := if e < s then ((s - e + (-step) - 1) / (-step)).toNat else 0
    (List.range cnt).map fun (k : Nat) => (s + Int.ofNat k * step).toNat
  else []

/-- `a[idx]` for a list of positions -/
def take {α : Type} (a : List α) (idx : List Nat) : List α := idx.filterMap (a[·]?)

/-- insert `x` before the first element `y` with `le x y` (stable insertion) -/
def insertBy {α : Type} (le : α → α → Bool) (x : α) : List α → List α
  | [] => [x]
  | y :: ys => if le x y then x :: y :: ys else y :: insertBy le x ys

/-- stable sort by structural recursion (what `np.argsort(kind='mergesort'|'stable')` and
`sorted(...)` compute; quadratic, but kernel-reducible and easy to reason about) -/
def isort {α : Type} (le : α → α → Bool) : List α → List α
  | [] => []
  | x :: xs => insertBy le x (isort le xs)

/-- `np.argsort(keys, kind='stable')` -/
def argsortStable (keys : List Int) : List Nat :=
  (isort (fun (a b : Int × Nat) => decide (a.1 ≤ b.1)) keys.zipIdx).map (·.2)

end PhyVerif.Np
