import PhyVerif.Model.C11
import PhyVerif.Model.C12
import PhyVerif.Model.C12c
/-!
`Merger.merge()` (phylib/io/merge.py:285-311) as a function on a FILE SYSTEM: a finite map from
(directory, file name) to file contents that holds the probe directories and the output directory.

* Every write of the merger goes through `self.out_dir / name` (`_save` merge.py:95-98, `write_python`
  merge.py:108, `write_tsv` merge.py:112, `_write_tsv_simple` merge.py:187, `np.save(path)` + `open(path, 'r+b')`
  with `path = self.out_dir / 'templates.npy'` merge.py:231-245): the combinator `saveStep`.
* Every read is `np.load(str(subdir / fn))` (`_load_multiple_files` merge.py:55-58, merge.py:149),
  `read_python(subdir / 'params.py')` (merge.py:101) or `_read_tsv_simple(subdir / fn)` (merge.py:176) on the
  CURRENT file system: reads and writes are interleaved as in the code, so a merge whose output directory is
  one of the probe directories reads back what it has just written (it is not excluded by the constructor).
* The state kept on `self` between the `write_*` methods (`spike_order`, `cluster_offsets`, `cluster_counts`,
  `template_offsets`, `channel_index_offsets`) is the register record `Reg`.
* `merge()` ends with `load_model(self.out_dir / 'params.py')` (merge.py:311): by C04 (`load_frame`) the loader
  creates at most `spike_clusters.npy` (never here: the merger has just written it) and
  `whitening_mat_inv.npy` (exactly when the merger skipped it) in the directory it loads.

Contents are typed by what the merger reads them as; cells are integer tokens (C11/C12 conventions).
Domain of the contents: every stored dimension has size ≥ 2 (`_load_multiple_files` squeezes; the effect is
modelled for the per-spike vectors only: a probe with exactly ONE spike makes `np.concatenate` raise
`ValueError`, error `zeroDim`).
-/
namespace PhyVerif.C11
open PhyVerif

/-- contents of one file -/
inductive File where
  | ints (v : List Int)                        -- spike_times.npy, amplitudes.npy
  | nats (v : List Nat)                        -- spike_clusters/spike_templates/cluster_probes/channel_map/channel_probe.npy
  | table (rows : List (List Nat))             -- pc_feature_ind.npy, template_feature_ind.npy
  | pos (p : List (Int × Int))                 -- channel_positions.npy
  | tmpl (t : List (List (List Int)))          -- templates.npy
  | mat (m : List (List Int))                  -- similar_templates.npy, whitening_mat.npy, whitening_mat_inv.npy
  | tsv (rows : List (Nat × Nat))              -- cluster_*.tsv: (cluster id, value token)
  | params (rate nch : Nat)                    -- params.py: sample_rate, n_channels_dat
  | labels (l : List String)                   -- probes.description.tsv
  | computedInv (wm : Option (List (List Int)))  -- whitening_mat_inv.npy computed by the loader from `wm`
deriving DecidableEq, Repr

/-- (directory, file name) -/
abbrev Path := String × String

/-- a file system: finite map from paths to contents -/
abbrev FS := List (Path × File)

def FS.read (fs : FS) (p : Path) : Option File := fs.lookup p

/-- create or overwrite one file -/
def FS.write (fs : FS) (p : Path) (f : File) : FS := (p, f) :: fs.filter fun e => !(e.1 == p)

/-- file names present in a directory -/
def FS.names (fs : FS) (dir : String) : List String := (fs.filter fun e => e.1.1 == dir).map (·.1.2)

inductive MergeErr where
  | noProbes                               -- `assert subdirs` (merge.py:84)
  | notFound (dir name : String)           -- FileNotFoundError of np.load / read_python
  | badFile (dir name : String)            -- a file of another kind than the merger expects (outside the domain)
  | zeroDim (name : String)                -- ValueError of np.concatenate: a one-element vector was squeezed to 0-d
  | emptyMax (name : String)               -- ValueError of np.max / array.max() on an empty array
  | shape (name : String)                  -- AssertionError (merge.py:50, 161, 228)
  | ragged (name : String)                 -- ValueError of np.concatenate (`_concat`, merge.py:30): the index tables of
                                           -- the probes have rows of different widths
deriving DecidableEq, Repr

/-- state kept on `self` between the `write_*` methods -/
structure Reg where
  order : List Nat := []                   -- self.spike_order
  clusters : List (List Nat) := []         -- the loaded spike_clusters arrays: self.cluster_offsets = idOffsets,
                                           -- self.cluster_counts = max + 1 of each
  templateOffsets : List Nat := []         -- self.template_offsets
  chanIndexOffsets : List Nat := []        -- self.channel_index_offsets
deriving DecidableEq, Repr

abbrev M := Except MergeErr

/-- apply `f` to every probe directory in order, stopping at the first error (`[f(subdir) for subdir in subdirs]`) -/
def loadEach {α β : Type} (f : β → M α) : List β → M (List α)
  | [] => .ok []
  | d :: rest =>
    match f d with
    | .error e => .error e
    | .ok a =>
      match loadEach f rest with
      | .error e => .error e
      | .ok as => .ok (a :: as)

def readInts (fs : FS) (name dir : String) : M (List Int) :=
  match fs.read (dir, name) with
  | some (.ints v) => .ok v
  | some _ => .error (.badFile dir name)
  | none => .error (.notFound dir name)

def readNats (fs : FS) (name dir : String) : M (List Nat) :=
  match fs.read (dir, name) with
  | some (.nats v) => .ok v
  | some _ => .error (.badFile dir name)
  | none => .error (.notFound dir name)

def readTable (fs : FS) (name dir : String) : M (List (List Nat)) :=
  match fs.read (dir, name) with
  | some (.table v) => .ok v
  | some _ => .error (.badFile dir name)
  | none => .error (.notFound dir name)

def readPos (fs : FS) (name dir : String) : M (List (Int × Int)) :=
  match fs.read (dir, name) with
  | some (.pos v) => .ok v
  | some _ => .error (.badFile dir name)
  | none => .error (.notFound dir name)

def readTmpl (fs : FS) (name dir : String) : M (List (List (List Int))) :=
  match fs.read (dir, name) with
  | some (.tmpl v) => .ok v
  | some _ => .error (.badFile dir name)
  | none => .error (.notFound dir name)

def readParams (fs : FS) (name dir : String) : M (Nat × Nat) :=
  match fs.read (dir, name) with
  | some (.params r n) => .ok (r, n)
  | some _ => .error (.badFile dir name)
  | none => .error (.notFound dir name)

/-- an optional matrix file: `none` = no such file in that directory -/
def readMatOpt (fs : FS) (name dir : String) : M (Option (List (List Int))) :=
  match fs.read (dir, name) with
  | some (.mat v) => .ok (some v)
  | some _ => .error (.badFile dir name)
  | none => .ok none

/-- an optional per-cluster TSV: `none` = no such file (`_read_tsv_simple` returns `{}`, the unpacking raises
`ValueError`, the probe is skipped: merge.py:175-179) -/
def readTsvOpt (fs : FS) (name dir : String) : M (Option (List (Nat × Nat))) :=
  match fs.read (dir, name) with
  | some (.tsv v) => .ok (some v)
  | some _ => .error (.badFile dir name)
  | none => .ok none

/-- `_concat` of squeezed per-spike vectors: a one-element vector has become 0-d and cannot be concatenated -/
def concatOK {α : Type} (name : String) (arrays : List (List α)) : M Unit :=
  if arrays.any (fun a => a.length == 1) then .error (.zeroDim name) else .ok ()

/-- `np.max` / `.max()` of every array of a family -/
def maxOK {α : Type} (name : String) (arrays : List (List α)) : M Unit :=
  if arrays.any (fun a => a.isEmpty) then .error (.emptyMax name) else .ok ()

/-- what one `write_*` method does between two saves: reads the current file system, returns the files it
saves (name, contents) and the new registers -/
abbrev Compute := FS → Reg → M (List (String × File) × Reg)

/-- all saves go to `self.out_dir / name` -/
def saveAll (out : String) (fs : FS) (ws : List (String × File)) : FS :=
  ws.foldl (fun fs w => fs.write (out, w.1) w.2) fs

def saveStep (out : String) (c : Compute) (s : FS × Reg) : M (FS × Reg) :=
  match c s.1 s.2 with
  | .error e => .error e
  | .ok (ws, reg) => .ok (saveAll out s.1 ws, reg)

/-- run the steps in order; an exception stops the merge and leaves what has been written so far -/
def runSteps : List (FS × Reg → M (FS × Reg)) → FS × Reg → (FS × Reg) × Option MergeErr
  | [], s => (s, none)
  | st :: rest, s =>
    match st s with
    | .error e => (s, some e)
    | .ok s' => runSteps rest s'

/-- the per-probe tables can be stacked along their rows: every row of every probe has the width of the first row of
the first probe (`np.concatenate(arrs)` of 2-D arrays, merge.py:30) -/
def sameWidth (tables : List (List (List Nat))) : Bool :=
  tables.all fun t => t.all fun row => row.length == ((tables.headD []).headD []).length

section steps
variable (subdirs : List String)

/-- `write_params` (merge.py:99-108) -/
def cParams : Compute := fun fs reg =>
  match loadEach (readParams fs "params.py") subdirs with
  | .error e => .error e
  | .ok ps =>
    match C12.mergeParams ps with
    | none => .error .noProbes
    | some p => .ok ([("params.py", .params p.1 p.2)], reg)

/-- `write_probe_desc` (merge.py:110-112): default labels are the directory names -/
def cProbeDesc : Compute := fun _ reg => .ok ([("probes.description.tsv", .labels subdirs)], reg)

/-- `write_spike_times` (merge.py:114-119) -/
def cSpikeTimes : Compute := fun fs reg =>
  match loadEach (readInts fs "spike_times.npy") subdirs with
  | .error e => .error e
  | .ok times =>
    match concatOK "spike_times.npy" times with
    | .error e => .error e
    | .ok _ =>
      let order := spikeOrder times
      .ok ([("spike_times.npy", .ints (gather times order))], { reg with order := order })

/-- `write_spike_data`, `amplitudes.npy` (merge.py:121-132, 45-52) -/
def cAmplitudes : Compute := fun fs reg =>
  match loadEach (readInts fs "amplitudes.npy") subdirs with
  | .error e => .error e
  | .ok arrays =>
    match concatOK "amplitudes.npy" arrays with
    | .error e => .error e
    | .ok _ =>
      if arrays.flatten.length != reg.order.length then .error (.shape "amplitudes.npy")
      else .ok ([("amplitudes.npy", .ints (gather arrays reg.order))], reg)

/-- `write_spike_data`, `spike_templates.npy`: the UNSHIFTED template ids are saved first (overwritten by
`write_spike_clusters`) -/
def cSpikeTemplatesRaw : Compute := fun fs reg =>
  match loadEach (readNats fs "spike_templates.npy") subdirs with
  | .error e => .error e
  | .ok arrays =>
    match concatOK "spike_templates.npy" arrays with
    | .error e => .error e
    | .ok _ =>
      if arrays.flatten.length != reg.order.length then .error (.shape "spike_templates.npy")
      else .ok ([("spike_templates.npy", .nats (gather arrays reg.order))], reg)

/-- one turn of the loop of `write_spike_clusters` (merge.py:145-149): `np.max(sc)`, `np.max(st)` raise for a
probe without spikes; then the rows of the probe's `templates.npy` (`np.load(..., mmap_mode='r').shape[0]`) -/
def readTemplateCount (fs : FS) (p : String × List Nat × List Nat) : M Nat :=
  if p.2.1.isEmpty then .error (.emptyMax "spike_clusters.npy")
  else if p.2.2.isEmpty then .error (.emptyMax "spike_templates.npy")
  else match readTmpl fs "templates.npy" p.1 with
    | .error e => .error e
    | .ok t => .ok t.length

/-- `write_spike_clusters` (merge.py:134-164) -/
def cSpikeClusters : Compute := fun fs reg =>
  match loadEach (readNats fs "spike_clusters.npy") subdirs with
  | .error e => .error e
  | .ok sc =>
    match loadEach (readNats fs "spike_templates.npy") subdirs with
    | .error e => .error e
    | .ok st =>
      match loadEach (readTemplateCount fs) (subdirs.zip (sc.zip st)) with
      | .error e => .error e
      | .ok counts =>
        let toffs := templateOffsets st counts
        let clusters := gather (shiftIds sc) reg.order
        let probes := clusterProbes sc
        match concatOK "spike_clusters.npy" sc with
        | .error e => .error e
        | .ok _ =>
          if (shiftIds sc).flatten.length != reg.order.length then .error (.shape "spike_clusters.npy")
          else match concatOK "spike_templates.npy" st with
            | .error e => .error e
            | .ok _ =>
              if (shiftBy st toffs).flatten.length != reg.order.length then .error (.shape "spike_templates.npy")
              else if clusters.foldl max 0 + 1 != probes.length then .error (.shape "cluster_probes.npy")
              else .ok ([("spike_clusters.npy", .nats clusters),
                         ("spike_templates.npy", .nats (gather (shiftBy st toffs) reg.order)),
                         ("cluster_probes.npy", .nats probes)],
                        { reg with clusters := sc, templateOffsets := toffs })

/-- `write_cluster_data` for one file name (merge.py:166-187): written only when some row is kept -/
def cClusterData (fn : String) : Compute := fun fs reg =>
  match loadEach (readTsvOpt fs fn) subdirs with
  | .error e => .error e
  | .ok md =>
    let rows := mergeClusterData md reg.clusters
    .ok (if rows.isEmpty then [] else [(fn, .tsv rows)], reg)

/-- `write_channel_data` (merge.py:189-214) -/
def cChannelData : Compute := fun fs reg =>
  match loadEach (readNats fs "channel_map.npy") subdirs with
  | .error e => .error e
  | .ok maps =>
    match maxOK "channel_map.npy" maps with
    | .error e => .error e
    | .ok _ =>
      .ok ([("channel_map.npy", .nats (C12.mergeChannelMaps maps)),
            ("channel_probe.npy", .nats (C12.channelProbes maps))],
           { reg with chanIndexOffsets := C12.chanIndexOffsets maps })

/-- `write_channel_positions` (merge.py:216-229) -/
def cChannelPositions : Compute := fun fs reg =>
  match loadEach (readPos fs "channel_positions.npy") subdirs with
  | .error e => .error e
  | .ok pos =>
    match maxOK "channel_positions.npy" pos with
    | .error e => .error e
    | .ok _ => .ok ([("channel_positions.npy", .pos (C12.mergePositions pos))], reg)

/-- `write_templates` (merge.py:231-261): all probes must have the waveform length of the first -/
def cTemplates : Compute := fun fs reg =>
  match loadEach (readTmpl fs "templates.npy") subdirs with
  | .error e => .error e
  | .ok ts =>
    let ns := ((ts.headD []).headD []).length
    if ts.all (fun t => t.all fun tm => tm.length == ns) then
      .ok ([("templates.npy", .tmpl (C12.mergeTemplates ts))], reg)
    else .error (.shape "templates.npy")

/-- `write_template_data`, `pc_feature_ind.npy` (merge.py:266-286): shifted by `self.channel_index_offsets`; the
shifted tables are stacked by `_concat(arrays, axis=0)` (merge.py:285, 28-30): `np.concatenate` raises `ValueError`
unless every probe's table has the row width of the first (`sameWidth`) -/
def cPcInd : Compute := fun fs reg =>
  match loadEach (readTable fs "pc_feature_ind.npy") subdirs with
  | .error e => .error e
  | .ok tables =>
    if sameWidth tables then
      .ok ([("pc_feature_ind.npy", .table (C12.shiftTables tables reg.chanIndexOffsets))], reg)
    else .error (.ragged "pc_feature_ind.npy")

/-- `write_template_data`, `template_feature_ind.npy`: shifted by `self.template_offsets`, stacked likewise -/
def cTfInd : Compute := fun fs reg =>
  match loadEach (readTable fs "template_feature_ind.npy") subdirs with
  | .error e => .error e
  | .ok tables =>
    if sameWidth tables then
      .ok ([("template_feature_ind.npy", .table (C12.shiftTables tables reg.templateOffsets))], reg)
    else .error (.ragged "template_feature_ind.npy")

/-- `write_misc` for one file name (merge.py:287-309): skipped when a probe has no such file -/
def cMisc (fn : String) : Compute := fun fs reg =>
  match loadEach (readMatOpt fs fn) subdirs with
  | .error e => .error e
  | .ok ms =>
    match C12.mergeOptional ms with
    | none => .ok ([], reg)
    | some m => .ok ([(fn, .mat m)], reg)

end steps

/-- the last line of `merge()`: `load_model(out_dir / 'params.py')` computes and writes the inverse whitening
matrix when the directory has none (model.py:441-445, 747-755; C04 `load_frame`) -/
def cLoadModel (out : String) : Compute := fun fs reg =>
  match fs.read (out, "whitening_mat_inv.npy") with
  | some _ => .ok ([], reg)
  | none =>
    let wm := match fs.read (out, "whitening_mat.npy") with
      | some (.mat m) => some m
      | _ => none
    .ok ([("whitening_mat_inv.npy", .computedInv wm)], reg)

def tsvNames : List String := ["cluster_Amplitude.tsv", "cluster_ContamPct.tsv", "cluster_KSLabel.tsv"]
def miscNames : List String := ["similar_templates.npy", "whitening_mat.npy", "whitening_mat_inv.npy"]

/-- the `write_*` calls of `merge()` in order (merge.py:289-309), then the final load -/
def computes (subdirs : List String) (out : String) : List Compute :=
  [cParams subdirs, cProbeDesc subdirs, cSpikeTimes subdirs, cAmplitudes subdirs, cSpikeTemplatesRaw subdirs,
   cSpikeClusters subdirs] ++ tsvNames.map (cClusterData subdirs) ++
  [cChannelData subdirs, cChannelPositions subdirs, cTemplates subdirs, cPcInd subdirs, cTfInd subdirs] ++
  miscNames.map (cMisc subdirs) ++ [cLoadModel out]

/-- `Merger(subdirs, out).merge()`: the file system afterwards, the registers, and the exception if one was
raised -/
def merge (fs : FS) (subdirs : List String) (out : String) : (FS × Reg) × Option MergeErr :=
  if subdirs.isEmpty then ((fs, {}), some .noProbes)
  else runSteps ((computes subdirs out).map (saveStep out)) (fs, {})

/-- every file name the merger (and the final load) can write -/
def outputNames : List String :=
  ["params.py", "probes.description.tsv", "spike_times.npy", "amplitudes.npy", "spike_templates.npy",
   "spike_clusters.npy", "cluster_probes.npy"] ++ tsvNames ++
  ["channel_map.npy", "channel_probe.npy", "channel_positions.npy", "templates.npy", "pc_feature_ind.npy",
   "template_feature_ind.npy"] ++ miscNames

end PhyVerif.C11
