import PhyVerif.Model.C04
/-!
The directory written by the ALF export (property C13), in the terms of the loader model of C04, so
that "loading the output directory yields the same spikes" becomes a theorem about the composition
`C04.load ∘ exportDir`.  Only the files the loader reads are modelled; cells are tokens.
-/
namespace PhyVerif.C13
open PhyVerif.C04

/-- what the exporter takes from the source model -/
structure Source where
  times : List Int            -- spike times (seconds, as tokens)
  samples : List Int
  clusters : List Int
  templates : List Int        -- spike templates
  amps : List Int
  channelMap : List Int       -- single probe: rawInd = channel map
  positions : List Int        -- (nc, 2) flattened
  waveforms : Arr             -- templates.waveforms, (nt, ns, ncw)
  waveformChannels : Arr      -- templates.waveformsChannels, (nt, ncw)
deriving Repr

def vec (l : List Int) : Arr := ⟨[l.length], l.map Cell.num⟩

/-- `stem[.label].npy` -/
def labelled (label stem : String) : String :=
  if label = "" then stem ++ ".npy" else stem ++ "." ++ label ++ ".npy"

/-- the loader-relevant part of the output directory -/
def exportDir (label : String) (s : Source) : Dir :=
  [ (labelled label "spikes.times", vec s.times),
    (labelled label "spikes.samples", vec s.samples),
    (labelled label "spikes.amps", vec s.amps),
    (labelled label "spikes.clusters", vec s.clusters),
    (labelled label "spikes.templates", vec s.templates),
    (labelled label "channels.rawInd", vec s.channelMap),
    (labelled label "channels.localCoordinates", ⟨[s.channelMap.length, 2], s.positions.map Cell.num⟩),
    (labelled label "templates.waveforms", s.waveforms),
    (labelled label "templates.waveformsChannels", s.waveformChannels) ]

/-- sources in scope: at least two spikes and two channels (no size-1 dimension, which the loader
would squeeze away), per-spike vectors of one length, non-decreasing times.  Nothing is asked of the
label: a `*` in a file NAME is an ordinary character for the lookup. -/
def SourceOK (s : Source) : Prop :=
  2 ≤ s.times.length ∧ s.samples.length = s.times.length ∧ s.clusters.length = s.times.length ∧
  s.templates.length = s.times.length ∧ s.amps.length = s.times.length ∧ 2 ≤ s.channelMap.length ∧
  monotone (s.times.map Cell.num) = true

end PhyVerif.C13
