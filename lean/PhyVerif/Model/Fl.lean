/-!
# IEEE-754 binary64 rounding as a function on exact rationals

Shared by C15 (`correlograms`: `(times*rate).astype(int64)`, `int(rate*bin)`, `int(.5*window/bin)`) and
C16 (`int(round(600.0*rate))`).  A double IS a rational; one IEEE operation (`*`, `/`) on doubles returns
`roundDouble` of the exact rational result (round to nearest, ties to even).  Core Lean only: linked into the
native driver.  Proofs: `Lemmas/Fl.lean`.

What is modelled: precision 53, round-to-nearest-even, with an UNBOUNDED exponent.  `roundDouble` is therefore
defined (and all theorems of `Lemmas/Fl.lean` hold) for every rational; it is what the binary64 unit computes
exactly on `InRange`: `q = 0` or `2^-1022 ≤ |q| < 2^1024 - 2^970` (the result is then a normal double or zero).

NOT modelled (outside `InRange`, where the function below and the hardware differ):
* subnormals: for `0 < |q| < 2^-1022` the hardware rounds to a multiple of `2^-1074` (fewer than 53 significant
  bits); this function keeps 53 bits;
* overflow: for `|q| ≥ 2^1024 - 2^970` the hardware returns `±inf`; this function returns a finite rational;
* NaN, infinities and signed zero (`-0.0` is the rational 0) have no counterpart;
* the inexact flag, other rounding modes, x87 double rounding, fused multiply-add contraction, and NumPy SIMD
  paths of transcendental functions (`pow`, `exp`: not correctly rounded).  `*` and `/` are correctly rounded in
  every CPython / NumPy (scalar or SIMD) path on x86-64 and aarch64, which is what the correspondence stream `fl`
  of `harness/prop_c15.py` checks on this machine.
-/
namespace PhyVerif.Fl

/-- `2^e`, `e` any integer -/
def pow2 (e : Int) : Rat := (2 : Rat) ^ e

/-- `|x|` (core Lean, no lattice structure needed) -/
def absR (x : Rat) : Rat := if 0 ≤ x then x else -x

/-- round to the nearest integer, ties to the even neighbour (`rint`) -/
def rne (x : Rat) : Int :=
  let f := x.floor
  let r := x - (f : Rat)
  if r < 1 / 2 then f
  else if 1 / 2 < r then f + 1
  else if f % 2 = 0 then f else f + 1

/-- `⌊log₂ q⌋` for `q > 0`: with `2^a ≤ num < 2^(a+1)` and `2^b ≤ den < 2^(b+1)` the answer is `a - b` or
`a - b - 1`; one comparison decides.  (For `q ≤ 0` the value is meaningless and never used.) -/
def ilog2 (q : Rat) : Int :=
  let a : Int := (q.num.toNat.log2 : Nat)
  let b : Int := (q.den.log2 : Nat)
  if pow2 (a - b) ≤ q then a - b else a - b - 1

/-- exponent of the unit in the last place of the binade of `q > 0`: `2^(e+52) ≤ q < 2^(e+53)` -/
def expOf (q : Rat) : Int := ilog2 q - 52

/-- rounding of a positive rational: the nearest multiple of `2^e`, `e = expOf q`, ties to the even multiple.
The significand `rne (q / 2^e)` lies in `[2^52, 2^53]` (`2^53` = the next power of two, again a double). -/
def roundPos (q : Rat) : Rat := (rne (q / pow2 (expOf q)) : Rat) * pow2 (expOf q)

/-- IEEE-754 binary64 round-to-nearest, ties-to-even, exponent range unbounded (see the header for the range
on which this is the hardware's result). -/
def roundDouble (q : Rat) : Rat :=
  if q = 0 then 0 else if 0 < q then roundPos q else -roundPos (-q)

/-- exponent of the last place of `q ≠ 0`: half an ulp is `2^(ulpExp q - 1)` -/
def ulpExp (q : Rat) : Int := expOf (absR q)

/-- a number with at most 53 significant bits: `k · 2^e`, `|k| ≤ 2^53`, any exponent -/
def IsDouble (x : Rat) : Prop := ∃ (k e : Int), k.natAbs ≤ 2 ^ 53 ∧ x = (k : Rat) * pow2 e

/-- normalised form `± m · 2^e` with `2^52 ≤ m < 2^53` -/
def Normal53 (x : Rat) : Prop :=
  ∃ (m e : Int), 2 ^ 52 ≤ m ∧ m < 2 ^ 53 ∧ absR x = (m : Rat) * pow2 e

/-- the same with the binary64 exponent range: a normal double -/
def NormalBinary64 (x : Rat) : Prop :=
  ∃ (m e : Int), 2 ^ 52 ≤ m ∧ m < 2 ^ 53 ∧ -1074 ≤ e ∧ e ≤ 971 ∧ absR x = (m : Rat) * pow2 e

/-- the inputs on which `roundDouble` is the binary64 result: zero, or magnitude in the normal range below the
overflow threshold (`2^1024 - 2^970` is half-way between the largest double and `2^1024`; it rounds to `inf`) -/
def InRange (q : Rat) : Prop := q = 0 ∨ (pow2 (-1022) ≤ absR q ∧ absR q < pow2 1024 - pow2 970)

instance (q : Rat) : Decidable (InRange q) := by unfold InRange; infer_instance

/-- executable check that `x` is a double in the sense of `IsDouble` (used by the driver only) -/
def isDoubleB (x : Rat) : Bool := roundDouble x == x

end PhyVerif.Fl
