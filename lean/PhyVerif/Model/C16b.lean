import PhyVerif.Model.C01
import PhyVerif.Model.C16
/-! Composition of the reader model (C01) with its chunk iterator (C16): what a caller gets who
reads a recording chunk by chunk (`for i0, i1 in reader.iter_chunks(): reader[i0:i1]`). -/
namespace PhyVerif.C16
open PhyVerif PhyVerif.C01

/-- `reader[i0:i1]` for each `(i0, i1)` of the reader's chunk iterator, stacked -/
def readByChunks {α : Type} (parts : List (List α)) (cs : Nat) : Option (List α) :=
  ((iterChunksBase (getChunkBounds (parts.map List.length) cs)).mapM
    (fun ab => getRows parts (.slice (some (Int.ofNat ab.1)) (some (Int.ofNat ab.2))))).map List.flatten

end PhyVerif.C16
